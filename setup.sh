#!/bin/sh
# Build the framework from files on disk only (offline): Lean library, proofs, model driver, harness.
set -e
cd "$(dirname "$0")"
export GOFLAGS=-mod=mod GOPROXY=off GOSUMDB=off GOTOOLCHAIN=local
mkdir -p .build evidence replays
export GOCACHE="$PWD/.build/gocache"
sed "s#@REPO@#${VERIF_REPO:-/repo}#" harness/go.mod.in > harness/go.mod
cp "${VERIF_REPO:-/repo}/go.sum" harness/go.sum
(cd harness && go build -tags verif -o ../.build/harness .)
.build/harness facts "${VERIF_REPO:-/repo}" > lean/Bch/Generated/Facts.lean.new && mv lean/Bch/Generated/Facts.lean.new lean/Bch/Generated/Facts.lean
(cd lean && lake build Bch Bch.Audit Bch.Tie bchmodel $(ls Bch/Props/C??*.lean | sed "s#Bch/Props/\(C[0-9A-Za-z]*\).lean#Bch.Props.\1#"))
echo setup done
