#!/bin/sh
# eval_seeded.sh <ID> <outdir>: confirm the seeded change in a scratch worktree, then run the quick check against it
ID="$1"; OUT="$2"
R=$(python3 -c "import json;print(json.load(open('$OUT/meta.json'))['demo_run'])")
D=$(python3 -c "import json;print(json.load(open('$OUT/meta.json'))['demo_dir'])")
echo "== $ID dir=$D run=$R"
/verif/checklib/confirm_seeded.sh "$ID" "$OUT" "$D" "$R"
/verif/checklib/try_seeded.sh "$ID" "$OUT/patch.diff" 2>&1 | grep -v "^\[check\]" | tail -2 | cut -c1-220
