#!/usr/bin/env python3
"""keep_seeded.py <id> <outdir> <name> <verdict-line> : store a confirmed seeded change under /verif/seeded/<name>/"""
import sys, os, json, shutil
pid, out, name, verdict = sys.argv[1:5]
dst = os.path.join("/verif/seeded", name)
os.makedirs(dst, exist_ok=True)
for f in os.listdir(out):
    if f.endswith((".diff", ".go", ".json", ".txt")):
        shutil.copy(os.path.join(out, f), dst)
m = {}
mp = os.path.join(dst, "meta.json")
if os.path.exists(mp):
    try:
        m = json.load(open(mp))
    except Exception:
        m = {"raw_meta": open(mp).read()}
m["property"] = pid
m["check_result"] = verdict
m["confirmed_by"] = "patch applied to a scratch worktree: full suite passes, demo fails with the patch and passes without (re-run by the orchestrator, see 'orchestrator_ran')"
m.setdefault("orchestrator_ran", [])
json.dump(m, open(mp, "w"), indent=1)
print("kept", dst)
