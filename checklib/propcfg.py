"""Per-property configuration for ./check."""

COMMON_ASSUME = [
    "Go compiler/runtime and the external packages named in DESIGN.md section 2 behave as the executable stand-ins in lean/Bch/Prim (validated only by the correspondence runs)",
]

HOOK_COMMITS = []

PROPS = {
    "C07": dict(
        level_text="Kernel-checked Lean theorems (all byte strings, all alphabet strings, all hrp/data within the limit) about an executable model of base58/base58check/bech32; the model is compared with the real code on generated + exhaustive small-scope inputs on every run, including slice-capacity purity probes.",
        level_note="Trusted: Lean kernel + propext/Classical.choice/Quot.sound; SHA-256 is a parameter in theorems and lean/Bch/Prim/Sha2.lean in the driver; Go runtime. Modelled not verified: math/big (as Nat), strings.ToLower/ToUpper/IndexByte.",
        assumptions=COMMON_ASSUME + ["double-SHA256 is a parameter of the Base58Check theorems (only its 32-byte output length is used)"],
    ),
}

_addr_note = ("Trusted: Lean kernel + propext/Classical.choice/Quot.sound; SHA-256/RIPEMD-160/secp256k1 are parameters in theorems "
              "and lean/Bch/Prim in the driver; Go runtime; chaincfg network table (re-read every run into Generated/Facts.lean). "
              "Modelled not verified: strings.EqualFold (as ASCII folding; justified in Model/Address.lean), encoding/hex, bchec.ParsePubKey.")
PROPS["C01"] = dict(
    level_text="Kernel-checked Lean theorems about an executable model of address.go (CashAddr codec, the six address kinds, the DecodeAddress cascade); the model is compared with the real code on every run over all kinds x nets x renderings, including an exhaustive single-bit sweep.",
    level_note=_addr_note, assumptions=COMMON_ASSUME)
PROPS["C02"] = dict(
    level_text="Kernel-checked Lean theorems (canonicity, rejection lemmas) about the same model as C01; correspondence on near-valid strings with recomputed checksums (all 256 version bytes x payload lengths, padding bits, foreign prefixes, Base58Check over all versions, hex public keys).",
    level_note=_addr_note, assumptions=COMMON_ASSUME)
PROPS["C03"] = dict(
    level_text="Kernel-checked linearity + lifting theorems over the polymod step functions; the finite independence enumeration is evaluated by compiled code (see level_note); correspondence on chosen-syndrome words and random <=5 / <=4 substitutions.",
    level_note=_addr_note, assumptions=COMMON_ASSUME)
PROPS["C06"] = dict(
    level_text="Kernel-checked Lean theorems (round trip for every 32-byte key/net/flag; accept-iff; canonical re-encoding) about an executable model of wif.go on top of the Base58 model; correspondence incl. near-valid strings with recomputed checksums.",
    level_note=_addr_note, assumptions=COMMON_ASSUME)
_hd_note = ("Trusted: Lean kernel + propext/Classical.choice/Quot.sound; HMAC-SHA512, Hash160, SHA-256d and the secp256k1 group are parameters in "
            "theorems (laws listed next to each theorem) and lean/Bch/Prim in the driver; Go runtime, math/big (as Nat), bchec.")
PROPS["C04"] = dict(
    level_text="Refinement theorems from the byte-level model of extendedkey.go to an independent transcription of BIP32 over an abstract group; on every run the implementation is compared with both the model and the executable BIP32 spec (HMAC-SHA512 + secp256k1 in Lean) along generated paths incl. leading-zero scalars, depth 255 and neutered branches.",
    level_note=_hd_note, assumptions=COMMON_ASSUME)
PROPS["C05"] = dict(
    level_text="Round-trip and accept-iff theorems for NewKeyFromString/String over the HD model; correspondence on derived keys and near-valid 82-byte payloads with recomputed checksums (bit/byte corruptions, scalar and point edge values, wrong lengths, leading '1').",
    level_note=_hd_note, assumptions=COMMON_ASSUME)
_bloom_note = ("Trusted: Lean kernel + propext/Classical.choice/Quot.sound; Go runtime; wire message structs; txscript.PushedData/GetScriptClass and transaction hashes are "
               "external: their results are inputs of the model (printed by the harness with each case); double-SHA256 is lean/Bch/Prim/Sha2.lean in the driver and a parameter in theorems.")
PROPS["C09"] = dict(
    level_text="Theorems over the UInt32 model of MurmurHash3 and the bit-array filter (no false negatives by induction over operation histories; bit-exact BIP37 index formula; sizing clamps); every run replays generated histories on the real filter and compares every answer and the final bit array.",
    level_note=_bloom_note, assumptions=COMMON_ASSUME)
PROPS["C10"] = dict(
    level_text="Theorems about matchTxAndUpdate / the block scan over any filter with add_matches/add_mono; correspondence on real wire transactions and blocks (spend graphs x block orders x flags), comparing verdicts, index lists of all three entry points and filter bytes.",
    level_note=_bloom_note, assumptions=COMMON_ASSUME)
PROPS["C11"] = dict(
    level_text="extract(build) round-trip theorem for every n and subset by induction on tree height (generic hash); both Go builders are compared with the single model (all subsets for small n, every n<=65, random large n).",
    level_note=_bloom_note, assumptions=COMMON_ASSUME)
PROPS["C12"] = dict(
    level_text="Soundness theorem with explicit merkle-branch witness for every message; the Go-shaped extractor model is proved equal to a parser-style independent evaluation; exhaustive small scope + mutated honest proofs compared with the real ExtractMatches.",
    level_note=_bloom_note, assumptions=COMMON_ASSUME)
_gcs_note = ("Trusted: Lean kernel + propext/Classical.choice/Quot.sound; SipHash-2-4 is a parameter in theorems and lean/Bch/Prim/SipHash.lean in the driver; kkdai/bstream is "
             "modelled as an MSB-first bit list (justified in DESIGN C13); sort.Slice as a sorting function; wire.Read/WriteVarInt as Model.Gcs.read/writeVarInt; Go runtime.")
PROPS["C13"] = dict(
    level_text="Theorems over the UInt64/bit-list model of gcs.go (fastReduction = floor(v*n/2^64); Golomb-Rice round trip; members match through every strategy; strategies agree on built filters); every run compares filter bytes and all four query answers with the real code, incl. a directed low-32-bit collision search.",
    level_note=_gcs_note, assumptions=COMMON_ASSUME)
PROPS["C14"] = dict(
    level_text="Bit-exact BIP158-style encoding theorem and serialisation round trips over the same model, plus the builder chain/basic block filter model; correspondence on filter bytes, all four serialisations, rebuilt filters, raw/truncated/non-canonical CompactSize inputs, builder chains and random blocks.",
    level_note=_gcs_note, assumptions=COMMON_ASSUME)
PROPS["C16"] = dict(
    level_text="Cache-coherence invariant over all accessor interleavings of a handle-based model of block.go/tx.go; every run replays random accessor scripts on real blocks (4 constructors, trailing bytes, out-of-range indices) comparing values and pointer-identity classes with the model.",
    level_note="Trusted: Lean kernel + standard axioms; wire (de)serialisation, hashes and DeserializeTxLoc are external: their results are inputs of the model (laws stated with the theorems); Go runtime.",
    assumptions=COMMON_ASSUME)
PROPS["C17"] = dict(
    level_text="Theorems over an exact-integer model of IEEE-754 binary64 (Prim/F64: mul/div/round/format mirrored from Go and cross-checked on 77k vectors); every run compares bit patterns and strings with the real code on tie/binade/neighbour-directed floats and evaluates the nearest/odd/monotone/round-trip/exact-text predicates exactly (rational arithmetic) on the implementation's answers.",
    level_note="Trusted: Lean kernel + standard axioms; amd64 float semantics without FMA; math.Round/Pow10 and strconv.FormatFloat are external and mirrored in lean/Bch/Prim/F64.lean; float->int64 conversion out of range is outside the property.",
    assumptions=COMMON_ASSUME)
PROPS["C18"] = dict(
    level_text="Order-theory theorems (lessIn/lessOut are the BIP69 strict weak orders; Sort is a sorted permutation for any sort meeting sort.Sort's contract; IsSorted iff; idempotence) over the txsort model; every run compares all permutations of small tie-rich key sets and random transactions with the real code and re-checks permutation/order/non-destructiveness with independent spec-side keys.",
    level_note="Trusted: Lean kernel + standard axioms; sort.Sort's contract (permutation, sorted for a strict weak order; stable insertion sort for n<=12) and MsgTx.Copy being a deep copy are external assumptions validated by the aliasing probe; Go runtime.",
    assumptions=COMMON_ASSUME)
PROPS["C19"] = dict(
    level_text="Theorems over the coin-set/selector model (totals = sums over contents for every push/pop/shift history; prefix characterisation of the three simple selectors; the four clauses for min-priority); every run evaluates the property clauses on the real selectors' answers (thorough: exhaustive over <=4 coins x all parameters, 5.6e5 cases).",
    level_note="Trusted: Lean kernel + standard axioms; sort.Sort as stable insertion sort for <=12 elements (the property's scope); container/list as a list; Go runtime; no int64 overflow at these sizes.",
    assumptions=COMMON_ASSUME)
PROPS["C15"] = dict(
    level_text="Heap-level model (buffers + slice references) of extendedkey.go with a disjointness invariant over all operation histories and an erasure theorem for Zero; every run replays random histories (NewMaster/NewKeyFromString/Child/Neuter/SetNet/Zero/accessors over a pool of keys) on the real code, comparing every key's serialisation after every step and the *overlap relation between the real slices' address ranges* (hook VerifFieldRanges) with the model's.",
    level_note=_hd_note + " Memory addresses are read through the verif hook; version slices alias immutable global tables and are excluded from the overlap relation.",
    assumptions=COMMON_ASSUME)
PROPS["C08"] = dict(
    level_text="Totality by construction: every modelled entry point is a total Lean function whose only failure mode is an explicit error value (Go panics are checked primitives), with no_fault theorems per entry point; every run sweeps the near-valid and malformed streams of all parsers (valid checksums over degenerate content, empty bit arrays, extreme counts, heterogeneous JSON, truncated blocks) against the real code under a wall-clock limit and an allocation budget proportional to the input.",
    level_note="Trusted: Lean kernel + standard axioms. PARTIAL for the runtime clauses: termination/time and memory are properties of the Go runtime; the model proves fault-freedom and step bounds of the modelled logic, the harness measures time (20 s/case limit) and TotalAlloc (64 MiB + 4 KiB per input char). External decoders (wire, encoding/json, OpenBazaar jsonpb) are not modelled, only exercised.",
    assumptions=COMMON_ASSUME)
PROPS["C20"] = dict(
    race=True,
    level_text="Lock skeletons of every exported bloom.Filter method and write sets of every gcs.Filter method are re-extracted from the Go source (go/ast) on every run and proved well-bracketed / empty by kernel evaluation; a generic Lean theorem over all interleavings shows well-bracketed methods are data-race free and linearizable in lock order. Supporting validation: every run stresses one shared filter from up to 32 goroutines under the Go race detector and compares the final bit array with the order-independent sequential result.",
    level_note="Trusted: Lean kernel + standard axioms; the go/ast skeleton extractor (harness/facts.go); PARTIAL for the runtime: sync.Mutex, the scheduler and the Go memory model are assumed, a data race is a runtime event the model cannot exhibit; the race detector run is supporting evidence, not proof.",
    assumptions=COMMON_ASSUME)

TIES = {
    "C01": ["Addr", "Base58"], "C02": ["Addr", "Base58"], "C03": ["Addr", "Bech32"],
    "C04": ["HD", "Base58"], "C05": ["HD", "Base58"], "C06": ["Base58", "Addr"], "C07": ["Base58", "Bech32"],
    "C08": ["Limits"], "C09": ["Limits"], "C10": ["Limits"], "C11": ["Limits"], "C12": ["Limits"],
    "C13": ["Gcs"], "C14": ["Gcs"], "C15": ["HD"], "C16": [], "C17": ["Amount"], "C18": [], "C19": [],
    "C20": ["Locking", "GcsImmutable"],
}
# further theorem modules of a property (built and axiom-audited with it; they live in the namespace Bch.Props.<ID>)
EXTRA_MODULES = {
    "C01": ["Bch.Props.C01Script"], "C04": ["Bch.Props.C04Addr"], "C05": ["Bch.Props.C05Reach"],
    "C08": ["Bch.Props.C08BloomTx", "Bch.Props.C08Cost", "Bch.Props.C08Builders"], "C10": ["Bch.Props.C10Fuel", "Bch.Props.C10Script"], "C16": ["Bch.Props.C16Tx", "Bch.Props.C16Raw"],
    "C19": ["Bch.Props.C19AnySort", "Bch.Props.C19Heap"], "C20": ["Bch.Props.C20All"],
    "C07": ["Bch.Props.C07Spec"], "C11": ["Bch.Props.C11Select", "Bch.Props.C11Heap"], "C12": ["Bch.Props.C12Heap"], "C18": ["Bch.Props.C18Heap"], "C09": ["Bch.Props.C09Obj", "Bch.Props.C09Shared"], "C15": ["Bch.Props.C15New"],
}
for _k, _v in EXTRA_MODULES.items():
    PROPS[_k]["modules"] = PROPS[_k].get("modules", []) + _v

# the number of property theorems (namespace Bch.Props.<ID>) each check must find; fewer means theorems were deleted or
# renamed away (more is fine)
MIN_THEOREMS = {"C01": 28, "C02": 19, "C03": 17, "C04": 49, "C05": 20, "C06": 15, "C07": 67, "C08": 161, "C09": 35, "C10": 50, "C11": 29, "C12": 20, "C13": 22, "C14": 36, "C15": 48, "C16": 47, "C17": 45, "C18": 33, "C19": 29, "C20": 29}
for _k, _v in MIN_THEOREMS.items():
    PROPS[_k]["min_theorems"] = _v

# state-footprint ties (Bch/Tie/State*.lean): the model of each source group has exactly the state the code has
STATE_TIES = {
    "C01": ["StateAddr", "StateBase58"], "C02": ["StateAddr", "StateBase58"], "C03": ["StateAddr", "StateBech32"],
    "C04": ["StateHD", "StateBase58"], "C05": ["StateHD", "StateBase58"], "C15": ["StateHD"],
    "C06": ["StateWif", "StateBase58"], "C07": ["StateBase58", "StateBech32"],
    "C08": ["StateAddr", "StateWif", "StateBase58", "StateBech32", "StateHD", "StateBloom", "StateMerkle", "StateGcs", "StateBlock"],
    "C09": ["StateBloom", "Locking"], "C10": ["StateBloom", "Locking"], "C20": ["StateBloom", "StateGcs"],
    "C11": ["StateMerkle", "StateBloom"], "C12": ["StateMerkle"],
    "C13": ["StateGcs", "StateGcsBuilder"], "C14": ["StateGcs", "StateGcsBuilder"],
    "C16": ["StateBlock"], "C17": ["StateAmount"], "C18": ["StateTxsort"], "C19": ["StateCoinset"],
}
for _k, _v in STATE_TIES.items():
    TIES[_k] = TIES[_k] + [t for t in _v if t not in TIES[_k]]
for _k, _v in TIES.items():
    PROPS[_k]["ties"] = _v

# Properties that rest on the same model also share their correspondence streams: a disagreement between the model
# and the code found by the generator of a sibling property unties this property's theorems from the code as well
# (e.g. an aliasing defect between sibling extended keys shows in C15's histories and invalidates the C04 model).
SHARED = {
    "C01": ["C02", "C07"], "C02": ["C01", "C07"], "C03": ["C02", "C07"],
    "C04": ["C15", "C05"], "C05": ["C04", "C15", "C07"], "C15": ["C04", "C05"], "C06": ["C07"],
    "C08": ["C09", "C12", "C13", "C16", "C15"],
    "C09": ["C10", "C20"], "C10": ["C09"], "C20": ["C09", "C10"],
    "C11": ["C12"], "C12": ["C11"],
    "C13": ["C14"], "C14": ["C13"],
}
for _k, _v in SHARED.items():
    PROPS[_k]["shared_streams"] = _v

# non-vacuity floors: the substitution predicates of C03 answer "not applicable" for cases that are not <= 5 / <= 4
# substitutions of a valid string; at least this many cases per tier must have been applicable (seed 1 quick: ~5000 each)
PROPS["C03"]["min_prop_ok"] = {"quick": {"csub": 1000, "bsub": 1000}, "thorough": {"csub": 1000, "bsub": 1000}}

# C03: the two finite independence enumerations are evaluated by compiled code (native_decide), see DESIGN section 3
PROPS["C03"]["allow_axiom_regex"] = r"^Bch\.Proofs\.C03Enum\.(cashaddr|bech32)_slices\._native\.native_decide\.ax_"
PROPS["C03"]["level_note"] = ("Trusted: Lean kernel + propext/Classical.choice/Quot.sound, PLUS the Lean compiler/runtime for exactly two facts "
    "(Bch.Proofs.C03Enum.cashaddr_slices / bech32_slices, `native_decide`: every set of <=5 of 112 (resp. <=4 of 89) symbol positions has GF(2)-independent syndrome columns); "
    "everything else (linearity, soundness of the search, the lift to the decoders) is kernel-only. The probed syndrome tables of the real code are tied to the model by Tie/Addr and Tie/Bech32.")

# ---- final level texts (proof status as delivered; DESIGN.md section 6/9)
PROPS["C03"]["level_text"] = ("Kernel-checked linearity of both polymod step functions, soundness of an XOR-basis search (checkIndep_sound) and the lift to the byte-level decoders "
    "(C03_cashaddr: any 1-5 replaced bytes of the payload part are rejected; C03_bech32: 1-4, hrp containing a letter, replacement != '1'; distance corollaries, bounds attained); "
    "the two finite enumerations (112 positions/5 errors, 89/4) are evaluated by compiled code (native_decide, declared). Every run ties the real code's probed syndrome tables to the model and "
    "sends chosen-syndrome words and random/foreign substitutions through the real decoders.")
PROPS["C07"]["level_text"] = ("Full proofs: Base58 bijection (Nat.digits), Base58Check accept-iff and canonicity, bech32 verify/create, round trip, canonical form, exact acceptance condition and seven rejection "
    "theorems, ConvertBits for all widths and the 8<->5 round trip with padding rules, purity on a Go slice/heap model (frame theorems; the pre-fix aliasing is the negative witness). "
    "Every run compares the model with the real code on exhaustive small scopes, random and near-valid inputs, multi-byte look-alikes, and probes argument memory with spare-capacity canaries.")
PROPS["C10"]["level_text"] = ("Full proofs over any lawful filter: exact match-iff, update characterisation, soundness and completeness of the block scan incl. spenders in any order (CTOR), "
    "refinement of the repaired scan to the original scan (C10_scan_refines_ref), polynomial step bound; instantiated for the real bloom filter via C09. Every run replays real wire blocks "
    "(spend graphs x script classes x flags x orders) through GetMatchedIndices and both merkle-block builders and also evaluates the reference scan.")
PROPS["C17"]["level_text"] = ("Full proofs over an exact-integer model of binary64: the rounding routine is correctly rounded in all ranges (roundScaled_isRN), mul/div/ofInt, math.Round, Pow10 exactness; "
    "NewAmount nearest/odd/monotone/total, ToBCH round trip for all |a|<=2.1e15, ToUnit correctly rounded, and C17_format (the printed decimal denotes exactly a*10^-(u+8) for -8<=u<=12, via a general "
    "specification of the shortest-digits search). Every run compares bit patterns and strings with the Go runtime on tie/binade/neighbour-directed inputs and evaluates the predicates exactly.")
for _k in PROPS:
    PROPS[_k].setdefault("technique", "Lean 4 kernel-checked theorems about a hand-written executable model; model tied to the Go code on every run by differential correspondence (Go harness vs compiled Lean driver) and by tie theorems over facts regenerated from the source")
PROPS["C20"]["technique"] = "Lean 4 theorems over an interleaving semantics instantiated with lock skeletons extracted from the Go source on every run (go/ast) and checked by kernel evaluation; race-detector stress as supporting search"
PROPS["C03"]["technique"] = "Lean 4: kernel-checked GF(2)-linearity + verified XOR-basis search lifted to the decoders; two finite enumerations by native_decide; probed syndrome tables of the real code tied by kernel evaluation"
