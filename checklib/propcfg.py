"""Per-property configuration for ./check."""

COMMON_ASSUME = [
    "Go compiler/runtime and the external packages named in DESIGN.md section 2 behave as the executable stand-ins in lean/Bch/Prim (validated only by the correspondence runs)",
]

HOOK_COMMITS = []

PROPS = {
    "C07": dict(
        level_text="Kernel-checked Lean theorems (all byte strings, all alphabet strings, all hrp/data within the limit) about an executable model of base58/base58check/bech32; the model is compared with the real code on generated + exhaustive small-scope inputs on every run, including slice-capacity purity probes.",
        level_note="Trusted: Lean kernel + propext/Classical.choice/Quot.sound; SHA-256 is a parameter in theorems and lean/Bch/Prim/Sha2.lean in the driver; Go runtime. Modelled not verified: math/big (as Nat), strings.ToLower/ToUpper/IndexByte.",
        assumptions=COMMON_ASSUME + ["double-SHA256 is a parameter of the Base58Check theorems (only its 32-byte output length is used)"],
    ),
}
