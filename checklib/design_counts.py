#!/usr/bin/env python3
"""design_counts.py: refresh the theorem counts of DESIGN.md section 9 from the evidence files of the last runs"""
import json, re, os
V = os.path.dirname(os.path.dirname(os.path.abspath(__file__)))
p = os.path.join(V, "DESIGN.md")
s = open(p).read()
for i in range(1, 21):
    pid = "C%02d" % i
    ev = json.load(open(os.path.join(V, "evidence", pid + ".json")))
    n = ev["coverage"].get("obligations")
    if n is None:
        continue
    s = re.sub(r"(\n\| %s \| )\d+( \|)" % pid, lambda m: m.group(1) + str(n) + m.group(2), s)
open(p, "w").write(s)
print("ok")
