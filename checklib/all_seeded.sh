#!/bin/sh
# re-run every kept seeded change against its property's quick check; one line per change.
# all_seeded.sh [k n]: only the changes whose position is k modulo n (to split the work over parallel runs)
V="$(cd "$(dirname "$0")/.." && pwd)"
K="${1:-0}"; N="${2:-1}"
cd "$V"
i=0
for d in seeded/C*; do
  i=$((i+1))
  [ $((i % N)) -eq "$K" ] || continue
  id=$(basename $d | cut -c1-3)
  r=$(checklib/try_seeded.sh $id "$V/$d/patch.diff" 2>&1 | grep 'tier=\|patch does not apply\|repo not clean' | sed 's/.*-> //')
  echo "$(basename $d) $r"
done
