#!/bin/sh
# re-run every kept seeded change against its property's quick check; one line per change
V="$(cd "$(dirname "$0")/.." && pwd)"
cd "$V"
for d in seeded/C*; do
  id=$(basename $d | cut -c1-3)
  r=$(checklib/try_seeded.sh $id "$V/$d/patch.diff" 2>&1 | grep 'tier=\|patch does not apply\|repo not clean' | sed 's/.*-> //')
  echo "$(basename $d) $r"
done
