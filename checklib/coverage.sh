#!/bin/sh
# coverage.sh: statement coverage of /repo's packages under the quick-tier streams of all twenty properties (a generator
# audit, not a check): builds the harness with -cover, runs every generator and corpus, prints the uncovered blocks.
set -u
V="$(cd "$(dirname "$0")/.." && pwd)"; REPO="${VERIF_REPO:-/repo}"
export GOFLAGS=-mod=mod GOPROXY=off GOSUMDB=off GOTOOLCHAIN=local
W=$(mktemp -d /tmp/cov-XXXX)
cd "$V/harness" || exit 2
cp "$REPO/go.sum" . && sed "s|@REPO@|$REPO|" go.mod.in > go.mod
go build -cover -coverpkg=./...,github.com/gcash/bchutil/... -tags verif -o "$W/harness-cover" . || exit 2
mkdir "$W/data"; cd "$V"
for p in C01 C02 C03 C04 C05 C06 C07 C08 C09 C10 C11 C12 C13 C14 C15 C16 C17 C18 C19 C20; do
  GOCOVERDIR="$W/data" timeout 900 "$W/harness-cover" gen $p "${VERIF_SEED:-1}" quick >/dev/null 2>&1
  [ -f corpus/$p.txt ] && GOCOVERDIR="$W/data" "$W/harness-cover" replay $p corpus/$p.txt >/dev/null 2>&1
done
(cd "$V/harness" && go tool covdata textfmt -i="$W/data" -o "$W/cover.txt")
python3 - "$W/cover.txt" "$REPO" <<'PY'
import re,collections,sys
unc=collections.defaultdict(list); tot=collections.Counter(); cov=collections.Counter()
for l in open(sys.argv[1]):
    m=re.match(r'github.com/gcash/bchutil/(.*?):(\d+)\.(\d+),(\d+)\.(\d+) (\d+) (\d+)',l)
    if not m: continue
    f,sl,sc,el,ec,n,c=m.groups()
    if 'testpb' in f or 'verif_export' in f: continue
    tot[f]+=int(n)
    if int(c)>0: cov[f]+=int(n)
    else: unc[f].append((int(sl),int(el)))
skip={'appdata.go','certgen.go','mutex.go','logging_mutex.go','net.go','net_noop.go'}
T=sum(v for k,v in tot.items() if k not in skip); C=sum(v for k,v in cov.items() if k not in skip)
print("statement coverage of the modelled files under the quick streams: %d/%d = %.1f%%"%(C,T,100*C/T))
for f in sorted(unc):
    if f in skip: continue
    src=open(sys.argv[2]+'/'+f).read().split('\n')
    print("=====",f,"%d/%d"%(cov[f],tot[f]))
    for sl,el in sorted(set(unc[f])):
        print("  %d-%d: %s"%(sl,el," | ".join(x.strip() for x in src[sl-1:min(el,sl+1)])[:130]))
PY
rm -rf "$W"
