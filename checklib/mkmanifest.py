#!/usr/bin/env python3
"""Regenerates MANIFEST.json from checklib/propcfg.py (single source of truth)."""
import json, os, sys
sys.path.insert(0, os.path.dirname(os.path.abspath(__file__)))
import propcfg
VERIF = os.path.dirname(os.path.dirname(os.path.abspath(__file__)))
ALL = ["C%02d" % i for i in range(1, 21)]
BASELINE = json.load(open("/root/.vp/BASELINE.json"))["cmd"] if os.path.exists("/root/.vp/BASELINE.json") else ""
checks = []
na = []
for pid in ALL:
    c = propcfg.PROPS.get(pid)
    if not c or not c.get("claimed", True):
        na.append({"property_id": pid, "reason": (c or {}).get("na_reason", "check not built yet in this session (work in progress; see DESIGN.md section 10)")})
        continue
    checks.append({
        "property_id": pid,
        "quick_cmd": "./check %s --tier quick" % pid,
        "thorough_cmd": "./check %s --tier thorough" % pid,
        "evidence_file": "evidence/%s.json" % pid,
        "replay_cmd_template": "./check %s --replay {path}" % pid,
        "engine": "lean-proof+correspondence",
        "level_claimed": {"category": c.get("level", "proof"), "text": c["level_text"], "design_ref": "DESIGN.md section 7, " + pid},
        "level_note": c["level_note"],
        "technique": c.get("technique", "Lean 4 theorems about a hand-written executable model; model tied to the Go code by differential correspondence + regenerated facts"),
    })
m = {
    "version": 1,
    "setup_cmd": "./setup.sh",
    "hooks": {
        "guard": "verif",
        "enable": "go build -tags verif (files verif_export.go in /repo packages, compiled only with the tag)",
        "baseline_off_cmd": BASELINE,
        "source_commits": propcfg.HOOK_COMMITS,
        "add_only": True,
    },
    "engines": [
        {"name": "lean-proof+correspondence", "path": "check", "serves_properties": [c["property_id"] for c in checks],
         "kind_free_text": "Lean 4 kernel-checked theorems over an executable model (lean/Bch); Go harness (harness/) runs the real code and the compiled model driver (lean_exe bchmodel) on the same cases; regenerated facts (Bch/Generated/Facts.lean) re-checked by Bch/Tie.lean"}
    ],
    "checks": checks,
    "not_applicable": na,
    "notes": "Trusted base and per-property strength: DESIGN.md sections 2 and 7. known_findings.jsonl lists fixed/known genuine defects.",
}
json.dump(m, open(os.path.join(VERIF, "MANIFEST.json"), "w"), indent=1)
print("claimed:", [c["property_id"] for c in checks], "n/a:", len(na))
