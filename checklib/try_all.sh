#!/bin/sh
# try_all.sh <patch.diff> : apply the patch to the repo ($VERIF_REPO, default /repo), run every quick check, undo the patch; one line per property
PATCH="$1"
REPO="${VERIF_REPO:-/repo}"
V="$(cd "$(dirname "$0")/.." && pwd)"
cd "$REPO" || exit 2
git diff --quiet || { echo "repo not clean"; exit 2; }
git apply "$PATCH" || { echo "patch does not apply"; exit 2; }
for p in C01 C02 C03 C04 C05 C06 C07 C08 C09 C10 C11 C12 C13 C14 C15 C16 C17 C18 C19 C20; do
  (cd "$V" && ./check $p 2>&1 | grep -v "^\[check\]" | grep "tier=\|VIOLATION" | tr '\n' ' ' | cut -c1-260); echo
done
git -C "$REPO" checkout -- .
