#!/bin/sh
# usage: checklib/try_seeded.sh <property id> <patch.diff> [tier]   — applies the patch to the repo, runs the check, undoes the patch
# (the repo is $VERIF_REPO, default /repo; the verif tree is the one this script lives in)
set -u
ID="$1"; PATCH="$2"; TIER="${3:-quick}"
REPO="${VERIF_REPO:-/repo}"
V="$(cd "$(dirname "$0")/.." && pwd)"
cd "$REPO" || exit 2
git diff --quiet || { echo "repo not clean"; exit 2; }
git apply "$PATCH" || { echo "patch does not apply"; exit 2; }
(cd "$V" && ./check "$ID" --tier "$TIER"); RC=$?
git -C "$REPO" checkout -- .
echo "exit=$RC"
