#!/bin/sh
# usage: checklib/try_seeded.sh <property id> <patch.diff> [tier]   — applies the patch to /repo, runs the check, undoes the patch
set -u
ID="$1"; PATCH="$2"; TIER="${3:-quick}"
cd /repo || exit 2
git diff --quiet || { echo "repo not clean"; exit 2; }
git apply "$PATCH" || { echo "patch does not apply"; exit 2; }
(cd /verif && ./check "$ID" --tier "$TIER"); RC=$?
git -C /repo checkout -- .
echo "exit=$RC"
