#!/bin/sh
# confirm_seeded.sh <id> <outdir> <pkgdir-for-demo> <run-regex> [extra go test flags, e.g. -race]: verify in a fresh scratch worktree that (1) suite passes with the patch, (2) demo fails with it, (3) demo passes without it
set -u
ID="$1"; OUT="$2"; PKG="$3"; RUN="$4"; XF="${5:-}"
export GOFLAGS=-mod=mod GOPROXY=off GOSUMDB=off GOTOOLCHAIN=local
WT=$(mktemp -d /tmp/confirm-XXXX)
git -C /repo worktree add -q --detach "$WT/wt" HEAD || exit 2
cd "$WT/wt"
cp "$OUT/demo_test.go" "$PKG/zz_demo_test.go"
go test $XF -count=1 -run "$RUN" "./$PKG/" >/dev/null 2>&1; A=$?
git apply "$OUT/patch.diff" || { echo "patch does not apply"; }
go test $XF -count=1 -run "$RUN" "./$PKG/" >/dev/null 2>&1; B=$?
rm "$PKG/zz_demo_test.go"
go test -count=1 ./... >/dev/null 2>&1; C=$?
cd /; git -C /repo worktree remove --force "$WT/wt"; rm -rf "$WT"
echo "demo-without-patch=$A (want 0) demo-with-patch=$B (want !=0) suite-with-patch=$C (want 0)"
