#!/bin/sh
# eval_wave6.sh <ID> <outdir>: for each of the four changes (patchN.diff, demoN_test.go, meta.json) confirm it in a
# scratch worktree (with -race where meta.json says so) and run the property's quick check against it.
# One summary line per change; results in <outdir>/results.txt
ID="$1"; OUT="$2"
: > "$OUT/results.txt"
for N in 1 2 3 4 5; do
  [ -f "$OUT/patch$N.diff" ] || continue
  R=$(python3 -c "import json;m=json.load(open('$OUT/meta.json'));x=[t for t in m['mutants'] if t['n']==$N][0];print(x['demo_run'])")
  D=$(python3 -c "import json;m=json.load(open('$OUT/meta.json'));x=[t for t in m['mutants'] if t['n']==$N][0];print(x['demo_dir'])")
  X=$(python3 -c "import json;m=json.load(open('$OUT/meta.json'));x=[t for t in m['mutants'] if t['n']==$N][0];print('-race' if x.get('race') else '')")
  T=$(mktemp -d /tmp/w6-XXXX); cp "$OUT/patch$N.diff" "$T/patch.diff"; cp "$OUT/demo${N}_test.go" "$T/demo_test.go"
  C=$(/verif/checklib/confirm_seeded.sh "$ID" "$T" "$D" "$R" "$X" 2>&1 | tail -1)
  V=$(/verif/checklib/try_seeded.sh "$ID" "$T/patch.diff" 2>&1 | grep 'tier=\|VIOLATION property' | tr '\n' ' ' | cut -c1-400)
  rm -rf "$T"
  echo "$ID m$N | $C | $V" | tee -a "$OUT/results.txt"
done
