#!/usr/bin/env python3
"""mutate.py [--per-file N] [--seed S] [--files f1,f2,...]

Automatic single-token mutation testing of the checks (an audit tool, not a check).
For every modelled Go source file it derives small mutants (relational / logical / arithmetic / shift operator swaps,
integer literals +1, negated conditions, deleted simple statements), keeps those that still compile AND pass the
repository's own test suite (the interesting ones: the suite does not see them), and runs the quick checks of the
properties anchored in that file against each. Output: one line per surviving-the-suite mutant with the verdict of
the checks; mutants that no check reports are listed at the end for triage (equivalent mutant or generator gap).

The repository is $VERIF_REPO (default /repo; it must be clean; every mutant is undone with `git checkout`).
"""
import os, re, subprocess, sys, random, json, time

V = os.path.dirname(os.path.dirname(os.path.abspath(__file__)))
REPO = os.environ.get("VERIF_REPO", "/repo")
ENV = dict(os.environ, GOFLAGS="-mod=mod", GOPROXY="off", GOSUMDB="off", GOTOOLCHAIN="local")

FILES = {
    "address.go": ["C01", "C02", "C03", "C08"],
    "wif.go": ["C06"],
    "amount.go": ["C17"],
    "block.go": ["C16"],
    "tx.go": ["C16"],
    "hash160.go": ["C01"],
    "hash256.go": ["C01"],
    "base58/base58.go": ["C07", "C06", "C05"],
    "base58/base58check.go": ["C07", "C06"],
    "bech32/bech32.go": ["C07", "C03"],
    "hdkeychain/extendedkey.go": ["C04", "C05", "C15"],
    "bloom/filter.go": ["C09", "C10", "C20"],
    "bloom/merkleblock.go": ["C10", "C11"],
    "bloom/murmurhash3.go": ["C09"],
    "merkleblock/encode.go": ["C11"],
    "merkleblock/decode.go": ["C12", "C11", "C08"],
    "gcs/gcs.go": ["C13", "C14", "C08"],
    "gcs/builder/builder.go": ["C14", "C13"],
    "txsort/txsort.go": ["C18"],
    "coinset/coins.go": ["C19"],
    "jsonpb/jsonpb.go": ["C08"],
}

SWAPS = [("<=", "<"), (">=", ">"), ("==", "!="), ("!=", "=="), ("&&", "||"), ("||", "&&"), ("<<", ">>"), (">>", "<<")]
SINGLE = [("<", "<="), (">", ">="), ("+", "-"), ("-", "+"), ("&", "|"), ("|", "&"), ("*", "/")]


def strip_comment(line):
    i = line.find("//")
    return line if i < 0 else line[:i]


def mutants_of(path):
    src = open(path).read().split("\n")
    out = []
    in_block_comment = False
    depth_func = False
    for ln, raw in enumerate(src):
        line = strip_comment(raw)
        if "/*" in line:
            in_block_comment = True
        if in_block_comment:
            if "*/" in line:
                in_block_comment = False
            continue
        s = line.strip()
        if not s or s.startswith("import") or s.startswith("package") or s.startswith('"'):
            continue
        if re.match(r"^(func|type|var|const|\)|\}|case .*:$|default:)", s) and not ("{" in s and "if" in s):
            if not s.startswith("case"):
                continue
        # skip string literals' contents
        masked = re.sub(r'"(\\.|[^"\\])*"', lambda m: '"' + "_" * (len(m.group(0)) - 2) + '"', line)
        masked = re.sub(r"'(\\.|[^'\\])+'", lambda m: "'" + "_" * (len(m.group(0)) - 2) + "'", masked)
        for a, b in SWAPS:
            for m in re.finditer(re.escape(a), masked):
                out.append((ln, m.start(), len(a), b, "%s -> %s" % (a, b)))
        for a, b in SINGLE:
            for m in re.finditer(re.escape(a), masked):
                i = m.start()
                prev = masked[i - 1] if i > 0 else " "
                nxt = masked[i + 1] if i + 1 < len(masked) else " "
                if prev in "<>=!+-&|*/:^%" or nxt in "<>=+-&|*/^":
                    continue
                if a in "&*" and (prev in " (,[" and nxt not in " "):   # address-of / dereference / pointer type
                    continue
                if a == "-" and prev in " (,[=" and nxt not in " ":      # unary minus
                    continue
                if a in "<>" and (prev == "-" or nxt == "-"):
                    continue
                out.append((ln, i, 1, b, "%s -> %s" % (a, b)))
        for m in re.finditer(r"(?<![\w.])(0x[0-9a-fA-F]+|\d+)(?![\w.])", masked):
            tok = m.group(1)
            try:
                v = int(tok, 0)
            except ValueError:
                continue
            rep = hex(v + 1) if tok.startswith("0x") else str(v + 1)
            out.append((ln, m.start(), len(tok), rep, "%s -> %s" % (tok, rep)))
        m = re.match(r"^(\s*)(\}?\s*else\s+)?if (.*) \{\s*$", line)
        if m and ";" not in m.group(3) and ":=" not in m.group(3):
            cond = m.group(3)
            start = line.index(cond, len(m.group(1)))
            out.append((ln, start, len(cond), "!(" + cond + ")", "negated condition"))
        # deletion of a simple statement (a call or an assignment on one line, not a declaration)
        if re.match(r"^\s+[\w.\[\]]+(\(.*\)|\s*(=|\+=|-=|\|=|\^=|<<=|>>=)\s*.+|\+\+|--)\s*$", line) and ":=" not in line \
                and not s.startswith("return") and not s.startswith("defer") and not s.startswith("go "):
            ind = len(line) - len(line.lstrip())
            out.append((ln, ind, len(line) - ind, "_ = 0", "statement deleted: " + s[:60]))
    return src, out


def _limit():
    import resource
    resource.setrlimit(resource.RLIMIT_AS, (24 << 30, 24 << 30))


def run(cmd, cwd=None, timeout=900, env=ENV):
    try:
        p = subprocess.run(cmd, preexec_fn=_limit if cmd[0] == "go" else None, cwd=cwd, env=env, stdout=subprocess.PIPE, stderr=subprocess.STDOUT, text=True, errors="replace", timeout=timeout)
        return p.returncode, p.stdout
    except subprocess.TimeoutExpired:
        return 124, "timeout"


def main():
    per_file, seed, only = 20, 1, None
    a = sys.argv[1:]
    while a:
        if a[0] == "--per-file":
            per_file = int(a[1]); a = a[2:]
        elif a[0] == "--seed":
            seed = int(a[1]); a = a[2:]
        elif a[0] == "--files":
            only = a[1].split(","); a = a[2:]
        else:
            print(__doc__); return 2
    rnd = random.Random(seed)
    if run(["git", "diff", "--quiet"], cwd=REPO)[0] != 0:
        print("repo not clean"); return 2
    survivors, stats = [], {"generated": 0, "no-build": 0, "killed-by-suite": 0, "caught": 0, "not-caught": 0}
    for f, props in FILES.items():
        if only and f not in only:
            continue
        path = os.path.join(REPO, f)
        src, ms = mutants_of(path)
        rnd.shuffle(ms)
        taken = 0
        pkg = "./" + (os.path.dirname(f) or ".") + "/"
        for (ln, col, n, rep, what) in ms:
            if taken >= per_file:
                break
            new = list(src)
            new[ln] = src[ln][:col] + rep + src[ln][col + n:]
            open(path, "w").write("\n".join(new))
            stats["generated"] += 1
            rc, _ = run(["go", "build", "./..."], cwd=REPO, timeout=300)
            if rc != 0:
                stats["no-build"] += 1
                open(path, "w").write("\n".join(src)); continue
            rc, _ = run(["go", "vet", pkg], cwd=REPO, timeout=300)
            rc, out = run(["go", "test", "-count=1", "-timeout", "120s", "./..."], cwd=REPO, timeout=600)
            if rc != 0:
                stats["killed-by-suite"] += 1
                open(path, "w").write("\n".join(src)); continue
            taken += 1
            verdict, by = "NOT-CAUGHT", ""
            for p in props:
                rc, out = run([os.path.join(V, "check"), p], cwd=V, timeout=1800, env=dict(ENV, VERIF_REPO=REPO))
                if rc != 0:
                    concrete = "no-failing-input-found" not in out
                    verdict, by = "caught", p + (" (failing input)" if concrete else " (no-failing-input-found)")
                    break
            open(path, "w").write("\n".join(src))
            desc = "%s:%d %s | %s" % (f, ln + 1, what, src[ln].strip()[:90])
            print("%-10s %-32s %s" % (verdict, by, desc), flush=True)
            if verdict == "caught":
                stats["caught"] += 1
            else:
                stats["not-caught"] += 1
                survivors.append(desc)
        run(["git", "checkout", "--", f], cwd=REPO)
    print("\nSUMMARY " + json.dumps(stats))
    print("mutants that pass the suite and that no mapped check reports (triage: equivalent, or a gap):")
    for s in survivors:
        print("  " + s)
    return 0


if __name__ == "__main__":
    sys.exit(main())
