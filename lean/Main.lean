import Bch.Drive.C07
import Bch.Drive.C01
import Bch.Drive.C03
import Bch.Drive.C06
import Bch.Drive.C05
import Bch.Drive.C11
import Bch.Drive.C13
import Bch.Drive.C16
import Bch.Drive.C17
import Bch.Drive.C18
import Bch.Drive.C15
import Bch.Drive.C08
import Bch.Drive.C20
open Bch.Drive

def dispatch (id : String) : Option Runner :=
  match id with
  | "C07" => some C07.run
  | "C01" => some C01.run
  | "C02" => some C01.run
  | "C03" => some C03.run
  | "C06" => some C06.run
  | "C04" => some C04.run
  | "C05" => some C05.run
  | "C09" => some C09.run
  | "C10" => some C10.run
  | "C11" => some C11.run
  | "C12" => some C11.run
  | "C13" => some C13.run
  | "C14" => some C13.run
  | "C16" => some C16.run
  | "C15" => some C15.run
  | "C08" => some C08.run
  | "C20" => some C20.run
  | "C17" => some C17.run
  | "C18" => some C18.run
  | "C19" => some C19.run
  | _ => none

def handle (line : String) : String :=
  match line.splitOn " => " with
  | [lhs, impl] =>
    match lhs.splitOn " " with
    | id :: op :: args =>
      match dispatch id with
      | none => "BAD\tno-runner\t-"
      | some r =>
        match r op args impl with
        | none => "BAD\tbad-case\t-"
        | some o =>
          let eq := o.model == impl
          let prop := if o.prop == "spec" then (if eq then "ok" else "violated:differs from the specified value") else o.prop
          (if eq then "EQ" else "DIFF") ++ "\t" ++ prop ++ "\t" ++ o.model
    | _ => "BAD\tbad-line\t-"
  | _ => "BAD\tbad-line\t-"

partial def loop (h : IO.FS.Stream) (out : IO.FS.Stream) : IO Unit := do
  let line ← h.getLine
  if line.isEmpty then return ()
  let line := (line.dropEndWhile (fun c => c == '\n' || c == '\r')).toString
  out.putStrLn (handle line)
  out.flush
  loop h out

def main : IO Unit := do
  let out ← IO.getStdout
  loop (← IO.getStdin) out
  out.flush
