import Bch.Prim.Bytes
import Bch.Prim.Sha2
import Bch.Prim.Ripemd160
import Bch.Prim.SipHash
import Bch.Prim.Secp256k1
import Bch.Prim.F64
import Bch.Model.Base58
import Bch.Model.Bech32
