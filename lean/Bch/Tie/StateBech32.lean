import Bch.Generated.Facts
import Bch.Tie.StateLib
/-
State-footprint tie (Bech32).
The model of this source group carries exactly the state listed here from one call to the next. The lists are
re-extracted from /repo's current source by `harness facts` (go/ast): the field types of every exported struct type of
the group and of the package structs reachable from its fields (names dropped; each field reduced to its
shape - named / pointer / slice / array / map - so that a change of representation of the same piece of state
does not count, a new field does; unexported per-call helper records are not state). The comparison is
one-directional (`StateLib.covered`): the code may have less state than the model accounts for, never more. and the types of the package-level variables some function may modify.
New state (a cache field, a pooled buffer, a memo variable) is state the model does not have: the theorems of the
properties resting on this model then no longer speak for the code until the model is extended.
-/
namespace Bch.Tie.StateBech32

/-- bech32: pure functions over read-only tables -/
theorem tie_state_structs : StateLib.covered Generated.stateBech32Structs
    [] = true := by decide +kernel

theorem tie_state_globals : StateLib.covered [Generated.stateBech32Globals] [[]] = true := by decide +kernel

end Bch.Tie.StateBech32
