import Bch.Generated.Facts
import Bch.Prim.Bytes
import Bch.Model.GcsBuilder
/-
The translator side of the tie (one module per group of facts, so that a changed fact only affects the
properties that rely on it): `Bch/Generated/Facts.lean` is rewritten from /repo's current source and from the
running implementation on every check; each theorem states that a regenerated fact equals what the
hand-written model assumes.
-/
namespace Bch.Tie.GcsImmutable
open Bch Bch.Model

/-- no method of gcs.Filter writes receiver state: filters are immutable after construction -/
theorem tie_gcs_immutable : Generated.gcsWrites.all (fun m => m.2 == 0) = true := by decide +kernel

theorem tie_gcs_methods :
    ["Match", "MatchAny", "ZipMatchAny", "HashMatchAny"].all (fun n => (Generated.gcsWrites.map (·.1)).contains n) = true := by
  decide +kernel

end Bch.Tie.GcsImmutable
