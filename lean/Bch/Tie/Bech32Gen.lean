import Bch.Generated.Facts
import Bch.Model.Bech32
/- The generator constants read through the verif hook; kept apart from `Tie/Bech32.lean` (whose facts are probed
   through the public API) so that a refactor that breaks the hook does not affect the properties' ties. -/
namespace Bch.Tie.Bech32Gen
open Bch Bch.Model

theorem tie_bech32Gen : Generated.bech32Gen = Bech32.gen := by decide +kernel

end Bch.Tie.Bech32Gen
