import Bch.Generated.Facts
import Bch.Prim.Bytes
import Bch.Model.Locking
/-
The translator side of the tie (one module per group of facts, so that a changed fact only affects the
properties that rely on it): `Bch/Generated/Facts.lean` is rewritten from /repo's current source and from the
running implementation on every check; each theorem states that a regenerated fact equals what the
hand-written model assumes.
-/
namespace Bch.Tie.Locking
open Bch Bch.Model

def nats (b : Bytes) : List Nat := b.map (·.toNat)

/-- every exported method of bloom.Filter takes the mutex before touching the shared message and releases it
    before returning -/
theorem tie_bloom_lock_discipline :
    Generated.bloomSkeletons.all (fun m => Locking.wellBracketed m.2) = true := by decide +kernel

/-- the operations documented as safe for concurrent access are exactly the exported methods analysed -/
theorem tie_bloom_methods :
    Generated.bloomSkeletons.map (·.1) =
      ["Add", "AddHash", "AddOutPoint", "IsLoaded", "MatchTxAndUpdate", "Matches", "MatchesOutPoint",
       "MsgFilterLoad", "Reload", "Unload"] := by decide +kernel

/-- code of the package outside the methods of `Filter` that reaches into a filter (its mutex or its message) keeps the
    same discipline: lock before the access, unlock before returning (the block scan's bit snapshot, fix 0f7bc52) -/
theorem tie_bloom_foreign_lock_discipline :
    Generated.bloomForeignSkeletons.all (fun m => Locking.wellBracketed m.2) = true := by decide +kernel

/-- no library function of packages bloom / merkleblock dereferences the message pointer that `MsgFilterLoad()` hands
    out: that pointer is the filter's shared message *without* its lock, so a field read there races with `Reload`,
    `Add`, … of another goroutine (the interleaving theorems of C20 speak about the calls, which hold the lock). -/
theorem tie_bloom_no_unlocked_msg_access : Generated.bloomEscapedMsgAccesses = [] := by decide +kernel

end Bch.Tie.Locking
