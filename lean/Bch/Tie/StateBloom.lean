import Bch.Generated.Facts
/-
State-footprint tie (Bloom).
The model of this source group carries exactly the state listed here from one call to the next. The lists are
re-extracted from /repo's current source by `harness facts` (go/ast): the field types of every struct declared in
the group (names dropped, sorted) and the types of the package-level variables some function may modify.
New state (a cache field, a pooled buffer, a memo variable) is state the model does not have: the theorems of the
properties resting on this model then no longer speak for the code until the model is extended.
-/
namespace Bch.Tie.StateBloom

/-- bloom: Filter = (mutex, message); merkle-block work structs; no modifiable package state -/
theorem tie_state_structs : Generated.stateBloomStructs =
    [["*Filter", "int", "map[int]bool", "map[int]int"],
    ["*bchutil.Tx", "int"],
    ["*wire.MsgFilterLoad", "sync.Mutex"],
    ["[]*chainhash.Hash", "[]*chainhash.Hash", "[]byte", "[]byte", "uint32"]] := by decide +kernel

theorem tie_state_globals : Generated.stateBloomGlobals = [] := by decide +kernel

end Bch.Tie.StateBloom
