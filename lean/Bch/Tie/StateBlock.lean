import Bch.Generated.Facts
/-
State-footprint tie (Block).
The model of this source group carries exactly the state listed here from one call to the next. The lists are
re-extracted from /repo's current source by `harness facts` (go/ast): the field types of every struct declared in
the group (names dropped, sorted) and the types of the package-level variables some function may modify.
New state (a cache field, a pooled buffer, a memo variable) is state the model does not have: the theorems of the
properties resting on this model then no longer speak for the code until the model is extended.
-/
namespace Bch.Tie.StateBlock

/-- block.go/tx.go: the memo fields modelled by Model.BlockCache.St -/
theorem tie_state_structs : Generated.stateBlockStructs =
    [["*chainhash.Hash", "*wire.MsgBlock", "[]*Tx", "[]byte", "bool", "int32"],
    ["*chainhash.Hash", "*wire.MsgTx", "int"]] := by decide +kernel

theorem tie_state_globals : Generated.stateBlockGlobals = [] := by decide +kernel

end Bch.Tie.StateBlock
