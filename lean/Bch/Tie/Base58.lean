import Bch.Generated.Facts
import Bch.Prim.Bytes
import Bch.Model.Base58
/-
The translator side of the tie (one module per group of facts, so that a changed fact only affects the
properties that rely on it): `Bch/Generated/Facts.lean` is rewritten from /repo's current source and from the
running implementation on every check; each theorem states that a regenerated fact equals what the
hand-written model assumes.
-/
namespace Bch.Tie.Base58
open Bch Bch.Model

def nats (b : Bytes) : List Nat := b.map (·.toNat)

theorem tie_b58Alphabet : Generated.b58Alphabet = nats Base58.alphabet := by decide +kernel

theorem tie_b58Table :
    Generated.b58Table = (List.range 256).map (fun c =>
      match Base58.b58 (UInt8.ofNat c) with | some v => v | none => 255) := by decide +kernel

end Bch.Tie.Base58
