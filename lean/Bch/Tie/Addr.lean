import Bch.Generated.Facts
import Bch.Prim.Bytes
import Bch.Model.CashAddr
import Bch.Model.Address
/-
The translator side of the tie (one module per group of facts, so that a changed fact only affects the
properties that rely on it): `Bch/Generated/Facts.lean` is rewritten from /repo's current source and from the
running implementation on every check; each theorem states that a regenerated fact equals what the
hand-written model assumes.
-/
namespace Bch.Tie.Addr
open Bch Bch.Model

def nats (b : Bytes) : List Nat := b.map (·.toNat)

/-- `n` successive syndromes of a unit error moving away from the end of the word: x, step x, step (step x), … -/
def orbit (step : Nat → Nat) : Nat → Nat → List Nat
  | 0, _ => []
  | n+1, x => x :: orbit step n (step x)

theorem tie_cashCharset : Generated.cashCharset = nats CashAddr.charset := by decide +kernel

theorem tie_cashCharsetRev :
    Generated.cashCharsetRev = (List.range 128).map (fun c =>
      match CashAddr.charsetRev (UInt8.ofNat c) with | some v => (v.toNat : Int) | none => -1) := by decide +kernel

theorem tie_nets :
    Generated.netNames = Address.nets.map (·.name) ∧
    Generated.netCashPrefixes = Address.nets.map (fun n => nats n.cashPrefix) ∧
    Generated.netSlpPrefixes = Address.nets.map (fun n => nats n.slpPrefix) ∧
    Generated.netPkhIDs = Address.nets.map (·.pkhID.toNat) ∧
    Generated.netShIDs = Address.nets.map (·.shID.toNat) ∧
    Generated.netWifIDs = Address.nets.map (·.wifID.toNat) ∧
    Generated.netHdPriv = Address.nets.map (fun n => nats n.hdPriv) ∧
    Generated.netHdPub = Address.nets.map (fun n => nats n.hdPub) := by decide +kernel

theorem tie_registered_ids :
    Generated.pkhIDs = nats Address.pkhIDs ∧ Generated.shIDs = nats Address.shIDs := by decide +kernel

/-- the implementation's own CashAddr checksum, probed on unit errors over a 112-symbol window, behaves as the
    model's step function iterated on the error value (what linearity predicts; see Props/C03) -/
theorem tie_cashSyndromes :
    Generated.cashSyndromes = (List.range 5).map (fun b => orbit (fun c => CashAddr.polyModStep c 0) 112 (2 ^ b)) := by
  decide +kernel

theorem tie_cashPrefixPolyMods :
    Generated.cashPrefixPolyMods =
      ["bitcoincash", "simpleledger", "bchtest", "slptest", "bchreg", "slpreg", "bchsim"].map (fun p =>
        CashAddr.polyMod (CashAddr.expandPrefix (Bytes.ofString p))) := by decide +kernel

end Bch.Tie.Addr
