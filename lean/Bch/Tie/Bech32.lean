import Bch.Generated.Facts
import Bch.Prim.Bytes
import Bch.Model.Bech32
/-
The translator side of the tie (one module per group of facts, so that a changed fact only affects the
properties that rely on it): `Bch/Generated/Facts.lean` is rewritten from /repo's current source and from the
running implementation on every check; each theorem states that a regenerated fact equals what the
hand-written model assumes.
-/
namespace Bch.Tie.Bech32
open Bch Bch.Model

def nats (b : Bytes) : List Nat := b.map (·.toNat)

/-- `n` successive syndromes of a unit error moving away from the end of the word: x, step x, step (step x), … -/
def orbit (step : Nat → Nat) : Nat → Nat → List Nat
  | 0, _ => []
  | n+1, x => x :: orbit step n (step x)

theorem tie_bech32Charset : Generated.bech32Charset = nats Bech32.charset := by decide +kernel

theorem tie_bech32Syndromes :
    Generated.bech32Syndromes = (List.range 5).map (fun b => orbit (fun c => Bech32.polymodStep c 0) 89 (2 ^ b)) := by
  decide +kernel

end Bch.Tie.Bech32
