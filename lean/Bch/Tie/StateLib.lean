/-
Shared definitions of the state-footprint ties (`Bch/Tie/State*.lean`).
The footprint of a source group is a list of persistent structs, each a list of field shapes. The code is *covered*
by the model when it has no more persistent structs and, for every shape, no more fields of that shape than the
model accounts for: state may disappear (a cursor moved into a per-call helper) but not appear.
-/
namespace Bch.Tie.StateLib

def shapeCount (l : List (List String)) (s : String) : Nat := (l.flatten.filter (· == s)).length

def covered (code model : List (List String)) : Bool :=
  decide (code.length ≤ model.length) &&
    code.flatten.eraseDups.all fun s => decide (shapeCount code s ≤ shapeCount model s)

/-- nothing is covered by less: a struct with one more field of any shape is not covered -/
example : covered [["named", "pointer"]] [["named", "pointer"]] = true ∧
    covered [["named", "named", "pointer"]] [["named", "pointer"]] = false ∧
    covered [["named", "pointer"], ["slice"]] [["named", "pointer"]] = false ∧
    covered [["named"]] [["named", "pointer"]] = true := by decide

end Bch.Tie.StateLib
