import Bch.Generated.Facts
import Bch.Prim.Bytes
import Bch.Model.Amount
/-
The translator side of the tie (one module per group of facts, so that a changed fact only affects the
properties that rely on it): `Bch/Generated/Facts.lean` is rewritten from /repo's current source and from the
running implementation on every check; each theorem states that a regenerated fact equals what the
hand-written model assumes.
-/
namespace Bch.Tie.Amount
open Bch Bch.Model

def nats (b : Bytes) : List Nat := b.map (·.toNat)

theorem tie_amount_constants :
    Generated.satoshiPerBitcoin = 100000000 ∧ Generated.maxSatoshi = 2100000000000000 ∧
    Generated.amountUnits = [6, 3, 0, -3, -6, -8] ∧
    Generated.amountLabels = ([6, 3, 0, -3, -6, -8, 1] : List Int).map Amount.unitString := by decide +kernel

end Bch.Tie.Amount
