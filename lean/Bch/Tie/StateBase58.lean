import Bch.Generated.Facts
/-
State-footprint tie (Base58).
The model of this source group carries exactly the state listed here from one call to the next. The lists are
re-extracted from /repo's current source by `harness facts` (go/ast): the field types of every struct declared in
the group (names dropped, sorted) and the types of the package-level variables some function may modify.
New state (a cache field, a pooled buffer, a memo variable) is state the model does not have: the theorems of the
properties resting on this model then no longer speak for the code until the model is extended.
-/
namespace Bch.Tie.StateBase58

/-- base58: pure functions over read-only tables -/
theorem tie_state_structs : Generated.stateBase58Structs =
    [] := by decide +kernel

theorem tie_state_globals : Generated.stateBase58Globals = [] := by decide +kernel

end Bch.Tie.StateBase58
