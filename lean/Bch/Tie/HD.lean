import Bch.Generated.Facts
import Bch.Prim.Bytes
import Bch.Model.HDKey
/-
The translator side of the tie (one module per group of facts, so that a changed fact only affects the
properties that rely on it): `Bch/Generated/Facts.lean` is rewritten from /repo's current source and from the
running implementation on every check; each theorem states that a regenerated fact equals what the
hand-written model assumes.
-/
namespace Bch.Tie.HD
open Bch Bch.Model

def nats (b : Bytes) : List Nat := b.map (·.toNat)

theorem tie_hd_constants :
    Generated.hardenedKeyStart = HDKey.hardenedKeyStart ∧ Generated.minSeedBytes = 16 ∧ Generated.maxSeedBytes = 64 := by
  decide +kernel

theorem tie_hdPairs :
    Generated.hdPairs = HDKey.hdPairs.map (fun p => (nats p.1, nats p.2)) := by decide +kernel

end Bch.Tie.HD
