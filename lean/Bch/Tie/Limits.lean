import Bch.Generated.Facts
import Bch.Prim.Bytes
import Bch.Model.Merkle
/-
The translator side of the tie (one module per group of facts, so that a changed fact only affects the
properties that rely on it): `Bch/Generated/Facts.lean` is rewritten from /repo's current source and from the
running implementation on every check; each theorem states that a regenerated fact equals what the
hand-written model assumes.
-/
namespace Bch.Tie.Limits
open Bch Bch.Model

def nats (b : Bytes) : List Nat := b.map (·.toNat)

theorem tie_limits :
    Generated.maxTxnCount = Merkle.maxTxnCount ∧ Generated.maxFilterLoadFilterSize = 36000 ∧
    Generated.maxFilterLoadHashFuncs = 50 := by decide +kernel

end Bch.Tie.Limits
