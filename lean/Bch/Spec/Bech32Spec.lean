import Bch.Prim.Bytes
/-
bech32 as BIP173 states it (https://github.com/bitcoin/bips/blob/master/bip-0173.mediawiki) — an
independent transcription written at the level of the standard's TEXT (a field, a generator polynomial, a
polynomial remainder, a character table, a list of validity rules), not of the reference code's bit
twiddling and not of `/repo/bech32/bech32.go` / `Bch/Model/Bech32.lean`.  No table of `GEN` constants, no
30-bit register, no shifts by 25 appear here: the model's table-driven register loop is PROVED to compute
these definitions (`Bch/Props/C07Spec.lean`).

* "A Bech32 string is at most 90 characters long and consists of: the human-readable part (1 to 83
  US-ASCII characters, each in the range [33-126]); the separator, which is always "1" — in case "1" is
  allowed inside the human-readable part, the last one in the string is the separator; the data part, which
  is at least 6 characters long and only consists of alphanumeric characters excluding "1", "b", "i", "o"."
* the character table: value `v` (0…31) is written `qpzry9x8gf2tvdw0s3jn54khce6mua7l[v]`.
* "The last six characters of the data part form a checksum."  The checksum is a BCH code over GF(32):
  "the input is interpreted as a list of coefficients of a polynomial over F = GF(32), with an implicit 1 in
  front … the output is … the coefficients of the remainder of v(x) mod g(x), where g(x) is the Bech32
  generator, x^6 + {29}x^5 + {22}x^4 + {20}x^3 + {21}x^2 + {29}x + {18}"; the elements of GF(32) are "the bits
  of values themselves as coefficients of a polynomial over GF(2) …, multiplying those polynomials mod
  a^5 + a^3 + 1.  For example {5} * {26} = … = {9}" (comments of the reference implementation).
  The values fed in are: the high 3 bits of every human-readable character, a zero, the low 5 bits of every
  human-readable character, then the data values.  To create a checksum: append six zeros, take the
  remainder, add the constant 1, write its six coefficients.  To verify: the remainder of the whole is the
  constant polynomial 1.
* "The lowercase form is used when determining a character's value for checksum purposes.  Encoders MUST
  always output an all lowercase Bech32 string. …  Decoders MUST NOT accept strings where some characters
  are uppercase and some are lowercase."
-/
namespace Bch.Spec.Bech32
open Bch

/-! ## 1. the field GF(32) = GF(2)[a] / (a^5 + a^3 + 1)

An element is the number `< 32` whose bit `i` is the coefficient of `a^i`.  Addition is coefficient-wise
addition mod 2, i.e. XOR of the numbers. -/

/-- product of two polynomials over GF(2) (bit `i` = coefficient of `a^i`; the second factor has degree
`< 5`): the sum of the shifted copies `p · a^i` for the non-zero coefficients `i` of `q` -/
def clmul (p q : Nat) : Nat :=
  (List.range 5).foldl (fun acc i => if q.testBit i then acc ^^^ (p <<< i) else acc) 0

/-- the reduction polynomial `a^5 + a^3 + 1` -/
def fieldPoly : Nat := 0b101001

/-- remainder modulo `fieldPoly` of a GF(2)-polynomial of degree `≤ 8` (a product of two elements):
cancel the coefficients of `a^8, a^7, a^6, a^5` in turn by adding `fieldPoly · a^k` -/
def reduce (p : Nat) : Nat :=
  [3, 2, 1, 0].foldl (fun p k => if p.testBit (5 + k) then p ^^^ (fieldPoly <<< k) else p) p

/-- multiplication in GF(32) -/
def gfMul (x y : Nat) : Nat := reduce (clmul x y)

/-- addition (= subtraction) in GF(32) -/
def gfAdd (x y : Nat) : Nat := x ^^^ y

/-! ## 2. polynomials over GF(32) and the remainder modulo the generator -/

/-- a polynomial over GF(32): its coefficients, highest degree first
(`[c_n, …, c_1, c_0]` is `c_n x^n + … + c_1 x + c_0`) -/
abbrev Poly := List Nat

/-- `g(x) = x^6 + {29}x^5 + {22}x^4 + {20}x^3 + {21}x^2 + {29}x + {18}` -/
def generator : Poly := [1, 29, 22, 20, 21, 29, 18]

/-- `c · p(x)` -/
def scale (c : Nat) (p : Poly) : Poly := p.map (gfMul c)

/-- `p(x) + q(x)` for two coefficient lists of the same length -/
def addPoly (p q : Poly) : Poly := List.zipWith gfAdd p q

/-- one step of the long division by the (monic, degree 6) generator, "bring down the next coefficient":
if `r = r5 x^5 + … + r0` is the remainder of `p(x)`, the remainder of `p(x)·x + v` is
`r(x)·x + v − r5·g(x)`, whose `x^6` coefficient cancels: its six lower coefficients are those of
`r4 x^5 + … + r0 x + v` plus `r5 · (g(x) − x^6)` -/
def remStep (r : Poly) (v : Nat) : Poly :=
  addPoly (r.tail ++ [v]) (scale (r.headD 0) generator.tail)

/-- the remainder of `p(x)` modulo `g(x)`, as its six coefficients of `x^5 … x^0` (long division, one
coefficient of `p` at a time).  That this IS the remainder — `p = q·g + polyRem p` for a quotient `q`,
coefficient by coefficient, and no other list of six coefficients has that property — is
`C07_bech32_spec_remainder` / `C07_bech32_spec_remainder_unique`. -/
def polyRem (p : Poly) : Poly := p.foldl remStep [0, 0, 0, 0, 0, 0]

/-- coefficient of `x^k` -/
def coeff (p : Poly) (k : Nat) : Nat := p.reverse.getD k 0

/-- coefficient of `x^k` in the product `p(x)·q(x)`: `Σ_{i ≤ k} p_i · q_{k-i}` -/
def mulCoeff (p q : Poly) (k : Nat) : Nat :=
  (List.range (k + 1)).foldl (fun acc i => gfAdd acc (gfMul (coeff p i) (coeff q (k - i)))) 0

/-! ## 3. the checksum -/

/-- "`[ord(x) >> 5 for x in s] + [0] + [ord(x) & 31 for x in s]`": high bits, a zero, low bits -/
def hrpExpand (hrp : Bytes) : List Nat :=
  hrp.map (fun c => c.toNat / 32) ++ [0] ++ hrp.map (fun c => c.toNat % 32)

/-- the value polynomial of a human-readable part and data values: the implicit leading 1, then the
expanded human-readable part, then the data values -/
def valuePoly (hrp : Bytes) (values : List Nat) : Poly := 1 :: (hrpExpand hrp ++ values)

/-- the six checksum values of `(hrp, data)`: the coefficients of `(v(x)·x^6 mod g(x)) + 1` -/
def checksum (hrp : Bytes) (data : List Nat) : List Nat :=
  addPoly (polyRem (valuePoly hrp data ++ [0, 0, 0, 0, 0, 0])) [0, 0, 0, 0, 0, 1]

/-- a data part (values, checksum included) is consistent with `hrp` iff the remainder of the value
polynomial is the constant polynomial 1 -/
def verify (hrp : Bytes) (values : List Nat) : Bool :=
  polyRem (valuePoly hrp values) = [0, 0, 0, 0, 0, 1]

/-- the reference code's 30-bit presentation of a remainder ("a 30-bit integer whose 5-bit groups are the
coefficients"): used only to state what the model's `polymod` register holds -/
def pack (r : Poly) : Nat := r.foldl (fun n c => n * 32 + c) 0

/-- `bech32_polymod(values)` of BIP173, stated as a remainder: the packed coefficients of
`(x^n + v_0 x^{n-1} + … + v_{n-1}) mod g(x)` -/
def polymod (values : List Nat) : Nat := pack (polyRem (1 :: values))

/-! ## 4. characters -/

def charsetStr : String := "qpzry9x8gf2tvdw0s3jn54khce6mua7l"

/-- the character of a value `< 32` -/
def charOf (v : Nat) : UInt8 := (Bytes.ofString charsetStr).getD v 0

/-- the value of a character: the `v < 32` with `charOf v = c`, if there is one -/
def valueOf (c : UInt8) : Option Nat := (List.range 32).find? (fun v => charOf v = c)

/-- the values of a data part; `none` if some character is not in the table -/
def valuesOf : Bytes → Option (List Nat)
  | [] => some []
  | c :: cs => match valueOf c, valuesOf cs with
    | some v, some vs => some (v :: vs)
    | _, _ => none

/-- the separator `'1'` -/
def sep : UInt8 := 49

def isUpper (c : UInt8) : Bool := 65 ≤ c.toNat && c.toNat ≤ 90      -- 'A' … 'Z'
def isLower (c : UInt8) : Bool := 97 ≤ c.toNat && c.toNat ≤ 122     -- 'a' … 'z'

/-- lower-case form of a character -/
def lower (c : UInt8) : UInt8 := if isUpper c then UInt8.ofNat (c.toNat + 32) else c

/-- "the last one in the string is the separator": `some (pre, post)` with `s = pre ++ '1' :: post` and
no `'1'` in `post`; `none` if there is no `'1'` -/
def splitLastSep : Bytes → Option (Bytes × Bytes)
  | [] => none
  | c :: cs => match splitLastSep cs with
    | some (pre, post) => some (c :: pre, post)
    | none => if c = sep then some ([], cs) else none

/-! ## 5. encoding and decoding -/

/-- the Bech32 string of a human-readable part and 5-bit data values: `hrp`, the separator, the characters
of the data values followed by the six checksum values.  Defined (as the Go `Encode`) for any `hrp`; BIP173
additionally asks the caller for a non-empty lower-case `hrp` over [33-126] and at most 90 characters in
total — exactly then the result is a valid string (`C07_bech32_spec_roundtrip`).  `none` when a data value
is not a 5-bit value. -/
def encode (hrp data : Bytes) : Option Bytes :=
  if data.all (fun d => d.toNat < 32) then
    let values := data.map UInt8.toNat
    some (hrp ++ [sep] ++ (values ++ checksum hrp values).map charOf)
  else none

/-- validity and decoding of a Bech32 string, rule by rule: `some (hrp, data)` (lower-case
human-readable part, data values without the checksum) iff the string is valid -/
def decode (s : Bytes) : Option (Bytes × Bytes) :=
  -- "at most 90 characters long"
  if s.length > 90 then none
  -- "US-ASCII characters, each in the range [33-126]" (the data-part characters are in that range anyway)
  else if !s.all (fun c => 33 ≤ c.toNat && c.toNat ≤ 126) then none
  -- "decoders MUST NOT accept strings where some characters are uppercase and some are lowercase"
  else if s.any isUpper && s.any isLower then none
  else
    -- "the lowercase form is used"; "the last one in the string is the separator"
    match splitLastSep (s.map lower) with
    | none => none
    | some (hrp, dataPart) =>
      -- "1 to 83 characters" (≤ 83 follows from the 90 limit); "the data part is at least 6 characters long"
      if hrp = [] ∨ dataPart.length < 6 then none
      else match valuesOf dataPart with
        | none => none
        | some values =>
          if verify hrp values then some (hrp, (values.take (values.length - 6)).map UInt8.ofNat)
          else none

end Bch.Spec.Bech32
