import Bch.Prim.Bytes
/-
Bitcoin-Cash scripts as `github.com/gcash/bchd/txscript` (v0.20.0) reads them — an independent transcription,
from raw script bytes, of the two library functions whose answers the model of C10 (`Bch/Model/BloomTx.lean`)
takes as inputs:

* `txscript.PushedData(script)`            ↦ `pushedData : Bytes → Option (List Bytes)`   (`none` = error)
* `txscript.GetScriptClass(script) ∈ {PubKeyTy, MultiSigTy}` ↦ `updatable : Bytes → Bool`

What the Go code does (script.go `parseScriptTemplate`, `PushedData`; opcode.go `opcodeArray`; standard.go
`typeOfScript`, `isPubkey`, `isMultiSig`, …):

* the opcode table has 256 entries; `length` is `n+1` for OP_DATA_n (0x01..0x4b), `-1`, `-2`, `-4` for
  OP_PUSHDATA1/2/4 (0x4c/0x4d/0x4e) and `1` for every other byte (0x00, 0x4f..0xff — also the "invalid" and
  "unknown" opcodes: no byte makes the parser fail by itself);
* OP_DATA_n fails when fewer than `n` bytes follow; OP_PUSHDATAk fails when fewer than `k` length bytes follow,
  or fewer than `l` bytes follow them (`l` = the little-endian value of the `k` length bytes);
  (`int(l) < 0` cannot happen where `int` has 64 bits);
* `pop.data` is a non-nil slice exactly for the opcodes 0x01..0x4e (also when it is empty: `4c 00`),
  and nil for all others;
* `PushedData` keeps `pop.data` when it is non-nil and adds an empty entry for OP_0; OP_1NEGATE and OP_1..OP_16
  contribute nothing; on a parse error the whole result is the error (no partial list);
* `GetScriptClass` answers NonStandardTy on a parse error, otherwise `typeOfScript` tests in this order:
  isPubkey, isPubkeyHash, isScriptHash, isScriptHash32, isMultiSig, isNullData.

Core Lean only (linked into `bchmodel`).  `tokenize` runs on a fuel equal to the script length (each token
consumes at least one byte), so that it is structurally recursive and `decide` can evaluate it; linear time.
-/
namespace Bch.Spec.Script
open Bch

/-- one parsed instruction: the opcode byte and the bytes it pushes (`[]` for opcodes that carry no data) -/
structure Token where
  op : UInt8
  data : Bytes
  deriving DecidableEq, Repr

/-- OP_DATA_1 .. OP_DATA_75: the opcode is the number of bytes pushed -/
def isDirect (op : UInt8) : Bool := 1 ≤ op.toNat && op.toNat ≤ 75

/-- OP_PUSHDATA1, OP_PUSHDATA2, OP_PUSHDATA4 -/
def isPushData (op : UInt8) : Bool := 0x4c ≤ op.toNat && op.toNat ≤ 0x4e

/-- number of little-endian length bytes after OP_PUSHDATA1/2/4 -/
def lenWidth (op : UInt8) : Nat := if op.toNat = 0x4c then 1 else if op.toNat = 0x4d then 2 else 4

/-- Go: `pop.data != nil` -/
def carriesData (op : UInt8) : Bool := isDirect op || isPushData op

/-- the first `n` bytes and the rest; `none` when fewer than `n` bytes are there -/
def split : Nat → Bytes → Option (Bytes × Bytes)
  | 0, r => some ([], r)
  | _+1, [] => none
  | n+1, b :: r => match split n r with
    | none => none
    | some (d, r') => some (b :: d, r')

/-- what follows the opcode byte `op`: the data of the instruction and the remaining script -/
def next (op : UInt8) (rest : Bytes) : Option (Bytes × Bytes) :=
  if isDirect op then split op.toNat rest
  else if isPushData op then
    match split (lenWidth op) rest with
    | none => none
    | some (lenBytes, r) => split (Bytes.toNatLE lenBytes) r
  else some ([], rest)

def tokFuel : Nat → Bytes → Option (List Token)
  | _, [] => some []
  | 0, _ :: _ => none
  | f+1, op :: rest =>
    match next op rest with
    | none => none
    | some (d, r) =>
      match tokFuel f r with
      | none => none
      | some ts => some (⟨op, d⟩ :: ts)

/-- `parseScript`: `none` = ErrMalformedPush -/
def tokenize (s : Bytes) : Option (List Token) := tokFuel s.length s

/-- the bytes of one instruction -/
def encodeTok (t : Token) : Bytes :=
  if isDirect t.op then t.op :: t.data
  else if isPushData t.op then t.op :: (Bytes.ofNatLE (lenWidth t.op) t.data.length ++ t.data)
  else [t.op]

def encode (ts : List Token) : Bytes := ts.flatMap encodeTok

/-- the tokens the parser can produce: the data of OP_DATA_n has `n` bytes, the data of OP_PUSHDATAk fits `k`
length bytes, other opcodes carry nothing.  (No minimality: `4c 01 aa` is as good as `01 aa`.) -/
def Token.wf (t : Token) : Bool :=
  if isDirect t.op then t.data.length == t.op.toNat
  else if isPushData t.op then decide (t.data.length < 256 ^ lenWidth t.op)
  else t.data.isEmpty

/-- what `PushedData` keeps of one instruction -/
def pushOf (t : Token) : Option Bytes :=
  if carriesData t.op then some t.data
  else if t.op.toNat = 0 then some []
  else none

def pushesOf (ts : List Token) : List Bytes := ts.filterMap pushOf

/-- `txscript.PushedData` -/
def pushedData (s : Bytes) : Option (List Bytes) := (tokenize s).map pushesOf

/-! ### script classes (standard.go) -/

def OP_0 : UInt8 := 0x00
def OP_PUSHDATA1 : UInt8 := 0x4c
def OP_PUSHDATA2 : UInt8 := 0x4d
def OP_PUSHDATA4 : UInt8 := 0x4e
def OP_1NEGATE : UInt8 := 0x4f
def OP_1 : UInt8 := 0x51
def OP_16 : UInt8 := 0x60
def OP_RETURN : UInt8 := 0x6a
def OP_DUP : UInt8 := 0x76
def OP_EQUAL : UInt8 := 0x87
def OP_EQUALVERIFY : UInt8 := 0x88
def OP_HASH160 : UInt8 := 0xa9
def OP_HASH256 : UInt8 := 0xaa
def OP_CHECKSIG : UInt8 := 0xac
def OP_CHECKMULTISIG : UInt8 := 0xae

/-- OP_0 or OP_1..OP_16 -/
def isSmallInt (op : UInt8) : Bool := op.toNat = 0 || (0x51 ≤ op.toNat && op.toNat ≤ 0x60)

def asSmallInt (op : UInt8) : Nat := if op.toNat = 0 then 0 else op.toNat - 0x50

/-- "Valid pubkeys are either 33 or 65 bytes" — nothing else is looked at (no prefix byte, no push form) -/
def keyLen (t : Token) : Bool := t.data.length == 33 || t.data.length == 65

/-- `isPubkey`: two instructions, the first carries 33 or 65 bytes, the second is OP_CHECKSIG -/
def isPubKey (ts : List Token) : Bool :=
  match ts with
  | [k, c] => keyLen k && c.op.toNat = 0xac
  | _ => false

/-- `isPubkeyHash`: OP_DUP OP_HASH160 OP_DATA_20 OP_EQUALVERIFY OP_CHECKSIG -/
def isPubKeyHash (ts : List Token) : Bool :=
  match ts with
  | [a, b, c, d, e] => a.op.toNat = 0x76 && b.op.toNat = 0xa9 && c.op.toNat = 0x14 && d.op.toNat = 0x88 && e.op.toNat = 0xac
  | _ => false

/-- `isScriptHash`: OP_HASH160 OP_DATA_20 OP_EQUAL -/
def isScriptHash (ts : List Token) : Bool :=
  match ts with
  | [a, b, c] => a.op.toNat = 0xa9 && b.op.toNat = 0x14 && c.op.toNat = 0x87
  | _ => false

/-- `isScriptHash32`: OP_HASH256 OP_DATA_32 OP_EQUAL -/
def isScriptHash32 (ts : List Token) : Bool :=
  match ts with
  | [a, b, c] => a.op.toNat = 0xaa && b.op.toNat = 0x20 && c.op.toNat = 0x87
  | _ => false

/-- `isMultiSig`, statement by statement: `l ≥ 4`, `pops[0]` and `pops[l-2]` small integers, `pops[l-1]` is
OP_CHECKMULTISIG, `l-3 = asSmallInt pops[l-2]`, all of `pops[1:l-2]` carry 33 or 65 bytes.
(The first number is not compared with the second: `OP_16 <key> OP_1 OP_CHECKMULTISIG` and
`OP_0 <key> OP_1 OP_CHECKMULTISIG` are multisig.) -/
def isMultiSig (ts : List Token) : Bool :=
  let l := ts.length
  let opAt (i : Nat) : UInt8 := match ts[i]? with | some t => t.op | none => 0xff
  decide (4 ≤ l) && isSmallInt (opAt 0) && isSmallInt (opAt (l-2)) && decide ((opAt (l-1)).toNat = 0xae) &&
    decide (l - 3 = asSmallInt (opAt (l-2))) && ((ts.drop 1).take (l-3)).all keyLen

/-- `isNullData`: OP_RETURN followed only by opcodes up to OP_16, the whole script at most 223 bytes
(`scriptLen` in the Go loop adds up the encoded length of every instruction). -/
def isNullData (ts : List Token) : Bool :=
  match ts with
  | [] => false
  | r :: rest => decide (r.op.toNat = 0x6a) && rest.all (fun t => decide (t.op.toNat ≤ 0x60)) &&
      decide (1 + (rest.map fun t => (encodeTok t).length).sum ≤ 223)

inductive ScriptClass where
  | nonStandard | pubKey | pubKeyHash | scriptHash | scriptHash32 | multiSig | nullData
  deriving DecidableEq, Repr

/-- `typeOfScript`: the tests in the order of the Go code -/
def typeOfTokens (ts : List Token) : ScriptClass :=
  if isPubKey ts then .pubKey
  else if isPubKeyHash ts then .pubKeyHash
  else if isScriptHash ts then .scriptHash
  else if isScriptHash32 ts then .scriptHash32
  else if isMultiSig ts then .multiSig
  else if isNullData ts then .nullData
  else .nonStandard

/-- `txscript.GetScriptClass` -/
def scriptClass (s : Bytes) : ScriptClass :=
  match tokenize s with
  | none => .nonStandard
  | some ts => typeOfTokens ts

/-- the class is pay-to-pubkey or multisig: the outputs whose outpoint BloomUpdateP2PubkeyOnly adds -/
def updatable (s : Bytes) : Bool :=
  match scriptClass s with
  | .pubKey => true
  | .multiSig => true
  | _ => false

/-- numeric tag of the class, in the order of txscript's `ScriptClass` constants
(NonStandardTy = 0, PubKeyTy, PubKeyHashTy, ScriptHashTy, ScriptHash32Ty, MultiSigTy, NullDataTy) -/
def ScriptClass.tag : ScriptClass → Nat
  | .nonStandard => 0 | .pubKey => 1 | .pubKeyHash => 2 | .scriptHash => 3 | .scriptHash32 => 4
  | .multiSig => 5 | .nullData => 6

/-- The cross-check of the driver: `libPushes` is what the harness printed for `txscript.PushedData(script)`
(`none` = the error marker `E`), `libUpdatable` whether it printed class `1`
(`GetScriptClass ∈ {PubKeyTy, MultiSigTy}`). -/
def agrees (script : Bytes) (libPushes : Option (List Bytes)) (libUpdatable : Bool) : Bool :=
  pushedData script == libPushes && updatable script == libUpdatable

/-! ### builders of the standard scripts (for statements and examples) -/

/-- `OP_DATA_n d` (an instruction for `1 ≤ |d| ≤ 75`) and the three explicit-length forms -/
def directPush (d : Bytes) : Bytes := UInt8.ofNat d.length :: d
def pushData1 (d : Bytes) : Bytes := 0x4c :: (Bytes.ofNatLE 1 d.length ++ d)
def pushData2 (d : Bytes) : Bytes := 0x4d :: (Bytes.ofNatLE 2 d.length ++ d)
def pushData4 (d : Bytes) : Bytes := 0x4e :: (Bytes.ofNatLE 4 d.length ++ d)

/-- OP_0 for 0, OP_1..OP_16 for 1..16 -/
def smallIntOp (n : Nat) : UInt8 := if n = 0 then 0 else UInt8.ofNat (0x50 + n)

def p2pkh (h : Bytes) : Bytes := [0x76, 0xa9] ++ directPush h ++ [0x88, 0xac]
def p2sh (h : Bytes) : Bytes := [0xa9] ++ directPush h ++ [0x87]
def p2sh32 (h : Bytes) : Bytes := [0xaa] ++ directPush h ++ [0x87]
def p2pk (key : Bytes) : Bytes := directPush key ++ [0xac]
def multisig (m : Nat) (keys : List Bytes) : Bytes :=
  smallIntOp m :: ((keys.flatMap directPush) ++ [smallIntOp keys.length, 0xae])
def nullData (d : Bytes) : Bytes := 0x6a :: directPush d

end Bch.Spec.Script
