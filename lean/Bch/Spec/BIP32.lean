import Bch.Model.HDKey
/-
BIP32 as the document states it (second, independent transcription), over the same external
parameter pack as the model. Keys are numbers and points, not byte buffers.
-/
namespace Bch.Spec.BIP32
open Bch Bch.Model Bch.Model.HDKey

structure SKey (Pt : Type) where
  /-- `some k` for an extended private key -/
  priv : Option Nat
  /-- the public point K (= k·G for private keys) -/
  pub : Pt
  c : Bytes
  depth : Nat
  fp : Bytes
  idx : Nat

variable {Pt : Type} (X : HDExt Pt)

def ser32 (i : Nat) : Bytes := Bytes.ofNatBE 4 i
def ser256 (k : Nat) : Bytes := Bytes.ofNatBE 32 k
def parse256 (b : Bytes) : Nat := Bytes.toNatBE b

def master (seed : Bytes) : Option (SKey Pt) :=
  if seed.length < 16 ∨ seed.length > 64 then none else
  let I := X.hmac512 (Bytes.ofString "Bitcoin seed") seed
  let k := parse256 (I.take 32)
  if k = 0 ∨ k ≥ X.n then none else
  (X.mulG k).map fun K => ⟨some k, K, I.drop 32, 0, [0,0,0,0], 0⟩

def fingerprint (K : Pt) : Bytes := (X.hash160 (X.serC K)).take 4

/-- CKDpriv; `none` = "the resulting key is invalid" -/
def ckdPriv (k : Nat) (K : Pt) (c : Bytes) (depth : Nat) (i : Nat) : Option (SKey Pt) :=
  let I := if i ≥ 2^31 then X.hmac512 c ([0] ++ ser256 k ++ ser32 i) else X.hmac512 c (X.serC K ++ ser32 i)
  let il := parse256 (I.take 32)
  let ki := (il + k) % X.n
  if il ≥ X.n ∨ ki = 0 then none else
  (X.mulG ki).map fun Ki => ⟨some ki, Ki, I.drop 32, depth + 1, fingerprint X K, i⟩

/-- CKDpub; `none` = invalid or hardened -/
def ckdPub (K : Pt) (c : Bytes) (depth : Nat) (i : Nat) : Option (SKey Pt) :=
  if i ≥ 2^31 then none else
  let I := X.hmac512 c (X.serC K ++ ser32 i)
  let il := parse256 (I.take 32)
  if il ≥ X.n then none else
  match X.mulG il with
  | none => none
  | some P => (X.add P K).map fun Ki => ⟨none, Ki, I.drop 32, depth + 1, fingerprint X K, i⟩

def child (s : SKey Pt) (i : Nat) : Option (SKey Pt) :=
  match s.priv with
  | some k => ckdPriv X k s.pub s.c s.depth i
  | none => ckdPub X s.pub s.c s.depth i

def neuter (s : SKey Pt) : SKey Pt := { s with priv := none }

/-- serialisation: 4 version ‖ depth ‖ fingerprint ‖ child number ‖ chain code ‖ key, Base58Check -/
def serialize (verPriv verPub : Bytes) (s : SKey Pt) : Bytes :=
  let body := match s.priv with
    | some k => verPriv ++ [UInt8.ofNat s.depth] ++ s.fp ++ ser32 s.idx ++ s.c ++ [0] ++ ser256 k
    | none => verPub ++ [UInt8.ofNat s.depth] ++ s.fp ++ ser32 s.idx ++ s.c ++ X.serC s.pub
  Base58.Encode (body ++ (X.sha256d body).take 4)

end Bch.Spec.BIP32
