import Bch.Model.Base58
/-
The CashAddr address format as the specification document states it
(https://github.com/bitcoincashorg/bitcoincash.org/blob/master/spec/cashaddr.md) — a second, independent
transcription of the ENCODER, written on numbers (the regrouping is "the payload bits, zero-padded to a
multiple of 5, read as base-32 digits"), not on the accumulator loop of the Go code / of
`Bch/Model/CashAddr.lean`.  Also the legacy Base58Check address string.

* version byte: "The most significant bit is reserved and must be 0. The 4 next bits indicate the type of
  address and the 3 least significant bits indicate the size of the hash":
  0 ↦ 160, 1 ↦ 192, 2 ↦ 224, 3 ↦ 256, 4 ↦ 320, 5 ↦ 384, 6 ↦ 448, 7 ↦ 512 bits; type 0 = P2KH, 1 = P2SH.
* payload: version byte ‖ hash, "packed in 5-bit groups, most significant bits first, padded with zero
  bits".
* checksum: the 40-bit `PolyMod` of: the lower 5 bits of each prefix character, a zero for the separator,
  the payload groups, eight zeros — emitted as eight 5-bit groups, most significant first.
* every 5-bit group is written with the character `qpzry9x8gf2tvdw0s3jn54khce6mua7l[group]`.
-/
namespace Bch.Spec.CashAddr
open Bch

/-- size code of a hash of `bits` bits -/
def sizeCode (bits : Nat) : Option Nat :=
  if bits = 160 then some 0 else if bits = 192 then some 1 else if bits = 224 then some 2
  else if bits = 256 then some 3 else if bits = 320 then some 4 else if bits = 384 then some 5
  else if bits = 448 then some 6 else if bits = 512 then some 7 else none

/-- `0 | type (4 bits) | size (3 bits)` -/
def versionByte (type hashLen : Nat) : Option Nat :=
  if type ≥ 16 then none else (sizeCode (8 * hashLen)).map fun s => type * 8 + s

/-- the number a byte string spells, big-endian -/
def beNat (bs : List Nat) : Nat := bs.foldl (fun n b => n * 256 + b) 0

/-- 8 → 5 regrouping: the `B = 8·len` bits of the string followed by `5G - B` zero bits, where `G` is the
least number of 5-bit groups that hold `B` bits, read as `G` base-32 digits, most significant first -/
def regroup5 (bs : List Nat) : List Nat :=
  let B := 8 * bs.length
  let G := (B + 4) / 5
  let N := beNat bs * 2 ^ (5 * G - B)
  (List.range G).map fun i => N / 32 ^ (G - 1 - i) % 32

/-- the reference `PolyMod` step, as in the specification text -/
def polyModStep (c d : Nat) : Nat :=
  let c0 := c >>> 35
  let c := ((c &&& 0x07ffffffff) <<< 5) ^^^ d
  let c := if c0 &&& 0x01 ≠ 0 then c ^^^ 0x98f2bc8e61 else c
  let c := if c0 &&& 0x02 ≠ 0 then c ^^^ 0x79b76d99e2 else c
  let c := if c0 &&& 0x04 ≠ 0 then c ^^^ 0xf33e5fb3c4 else c
  let c := if c0 &&& 0x08 ≠ 0 then c ^^^ 0xae2eabe2a8 else c
  let c := if c0 &&& 0x10 ≠ 0 then c ^^^ 0x1e4f43e470 else c
  c

/-- `uint64_t c = 1; for (uint8_t d : v) { … } return c ^ 1;` -/
def polyMod (v : List Nat) : Nat := v.foldl polyModStep 1 ^^^ 1

/-- the eight checksum groups of a payload under a prefix -/
def checksum (pre : Bytes) (payload : List Nat) : List Nat :=
  let m := polyMod (pre.map (fun c => c.toNat % 32) ++ [0] ++ payload ++ [0, 0, 0, 0, 0, 0, 0, 0])
  (List.range 8).map fun i => m / 32 ^ (7 - i) % 32

def charset : Bytes := Bytes.ofString "qpzry9x8gf2tvdw0s3jn54khce6mua7l"

/-- the address string WITHOUT the `prefix:` part (what `EncodeAddress` returns); `none` when the hash
size or the type is not one the version byte can express -/
def cashaddrEncode (pre : Bytes) (type : Nat) (hash : Bytes) : Option Bytes :=
  (versionByte type hash.length).map fun v =>
    let payload := regroup5 (v :: hash.map UInt8.toNat)
    (payload ++ checksum pre payload).map fun s => charset.getD s 0

/-- legacy address: Base58 of `version ‖ hash ‖ first four bytes of SHA256(SHA256(version ‖ hash))`
(Base58 itself is the subject of C07; the model's `Base58.Encode` is used) -/
def base58check (sha256d : Bytes → Bytes) (version : UInt8) (hash : Bytes) : Bytes :=
  Model.Base58.Encode (version :: hash ++ (sha256d (version :: hash)).take 4)

end Bch.Spec.CashAddr
