import Lean
/-
`#audit_ns Foo.Bar` prints, for every theorem whose name has prefix `Foo.Bar`
(declared in any imported module), one line
  THEOREM <name> AXIOMS <comma separated axioms or ->
It is what the check script uses to count proof obligations and to audit axioms.
-/
open Lean Elab Command

elab "#audit_ns " ns:ident : command => do
  let env ← getEnv
  let pre := ns.getId
  let mut names : Array Name := #[]
  for (n, ci) in env.constants.toList do
    if pre.isPrefixOf n && !n.isInternal then
      match ci with
      | .thmInfo _ => names := names.push n
      | _ => pure ()
  let sorted := names.qsort (fun a b => a.toString < b.toString)
  for n in sorted do
    let axs ← liftCoreM (collectAxioms n)
    let axs := axs.qsort (fun a b => a.toString < b.toString)
    let s := if axs.isEmpty then "-" else ",".intercalate (axs.toList.map toString)
    logInfo m!"THEOREM {n} AXIOMS {s}"
