import Bch.Generated.Facts
namespace Bch.Tie
end Bch.Tie
