import Bch.Tie.Addr
import Bch.Tie.Bech32
import Bch.Tie.Bech32Gen
import Bch.Tie.Base58
import Bch.Tie.HD
import Bch.Tie.Gcs
import Bch.Tie.GcsImmutable
import Bch.Tie.Limits
import Bch.Tie.Amount
import Bch.Tie.Locking
/-! All tie modules (see `Bch/Tie/*.lean`). -/
