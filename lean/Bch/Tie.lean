import Bch.Generated.Facts
import Bch.Model.CashAddr
import Bch.Model.Bech32
import Bch.Model.Base58
import Bch.Model.Address
import Bch.Model.HDKey
import Bch.Model.Merkle
import Bch.Model.GcsBuilder
import Bch.Model.Amount
import Bch.Model.Locking
/-
The translator side of the tie: `Bch/Generated/Facts.lean` is rewritten from /repo's current source and
from the running implementation on every check; each theorem below states that a regenerated fact equals
what the hand-written model assumes. A change to the Go code that alters a constant, a table, a checksum
generator, the lock skeleton of a bloom.Filter method or the write set of a gcs.Filter method makes one of
these stop checking.
-/
namespace Bch.Tie
open Bch Bch.Model

def nats (b : Bytes) : List Nat := b.map (·.toNat)

theorem tie_cashCharset : Generated.cashCharset = nats CashAddr.charset := by decide +kernel

theorem tie_cashCharsetRev :
    Generated.cashCharsetRev = (List.range 128).map (fun c =>
      match CashAddr.charsetRev (UInt8.ofNat c) with | some v => (v.toNat : Int) | none => -1) := by decide +kernel

theorem tie_bech32Charset : Generated.bech32Charset = nats Bech32.charset := by decide +kernel
theorem tie_bech32Gen : Generated.bech32Gen = Bech32.gen := by decide +kernel
theorem tie_b58Alphabet : Generated.b58Alphabet = nats Base58.alphabet := by decide +kernel
theorem tie_b58Table :
    Generated.b58Table = (List.range 256).map (fun c =>
      match Base58.b58 (UInt8.ofNat c) with | some v => v | none => 255) := by decide +kernel

theorem tie_hd_constants :
    Generated.hardenedKeyStart = HDKey.hardenedKeyStart ∧ Generated.minSeedBytes = 16 ∧ Generated.maxSeedBytes = 64 := by
  decide +kernel

theorem tie_hdPairs :
    Generated.hdPairs = HDKey.hdPairs.map (fun p => (nats p.1, nats p.2)) := by decide +kernel

theorem tie_gcs_constants :
    Generated.gcsKeySize = 16 ∧ Generated.defaultP = 19 ∧ Generated.defaultM = 784931 := by decide +kernel

theorem tie_limits :
    Generated.maxTxnCount = Merkle.maxTxnCount ∧ Generated.maxFilterLoadFilterSize = 36000 ∧
    Generated.maxFilterLoadHashFuncs = 50 := by decide +kernel

theorem tie_amount_constants :
    Generated.satoshiPerBitcoin = 100000000 ∧ Generated.maxSatoshi = 2100000000000000 ∧
    Generated.amountUnits = [6, 3, 0, -3, -6, -8] ∧
    Generated.amountLabels = ([6, 3, 0, -3, -6, -8, 1] : List Int).map Amount.unitString := by decide +kernel

theorem tie_nets :
    Generated.netNames = Address.nets.map (·.name) ∧
    Generated.netCashPrefixes = Address.nets.map (fun n => nats n.cashPrefix) ∧
    Generated.netSlpPrefixes = Address.nets.map (fun n => nats n.slpPrefix) ∧
    Generated.netPkhIDs = Address.nets.map (·.pkhID.toNat) ∧
    Generated.netShIDs = Address.nets.map (·.shID.toNat) ∧
    Generated.netWifIDs = Address.nets.map (·.wifID.toNat) ∧
    Generated.netHdPriv = Address.nets.map (fun n => nats n.hdPriv) ∧
    Generated.netHdPub = Address.nets.map (fun n => nats n.hdPub) := by decide +kernel

theorem tie_registered_ids :
    Generated.pkhIDs = nats Address.pkhIDs ∧ Generated.shIDs = nats Address.shIDs := by decide +kernel

/-- `n` successive syndromes of a unit error moving away from the end of the word: x, step x, step (step x), … -/
def orbit (step : Nat → Nat) : Nat → Nat → List Nat
  | 0, _ => []
  | n+1, x => x :: orbit step n (step x)

/-- the implementation's own CashAddr checksum, probed on unit errors over a 112-symbol window, behaves as the
    model's step function iterated on the error value (what linearity predicts; see Props/C03) -/
theorem tie_cashSyndromes :
    Generated.cashSyndromes = (List.range 5).map (fun b => orbit (fun c => CashAddr.polyModStep c 0) 112 (2 ^ b)) := by
  decide +kernel

theorem tie_cashPrefixPolyMods :
    Generated.cashPrefixPolyMods =
      ["bitcoincash", "simpleledger", "bchtest", "slptest", "bchreg", "slpreg", "bchsim"].map (fun p =>
        CashAddr.polyMod (CashAddr.expandPrefix (Bytes.ofString p))) := by decide +kernel

theorem tie_bech32Syndromes :
    Generated.bech32Syndromes = (List.range 5).map (fun b => orbit (fun c => Bech32.polymodStep c 0) 89 (2 ^ b)) := by
  decide +kernel

/-- every exported method of bloom.Filter takes the mutex before touching the shared message and releases it
    before returning -/
theorem tie_bloom_lock_discipline :
    Generated.bloomSkeletons.all (fun m => Locking.wellBracketed m.2) = true := by decide +kernel

/-- the operations documented as safe for concurrent access are exactly the exported methods analysed -/
theorem tie_bloom_methods :
    Generated.bloomSkeletons.map (·.1) =
      ["Add", "AddHash", "AddOutPoint", "IsLoaded", "MatchTxAndUpdate", "Matches", "MatchesOutPoint",
       "MsgFilterLoad", "Reload", "Unload"] := by decide +kernel

/-- no method of gcs.Filter writes receiver state: filters are immutable after construction -/
theorem tie_gcs_immutable : Generated.gcsWrites.all (fun m => m.2 == 0) = true := by decide +kernel

theorem tie_gcs_methods :
    ["Match", "MatchAny", "ZipMatchAny", "HashMatchAny"].all (fun n => (Generated.gcsWrites.map (·.1)).contains n) = true := by
  decide +kernel

end Bch.Tie
