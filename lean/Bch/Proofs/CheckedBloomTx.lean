import Bch.Proofs.Checked
import Bch.Model.BloomTx
/-
Fault-tracking transcription of the TRANSACTION entry points of /repo/bloom/filter.go (C08, bloom part 2):
`matchesOutPoint`/`MatchesOutPoint` (175-193), `AddHash` (228-232), `addOutPoint`/`AddOutPoint` (237-253),
`maybeAddOutpoint` (260-272), `matchTxAndUpdate`/`MatchTxAndUpdate` (280-350), and the per-transaction step of
the block scan `checkFilterTx` / `GetMatchedIndices` (/repo/bloom/merkleblock.go:110-153).

Conventions as in `Checked.lean` (§4 there transcribes `hash`/`matches`/`add`, which are *called* here, not
re-done). What can panic in this code: the slice expressions on the 36-byte outpoint buffer (`buf[:]`,
`buf[chainhash.HashSize:]`), `binary.LittleEndian.PutUint32` (its `_ = b[3]` bounds check and four stores), the
`bf.msgFilterLoad.Flags` dereference in `maybeAddOutpoint` (no nil test there!), and everything inside
`matches`/`add`. `copy`, `range` over a nil/empty slice and map look-ups cannot panic.

External code stays abstract exactly as in `Bch/Model/BloomTx.lean`: `txscript.PushedData` (result or error),
`txscript.GetScriptClass`, `tx.Hash()`, `wire.NewOutPoint` are inputs of the transaction record. A hash is a Go
`[32]byte`; the record has `Bytes`. The transcription does NOT assume the length: `copy(buf[:], hash[:])` is
transcribed with Go's `copy` semantics (min of the two lengths), so the no-fault theorem holds for ALL records;
the serialised outpoint is then `fix32 hash ++ LE32 index`, which is the model's `outPointBytes` for 32-byte
hashes (`fix32_of_length`).

Ghost state (`FS`): `ticks` counts the evaluations of `matches`/`add`, `alloc` the bytes of the buffers the code
allocates itself (the `var buf [36]byte` arrays; nothing else is allocated in filter.go on these paths).
-/
set_option linter.unusedSectionVars false

namespace Bch.Proofs.CheckedBloomTx
open Bch Bch.Model Bch.Model.Bloom Bch.Proofs.Checked
open Bch.Model.BloomTx (TxOut TxIn Tx bloomOps bloomSame)
open Bch.Proofs.Bloom (Lim Lim_none Lim_some Lim_add)

/-! ## primitives -/

/-- Go `copy(dst, src)`: copies `min(len(dst), len(src))` elements, never panics; the new content of `dst` -/
def copyInto (dst src : Bytes) : Bytes := src.take dst.length ++ dst.drop src.length

theorem copyInto_length (dst src : Bytes) : (copyInto dst src).length = dst.length := by
  simp [copyInto]; omega

/-- `binary.LittleEndian.PutUint32(b, v)` (encoding/binary): `_ = b[3]` (early bounds check), then
`b[0] = byte(v)`, `b[1] = byte(v >> 8)`, `b[2] = byte(v >> 16)`, `b[3] = byte(v >> 24)` -/
def putUint32C (b : Bytes) (v : UInt32) : Except Fault Bytes := do
  let _ ← idx? b 3
  let b ← set? b 0 v.toUInt8
  let b ← set? b 1 (v >>> 8).toUInt8
  let b ← set? b 2 (v >>> 16).toUInt8
  set? b 3 (v >>> 24).toUInt8

/-- a Go `[32]byte` read out of a byte string of any length: truncated / zero-padded (what `copy` into the
zeroed buffer leaves in `buf[:32]`) -/
def fix32 (h : Bytes) : Bytes := (h ++ List.replicate 32 0).take 32

theorem fix32_of_length {h : Bytes} (hl : h.length = 32) : fix32 h = h := by
  unfold fix32; exact List.take_left' hl

theorem fix32_length (h : Bytes) : (fix32 h).length = 32 := by
  simp [fix32]

/-- the filter object plus ghost counters -/
structure FS where
  f : Filter
  /-- ghost: number of `matches` / `add` evaluations so far -/
  ticks : Nat := 0
  /-- ghost: bytes of buffers allocated by the transcribed code so far -/
  alloc : Nat := 0
  deriving DecidableEq, Repr

/-- `bf.matches(data)` (filter.go:132), counted -/
def matchesT (s : FS) (d : Bytes) : Except Fault (Bool × FS) := do
  let b ← MatchesC s.f d
  pure (b, { s with ticks := s.ticks + 1 })

/-- `bf.add(data)` (filter.go:198), counted -/
def addT (s : FS) (d : Bytes) : Except Fault FS := do
  let f' ← addC s.f d
  pure { s with f := f', ticks := s.ticks + 1 }

/-! ## the transcription -/

/-- the serialisation shared by `matchesOutPoint` (filter.go:177-179, 181) and `addOutPoint` (239-241, 243);
`size` is the array length (`chainhash.HashSize + 4 = 36` in the code) -/
def outPointBufG (size : Nat) (s : FS) (hash : Bytes) (index : Nat) : Except Fault (Bytes × FS) := do
  let buf : Bytes := List.replicate size 0                         -- :177  var buf [36]byte   (zeroed, fixed size)
  let s := { s with alloc := s.alloc + buf.length }
  let dst ← slice? buf 0 buf.length                                -- :178  buf[:]
  let src ← slice? hash 0 hash.length                              -- :178  outpoint.Hash[:]
  let buf := copyInto dst src                                      -- :178  copy(…)  (dst aliases all of buf)
  let tail ← slice? buf 32 buf.length                              -- :179  buf[chainhash.HashSize:]
  let tail ← putUint32C tail (UInt32.ofNat index)                  -- :179  PutUint32(…, outpoint.Index)
  let buf := buf.take 32 ++ tail                                   --       (tail aliases buf[32:])
  let out ← slice? buf 0 buf.length                                -- :181  buf[:]
  pure (out, s)

def outPointBufC := outPointBufG 36

/-- `matchesOutPoint` / `MatchesOutPoint` (filter.go:175-193) -/
def matchesOutPointC (s : FS) (hash : Bytes) (index : Nat) : Except Fault (Bool × FS) := do
  let r ← outPointBufC s hash index
  matchesT r.2 r.1                                                 -- :181

/-- `addOutPoint` / `AddOutPoint` (filter.go:237-253) -/
def addOutPointC (s : FS) (hash : Bytes) (index : Nat) : Except Fault FS := do
  let r ← outPointBufC s hash index
  addT r.2 r.1                                                     -- :243

/-- `AddHash` (filter.go:228-232); the pointer itself is the caller's, not input data -/
def addHashC (s : FS) (hash : Bytes) : Except Fault FS := do
  let d ← slice? hash 0 hash.length                                -- :230  hash[:]
  addT s d

/-- `maybeAddOutpoint` (filter.go:260-272). NB `bf.msgFilterLoad.Flags` is read without a nil test. -/
def maybeAddOutpointC (s : FS) (out : TxOut) (id : Bytes) (idx : Nat) : Except Fault FS := do
  let m ← deref? s.f                                               -- :261  bf.msgFilterLoad.Flags
  match m.flags with
  | 1 => addOutPointC s id idx                                     -- :262-264  BloomUpdateAll
  | 2 =>                                                           -- :265  BloomUpdateP2PubkeyOnly
    if out.isPubKeyOrMultisig then addOutPointC s id idx           -- :266-269
    else pure s
  | _ => pure s

/-- the inner loop `for _, data := range pushedData` of the output scan (filter.go:299-307); threads `matched` -/
def outPushesC (out : TxOut) (id : Bytes) (idx : Nat) : List Bytes → FS → Bool → Except Fault (FS × Bool)
  | [], s, matched => pure (s, matched)
  | d :: ds, s, matched => do
    let r ← matchesT s d                                           -- :300
    if !r.1 then outPushesC out id idx ds r.2 matched              -- :301  continue
    else do
      let s' ← maybeAddOutpointC r.2 out id idx                    -- :305  (index is uint32(i))
      pure (s', true)                                              -- :304, :306  matched = true; break

/-- `for i, txOut := range tx.MsgTx().TxOut` (filter.go:293-308) -/
def scanOutsC (id : Bytes) : List TxOut → Nat → FS → Bool → Except Fault (FS × Bool)
  | [], _, s, matched => pure (s, matched)
  | o :: os, idx, s, matched =>
    match o.pushes with                                            -- :294  txscript.PushedData(txOut.PkScript)
    | none => scanOutsC id os (idx+1) s matched                    -- :295-297  err != nil: continue
    | some ps => do
      let r ← outPushesC o id idx ps s matched
      scanOutsC id os (idx+1) r.1 r.2

/-- `for _, data := range pushedData` of the input scan (filter.go:329-333) -/
def inPushesC : List Bytes → FS → Except Fault (Bool × FS)
  | [], s => pure (false, s)
  | d :: ds, s => do
    let r ← matchesT s d                                           -- :330
    if r.1 then pure (true, r.2) else inPushesC ds r.2             -- :331  return true

/-- `for _, txin := range tx.MsgTx().TxIn` (filter.go:320-334) -/
def scanInsC : List TxIn → FS → Except Fault (Bool × FS)
  | [], s => pure (false, s)                                       -- :336
  | i :: is, s => do
    let r ← matchesOutPointC s i.prevHash i.prevIdx                -- :321
    if r.1 then pure (true, r.2) else                              -- :322
    match i.pushes with                                            -- :325  txscript.PushedData(txin.SignatureScript)
    | none => scanInsC is r.2                                      -- :326-328
    | some ps => do
      let q ← inPushesC ps r.2
      if q.1 then pure (true, q.2) else scanInsC is q.2

/-- `matchTxAndUpdate` / `MatchTxAndUpdate` (filter.go:280-350) -/
def matchTxAndUpdateC (s : FS) (tx : Tx) : Except Fault (FS × Bool) := do
  let h ← slice? tx.id 0 tx.id.length                              -- :283  tx.Hash()[:]
  let r ← matchesT s h                                             -- :283
  let o ← scanOutsC tx.id tx.outs 0 r.2 r.1                        -- :293-308
  if o.2 then pure (o.1, true)                                     -- :311-313
  else do
    let q ← scanInsC tx.ins o.1                                    -- :320-334
    pure (q.2, q.1)                                                -- :336

/-! ## the outpoint buffer -/

theorem slice?_all {α : Type} (l : List α) : slice? l 0 l.length = .ok l := by
  have := slice?_take (l := l) (k := l.length) (Nat.le_refl _)
  simpa using this

theorem le32_bytes (index : Nat) :
    [(UInt32.ofNat index).toUInt8, (UInt32.ofNat index >>> 8).toUInt8, (UInt32.ofNat index >>> 16).toUInt8,
      (UInt32.ofNat index >>> 24).toUInt8] = Bytes.ofNatLE 4 index := by
  simp only [Bytes.ofNatLE]
  have e : ∀ (k : UInt32) (n : Nat), k.toNat = 8 * n → n < 4 →
      (UInt32.ofNat index >>> k).toUInt8 = UInt8.ofNat (index / 256 ^ n % 256) := by
    intro k n hk hn
    rw [← UInt8.toNat_inj, UInt32.toNat_toUInt8, UInt32.toNat_shiftRight, UInt8.toNat_ofNat', hk,
      UInt32.toNat_ofNat', Nat.shiftRight_eq_div_pow]
    have h8 : (2 : Nat) ^ (8 * n % 32) = 256 ^ n := by
      have : n = 0 ∨ n = 1 ∨ n = 2 ∨ n = 3 := by omega
      rcases this with rfl | rfl | rfl | rfl <;> decide
    rw [h8]
    have : n = 0 ∨ n = 1 ∨ n = 2 ∨ n = 3 := by omega
    rcases this with rfl | rfl | rfl | rfl <;> omega
  have e0 : (UInt32.ofNat index).toUInt8 = UInt8.ofNat (index % 256) := by
    have := e 0 0 (by decide) (by decide)
    simpa using this
  rw [e0, e 8 1 (by decide) (by decide), e 16 2 (by decide) (by decide), e 24 3 (by decide) (by decide)]
  simp only [List.cons.injEq, and_true, true_and]
  constructor <;> (congr 1; omega)

theorem putUint32C_four (t : Bytes) (ht : t.length = 4) (index : Nat) :
    putUint32C t (UInt32.ofNat index) = .ok (Bytes.ofNatLE 4 index) := by
  match t, ht with
  | [a, b, c, d], _ =>
    rw [← le32_bytes]
    simp [putUint32C, idx?, set?]

theorem putUint32C_short (t : Bytes) (ht : t.length < 4) (v : UInt32) : putUint32C t v = .error .indexOOB := by
  unfold putUint32C
  rw [idx?_oob (by omega)]; rfl

theorem copy_take32 (hash : Bytes) :
    (copyInto (List.replicate 36 (0 : UInt8)) hash).take 32 = fix32 hash := by
  unfold copyInto fix32
  simp only [List.length_replicate, List.drop_replicate, List.take_append, List.take_take, List.length_take,
    List.take_replicate]
  congr 1; congr 1; omega

theorem outPointBufC_eq (s : FS) (hash : Bytes) (index : Nat) :
    outPointBufC s hash index
      = .ok (BloomTx.outPointBytes (fix32 hash) index, { s with alloc := s.alloc + 36 }) := by
  unfold outPointBufC outPointBufG
  simp only [slice?_all, ok_bind]
  have hl := copyInto_length (List.replicate 36 (0 : UInt8)) hash
  rw [List.length_replicate] at hl
  have hs : slice? (copyInto (List.replicate 36 (0 : UInt8)) hash) 32
      ((copyInto (List.replicate 36 (0 : UInt8)) hash).length : Nat)
      = .ok ((copyInto (List.replicate 36 (0 : UInt8)) hash).drop 32) := by
    have := slice?_drop (l := copyInto (List.replicate 36 (0 : UInt8)) hash) (k := 32) (by omega)
    simpa using this
  rw [bind_of_ok hs, bind_of_ok (putUint32C_four _ (by rw [List.length_drop, hl]) index), copy_take32]
  simp only [List.length_replicate]
  rfl

/-- the buffer has 36 bytes whatever the lengths in the input are -/
theorem outPointBufC_length (s : FS) (hash : Bytes) (index : Nat) (r : Bytes × FS)
    (h : outPointBufC s hash index = .ok r) : r.1.length = 36 ∧ r.2.alloc = s.alloc + 36 := by
  rw [outPointBufC_eq] at h
  cases h
  simp [BloomTx.outPointBytes, fix32_length, Bch.Proofs.Bloom.ofNatLE_length]

/-- NEGATIVE: with a 32-byte array `buf[32:]` is the empty slice and `PutUint32`'s `_ = b[3]` panics … -/
theorem outPointBufG_32_fault (s : FS) (hash : Bytes) (index : Nat) :
    outPointBufG 32 s hash index = .error .indexOOB := by
  unfold outPointBufG
  simp only [slice?_all, ok_bind]
  have hl := copyInto_length (List.replicate 32 (0 : UInt8)) hash
  rw [List.length_replicate] at hl
  have hs : slice? (copyInto (List.replicate 32 (0 : UInt8)) hash) 32
      ((copyInto (List.replicate 32 (0 : UInt8)) hash).length : Nat)
      = .ok ((copyInto (List.replicate 32 (0 : UInt8)) hash).drop 32) := by
    have := slice?_drop (l := copyInto (List.replicate 32 (0 : UInt8)) hash) (k := 32) (by omega)
    simpa using this
  rw [bind_of_ok hs, putUint32C_short _ (by rw [List.length_drop, hl]; decide)]
  rfl

/-- … and with anything shorter the slice expression `buf[32:]` itself does -/
theorem outPointBufG_short_fault (size : Nat) (hsz : size < 32) (s : FS) (hash : Bytes) (index : Nat) :
    outPointBufG size s hash index = .error .sliceOOB := by
  unfold outPointBufG
  simp only [slice?_all, ok_bind]
  have hl := copyInto_length (List.replicate size (0 : UInt8)) hash
  rw [List.length_replicate] at hl
  rw [slice?_oob (by omega)]
  rfl

/-! ## leaf entry points -/

theorem matchesT_eq (s : FS) (h : Lim s.f) (d : Bytes) :
    matchesT s d = .ok (Matches s.f d, { s with ticks := s.ticks + 1 }) := by
  unfold matchesT
  rw [bind_of_ok (MatchesC_eq_model s.f h d)]; rfl

theorem addT_eq (s : FS) (h : Lim s.f) (d : Bytes) :
    addT s d = .ok { s with f := add s.f d, ticks := s.ticks + 1 } := by
  unfold addT
  rw [bind_of_ok (addC_eq_model s.f h d)]; rfl

theorem matchesOutPointC_eq (s : FS) (h : Lim s.f) (hash : Bytes) (index : Nat) :
    matchesOutPointC s hash index
      = .ok (Matches s.f (BloomTx.outPointBytes (fix32 hash) index),
          { s with ticks := s.ticks + 1, alloc := s.alloc + 36 }) := by
  unfold matchesOutPointC
  rw [bind_of_ok (outPointBufC_eq s hash index)]
  exact matchesT_eq { s with alloc := s.alloc + 36 } h _

theorem addOutPointC_eq (s : FS) (h : Lim s.f) (hash : Bytes) (index : Nat) :
    addOutPointC s hash index
      = .ok { f := add s.f (BloomTx.outPointBytes (fix32 hash) index), ticks := s.ticks + 1,
              alloc := s.alloc + 36 } := by
  unfold addOutPointC
  rw [bind_of_ok (outPointBufC_eq s hash index)]
  exact addT_eq { s with alloc := s.alloc + 36 } h _

theorem addHashC_eq (s : FS) (h : Lim s.f) (hash : Bytes) :
    addHashC s hash = .ok { s with f := add s.f hash, ticks := s.ticks + 1 } := by
  unfold addHashC
  rw [bind_of_ok (slice?_all hash), addT_eq _ h]

/-! ## `maybeAddOutpoint` -/

theorem Lim_maybeAdd {f : Filter} (h : Lim f) (o : TxOut) (id : Bytes) (idx : Nat) :
    Lim (BloomTx.maybeAddOutpoint bloomOps f o id idx) := by
  unfold BloomTx.maybeAddOutpoint
  split
  · exact Lim_add _ h
  · split
    · exact Lim_add _ h
    · exact h
  · exact h

/-- on a loaded filter: no fault, the model's value, at most one `add` and one 36-byte buffer -/
theorem maybeAddOutpointC_eq (s : FS) (m : Msg) (hm : s.f = some m) (h : Lim s.f) (o : TxOut) (id : Bytes)
    (idx : Nat) :
    ∃ k a, maybeAddOutpointC s o id idx
        = .ok { f := BloomTx.maybeAddOutpoint bloomOps s.f o (fix32 id) idx, ticks := s.ticks + k,
                alloc := s.alloc + a } ∧ k ≤ 1 ∧ a ≤ 36 := by
  unfold maybeAddOutpointC BloomTx.maybeAddOutpoint
  have hfl : bloomOps.flags s.f = m.flags := by rw [hm]; rfl
  rw [hfl, bind_of_ok (show deref? s.f = .ok m by rw [hm]; rfl)]
  generalize m.flags = fl
  match fl with
  | 0 => exact ⟨0, 0, rfl, by omega, by omega⟩
  | 1 => exact ⟨1, 36, addOutPointC_eq s h _ _, by omega, by omega⟩
  | 2 =>
    cases hb : o.isPubKeyOrMultisig with
    | true => simp only [if_true]; exact ⟨1, 36, addOutPointC_eq s h _ _, by omega, by omega⟩
    | false => simp only [Bool.false_eq_true, if_false]; exact ⟨0, 0, rfl, by omega, by omega⟩
  | n+3 => exact ⟨0, 0, rfl, by omega, by omega⟩

/-- NEGATIVE: `maybeAddOutpoint` itself is not nil-safe; it is only ever reached after a successful `matches` -/
theorem maybeAddOutpointC_unloaded (t a : Nat) (o : TxOut) (id : Bytes) (idx : Nat) :
    maybeAddOutpointC ⟨none, t, a⟩ o id idx = .error .nilDeref := rfl

theorem Matches_true_loaded {f : Filter} {d : Bytes} (h : Matches f d = true) : ∃ m, f = some m := by
  cases f with
  | none => simp [Matches] at h
  | some m => exact ⟨m, rfl⟩

/-! ## the output scan -/

theorem outPushesC_eq (o : TxOut) (id : Bytes) (idx : Nat) : ∀ (ps : List Bytes) (s : FS) (matched : Bool),
    Lim s.f →
    ∃ k a, outPushesC o id idx ps s matched
        = .ok ({ f := if ps.any (Matches s.f) then BloomTx.maybeAddOutpoint bloomOps s.f o (fix32 id) idx else s.f,
                 ticks := s.ticks + k, alloc := s.alloc + a },
               if ps.any (Matches s.f) then true else matched) ∧ k ≤ ps.length + 1 ∧ a ≤ 36 := by
  intro ps
  induction ps with
  | nil => intro s matched _; exact ⟨0, 0, rfl, by omega, by omega⟩
  | cons d ds ih =>
    intro s matched h
    rw [outPushesC, bind_of_ok (matchesT_eq s h d)]
    cases hd : Matches s.f d with
    | false =>
      simp only [Bool.not_false, if_true, List.any_cons, hd, Bool.false_or]
      obtain ⟨k, a, e, hk, ha⟩ := ih { s with ticks := s.ticks + 1 } matched h
      refine ⟨k + 1, a, ?_, by simp only [List.length_cons]; omega, ha⟩
      rw [e]
      simp only [Nat.add_assoc, Nat.add_comm 1 k]
    | true =>
      simp only [Bool.not_true, Bool.false_eq_true, if_false, List.any_cons, hd, Bool.true_or, if_true]
      obtain ⟨m, hm⟩ := Matches_true_loaded hd
      obtain ⟨k, a, e, hk, ha⟩ := maybeAddOutpointC_eq { s with ticks := s.ticks + 1 } m hm h o id idx
      refine ⟨k + 1, a, ?_, by simp only [List.length_cons]; omega, ha⟩
      rw [bind_of_ok e]
      simp only [pure_eq_ok, Nat.add_assoc, Nat.add_comm 1 k]

def pushCount : Option (List Bytes) → Nat
  | none => 0
  | some ps => ps.length

/-- evaluations spent on the outputs: one per pushed datum plus the possible `add` -/
def outsCost (outs : List TxOut) : Nat := (outs.map fun o => pushCount o.pushes + 1).sum

/-- evaluations spent on the inputs: the outpoint plus one per pushed datum -/
def insCost (ins : List TxIn) : Nat := (ins.map fun i => 1 + pushCount i.pushes).sum

/-- the size of a transaction as seen by the filter -/
def txCost (tx : Tx) : Nat := 1 + outsCost tx.outs + insCost tx.ins

theorem scanOutsC_eq (id : Bytes) : ∀ (outs : List TxOut) (idx : Nat) (s : FS) (matched : Bool), Lim s.f →
    ∃ k a, scanOutsC id outs idx s matched
        = .ok ({ f := (BloomTx.scanOuts bloomOps (fix32 id) outs idx s.f matched).1, ticks := s.ticks + k,
                 alloc := s.alloc + a },
               (BloomTx.scanOuts bloomOps (fix32 id) outs idx s.f matched).2) ∧
      k ≤ outsCost outs ∧ a ≤ 36 * outs.length ∧
      Lim (BloomTx.scanOuts bloomOps (fix32 id) outs idx s.f matched).1 := by
  intro outs
  induction outs with
  | nil => intro idx s matched h; exact ⟨0, 0, rfl, by omega, by omega, h⟩
  | cons o os ih =>
    intro idx s matched h
    rw [scanOutsC, BloomTx.scanOuts]
    cases hp : o.pushes with
    | none =>
      simp only
      obtain ⟨k, a, e, hk, ha, hl⟩ := ih (idx+1) s matched h
      refine ⟨k, a, e, ?_, by simp only [List.length_cons]; omega, hl⟩
      simp only [outsCost, List.map_cons, List.sum_cons] at hk ⊢; omega
    | some ps =>
      simp only
      obtain ⟨k1, a1, e1, hk1, ha1⟩ := outPushesC_eq o id idx ps s matched h
      rw [bind_of_ok e1]
      have hany : ps.any (bloomOps.test s.f) = ps.any (Matches s.f) := rfl
      rw [hany]
      cases hh : ps.any (Matches s.f) with
      | true =>
        simp only [if_true]
        obtain ⟨k, a, e, hk, ha, hl⟩ := ih (idx+1)
          { f := BloomTx.maybeAddOutpoint bloomOps s.f o (fix32 id) idx, ticks := s.ticks + k1,
            alloc := s.alloc + a1 } true (Lim_maybeAdd h o _ idx)
        refine ⟨k1 + k, a1 + a, ?_, ?_, by simp only [List.length_cons]; omega, hl⟩
        · rw [e]; simp only [Nat.add_assoc]
        · simp only [outsCost, List.map_cons, List.sum_cons, hp, pushCount] at hk ⊢; omega
      | false =>
        simp only [Bool.false_eq_true, if_false]
        obtain ⟨k, a, e, hk, ha, hl⟩ := ih (idx+1)
          { f := s.f, ticks := s.ticks + k1, alloc := s.alloc + a1 } matched h
        refine ⟨k1 + k, a1 + a, ?_, ?_, by simp only [List.length_cons]; omega, hl⟩
        · rw [e]; simp only [Nat.add_assoc]
        · simp only [outsCost, List.map_cons, List.sum_cons, hp, pushCount] at hk ⊢; omega

/-! ## the input scan -/

theorem inPushesC_eq : ∀ (ps : List Bytes) (s : FS), Lim s.f →
    ∃ k, inPushesC ps s = .ok (ps.any (Matches s.f), { s with ticks := s.ticks + k }) ∧ k ≤ ps.length := by
  intro ps
  induction ps with
  | nil => intro s _; exact ⟨0, rfl, by omega⟩
  | cons d ds ih =>
    intro s h
    rw [inPushesC, bind_of_ok (matchesT_eq s h d)]
    cases hd : Matches s.f d with
    | true => exact ⟨1, by simp [hd], by simp⟩
    | false =>
      simp only [Bool.false_eq_true, if_false, List.any_cons, hd, Bool.false_or]
      obtain ⟨k, e, hk⟩ := ih { s with ticks := s.ticks + 1 } h
      refine ⟨k + 1, ?_, by simp only [List.length_cons]; omega⟩
      rw [e]
      simp only [Nat.add_assoc, Nat.add_comm 1 k]

/-- an input with its previous-outpoint hash read as a `[32]byte` -/
def fixIn (i : TxIn) : TxIn := { i with prevHash := fix32 i.prevHash }

theorem scanInsC_eq : ∀ (ins : List TxIn) (s : FS), Lim s.f →
    ∃ k a, scanInsC ins s
        = .ok ((ins.map fixIn).any (BloomTx.inputMatches bloomOps s.f),
               { s with ticks := s.ticks + k, alloc := s.alloc + a }) ∧
      k ≤ insCost ins ∧ a ≤ 36 * ins.length := by
  intro ins
  induction ins with
  | nil => intro s _; exact ⟨0, 0, rfl, by simp [insCost], by omega⟩
  | cons i is ih =>
    intro s h
    rw [scanInsC, bind_of_ok (matchesOutPointC_eq s h i.prevHash i.prevIdx)]
    simp only [List.map_cons, List.any_cons]
    have hin : BloomTx.inputMatches bloomOps s.f (fixIn i)
        = (Matches s.f (BloomTx.outPointBytes (fix32 i.prevHash) i.prevIdx) ||
            (match i.pushes with | none => false | some ps => ps.any (Matches s.f))) := rfl
    rw [hin]
    cases hop : Matches s.f (BloomTx.outPointBytes (fix32 i.prevHash) i.prevIdx) with
    | true =>
      refine ⟨1, 36, by simp, ?_, by simp only [List.length_cons]; omega⟩
      simp only [insCost, List.map_cons, List.sum_cons]; omega
    | false =>
      simp only [Bool.false_eq_true, if_false, Bool.false_or]
      cases hp : i.pushes with
      | none =>
        simp only [Bool.false_or]
        obtain ⟨k, a, e, hk, ha⟩ := ih { s with ticks := s.ticks + 1, alloc := s.alloc + 36 } h
        refine ⟨1 + k, 36 + a, ?_, ?_, by simp only [List.length_cons]; omega⟩
        · rw [e]; simp only [Nat.add_assoc]
        · simp only [insCost, List.map_cons, List.sum_cons, hp, pushCount] at hk ⊢; omega
      | some ps =>
        simp only
        obtain ⟨k1, e1, hk1⟩ := inPushesC_eq ps { s with ticks := s.ticks + 1, alloc := s.alloc + 36 } h
        rw [bind_of_ok e1]
        cases hh : ps.any (Matches s.f) with
        | true =>
          refine ⟨1 + k1, 36, by simp [Nat.add_assoc], ?_, by simp only [List.length_cons]; omega⟩
          simp only [insCost, List.map_cons, List.sum_cons, hp, pushCount]; omega
        | false =>
          simp only [Bool.false_eq_true, if_false, Bool.false_or]
          obtain ⟨k, a, e, hk, ha⟩ := ih { s with ticks := s.ticks + 1 + k1, alloc := s.alloc + 36 } h
          refine ⟨1 + k1 + k, 36 + a, ?_, ?_, by simp only [List.length_cons]; omega⟩
          · rw [e]; simp only [Nat.add_assoc]
          · simp only [insCost, List.map_cons, List.sum_cons, hp, pushCount] at hk ⊢; omega

/-! ## `matchTxAndUpdate` -/

/-- the transaction with every hash read as a `[32]byte`; the identity on well-typed records -/
def WellTyped (tx : Tx) : Prop := tx.id.length = 32 ∧ ∀ i ∈ tx.ins, i.prevHash.length = 32

/-- what the code computes on an arbitrary record: the model, with the hashes that go through the 36-byte
buffer truncated / zero-padded to 32 bytes (the transaction hash passed to `matches` directly is not) -/
def matchTxV (f : Filter) (tx : Tx) : Filter × Bool :=
  let m0 := Matches f tx.id
  let r := BloomTx.scanOuts bloomOps (fix32 tx.id) tx.outs 0 f m0
  if r.2 then (r.1, true) else (r.1, (tx.ins.map fixIn).any (BloomTx.inputMatches bloomOps r.1))

theorem matchTxV_eq_model (f : Filter) (tx : Tx) (hw : WellTyped tx) :
    matchTxV f tx = BloomTx.matchTxAndUpdate bloomOps f tx := by
  unfold matchTxV BloomTx.matchTxAndUpdate
  have hm : tx.ins.map fixIn = tx.ins := by
    rw [List.map_congr_left (g := id)]
    · simp
    · intro i hi
      cases i with
      | mk ph pi pp =>
        have : ph.length = 32 := hw.2 _ hi
        simp [fixIn, fix32_of_length this]
  rw [hm, fix32_of_length hw.1]
  rfl

/-- the central statement: for EVERY record and every filter within the wire limit (or unloaded) the
transcription runs without fault, returns `matchTxV`, spends at most `txCost tx` evaluations and allocates at
most one 36-byte buffer per output and per input -/
theorem matchTxAndUpdateC_spec (s : FS) (h : Lim s.f) (tx : Tx) :
    ∃ k a, matchTxAndUpdateC s tx
        = .ok ({ f := (matchTxV s.f tx).1, ticks := s.ticks + k, alloc := s.alloc + a }, (matchTxV s.f tx).2) ∧
      k ≤ txCost tx ∧ a ≤ 36 * (tx.outs.length + tx.ins.length) ∧ Lim (matchTxV s.f tx).1 := by
  unfold matchTxAndUpdateC matchTxV
  rw [bind_of_ok (slice?_all tx.id), bind_of_ok (matchesT_eq s h tx.id)]
  obtain ⟨k1, a1, e1, hk1, ha1, hl1⟩ := scanOutsC_eq tx.id tx.outs 0 { s with ticks := s.ticks + 1 }
    (Matches s.f tx.id) h
  rw [bind_of_ok e1]
  simp only
  cases hm : (BloomTx.scanOuts bloomOps (fix32 tx.id) tx.outs 0 s.f (Matches s.f tx.id)).2 with
  | true =>
    refine ⟨1 + k1, a1, ?_, by unfold txCost; omega, by omega, hl1⟩
    simp [Nat.add_assoc]
  | false =>
    simp only [Bool.false_eq_true, if_false]
    obtain ⟨k2, a2, e2, hk2, ha2⟩ := scanInsC_eq tx.ins
      { f := (BloomTx.scanOuts bloomOps (fix32 tx.id) tx.outs 0 s.f (Matches s.f tx.id)).1,
        ticks := s.ticks + 1 + k1, alloc := s.alloc + a1 } hl1
    refine ⟨1 + k1 + k2, a1 + a2, ?_, by unfold txCost; omega, by omega, hl1⟩
    rw [bind_of_ok e2]
    simp [Nat.add_assoc]

/-! ## what the scan cannot change: the geometry of the filter -/

/-- bit-array length, number of hash functions, tweak, flags; `none` = unloaded -/
def shape (f : Filter) : Option (Nat × Nat × UInt32 × Nat) :=
  f.map fun m => (m.bits.length, m.nHash, m.tweak, m.flags)

theorem shape_add (f : Filter) (x : Bytes) : shape (add f x) = shape f := by
  cases f with
  | none => rfl
  | some m => simp [shape, add]

theorem shape_maybeAdd (f : Filter) (o : TxOut) (id : Bytes) (idx : Nat) :
    shape (BloomTx.maybeAddOutpoint bloomOps f o id idx) = shape f := by
  unfold BloomTx.maybeAddOutpoint
  split
  · exact shape_add _ _
  · split
    · exact shape_add _ _
    · rfl
  · rfl

theorem shape_scanOuts (id : Bytes) : ∀ (outs : List TxOut) (idx : Nat) (f : Filter) (m : Bool),
    shape (BloomTx.scanOuts bloomOps id outs idx f m).1 = shape f := by
  intro outs
  induction outs with
  | nil => intro _ _ _; rfl
  | cons o os ih =>
    intro idx f m
    rw [BloomTx.scanOuts]
    split
    · exact ih _ _ _
    · split
      · rw [ih, shape_maybeAdd]
      · exact ih _ _ _

theorem shape_matchTxV (f : Filter) (tx : Tx) : shape (matchTxV f tx).1 = shape f := by
  unfold matchTxV
  simp only
  split <;> exact shape_scanOuts _ _ _ _ _

/-- an unloaded filter matches nothing and stays unloaded -/
theorem scanOuts_none (id : Bytes) : ∀ (outs : List TxOut) (idx : Nat) (m : Bool),
    BloomTx.scanOuts bloomOps id outs idx none m = (none, m) := by
  intro outs
  induction outs with
  | nil => intro _ _; rfl
  | cons o os ih =>
    intro idx m
    rw [BloomTx.scanOuts]
    split
    · exact ih _ _
    · rename_i ps _
      have : ps.any (bloomOps.test none) = false := by
        rw [List.any_eq_false]; intro x _; simp [bloomOps, Matches]
      rw [this]
      exact ih _ _

theorem matchTxV_none (tx : Tx) : matchTxV none tx = (none, false) := by
  unfold matchTxV
  have h0 : Matches none tx.id = false := rfl
  simp only [h0, scanOuts_none, Bool.false_eq_true, if_false]
  congr 1
  rw [List.any_eq_false]
  intro i _
  have : BloomTx.inputMatches bloomOps none i
      = (Matches none (BloomTx.outPointBytes i.prevHash i.prevIdx) ||
          (match i.pushes with | none => false | some ps => ps.any (Matches none))) := rfl
  rw [this]
  have h1 : ∀ x, Matches none x = false := fun _ => rfl
  cases i.pushes with
  | none => simp [h1]
  | some ps => simp [h1]

/-- cost of one evaluation: the loops of `matches` and `add` run on the fuel `HashFuncs`, one `hash` per unit -/
theorem eval_fuel (m : Msg) (d : Bytes) :
    matchesMsgC m d = (if m.bits.isEmpty then pure true else matchesLoopC m d m.nHash 0) ∧
    addMsgC m d = (if m.bits.isEmpty then pure m else do
      let bits ← addLoopC m.tweak d m.nHash 0 m.bits
      pure { m with bits := bits }) := by
  constructor
  · unfold matchesMsgC matchesG; simp
  · unfold addMsgC addG; simp

/-! ## the per-transaction step of the block scan (/repo/bloom/merkleblock.go:110-153)

`checkFilterTx` and the loop of `GetMatchedIndices` contain no index, slice or division: the maps
(`checkedAt`, `matchedIndices`, `inputs`) are only looked up and stored into, `filterBits` copies the bit array
(`append([]byte(nil), Filter...)`, ≤ 36000 bytes — the size of the *filter*, not of anything in the block),
`bytes.Equal` compares. What remains is the call of `MatchTxAndUpdate` and the recursion, which the model
(`BloomTx.checkFilterTx`) runs on fuel. The state is the model's `Scan` plus the ghost counters. -/

structure ScanC where
  sc : BloomTx.Scan Filter
  ticks : Nat := 0
  alloc : Nat := 0

/-- `filterBits` (merkleblock.go:96-103): nil when unloaded, otherwise a fresh copy of the bit array -/
def filterBitsC (f : Filter) : Bytes := match f with | some m => m.bits | none => []

def checkFilterTxC (block : Array Tx) (inputs : BloomTx.Inputs) : Nat → Nat → ScanC → Except Fault ScanC
  | 0, _, s => pure { s with sc := { s.sc with outOfFuel := true } }
  | fuel+1, txIndex, s =>
    match block[txIndex]? with               -- (the Go code passes the `*bchutil.Tx` along; no index expression)
    | none => pure s
    | some tx =>
      if s.sc.checkedAt.lookup txIndex = some s.sc.version then pure s                     -- :119-121
      else do
        let sc : BloomTx.Scan Filter :=                                                    -- :122
          { s.sc with checkedAt := (txIndex, s.sc.version) :: s.sc.checkedAt.filter (·.1 ≠ txIndex) }
        let before := filterBitsC sc.filter                                                -- :123  (a copy)
        let r ← matchTxAndUpdateC ⟨sc.filter, s.ticks, s.alloc + before.length⟩ tx         -- :124
        let after := filterBitsC r.1.f                                                     -- :125  (a copy)
        let sc : BloomTx.Scan Filter :=
          { sc with filter := r.1.f, steps := sc.steps + 1,
                    version := if before == after then sc.version else sc.version + 1 }    -- :125-127
        let s : ScanC := ⟨sc, r.1.ticks, r.1.alloc + after.length⟩
        if r.2 then                                                                        -- :128
          let s : ScanC := { s with sc := { s.sc with                                      -- :129
            matched := if s.sc.matched.contains txIndex then s.sc.matched else txIndex :: s.sc.matched } }
          (BloomTx.dependants block inputs tx.id).foldlM                                   -- :130-134
            (fun s d => checkFilterTxC block inputs fuel d s) s
        else pure s

/-- the loop of `GetMatchedIndices` (merkleblock.go:143-151) -/
def scanLoopC (fuel : Nat) (block : Array Tx) : Nat → Nat → BloomTx.Inputs → ScanC → Except Fault ScanC
  | _, 0, _, s => pure s
  | i, n+1, inputs, s =>
    match block[i]? with
    | none => pure s
    | some tx => do
      let inputs := inputs ++ tx.ins.map (fun inp => (inp.prevHash, i))                    -- :144-148
      let s ← checkFilterTxC block inputs fuel i s                                         -- :150
      scanLoopC fuel block (i+1) n inputs s

def GetMatchedIndicesC (fuel : Nat) (block : Array Tx) (f : Filter) : Except Fault ScanC :=
  scanLoopC fuel block 0 block.size [] { sc := { filter := f, matched := [] } }

/-- every record of the block is well typed, costs at most `C` evaluations and has at most `N` outputs+inputs -/
structure BlockOK (block : Array Tx) (C N : Nat) : Prop where
  wt : ∀ (i : Nat) (tx : Tx), block[i]? = some tx → WellTyped tx
  cost : ∀ (i : Nat) (tx : Tx), block[i]? = some tx → txCost tx ≤ C
  io : ∀ (i : Nat) (tx : Tx), block[i]? = some tx → tx.outs.length + tx.ins.length ≤ N

theorem filterBitsC_length {f : Filter} (h : Lim f) : (filterBitsC f).length ≤ 36000 := by
  cases f with
  | none => simp [filterBitsC]
  | some m => exact Lim_some.mp h

/-- result of a scan step relative to the model: same `Scan`, counters advanced by at most `C` evaluations and
`72000 + 36 N` bytes per `matchTxAndUpdate` evaluation (`n` = number of such evaluations = growth of `steps`) -/
def StepOK (C N : Nat) (s : ScanC) (res : Except Fault ScanC) (model : BloomTx.Scan Filter) : Prop :=
  ∃ k a n, res = .ok ⟨model, s.ticks + k, s.alloc + a⟩ ∧ model.steps = s.sc.steps + n ∧
    k ≤ n * C ∧ a ≤ n * (72000 + 36 * N) ∧ Lim model.filter

theorem StepOK_refl (C N : Nat) (s : ScanC) (h : Lim s.sc.filter) : StepOK C N s (.ok s) s.sc :=
  ⟨0, 0, 0, rfl, rfl, by simp, by simp, h⟩

theorem StepOK_trans {C N : Nat} {s s1 : ScanC} {r : Except Fault ScanC} {m1 m2 : BloomTx.Scan Filter}
    (h1 : StepOK C N s (.ok s1) m1) (h2 : StepOK C N s1 r m2) : StepOK C N s r m2 := by
  obtain ⟨k1, a1, n1, e1, hs1, hk1, ha1, _⟩ := h1
  obtain ⟨k2, a2, n2, e2, hs2, hk2, ha2, hl2⟩ := h2
  cases e1
  refine ⟨k1 + k2, a1 + a2, n1 + n2, ?_, ?_, ?_, ?_, hl2⟩
  · rw [e2]; simp only [Nat.add_assoc]
  · rw [hs2]; simp only at hs1 ⊢; omega
  · rw [Nat.add_mul]; omega
  · rw [Nat.add_mul]; omega

theorem StepOK_of_eq {C N : Nat} {s s1 : ScanC} {r : Except Fault ScanC} {m2 : BloomTx.Scan Filter} (k a n : Nat)
    (ht : s1.ticks = s.ticks + k) (hal : s1.alloc = s.alloc + a) (hs : s1.sc.steps = s.sc.steps + n)
    (hk : k ≤ n * C) (ha : a ≤ n * (72000 + 36 * N)) (hl : Lim s1.sc.filter) (h2 : StepOK C N s1 r m2) :
    StepOK C N s r m2 := by
  refine StepOK_trans (s1 := s1) (m1 := s1.sc) ⟨k, a, n, ?_, hs, hk, ha, hl⟩ h2
  cases s1; simp only at ht hal; subst ht hal; rfl

theorem foldlM_StepOK {C N : Nat} (g : ScanC → Nat → Except Fault ScanC)
    (gm : BloomTx.Scan Filter → Nat → BloomTx.Scan Filter)
    (hg : ∀ (d : Nat) (s : ScanC), Lim s.sc.filter → StepOK C N s (g s d) (gm s.sc d)) :
    ∀ (l : List Nat) (s : ScanC), Lim s.sc.filter → StepOK C N s (l.foldlM g s) (l.foldl gm s.sc) := by
  intro l
  induction l with
  | nil => intro s h; exact StepOK_refl C N s h
  | cons d ds ih =>
    intro s h
    have h1 := hg d s h
    obtain ⟨k1, a1, n1, e1, hs1, hk1, ha1, hl1⟩ := h1
    rw [List.foldlM_cons, bind_of_ok e1, List.foldl_cons]
    exact StepOK_trans (s1 := ⟨gm s.sc d, s.ticks + k1, s.alloc + a1⟩) ⟨k1, a1, n1, rfl, hs1, hk1, ha1, hl1⟩
      (ih ⟨gm s.sc d, s.ticks + k1, s.alloc + a1⟩ hl1)

theorem checkFilterTxC_eq (block : Array Tx) (C N : Nat) (hb : BlockOK block C N) (inputs : BloomTx.Inputs) :
    ∀ (fuel txIndex : Nat) (s : ScanC), Lim s.sc.filter →
      StepOK C N s (checkFilterTxC block inputs fuel txIndex s)
        (BloomTx.checkFilterTx bloomOps bloomSame block inputs fuel txIndex s.sc) := by
  intro fuel
  induction fuel with
  | zero =>
    intro txIndex s h
    exact ⟨0, 0, 0, rfl, rfl, by simp, by simp, h⟩
  | succ fuel ih =>
    intro txIndex s h
    rw [checkFilterTxC, BloomTx.checkFilterTx]
    cases hbt : block[txIndex]? with
    | none => exact StepOK_refl C N s h
    | some tx =>
      simp only
      by_cases hc : s.sc.checkedAt.lookup txIndex = some s.sc.version
      · rw [if_pos hc, if_pos hc]; exact StepOK_refl C N s h
      · rw [if_neg hc, if_neg hc]
        obtain ⟨k, a, e, hk, ha, hl⟩ := matchTxAndUpdateC_spec
          ⟨s.sc.filter, s.ticks, s.alloc + (filterBitsC s.sc.filter).length⟩ h tx
        rw [matchTxV_eq_model _ _ (hb.wt _ _ hbt)] at e hl
        rw [bind_of_ok e]
        simp only
        have hB1 := filterBitsC_length h
        have hB2 := filterBitsC_length hl
        have hC := hb.cost _ _ hbt
        have hN := hb.io _ _ hbt
        generalize hmm : BloomTx.matchTxAndUpdate bloomOps s.sc.filter tx = mm at e hl hB2 ⊢
        obtain ⟨f', mt⟩ := mm
        simp only at hl hB2 ⊢
        have hsame : (filterBitsC s.sc.filter == filterBitsC f') = bloomSame s.sc.filter f' := rfl
        rw [hsame]
        cases mt with
        | false =>
          simp only [Bool.false_eq_true, if_false]
          exact ⟨k, (filterBitsC s.sc.filter).length + a + (filterBitsC f').length, 1, by
            simp only [pure_eq_ok, Nat.add_assoc], rfl, by omega, by omega, hl⟩
        | true =>
          simp only [if_true]
          refine StepOK_of_eq k ((filterBitsC s.sc.filter).length + a + (filterBitsC f').length) 1
            ?_ ?_ ?_ ?_ ?_ ?_
            (foldlM_StepOK (fun s d => checkFilterTxC block inputs fuel d s)
              (fun s d => BloomTx.checkFilterTx bloomOps bloomSame block inputs fuel d s)
              (fun d s hs => ih d s hs) _ _ ?_)
          · rfl
          · simp only; omega
          · rfl
          · omega
          · omega
          · exact hl
          · exact hl

theorem scanLoopC_eq (fuel : Nat) (block : Array Tx) (C N : Nat) (hb : BlockOK block C N) :
    ∀ (n i : Nat) (inputs : BloomTx.Inputs) (s : ScanC), Lim s.sc.filter →
      StepOK C N s (scanLoopC fuel block i n inputs s)
        (BloomTx.scanLoop (fun inputs i s => BloomTx.checkFilterTx bloomOps bloomSame block inputs fuel i s)
          block i n inputs s.sc) := by
  intro n
  induction n with
  | zero => intro i inputs s h; exact StepOK_refl C N s h
  | succ n ih =>
    intro i inputs s h
    rw [scanLoopC, BloomTx.scanLoop]
    cases hbt : block[i]? with
    | none => exact StepOK_refl C N s h
    | some tx =>
      simp only
      have h1 := checkFilterTxC_eq block C N hb (inputs ++ tx.ins.map (fun inp => (inp.prevHash, i))) fuel i s h
      obtain ⟨k1, a1, n1, e1, hs1, hk1, ha1, hl1⟩ := h1
      rw [bind_of_ok e1]
      exact StepOK_trans (s1 := ⟨_, s.ticks + k1, s.alloc + a1⟩) ⟨k1, a1, n1, rfl, hs1, hk1, ha1, hl1⟩
        (ih (i+1) _ ⟨_, s.ticks + k1, s.alloc + a1⟩ hl1)

/-- the transcribed block scan: no fault, the model's result, and the resources in terms of the model's
`steps` (bounded polynomially by C10) -/
theorem GetMatchedIndicesC_eq (fuel : Nat) (block : Array Tx) (C N : Nat) (hb : BlockOK block C N) (f : Filter)
    (h : Lim f) :
    ∃ k a, GetMatchedIndicesC fuel block f
        = .ok ⟨BloomTx.GetMatchedIndices bloomOps bloomSame fuel block f, k, a⟩ ∧
      k ≤ (BloomTx.GetMatchedIndices bloomOps bloomSame fuel block f).steps * C ∧
      a ≤ (BloomTx.GetMatchedIndices bloomOps bloomSame fuel block f).steps * (72000 + 36 * N) := by
  obtain ⟨k, a, n, e, hs, hk, ha, _⟩ := scanLoopC_eq fuel block C N hb block.size 0 []
    { sc := { filter := f, matched := [] } } h
  refine ⟨k, a, ?_, ?_, ?_⟩
  · unfold GetMatchedIndicesC; rw [e]; simp [BloomTx.GetMatchedIndices]
  · unfold BloomTx.GetMatchedIndices; rw [hs]; simpa using hk
  · unfold BloomTx.GetMatchedIndices; rw [hs]; simpa using ha

/-! ### … and without the typing hypothesis: no record whatsoever makes the scan fault -/

theorem foldlM_no_fault (g : ScanC → Nat → Except Fault ScanC)
    (hg : ∀ (d : Nat) (s : ScanC), Lim s.sc.filter → ∃ r, g s d = .ok r ∧ Lim r.sc.filter) :
    ∀ (l : List Nat) (s : ScanC), Lim s.sc.filter → ∃ r, l.foldlM g s = .ok r ∧ Lim r.sc.filter := by
  intro l
  induction l with
  | nil => intro s h; exact ⟨s, rfl, h⟩
  | cons d ds ih =>
    intro s h
    obtain ⟨r1, e1, h1⟩ := hg d s h
    rw [List.foldlM_cons, bind_of_ok e1]
    exact ih r1 h1

theorem checkFilterTxC_no_fault (block : Array Tx) (inputs : BloomTx.Inputs) :
    ∀ (fuel txIndex : Nat) (s : ScanC), Lim s.sc.filter →
      ∃ r, checkFilterTxC block inputs fuel txIndex s = .ok r ∧ Lim r.sc.filter := by
  intro fuel
  induction fuel with
  | zero => intro txIndex s h; exact ⟨_, rfl, h⟩
  | succ fuel ih =>
    intro txIndex s h
    rw [checkFilterTxC]
    cases hbt : block[txIndex]? with
    | none => exact ⟨s, rfl, h⟩
    | some tx =>
      simp only
      by_cases hc : s.sc.checkedAt.lookup txIndex = some s.sc.version
      · rw [if_pos hc]; exact ⟨s, rfl, h⟩
      · rw [if_neg hc]
        obtain ⟨k, a, e, _, _, hl⟩ := matchTxAndUpdateC_spec
          ⟨s.sc.filter, s.ticks, s.alloc + (filterBitsC s.sc.filter).length⟩ h tx
        rw [bind_of_ok e]
        simp only
        cases (matchTxV s.sc.filter tx).2 with
        | false => exact ⟨_, rfl, hl⟩
        | true =>
          simp only [if_true]
          exact foldlM_no_fault (fun s d => checkFilterTxC block inputs fuel d s) (fun d s hs => ih d s hs) _ _ hl

theorem scanLoopC_no_fault (fuel : Nat) (block : Array Tx) :
    ∀ (n i : Nat) (inputs : BloomTx.Inputs) (s : ScanC), Lim s.sc.filter →
      ∃ r, scanLoopC fuel block i n inputs s = .ok r ∧ Lim r.sc.filter := by
  intro n
  induction n with
  | zero => intro i inputs s h; exact ⟨s, rfl, h⟩
  | succ n ih =>
    intro i inputs s h
    rw [scanLoopC]
    cases hbt : block[i]? with
    | none => exact ⟨s, rfl, h⟩
    | some tx =>
      simp only
      obtain ⟨r1, e1, h1⟩ := checkFilterTxC_no_fault block
        (inputs ++ tx.ins.map (fun inp => (inp.prevHash, i))) fuel i s h
      rw [bind_of_ok e1]
      exact ih (i+1) _ r1 h1

theorem GetMatchedIndicesC_no_fault (fuel : Nat) (block : Array Tx) (f : Filter) (h : Lim f) :
    ∃ r, GetMatchedIndicesC fuel block f = .ok r := by
  obtain ⟨r, e, _⟩ := scanLoopC_no_fault fuel block block.size 0 [] { sc := { filter := f, matched := [] } } h
  exact ⟨r, e⟩

/-! ## examples used by `Bch/Props/C08BloomTx.lean`: an 8-byte filter watching the datum `[7]` -/
namespace Toy
def bloomtxF0 : Bloom.Filter := Bloom.add (some { bits := List.replicate 8 0, nHash := 2, tweak := 5, flags := 1 }) [7]
def bloomtxHA : Bytes := List.replicate 32 0xA
def bloomtxHB : Bytes := List.replicate 32 0xB
/-- 1 input, 2 outputs; output 0 pushes `[9]` and the watched `[7]`, output 1 does not parse -/
def bloomtxT1 : Tx :=
  { id := bloomtxHA, outs := [⟨some [[9], [7]], false⟩, ⟨none, true⟩], ins := [⟨bloomtxHB, 3, some [[1]]⟩] }
/-- spends output 0 of `bloomtxT1` -/
def bloomtxT2 : Tx :=
  { id := bloomtxHB, outs := [⟨some [[9]], false⟩, ⟨some [], true⟩], ins := [⟨bloomtxHA, 0, some [[1]]⟩] }
/-- spends output 1 of `bloomtxT1` -/
def bloomtxT3 : Tx :=
  { id := bloomtxHB, outs := [⟨some [[9]], false⟩, ⟨some [], true⟩], ins := [⟨bloomtxHA, 1, some [[1], [2]]⟩] }

end Toy

end Bch.Proofs.CheckedBloomTx
