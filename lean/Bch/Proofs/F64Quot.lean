import Bch.Proofs.F64RN
/-
  `Rounded` (bundle of facts about a rounding result), rounding to zero, and correctness of `roundQuot`.
-/
namespace Bch.Proofs.F64
open Bch.Prim.F64

/-- Everything the proofs need to know about the result `x` of rounding the magnitude `qa ≥ 0` with
sign `sg`. -/
structure Rounded (sg : Bool) (qa : ℚ) (x : UInt64) : Prop where
  isRN : IsRN (if sg then -qa else qa) x
  fval_eq : fval x = (if sg then -1 else 1) * absval x
  relerr : (2:ℚ)^(-1022 : Int) ≤ qa → |qa - absval x| ≤ qa / 2^53

theorem roundScaled_rounded (sg : Bool) (M : Nat) (e : Int) (sticky : Bool) (hM : M ≠ 0) (qa : ℚ)
    (hq1 : (M:ℚ) * 2^e ≤ qa) (hq2 : qa < ((M:ℚ) + 1) * 2^e) (hst : sticky = true ↔ qa ≠ (M:ℚ) * 2^e)
    (hstk : sticky = true → (2^54 ≤ M ∨ e < -1074))
    (hfin : isFinite (roundScaled sg M e sticky) = true) :
    Rounded sg qa (roundScaled sg M e sticky) :=
  have h := roundScaled_err sg M e sticky hM qa hq1 hq2 hst hstk hfin
  ⟨roundScaled_isRN sg M e sticky hM qa hq1 hq2 hst hstk hfin, h.1, h.2.2.1⟩

theorem decodeAbs_signedZero (sg : Bool) : decodeAbs (signedZero sg) = (0, -1074) := by
  cases sg <;> decide

theorem absval_signedZero (sg : Bool) : absval (signedZero sg) = 0 := by
  unfold absval; rw [decodeAbs_signedZero]; simp

theorem isFinite_signedZero (sg : Bool) : isFinite (signedZero sg) = true := by
  cases sg <;> decide

theorem isNeg_signedZero (sg : Bool) : isNeg (signedZero sg) = sg := by
  cases sg <;> decide

theorem fval_signedZero (sg : Bool) : fval (signedZero sg) = 0 := by
  unfold fval; rw [absval_signedZero]; simp

theorem zero_nearest (q g : ℚ) (hg : 0 < g) (hq : |q| < g / 2) (k : ℤ) :
    |q - 0| ≤ |q - k * g| ∧ ((k:ℚ) * g ≠ 0 → |q - k * g| ≠ |q - 0|) := by
  have hn : |q - ((0:ℤ):ℚ) * g| ≤ g / 2 := by
    have : q - ((0:ℤ):ℚ) * g = q := by push_cast; ring
    rw [this]; exact hq.le
  have h := nearest_grid q g hg 0 k hn
  have e0 : q - ((0:ℤ):ℚ) * g = q - 0 := by push_cast; ring
  rw [e0] at h
  refine ⟨h.1, fun hne heq => ?_⟩
  have hk0 : k ≠ 0 := by rintro rfl; apply hne; push_cast; ring
  have := h.2 hk0 heq
  rw [sub_zero] at this
  linarith

theorem float_grid_min (y : UInt64) : ∃ k : ℤ, fval y = k * 2^(-1074 : Int) := by
  rcases float_grid y (-1074) (le_refl _) with h | ⟨h, _⟩
  · exact h
  · omega

/-- a magnitude below `2^-1075` (half the smallest subnormal) rounds to a zero of the right sign -/
theorem signedZero_rounded (sg : Bool) (qa : ℚ) (h0 : 0 ≤ qa) (h1 : qa < 2^(-1075 : Int)) :
    Rounded sg qa (signedZero sg) := by
  have hg := two_zpow_pos (-1074)
  have hhalf : (2:ℚ)^(-1075 : Int) = 2^(-1074 : Int) / 2 := by
    rw [show (-1075 : Int) = -1074 - 1 by norm_num, zpow_sub₀ (by norm_num : (2:ℚ) ≠ 0)]; norm_num
  have hle : (2:ℚ)^(-1075 : Int) ≤ 2^(-1022 : Int) := zpow_le_zpow_right₀ (by norm_num) (by norm_num)
  rw [hhalf] at h1 hle
  have hq : |(if sg then -qa else qa)| < 2^(-1074 : Int) / 2 := by
    cases sg
    · simp only [Bool.false_eq_true, if_false]; rwa [abs_of_nonneg h0]
    · simp only [if_true]; rwa [abs_neg, abs_of_nonneg h0]
  refine ⟨?_, ?_, ?_⟩
  · refine ⟨0, (val_eq_some_iff _ _).mpr ⟨isFinite_signedZero sg, fval_signedZero sg⟩, ?_, ?_, ?_, ?_⟩
    · intro y w hy
      obtain ⟨_, hyw⟩ := (val_eq_some_iff y w).mp hy
      obtain ⟨k, hk⟩ := float_grid_min y
      rw [hyw] at hk
      rw [hk]
      exact (zero_nearest _ _ hg hq k).1
    · intro y w hy hne heq
      exfalso
      obtain ⟨_, hyw⟩ := (val_eq_some_iff y w).mp hy
      obtain ⟨k, hk⟩ := float_grid_min y
      rw [hyw] at hk
      rw [hk] at hne heq
      exact (zero_nearest _ _ hg hq k).2 hne heq
    · intro hq; rw [isNeg_signedZero]; cases sg
      · simp at hq; linarith
      · rfl
    · intro hq; rw [isNeg_signedZero]; cases sg
      · rfl
      · simp at hq; linarith
  · rw [fval_signedZero, absval_signedZero]; simp
  · intro h
    linarith

theorem roundScaled_zero (sg : Bool) (e : Int) (sticky : Bool) :
    roundScaled sg 0 e sticky = signedZero sg := rfl


/-- floor/remainder bracket of a natural quotient, scaled by `2^e`. -/
theorem quot_bracket (N D : Nat) (hD : 0 < D) (e : Int) :
    ((N / D : Nat) : ℚ) * 2^e ≤ (N:ℚ) / D * 2^e ∧
    (N:ℚ) / D * 2^e < (((N / D : Nat) : ℚ) + 1) * 2^e ∧
    (((N % D != 0) = true) ↔ (N:ℚ) / D * 2^e ≠ ((N / D : Nat) : ℚ) * 2^e) := by
  have h2e := two_zpow_pos e
  have hDq : (0:ℚ) < D := by exact_mod_cast hD
  have hdm : (N:ℚ) = D * (N / D : Nat) + (N % D : Nat) := by exact_mod_cast (Nat.div_add_mod N D).symm
  have hr : ((N % D : Nat) : ℚ) < D := by exact_mod_cast Nat.mod_lt N hD
  have hr0 : (0:ℚ) ≤ (N % D : Nat) := by positivity
  have hq : (N:ℚ) / D = (N / D : Nat) + ((N % D : Nat) : ℚ) / D := by
    rw [hdm]; field_simp
  have hfr0 : 0 ≤ ((N % D : Nat) : ℚ) / D := by positivity
  have hfr1 : ((N % D : Nat) : ℚ) / D < 1 := by rw [div_lt_one hDq]; exact hr
  refine ⟨?_, ?_, ?_⟩
  · rw [hq]; exact mul_le_mul_of_nonneg_right (by linarith) h2e.le
  · rw [hq]; exact mul_lt_mul_of_pos_right (by linarith) h2e
  · rw [bne_iff_ne, Ne, Ne, not_iff_not]
    constructor
    · intro h
      rw [hq, h]; simp
    · intro h
      have h' := mul_right_cancel₀ h2e.ne' h
      rw [hq] at h'
      have : ((N % D : Nat) : ℚ) / D = 0 := by linarith
      rcases div_eq_zero_iff.mp this with h0 | h0
      · exact_mod_cast h0
      · linarith

theorem roundScaled_quot (sg : Bool) (N D : Nat) (hD : 0 < D) (e : Int)
    (hc : 2^63 ≤ N / D ∨ e ≤ -1075)
    (hfin : isFinite (roundScaled sg (N / D) e (N % D != 0)) = true) :
    Rounded sg ((N:ℚ) / D * 2^e) (roundScaled sg (N / D) e (N % D != 0)) := by
  obtain ⟨h1, h2, h3⟩ := quot_bracket N D hD e
  by_cases hM : N / D = 0
  · have he : e ≤ -1075 := by
      rcases hc with h | h
      · omega
      · exact h
    rw [hM, roundScaled_zero]
    rw [hM] at h2
    refine signedZero_rounded sg _ (by positivity) (lt_of_lt_of_le h2 ?_)
    simp only [Nat.cast_zero, zero_add, one_mul]
    exact zpow_le_zpow_right₀ (by norm_num) he
  · refine roundScaled_rounded sg (N / D) e _ hM _ h1 h2 h3 ?_ hfin
    intro _
    rcases hc with h | h
    · left; omega
    · right; omega

theorem roundScaled_quot_finite (sg : Bool) (N D : Nat) (hD : 0 < D) (e : Int)
    (hc : 2^63 ≤ N / D ∨ e ≤ -1075) (hlt : (N:ℚ) / D * 2^e < 2^1023) :
    isFinite (roundScaled sg (N / D) e (N % D != 0)) = true := by
  obtain ⟨h1, h2, h3⟩ := quot_bracket N D hD e
  by_cases hM : N / D = 0
  · rw [hM, roundScaled_zero, isFinite_signedZero]
  · refine (roundScaled_spec sg (N / D) e _ hM _ h1 h2 h3 ?_).1 hlt
    intro _
    rcases hc with h | h
    · left; omega
    · right; omega


theorem roundQuot_eq (sg : Bool) (n d : Nat) (e : Int) (hn : n ≠ 0) (hd : d ≠ 0) :
    roundQuot sg n d e =
      if min (64 - ((bitLen n : Int) - (bitLen d : Int))) (e + 1080) ≥ 0 then
        roundScaled sg (n * 2^(min (64 - ((bitLen n : Int) - (bitLen d : Int))) (e + 1080)).toNat / d)
          (e - min (64 - ((bitLen n : Int) - (bitLen d : Int))) (e + 1080))
          (n * 2^(min (64 - ((bitLen n : Int) - (bitLen d : Int))) (e + 1080)).toNat % d != 0)
      else
        roundScaled sg (n / (d * 2^(-min (64 - ((bitLen n : Int) - (bitLen d : Int))) (e + 1080)).toNat))
          (e - min (64 - ((bitLen n : Int) - (bitLen d : Int))) (e + 1080))
          (n % (d * 2^(-min (64 - ((bitLen n : Int) - (bitLen d : Int))) (e + 1080)).toNat) != 0) := by
  unfold roundQuot
  rw [if_neg (by simpa using hn), if_neg (by simpa using hd)]
  simp only [Nat.shiftLeft_eq]

theorem roundQuot_form (sg : Bool) (n d : Nat) (e : Int) (hn : n ≠ 0) (hd : d ≠ 0) :
    ∃ (N D : Nat) (e' : Int), 0 < D ∧ (2^63 ≤ N / D ∨ e' ≤ -1075) ∧
      (N:ℚ) / D * 2^e' = (n:ℚ) / d * 2^e ∧
      roundQuot sg n d e = roundScaled sg (N / D) e' (N % D != 0) := by
  rw [roundQuot_eq sg n d e hn hd]
  obtain ⟨_, hn1, hn2⟩ := bitLen_spec n hn
  obtain ⟨_, hd1, hd2⟩ := bitLen_spec d hd
  set bn := bitLen n
  set bd := bitLen d
  set s := min (64 - ((bn : Int) - (bd : Int))) (e + 1080) with hs
  have hdpos : 0 < d := Nat.pos_of_ne_zero hd
  have hdq : (d:ℚ) ≠ 0 := by exact_mod_cast hd
  by_cases hs0 : s ≥ 0
  · rw [if_pos hs0]
    set k := s.toNat with hk
    have hsk : s = (k : Int) := by omega
    refine ⟨n * 2^k, d, e - s, hdpos, ?_, ?_, rfl⟩
    · by_cases hcase : s = e + 1080
      · right; omega
      · left
        have hk' : bn - 1 + k = 63 + bd := by omega
        rw [Nat.le_div_iff_mul_le hdpos]
        calc 2^63 * d ≤ 2^63 * 2^bd := Nat.mul_le_mul_left _ hd2.le
          _ = 2^(bn - 1) * 2^k := by rw [← Nat.pow_add, ← Nat.pow_add, hk']
          _ ≤ n * 2^k := Nat.mul_le_mul_right _ hn1
    · rw [hsk, zpow_sub₀ (by norm_num : (2:ℚ) ≠ 0), zpow_natCast]
      push_cast
      field_simp
  · rw [if_neg hs0]
    set k := (-s).toNat with hk
    have hsk : s = -(k : Int) := by omega
    have hDpos : 0 < d * 2^k := Nat.mul_pos hdpos (Nat.pow_pos (by norm_num))
    refine ⟨n, d * 2^k, e - s, hDpos, ?_, ?_, rfl⟩
    · by_cases hcase : s = e + 1080
      · right; omega
      · left
        have hk' : 63 + bd + k = bn - 1 := by omega
        rw [Nat.le_div_iff_mul_le hDpos]
        calc 2^63 * (d * 2^k) ≤ 2^63 * (2^bd * 2^k) :=
              Nat.mul_le_mul_left _ (Nat.mul_le_mul_right _ hd2.le)
          _ = 2^(bn - 1) := by rw [← Nat.pow_add, ← Nat.pow_add, ← hk', Nat.add_assoc]
          _ ≤ n := hn1
    · rw [hsk, sub_neg_eq_add, zpow_add₀ (by norm_num : (2:ℚ) ≠ 0), zpow_natCast]
      push_cast
      field_simp

theorem roundQuot_rounded (sg : Bool) (n d : Nat) (e : Int) (hn : n ≠ 0) (hd : d ≠ 0)
    (hfin : isFinite (roundQuot sg n d e) = true) :
    Rounded sg ((n:ℚ) / d * 2^e) (roundQuot sg n d e) := by
  obtain ⟨N, D, e', hD, hc, hv, heq⟩ := roundQuot_form sg n d e hn hd
  rw [heq] at hfin ⊢
  rw [← hv]
  exact roundScaled_quot sg N D hD e' hc hfin

theorem roundQuot_finite (sg : Bool) (n d : Nat) (e : Int) (hn : n ≠ 0) (hd : d ≠ 0)
    (hlt : (n:ℚ) / d * 2^e < 2^1023) : isFinite (roundQuot sg n d e) = true := by
  obtain ⟨N, D, e', hD, hc, hv, heq⟩ := roundQuot_form sg n d e hn hd
  rw [heq]
  rw [← hv] at hlt
  exact roundScaled_quot_finite sg N D hD e' hc hlt

end Bch.Proofs.F64
