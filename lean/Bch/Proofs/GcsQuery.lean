import Bch.Proofs.Gcs
/-
The three query loops of the GCS model on the bit stream of an encoded sorted list.
-/
namespace Bch.Proofs.Gcs
open Bch Bch.Model.Gcs

/-! ### sorting -/

abbrev Sorted (l : List UInt64) : Prop := l.Pairwise (· ≤ ·)

theorem sortU64_sorted (l : List UInt64) : Sorted (sortU64 l) := by
  have h := List.pairwise_mergeSort (le := fun a b : UInt64 => decide (a ≤ b))
    (by intro a b c; simp only [decide_eq_true_eq]; exact UInt64.le_trans)
    (by intro a b; simp only [Bool.or_eq_true, decide_eq_true_eq]; exact UInt64.le_total a b) l
  unfold Sorted sortU64
  exact h.imp (by intro a b; simp)

theorem sortU64_perm (l : List UInt64) : (sortU64 l).Perm l := List.mergeSort_perm l _

theorem mem_sortU64 {l : List UInt64} {x : UInt64} : x ∈ sortU64 l ↔ x ∈ l :=
  (sortU64_perm l).mem_iff

theorem sortU64_length (l : List UInt64) : (sortU64 l).length = l.length :=
  (sortU64_perm l).length_eq

theorem sorted_eq_of_perm {l₁ l₂ : List UInt64} (h₁ : Sorted l₁) (h₂ : Sorted l₂)
    (h : l₁.Perm l₂) : l₁ = l₂ :=
  List.Perm.eq_of_pairwise (le := (· ≤ ·)) (fun _ _ _ _ hab hba => UInt64.le_antisymm hab hba) h₁ h₂ h

theorem sortU64_congr {l₁ l₂ : List UInt64} (h : l₁.Perm l₂) : sortU64 l₁ = sortU64 l₂ :=
  sorted_eq_of_perm (sortU64_sorted _) (sortU64_sorted _)
    ((sortU64_perm l₁).trans (h.trans (sortU64_perm l₂).symm))

/-! ### one decoding step -/

theorem add_sub_self (last v : UInt64) : last + (v - last) = v := by
  rw [UInt64.add_comm, UInt64.sub_add_cancel]

theorem readFull_encodeSorted (p : Nat) (hp : p ≤ 32) (last v : UInt64) (vs : List UInt64)
    (rest : List Bool) :
    readFull p (encodeSorted p last (v :: vs) ++ rest)
      = some (v - last, encodeSorted p v vs ++ rest) := by
  rw [encodeSorted, List.append_assoc, golomb_roundtrip p hp]

/-! ### Match -/

theorem matchLoop_spec (p : Nat) (hp : p ≤ 32) (term : UInt64) (vs : List UInt64)
    (hs : Sorted vs) (last : UInt64) (rest : List Bool) :
    matchLoop p term vs.length (encodeSorted p last vs ++ rest) last = decide (term ∈ vs) := by
  induction vs generalizing last with
  | nil => simp [matchLoop]
  | cons v vs ih =>
    rw [List.length_cons, matchLoop, readFull_encodeSorted p hp]
    simp only [add_sub_self]
    have hs' := List.pairwise_cons.mp hs
    by_cases h1 : v = term
    · simp [h1]
    · rw [if_neg h1]
      by_cases h2 : v > term
      · rw [if_pos h2]
        symm
        rw [decide_eq_false_iff_not]
        intro hm
        rcases List.mem_cons.mp hm with e | hm
        · exact h1 e.symm
        · have := hs'.1 _ hm
          rw [UInt64.le_iff_toNat_le] at this
          have h2' : term < v := h2
          rw [UInt64.lt_iff_toNat_lt] at h2'
          omega
      · rw [if_neg h2, ih hs'.2]
        have : term ≠ v := fun e => h1 e.symm
        simp [List.mem_cons, this]

/-! ### ZipMatchAny -/

theorem any_congr_mem {α} {l : List α} {p q : α → Bool} (h : ∀ a ∈ l, p a = q a) :
    l.any p = l.any q := by
  induction l with
  | nil => rfl
  | cons a l ih =>
    rw [List.any_cons, List.any_cons, h a List.mem_cons_self,
      ih (fun b hb => h b (List.mem_cons_of_mem _ hb))]

theorem zipAdvance_spec (v : UInt64) (qs : List UInt64) (hq : Sorted qs) :
    match zipAdvance v qs with
    | (some r, _) => r = decide (v ∈ qs) ∧ (r = false → ∀ q ∈ qs, q < v)
    | (none, qs') => v ∉ qs ∧ Sorted qs' ∧ ∀ x, v ≤ x → (x ∈ qs ↔ x ∈ qs') := by
  induction qs with
  | nil => simp [zipAdvance]
  | cons q qs ih =>
    have hq' := List.pairwise_cons.mp hq
    rw [zipAdvance]
    by_cases h1 : q = v
    · simp [h1]
    · rw [if_neg h1]
      by_cases h2 : q > v
      · rw [if_pos h2]
        refine ⟨?_, hq, fun _ _ => Iff.rfl⟩
        intro hm
        rcases List.mem_cons.mp hm with e | hm
        · exact h1 e.symm
        · have := hq'.1 _ hm
          rw [UInt64.le_iff_toNat_le] at this
          have h2' : v < q := h2
          rw [UInt64.lt_iff_toNat_lt] at h2'
          omega
      · rw [if_neg h2]
        have hlt : q < v := by
          have h2' : ¬ v < q := h2
          rw [UInt64.lt_iff_toNat_lt] at h2' ⊢
          have : q.toNat ≠ v.toNat := fun e => h1 (UInt64.toNat_inj.mp e)
          omega
        have := ih hq'.2
        revert this
        cases zipAdvance v qs with
        | mk r qs' =>
          cases r with
          | some r =>
            simp only
            intro ⟨e, hf⟩
            refine ⟨?_, ?_⟩
            · have : v ≠ q := fun e => h1 e.symm
              simp [e, List.mem_cons, this]
            · intro hr x hx
              rcases List.mem_cons.mp hx with rfl | hx
              · exact hlt
              · exact hf hr x hx
          | none =>
            simp only
            intro ⟨hn, hs, hx⟩
            refine ⟨?_, hs, ?_⟩
            · intro hm
              rcases List.mem_cons.mp hm with e | hm
              · exact h1 e.symm
              · exact hn hm
            · intro x hvx
              rw [List.mem_cons, hx x hvx]
              constructor
              · rintro (rfl | h)
                · rw [UInt64.le_iff_toNat_le] at hvx
                  rw [UInt64.lt_iff_toNat_lt] at hlt
                  omega
                · exact h
              · exact Or.inr

theorem zipLoop_spec (p : Nat) (hp : p ≤ 32) (vs : List UInt64) (hs : Sorted vs)
    (last : UInt64) (rest : List Bool) (qs : List UInt64) (hq : Sorted qs) :
    zipLoop p vs.length (encodeSorted p last vs ++ rest) last qs
      = vs.any (fun x => decide (x ∈ qs)) := by
  induction vs generalizing last qs with
  | nil => simp [zipLoop]
  | cons v vs ih =>
    rw [List.length_cons, zipLoop, readFull_encodeSorted p hp]
    simp only [add_sub_self]
    have hs' := List.pairwise_cons.mp hs
    have hz := zipAdvance_spec v qs hq
    revert hz
    cases zipAdvance v qs with
    | mk r qs' =>
      cases r with
      | some r =>
        simp only
        intro ⟨e, hf⟩
        rw [List.any_cons]
        cases r with
        | true => simp [← e]
        | false =>
          rw [← e, Bool.false_or]
          symm
          rw [List.any_eq_false]
          intro x hx
          have h1 := hs'.1 x hx
          simp only [decide_eq_true_eq]
          intro hxq
          have h2 := hf rfl x hxq
          rw [UInt64.le_iff_toNat_le] at h1
          rw [UInt64.lt_iff_toNat_lt] at h2
          omega
      | none =>
        simp only
        intro ⟨hn, hsq, hx⟩
        rw [ih hs'.2 v qs' hsq, List.any_cons]
        simp only [hn, decide_false, Bool.false_or]
        refine any_congr_mem (fun x hxm => ?_)
        exact decide_eq_decide.mpr (hx x (hs'.1 x hxm)).symm

/-! ### HashMatchAny: decode until EOF -/

theorem encodeSorted_length_pos (p : Nat) (last v : UInt64) (vs : List UInt64) :
    0 < (encodeSorted p last (v :: vs)).length := by
  rw [encodeSorted, List.length_append]
  have := encodeDelta_length_pos p (v - last)
  omega

theorem readUnary_length (bs : List Bool) (q : UInt64) (r : UInt64 × List Bool)
    (h : readUnary bs q = some r) : r.2.length < bs.length := by
  induction bs generalizing q with
  | nil => simp [readUnary] at h
  | cons b bs ih =>
    cases b with
    | false => simp only [readUnary, Option.some.injEq] at h; subst h; simp
    | true => rw [readUnary] at h; have := ih _ h; simp; omega

/-- decoding the zero padding yields only zero deltas (then EOF) -/
theorem readFull_padding (p k : Nat) :
    readFull p (List.replicate k false) = none ∨
      ∃ j, j < k ∧ readFull p (List.replicate k false) = some (0, List.replicate j false) := by
  cases k with
  | zero => left; simp [readFull, readUnary]
  | succ k =>
    by_cases hpk : p ≤ k
    · right
      refine ⟨k - p, by omega, ?_⟩
      have hsplit : List.replicate k false = bitsOf p 0 ++ List.replicate (k - p) false := by
        have : bitsOf p 0 = List.replicate p false := by
          have h : ∀ c, bitsOf c 0 = List.replicate c false := by
            intro c; induction c with
            | zero => rfl
            | succ c ih => simp [bitsOf, ih, List.replicate_succ]
          exact h p
        rw [this, List.replicate_append_replicate]; congr 1; omega
      simp only [readFull, List.replicate_succ, readUnary]
      rw [hsplit]
      have h0 : (0 : UInt64) = UInt64.ofNat 0 := rfl
      rw [h0, readBits_bitsOf]
      simp
    · left
      simp only [readFull, List.replicate_succ, readUnary]
      have : ∀ (p k : Nat) (acc : UInt64), k < p → readBits p (List.replicate k false) acc = none := by
        intro p
        induction p with
        | zero => intro k acc h; omega
        | succ p ih =>
          intro k acc h
          cases k with
          | zero => simp [readBits]
          | succ k => simp only [List.replicate_succ, readBits]; exact ih k _ (by omega)
      rw [this p k 0 (by omega)]

theorem decodeAll_padding (p fuel k : Nat) (last : UInt64) :
    ∀ x ∈ decodeAll p fuel (List.replicate k false) last, x = last := by
  induction fuel generalizing k with
  | zero => simp [decodeAll]
  | succ fuel ih =>
    rw [decodeAll]
    rcases readFull_padding p k with h | ⟨j, _, h⟩
    · simp [h]
    · rw [h]
      simp only [UInt64.add_zero, List.mem_cons]
      rintro x (rfl | hx)
      · rfl
      · exact ih j x hx

theorem decodeAll_spec (p : Nat) (hp : p ≤ 32) (vs : List UInt64) (last : UInt64) (k fuel : Nat)
    (hf : (encodeSorted p last vs ++ List.replicate k false).length < fuel) :
    ∃ j, decodeAll p fuel (encodeSorted p last vs ++ List.replicate k false) last
      = vs ++ List.replicate j (vs.getLast?.getD last) := by
  induction vs generalizing last fuel with
  | nil =>
    simp only [encodeSorted, List.nil_append, List.getLast?_nil, Option.getD_none]
    refine ⟨(decodeAll p fuel (List.replicate k false) last).length, ?_⟩
    exact List.eq_replicate_iff.mpr ⟨rfl, decodeAll_padding p fuel k last⟩
  | cons v vs ih =>
    cases fuel with
    | zero => omega
    | succ fuel =>
      rw [decodeAll, readFull_encodeSorted p hp]
      simp only [add_sub_self]
      have hlen : (encodeSorted p v vs ++ List.replicate k false).length < fuel := by
        rw [encodeSorted, List.append_assoc, List.length_append] at hf
        have := encodeDelta_length_pos p (v - last)
        omega
      obtain ⟨j, e⟩ := ih v fuel hlen
      refine ⟨j, ?_⟩
      have hl : vs.getLast?.getD v = (v :: vs).getLast?.getD last := by
        cases vs with
        | nil => simp
        | cons w ws =>
          rw [List.getLast?_cons_cons, List.getLast?_eq_some_getLast (by simp)]
          simp
      rw [e, List.cons_append, hl]

/-- without padding, decoding until EOF returns exactly the encoded list -/
theorem decodeAll_exact (p : Nat) (hp : p ≤ 32) (vs : List UInt64) (last : UInt64) (fuel : Nat)
    (hf : (encodeSorted p last vs).length < fuel) :
    decodeAll p fuel (encodeSorted p last vs) last = vs := by
  induction vs generalizing last fuel with
  | nil =>
    cases fuel with
    | zero => rfl
    | succ fuel => simp [encodeSorted, decodeAll, readFull, readUnary]
  | cons v vs ih =>
    cases fuel with
    | zero => omega
    | succ fuel =>
      have hr := readFull_encodeSorted p hp last v vs []
      simp only [List.append_nil] at hr
      rw [decodeAll, hr]
      simp only [add_sub_self]
      rw [ih v fuel]
      rw [encodeSorted, List.length_append] at hf
      have := encodeDelta_length_pos p (v - last)
      omega

theorem mem_decodeAll (p : Nat) (hp : p ≤ 32) (vs : List UInt64) (hne : vs ≠ []) (k fuel : Nat)
    (hf : (encodeSorted p 0 vs ++ List.replicate k false).length < fuel) (x : UInt64) :
    x ∈ decodeAll p fuel (encodeSorted p 0 vs ++ List.replicate k false) 0 ↔ x ∈ vs := by
  obtain ⟨j, e⟩ := decodeAll_spec p hp vs 0 k fuel hf
  rw [e, List.mem_append]
  constructor
  · rintro (h | h)
    · exact h
    · have := (List.mem_replicate.mp h).2
      rw [this]
      rw [List.getLast?_eq_some_getLast hne]
      exact List.getLast_mem hne
  · exact Or.inl

end Bch.Proofs.Gcs
