import Bch.Model.Bloom
/-
Helper lemmas for property C09 (BIP37 bloom filter model).
-/
namespace Bch.Proofs.Bloom
open Bch Bch.Model.Bloom

/-! ### bit level -/

theorem and_two_pow_ne_zero (a k : Nat) : (a &&& 2 ^ k ≠ 0) ↔ a.testBit k = true := by
  constructor
  · intro h
    cases hb : a.testBit k with
    | true => rfl
    | false =>
      exfalso; apply h
      apply Nat.eq_of_testBit_eq
      intro i
      simp [Nat.testBit_and, Nat.testBit_two_pow]
      intro h1 h2; subst h2; simp [hb] at h1
  · intro h h0
    have := congrArg (·.testBit k) h0
    simp [Nat.testBit_and, h] at this

theorem mask_toNat (k : Nat) : ((1 : UInt8) <<< UInt8.ofNat (k &&& 7)).toNat = 2 ^ (k % 8) := by
  have h7 : k &&& 7 = k % 8 := Nat.and_two_pow_sub_one_eq_mod k 3
  rw [h7, UInt8.toNat_shiftLeft]
  have hk : k % 8 < 8 := Nat.mod_lt _ (by decide)
  have h1 : (UInt8.ofNat (k % 8)).toNat = k % 8 := by
    simp [UInt8.toNat_ofNat']; omega
  rw [h1, Nat.mod_mod, Nat.shiftLeft_eq]
  have : 2 ^ (k % 8) < 2 ^ 8 := Nat.pow_lt_pow_right (by decide) hk
  simp
  omega

theorem byte_and_mask_ne_zero (b : UInt8) (k : Nat) :
    (b &&& ((1 : UInt8) <<< UInt8.ofNat (k &&& 7)) ≠ 0) ↔ b.toNat.testBit (k % 8) = true := by
  rw [Ne, ← UInt8.toNat_inj, UInt8.toNat_and, mask_toNat]
  exact and_two_pow_ne_zero _ _

/-- the model's `testBit` is bit `idx % 8` of byte `idx / 8` (0 outside the array) -/
theorem testBit_eq (bits : Bytes) (idx : Nat) :
    testBit bits idx = (bits.getD (idx / 8) 0).toNat.testBit (idx % 8) := by
  unfold testBit
  have : idx >>> 3 = idx / 8 := by simp [Nat.shiftRight_eq_div_pow]
  rw [this]
  have := byte_and_mask_ne_zero (bits.getD (idx / 8) 0) idx
  cases h : (bits.getD (idx / 8) 0).toNat.testBit (idx % 8) <;> simp_all

theorem setBit_eq (bits : Bytes) (idx : Nat) :
    setBit bits idx = bits.modify (idx / 8) (· ||| ((1 : UInt8) <<< UInt8.ofNat (idx &&& 7))) := by
  unfold setBit
  have : idx >>> 3 = idx / 8 := by simp [Nat.shiftRight_eq_div_pow]
  rw [this]

theorem setBit_length (bits : Bytes) (i : Nat) : (setBit bits i).length = bits.length := by
  simp [setBit]

theorem testBit_of_out_of_range (bits : Bytes) (j : Nat) (h : bits.length ≤ j / 8) :
    testBit bits j = false := by
  rw [testBit_eq]
  have : bits.getD (j / 8) 0 = 0 := by
    simp [List.getD_eq_getElem?_getD, List.getElem?_eq_none h]
  rw [this]; simp

theorem byte_or_mask_testBit (b : UInt8) (i r : Nat) :
    (b ||| ((1 : UInt8) <<< UInt8.ofNat (i &&& 7))).toNat.testBit r
      = (b.toNat.testBit r || decide (i % 8 = r)) := by
  rw [UInt8.toNat_or, mask_toNat, Nat.testBit_or, Nat.testBit_two_pow]

/-- exact characterisation of `setBit` followed by `testBit`, for all `i`, `j` -/
theorem testBit_setBit_gen (bits : Bytes) (i j : Nat) :
    testBit (setBit bits i) j = (testBit bits j || (decide (i = j) && decide (i / 8 < bits.length))) := by
  rw [testBit_eq, testBit_eq, setBit_eq]
  simp only [List.getD_eq_getElem?_getD, List.getElem?_modify]
  by_cases hq : i / 8 = j / 8
  · by_cases hlen : j / 8 < bits.length
    · simp only [if_pos hq, List.getElem?_eq_getElem hlen, Option.map_eq_map, Option.map_some,
        Option.getD_some, byte_or_mask_testBit]
      congr 1
      have : (i % 8 = j % 8) ↔ (i = j) := by omega
      simp [this, hq, hlen]
    · simp [hq, hlen]
  · have : i ≠ j := by intro h; exact hq (by rw [h])
    simp [hq, this]

theorem testBit_setBit (bits : Bytes) (i j : Nat) (hi : i / 8 < bits.length) :
    testBit (setBit bits i) j = (testBit bits j || decide (i = j)) := by
  rw [testBit_setBit_gen]; simp [hi]

theorem testBit_setBit_self (bits : Bytes) (i : Nat) (hi : i / 8 < bits.length) :
    testBit (setBit bits i) i = true := by
  rw [testBit_setBit _ _ _ hi]; simp

theorem testBit_setBit_mono (bits : Bytes) (i j : Nat) (h : testBit bits j = true) :
    testBit (setBit bits i) j = true := by
  rw [testBit_setBit_gen, h]; simp

/-! ### bit index -/

/-- `hashIdx` only depends on the tweak and the *length* of the bit array -/
def idxOf (tweak : UInt32) (len i : Nat) (d : Bytes) : Nat :=
  (MurmurHash3 (UInt32.ofNat i * 0xfba4c795 + tweak) d % (UInt32.ofNat len <<< 3)).toNat

theorem hashIdx_eq_idxOf (m : Msg) (i : Nat) (d : Bytes) :
    hashIdx m i d = idxOf m.tweak m.bits.length i d := rfl

/-- `uint32(len) << 3` does not wrap below 2^29 bytes -/
theorem shl3_toNat (len : Nat) (h : len < 2 ^ 29) : (UInt32.ofNat len <<< 3).toNat = 8 * len := by
  rw [UInt32.toNat_shiftLeft, UInt32.toNat_ofNat']
  have : (3 : UInt32).toNat = 3 := rfl
  rw [this, Nat.shiftLeft_eq]
  have h3 : (2 : Nat) ^ (3 % 32) = 8 := by decide
  have h29 : (2 : Nat) ^ 29 = 536870912 := by decide
  have h32 : (2 : Nat) ^ 32 = 4294967296 := by decide
  rw [h3, h32]; rw [h29] at h
  omega

theorem idxOf_eq (tweak : UInt32) (len i : Nat) (d : Bytes) (h : len < 2 ^ 29) :
    idxOf tweak len i d
      = (MurmurHash3 (UInt32.ofNat i * 0xfba4c795 + tweak) d).toNat % (8 * len) := by
  unfold idxOf
  rw [UInt32.toNat_mod, shl3_toNat len h]

theorem idxOf_lt (tweak : UInt32) (len i : Nat) (d : Bytes) (h0 : 0 < len) (h : len < 2 ^ 29) :
    idxOf tweak len i d < 8 * len := by
  rw [idxOf_eq _ _ _ _ h]; exact Nat.mod_lt _ (by omega)

theorem hashIdx_lt_of_lt (m : Msg) (i : Nat) (d : Bytes) (h0 : m.bits ≠ [])
    (h : m.bits.length < 2 ^ 29) : hashIdx m i d < 8 * m.bits.length := by
  rw [hashIdx_eq_idxOf]
  apply idxOf_lt _ _ _ _ _ h
  cases hb : m.bits with
  | nil => exact absurd hb h0
  | cons a l => simp

theorem hashIdx_lt (m : Msg) (i : Nat) (d : Bytes) (h0 : m.bits ≠ [])
    (h : m.bits.length ≤ 36000) : hashIdx m i d < 8 * m.bits.length :=
  hashIdx_lt_of_lt m i d h0 (by omega)

/-! ### folds of `setBit` -/

theorem foldl_setBit_length (g : Nat → Nat) (l : List Nat) (bits : Bytes) :
    (l.foldl (fun b i => setBit b (g i)) bits).length = bits.length := by
  induction l generalizing bits with
  | nil => rfl
  | cons a l ih => rw [List.foldl_cons, ih, setBit_length]

theorem testBit_foldl_setBit (g : Nat → Nat) (l : List Nat) (bits : Bytes)
    (hr : ∀ i ∈ l, g i / 8 < bits.length) (k : Nat) :
    testBit (l.foldl (fun b i => setBit b (g i)) bits) k
      = (testBit bits k || l.any (fun i => g i == k)) := by
  induction l generalizing bits with
  | nil => simp
  | cons a l ih =>
    rw [List.foldl_cons, ih, testBit_setBit _ _ _ (hr a (by simp))]
    · simp [Bool.or_assoc, Bool.beq_eq_decide_eq]
    · intro i hi; rw [setBit_length]; exact hr i (by simp [hi])

/-! ### `addMsg` / `matchesMsg` -/

theorem isEmpty_false_of_ne {bits : Bytes} (h : bits ≠ []) : bits.isEmpty = false := by
  cases bits with
  | nil => exact absurd rfl h
  | cons a l => rfl

@[simp] theorem addMsg_nHash (m : Msg) (x : Bytes) : (addMsg m x).nHash = m.nHash := by
  unfold addMsg; split <;> rfl
@[simp] theorem addMsg_tweak (m : Msg) (x : Bytes) : (addMsg m x).tweak = m.tweak := by
  unfold addMsg; split <;> rfl
@[simp] theorem addMsg_flags (m : Msg) (x : Bytes) : (addMsg m x).flags = m.flags := by
  unfold addMsg; split <;> rfl
@[simp] theorem addMsg_length (m : Msg) (x : Bytes) :
    (addMsg m x).bits.length = m.bits.length := by
  unfold addMsg; split
  · rfl
  · simp [foldl_setBit_length]

theorem addMsg_bits_ne (m : Msg) (x : Bytes) (h : m.bits ≠ []) : (addMsg m x).bits ≠ [] := by
  intro h'
  have := addMsg_length m x
  rw [h'] at this
  exact h (List.eq_nil_of_length_eq_zero this.symm)

theorem addMsg_of_empty (m : Msg) (x : Bytes) (h : m.bits = []) : addMsg m x = m := by
  unfold addMsg; simp [h]

@[simp] theorem hashIdx_addMsg (m : Msg) (x : Bytes) (i : Nat) (d : Bytes) :
    hashIdx (addMsg m x) i d = hashIdx m i d := by
  simp [hashIdx_eq_idxOf]

/-- exact bit content after one insertion -/
theorem testBit_addMsg (m : Msg) (x : Bytes) (h0 : m.bits ≠ []) (h : m.bits.length < 2 ^ 29)
    (k : Nat) :
    testBit (addMsg m x).bits k
      = (testBit m.bits k || (List.range m.nHash).any (fun i => hashIdx m i x == k)) := by
  unfold addMsg
  rw [if_neg (by simp [isEmpty_false_of_ne h0])]
  apply testBit_foldl_setBit
  intro i _
  have := hashIdx_lt_of_lt m i x h0 h
  omega

theorem matchesMsg_of_empty (m : Msg) (x : Bytes) (h : m.bits = []) : matchesMsg m x = true := by
  unfold matchesMsg; simp [h]

theorem matchesMsg_iff (m : Msg) (y : Bytes) (h0 : m.bits ≠ []) :
    matchesMsg m y = true ↔ ∀ i, i < m.nHash → testBit m.bits (hashIdx m i y) = true := by
  unfold matchesMsg
  rw [if_neg (by simp [isEmpty_false_of_ne h0])]
  simp [List.all_eq_true]

theorem addMsg_matches (m : Msg) (x : Bytes) (h : m.bits.length < 2 ^ 29) :
    matchesMsg (addMsg m x) x = true := by
  by_cases h0 : m.bits = []
  · rw [addMsg_of_empty m x h0]; exact matchesMsg_of_empty m x h0
  · rw [matchesMsg_iff _ _ (addMsg_bits_ne m x h0)]
    intro i hi
    rw [hashIdx_addMsg, testBit_addMsg m x h0 h]
    simp only [Bool.or_eq_true, List.any_eq_true]
    right
    exact ⟨i, by simpa using hi, by simp⟩

/-- monotonicity needs no bound at all: `setBit` never clears a bit -/
theorem testBit_foldl_setBit_mono (g : Nat → Nat) (l : List Nat) (bits : Bytes) (k : Nat)
    (hk : testBit bits k = true) :
    testBit (l.foldl (fun b i => setBit b (g i)) bits) k = true := by
  induction l generalizing bits with
  | nil => exact hk
  | cons a l ih => rw [List.foldl_cons]; exact ih _ (testBit_setBit_mono _ _ _ hk)

theorem testBit_addMsg_mono (m : Msg) (x : Bytes) (k : Nat) (hk : testBit m.bits k = true) :
    testBit (addMsg m x).bits k = true := by
  unfold addMsg; split
  · exact hk
  · exact testBit_foldl_setBit_mono _ _ _ _ hk

theorem addMsg_mono (m : Msg) (x y : Bytes) (hy : matchesMsg m y = true) :
    matchesMsg (addMsg m x) y = true := by
  by_cases h0 : m.bits = []
  · rw [addMsg_of_empty m x h0]; exact hy
  · rw [matchesMsg_iff _ _ (addMsg_bits_ne m x h0)]
    rw [matchesMsg_iff _ _ h0] at hy
    intro i hi
    rw [hashIdx_addMsg]
    exact testBit_addMsg_mono m x _ (hy i (by simpa using hi))

/-! ### filters -/

/-- the wire limit (`MaxFilterLoadFilterSize`) as a predicate on states -/
def Lim (f : Filter) : Prop := ∀ m, f = some m → m.bits.length ≤ 36000

theorem Lim_none : Lim none := by intro m h; cases h
theorem Lim_some {m : Msg} : Lim (some m) ↔ m.bits.length ≤ 36000 :=
  ⟨fun h => h m rfl, fun h m' e => by cases e; exact h⟩

theorem Lim_add {f : Filter} (x : Bytes) (h : Lim f) : Lim (add f x) := by
  cases f with
  | none => exact Lim_none
  | some m => rw [Lim_some] at h; simp only [add, Option.map_some]; rw [Lim_some]; simpa using h

theorem add_matches (f : Filter) (x : Bytes) (hl : f.isSome = true) (h : Lim f) :
    Matches (add f x) x = true := by
  cases f with
  | none => cases hl
  | some m =>
    rw [Lim_some] at h
    simp only [add, Option.map_some, Matches]
    exact addMsg_matches m x (by omega)

theorem add_mono (f : Filter) (x y : Bytes) (hy : Matches f y = true) :
    Matches (add f x) y = true := by
  cases f with
  | none => cases hy
  | some m => simp only [add, Option.map_some, Matches] at *; exact addMsg_mono m x y hy

theorem add_isSome (f : Filter) (x : Bytes) : (add f x).isSome = f.isSome := by
  cases f <;> rfl

/-! ### several insertions: exact bit content -/

theorem foldl_addMsg_length (m : Msg) (xs : List Bytes) :
    (xs.foldl addMsg m).bits.length = m.bits.length := by
  induction xs generalizing m with
  | nil => rfl
  | cons x xs ih => rw [List.foldl_cons, ih, addMsg_length]

theorem foldl_addMsg_nHash (m : Msg) (xs : List Bytes) : (xs.foldl addMsg m).nHash = m.nHash := by
  induction xs generalizing m with
  | nil => rfl
  | cons x xs ih => rw [List.foldl_cons, ih, addMsg_nHash]

theorem foldl_addMsg_tweak (m : Msg) (xs : List Bytes) : (xs.foldl addMsg m).tweak = m.tweak := by
  induction xs generalizing m with
  | nil => rfl
  | cons x xs ih => rw [List.foldl_cons, ih, addMsg_tweak]

theorem foldl_addMsg_flags (m : Msg) (xs : List Bytes) : (xs.foldl addMsg m).flags = m.flags := by
  induction xs generalizing m with
  | nil => rfl
  | cons x xs ih => rw [List.foldl_cons, ih, addMsg_flags]

theorem hashIdx_foldl_addMsg (m : Msg) (xs : List Bytes) (i : Nat) (d : Bytes) :
    hashIdx (xs.foldl addMsg m) i d = hashIdx m i d := by
  simp [hashIdx_eq_idxOf, foldl_addMsg_length, foldl_addMsg_tweak]

theorem foldl_add_some (m : Msg) (xs : List Bytes) :
    xs.foldl add (some m) = some (xs.foldl addMsg m) := by
  induction xs generalizing m with
  | nil => rfl
  | cons x xs ih => simp only [List.foldl_cons, add, Option.map_some]; exact ih _

theorem foldl_add_none (xs : List Bytes) : xs.foldl add none = none := by
  induction xs with
  | nil => rfl
  | cons x xs ih => simpa [add] using ih

theorem testBit_foldl_addMsg (m : Msg) (xs : List Bytes) (h0 : m.bits ≠ [])
    (h : m.bits.length < 2 ^ 29) (k : Nat) :
    testBit (xs.foldl addMsg m).bits k = true ↔
      (testBit m.bits k = true ∨ ∃ x, x ∈ xs ∧ ∃ i, i < m.nHash ∧ hashIdx m i x = k) := by
  induction xs generalizing m with
  | nil => simp
  | cons x xs ih =>
    rw [List.foldl_cons, ih (addMsg m x) (addMsg_bits_ne m x h0) (by simpa using h),
      testBit_addMsg m x h0 h]
    simp only [hashIdx_addMsg, addMsg_nHash, Bool.or_eq_true, List.any_eq_true, List.mem_range,
      beq_iff_eq, List.mem_cons]
    constructor
    · rintro ((hb | ⟨i, hi, e⟩) | ⟨y, hy, i, hi, e⟩)
      · exact Or.inl hb
      · exact Or.inr ⟨x, Or.inl rfl, i, hi, e⟩
      · exact Or.inr ⟨y, Or.inr hy, i, hi, e⟩
    · rintro (hb | ⟨y, (rfl | hy), i, hi, e⟩)
      · exact Or.inl (Or.inl hb)
      · exact Or.inl (Or.inr ⟨i, hi, e⟩)
      · exact Or.inr ⟨y, hy, i, hi, e⟩

/-! ### histories -/

/-- state after a history -/
def run (f : Filter) (ops : List Op) : Filter := ops.foldl (fun f op => (step f op).1) f

/-- the answers given along a history (one entry per operation) -/
def answers : Filter → List Op → List (Option Bool)
  | _, [] => []
  | f, op :: ops => (step f op).2 :: answers (step f op).1 ops

/-- the byte string an insertion operation inserts -/
def inserts : Op → Option Bytes
  | .add d => some d
  | .addHash h => some h
  | .addOutPoint h i => some (outPointBytes h i)
  | _ => none

/-- the byte string a query operation asks for -/
def queries : Op → Option Bytes
  | .query d => some d
  | .queryOutPoint h i => some (outPointBytes h i)
  | _ => none

/-- operations that replace the bit array -/
def resets : Op → Bool
  | .reload _ => true
  | .unload => true
  | _ => false

def opOk : Op → Bool
  | .reload m => decide (m.bits.length ≤ 36000)
  | _ => true

/-- every reloaded message respects the wire limit -/
def WithinLimits (ops : List Op) : Bool := ops.all opOk

/-- ghost tracking: state together with the items inserted (while loaded) since the last
reload/unload -/
def track (s : Filter × List Bytes) (op : Op) : Filter × List Bytes :=
  ((step s.1 op).1,
    if resets op then [] else
      match inserts op with
      | some x => if s.1.isSome then x :: s.2 else s.2
      | none => s.2)

def inserted (f : Filter) (ops : List Op) : List Bytes := (ops.foldl track (f, [])).2

theorem run_nil (f : Filter) : run f [] = f := rfl
theorem run_cons (f : Filter) (op : Op) (ops : List Op) :
    run f (op :: ops) = run (step f op).1 ops := rfl
theorem run_append (f : Filter) (a b : List Op) : run f (a ++ b) = run (run f a) b := by
  simp [run, List.foldl_append]

theorem foldl_track_fst (s : Filter × List Bytes) (ops : List Op) :
    (ops.foldl track s).1 = run s.1 ops := by
  induction ops generalizing s with
  | nil => rfl
  | cons op ops ih => rw [List.foldl_cons, ih, run_cons]; rfl

theorem step_query_of_queries {f : Filter} {q : Op} {x : Bytes} (hq : queries q = some x) :
    step f q = (f, some (Matches f x)) := by
  cases q <;> simp [queries] at hq <;> subst hq <;> rfl

theorem step_insert_of_inserts {f : Filter} {op : Op} {x : Bytes} (hi : inserts op = some x) :
    step f op = (add f x, none) := by
  cases op <;> simp [inserts] at hi <;> subst hi <;> rfl

theorem Lim_step {f : Filter} {op : Op} (hf : Lim f) (hop : opOk op = true) :
    Lim (step f op).1 := by
  cases op with
  | add d => exact Lim_add d hf
  | addHash d => exact Lim_add d hf
  | addOutPoint h i => exact Lim_add _ hf
  | query d => exact hf
  | queryOutPoint h i => exact hf
  | reload m => simp only [step]; rw [Lim_some]; simpa [opOk] using hop
  | unload => exact Lim_none
  | isLoaded => exact hf

theorem Lim_run {f : Filter} {ops : List Op} (hf : Lim f) (hops : WithinLimits ops = true) :
    Lim (run f ops) := by
  induction ops generalizing f with
  | nil => exact hf
  | cons op ops ih =>
    simp only [WithinLimits, List.all_cons, Bool.and_eq_true] at hops
    rw [run_cons]
    exact ih (Lim_step hf hops.1) (by simpa [WithinLimits] using hops.2)

/-- a step that is not a reload/unload keeps every positive answer -/
theorem step_mono {f : Filter} {op : Op} (hr : resets op = false) {y : Bytes}
    (hy : Matches f y = true) : Matches (step f op).1 y = true := by
  cases op with
  | add d => exact add_mono f d y hy
  | addHash d => exact add_mono f d y hy
  | addOutPoint h i => exact add_mono f _ y hy
  | query d => exact hy
  | queryOutPoint h i => exact hy
  | reload m => simp [resets] at hr
  | unload => simp [resets] at hr
  | isLoaded => exact hy

theorem run_mono {f : Filter} {ops : List Op} (hr : ∀ op ∈ ops, resets op = false) {y : Bytes}
    (hy : Matches f y = true) : Matches (run f ops) y = true := by
  induction ops generalizing f with
  | nil => exact hy
  | cons op ops ih =>
    rw [run_cons]
    exact ih (fun o ho => hr o (by simp [ho])) (step_mono (hr op (by simp)) hy)

/-- the invariant: everything tracked as inserted is matched -/
def Inv (s : Filter × List Bytes) : Prop := ∀ x ∈ s.2, Matches s.1 x = true

theorem Inv_track {s : Filter × List Bytes} {op : Op} (hl : Lim s.1) (hinv : Inv s) :
    Inv (track s op) := by
  intro x hx
  unfold track at hx ⊢
  by_cases hr : resets op = true
  · simp [hr] at hx
  · have hr' : resets op = false := by simpa using hr
    simp only [hr', Bool.false_eq_true, if_false] at hx
    cases hi : inserts op with
    | none =>
      rw [hi] at hx
      exact step_mono hr' (hinv x hx)
    | some z =>
      rw [hi] at hx
      simp only [step_insert_of_inserts hi]
      by_cases hs : s.1.isSome = true
      · simp only [hs, if_true, List.mem_cons] at hx
        rcases hx with rfl | hx
        · exact add_matches s.1 x hs hl
        · exact add_mono s.1 z x (hinv x hx)
      · simp only [hs, Bool.false_eq_true, if_false] at hx
        exact add_mono s.1 z x (hinv x hx)

theorem Inv_foldl {s : Filter × List Bytes} {ops : List Op} (hl : Lim s.1)
    (hops : WithinLimits ops = true) (hinv : Inv s) : Inv (ops.foldl track s) := by
  induction ops generalizing s with
  | nil => exact hinv
  | cons op ops ih =>
    simp only [WithinLimits, List.all_cons, Bool.and_eq_true] at hops
    rw [List.foldl_cons]
    exact ih (Lim_step hl hops.1) (by simpa [WithinLimits] using hops.2) (Inv_track hl hinv)

theorem inserted_matched (f : Filter) (ops : List Op) (hl : Lim f)
    (hops : WithinLimits ops = true) : ∀ x ∈ inserted f ops, Matches (run f ops) x = true := by
  have h := Inv_foldl (s := (f, [])) hl hops (by intro x hx; cases hx)
  intro x hx
  have := h x hx
  rwa [foldl_track_fst] at this

theorem WithinLimits_append (a b : List Op) :
    WithinLimits (a ++ b) = (WithinLimits a && WithinLimits b) := by
  simp [WithinLimits, List.all_append]

/-- positional form: insertion at some position, no reload/unload afterwards, query later -/
theorem query_after_insert (f0 : Filter) (pre mid : List Op) (ins q : Op) (x : Bytes)
    (hl : Lim f0) (hops : WithinLimits pre = true)
    (hloaded : (run f0 pre).isSome = true)
    (hins : inserts ins = some x) (hmid : ∀ op ∈ mid, resets op = false)
    (hq : queries q = some x) :
    (step (run f0 (pre ++ ins :: mid)) q).2 = some true := by
  rw [step_query_of_queries hq, run_append, run_cons, step_insert_of_inserts hins]
  simp only [Option.some.injEq]
  exact run_mono hmid (add_matches _ x hloaded (Lim_run hl hops))

/-! ### little-endian encoding of the outpoint index -/

theorem ofNatLE_length (n x : Nat) : (Bytes.ofNatLE n x).length = n := by
  induction n generalizing x with
  | zero => rfl
  | succ n ih => simp [Bytes.ofNatLE, ih]

theorem toNatLE_ofNatLE (n x : Nat) : Bytes.toNatLE (Bytes.ofNatLE n x) = x % 256 ^ n := by
  induction n generalizing x with
  | zero => simp [Bytes.ofNatLE, Bytes.toNatLE, Nat.mod_one]
  | succ n ih =>
    simp only [Bytes.ofNatLE, Bytes.toNatLE, ih, UInt8.toNat_ofNat']
    have e : 256 ^ (n + 1) = 256 * 256 ^ n := by rw [Nat.pow_succ, Nat.mul_comm]
    rw [e, Nat.mod_mul]
    have : x % 256 % 2 ^ 8 = x % 256 := by omega
    rw [this]

/-! ### sizing -/

theorem sizing_within_limits (a b : Nat) : (sizing a b).1 ≤ 36000 ∧ (sizing a b).2 ≤ 50 := by
  unfold sizing
  constructor
  · simp only; omega
  · simp only; omega

/-! ### MurmurHash3 -/

/-- the seed of hash function `i`, computed modulo 2^32 -/
theorem seed_eq (i : Nat) (tweak : UInt32) :
    UInt32.ofNat i * 0xfba4c795 + tweak
      = UInt32.ofNat ((i * 0xFBA4C795 + tweak.toNat) % 2 ^ 32) := by
  rw [← UInt32.toNat_inj]
  simp only [UInt32.toNat_add, UInt32.toNat_mul, UInt32.toNat_ofNat']
  have : (0xfba4c795 : UInt32).toNat = 0xFBA4C795 := rfl
  rw [this]
  omega

theorem le32_eq_ofNat (a b c d : UInt8) :
    le32 a b c d
      = UInt32.ofNat (a.toNat + 2 ^ 8 * b.toNat + 2 ^ 16 * c.toNat + 2 ^ 24 * d.toNat) := by
  rw [← UInt32.toNat_inj]
  unfold le32
  simp only [UInt32.toNat_or, UInt32.toNat_shiftLeft, UInt8.toNat_toUInt32, UInt32.toNat_ofNat']
  have ha := a.toNat_lt; have hb := b.toNat_lt; have hc := c.toNat_lt; have hd := d.toNat_lt
  have e8 : (8 : UInt32).toNat % 32 = 8 := rfl
  have e16 : (16 : UInt32).toNat % 32 = 16 := rfl
  have e24 : (24 : UInt32).toNat % 32 = 24 := rfl
  rw [e8, e16, e24]
  simp only [Nat.shiftLeft_eq]
  have m1 : b.toNat * 2 ^ 8 % 2 ^ 32 = b.toNat * 2 ^ 8 := Nat.mod_eq_of_lt (by omega)
  have m2 : c.toNat * 2 ^ 16 % 2 ^ 32 = c.toNat * 2 ^ 16 := Nat.mod_eq_of_lt (by omega)
  have m3 : d.toNat * 2 ^ 24 % 2 ^ 32 = d.toNat * 2 ^ 24 := Nat.mod_eq_of_lt (by omega)
  rw [m1, m2, m3]
  have s1 : a.toNat ||| b.toNat * 2 ^ 8 = b.toNat * 2 ^ 8 + a.toNat := by
    rw [Nat.or_comm, ← Nat.shiftLeft_eq, Nat.shiftLeft_add_eq_or_of_lt (by omega)]
  rw [s1]
  have s2 : (b.toNat * 2 ^ 8 + a.toNat) ||| c.toNat * 2 ^ 16
      = c.toNat * 2 ^ 16 + (b.toNat * 2 ^ 8 + a.toNat) := by
    rw [Nat.or_comm, ← Nat.shiftLeft_eq, Nat.shiftLeft_add_eq_or_of_lt (by omega)]
  rw [s2]
  have s3 : (c.toNat * 2 ^ 16 + (b.toNat * 2 ^ 8 + a.toNat)) ||| d.toNat * 2 ^ 24
      = d.toNat * 2 ^ 24 + (c.toNat * 2 ^ 16 + (b.toNat * 2 ^ 8 + a.toNat)) := by
    rw [Nat.or_comm, ← Nat.shiftLeft_eq, Nat.shiftLeft_add_eq_or_of_lt (by omega)]
  rw [s3]
  omega

theorem murmurBody_unique (F : UInt32 → Bytes → UInt32)
    (h4 : ∀ h a b c d rest, F h (a :: b :: c :: d :: rest)
        = F (rotl32 (h ^^^ mixK (le32 a b c d)) 13 * 5 + 0xe6546b64) rest)
    (h3 : ∀ h a b c, F h [a, b, c]
        = h ^^^ mixK ((c.toUInt32 <<< 16) ^^^ (b.toUInt32 <<< 8) ^^^ a.toUInt32))
    (h2 : ∀ h a b, F h [a, b] = h ^^^ mixK ((b.toUInt32 <<< 8) ^^^ a.toUInt32))
    (h1 : ∀ h a, F h [a] = h ^^^ mixK a.toUInt32)
    (h0 : ∀ h, F h [] = h) :
    ∀ h data, F h data = murmurBody h data := by
  intro h data
  fun_induction murmurBody h data with
  | case1 h a b c d rest h' h'' ih => rw [h4]; exact ih
  | case2 h a b c => exact h3 ..
  | case3 h a b => exact h2 ..
  | case4 h a => exact h1 ..
  | case5 h => exact h0 ..

end Bch.Proofs.Bloom
