import Bch.Proofs.CoinSet
/-
Helper definitions and lemmas for C19 with an *arbitrary* correct `sort.Sort` (Go's `sort.Sort` is not stable:
coins with equal keys may come out in any order; the model `Bch.Model.CoinSet` fixes the stable insertion sort).

* `SortsDescBy key srt` / `SortsAscBy key srt` — the contract of `sort.Sort(sort.Reverse(by…))` / `sort.Sort(by…)`:
  for every input the result is a permutation of it and is non-increasing / non-decreasing in `key`.
  They are the C18 contract `SortContract less srt` for the three Go comparators (`sortsDescBy_…_iff`).
* `minNumberWith srt`, `maxValueAgeWith srt`, `minPriorityWith srtVA srtV` — the selectors with the sort(s) as
  parameters; with the model's insertion sorts they are the model's selectors (`…_model`).
* `revSort less` — insertion sort of the reversed input: a second sort meeting the contract, which reverses ties.
-/
namespace Bch.Proofs.CoinSetAnySort
open Bch Bch.Model.TxSort Bch.Model.CoinSet Bch.Proofs.TxSort Bch.Proofs.CoinSet

/-! ## the comparators and the contract -/

/-- `sort.Reverse(byAmount).Less(i, j)` = `a[j].Value() < a[i].Value()` -/
def lessValueDesc (a b : Coin) : Bool := decide (b.value < a.value)
/-- `sort.Reverse(byValueAge).Less(i, j)` -/
def lessValueAgeDesc (a b : Coin) : Bool := decide (b.valueAge < a.valueAge)
/-- `byValueAge.Less(i, j)` -/
def lessValueAgeAsc (a b : Coin) : Bool := decide (a.valueAge < b.valueAge)

theorem sortByValueDesc_eq : sortByValueDesc = sortBy lessValueDesc := rfl
theorem sortByValueAgeDesc_eq : sortByValueAgeDesc = sortBy lessValueAgeDesc := rfl
theorem sortByValueAgeAsc_eq : sortByValueAgeAsc = sortBy lessValueAgeAsc := rfl

/-- `srt` returns, for every input, a permutation of it that is non-increasing in `key` -/
def SortsDescBy (key : Coin → Int) (srt : List Coin → List Coin) : Prop :=
  ∀ l, (srt l).Perm l ∧ (srt l).Pairwise (fun a b => key b ≤ key a)

/-- `srt` returns, for every input, a permutation of it that is non-decreasing in `key` -/
def SortsAscBy (key : Coin → Int) (srt : List Coin → List Coin) : Prop :=
  ∀ l, (srt l).Perm l ∧ (srt l).Pairwise (fun a b => key a ≤ key b)

theorem sorted_lessValueDesc_iff (l : List Coin) :
    Sorted lessValueDesc l ↔ l.Pairwise (fun a b => b.value ≤ a.value) := by
  unfold Sorted lessValueDesc
  constructor <;> intro h <;> refine h.imp ?_ <;> intro a b hab
  · have := of_decide_eq_false hab; omega
  · exact decide_eq_false (by omega)

theorem sorted_lessValueAgeDesc_iff (l : List Coin) :
    Sorted lessValueAgeDesc l ↔ l.Pairwise (fun a b => b.valueAge ≤ a.valueAge) := by
  unfold Sorted lessValueAgeDesc
  constructor <;> intro h <;> refine h.imp ?_ <;> intro a b hab
  · have := of_decide_eq_false hab; omega
  · exact decide_eq_false (by omega)

theorem sorted_lessValueAgeAsc_iff (l : List Coin) :
    Sorted lessValueAgeAsc l ↔ l.Pairwise (fun a b => a.valueAge ≤ b.valueAge) := by
  unfold Sorted lessValueAgeAsc
  constructor <;> intro h <;> refine h.imp ?_ <;> intro a b hab
  · have := of_decide_eq_false hab; omega
  · exact decide_eq_false (by omega)

/-- the contract is the C18 contract of `sort.Sort` for the Go comparator -/
theorem sortsDescBy_value_iff (srt : List Coin → List Coin) :
    SortsDescBy Coin.value srt ↔ SortContract lessValueDesc srt := by
  unfold SortsDescBy SortContract
  simp only [sorted_lessValueDesc_iff]

theorem sortsDescBy_valueAge_iff (srt : List Coin → List Coin) :
    SortsDescBy Coin.valueAge srt ↔ SortContract lessValueAgeDesc srt := by
  unfold SortsDescBy SortContract
  simp only [sorted_lessValueAgeDesc_iff]

theorem sortsAscBy_valueAge_iff (srt : List Coin → List Coin) :
    SortsAscBy Coin.valueAge srt ↔ SortContract lessValueAgeAsc srt := by
  unfold SortsAscBy SortContract
  simp only [sorted_lessValueAgeAsc_iff]

theorem strictWeak_lessValueDesc : StrictWeak lessValueDesc := keyOrder_valueDesc.strictWeak
theorem strictWeak_lessValueAgeDesc : StrictWeak lessValueAgeDesc := keyOrder_valueAgeDesc.strictWeak
theorem strictWeak_lessValueAgeAsc : StrictWeak lessValueAgeAsc := keyOrder_valueAgeAsc.strictWeak

/-- the model's sorts meet the contract -/
theorem sortByValueDesc_contract : SortsDescBy Coin.value sortByValueDesc :=
  fun l => ⟨sortByValueDesc_perm l, sortByValueDesc_sorted l⟩
theorem sortByValueAgeDesc_contract : SortsDescBy Coin.valueAge sortByValueAgeDesc :=
  fun l => ⟨sortByValueAgeDesc_perm l, sortByValueAgeDesc_sorted l⟩
theorem sortByValueAgeAsc_contract : SortsAscBy Coin.valueAge sortByValueAgeAsc :=
  fun l => ⟨sortByValueAgeAsc_perm l, sortByValueAgeAsc_sorted l⟩

/-- insertion sort of the reversed input: also a correct sort, but ties come out in the opposite order -/
def revSort (less : Coin → Coin → Bool) (l : List Coin) : List Coin := sortBy less l.reverse

theorem revSort_contract {less : Coin → Coin → Bool} (h : StrictWeak less) : SortContract less (revSort less) :=
  fun l => ⟨(sortBy_perm less l.reverse).trans (List.reverse_perm l), sortBy_pairwise h l.reverse⟩

theorem revSort_valueDesc_contract : SortsDescBy Coin.value (revSort lessValueDesc) :=
  (sortsDescBy_value_iff _).2 (revSort_contract strictWeak_lessValueDesc)
theorem revSort_valueAgeDesc_contract : SortsDescBy Coin.valueAge (revSort lessValueAgeDesc) :=
  (sortsDescBy_valueAge_iff _).2 (revSort_contract strictWeak_lessValueAgeDesc)
theorem revSort_valueAgeAsc_contract : SortsAscBy Coin.valueAge (revSort lessValueAgeAsc) :=
  (sortsAscBy_valueAge_iff _).2 (revSort_contract strictWeak_lessValueAgeAsc)

/-! ## the selectors with the sort as a parameter -/

/-- `MinNumberCoinSelector.CoinSelect` with `sort.Sort(sort.Reverse(byAmount(·)))` = `srt` -/
def minNumberWith (srt : List Coin → List Coin) (maxInputs minChange target : Int) (coins : List Coin) :
    Option CS := minIndex maxInputs minChange target (srt coins)

/-- `MaxValueAgeCoinSelector.CoinSelect` with `sort.Sort(sort.Reverse(byValueAge(·)))` = `srt` -/
def maxValueAgeWith (srt : List Coin → List Coin) (maxInputs minChange target : Int) (coins : List Coin) :
    Option CS := minIndex maxInputs minChange target (srt coins)

theorem minNumberWith_model : minNumberWith sortByValueDesc = minNumber := rfl
theorem maxValueAgeWith_model : maxValueAgeWith sortByValueAgeDesc = maxValueAge := rfl

/-! ## what two sorted permutations have in common -/

/-- position-wise: equal key sequences give equal `f` sequences if `f` is constant on the key classes of `l` -/
theorem map_eq_of_keys_eq {β : Type} (key : Coin → Int) (f : Coin → β) (l : List Coin)
    (hf : ∀ a ∈ l, ∀ b ∈ l, key a = key b → f a = f b) :
    ∀ l1 l2 : List Coin, (∀ a ∈ l1, a ∈ l) → (∀ a ∈ l2, a ∈ l) → l1.map key = l2.map key →
      l1.map f = l2.map f
  | [], [], _, _, _ => rfl
  | [], _ :: _, _, _, h => by simp at h
  | _ :: _, [], _, _, h => by simp at h
  | a :: t1, b :: t2, m1, m2, h => by
    simp only [List.map_cons, List.cons.injEq] at h ⊢
    exact ⟨hf a (m1 a List.mem_cons_self) b (m2 b List.mem_cons_self) h.1,
      map_eq_of_keys_eq key f l hf t1 t2 (fun x hx => m1 x (List.mem_cons_of_mem _ hx))
        (fun x hx => m2 x (List.mem_cons_of_mem _ hx)) h.2⟩

/-- two non-increasing permutations of one list have the same key sequence -/
theorem desc_perm_keys_eq (key : Coin → Int) {l1 l2 l : List Coin} (hp1 : l1.Perm l) (hp2 : l2.Perm l)
    (h1 : l1.Pairwise (fun a b => key b ≤ key a)) (h2 : l2.Pairwise (fun a b => key b ≤ key a)) :
    l1.map key = l2.map key := by
  apply List.Perm.eq_of_pairwise (le := fun k1 k2 : Int => k2 ≤ k1)
  · intro a b _ _ hab hba; omega
  · rw [List.pairwise_map]; exact h1
  · rw [List.pairwise_map]; exact h2
  · exact (hp1.trans hp2.symm).map key

/-- … and the same `f` sequence for every `f` that is constant on the groups of equal keys in `l` -/
theorem desc_perm_map_eq {β : Type} (key : Coin → Int) (f : Coin → β) {l1 l2 l : List Coin}
    (hp1 : l1.Perm l) (hp2 : l2.Perm l)
    (h1 : l1.Pairwise (fun a b => key b ≤ key a)) (h2 : l2.Pairwise (fun a b => key b ≤ key a))
    (hf : ∀ a ∈ l, ∀ b ∈ l, key a = key b → f a = f b) : l1.map f = l2.map f :=
  map_eq_of_keys_eq key f l hf l1 l2 (fun _ h => hp1.mem_iff.1 h) (fun _ h => hp2.mem_iff.1 h)
    (desc_perm_keys_eq key hp1 hp2 h1 h2)

theorem sortsDescBy_map_eq {β : Type} {key : Coin → Int} (f : Coin → β) {srt1 srt2 : List Coin → List Coin}
    (h1 : SortsDescBy key srt1) (h2 : SortsDescBy key srt2) (l : List Coin)
    (hf : ∀ a ∈ l, ∀ b ∈ l, key a = key b → f a = f b) : (srt1 l).map f = (srt2 l).map f :=
  desc_perm_map_eq key f (h1 l).1 (h2 l).1 (h1 l).2 (h2 l).2 hf

theorem sortsDescBy_keys_eq {key : Coin → Int} {srt1 srt2 : List Coin → List Coin}
    (h1 : SortsDescBy key srt1) (h2 : SortsDescBy key srt2) (l : List Coin) :
    (srt1 l).map key = (srt2 l).map key :=
  desc_perm_keys_eq key (h1 l).1 (h2 l).1 (h1 l).2 (h2 l).2

/-- if no two *different* coins of `l` share a key, the sorted permutation is unique -/
theorem sortsDescBy_eq_of_inj {key : Coin → Int} {srt1 srt2 : List Coin → List Coin}
    (h1 : SortsDescBy key srt1) (h2 : SortsDescBy key srt2) (l : List Coin)
    (hinj : ∀ a ∈ l, ∀ b ∈ l, key a = key b → a = b) : srt1 l = srt2 l := by
  have := sortsDescBy_map_eq (fun c => c) h1 h2 l hinj
  simpa using this

/-! ## prefix sums and the scan depend on the value sequence only -/

theorem sumV_take_of_map_eq {l1 l2 : List Coin} (hv : l1.map Coin.value = l2.map Coin.value) (k : Nat) :
    sumV (l1.take k) = sumV (l2.take k) := by
  unfold sumV
  rw [List.map_take, List.map_take, hv]

theorem sumVA_take_of_map_eq {l1 l2 : List Coin} (hv : l1.map Coin.valueAge = l2.map Coin.valueAge) (k : Nat) :
    sumVA (l1.take k) = sumVA (l2.take k) := by
  unfold sumVA
  rw [List.map_take, List.map_take, hv]

theorem isFirstPrefix_of_map_eq {mi mc t : Int} {l1 l2 : List Coin}
    (hv : l1.map Coin.value = l2.map Coin.value) {k : Nat} (h : IsFirstPrefix mi mc t l1 k) :
    IsFirstPrefix mi mc t l2 k := by
  have hlen : l1.length = l2.length := by simpa using congrArg List.length hv
  obtain ⟨h1, h2, h3, h4, h5⟩ := h
  refine ⟨h1, by omega, h3, ?_, ?_⟩
  · rw [← sumV_take_of_map_eq hv]; exact h4
  · intro j hj1 hj2; rw [← sumV_take_of_map_eq hv]; exact h5 j hj1 hj2

/-- the scan on two lists with the same value sequence stops at the same position -/
theorem minIndex_of_map_eq_take {mi mc t : Int} {l1 l2 : List Coin}
    (hv : l1.map Coin.value = l2.map Coin.value) {cs1 : CS} (h : minIndex mi mc t l1 = some cs1) :
    ∃ k, cs1 = ⟨l1.take k, sumV (l1.take k), sumVA (l1.take k)⟩ ∧
      minIndex mi mc t l2 = some ⟨l2.take k, sumV (l2.take k), sumVA (l2.take k)⟩ := by
  obtain ⟨k, hk, rfl⟩ := (minIndex_some_iff _ _ _ _ _).1 h
  exact ⟨k, rfl, (minIndex_some_iff _ _ _ _ _).2 ⟨k, isFirstPrefix_of_map_eq hv hk, rfl⟩⟩

/-- … hence: same outcome, same number of coins, same values -/
theorem minIndex_of_map_eq {mi mc t : Int} {l1 l2 : List Coin}
    (hv : l1.map Coin.value = l2.map Coin.value) {cs1 : CS} (h : minIndex mi mc t l1 = some cs1) :
    ∃ cs2, minIndex mi mc t l2 = some cs2 ∧ cs1.coins.length = cs2.coins.length ∧
      cs1.totalValue = cs2.totalValue ∧ cs1.coins.map Coin.value = cs2.coins.map Coin.value := by
  obtain ⟨k, rfl, h2⟩ := minIndex_of_map_eq_take hv h
  have hlen : l1.length = l2.length := by simpa using congrArg List.length hv
  refine ⟨_, h2, ?_, ?_, ?_⟩
  · simp only [List.length_take]; omega
  · exact sumV_take_of_map_eq hv k
  · simp only [List.map_take, hv]

/-- if the value-age sequences coincide too, so does the total value-age -/
theorem minIndex_of_map_eq_va {mi mc t : Int} {l1 l2 : List Coin}
    (hv : l1.map Coin.value = l2.map Coin.value) (hva : l1.map Coin.valueAge = l2.map Coin.valueAge)
    {cs1 : CS} (h : minIndex mi mc t l1 = some cs1) :
    ∃ cs2, minIndex mi mc t l2 = some cs2 ∧ cs1.coins.length = cs2.coins.length ∧
      cs1.totalValue = cs2.totalValue ∧ cs1.totalValueAge = cs2.totalValueAge ∧
      cs1.coins.map Coin.value = cs2.coins.map Coin.value := by
  obtain ⟨k, rfl, h2⟩ := minIndex_of_map_eq_take hv h
  have hlen : l1.length = l2.length := by simpa using congrArg List.length hv
  refine ⟨_, h2, ?_, ?_, ?_, ?_⟩
  · simp only [List.length_take]; omega
  · exact sumV_take_of_map_eq hv k
  · exact sumVA_take_of_map_eq hva k
  · simp only [List.map_take, hv]

theorem minIndex_none_of_map_eq {mi mc t : Int} {l1 l2 : List Coin}
    (hv : l1.map Coin.value = l2.map Coin.value) :
    minIndex mi mc t l1 = none ↔ minIndex mi mc t l2 = none := by
  constructor
  · intro h
    cases h2 : minIndex mi mc t l2 with
    | none => rfl
    | some cs2 =>
      obtain ⟨cs1, h1, _⟩ := minIndex_of_map_eq hv.symm h2
      rw [h] at h1; cases h1
  · intro h
    cases h1 : minIndex mi mc t l1 with
    | none => rfl
    | some cs1 =>
      obtain ⟨cs2, h2, _⟩ := minIndex_of_map_eq hv h1
      rw [h] at h2; cases h2

/-! ## the monotone regime: non-negative values, no exact-match rule -/

theorem sumV_perm {l1 l2 : List Coin} (h : l1.Perm l2) : sumV l1 = sumV l2 := by
  induction h with
  | nil => rfl
  | cons x _ ih => simp [ih]
  | swap x y l => simp only [sumV_cons]; omega
  | trans _ _ ih1 ih2 => exact ih1.trans ih2

theorem sumVA_perm {l1 l2 : List Coin} (h : l1.Perm l2) : sumVA l1 = sumVA l2 := by
  induction h with
  | nil => rfl
  | cons x _ ih => simp [ih]
  | swap x y l => simp only [sumVA_cons]; omega
  | trans _ _ ih1 ih2 => exact ih1.trans ih2

theorem sumV_take_le (l : List Coin) (hnn : ∀ c ∈ l, 0 ≤ c.value) (k : Nat) : sumV (l.take k) ≤ sumV l := by
  induction l generalizing k with
  | nil => simp
  | cons c cs ih =>
    have hc := hnn c List.mem_cons_self
    have hcs : ∀ x ∈ cs, 0 ≤ x.value := fun x hx => hnn x (List.mem_cons_of_mem _ hx)
    cases k with
    | zero =>
      have := ih hcs 0
      simp only [List.take_zero, sumV_nil, sumV_cons] at this ⊢
      omega
    | succ k =>
      have := ih hcs k
      simp only [List.take_succ_cons, sumV_cons]
      omega

theorem sat_of_nonpos_minChange (t mc x : Int) (hmc : mc ≤ 0) :
    satisfiesTargetValue t mc x = true ↔ t + mc ≤ x := by
  unfold satisfiesTargetValue
  simp only [Bool.or_eq_true, beq_iff_eq, decide_eq_true_eq]
  omega

/-- all values non-negative, `minChange ≤ 0` (the rule is then `total ≥ target + minChange`), `maxInputs` at
    least the number of coins: the scan succeeds iff the list is non-empty and its total reaches the bound -/
theorem minIndex_isSome_iff_of_monotone (mi mc t : Int) (l : List Coin) (hnn : ∀ c ∈ l, 0 ≤ c.value)
    (hmc : mc ≤ 0) (hmi : (l.length : Int) ≤ mi) :
    (minIndex mi mc t l).isSome = true ↔ l ≠ [] ∧ t + mc ≤ sumV l := by
  constructor
  · intro h
    obtain ⟨cs, hcs⟩ := Option.isSome_iff_exists.1 h
    obtain ⟨k, ⟨h1, h2, _, h4, _⟩, _⟩ := (minIndex_some_iff _ _ _ _ _).1 hcs
    refine ⟨?_, ?_⟩
    · rintro rfl; simp at h2; omega
    · have := (sat_of_nonpos_minChange t mc _ hmc).1 h4
      have := sumV_take_le l hnn k
      omega
  · rintro ⟨hne, hsum⟩
    cases hm : minIndex mi mc t l with
    | some cs => rfl
    | none =>
      exfalso
      have hpos : 1 ≤ l.length := by
        cases l with
        | nil => exact absurd rfl hne
        | cons _ _ => simp
      have := (minIndex_none_iff _ _ _ _).1 hm l.length hpos (Nat.le_refl _) hmi
      rw [List.take_length] at this
      rw [(sat_of_nonpos_minChange t mc _ hmc).2 hsum] at this
      cases this

/-! ## the scan, stated on prefixes -/

theorem minIndex_some_iff_take (mi mc t : Int) (coins : List Coin) (cs : CS) :
    minIndex mi mc t coins = some cs ↔
      ∃ k, 1 ≤ k ∧ k ≤ coins.length ∧ (k : Int) ≤ mi ∧
        satisfiesTargetValue t mc (sumV (coins.take k)) = true ∧
        (∀ j, 1 ≤ j → j < k → satisfiesTargetValue t mc (sumV (coins.take j)) = false) ∧
        cs.coins = coins.take k ∧ cs.totalValue = sumV (coins.take k) ∧
        cs.totalValueAge = sumVA (coins.take k) := by
  rw [minIndex_some_iff]
  constructor
  · rintro ⟨k, ⟨h1, h2, h3, h4, h5⟩, rfl⟩
    exact ⟨k, h1, h2, h3, h4, h5, rfl, rfl, rfl⟩
  · rintro ⟨k, h1, h2, h3, h4, h5, h6, h7, h8⟩
    refine ⟨k, ⟨h1, h2, h3, h4, h5⟩, ?_⟩
    cases cs; simp_all

theorem minIndex_isSome_iff (mi mc t : Int) (coins : List Coin) :
    (minIndex mi mc t coins).isSome = true ↔
      ∃ k, 1 ≤ k ∧ k ≤ coins.length ∧ (k : Int) ≤ mi ∧
        satisfiesTargetValue t mc (sumV (coins.take k)) = true := by
  constructor
  · intro h
    obtain ⟨cs, hcs⟩ := Option.isSome_iff_exists.1 h
    obtain ⟨k, ⟨h1, h2, h3, h4, _⟩, _⟩ := (minIndex_some_iff _ _ _ _ _).1 hcs
    exact ⟨k, h1, h2, h3, h4⟩
  · rintro ⟨k, h1, h2, h3, h4⟩
    cases hm : minIndex mi mc t coins with
    | some cs => rfl
    | none =>
      rw [(minIndex_none_iff _ _ _ _).1 hm k h1 h2 h3] at h4
      cases h4

/-! ## validity of a scan over any permutation of the offer -/

theorem minIndex_perm_valid (mi mc t : Int) (l coins : List Coin) (hl : l.Perm coins) (cs : CS)
    (hm : minIndex mi mc t l = some cs) :
    SubMultiset cs.coins coins ∧ cs.coins ≠ [] ∧ (cs.coins.length : Int) ≤ mi ∧ Inv cs ∧
    (cs.totalValue = t ∨ cs.totalValue ≥ t + mc) := by
  obtain ⟨k, ⟨h1, h2, h3, h4, _⟩, rfl⟩ := (minIndex_some_iff _ _ _ _ _).1 hm
  refine ⟨⟨l, hl, List.take_sublist _ _⟩, ?_, ?_, ⟨rfl, rfl⟩, ?_⟩
  · intro hnil
    have := congrArg List.length hnil
    simp only [List.length_take, List.length_nil] at this
    omega
  · simp only [List.length_take]; omega
  · unfold satisfiesTargetValue at h4
    simp only [Bool.or_eq_true, beq_iff_eq, decide_eq_true_eq] at h4
    exact h4

/-! ## the min-priority selector with both sorts as parameters -/

/-- `loopI` with the inner `MinNumberCoinSelector`'s sort as a parameter -/
def loopIWith (srtV : List Coin → List Coin) (rec : Rec) (maxInputs minChange minAvg target : Int)
    (possible : List Coin) (cutoff : Nat) : Nat → Nat → Option CS
  | 0, _ => none
  | k+1, i =>
    if i ≥ possible.length then none else
    let lows := possible.take cutoff
    let highs := (possible.drop cutoff).take (i + 1 - cutoff)
    match minNumberWith srtV maxInputs minChange target highs with
    | some hs => some (extend maxInputs minChange minAvg target lows (CS.ofList hs.coins))
    | none =>
      match loopLow rec maxInputs minChange minAvg target cutoff i lows highs (cutoff + 1) 1 with
      | some r => some r
      | none => loopIWith srtV rec maxInputs minChange minAvg target possible cutoff k (i + 1)

/-- `minPriorityBody` with `sort.Sort(byValueAge(·))` = `srtVA` and the inner descending value sort = `srtV` -/
def minPriorityBodyWith (srtVA srtV : List Coin → List Coin) (rec : Rec)
    (maxInputs minChange minAvg target : Int) (coins : List Coin) : Option CS :=
  let possible := srtVA coins
  match possible.findIdx? (fun c => c.valueAge ≥ minAvg) with
  | none => none
  | some cutoff =>
    loopIWith srtV rec maxInputs minChange minAvg target possible cutoff (possible.length + 1) cutoff

/-- `MinPriorityCoinSelector.CoinSelect` with the two sorts as parameters -/
def minPriorityWith (srtVA srtV : List Coin → List Coin) : (fuel : Nat) → Rec
  | 0 => fun _ _ _ _ _ => none
  | fuel+1 => minPriorityBodyWith srtVA srtV (minPriorityWith srtVA srtV fuel)

theorem loopIWith_model (rec : Rec) (mi mc ma t : Int) (possible : List Coin) (cutoff k i : Nat) :
    loopIWith sortByValueDesc rec mi mc ma t possible cutoff k i = loopI rec mi mc ma t possible cutoff k i := by
  induction k generalizing i with
  | zero => rfl
  | succ k ih =>
    simp only [loopIWith, loopI, ih, minNumberWith_model]
    rfl

theorem minPriorityWith_model (fuel : Nat) :
    minPriorityWith sortByValueAgeAsc sortByValueDesc fuel = minPriority fuel := by
  induction fuel with
  | zero => rfl
  | succ n ih =>
    funext mi mc ma t coins
    simp only [minPriorityWith, minPriority, minPriorityBodyWith, minPriorityBody, ih, loopIWith_model]
    rfl

/-- `loopI_ok` for any inner sort that returns a permutation of its input -/
theorem loopIWith_ok (srtV : List Coin → List Coin) (hV : ∀ l, (srtV l).Perm l)
    (rec : Rec) (hrec : RecOK rec) (mi mc ma t : Int) (possible coins : List Coin)
    (cutoff : Nat) (hperm : possible.Perm coins)
    (hhigh : ∀ c ∈ possible.drop cutoff, ma ≤ c.valueAge)
    (k i : Nat) (hci : cutoff ≤ i) (cs : CS)
    (h : loopIWith srtV rec mi mc ma t possible cutoff k i = some cs) : Good mi mc ma t coins cs := by
  induction k generalizing i with
  | zero => simp [loopIWith] at h
  | succ k ih =>
    simp only [loopIWith] at h
    split at h
    · cases h
    · have hhsub : ((possible.drop cutoff).take (i + 1 - cutoff)).Sublist (possible.drop cutoff) :=
        List.take_sublist _ _
      have hhigh' : ∀ c ∈ (possible.drop cutoff).take (i + 1 - cutoff), ma ≤ c.valueAge :=
        fun c hc => hhigh c (hhsub.subset hc)
      have hsplit : SubMultiset ((possible.drop cutoff).take (i + 1 - cutoff) ++ possible.take cutoff) coins := by
        refine SubMultiset.of_sublist_perm (hhsub.append (List.Sublist.refl _)) ?_
        refine List.perm_append_comm.trans ?_
        rw [List.take_append_drop]
        exact hperm
      split at h
      · rename_i hs hmn
        injection h with h
        unfold minNumberWith at hmn
        obtain ⟨kk, hfirst, hhs⟩ := (minIndex_some_iff _ _ _ _ _).1 hmn
        subst hhs
        simp only at h
        rw [ofList_eq] at h
        obtain ⟨hk1, hk2, hk3, hk4, _⟩ := hfirst
        have hsel : SubMultiset ((srtV ((possible.drop cutoff).take (i + 1 - cutoff))).take kk)
            ((possible.drop cutoff).take (i + 1 - cutoff)) :=
          SubMultiset.of_sublist_perm (List.take_sublist _ _) (hV _)
        have hlen : (((srtV ((possible.drop cutoff).take (i + 1 - cutoff))).take kk).length : Int)
            ≤ mi := by
          rw [List.length_take]; omega
        have hb := extend_basic mi mc ma t coins (possible.take cutoff)
          ⟨_, sumV ((srtV ((possible.drop cutoff).take (i + 1 - cutoff))).take kk),
            sumVA ((srtV ((possible.drop cutoff).take (i + 1 - cutoff))).take kk)⟩
          ⟨rfl, rfl⟩ hlen hk4 ((hsel.append (SubMultiset.refl _)).trans hsplit)
        rw [h] at hb
        refine ⟨hb.2.2.2, hb.2.1, hb.1, hb.2.2.1, ?_⟩
        intro hnn
        have hselhigh : ∀ c ∈ (srtV ((possible.drop cutoff).take (i + 1 - cutoff))).take kk,
            ma ≤ c.valueAge := fun c hc => hhigh' c (hsel.subset c hc)
        have hselnn : ∀ c ∈ (srtV ((possible.drop cutoff).take (i + 1 - cutoff))).take kk,
            0 ≤ c.valueAge :=
          fun c hc => hnn c (hsplit.subset c (List.mem_append_left _ (hsel.subset c hc)))
        have hlnn : ∀ c ∈ possible.take cutoff, 0 ≤ c.valueAge :=
          fun c hc => hnn c (hsplit.subset c (List.mem_append_right _ hc))
        have h0 := sumVA_ge _ 0 hselnn
        have ha := extend_avg mi mc ma t (possible.take cutoff)
          ⟨_, sumV ((srtV ((possible.drop cutoff).take (i + 1 - cutoff))).take kk),
            sumVA ((srtV ((possible.drop cutoff).take (i + 1 - cutoff))).take kk)⟩
          hlnn (by simp only; omega) (sumVA_ge _ ma hselhigh)
        rw [h] at ha
        exact ha.2
      · split at h
        · rename_i r hr
          injection h with h
          subst h
          exact loopLow_ok rec hrec mi mc ma t cutoff i _ _ coins hci (List.length_take_le _ _) hhigh'
            hsplit _ 1 (Nat.le_refl _) _ hr
        · exact ih (i + 1) (by omega) h

/-- one level is sound for any ascending value-age sort and any permuting inner sort -/
theorem minPriorityBodyWith_ok (srtVA srtV : List Coin → List Coin) (hVA : SortsAscBy Coin.valueAge srtVA)
    (hV : ∀ l, (srtV l).Perm l) (rec : Rec) (hrec : RecOK rec) :
    RecOK (minPriorityBodyWith srtVA srtV rec) := by
  intro mi mc ma t coins cs h
  unfold minPriorityBodyWith at h
  simp only at h
  split at h
  · cases h
  · rename_i cutoff hcut
    refine loopIWith_ok srtV hV rec hrec mi mc ma t _ coins cutoff (hVA coins).1 ?_ _ _
      (Nat.le_refl _) cs h
    obtain ⟨hlt, hp, _⟩ := List.findIdx?_eq_some_iff_getElem.1 hcut
    have hp' : ma ≤ (srtVA coins)[cutoff].valueAge := by simpa using hp
    have hsorted := (hVA coins).2.sublist (List.drop_sublist cutoff _)
    rw [List.drop_eq_getElem_cons hlt, List.pairwise_cons] at hsorted
    intro c hc
    rw [List.drop_eq_getElem_cons hlt] at hc
    rcases List.mem_cons.1 hc with rfl | hc
    · exact hp'
    · have := hsorted.1 c hc; omega

theorem minPriorityWith_ok (srtVA srtV : List Coin → List Coin) (hVA : SortsAscBy Coin.valueAge srtVA)
    (hV : ∀ l, (srtV l).Perm l) (fuel : Nat) : RecOK (minPriorityWith srtVA srtV fuel) := by
  induction fuel with
  | zero => intro mi mc ma t coins cs h; simp [minPriorityWith] at h
  | succ n ih => exact minPriorityBodyWith_ok srtVA srtV hVA hV _ ih

end Bch.Proofs.CoinSetAnySort
