import Bch.Proofs.HDKey
import Bch.Proofs.Address
/-!
Helper definitions and lemmas for the derived-address clause of C04 and the accessors
`ECPubKey` / `ECPrivKey` of /repo/hdkeychain/extendedkey.go.

`Bch/Model/HDKey.lean` models `pubKeyBytes` but not the three methods

```go
func (k *ExtendedKey) ECPubKey() (*bchec.PublicKey, error) { return bchec.ParsePubKey(k.pubKeyBytes(), bchec.S256()) }
func (k *ExtendedKey) ECPrivKey() (*bchec.PrivateKey, error) {
	if !k.isPrivate { return nil, ErrNotPrivExtKey }
	privKey, _ := bchec.PrivKeyFromBytes(bchec.S256(), k.key)   // D = SetBytes(key), (X,Y) = ScalarBaseMult(key)
	return privKey, nil }
func (k *ExtendedKey) Address(net *chaincfg.Params) (*bchutil.AddressPubKeyHash, error) {
	pkHash := bchutil.Hash160(k.pubKeyBytes())
	return bchutil.NewAddressPubKeyHash(pkHash, net) }
```

so they are transcribed here, on top of the model's `pubKeyBytes` and of `Address.newPkh`
(the model of `NewAddressPubKeyHash`). The string the driver `Bch/Drive/C04.lean` (`addrOf`) compares
with the implementation is `CashAddr.checkEncodeCashAddress ((X.hash160 (pubKeyBytes X k)).take 20)
net.cashPrefix 0`; `addressString_eq_driver` shows (by `rfl`) that this is the `EncodeAddress` of
`addressOf`.
-/
namespace Bch.Proofs.HDKeyAddr
open Bch Bch.Model Bch.Model.HDKey Bch.Spec.BIP32 Bch.Proofs.HDKey Bytes

variable {Pt : Type} {X : HDExt Pt}

/-- `(*ExtendedKey).Address(net)`: `NewAddressPubKeyHash(Hash160(k.pubKeyBytes()), net)` -/
def addressOf (X : HDExt Pt) (k : XKey) (net : Address.Net) : Except Address.Err Address.Addr :=
  Address.newPkh (X.hash160 (pubKeyBytes X k)) net.cashPrefix

/-- `(*ExtendedKey).ECPubKey()`: `ParsePubKey(k.pubKeyBytes())` (a parse failure is an error) -/
def ecPubKeyOf (X : HDExt Pt) (k : XKey) : Except Err Pt :=
  match X.parse (pubKeyBytes X k) with
  | none => .error .other
  | some P => .ok P

/-- `(*ExtendedKey).ECPrivKey()`: the scalar `D = SetBytes(k.key)` together with the embedded public key
`ScalarBaseMult(k.key)` (`none` = the point at infinity), or `ErrNotPrivExtKey` -/
def ecPrivKeyOf (X : HDExt Pt) (k : XKey) : Except Err (Nat × Option Pt) :=
  if !k.isPrivate then .error .notPrivExtKey
  else .ok (toNatBE k.key, X.mulG (toNatBE k.key))

/-- the string form of the derived address (`addr.EncodeAddress()` / `addr.String()`); `""` stands for an
`Address` error, which never happens (`addressOf_ok`) -/
def addressString (X : HDExt Pt) (A : Address.Ext) (k : XKey) (net : Address.Net) : Bytes :=
  match addressOf X k net with
  | .ok a => Address.EncodeAddress A a
  | .error _ => []

/-- BIP32 / CashAddr level: the P2PKH address of the public point `K` -/
def specAddress (X : HDExt Pt) (K : Pt) (net : Address.Net) : Address.Addr :=
  .pkh (X.hash160 (X.serC K)) net.cashPrefix

/-- `Address` never fails: `Hash160` yields 20 bytes. -/
theorem addressOf_ok (L : GroupLaws X) (k : XKey) (net : Address.Net) :
    addressOf X k net = .ok (.pkh (X.hash160 (pubKeyBytes X k)) net.cashPrefix) := by
  unfold addressOf Address.newPkh
  rw [if_neg (by rw [L.hash160_len]; decide)]

/-- what the driver evaluates (`Bch.Drive.C04.addrOf`, with `X` the real pack) is the string of `addressOf` -/
theorem addressString_eq_driver (L : GroupLaws X) (A : Address.Ext) (k : XKey) (net : Address.Net) :
    addressString X A k net =
      CashAddr.checkEncodeCashAddress ((X.hash160 (pubKeyBytes X k)).take 20) net.cashPrefix 0 := by
  unfold addressString
  rw [addressOf_ok L]
  rfl

theorem addressOf_abs (L : GroupLaws X) {k : XKey} (hwf : WF X k) {s : SKey Pt} (habs : abs X k = some s)
    (net : Address.Net) : addressOf X k net = .ok (specAddress X s.pub net) := by
  rw [addressOf_ok L, pubKeyBytes_abs hwf habs]; rfl

/-- the neutered key has the same public key bytes (no hypothesis at all) -/
theorem pubKeyBytes_neuter {k nk : XKey} (hn : Neuter X k = .ok nk) :
    pubKeyBytes X nk = pubKeyBytes X k := by
  cases hp : k.isPrivate with
  | false =>
    unfold Neuter at hn
    simp only [hp, Bool.not_false, if_true] at hn
    cases hn; rfl
  | true =>
    obtain ⟨v, _, rfl⟩ := neuter_eq hp hn
    exact pubKeyBytes_pub rfl

theorem addressOf_neuter {k nk : XKey} (hn : Neuter X k = .ok nk) (net : Address.Net) :
    addressOf X nk net = addressOf X k net := by
  unfold addressOf; rw [pubKeyBytes_neuter hn]

theorem ecPubKeyOf_neuter {k nk : XKey} (hn : Neuter X k = .ok nk) :
    ecPubKeyOf X nk = ecPubKeyOf X k := by
  unfold ecPubKeyOf; rw [pubKeyBytes_neuter hn]

theorem ecPubKeyOf_abs (L : GroupLaws X) {k : XKey} (hwf : WF X k) {s : SKey Pt} (habs : abs X k = some s) :
    ecPubKeyOf X k = .ok s.pub := by
  unfold ecPubKeyOf
  rw [pubKeyBytes_abs hwf habs, L.parse_serC]

theorem ecPrivKeyOf_priv {k : XKey} (hp : k.isPrivate = true) {s : SKey Pt} (habs : abs X k = some s) :
    s.priv = some (toNatBE k.key) ∧ ecPrivKeyOf X k = .ok (toNatBE k.key, some s.pub) := by
  obtain ⟨K, hK, rfl⟩ := abs_priv hp habs
  refine ⟨rfl, ?_⟩
  unfold ecPrivKeyOf
  simp only [hp, Bool.not_true, Bool.false_eq_true, if_false, hK]

theorem ecPrivKeyOf_pub {k : XKey} (hp : k.isPrivate = false) : ecPrivKeyOf X k = .error .notPrivExtKey := by
  unfold ecPrivKeyOf
  simp only [hp, Bool.not_false, if_true]

/-- a key that denotes a spec key has a scalar that is not ≡ 0 mod n -/
theorem key_nz_of_abs (L : GroupLaws X) {k : XKey} (hp : k.isPrivate = true) {s : SKey Pt}
    (habs : abs X k = some s) : toNatBE k.key % X.n ≠ 0 := by
  obtain ⟨K, hK, _⟩ := abs_priv hp habs
  intro h0
  rw [(L.mulG_none _).2 h0] at hK
  cases hK

/-- `Child` keeps the private/public flag -/
theorem child_isPrivate (L : GroupLaws X) {k : XKey} (hwf : WF X k) {i : Nat} {c : XKey}
    (hc : Child X k i = .ok c) : c.isPrivate = k.isPrivate :=
  (child_lens L hwf hc).2.2.2.2.2.2.1

/-- **Neutering commutes with non-hardened derivation along a whole path**: deriving `p` (all indices
`< 2^31`) from the neutered key succeeds and yields the neutering of the privately derived key. -/
theorem neuter_path (L : GroupLaws X) (p : List Nat) (hp31 : ∀ i ∈ p, i < 2 ^ 31) {k : XKey} (hwf : WF X k)
    (hp : k.isPrivate = true) {s : SKey Pt} (habs : abs X k = some s) {k' : XKey}
    (hc : derivePath X k p = .ok k') (hnd : NonDegPath X s p) {nk : XKey} (hn : Neuter X k = .ok nk) :
    ∃ nk', derivePath X nk p = .ok nk' ∧ Neuter X k' = .ok nk' := by
  induction p generalizing k s nk with
  | nil => cases hc; exact ⟨nk, rfl, hn⟩
  | cons i p ih =>
    unfold derivePath at hc
    split at hc
    · cases hc
    · rename_i k1 hk1
      obtain ⟨s1, hs1, ha1, hw1⟩ := refines_step L hwf habs hk1 hnd.1
      have hi : i < 2 ^ 31 := hp31 i (by simp)
      obtain ⟨nc, hnc, hcn⟩ := neuter_commutes L hp (key_nz_of_abs L hp habs) hi hk1 hn
      have hp1 : k1.isPrivate = true := by rw [child_isPrivate L hwf hk1]; exact hp
      obtain ⟨nk', h1, h2⟩ := ih (fun j hj => hp31 j (by simp [hj])) hw1 hp1 ha1 hc (hnd.2 s1 hs1) hnc
      exact ⟨nk', by simp only [derivePath, hcn, h1], h2⟩

/-- C01's round trip, specialised to P2PKH -/
theorem pkh_roundtrip (A : Address.Ext) {net : Address.Net} (hnet : net ∈ Address.nets) (h : Bytes)
    (hl : h.length = 20) :
    ∀ r ∈ Bch.Proofs.Address.renderings net.cashPrefix (Address.EncodeAddress A (.pkh h net.cashPrefix)),
      Address.DecodeAddress A r net = .ok (.pkh h net.cashPrefix) :=
  Bch.Proofs.Address.cash_roundtrip A net (Bch.Proofs.Address.nets_wf hnet) 0 0 h (Or.inl ⟨rfl, rfl, hl⟩)

/-! ### toy instance -/
namespace ToyAddr
open Bch.Proofs.HDKey.Toy

/-- the hash of the toy public key 3: the first 20 bytes of `02 00…03` -/
theorem hash_sPub : Toy.X.hash160 (Toy.X.serC sPriv.pub) = 2 :: List.replicate 19 0 := by decide +kernel

end ToyAddr

end Bch.Proofs.HDKeyAddr
