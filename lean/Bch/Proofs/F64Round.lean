import Bch.Proofs.F64Val
/-
  The single rounding step `roundScaled`: unfolding lemma, mantissa spec (round-half-even of the scaled
  value), and the float-level description of its result.
-/
namespace Bch.Proofs.F64
open Bch.Prim.F64

/-- exponent of the result's ulp -/
def rsU (M : Nat) (e : Int) : Int := max (e + (bitLen M : Int) - 53) (-1074)
def rsMant (M : Nat) (e : Int) (sticky : Bool) : Nat :=
  if rsU M e ≤ e then M <<< (e - rsU M e).toNat else rneMant M (rsU M e - e).toNat sticky
def rsBits (M : Nat) (e : Int) (sticky : Bool) : Nat :=
  (rsU M e + 1074).toNat * 4503599627370496 + rsMant M e sticky

theorem roundScaled_eq0 (sg : Bool) (M : Nat) (e : Int) (sticky : Bool) :
    roundScaled sg M e sticky =
      if M == 0 then signedZero sg else
      if e + (bitLen M : Int) > 1025 then signedInf sg
      else
        let r := if rsBits M e sticky ≥ 0x7FF0000000000000 then posInf else UInt64.ofNat (rsBits M e sticky)
        if sg then r ||| signMask else r := rfl

theorem roundScaled_eq (sg : Bool) (M : Nat) (e : Int) (sticky : Bool) (hM : M ≠ 0) :
    roundScaled sg M e sticky =
      if e + (bitLen M : Int) > 1025 then signedInf sg
      else if rsBits M e sticky ≥ 2047 * 2^52 then signedInf sg
      else if sg then UInt64.ofNat (rsBits M e sticky) ||| signMask else UInt64.ofNat (rsBits M e sticky) := by
  rw [roundScaled_eq0, if_neg (by simpa using hM)]
  by_cases h1 : e + (bitLen M : Int) > 1025
  · rw [if_pos h1, if_pos h1]
  · rw [if_neg h1, if_neg h1]
    by_cases h : rsBits M e sticky ≥ 2047 * 2^52
    · have h' : rsBits M e sticky ≥ 0x7FF0000000000000 := h
      simp only [if_pos h, if_pos h']
      cases sg
      · rfl
      · decide
    · have h' : ¬ rsBits M e sticky ≥ 0x7FF0000000000000 := h
      simp only [if_neg h, if_neg h']

theorem two_zpow_pos (e : Int) : (0:ℚ) < 2^e := by positivity

theorem rsU_ge (M : Nat) (e : Int) : -1074 ≤ rsU M e := by unfold rsU; omega

theorem rsMant_spec (M : Nat) (e : Int) (sticky : Bool) (hM : M ≠ 0) (q : ℚ)
    (hq1 : (M:ℚ) * 2^e ≤ q) (hq2 : q < ((M:ℚ) + 1) * 2^e) (hst : sticky = true ↔ q ≠ (M:ℚ) * 2^e)
    (hstk : sticky = true → (2^54 ≤ M ∨ e < -1074)) :
    |q - (rsMant M e sticky : ℚ) * 2^(rsU M e)| ≤ 2^(rsU M e) / 2 ∧
    (|q - (rsMant M e sticky : ℚ) * 2^(rsU M e)| = 2^(rsU M e) / 2 → rsMant M e sticky % 2 = 0) ∧
    rsMant M e sticky ≤ 2^53 ∧
    (-1074 < rsU M e → 2^52 ≤ rsMant M e sticky ∧ (2:ℚ)^52 * 2^(rsU M e) ≤ q) ∧
    (rsU M e ≤ e → q = (rsMant M e sticky : ℚ) * 2^(rsU M e)) := by
  obtain ⟨hbl0, hbl1, hbl2⟩ := bitLen_spec M hM
  have hU : rsU M e = max (e + (bitLen M : Int) - 53) (-1074) := rfl
  set bl := bitLen M with hbl
  set u := rsU M e with hu
  have h2e := two_zpow_pos e
  have h2u := two_zpow_pos u
  by_cases hue : u ≤ e
  · -- exact case
    have hmant : rsMant M e sticky = M * 2^(e - u).toNat := by
      unfold rsMant; rw [← hu, if_pos hue, Nat.shiftLeft_eq]
    set k := (e - u).toNat with hk
    have hek : e = u + (k : Int) := by omega
    have hns : sticky = false := by
      cases hs : sticky
      · rfl
      · exfalso
        rcases hstk hs with h | h
        · have : 2^54 < 2^bl := Nat.lt_of_le_of_lt h hbl2
          have := (Nat.pow_lt_pow_iff_right (by norm_num : 1 < 2)).mp this
          omega
        · omega
    have hqe : q = (M:ℚ) * 2^e := by
      by_contra hne
      have := hst.mpr hne
      rw [hns] at this; exact absurd this (by simp)
    have hqm : q = ((M * 2^k : Nat) : ℚ) * 2^u := by
      rw [hqe, hek, zpow_add₀ (by norm_num : (2:ℚ) ≠ 0), zpow_natCast]; push_cast; ring
    have hkb : k + bl ≤ 53 := by omega
    have hmlt : M * 2^k < 2^53 := by
      calc M * 2^k < 2^bl * 2^k := Nat.mul_lt_mul_of_pos_right hbl2 (Nat.pow_pos (by norm_num))
        _ = 2^(bl + k) := (Nat.pow_add 2 bl k).symm
        _ ≤ 2^53 := Nat.pow_le_pow_right (by norm_num) (by omega)
    rw [hmant, ← hqm]
    refine ⟨by simp; positivity, ?_, hmlt.le, ?_, fun _ => rfl⟩
    · intro h; simp at h; linarith
    · intro hnorm
      have hkb' : k + bl = 53 := by omega
      have hge : 2^52 ≤ M * 2^k := by
        calc 2^52 = 2^(bl - 1) * 2^k := by rw [← Nat.pow_add]; congr 1; omega
          _ ≤ M * 2^k := Nat.mul_le_mul_right _ hbl1
      refine ⟨hge, ?_⟩
      rw [hqm]
      have : ((2:ℚ)^52) ≤ ((M * 2^k : Nat) : ℚ) := by exact_mod_cast hge
      exact mul_le_mul_of_nonneg_right this h2u.le
  · -- rounding case
    have hue' : e < u := by omega
    have hmant : rsMant M e sticky = rneMant M (u - e).toNat sticky := by
      unfold rsMant; rw [← hu, if_neg hue]
    set sh := (u - e).toNat with hsh
    have hush : u = e + (sh : Int) := by omega
    have hsh1 : 1 ≤ sh := by omega
    have h2u' : (2:ℚ)^u = 2^e * 2^sh := by
      rw [hush, zpow_add₀ (by norm_num : (2:ℚ) ≠ 0), zpow_natCast]
    set x := q / 2^e with hx
    have hqx : q = x * 2^e := by rw [hx]; field_simp
    have hx1 : (M:ℚ) ≤ x := by rw [hx, le_div_iff₀ h2e]; exact hq1
    have hx2 : x < (M:ℚ) + 1 := by rw [hx, div_lt_iff₀ h2e]; exact hq2
    have hstx : sticky = true ↔ x ≠ (M:ℚ) := by
      rw [hst, hqx]
      constructor
      · intro h h'; exact h (by rw [h'])
      · intro h h'; exact h (mul_right_cancel₀ h2e.ne' h')
    obtain ⟨hr1, hr2⟩ := rneMant_spec M sh sticky hsh1 x hx1 hx2 hstx
    obtain ⟨hb1, hb2⟩ := rneMant_bounds M sh sticky
    rw [hmant]
    set mant := rneMant M sh sticky with hmdef
    have hdiff : q - (mant:ℚ) * 2^u = (x - (mant:ℚ) * 2^sh) * 2^e := by rw [hqx, h2u']; ring
    have habs : |q - (mant:ℚ) * 2^u| = |x - (mant:ℚ) * 2^sh| * 2^e := by
      rw [hdiff, abs_mul, abs_of_pos h2e]
    have hhalf : (2:ℚ)^u / 2 = (2:ℚ)^sh / 2 * 2^e := by rw [h2u']; ring
    rw [habs, hhalf]
    have hbsh : bl ≤ sh + 53 := by omega
    have hdivlt : M / 2^sh < 2^53 := by
      rw [Nat.div_lt_iff_lt_mul (Nat.pow_pos (by norm_num))]
      calc M < 2^bl := hbl2
        _ ≤ 2^(53 + sh) := Nat.pow_le_pow_right (by norm_num) (by omega)
        _ = 2^53 * 2^sh := Nat.pow_add 2 53 sh
    refine ⟨mul_le_mul_of_nonneg_right hr1 h2e.le, ?_, by omega, ?_, fun h => absurd h hue⟩
    · intro h
      exact hr2 (mul_right_cancel₀ h2e.ne' h)
    · intro hnorm
      have hbsh' : bl = sh + 53 := by omega
      have hge : 2^52 ≤ M / 2^sh := by
        rw [Nat.le_div_iff_mul_le (Nat.pow_pos (by norm_num))]
        calc 2^52 * 2^sh = 2^(bl - 1) := by rw [← Nat.pow_add]; congr 1; omega
          _ ≤ M := hbl1
      refine ⟨by omega, ?_⟩
      have h1 : (2:ℚ)^52 * 2^u = ((2^(bl-1) : Nat) : ℚ) * 2^e := by
        rw [h2u']; push_cast
        have : bl - 1 = 52 + sh := by omega
        rw [this, pow_add]; ring
      rw [h1]
      have : ((2^(bl-1) : Nat) : ℚ) ≤ (M:ℚ) := by exact_mod_cast hbl1
      exact le_trans (mul_le_mul_of_nonneg_right this h2e.le) hq1


theorem isFinite_signedInf (sg : Bool) : isFinite (signedInf sg) = false := by
  cases sg <;> decide

theorem toNat_withSign (sg : Bool) (bits : Nat) (hb : bits < 2^63) :
    (if sg then UInt64.ofNat bits ||| signMask else UInt64.ofNat bits).toNat =
      (if sg then 1 else 0) * 2^63 + bits := by
  have h1 : (UInt64.ofNat bits).toNat = bits := by
    rw [UInt64.toNat_ofNat']; exact Nat.mod_eq_of_lt (by omega)
  cases sg
  · simp [h1]
  · simp only [if_true, UInt64.toNat_or, h1]
    show bits ||| 2^63 = _
    rw [Nat.or_two_pow_eq_add_of_lt hb]; omega

theorem absval_of_decodeAbs (x : UInt64) (m e' mant E : Nat) (h : decodeAbs x = (m, (e' : Int) - 1074))
    (hm : m * 2^e' = mant * 2^E) : absval x = (mant : ℚ) * 2^((E : Int) - 1074) := by
  unfold absval
  rw [h]
  simp only
  rw [zpow_sub₀ (by norm_num : (2:ℚ) ≠ 0), zpow_sub₀ (by norm_num : (2:ℚ) ≠ 0), zpow_natCast, zpow_natCast]
  have : (m:ℚ) * 2^e' = (mant:ℚ) * 2^E := by exact_mod_cast hm
  rw [← mul_div_assoc, ← mul_div_assoc, this]

/-- when neither overflow test fires, the result is the assembled finite pattern -/
theorem roundScaled_finite_branch (sg : Bool) (M : Nat) (e : Int) (sticky : Bool) (hM : M ≠ 0) (q : ℚ)
    (hq1 : (M:ℚ) * 2^e ≤ q) (hq2 : q < ((M:ℚ) + 1) * 2^e) (hst : sticky = true ↔ q ≠ (M:ℚ) * 2^e)
    (hstk : sticky = true → (2^54 ≤ M ∨ e < -1074))
    (hov : ¬ e + (bitLen M : Int) > 1025) (hb : ¬ rsBits M e sticky ≥ 2047 * 2^52) :
    isFinite (roundScaled sg M e sticky) = true ∧
    isNeg (roundScaled sg M e sticky) = sg ∧
    absval (roundScaled sg M e sticky) = (rsMant M e sticky : ℚ) * 2^(rsU M e) ∧
    (roundScaled sg M e sticky).toNat % 2 = rsMant M e sticky % 2 := by
  obtain ⟨_, _, hm53, hnorm, _⟩ := rsMant_spec M e sticky hM q hq1 hq2 hst hstk
  have hUge := rsU_ge M e
  have hBits : rsBits M e sticky = (rsU M e + 1074).toNat * 2^52 + rsMant M e sticky := rfl
  rw [roundScaled_eq sg M e sticky hM, if_neg hov, if_neg hb]
  set x := (if sg then UInt64.ofNat (rsBits M e sticky) ||| signMask else UInt64.ofNat (rsBits M e sticky)) with hx
  have hxn : x.toNat = (if sg then 1 else 0) * 2^63 + (rsU M e + 1074).toNat * 2^52 + rsMant M e sticky := by
    rw [hx, toNat_withSign sg _ (by omega), hBits]; omega
  have hsub : rsMant M e sticky < 2^52 → (rsU M e + 1074).toNat = 0 := by
    intro h
    by_contra hne
    have := (hnorm (by omega)).1
    omega
  obtain ⟨hs, hex, m, e', hdec, hme, _, _⟩ :=
    fields_of_pack x (if sg then 1 else 0) (rsU M e + 1074).toNat (rsMant M e sticky)
      (by cases sg <;> simp) hxn hm53 hsub (by omega)
  refine ⟨(isFinite_iff x).mpr hex, ?_, ?_, by rw [hxn]; omega⟩
  · rw [Bool.eq_iff_iff, isNeg_iff, hs]; cases sg <;> simp
  · rw [absval_of_decodeAbs x m e' _ _ hdec hme]
    congr 2; omega

/-- a `roundScaled` result is finite or the infinity of its sign -/
theorem roundScaled_finite_or_inf (sg : Bool) (M : Nat) (e : Int) (sticky : Bool) (hM : M ≠ 0) (q : ℚ)
    (hq1 : (M:ℚ) * 2^e ≤ q) (hq2 : q < ((M:ℚ) + 1) * 2^e) (hst : sticky = true ↔ q ≠ (M:ℚ) * 2^e)
    (hstk : sticky = true → (2^54 ≤ M ∨ e < -1074)) :
    isFinite (roundScaled sg M e sticky) = true ∨ roundScaled sg M e sticky = signedInf sg := by
  by_cases hov : e + (bitLen M : Int) > 1025
  · right; rw [roundScaled_eq sg M e sticky hM, if_pos hov]
  · by_cases hb : rsBits M e sticky ≥ 2047 * 2^52
    · right; rw [roundScaled_eq sg M e sticky hM, if_neg hov, if_pos hb]
    · left; exact (roundScaled_finite_branch sg M e sticky hM q hq1 hq2 hst hstk hov hb).1

theorem roundScaled_spec (sg : Bool) (M : Nat) (e : Int) (sticky : Bool) (hM : M ≠ 0) (q : ℚ)
    (hq1 : (M:ℚ) * 2^e ≤ q) (hq2 : q < ((M:ℚ) + 1) * 2^e) (hst : sticky = true ↔ q ≠ (M:ℚ) * 2^e)
    (hstk : sticky = true → (2^54 ≤ M ∨ e < -1074)) :
    (q < 2^1023 → isFinite (roundScaled sg M e sticky) = true) ∧
    (isFinite (roundScaled sg M e sticky) = true →
      isNeg (roundScaled sg M e sticky) = sg ∧
      absval (roundScaled sg M e sticky) = (rsMant M e sticky : ℚ) * 2^(rsU M e) ∧
      (roundScaled sg M e sticky).toNat % 2 = rsMant M e sticky % 2) := by
  obtain ⟨_, _, hm53, hnorm, _⟩ := rsMant_spec M e sticky hM q hq1 hq2 hst hstk
  obtain ⟨hbl0, hbl1, hbl2⟩ := bitLen_spec M hM
  have hUge := rsU_ge M e
  have hU : rsU M e = max (e + (bitLen M : Int) - 53) (-1074) := rfl
  have hBits : rsBits M e sticky = (rsU M e + 1074).toNat * 2^52 + rsMant M e sticky := rfl
  have key := roundScaled_finite_branch sg M e sticky hM q hq1 hq2 hst hstk
  constructor
  · intro hq
    have h2e := two_zpow_pos e
    have h1 : ((2^(bitLen M - 1) : Nat) : ℚ) * 2^e < 2^1023 := by
      have : ((2^(bitLen M - 1) : Nat) : ℚ) ≤ (M:ℚ) := by exact_mod_cast hbl1
      exact lt_of_le_of_lt (le_trans (mul_le_mul_of_nonneg_right this h2e.le) hq1) hq
    have h2 : (2:ℚ)^(((bitLen M - 1 : Nat) : Int) + e) < 2^(1023 : Int) := by
      rw [zpow_add₀ (by norm_num : (2:ℚ) ≠ 0), zpow_natCast]
      have : (2:ℚ)^(1023:Int) = 2^1023 := by norm_num
      rw [this]; exact_mod_cast h1
    have h3 := (zpow_lt_zpow_iff_right₀ (by norm_num : (1:ℚ) < 2)).mp h2
    have hov : ¬ e + (bitLen M : Int) > 1025 := by omega
    have hb : ¬ rsBits M e sticky ≥ 2047 * 2^52 := by
      rw [hBits]
      have : (rsU M e + 1074).toNat ≤ 2044 := by omega
      omega
    exact (key hov hb).1
  · intro hfin
    have hov : ¬ e + (bitLen M : Int) > 1025 := by
      intro h
      rw [roundScaled_eq sg M e sticky hM, if_pos h, isFinite_signedInf] at hfin
      exact absurd hfin (by simp)
    have hb : ¬ rsBits M e sticky ≥ 2047 * 2^52 := by
      intro h
      rw [roundScaled_eq sg M e sticky hM, if_neg hov, if_pos h, isFinite_signedInf] at hfin
      exact absurd hfin (by simp)
    exact (key hov hb).2

end Bch.Proofs.F64
