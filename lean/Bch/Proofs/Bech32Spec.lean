import Bch.Proofs.Bech32
import Bch.Spec.Bech32Spec
/-
The model of `/repo/bech32/bech32.go` (`Bch.Model.Bech32`: GEN table, 30-bit register) computes what the
BIP173 transcription `Bch.Spec.Bech32` (GF(32), generator polynomial, polynomial remainder) defines.
Helper lemmas for `Bch/Props/C07Spec.lean`.
-/
namespace Bch.Proofs.Bech32Spec
open Bch Bch.Model.Bech32 Bch.Proofs.Bech32
open Bch.Spec.Bech32 (Poly pack polyRem remStep scale addPoly gfMul gfAdd generator coeff mulCoeff)

/-! ## 1. packing 5-bit coefficients into a number is XOR-linear -/

theorem xor_mul32 (x y c d : Nat) (hc : c < 32) (hd : d < 32) :
    (x * 32 + c) ^^^ (y * 32 + d) = (x ^^^ y) * 32 + (c ^^^ d) := by
  have hcd : c ^^^ d < 32 := Nat.xor_lt_two_pow (n := 5) hc hd
  rw [← shl5_xor x c hc, ← shl5_xor y d hd, ← shl5_xor (x ^^^ y) (c ^^^ d) hcd,
    Nat.shiftLeft_xor_distrib]
  ac_rfl

theorem foldl_pack_xor : ∀ (a b : List Nat) (x y : Nat), a.length = b.length →
    (∀ c ∈ a, c < 32) → (∀ d ∈ b, d < 32) →
    a.foldl (fun n c => n * 32 + c) x ^^^ b.foldl (fun n c => n * 32 + c) y =
      (List.zipWith gfAdd a b).foldl (fun n c => n * 32 + c) (x ^^^ y) := by
  intro a
  induction a with
  | nil => intro b x y hl _ _; cases b with
    | nil => rfl
    | cons _ _ => cases hl
  | cons c a ih =>
    intro b x y hl ha hb
    cases b with
    | nil => cases hl
    | cons d b =>
      simp only [List.foldl_cons, List.zipWith_cons_cons]
      rw [ih b _ _ (by simpa using hl) (fun z hz => ha z (by simp [hz]))
        (fun z hz => hb z (by simp [hz])), xor_mul32 x y c d (ha c (by simp)) (hb d (by simp))]
      rfl

theorem pack_xor (a b : Poly) (hl : a.length = b.length) (ha : ∀ c ∈ a, c < 32)
    (hb : ∀ d ∈ b, d < 32) : pack a ^^^ pack b = pack (addPoly a b) := by
  have := foldl_pack_xor a b 0 0 hl ha hb
  simpa [pack, addPoly] using this

theorem addPoly_lt : ∀ (a b : Poly), (∀ c ∈ a, c < 32) → (∀ d ∈ b, d < 32) →
    ∀ e ∈ addPoly a b, e < 32 := by
  intro a
  induction a with
  | nil => intro b _ _ e he; simp [addPoly] at he
  | cons c a ih =>
    intro b ha hb e he
    cases b with
    | nil => simp [addPoly] at he
    | cons d b =>
      simp only [addPoly, List.zipWith_cons_cons, List.mem_cons] at he
      rcases he with rfl | he
      · exact Nat.xor_lt_two_pow (n := 5) (ha c (by simp)) (hb d (by simp))
      · exact ih b (fun z hz => ha z (by simp [hz])) (fun z hz => hb z (by simp [hz])) e he

/-! ## 2. the GEN table is multiplication of `g(x) − x^6` by a field element -/

/-- finite check (32 cases): xor-ing the table entries selected by the bits of `b` gives the packed
coefficients of `b · (g(x) − x^6)`, and these coefficients are field elements -/
theorem G_table : ∀ b : Fin 32, G b.val = pack (scale b.val generator.tail) ∧
    ∀ k ∈ scale b.val generator.tail, k < 32 := by decide +kernel

theorem G_eq_scale (b : Nat) (hb : b < 32) : G b = pack (scale b generator.tail) :=
  (G_table ⟨b, hb⟩).1

theorem scale_lt (b : Nat) (hb : b < 32) : ∀ k ∈ scale b generator.tail, k < 32 :=
  (G_table ⟨b, hb⟩).2

/-- the five constants are the packed remainders of `a^i · x^6` modulo `g(x)` -/
theorem gen_table : gen = (List.range 5).map fun i => pack (polyRem [2 ^ i, 0, 0, 0, 0, 0, 0]) := by
  decide +kernel

/-! ## 3. one step of the table-driven loop = multiply by `x`, add the next value, reduce -/

theorem step_spec (r : Poly) (v : Nat) (hl : r.length = 6) (hr : ∀ c ∈ r, c < 32) (hv : v < 32) :
    polymodStep (pack r) v = pack (remStep r v) ∧ (remStep r v).length = 6 ∧
      ∀ c ∈ remStep r v, c < 32 := by
  match r, hl with
  | [r5, r4, r3, r2, r1, r0], _ =>
    have h5 : r5 < 32 := hr r5 (by simp)
    have h4 : r4 < 32 := hr r4 (by simp)
    have h3 : r3 < 32 := hr r3 (by simp)
    have h2 : r2 < 32 := hr r2 (by simp)
    have h1 : r1 < 32 := hr r1 (by simp)
    have h0 : r0 < 32 := hr r0 (by simp)
    have hshift : ∀ c ∈ [r4, r3, r2, r1, r0, v], c < 32 := by
      intro c hc
      simp only [List.mem_cons, List.not_mem_nil, or_false] at hc
      rcases hc with rfl | rfl | rfl | rfl | rfl | rfl <;> assumption
    have hrem : remStep [r5, r4, r3, r2, r1, r0] v =
        addPoly [r4, r3, r2, r1, r0, v] (scale r5 generator.tail) := rfl
    have hsl : (scale r5 generator.tail).length = 6 := by simp [scale, generator]
    refine ⟨?_, ?_, ?_⟩
    · rw [polymodStep_eq]
      have hp : pack [r5, r4, r3, r2, r1, r0] =
          ((((r5 * 32 + r4) * 32 + r3) * 32 + r2) * 32 + r1) * 32 + r0 := by simp [pack]
      have hs : pack [r5, r4, r3, r2, r1, r0] >>> 25 = r5 := by
        rw [hp, Nat.shiftRight_eq_div_pow]; omega
      have hlo : pack [r5, r4, r3, r2, r1, r0] &&& 0x1ffffff =
          (((r4 * 32 + r3) * 32 + r2) * 32 + r1) * 32 + r0 := by
        rw [hp, Nat.and_two_pow_sub_one_eq_mod _ 25]; omega
      have hp' : pack [r4, r3, r2, r1, r0, v] =
          ((((r4 * 32 + r3) * 32 + r2) * 32 + r1) * 32 + r0) * 32 + v := by simp [pack]
      rw [hs, hlo, shl5_xor _ v hv, G_eq_scale r5 h5, ← hp', hrem,
        pack_xor _ _ (by simp [hsl]) hshift (scale_lt r5 h5)]
    · rw [hrem]; simp [addPoly, hsl]
    · rw [hrem]; exact addPoly_lt _ _ hshift (scale_lt r5 h5)

theorem fold_spec (vs : List Nat) (hvs : ∀ v ∈ vs, v < 32) : ∀ (r : Poly), r.length = 6 →
    (∀ c ∈ r, c < 32) →
    vs.foldl polymodStep (pack r) = pack (vs.foldl remStep r) ∧ (vs.foldl remStep r).length = 6 ∧
      ∀ c ∈ vs.foldl remStep r, c < 32 := by
  induction vs with
  | nil => intro r hl hr; exact ⟨rfl, hl, hr⟩
  | cons v vs ih =>
    intro r hl hr
    obtain ⟨h1, h2, h3⟩ := step_spec r v hl hr (hvs v (by simp))
    simp only [List.foldl_cons]
    rw [h1]
    exact ih (fun x hx => hvs x (by simp [hx])) _ h2 h3

theorem polyRem_one_cons (vs : List Nat) :
    polyRem (1 :: vs) = vs.foldl remStep [0, 0, 0, 0, 0, 1] := by
  have : remStep [0, 0, 0, 0, 0, 0] 1 = [0, 0, 0, 0, 0, 1] := by decide +kernel
  simp only [polyRem, List.foldl_cons, this]

/-- **the model's `polymod` is the packed polynomial remainder** -/
theorem polymod_spec (vs : List Nat) (hvs : ∀ v ∈ vs, v < 32) :
    polymod vs = Spec.Bech32.polymod vs := by
  have h := (fold_spec vs hvs [0, 0, 0, 0, 0, 1] rfl (by decide)).1
  rw [Spec.Bech32.polymod, polyRem_one_cons, ← h]
  rfl

theorem polyRem_one_cons_shape (vs : List Nat) (hvs : ∀ v ∈ vs, v < 32) :
    (polyRem (1 :: vs)).length = 6 ∧ ∀ c ∈ polyRem (1 :: vs), c < 32 := by
  rw [polyRem_one_cons]
  exact (fold_spec vs hvs [0, 0, 0, 0, 0, 1] rfl (by decide)).2

/-! ## 4. the checksum values -/

theorem digits6_pack (r : Poly) (hl : r.length = 6) (hr : ∀ c ∈ r, c < 32) : digits6 (pack r) = r := by
  match r, hl with
  | [r5, r4, r3, r2, r1, r0], _ =>
    have h5 : r5 < 32 := hr r5 (by simp)
    have h4 : r4 < 32 := hr r4 (by simp)
    have h3 : r3 < 32 := hr r3 (by simp)
    have h2 : r2 < 32 := hr r2 (by simp)
    have h1 : r1 < 32 := hr r1 (by simp)
    have h0 : r0 < 32 := hr r0 (by simp)
    have hp : pack [r5, r4, r3, r2, r1, r0] =
        ((((r5 * 32 + r4) * 32 + r3) * 32 + r2) * 32 + r1) * 32 + r0 := by simp [pack]
    rw [digits6_eq, hp]
    simp only [List.cons.injEq, and_true]
    omega

theorem hrpExpand_eq (hrp : Bytes) : hrpExpand hrp = Spec.Bech32.hrpExpand hrp := by
  have h31 : ∀ x, x &&& 31 = x % 32 := fun x => Nat.and_two_pow_sub_one_eq_mod x 5
  simp [hrpExpand, Spec.Bech32.hrpExpand, Nat.shiftRight_eq_div_pow, h31]

theorem hrpExpand_lt (hrp : Bytes) : ∀ v ∈ Spec.Bech32.hrpExpand hrp, v < 32 := by
  intro v hv
  simp only [Spec.Bech32.hrpExpand, List.mem_append, List.mem_map, List.mem_cons,
    List.not_mem_nil, or_false] at hv
  rcases hv with (⟨c, _, rfl⟩ | rfl) | ⟨c, _, rfl⟩
  · have := c.toNat_lt; omega
  · decide
  · omega

theorem values_lt (hrp : Bytes) (vs : List Nat) (hvs : ∀ v ∈ vs, v < 32) :
    ∀ v ∈ Spec.Bech32.hrpExpand hrp ++ vs, v < 32 := by
  intro v hv
  rcases List.mem_append.mp hv with h | h
  · exact hrpExpand_lt hrp v h
  · exact hvs v h

/-- the model's checksum bytes are the spec's checksum values -/
theorem checksum_spec (hrp data : Bytes) (hd : ∀ d ∈ data, d.toNat < 32) :
    (checksum hrp data).map UInt8.toNat = Spec.Bech32.checksum hrp (data.map UInt8.toNat) := by
  have hvs : ∀ v ∈ Spec.Bech32.hrpExpand hrp ++ data.map UInt8.toNat ++ [0, 0, 0, 0, 0, 0], v < 32 := by
    intro v hv
    rcases List.mem_append.mp hv with h | h
    · refine values_lt hrp _ ?_ v h
      intro x hx
      obtain ⟨d, hd', rfl⟩ := List.mem_map.mp hx
      exact hd d hd'
    · simp only [List.mem_cons, List.not_mem_nil, or_false] at h
      omega
  have hshape := polyRem_one_cons_shape _ hvs
  rw [checksum_toNat, hrpExpand_eq, polymod_spec _ hvs, Spec.Bech32.polymod]
  have h1 : ∀ n : Nat, n ^^^ 1 = n ^^^ pack [0, 0, 0, 0, 0, 1] := fun _ => rfl
  rw [h1, pack_xor _ _ hshape.1 hshape.2 (by decide), digits6_pack]
  · simp [Spec.Bech32.checksum, Spec.Bech32.valuePoly]
  · rw [addPoly, List.length_zipWith, hshape.1]; rfl
  · exact addPoly_lt _ _ hshape.2 (by decide)

/-- the model's verification is the spec's -/
theorem verify_spec (hrp decoded : Bytes) (hd : ∀ d ∈ decoded, d.toNat < 32) :
    verifyChecksum hrp decoded = Spec.Bech32.verify hrp (decoded.map UInt8.toNat) := by
  have hvs : ∀ v ∈ Spec.Bech32.hrpExpand hrp ++ decoded.map UInt8.toNat, v < 32 := by
    refine values_lt hrp _ ?_
    intro x hx
    obtain ⟨d, hd', rfl⟩ := List.mem_map.mp hx
    exact hd d hd'
  have hshape := polyRem_one_cons_shape _ hvs
  simp only [verifyChecksum, Spec.Bech32.verify, Spec.Bech32.valuePoly, hrpExpand_eq,
    polymod_spec _ hvs, Spec.Bech32.polymod]
  congr 1
  apply propext
  constructor
  · intro h
    have := congrArg digits6 h
    rwa [digits6_pack _ hshape.1 hshape.2] at this
  · intro h; rw [h]; rfl

/-! ## 5. characters and `Encode` -/

theorem charset_spec : Bytes.ofString Spec.Bech32.charsetStr = charset := rfl

theorem charAt_eq (b : UInt8) : charAt b = Spec.Bech32.charOf b.toNat := rfl

theorem encode_spec (hrp data : Bytes) : Encode hrp data = Spec.Bech32.encode hrp data := by
  by_cases hd : ∀ d ∈ data, d.toNat < 32
  · have hall : data.all (fun d => decide (d.toNat < 32)) = true := by
      rw [List.all_eq_true]; intro d h; simpa using hd d h
    rw [Encode_eq hrp data hd, Spec.Bech32.encode, if_pos hall]
    simp only [← checksum_spec hrp data hd, ← List.map_append, List.map_map, Spec.Bech32.sep,
      List.append_assoc, List.singleton_append]
    rfl
  · have hall : ¬ data.all (fun d => decide (d.toNat < 32)) = true := by
      rw [List.all_eq_true]; intro h; exact hd (fun d hd' => by simpa using h d hd')
    rw [Spec.Bech32.encode, if_neg hall]
    apply Encode_none
    apply Classical.byContradiction
    intro hne
    apply hd
    intro d hd'
    apply Classical.byContradiction
    intro hlt
    exact hne ⟨d, hd', by omega⟩

/-! ## 6. the pieces of `Decode` -/

theorem lower_eq : ∀ c : UInt8, Spec.Bech32.lower c = toLower c := by
  apply UInt8.forall_fin; decide +kernel

theorem isUpper_iff : ∀ c : UInt8, Spec.Bech32.isUpper c = true ↔ isUpper c := by
  apply UInt8.forall_fin; decide +kernel

theorem isLower_iff : ∀ c : UInt8, Spec.Bech32.isLower c = true ↔ isLower c := by
  apply UInt8.forall_fin; decide +kernel

theorem range_iff : ∀ c : UInt8, (33 ≤ c.toNat && c.toNat ≤ 126) = true ↔ inRange c := by
  apply UInt8.forall_fin; decide +kernel

theorem map_lower (s : Bytes) : s.map Spec.Bech32.lower = s.map toLower :=
  List.map_congr_left (fun c _ => lower_eq c)

/-- the value of a character is its index in the charset string -/
theorem valueOf_eq : ∀ c : UInt8, Spec.Bech32.valueOf c =
    if charset.idxOf c < 32 then some (charset.idxOf c) else none := by
  have h : ∀ c : UInt8, Spec.Bech32.valueOf c =
      (List.range 32).find? (fun v => decide (charsetL.getD v 0 = c)) := by
    intro c
    simp only [Spec.Bech32.valueOf, Spec.Bech32.charOf, charset_spec, charset_eq]
  intro c
  rw [h, charset_eq]
  revert c
  apply UInt8.forall_fin; decide +kernel

theorem toBytes_spec : ∀ cs : Bytes,
    toBytes cs = (Spec.Bech32.valuesOf cs).map (fun vs => vs.map UInt8.ofNat) := by
  intro cs
  induction cs with
  | nil => rfl
  | cons c cs ih =>
    simp only [toBytes, Spec.Bech32.valuesOf, valueOf_eq, ih]
    by_cases hi : charset.idxOf c < 32
    · simp only [hi, if_true]
      cases Spec.Bech32.valuesOf cs <;> rfl
    · simp only [hi, if_false]
      cases Spec.Bech32.valuesOf cs <;> rfl

theorem valuesOf_lt : ∀ (cs : Bytes) (vs : List Nat), Spec.Bech32.valuesOf cs = some vs →
    ∀ v ∈ vs, v < 32 := by
  intro cs
  induction cs with
  | nil => intro vs h; simp [Spec.Bech32.valuesOf] at h; subst h; simp
  | cons c cs ih =>
    intro vs h
    simp only [Spec.Bech32.valuesOf, valueOf_eq] at h
    by_cases hi : charset.idxOf c < 32
    · simp only [hi, if_true] at h
      cases hr : Spec.Bech32.valuesOf cs with
      | none => simp [hr] at h
      | some vs' =>
        simp only [hr, Option.some.injEq] at h
        subst h
        intro v hv
        rcases List.mem_cons.mp hv with rfl | hv
        · exact hi
        · exact ih vs' hr v hv
    · simp [hi] at h

theorem splitLastSep_none : ∀ s : Bytes, (49 : UInt8) ∉ s → Spec.Bech32.splitLastSep s = none := by
  intro s
  induction s with
  | nil => intro _; rfl
  | cons c s ih =>
    intro h
    have hc : c ≠ 49 := fun hc => h (by simp [hc])
    have hs : (49 : UInt8) ∉ s := fun hs => h (by simp [hs])
    simp [Spec.Bech32.splitLastSep, ih hs, Spec.Bech32.sep, hc]

theorem splitLastSep_append : ∀ pre post : Bytes, (49 : UInt8) ∉ post →
    Spec.Bech32.splitLastSep (pre ++ 49 :: post) = some (pre, post) := by
  intro pre
  induction pre with
  | nil => intro post h; simp [Spec.Bech32.splitLastSep, splitLastSep_none post h, Spec.Bech32.sep]
  | cons c pre ih => intro post h; simp [Spec.Bech32.splitLastSep, ih post h]

/-- "the last `'1'` is the separator", declaratively -/
theorem splitLastSep_spec (s : Bytes) :
    ((49 : UInt8) ∉ s ∧ Spec.Bech32.splitLastSep s = none) ∨
    ∃ pre post, s = pre ++ 49 :: post ∧ (49 : UInt8) ∉ post ∧
      Spec.Bech32.splitLastSep s = some (pre, post) := by
  rcases lastIndexOf_spec 49 s with ⟨h, _⟩ | ⟨pre, post, rfl, hp, _⟩
  · exact Or.inl ⟨h, splitLastSep_none s h⟩
  · exact Or.inr ⟨pre, post, rfl, hp, splitLastSep_append pre post hp⟩

/-- the part of the spec decoder after the case rule, on the lower-cased string -/
def specLower (l : Bytes) : Option (Bytes × Bytes) :=
  match Spec.Bech32.splitLastSep l with
  | none => none
  | some (hrp, dataPart) =>
    if hrp = [] ∨ dataPart.length < 6 then none
    else match Spec.Bech32.valuesOf dataPart with
      | none => none
      | some values =>
        if Spec.Bech32.verify hrp values then
          some (hrp, (values.take (values.length - 6)).map UInt8.ofNat)
        else none

theorem spec_decode_eq (s : Bytes) : Spec.Bech32.decode s =
    if s.length > 90 then none
    else if (!s.all (fun c => 33 ≤ c.toNat && c.toNat ≤ 126)) = true then none
    else if (s.any Spec.Bech32.isUpper && s.any Spec.Bech32.isLower) = true then none
    else specLower (s.map Spec.Bech32.lower) := rfl

theorem specLower_short (l : Bytes) (h : l.length < 8) : specLower l = none := by
  unfold specLower
  rcases splitLastSep_spec l with ⟨_, hn⟩ | ⟨pre, post, rfl, _, hs⟩
  · rw [hn]
  · rw [hs]
    simp only [List.length_append, List.length_cons] at h
    have : pre = [] ∨ post.length < 6 := by
      cases pre with
      | nil => exact Or.inl rfl
      | cons _ _ => right; simp only [List.length_cons] at h; omega
    simp only [if_pos this]

theorem map_toNat_ofNat (vs : List Nat) (h : ∀ v ∈ vs, v < 32) :
    (vs.map UInt8.ofNat).map UInt8.toNat = vs := by
  rw [List.map_map]
  refine (List.map_congr_left (fun v hv => ?_)).trans (List.map_id vs)
  have := h v hv
  simp only [Function.comp, UInt8.toNat_ofNat', id]
  omega

theorem decodeLower_spec (l : Bytes) : (decodeLower l).toOption = specLower l := by
  unfold specLower
  rcases lastIndexOf_spec 49 l with ⟨hn, _⟩ | ⟨pre, post, rfl, hpost, _⟩
  · rw [decodeLower_nosep l hn, splitLastSep_none l hn]; rfl
  · rw [decodeLower_split pre post hpost, splitLastSep_append pre post hpost]
    have hcond : (pre.length < 1 ∨ post.length < 6) ↔ (pre = [] ∨ post.length < 6) := by
      cases pre <;> simp
    by_cases hc : pre.length < 1 ∨ post.length < 6
    · rw [if_pos hc]; simp only [if_pos (hcond.mp hc)]; rfl
    · rw [if_neg hc]; simp only [if_neg (fun h => hc (hcond.mpr h))]
      rw [toBytes_spec]
      cases hv : Spec.Bech32.valuesOf post with
      | none => rfl
      | some vs =>
        have hlt := valuesOf_lt post vs hv
        have hd : ∀ d ∈ vs.map UInt8.ofNat, d.toNat < 32 := by
          intro d hd
          have : d.toNat ∈ (vs.map UInt8.ofNat).map UInt8.toNat := List.mem_map.mpr ⟨d, hd, rfl⟩
          rw [map_toNat_ofNat vs hlt] at this
          exact hlt _ this
        simp only [Option.map_some]
        rw [verify_spec pre _ hd, map_toNat_ofNat vs hlt]
        cases Spec.Bech32.verify pre vs
        · rfl
        · simp only [Bool.not_true, Bool.false_eq_true, if_false, if_true, List.length_map,
            List.map_take]
          rfl

/-! ## 7. `Decode` is the spec decoder -/

theorem any_bad_eq (s : Bytes) :
    s.any (fun c => decide (c < 33 ∨ c > 126)) = !s.all (fun c => 33 ≤ c.toNat && c.toNat ≤ 126) := by
  have hp : ∀ c : UInt8, decide (c < 33 ∨ c > 126) = !(33 ≤ c.toNat && c.toNat ≤ 126) := by
    apply UInt8.forall_fin; decide +kernel
  rw [List.not_all_eq_any_not]
  exact congrArg (fun f => s.any f) (funext hp)

theorem ne_map_toLower_iff (s : Bytes) : s ≠ s.map toLower ↔ ∃ c ∈ s, isUpper c := by
  constructor
  · intro h
    apply Classical.byContradiction
    intro hn
    exact h (map_toLower_id s (fun c hc hu => hn ⟨c, hc, hu⟩)).symm
  · rintro ⟨c, hc, hu⟩ h
    exact toLower_ne_of_upper c hu (map_eq_self s h c hc)

theorem ne_map_toUpper_iff (s : Bytes) : s ≠ s.map toUpper ↔ ∃ c ∈ s, isLower c := by
  constructor
  · intro h
    apply Classical.byContradiction
    intro hn
    exact h (map_toUpper_id s (fun c hc hu => hn ⟨c, hc, hu⟩)).symm
  · rintro ⟨c, hc, hu⟩ h
    exact toUpper_ne_of_lower c hu (map_eq_self s h c hc)

theorem mixed_iff (s : Bytes) : (s ≠ s.map toLower ∧ s ≠ s.map toUpper) ↔
    (s.any Spec.Bech32.isUpper && s.any Spec.Bech32.isLower) = true := by
  rw [ne_map_toLower_iff, ne_map_toUpper_iff, Bool.and_eq_true, List.any_eq_true, List.any_eq_true]
  simp only [isUpper_iff, isLower_iff]

theorem spec_decode_short (s : Bytes) (h8 : s.length < 8) : Spec.Bech32.decode s = none := by
  rw [spec_decode_eq]
  split
  · rfl
  · split
    · rfl
    · split
      · rfl
      · exact specLower_short _ (by simpa using h8)

/-- **`Decode` accepts exactly the strings the BIP173 transcription accepts, with the same result** -/
theorem decode_spec (s : Bytes) : (Decode s).toOption = Spec.Bech32.decode s := by
  by_cases h8 : s.length < 8
  · rw [Decode_eq, if_pos (Or.inl h8), spec_decode_short s h8]; rfl
  rw [Decode_eq, spec_decode_eq, any_bad_eq, map_lower]
  by_cases h90 : s.length > 90
  · rw [if_pos (Or.inr h90), if_pos h90]; rfl
  rw [if_neg (by omega), if_neg h90]
  by_cases hall : (!s.all (fun c => 33 ≤ c.toNat && c.toNat ≤ 126)) = true
  · simp only [if_pos hall]; rfl
  simp only [if_neg hall]
  by_cases hmix : (s.any Spec.Bech32.isUpper && s.any Spec.Bech32.isLower) = true
  · rw [if_pos ((mixed_iff s).mpr hmix), if_pos hmix]; rfl
  · rw [if_neg (fun h => hmix ((mixed_iff s).mp h)), if_neg hmix]
    exact decodeLower_spec _

theorem toOption_eq_some {ε α : Type} (x : Except ε α) (a : α) :
    x.toOption = some a ↔ x = .ok a := by
  cases x with
  | error e => constructor <;> intro h <;> cases h
  | ok b => constructor <;> intro h <;> cases h <;> rfl

theorem decode_spec_iff (s hrp data : Bytes) :
    Decode s = .ok (hrp, data) ↔ Spec.Bech32.decode s = some (hrp, data) := by
  rw [← decode_spec, toOption_eq_some]

/-! ## 8. `polyRem` is the remainder of the division by `g(x)`: `p = q·g + polyRem p` -/

theorem coeff_snoc_zero (p : Poly) (v : Nat) : coeff (p ++ [v]) 0 = v := by
  simp [coeff]

theorem coeff_snoc_succ (p : Poly) (v k : Nat) : coeff (p ++ [v]) (k + 1) = coeff p k := by
  simp [coeff]

theorem foldl_xor_init (h : Nat → Nat) : ∀ (l : List Nat) (x : Nat),
    l.foldl (fun acc i => gfAdd acc (h i)) x = gfAdd x (l.foldl (fun acc i => gfAdd acc (h i)) 0) := by
  intro l
  induction l with
  | nil => intro x; simp [gfAdd]
  | cons a l ih =>
    intro x
    simp only [List.foldl_cons]
    rw [ih (gfAdd x (h a)), ih (gfAdd 0 (h a))]
    simp only [gfAdd, Nat.zero_xor, Nat.xor_assoc]

theorem mulCoeff_snoc_zero (q g : Poly) (c : Nat) :
    mulCoeff (q ++ [c]) g 0 = gfMul c (coeff g 0) := by
  simp [mulCoeff, coeff_snoc_zero, gfAdd]

theorem mulCoeff_snoc_succ (q g : Poly) (c k : Nat) :
    mulCoeff (q ++ [c]) g (k + 1) = gfAdd (gfMul c (coeff g (k + 1))) (mulCoeff q g k) := by
  unfold mulCoeff
  rw [List.range_succ_eq_map (n := k + 1), List.foldl_cons, List.foldl_map, foldl_xor_init]
  simp only [coeff_snoc_zero, coeff_snoc_succ, Nat.sub_zero, Nat.succ_eq_add_one,
    Nat.add_sub_add_right, gfAdd, Nat.zero_xor]

theorem gfMul_zero_left (y : Nat) : gfMul 0 y = 0 := by
  have h : Spec.Bech32.clmul 0 y = 0 := by
    simp only [Spec.Bech32.clmul, range5, List.foldl_cons, List.foldl_nil, Nat.zero_shiftLeft,
      Nat.xor_zero, ite_self]
  rw [gfMul, h]; rfl

theorem gfMul_one_zero : ∀ a : Fin 32, gfMul a.val 1 = a.val ∧ gfMul a.val 0 = 0 := by
  decide +kernel

/-- the invariant of the long division: `p = q·g + r` coefficient by coefficient, `deg r < 6` -/
def DivInv (p q r : Poly) : Prop :=
  r.length = 6 ∧ (∀ c ∈ r, c < 32) ∧ q.length = p.length ∧ (∀ c ∈ q, c < 32) ∧
    ∀ k, coeff p k = gfAdd (mulCoeff q generator k) (coeff r k)

theorem divInv_step (p q r : Poly) (v : Nat) (hv : v < 32) (h : DivInv p q r) :
    DivInv (p ++ [v]) (q ++ [r.headD 0]) (remStep r v) := by
  obtain ⟨hl, hr, hql, hq, hk⟩ := h
  obtain ⟨-, hl', hr'⟩ := step_spec r v hl hr hv
  match r, hl with
  | [r5, r4, r3, r2, r1, r0], _ =>
    have h5 : r5 < 32 := hr r5 (by simp)
    obtain ⟨hone, hzero⟩ := gfMul_one_zero ⟨r5, h5⟩
    simp only at hone hzero
    refine ⟨hl', hr', by simp [hql], ?_, ?_⟩
    · intro c hc
      rcases List.mem_append.mp hc with hc | hc
      · exact hq c hc
      · simp only [List.headD_cons, List.mem_cons, List.not_mem_nil, or_false] at hc
        exact hc ▸ h5
    · intro k
      have hrem : remStep [r5, r4, r3, r2, r1, r0] v =
          [gfAdd r4 (gfMul r5 29), gfAdd r3 (gfMul r5 22), gfAdd r2 (gfMul r5 20),
            gfAdd r1 (gfMul r5 21), gfAdd r0 (gfMul r5 29), gfAdd v (gfMul r5 18)] := rfl
      rw [hrem, List.headD_cons]
      cases k with
      | zero =>
        rw [coeff_snoc_zero, mulCoeff_snoc_zero]
        simp only [coeff, generator, List.reverse_cons, List.reverse_nil, List.nil_append,
          List.cons_append, List.getD_cons_zero, gfAdd]
        rw [Nat.xor_comm v, ← Nat.xor_assoc, Nat.xor_self, Nat.zero_xor]
      | succ j =>
        rw [coeff_snoc_succ, mulCoeff_snoc_succ, hk j]
        have key : coeff [r5, r4, r3, r2, r1, r0] j =
            gfAdd (gfMul r5 (coeff generator (j + 1)))
              (coeff [gfAdd r4 (gfMul r5 29), gfAdd r3 (gfMul r5 22), gfAdd r2 (gfMul r5 20),
                gfAdd r1 (gfMul r5 21), gfAdd r0 (gfMul r5 29), gfAdd v (gfMul r5 18)] (j + 1)) := by
          match j with
          | 0 | 1 | 2 | 3 | 4 =>
            simp only [coeff, generator, List.reverse_cons, List.reverse_nil, List.nil_append,
              List.cons_append, List.getD_cons_zero, List.getD_cons_succ, gfAdd]
            rw [Nat.xor_comm _ (gfMul r5 _), ← Nat.xor_assoc, Nat.xor_self, Nat.zero_xor]
          | 5 =>
            simp only [coeff, generator, List.reverse_cons, List.reverse_nil, List.nil_append,
              List.cons_append, List.getD_cons_zero, List.getD_cons_succ, List.getD_nil, gfAdd,
              hone, Nat.xor_zero]
          | n + 6 =>
            simp only [coeff, generator, List.reverse_cons, List.reverse_nil, List.nil_append,
              List.cons_append, List.getD_cons_succ, List.getD_nil, gfAdd, hzero, Nat.xor_zero]
        rw [key]
        simp only [gfAdd]
        ac_rfl

theorem divInv_fold (vs : List Nat) (hvs : ∀ v ∈ vs, v < 32) : ∀ p q r : Poly, DivInv p q r →
    ∃ q', DivInv (p ++ vs) q' (vs.foldl remStep r) := by
  induction vs with
  | nil => intro p q r h; exact ⟨q, by simpa using h⟩
  | cons v vs ih =>
    intro p q r h
    obtain ⟨q', hq'⟩ := ih (fun x hx => hvs x (by simp [hx])) _ _ _
      (divInv_step p q r v (hvs v (by simp)) h)
    exact ⟨q', by simpa using hq'⟩

/-- **`polyRem p` is the remainder of `p(x)` modulo `g(x)`**: it has six coefficients (degree `< 6`) and
there is a quotient `q(x)` with `p(x) = q(x)·g(x) + polyRem p`, coefficient by coefficient -/
theorem polyRem_is_remainder (p : Poly) (hp : ∀ c ∈ p, c < 32) :
    (polyRem p).length = 6 ∧ (∀ c ∈ polyRem p, c < 32) ∧
    ∃ q : Poly, (∀ c ∈ q, c < 32) ∧
      ∀ k, coeff p k = gfAdd (mulCoeff q generator k) (coeff (polyRem p) k) := by
  have h0 : DivInv [] [] [0, 0, 0, 0, 0, 0] := by
    refine ⟨rfl, by decide, rfl, by simp, ?_⟩
    intro k
    have hc : ∀ (l : Poly) (j : Nat), coeff [] j = 0 := by intro _ j; simp [coeff]
    have hm : mulCoeff [] generator k = 0 := by
      unfold mulCoeff
      have : ∀ (l : List Nat), l.foldl (fun acc i => gfAdd acc (gfMul (coeff [] i)
          (coeff generator (k - i)))) 0 = 0 := by
        intro l
        induction l with
        | nil => rfl
        | cons a l ih =>
          simp only [List.foldl_cons]
          have : gfMul (coeff [] a) (coeff generator (k - a)) = 0 := by
            rw [hc [] a, gfMul_zero_left]
          rw [this]; exact ih
      exact this _
    rw [hm, hc [] k]
    have : coeff [0, 0, 0, 0, 0, 0] k = 0 := by
      match k with
      | 0 | 1 | 2 | 3 | 4 | 5 => rfl
      | n + 6 => simp [coeff]
    rw [this]; rfl
  obtain ⟨q, hq⟩ := divInv_fold p hp [] [] _ h0
  simp only [List.nil_append] at hq
  exact ⟨hq.1, hq.2.1, q, hq.2.2.2.1, hq.2.2.2.2⟩

/-! ## 9. sanity of the transcription: `gfMul`/`gfAdd` on `0…31` is a field

The two laws with three variables (32768 cases each) are checked on the 32×32 multiplication table, which is
itself checked against `gfMul` entry by entry. -/

def mulTable : List (List Nat) :=
  [[0, 0, 0, 0, 0, 0, 0, 0, 0, 0, 0, 0, 0, 0, 0, 0, 0, 0, 0, 0, 0, 0, 0, 0, 0, 0, 0, 0, 0, 0, 0, 0],
   [0, 1, 2, 3, 4, 5, 6, 7, 8, 9, 10, 11, 12, 13, 14, 15, 16, 17, 18, 19, 20, 21, 22, 23, 24, 25, 26, 27, 28, 29, 30, 31],
   [0, 2, 4, 6, 8, 10, 12, 14, 16, 18, 20, 22, 24, 26, 28, 30, 9, 11, 13, 15, 1, 3, 5, 7, 25, 27, 29, 31, 17, 19, 21, 23],
   [0, 3, 6, 5, 12, 15, 10, 9, 24, 27, 30, 29, 20, 23, 18, 17, 25, 26, 31, 28, 21, 22, 19, 16, 1, 2, 7, 4, 13, 14, 11, 8],
   [0, 4, 8, 12, 16, 20, 24, 28, 9, 13, 1, 5, 25, 29, 17, 21, 18, 22, 26, 30, 2, 6, 10, 14, 27, 31, 19, 23, 11, 15, 3, 7],
   [0, 5, 10, 15, 20, 17, 30, 27, 1, 4, 11, 14, 21, 16, 31, 26, 2, 7, 8, 13, 22, 19, 28, 25, 3, 6, 9, 12, 23, 18, 29, 24],
   [0, 6, 12, 10, 24, 30, 20, 18, 25, 31, 21, 19, 1, 7, 13, 11, 27, 29, 23, 17, 3, 5, 15, 9, 2, 4, 14, 8, 26, 28, 22, 16],
   [0, 7, 14, 9, 28, 27, 18, 21, 17, 22, 31, 24, 13, 10, 3, 4, 11, 12, 5, 2, 23, 16, 25, 30, 26, 29, 20, 19, 6, 1, 8, 15],
   [0, 8, 16, 24, 9, 1, 25, 17, 18, 26, 2, 10, 27, 19, 11, 3, 13, 5, 29, 21, 4, 12, 20, 28, 31, 23, 15, 7, 22, 30, 6, 14],
   [0, 9, 18, 27, 13, 4, 31, 22, 26, 19, 8, 1, 23, 30, 5, 12, 29, 20, 15, 6, 16, 25, 2, 11, 7, 14, 21, 28, 10, 3, 24, 17],
   [0, 10, 20, 30, 1, 11, 21, 31, 2, 8, 22, 28, 3, 9, 23, 29, 4, 14, 16, 26, 5, 15, 17, 27, 6, 12, 18, 24, 7, 13, 19, 25],
   [0, 11, 22, 29, 5, 14, 19, 24, 10, 1, 28, 23, 15, 4, 25, 18, 20, 31, 2, 9, 17, 26, 7, 12, 30, 21, 8, 3, 27, 16, 13, 6],
   [0, 12, 24, 20, 25, 21, 1, 13, 27, 23, 3, 15, 2, 14, 26, 22, 31, 19, 7, 11, 6, 10, 30, 18, 4, 8, 28, 16, 29, 17, 5, 9],
   [0, 13, 26, 23, 29, 16, 7, 10, 19, 30, 9, 4, 14, 3, 20, 25, 15, 2, 21, 24, 18, 31, 8, 5, 28, 17, 6, 11, 1, 12, 27, 22],
   [0, 14, 28, 18, 17, 31, 13, 3, 11, 5, 23, 25, 26, 20, 6, 8, 22, 24, 10, 4, 7, 9, 27, 21, 29, 19, 1, 15, 12, 2, 16, 30],
   [0, 15, 30, 17, 21, 26, 11, 4, 3, 12, 29, 18, 22, 25, 8, 7, 6, 9, 24, 23, 19, 28, 13, 2, 5, 10, 27, 20, 16, 31, 14, 1],
   [0, 16, 9, 25, 18, 2, 27, 11, 13, 29, 4, 20, 31, 15, 22, 6, 26, 10, 19, 3, 8, 24, 1, 17, 23, 7, 30, 14, 5, 21, 12, 28],
   [0, 17, 11, 26, 22, 7, 29, 12, 5, 20, 14, 31, 19, 2, 24, 9, 10, 27, 1, 16, 28, 13, 23, 6, 15, 30, 4, 21, 25, 8, 18, 3],
   [0, 18, 13, 31, 26, 8, 23, 5, 29, 15, 16, 2, 7, 21, 10, 24, 19, 1, 30, 12, 9, 27, 4, 22, 14, 28, 3, 17, 20, 6, 25, 11],
   [0, 19, 15, 28, 30, 13, 17, 2, 21, 6, 26, 9, 11, 24, 4, 23, 3, 16, 12, 31, 29, 14, 18, 1, 22, 5, 25, 10, 8, 27, 7, 20],
   [0, 20, 1, 21, 2, 22, 3, 23, 4, 16, 5, 17, 6, 18, 7, 19, 8, 28, 9, 29, 10, 30, 11, 31, 12, 24, 13, 25, 14, 26, 15, 27],
   [0, 21, 3, 22, 6, 19, 5, 16, 12, 25, 15, 26, 10, 31, 9, 28, 24, 13, 27, 14, 30, 11, 29, 8, 20, 1, 23, 2, 18, 7, 17, 4],
   [0, 22, 5, 19, 10, 28, 15, 25, 20, 2, 17, 7, 30, 8, 27, 13, 1, 23, 4, 18, 11, 29, 14, 24, 21, 3, 16, 6, 31, 9, 26, 12],
   [0, 23, 7, 16, 14, 25, 9, 30, 28, 11, 27, 12, 18, 5, 21, 2, 17, 6, 22, 1, 31, 8, 24, 15, 13, 26, 10, 29, 3, 20, 4, 19],
   [0, 24, 25, 1, 27, 3, 2, 26, 31, 7, 6, 30, 4, 28, 29, 5, 23, 15, 14, 22, 12, 20, 21, 13, 8, 16, 17, 9, 19, 11, 10, 18],
   [0, 25, 27, 2, 31, 6, 4, 29, 23, 14, 12, 21, 8, 17, 19, 10, 7, 30, 28, 5, 24, 1, 3, 26, 16, 9, 11, 18, 15, 22, 20, 13],
   [0, 26, 29, 7, 19, 9, 14, 20, 15, 21, 18, 8, 28, 6, 1, 27, 30, 4, 3, 25, 13, 23, 16, 10, 17, 11, 12, 22, 2, 24, 31, 5],
   [0, 27, 31, 4, 23, 12, 8, 19, 7, 28, 24, 3, 16, 11, 15, 20, 14, 21, 17, 10, 25, 2, 6, 29, 9, 18, 22, 13, 30, 5, 1, 26],
   [0, 28, 17, 13, 11, 23, 26, 6, 22, 10, 7, 27, 29, 1, 12, 16, 5, 25, 20, 8, 14, 18, 31, 3, 19, 15, 2, 30, 24, 4, 9, 21],
   [0, 29, 19, 14, 15, 18, 28, 1, 30, 3, 13, 16, 17, 12, 2, 31, 21, 8, 6, 27, 26, 7, 9, 20, 11, 22, 24, 5, 4, 25, 23, 10],
   [0, 30, 21, 11, 3, 29, 22, 8, 6, 24, 19, 13, 5, 27, 16, 14, 12, 18, 25, 7, 15, 17, 26, 4, 10, 20, 31, 1, 9, 23, 28, 2],
   [0, 31, 23, 8, 7, 24, 16, 15, 14, 17, 25, 6, 9, 22, 30, 1, 28, 3, 11, 20, 27, 4, 12, 19, 18, 13, 5, 26, 21, 10, 2, 29]]

def tmul (a b : Nat) : Nat := (mulTable.getD a []).getD b 0

theorem all_range_iff (n : Nat) (p : Nat → Bool) :
    (List.range n).all p = true ↔ ∀ a, a < n → p a = true := by
  simp [List.all_eq_true, List.mem_range]

theorem table_check : ((List.range 32).all fun a => (List.range 32).all fun b =>
    gfMul a b == tmul a b && decide (tmul a b < 32) && tmul a b == tmul b a) = true := by decide +kernel

theorem table_assoc_distrib : ((List.range 32).all fun a => (List.range 32).all fun b =>
    (List.range 32).all fun c => tmul (tmul a b) c == tmul a (tmul b c) &&
      tmul a (b ^^^ c) == tmul a b ^^^ tmul a c) = true := by decide +kernel

theorem table_units : ((List.range 32).all fun a => tmul a 1 == a && tmul a 0 == 0 &&
    (a == 0 || (List.range 32).any fun b => tmul a b == 1)) = true := by decide +kernel

theorem gfMul_tmul (a b : Nat) (ha : a < 32) (hb : b < 32) :
    gfMul a b = tmul a b ∧ tmul a b < 32 ∧ tmul a b = tmul b a := by
  have h := (all_range_iff _ _).mp ((all_range_iff _ _).mp table_check a ha) b hb
  simp only [Bool.and_eq_true, beq_iff_eq, decide_eq_true_eq] at h
  exact ⟨h.1.1, h.1.2, h.2⟩

/-- GF(32) as transcribed is a field: closed, commutative, associative, distributive over XOR, with unit 1,
and every non-zero element has an inverse -/
theorem gf32_field :
    (∀ a b, a < 32 → b < 32 → gfMul a b < 32 ∧ gfMul a b = gfMul b a) ∧
    (∀ a b c, a < 32 → b < 32 → c < 32 → gfMul (gfMul a b) c = gfMul a (gfMul b c) ∧
      gfMul a (gfAdd b c) = gfAdd (gfMul a b) (gfMul a c)) ∧
    (∀ a, a < 32 → gfMul a 1 = a ∧ gfMul a 0 = 0) ∧
    (∀ a, 0 < a → a < 32 → ∃ b, b < 32 ∧ gfMul a b = 1) := by
  refine ⟨?_, ?_, ?_, ?_⟩
  · intro a b ha hb
    obtain ⟨h1, h2, h3⟩ := gfMul_tmul a b ha hb
    rw [h1, (gfMul_tmul b a hb ha).1]; exact ⟨h2, h3⟩
  · intro a b c ha hb hc
    have h := (all_range_iff _ _).mp ((all_range_iff _ _).mp
      ((all_range_iff _ _).mp table_assoc_distrib a ha) b hb) c hc
    simp only [Bool.and_eq_true, beq_iff_eq] at h
    have hab := gfMul_tmul a b ha hb
    have hbc := gfMul_tmul b c hb hc
    have hac := gfMul_tmul a c ha hc
    have hx : b ^^^ c < 32 := Nat.xor_lt_two_pow (n := 5) hb hc
    rw [hab.1, hbc.1, hac.1, (gfMul_tmul _ c hab.2.1 hc).1, (gfMul_tmul a _ ha hbc.2.1).1, gfAdd, gfAdd,
      (gfMul_tmul a _ ha hx).1]
    exact h
  · intro a ha
    exact gfMul_one_zero ⟨a, ha⟩
  · intro a h0 ha
    have h := (all_range_iff _ _).mp table_units a ha
    simp only [Bool.and_eq_true, Bool.or_eq_true, beq_iff_eq, List.any_eq_true, List.mem_range] at h
    rcases h.2 with h | ⟨b, hb, hab⟩
    · omega
    · exact ⟨b, hb, by rw [(gfMul_tmul a b ha hb).1]; exact hab⟩

/-! ## 10. the remainder is unique -/

theorem eq_of_xor_eq_zero {a b : Nat} (h : a ^^^ b = 0) : a = b := by
  have : a = (a ^^^ b) ^^^ b := by rw [Nat.xor_assoc, Nat.xor_self, Nat.xor_zero]
  rw [this, h, Nat.zero_xor]

theorem xor_swap {a b c d : Nat} (h : a ^^^ b = c ^^^ d) : a ^^^ c = b ^^^ d := by
  have : a = c ^^^ d ^^^ b := by rw [← h, Nat.xor_assoc, Nat.xor_self, Nat.xor_zero]
  rw [this]
  have : c ^^^ d ^^^ b ^^^ c = (c ^^^ c) ^^^ (b ^^^ d) := by ac_rfl
  rw [this, Nat.xor_self, Nat.zero_xor]

/-- `Σ_{i < m} h i` in GF(32) -/
def sumTo (h : Nat → Nat) (m : Nat) : Nat := (List.range m).foldl (fun acc i => gfAdd acc (h i)) 0

theorem mulCoeff_eq_sumTo (p q : Poly) (k : Nat) :
    mulCoeff p q k = sumTo (fun i => gfMul (coeff p i) (coeff q (k - i))) (k + 1) := rfl

theorem sumTo_succ (h : Nat → Nat) (m : Nat) : sumTo h (m + 1) = sumTo h m ^^^ h m := by
  simp [sumTo, List.range_succ, List.foldl_append, gfAdd]

theorem sumTo_xor (h h' : Nat → Nat) (m : Nat) :
    sumTo (fun i => h i ^^^ h' i) m = sumTo h m ^^^ sumTo h' m := by
  induction m with
  | zero => simp [sumTo]
  | succ m ih => rw [sumTo_succ, sumTo_succ, sumTo_succ, ih]; ac_rfl

theorem sumTo_congr (h h' : Nat → Nat) (m : Nat) (hh : ∀ i, i < m → h i = h' i) :
    sumTo h m = sumTo h' m := by
  induction m with
  | zero => rfl
  | succ m ih =>
    rw [sumTo_succ, sumTo_succ, ih (fun i hi => hh i (by omega)), hh m (by omega)]

theorem sumTo_single (h : Nat → Nat) (i m : Nat) (hz : ∀ j, j < m → j ≠ i → h j = 0) :
    sumTo h m = if i < m then h i else 0 := by
  induction m with
  | zero => rfl
  | succ m ih =>
    rw [sumTo_succ, ih (fun j hj hne => hz j (by omega) hne)]
    by_cases him : i < m
    · rw [if_pos him, if_pos (by omega), hz m (by omega) (by omega), Nat.xor_zero]
    · rw [if_neg him]
      by_cases hi : i = m
      · subst hi; rw [if_pos (by omega), Nat.zero_xor]
      · rw [if_neg (by omega), hz m (by omega) (fun h => hi h.symm)]; rfl

theorem coeff_lt (q : Poly) (hq : ∀ c ∈ q, c < 32) (i : Nat) : coeff q i < 32 := by
  unfold coeff
  rw [List.getD_eq_getElem?_getD]
  cases h : q.reverse[i]? with
  | none => simp
  | some v =>
    have : v ∈ q.reverse := List.mem_of_getElem? h
    exact hq v (List.mem_reverse.mp this)

theorem coeff_ge (q : Poly) (i : Nat) (h : q.length ≤ i) : coeff q i = 0 := by
  unfold coeff
  rw [List.getD_eq_getElem?_getD, List.getElem?_eq_none (by simpa using h)]
  rfl

theorem coeff_generator_six : coeff generator 6 = 1 := rfl

theorem coeff_generator_gt (k : Nat) (h : 6 < k) : coeff generator k = 0 :=
  coeff_ge generator k (by simp [generator]; omega)

theorem gfMul_xor_left (a b c : Nat) (ha : a < 32) (hb : b < 32) (hc : c < 32) :
    gfMul (a ^^^ b) c = gfMul a c ^^^ gfMul b c := by
  obtain ⟨hcomm, hdist, _, _⟩ := gf32_field
  have hab : a ^^^ b < 32 := Nat.xor_lt_two_pow (n := 5) ha hb
  rw [(hcomm _ c hab hc).2, (hcomm a c ha hc).2, (hcomm b c hb hc).2]
  exact (hdist c a b hc ha hb).2

/-- two divisions of the same polynomial by `g` with remainders of degree `< 6` have the same remainder -/
theorem remainder_unique (q q' r r' : Poly) (hq : ∀ c ∈ q, c < 32) (hq' : ∀ c ∈ q', c < 32)
    (hl : r.length = 6) (hl' : r'.length = 6)
    (h : ∀ k, gfAdd (mulCoeff q generator k) (coeff r k) =
      gfAdd (mulCoeff q' generator k) (coeff r' k)) : r = r' := by
  -- the difference of the quotients, coefficient by coefficient
  have hd32 : ∀ i, coeff q i ^^^ coeff q' i < 32 := fun i =>
    Nat.xor_lt_two_pow (n := 5) (coeff_lt q hq i) (coeff_lt q' hq' i)
  have hA : ∀ k, sumTo (fun i => gfMul (coeff q i ^^^ coeff q' i) (coeff generator (k - i))) (k + 1) =
      coeff r k ^^^ coeff r' k := by
    intro k
    have h1 := xor_swap (h k)
    rw [mulCoeff_eq_sumTo, mulCoeff_eq_sumTo, ← sumTo_xor] at h1
    rw [← h1]
    apply sumTo_congr
    intro i _
    exact gfMul_xor_left _ _ _ (coeff_lt q hq i) (coeff_lt q' hq' i)
      (coeff_lt generator (by decide) _)
  -- downward induction: all coefficients of the difference vanish
  have hC : ∀ n i, q.length + q'.length ≤ i + n → coeff q i ^^^ coeff q' i = 0 := by
    intro n
    induction n with
    | zero =>
      intro i hi
      rw [coeff_ge q i (by omega), coeff_ge q' i (by omega), Nat.xor_self]
    | succ n ih =>
      intro i hi
      have hk := hA (i + 6)
      rw [coeff_ge r _ (by omega), coeff_ge r' _ (by omega), sumTo_single _ i] at hk
      · rw [if_pos (by omega), show i + 6 - i = 6 by omega, coeff_generator_six] at hk
        have := (gf32_field.2.2.1 _ (hd32 i)).1
        rw [this] at hk
        exact hk
      · intro j hj hne
        by_cases hji : j < i
        · rw [coeff_generator_gt _ (by omega)]
          exact (gf32_field.2.2.1 _ (hd32 j)).2
        · rw [ih j (by omega), gfMul_zero_left]
  have hD : ∀ i, coeff q i ^^^ coeff q' i = 0 := fun i => hC (q.length + q'.length) i (by omega)
  have hE : ∀ k, coeff r k = coeff r' k := by
    intro k
    apply eq_of_xor_eq_zero
    rw [← hA k]
    have : sumTo (fun i => gfMul (coeff q i ^^^ coeff q' i) (coeff generator (k - i))) (k + 1) =
        sumTo (fun _ => 0) (k + 1) :=
      sumTo_congr _ _ _ (fun i _ => by rw [hD i, gfMul_zero_left])
    rw [this, sumTo_single (fun _ => 0) 0 (k + 1) (fun _ _ _ => rfl)]
    simp
  apply List.reverse_inj.mp
  apply List.ext_getElem?
  intro i
  have := hE i
  unfold coeff at this
  rw [List.getD_eq_getElem?_getD, List.getD_eq_getElem?_getD] at this
  by_cases hi : i < 6
  · rw [List.getElem?_eq_getElem (by simpa [hl] using hi),
      List.getElem?_eq_getElem (by simpa [hl'] using hi)] at this ⊢
    simpa using this
  · rw [List.getElem?_eq_none (by simp [hl]; omega), List.getElem?_eq_none (by simp [hl']; omega)]

/-- **characterisation**: `r` (six field elements) is `polyRem p` iff `p = q·g + r` for some quotient `q` -/
theorem polyRem_iff (p r : Poly) (hp : ∀ c ∈ p, c < 32) (hl : r.length = 6) :
    (∃ q : Poly, (∀ c ∈ q, c < 32) ∧
      ∀ k, coeff p k = gfAdd (mulCoeff q generator k) (coeff r k)) ↔ r = polyRem p := by
  obtain ⟨hl', _, q', hq', hk'⟩ := polyRem_is_remainder p hp
  constructor
  · rintro ⟨q, hq, hk⟩
    exact remainder_unique q q' r (polyRem p) hq hq' hl hl' (fun k => (hk k).symm.trans (hk' k))
  · rintro rfl
    exact ⟨q', hq', hk'⟩

end Bch.Proofs.Bech32Spec
