import Bch.Model.CashAddr
import Bch.Proofs.CashAddrPoly
/-!
Character-level facts (charset tables, case folding), the `scan` loop and
`DecodeCashAddress` ∘ `encode` in both directions.
-/
namespace Bch.Proofs.CashAddr
open Bch Bch.Model.CashAddr

/-- bounded quantification over a byte is decidable (via `BitVec 8`) -/
instance decidableForallUInt8 (P : UInt8 → Prop) [DecidablePred P] : Decidable (∀ c, P c) :=
  decidable_of_iff (∀ b : BitVec 8, P ⟨b⟩) ⟨fun h c => h c.toBitVec, fun h b => h ⟨b⟩⟩

theorem charset_eq : charset = [113,112,122,114,121,57,120,56,103,102,50,116,118,100,119,48,115,51,
    106,110,53,52,107,104,99,101,54,109,117,97,55,108] := by decide +kernel

def isLow (c : UInt8) : Bool := 97 ≤ c && c ≤ 122
def isUp (c : UInt8) : Bool := 65 ≤ c && c ≤ 90
def isDig (c : UInt8) : Bool := 48 ≤ c && c ≤ 57
def lower1 (c : UInt8) : UInt8 := if 65 ≤ c ∧ c ≤ 90 then c + 32 else c
def upper1 (c : UInt8) : UInt8 := if 97 ≤ c ∧ c ≤ 122 then c - 32 else c
/-- ASCII upper-casing of a string (the `strings.ToUpper` rendering used by the harness) -/
def upperASCII (s : Bytes) : Bytes := s.map upper1

theorem charAt_facts : ∀ c : UInt8, c.toNat < 32 →
    ∃ ch, charAt c = some ch ∧ charsetRev ch = some c ∧ charsetRev (upper1 ch) = some c ∧
      (isLow ch || isDig ch) = true ∧ lower1 ch = ch ∧ lower1 (upper1 ch) = ch ∧
      (isUp (upper1 ch) || isDig (upper1 ch)) = true := by
  decide +kernel

theorem charsetRev_facts_aux : ∀ c : UInt8, (charsetRev c).all (fun v =>
    decide (v.toNat < 32 ∧ charAt v = some (lower1 c) ∧ (isLow c || isUp c || isDig c) = true)) = true := by
  decide +kernel

theorem charsetRev_facts {c v : UInt8} (h : charsetRev c = some v) :
    v.toNat < 32 ∧ charAt v = some (lower1 c) ∧ (isLow c || isUp c || isDig c) = true := by
  have := charsetRev_facts_aux c
  rw [h] at this
  simpa using this

theorem DecodeCashAddress_eq (str : Bytes) : DecodeCashAddress str =
    match scan str 0 {} with
    | .error e => .error e
    | .ok st =>
      if st.prefixSize = 0 then .error .noPrefix
      else if st.upper ∧ st.lower then .error .mixedCase
      else match (str.drop (st.prefixSize + 1)).mapM charsetRev with
        | none => .error .invalidChar
        | some values =>
          if !verifyChecksum ((str.take st.prefixSize).map (· ||| 0x20)) values then .error .checksumMismatch
          else if values.length < 8 then .error .tooShort
          else .ok ((str.take st.prefixSize).map (· ||| 0x20), values.take (values.length - 8)) := by
  unfold DecodeCashAddress
  cases scan str 0 {} with
  | error e => rfl
  | ok st =>
    simp only [bind, Except.bind, pure, Except.pure, throw, throwThe, MonadExceptOf.throw]
    split
    · rfl
    · split
      · rfl
      · cases (str.drop (st.prefixSize + 1)).mapM charsetRev with
        | none => rfl
        | some values =>
          simp only []
          repeat (first | rfl | split)

/-! ### byte classes -/

theorem isLow_iff (c : UInt8) : isLow c = true ↔ (97 ≤ c ∧ c ≤ 122) := by simp [isLow]
theorem isUp_iff (c : UInt8) : isUp c = true ↔ (65 ≤ c ∧ c ≤ 90) := by simp [isUp]
theorem isDig_iff (c : UInt8) : isDig c = true ↔ (48 ≤ c ∧ c ≤ 57) := by simp [isDig]

theorem class_facts : ∀ c : UInt8,
    (isLow c = true → isUp c = false ∧ isDig c = false ∧ c ≠ 58 ∧ lower1 c = c ∧ c ||| 0x20 = c ∧
        isUp (upper1 c) = true ∧ lower1 (upper1 c) = c ∧ upper1 c ||| 0x20 = c ∧ c < 128 ∧ upper1 c < 128) ∧
    (isUp c = true → isLow c = false ∧ isDig c = false ∧ c ≠ 58 ∧ c ||| 0x20 = lower1 c ∧
        isLow (lower1 c) = true ∧ upper1 c = c ∧ c < 128) ∧
    (isDig c = true → isLow c = false ∧ isUp c = false ∧ c ≠ 58 ∧ lower1 c = c ∧ upper1 c = c ∧ c < 128) ∧
    (lower1 c = 58 ↔ c = 58) ∧ (upper1 c = 58 ↔ c = 58) ∧ lower1 (lower1 c) = lower1 c ∧
    isUp (lower1 c) = false ∧ isLow (upper1 c) = false ∧ (lower1 c < 128 → c < 128) ∧
    (isDig (lower1 c) = isDig c) ∧ lower1 (upper1 c) = lower1 c := by
  decide +kernel

/-! ### the character scan -/

theorem scan_cons_low {c : UInt8} (h : isLow c = true) (cs : Bytes) (i : Nat) (st : Scan) :
    scan (c :: cs) i st = scan cs (i+1) ⟨true, st.upper, st.prefixSize⟩ := by
  rw [scan, if_pos ((isLow_iff c).mp h)]

theorem scan_cons_up {c : UInt8} (h : isUp c = true) (cs : Bytes) (i : Nat) (st : Scan) :
    scan (c :: cs) i st = scan cs (i+1) ⟨st.lower, true, st.prefixSize⟩ := by
  have hl : ¬ (97 ≤ c ∧ c ≤ 122) := by
    rw [← isLow_iff]; simp [((class_facts c).2.1 h).1]
  rw [scan, if_neg hl, if_pos ((isUp_iff c).mp h)]

theorem scan_cons_dig {c : UInt8} (h : isDig c = true) (cs : Bytes) (i : Nat) (st : Scan) :
    scan (c :: cs) i st = if st.prefixSize = 0 then .error .numberInPrefix else scan cs (i+1) st := by
  have hl : ¬ (97 ≤ c ∧ c ≤ 122) := by
    rw [← isLow_iff]; simp [((class_facts c).2.2.1 h).1]
  have hu : ¬ (65 ≤ c ∧ c ≤ 90) := by
    rw [← isUp_iff]; simp [((class_facts c).2.2.1 h).2.1]
  rw [scan, if_neg hl, if_neg hu, if_pos ((isDig_iff c).mp h)]

theorem scan_cons_colon (cs : Bytes) (i : Nat) (st : Scan) :
    scan (58 :: cs) i st = if i = 0 ∨ st.prefixSize ≠ 0 then .error .separator
      else scan cs (i+1) ⟨st.lower, st.upper, i⟩ := by
  rw [scan]; simp

theorem scan_cons_other {c : UInt8} (hl : isLow c = false) (hu : isUp c = false) (hd : isDig c = false)
    (h58 : c ≠ 58) (cs : Bytes) (i : Nat) (st : Scan) : scan (c :: cs) i st = .error .unexpectedChar := by
  have hl' : ¬ (97 ≤ c ∧ c ≤ 122) := by rw [← isLow_iff]; simp [hl]
  have hu' : ¬ (65 ≤ c ∧ c ≤ 90) := by rw [← isUp_iff]; simp [hu]
  have hd' : ¬ (48 ≤ c ∧ c ≤ 57) := by rw [← isDig_iff]; simp [hd]
  rw [scan, if_neg hl', if_neg hu', if_neg hd', if_neg h58]

def isLetter (c : UInt8) : Bool := isLow c || isUp c
def isAlnum (c : UInt8) : Bool := isLow c || isUp c || isDig c

theorem scan_letters (P rest : Bytes) (hP : ∀ c ∈ P, isLetter c = true) (i : Nat) (st : Scan) :
    scan (P ++ rest) i st =
      scan rest (i + P.length) ⟨st.lower || P.any isLow, st.upper || P.any isUp, st.prefixSize⟩ := by
  induction P generalizing i st with
  | nil => simp
  | cons c P ih =>
    have hc := hP c (by simp)
    have hP' : ∀ c ∈ P, isLetter c = true := fun x hx => hP x (by simp [hx])
    simp only [isLetter, Bool.or_eq_true] at hc
    rcases hc with hc | hc
    · rw [List.cons_append, scan_cons_low hc, ih hP']
      have hu := ((class_facts c).1 hc).1
      simp [hc, hu, Nat.add_assoc, Nat.add_comm 1]
    · rw [List.cons_append, scan_cons_up hc, ih hP']
      have hl := ((class_facts c).2.1 hc).1
      simp [hc, hl, Nat.add_assoc, Nat.add_comm 1]

theorem scan_alnum (B : Bytes) (hB : ∀ c ∈ B, isAlnum c = true) (i : Nat) (st : Scan)
    (hp : st.prefixSize ≠ 0) :
    scan B i st = .ok ⟨st.lower || B.any isLow, st.upper || B.any isUp, st.prefixSize⟩ := by
  induction B generalizing i st with
  | nil => simp [scan]
  | cons c B ih =>
    have hc := hB c (by simp)
    have hB' : ∀ c ∈ B, isAlnum c = true := fun x hx => hB x (by simp [hx])
    simp only [isAlnum, Bool.or_eq_true] at hc
    rcases hc with (hc | hc) | hc
    · rw [scan_cons_low hc, ih hB' _ ⟨true, st.upper, st.prefixSize⟩ hp]
      have hu := ((class_facts c).1 hc).1
      simp [hc, hu]
    · rw [scan_cons_up hc, ih hB' _ ⟨st.lower, true, st.prefixSize⟩ hp]
      have hl := ((class_facts c).2.1 hc).1
      simp [hc, hl]
    · rw [scan_cons_dig hc, if_neg hp, ih hB' _ _ hp]
      have h := (class_facts c).2.2.1 hc
      simp [h.1, h.2.1]

theorem scan_full (P B : Bytes) (hne : P ≠ []) (hP : ∀ c ∈ P, isLetter c = true)
    (hB : ∀ c ∈ B, isAlnum c = true) :
    scan (P ++ 58 :: B) 0 {} = .ok ⟨(P ++ B).any isLow, (P ++ B).any isUp, P.length⟩ := by
  have hl : P.length ≠ 0 := by simpa using hne
  rw [scan_letters P _ hP, scan_cons_colon, if_neg (by simp [hl]), scan_alnum B hB _ _ (by simpa using hl)]
  simp

/-- inversion of the second phase (after the colon) -/
theorem scan_alnum_inv (B : Bytes) (i : Nat) (st st' : Scan) (hp : st.prefixSize ≠ 0)
    (h : scan B i st = .ok st') : (∀ c ∈ B, isAlnum c = true) ∧ st'.prefixSize = st.prefixSize := by
  induction B generalizing i st with
  | nil => simp [scan] at h; subst h; simp
  | cons c B ih =>
    by_cases hl : isLow c = true
    · rw [scan_cons_low hl] at h
      have := ih _ ⟨true, st.upper, st.prefixSize⟩ hp h
      exact ⟨by simpa [isAlnum, hl] using this.1, this.2⟩
    by_cases hu : isUp c = true
    · rw [scan_cons_up hu] at h
      have := ih _ ⟨st.lower, true, st.prefixSize⟩ hp h
      exact ⟨by simpa [isAlnum, hu] using this.1, this.2⟩
    by_cases hd : isDig c = true
    · rw [scan_cons_dig hd, if_neg hp] at h
      have := ih _ _ hp h
      exact ⟨by simpa [isAlnum, hd] using this.1, this.2⟩
    by_cases h58 : c = 58
    · subst h58; rw [scan_cons_colon, if_pos (Or.inr hp)] at h; cases h
    · rw [scan_cons_other (by simpa using hl) (by simpa using hu) (by simpa using hd) h58] at h; cases h

/-- inversion of the first phase: an accepted string with a prefix is `P ++ ":" ++ B` -/
theorem scan_inv (s : Bytes) (i : Nat) (st st' : Scan) (hp : st.prefixSize = 0)
    (h : scan s i st = .ok st') (hp' : st'.prefixSize ≠ 0) :
    ∃ P B, s = P ++ 58 :: B ∧ (∀ c ∈ P, isLetter c = true) ∧ (∀ c ∈ B, isAlnum c = true) ∧
      st'.prefixSize = i + P.length := by
  induction s generalizing i st with
  | nil => simp [scan] at h; subst h; exact absurd hp hp'
  | cons c s ih =>
    by_cases hl : isLow c = true
    · rw [scan_cons_low hl] at h
      obtain ⟨P, B, e, h1, h2, h3⟩ := ih _ ⟨true, st.upper, st.prefixSize⟩ hp h
      exact ⟨c :: P, B, by simp [e], by simpa [isLetter, hl] using h1, h2, by simp [h3]; omega⟩
    by_cases hu : isUp c = true
    · rw [scan_cons_up hu] at h
      obtain ⟨P, B, e, h1, h2, h3⟩ := ih _ ⟨st.lower, true, st.prefixSize⟩ hp h
      exact ⟨c :: P, B, by simp [e], by simpa [isLetter, hu] using h1, h2, by simp [h3]; omega⟩
    by_cases hd : isDig c = true
    · rw [scan_cons_dig hd, if_pos hp] at h; cases h
    by_cases h58 : c = 58
    · subst h58
      rw [scan_cons_colon] at h
      by_cases hi : i = 0 ∨ st.prefixSize ≠ 0
      · rw [if_pos hi] at h; cases h
      · rw [if_neg hi] at h
        have hi0 : i ≠ 0 := fun e => hi (Or.inl e)
        have := scan_alnum_inv s _ ⟨st.lower, st.upper, i⟩ st' hi0 h
        exact ⟨[], s, by simp, by simp, this.1, by simpa using this.2⟩
    · rw [scan_cons_other (by simpa using hl) (by simpa using hu) (by simpa using hd) h58] at h; cases h

/-! ### `mapM` in `Option` -/

theorem mapM_some_of_forall {α β : Type} {f : α → Option β} {g : α → β} (l : List α)
    (h : ∀ a ∈ l, f a = some (g a)) : l.mapM f = some (l.map g) := by
  induction l with
  | nil => simp
  | cons a l ih =>
    have ha := h a (by simp)
    have hl := ih (fun x hx => h x (by simp [hx]))
    simp [List.mapM_cons, ha, hl]

theorem mapM_map_some {α β : Type} {f : β → Option α} {g : α → β} (l : List α)
    (h : ∀ a ∈ l, f (g a) = some a) : (l.map g).mapM f = some l := by
  induction l with
  | nil => simp
  | cons a l ih =>
    have ha := h a (by simp)
    have hl := ih (fun x hx => h x (by simp [hx]))
    simp [List.mapM_cons, ha, hl]

/-- pointwise relation of two lists (core has no `Forall₂`) -/
inductive All₂ {α β : Type} (R : α → β → Prop) : List α → List β → Prop
  | nil : All₂ R [] []
  | cons {a b l l'} : R a b → All₂ R l l' → All₂ R (a :: l) (b :: l')

theorem mapM_some_inv {α β : Type} {f : α → Option β} (l : List α) (l' : List β)
    (h : l.mapM f = some l') : All₂ (fun a b => f a = some b) l l' := by
  induction l generalizing l' with
  | nil => simp at h; subst h; exact .nil
  | cons a l ih =>
    rw [List.mapM_cons] at h
    cases hfa : f a with
    | none => simp [hfa] at h
    | some b =>
      cases hl : l.mapM f with
      | none => simp [hfa, hl] at h
      | some bs =>
        simp [hfa, hl] at h
        subst h
        exact .cons hfa (ih bs hl)

theorem forall₂_length {α β : Type} {R : α → β → Prop} {l : List α} {l' : List β}
    (h : All₂ R l l') : l.length = l'.length := by
  induction h with
  | nil => rfl
  | cons _ _ ih => simp [ih]

theorem forall₂_map_eq {α β γ : Type} {R : α → β → Prop} {l : List α} {l' : List β}
    (h : All₂ R l l') (g : β → γ) (k : α → γ) (hgk : ∀ a b, R a b → g b = k a) :
    l'.map g = l.map k := by
  induction h with
  | nil => rfl
  | cons hab _ ih => simp [ih, hgk _ _ hab]

theorem forall₂_right {α β : Type} {R : α → β → Prop} {l : List α} {l' : List β}
    (h : All₂ R l l') : ∀ b ∈ l', ∃ a ∈ l, R a b := by
  induction h with
  | nil => simp
  | cons hab _ ih =>
    intro b hb
    simp only [List.mem_cons] at hb
    rcases hb with hb | hb
    · subst hb; exact ⟨_, by simp, hab⟩
    · obtain ⟨a, ha, hr⟩ := ih b hb
      exact ⟨a, by simp [ha], hr⟩

theorem forall₂_left {α β : Type} {R : α → β → Prop} {l : List α} {l' : List β}
    (h : All₂ R l l') : ∀ a ∈ l, ∃ b ∈ l', R a b := by
  induction h with
  | nil => simp
  | cons hab _ ih =>
    intro a ha
    simp only [List.mem_cons] at ha
    rcases ha with ha | ha
    · subst ha; exact ⟨_, by simp, hab⟩
    · obtain ⟨b, hb, hr⟩ := ih a ha
      exact ⟨b, by simp [hb], hr⟩

/-! ### encode -/

/-- `Charset[c]` as a total function -/
def chOf (c : UInt8) : UInt8 := charset.getD c.toNat 0

theorem charAt_eq {c : UInt8} (h : c.toNat < 32) : charAt c = some (chOf c) := by simp [charAt, chOf, h]

theorem chOf_facts {c : UInt8} (h : c.toNat < 32) :
    charsetRev (chOf c) = some c ∧ charsetRev (upper1 (chOf c)) = some c ∧
      (isLow (chOf c) || isDig (chOf c)) = true ∧ lower1 (chOf c) = chOf c ∧
      lower1 (upper1 (chOf c)) = chOf c ∧ (isUp (upper1 (chOf c)) || isDig (upper1 (chOf c))) = true := by
  obtain ⟨ch, h1, h2⟩ := charAt_facts c h
  rw [charAt_eq h] at h1
  cases h1
  exact h2

theorem encode_eq (pre pl : Bytes) (h : ∀ x ∈ pl, x.toNat < 32) :
    encode pre pl = some ((pl ++ createChecksum pre pl).map chOf) := by
  unfold encode
  apply mapM_some_of_forall
  intro a ha
  apply charAt_eq
  rcases List.mem_append.mp ha with ha | ha
  · exact h a ha
  · exact createChecksum_lt pre pl a ha

theorem encode_isSome_iff (pre pl : Bytes) : (encode pre pl).isSome ↔ ∀ x ∈ pl, x.toNat < 32 := by
  constructor
  · intro h
    cases he : encode pre pl with
    | none => simp [he] at h
    | some s =>
      have := mapM_some_inv _ _ he
      intro x hx
      obtain ⟨b, _, hb⟩ := forall₂_left this x (by simp [hx])
      unfold charAt at hb
      split at hb
      · assumption
      · cases hb
  · intro h; simp [encode_eq pre pl h]

/-! ### `DecodeCashAddress` forwards -/

theorem decode_ok (P B pre pl ck : Bytes) (hne : P ≠ []) (hP : ∀ c ∈ P, isLetter c = true)
    (hB : ∀ c ∈ B, isAlnum c = true) (hcase : ¬ ((P ++ B).any isUp = true ∧ (P ++ B).any isLow = true))
    (hpre : P.map (· ||| 0x20) = pre) (hmap : B.mapM charsetRev = some (pl ++ ck)) (hck : ck.length = 8)
    (hver : verifyChecksum pre (pl ++ ck) = true) :
    DecodeCashAddress (P ++ 58 :: B) = .ok (pre, pl) := by
  have hl : P.length ≠ 0 := by simpa using hne
  rw [DecodeCashAddress_eq, scan_full P B hne hP hB]
  simp only []
  rw [if_neg hl, if_neg hcase]
  have hd : (P ++ 58 :: B).drop (P.length + 1) = B := by
    rw [show P ++ 58 :: B = (P ++ [58]) ++ B by simp]
    exact List.drop_left' (by simp)
  have ht : (P ++ 58 :: B).take P.length = P := List.take_left' rfl
  rw [hd, ht, hmap, hpre]
  simp only [hver, Bool.not_true, Bool.false_eq_true, if_false]
  rw [if_neg (by simp [hck])]
  simp [hck]

theorem decode_mismatch (P B values : Bytes) (hne : P ≠ []) (hP : ∀ c ∈ P, isLetter c = true)
    (hB : ∀ c ∈ B, isAlnum c = true) (hcase : ¬ ((P ++ B).any isUp = true ∧ (P ++ B).any isLow = true))
    (hmap : B.mapM charsetRev = some values)
    (hver : verifyChecksum (P.map (· ||| 0x20)) values = false) :
    DecodeCashAddress (P ++ 58 :: B) = .error .checksumMismatch := by
  have hl : P.length ≠ 0 := by simpa using hne
  rw [DecodeCashAddress_eq, scan_full P B hne hP hB]
  simp only []
  rw [if_neg hl, if_neg hcase]
  have hd : (P ++ 58 :: B).drop (P.length + 1) = B := by
    rw [show P ++ 58 :: B = (P ++ [58]) ++ B by simp]
    exact List.drop_left' (by simp)
  have ht : (P ++ 58 :: B).take P.length = P := List.take_left' rfl
  rw [hd, ht, hmap]
  simp only [hver, Bool.not_false, if_true]

/-- **decodeCash_encode**: for a non-empty lower-case alphabetic prefix and a 5-bit payload the
    encoded string, as is and upper-cased, decodes to exactly (prefix, payload) -/
theorem decodeCash_encode (pre pl : Bytes) (hne : pre ≠ []) (hpre : ∀ c ∈ pre, isLow c = true)
    (hpl : ∀ x ∈ pl, x.toNat < 32) :
    ∃ s, encode pre pl = some s ∧ s.length = pl.length + 8 ∧
      (∀ c ∈ s, (isLow c || isDig c) = true) ∧
      DecodeCashAddress (pre ++ [58] ++ s) = .ok (pre, pl) ∧
      DecodeCashAddress (upperASCII (pre ++ [58] ++ s)) = .ok (pre, pl) := by
  have hw : ∀ x ∈ pl ++ createChecksum pre pl, x.toNat < 32 := by
    intro x hx
    rcases List.mem_append.mp hx with hx | hx
    · exact hpl x hx
    · exact createChecksum_lt pre pl x hx
  refine ⟨_, encode_eq pre pl hpl, by simp [createChecksum_length], ?_, ?_, ?_⟩
  · intro c hc
    obtain ⟨x, hx, rfl⟩ := List.mem_map.mp hc
    exact (chOf_facts (hw x hx)).2.2.1
  · rw [List.append_assoc, List.singleton_append]
    apply decode_ok pre _ pre pl (createChecksum pre pl) hne
    · intro c hc; simp [isLetter, hpre c hc]
    · intro c hc
      obtain ⟨x, hx, rfl⟩ := List.mem_map.mp hc
      have := (chOf_facts (hw x hx)).2.2.1
      simp only [Bool.or_eq_true] at this
      rcases this with h | h <;> simp [isAlnum, h]
    · intro ⟨hup, _⟩
      obtain ⟨c, hc, hcu⟩ := List.any_eq_true.mp hup
      rcases List.mem_append.mp hc with hc | hc
      · have := ((class_facts c).1 (hpre c hc)).1
        simp [this] at hcu
      · obtain ⟨x, hx, rfl⟩ := List.mem_map.mp hc
        have := (chOf_facts (hw x hx)).2.2.1
        simp only [Bool.or_eq_true] at this
        rcases this with h | h
        · simp [((class_facts _).1 h).1] at hcu
        · simp [((class_facts _).2.2.1 h).2.1] at hcu
    · conv => rhs; rw [← List.map_id pre]
      apply List.map_congr_left
      intro c hc
      exact ((class_facts c).1 (hpre c hc)).2.2.2.2.1
    · apply mapM_map_some
      intro x hx
      exact (chOf_facts (hw x hx)).1
    · exact createChecksum_length pre pl
    · exact verify_create pre pl
  · have e : upperASCII (pre ++ [58] ++ (pl ++ createChecksum pre pl).map chOf)
        = upperASCII pre ++ 58 :: upperASCII ((pl ++ createChecksum pre pl).map chOf) := by
      simp [upperASCII, upper1]
    rw [e]
    apply decode_ok _ _ pre pl (createChecksum pre pl) (by simpa [upperASCII] using hne)
    · intro c hc
      obtain ⟨x, hx, rfl⟩ := List.mem_map.mp hc
      simp [isLetter, ((class_facts x).1 (hpre x hx)).2.2.2.2.2.1]
    · intro c hc
      obtain ⟨y, hy, rfl⟩ := List.mem_map.mp hc
      obtain ⟨x, hx, rfl⟩ := List.mem_map.mp hy
      have := (chOf_facts (hw x hx)).2.2.2.2.2
      simp only [Bool.or_eq_true] at this
      rcases this with h | h <;> simp [isAlnum, h]
    · intro ⟨_, hlow⟩
      obtain ⟨c, hc, hcl⟩ := List.any_eq_true.mp hlow
      rw [upperASCII, upperASCII, ← List.map_append] at hc
      obtain ⟨y, _, rfl⟩ := List.mem_map.mp hc
      have := (class_facts y).2.2.2.2.2.2.2.1
      simp [this] at hcl
    · simp only [upperASCII, List.map_map]
      conv => rhs; rw [← List.map_id pre]
      apply List.map_congr_left
      intro c hc
      exact ((class_facts c).1 (hpre c hc)).2.2.2.2.2.2.2.1
    · simp only [upperASCII, List.map_map]
      apply mapM_map_some
      intro x hx
      exact (chOf_facts (hw x hx)).2.1
    · exact createChecksum_length pre pl
    · exact verify_create pre pl

/-! ### `DecodeCashAddress` backwards -/

theorem decode_inv (str pre pl : Bytes) (h : DecodeCashAddress str = .ok (pre, pl)) :
    ∃ P B ck, str = P ++ 58 :: B ∧ P ≠ [] ∧ (∀ c ∈ P, isLetter c = true) ∧ pre = P.map lower1 ∧
      B.mapM charsetRev = some (pl ++ ck) ∧ ck.length = 8 ∧ verifyChecksum pre (pl ++ ck) = true := by
  rw [DecodeCashAddress_eq] at h
  cases hs : scan str 0 {} with
  | error e => rw [hs] at h; cases h
  | ok st =>
    rw [hs] at h
    simp only [] at h
    by_cases hp : st.prefixSize = 0
    · rw [if_pos hp] at h; cases h
    rw [if_neg hp] at h
    split at h
    · cases h
    obtain ⟨P, B, e, hP, _, hlen⟩ := scan_inv str 0 {} st rfl hs hp
    rw [Nat.zero_add] at hlen
    have hd : str.drop (st.prefixSize + 1) = B := by
      rw [e, hlen, show P ++ 58 :: B = (P ++ [58]) ++ B by simp]
      exact List.drop_left' (by simp)
    have ht : str.take st.prefixSize = P := by rw [e, hlen]; exact List.take_left' rfl
    rw [hd, ht] at h
    cases hm : B.mapM charsetRev with
    | none => rw [hm] at h; cases h
    | some values =>
      rw [hm] at h
      simp only [] at h
      split at h
      · cases h
      split at h
      · cases h
      rename_i hver hl8
      simp only [Except.ok.injEq, Prod.mk.injEq] at h
      obtain ⟨h1, h2⟩ := h
      have hpre : pre = P.map lower1 := by
        rw [← h1]
        apply List.map_congr_left
        intro c hc
        have := hP c hc
        simp only [isLetter, Bool.or_eq_true] at this
        rcases this with hc | hc
        · have := (class_facts c).1 hc
          rw [this.2.2.2.2.1, this.2.2.2.1]
        · exact ((class_facts c).2.1 hc).2.2.2.1
      refine ⟨P, B, values.drop (values.length - 8), e, ?_, hP, hpre, ?_, ?_, ?_⟩
      · intro hnil; subst hnil; exact hp hlen
      · rw [← h2, List.take_append_drop]; exact hm
      · simp only [List.length_drop]; omega
      · rw [← h2, List.take_append_drop, ← h1]
        simpa using hver

/-- what an accepted CashAddr string looks like after ASCII case folding: the decoded prefix,
    a colon and the canonical encoding of the decoded payload -/
theorem decode_canonical (str pre pl : Bytes) (h : DecodeCashAddress str = .ok (pre, pl)) :
    ∃ enc, encode pre pl = some enc ∧ str.map lower1 = pre ++ 58 :: enc ∧ 58 ∉ pre ∧ 58 ∉ enc ∧
      pre ≠ [] ∧ (∀ c ∈ pre, isLow c = true) ∧ (∀ x ∈ pl, x.toNat < 32) ∧ enc.length = pl.length + 8 := by
  obtain ⟨P, B, ck, e, hne, hP, hpre, hm, hck, hver⟩ := decode_inv str pre pl h
  have hrel := mapM_some_inv _ _ hm
  have hlt : ∀ x ∈ pl ++ ck, x.toNat < 32 := by
    intro x hx
    obtain ⟨a, _, ha⟩ := forall₂_right hrel x hx
    exact (charsetRev_facts ha).1
  have hpl : ∀ x ∈ pl, x.toNat < 32 := fun x hx => hlt x (by simp [hx])
  have hckl : ∀ x ∈ ck, x.toNat < 32 := fun x hx => hlt x (by simp [hx])
  have hcke : ck = createChecksum pre pl := (verify_iff pre pl ck hck hckl).mp hver
  have hB : B.map lower1 = (pl ++ ck).map chOf := by
    symm
    apply forall₂_map_eq hrel
    intro a b hab
    have := charsetRev_facts hab
    rw [charAt_eq this.1] at this
    exact Option.some.inj this.2.1
  have hlowP : ∀ c ∈ pre, isLow c = true := by
    intro c hc
    rw [hpre] at hc
    obtain ⟨x, hx, rfl⟩ := List.mem_map.mp hc
    have := hP x hx
    simp only [isLetter, Bool.or_eq_true] at this
    rcases this with hx | hx
    · rw [((class_facts x).1 hx).2.2.2.1]; exact hx
    · exact ((class_facts x).2.1 hx).2.2.2.2.1
  refine ⟨_, encode_eq pre pl hpl, ?_, ?_, ?_, ?_, hlowP, hpl, by simp [createChecksum_length]⟩
  · rw [e, List.map_append, List.map_cons, hB, ← hpre, hcke]; rfl
  · intro h58
    exact ((class_facts 58).1 (hlowP 58 h58)).2.2.1 rfl
  · intro h58
    obtain ⟨x, hx, hx58⟩ := List.mem_map.mp h58
    have hx32 : x.toNat < 32 := by
      rcases List.mem_append.mp hx with hx | hx
      · exact hpl x hx
      · exact createChecksum_lt pre pl x hx
    have := (chOf_facts hx32).2.2.1
    rw [hx58] at this
    revert this; decide
  · rw [hpre]; simpa using hne

/-- length bookkeeping for an accepted string -/
theorem decode_length (str pre pl : Bytes) (h : DecodeCashAddress str = .ok (pre, pl)) :
    str.length = pre.length + 1 + pl.length + 8 := by
  obtain ⟨enc, _, hs, _, _, _, _, _, hl⟩ := decode_canonical str pre pl h
  have := congrArg List.length hs
  simp only [List.length_map, List.length_append, List.length_cons] at this
  omega

end Bch.Proofs.CashAddr
