import Bch.Model.CashAddr
/-
Proofs about `convertBits` (the 8↔5 bit regrouping of CashAddr payloads).

Regrouping is specified on the big-endian NUMBER: `beVal fr data` is the value of `data` read as
base-`2^fr` digits, and chunk `j` of a `T`-bit number `X` in width `to` is
`X / 2^(T - to*(j+1)) % 2^to`.
-/
namespace Bch.Proofs.CashAddr
open Bch Bch.Model.CashAddr

/-- chunk j (0 = most significant) of a T-bit big-endian number X, chunk width `to` -/
def chunk (to X T j : Nat) : Nat := (X / 2^(T - to*(j+1))) % 2^to

/-- big-endian value of `data` read as base-2^fr digits -/
def beVal (fr : Nat) (data : List Nat) : Nat := data.foldl (fun x v => x * 2^fr + v) 0

/-! ### arithmetic helpers -/

theorem div_mod_congr {a b m s t : Nat} (h : a % 2^m = b % 2^m) (hst : s + t ≤ m) :
    (a / 2^s) % 2^t = (b / 2^s) % 2^t := by
  have e : ∀ x : Nat, (x / 2^s) % 2^t = ((x % 2^m) / 2^s) % 2^t := by
    intro x
    have hm : 2^m = 2^s * 2^(m - s) := by rw [← Nat.pow_add]; congr 1; omega
    have ht : 2^(m-s) = 2^t * 2^(m - s - t) := by rw [← Nat.pow_add]; congr 1; omega
    rw [hm, Nat.mod_mul_right_div_self, ht, Nat.mod_mul_right_mod]
  rw [e a, e b, h]

theorem mod_congr_le {a b m t : Nat} (h : a % 2^m = b % 2^m) (ht : t ≤ m) :
    a % 2^t = b % 2^t := by
  have := @div_mod_congr a b m 0 t h (by omega)
  simpa using this

/-- the padding word: `acc` shifted up to a full output word -/
theorem pad_val {acc X b to : Nat} (hb : b ≤ to) (h : acc % 2^b = X % 2^b) :
    (acc * 2^(to - b)) % 2^to = (X % 2^b) * 2^(to - b) := by
  have e : 2^to = 2^b * 2^(to - b) := by rw [← Nat.pow_add]; congr 1; omega
  rw [e, Nat.mul_mod_mul_right, h]

/-! ### the emit loop -/

/-- `cbEmit` produces exactly the chunks of Y between bit positions, given acc ≡ Y below `bits` -/
theorem cbEmit_spec (to : Nat) (hto : 0 < to) (acc Y : Nat) :
    ∀ f bits out, bits ≤ f → acc % 2^bits = Y % 2^bits →
      cbEmit to (2^to - 1) f ⟨acc, bits, out⟩ =
        ⟨acc, bits % to,
          out ++ (List.range (bits / to)).map (fun j => (Y / 2^(bits - to*(j+1))) % 2^to)⟩ := by
  intro f
  induction f with
  | zero =>
    intro bits out hb _
    have : bits = 0 := by omega
    subst this
    simp [cbEmit]
  | succ f ih =>
    intro bits out hb hacc
    unfold cbEmit
    by_cases h : to ≤ bits
    · simp only [ge_iff_le, h, if_true]
      have hacc' : acc % 2^(bits - to) = Y % 2^(bits - to) := mod_congr_le hacc (by omega)
      rw [ih (bits - to) _ (by omega) hacc']
      have hd : bits / to = (bits - to) / to + 1 := Nat.div_eq_sub_div hto h
      have hm : bits % to = (bits - to) % to := Nat.mod_eq_sub_mod h
      rw [hd, hm, List.range_succ_eq_map, List.map_cons, List.map_map, List.append_assoc]
      congr 2
      · simp only [List.singleton_append, List.cons.injEq]
        constructor
        · rw [Nat.shiftRight_eq_div_pow, Nat.and_two_pow_sub_one_eq_mod]
          have := @div_mod_congr acc Y bits (bits - to) to hacc (by omega)
          simpa using this
        · apply List.map_congr_left
          intro j _
          simp only [Function.comp, Nat.succ_eq_add_one]
          have : bits - to * (j + 1 + 1) = bits - to - to * (j + 1) := by
            rw [Nat.mul_succ to (j+1)]; omega
          rw [this]
    · simp only [ge_iff_le, h, if_false]
      have h1 : bits / to = 0 := Nat.div_eq_of_lt (by omega)
      have h2 : bits % to = bits := Nat.mod_eq_of_lt (by omega)
      simp [h1, h2]

/-- value-independent part of `cbEmit`: the counter and the number of emitted words -/
theorem cbEmit_bits_len (to maxv : Nat) (hto : 0 < to) :
    ∀ f (st : CB), st.bits ≤ f →
      (cbEmit to maxv f st).bits = st.bits % to ∧
      (cbEmit to maxv f st).ret.length = st.ret.length + st.bits / to := by
  intro f
  induction f with
  | zero =>
    intro st hb
    have : st.bits = 0 := by omega
    simp [cbEmit, this]
  | succ f ih =>
    intro st hb
    unfold cbEmit
    by_cases h : to ≤ st.bits
    · simp only [ge_iff_le, h, if_true]
      obtain ⟨i1, i2⟩ := ih ⟨st.acc, st.bits - to, st.ret ++ [(st.acc >>> (st.bits - to)) &&& maxv]⟩
        (by simp only; omega)
      rw [i1, i2]
      have hd : st.bits / to = (st.bits - to) / to + 1 := Nat.div_eq_sub_div hto h
      have hm : st.bits % to = (st.bits - to) % to := Nat.mod_eq_sub_mod h
      simp only [List.length_append, List.length_singleton]
      omega
    · simp only [ge_iff_le, h, if_false]
      have h1 : st.bits / to = 0 := Nat.div_eq_of_lt (by omega)
      have h2 : st.bits % to = st.bits := Nat.mod_eq_of_lt (by omega)
      simp [h1, h2]

/-! ### the accumulator loop -/

/-- one iteration of the `for` loop of `convertBits` on a `Nat` input word -/
def mstep (fr to : Nat) (st : CB) (v : Nat) : CB :=
  cbEmit to ((1 <<< to) - 1) (fr + to)
    ⟨((st.acc <<< fr) ||| v) &&& ((1 <<< (fr + to - 1)) - 1), st.bits + fr, st.ret⟩

/-- the whole loop -/
def loop (fr to : Nat) (d : List Nat) : CB := d.foldl (mstep fr to) {}

theorem convertBits_def (data : Bytes) (fr to : Nat) (pad : Bool) :
    convertBits data fr to pad =
      if pad then
        some ((if (loop fr to (data.map UInt8.toNat)).bits > 0 then
            (loop fr to (data.map UInt8.toNat)).ret ++
              [((loop fr to (data.map UInt8.toNat)).acc <<<
                  (to - (loop fr to (data.map UInt8.toNat)).bits)) &&& ((1 <<< to) - 1)]
          else (loop fr to (data.map UInt8.toNat)).ret).map UInt8.ofNat)
      else if (loop fr to (data.map UInt8.toNat)).bits ≥ fr ∨
          (((loop fr to (data.map UInt8.toNat)).acc <<<
              (to - (loop fr to (data.map UInt8.toNat)).bits)) &&& ((1 <<< to) - 1)) ≠ 0 then none
      else some ((loop fr to (data.map UInt8.toNat)).ret.map UInt8.ofNat) := by
  unfold convertBits loop
  rw [List.foldl_map]
  rfl

theorem mstep_eq (fr to : Nat) (s : CB) (v : Nat) (hv : v < 2^fr) :
    mstep fr to s v =
      cbEmit to (2^to - 1) (fr + to) ⟨(s.acc * 2^fr + v) % 2^(fr + to - 1), s.bits + fr, s.ret⟩ := by
  unfold mstep
  rw [Nat.one_shiftLeft, Nat.one_shiftLeft, Nat.and_two_pow_sub_one_eq_mod,
    ← Nat.shiftLeft_add_eq_or_of_lt hv, Nat.shiftLeft_eq]

/-- the loop invariant after consuming a prefix with value X and T bits -/
def LInv (to : Nat) (s : CB) (X T : Nat) : Prop :=
  s.bits = T % to ∧ s.acc % 2^s.bits = X % 2^s.bits ∧
  s.ret = (List.range (T / to)).map (chunk to X T)

theorem mstep_inv (fr to : Nat) (hfr : 0 < fr) (hto : 0 < to) (s : CB) (X T v : Nat)
    (hv : v < 2^fr) (h : LInv to s X T) :
    LInv to (mstep fr to s v) (X * 2^fr + v) (T + fr) := by
  obtain ⟨hb, ha, ho⟩ := h
  have hbl : s.bits < to := by rw [hb]; exact Nat.mod_lt _ hto
  -- acc' agrees with X' below bits+fr
  have hacc : ((s.acc * 2^fr + v) % 2^(fr + to - 1)) % 2^(s.bits + fr)
      = (X * 2^fr + v) % 2^(s.bits + fr) := by
    rw [Nat.mod_mod_of_dvd _ (Nat.pow_dvd_pow 2 (by omega))]
    have e : ∀ a : Nat, (a * 2^fr + v) % 2^(s.bits + fr) = (a % 2^s.bits) * 2^fr + v := by
      intro a
      rw [Nat.pow_add]
      have h1 : a * 2^fr + v = (a % 2^s.bits) * 2^fr + v + (2^s.bits * 2^fr) * (a / 2^s.bits) := by
        have := Nat.mod_add_div a (2^s.bits)
        calc a * 2^fr + v = ((a % 2^s.bits) + 2^s.bits * (a / 2^s.bits)) * 2^fr + v := by rw [this]
          _ = _ := by rw [Nat.add_mul, Nat.mul_right_comm]; omega
      rw [h1, Nat.add_mul_mod_self_left]
      apply Nat.mod_eq_of_lt
      have h2 : a % 2^s.bits < 2^s.bits := Nat.mod_lt _ (Nat.two_pow_pos _)
      calc (a % 2^s.bits) * 2^fr + v < (a % 2^s.bits) * 2^fr + 2^fr := by omega
        _ = (a % 2^s.bits + 1) * 2^fr := by rw [Nat.add_mul]; omega
        _ ≤ 2^s.bits * 2^fr := Nat.mul_le_mul_right _ h2
    rw [e s.acc, e X, ha]
  have hemit := cbEmit_spec to hto ((s.acc * 2^fr + v) % 2^(fr + to - 1)) (X * 2^fr + v)
      (fr + to) (s.bits + fr) s.ret (by omega) hacc
  have hT : T = to * (T / to) + s.bits := by rw [hb]; exact (Nat.div_add_mod T to).symm
  rw [mstep_eq fr to s v hv, hemit]
  refine ⟨?_, ?_, ?_⟩
  · show (s.bits + fr) % to = (T + fr) % to
    rw [hb, Nat.mod_add_mod]
  · show ((s.acc * 2^fr + v) % 2^(fr + to - 1)) % 2^((s.bits + fr) % to) = _ % 2^((s.bits + fr) % to)
    exact mod_congr_le hacc (Nat.mod_le _ _)
  · show s.ret ++ _ = _
    have hq : (T + fr) / to = T / to + (s.bits + fr) / to := by
      conv => lhs; rw [hT]
      rw [Nat.add_assoc, Nat.mul_add_div hto]
    rw [hq, List.range_add, List.map_append, ho, List.map_map]
    congr 1
    · apply List.map_congr_left
      intro j hj
      have hj' : j < T / to := List.mem_range.mp hj
      unfold chunk
      have hle : to * (j + 1) ≤ T := by
        calc to * (j+1) ≤ to * (T / to) := Nat.mul_le_mul_left _ hj'
          _ ≤ T := Nat.mul_div_le T to
      have : T + fr - to * (j + 1) = fr + (T - to * (j + 1)) := by omega
      rw [this, Nat.pow_add, ← Nat.div_div_eq_div_mul]
      congr 2
      rw [Nat.mul_comm X, Nat.mul_add_div (Nat.two_pow_pos _), Nat.div_eq_of_lt hv, Nat.add_zero]
    · apply List.map_congr_left
      intro j _
      simp only [Function.comp, chunk]
      have : T + fr - to * (T / to + j + 1) = s.bits + fr - to * (j + 1) := by
        have e1 : to * (T / to + j + 1) = to * (T / to) + to * (j + 1) := by
          rw [Nat.add_assoc, Nat.mul_add]
        rw [e1]; omega
      rw [this]

theorem foldl_inv (fr to : Nat) (hfr : 0 < fr) (hto : 0 < to) :
    ∀ (d : List Nat) (s : CB) (X T : Nat), (∀ x ∈ d, x < 2^fr) → LInv to s X T →
      LInv to (d.foldl (mstep fr to) s) (d.foldl (fun x v => x * 2^fr + v) X)
        (T + fr * d.length) := by
  intro d
  induction d with
  | nil => intro s X T _ h; simpa using h
  | cons a d ih =>
    intro s X T hd h
    simp only [List.foldl_cons, List.length_cons]
    have := ih (mstep fr to s a) (X * 2^fr + a) (T + fr)
      (fun x hx => hd x (List.mem_cons_of_mem _ hx))
      (mstep_inv fr to hfr hto s X T a (hd a List.mem_cons_self) h)
    have e : T + fr * (d.length + 1) = T + fr + fr * d.length := by
      rw [Nat.mul_succ]; omega
    rw [e]; exact this

theorem loop_inv (fr to : Nat) (hfr : 0 < fr) (hto : 0 < to) (d : List Nat)
    (hd : ∀ x ∈ d, x < 2^fr) : LInv to (loop fr to d) (beVal fr d) (fr * d.length) := by
  have h0 : LInv to ({} : CB) 0 0 := by simp [LInv]
  have := foldl_inv fr to hfr hto d {} 0 0 hd h0
  simpa [loop, beVal] using this

/-! ### value-independent part of the loop (no bound on the input words) -/

theorem mstep_bits_len (fr to : Nat) (hto : 0 < to) (s : CB) (v : Nat) (hb : s.bits < to) :
    (mstep fr to s v).bits = (s.bits + fr) % to ∧
    (mstep fr to s v).ret.length = s.ret.length + (s.bits + fr) / to :=
  cbEmit_bits_len to _ hto (fr + to) ⟨_, s.bits + fr, s.ret⟩ (by simp only; omega)

theorem foldl_bits_len (fr to : Nat) (hto : 0 < to) :
    ∀ (d : List Nat) (s : CB) (T : Nat), s.bits = T % to → s.ret.length = T / to →
      (d.foldl (mstep fr to) s).bits = (T + fr * d.length) % to ∧
      (d.foldl (mstep fr to) s).ret.length = (T + fr * d.length) / to := by
  intro d
  induction d with
  | nil => intro s T h1 h2; simpa using ⟨h1, h2⟩
  | cons a d ih =>
    intro s T h1 h2
    simp only [List.foldl_cons, List.length_cons]
    have hbl : s.bits < to := by rw [h1]; exact Nat.mod_lt _ hto
    obtain ⟨m1, m2⟩ := mstep_bits_len fr to hto s a hbl
    have hT : T = to * (T / to) + s.bits := by rw [h1]; exact (Nat.div_add_mod T to).symm
    have hq : (T + fr) / to = T / to + (s.bits + fr) / to := by
      conv => lhs; rw [hT]
      rw [Nat.add_assoc, Nat.mul_add_div hto]
    have := ih (mstep fr to s a) (T + fr) (by rw [m1, h1, Nat.mod_add_mod]) (by rw [m2, h2, hq])
    have e : T + fr * (d.length + 1) = T + fr + fr * d.length := by
      rw [Nat.mul_succ]; omega
    rw [e]; exact this

theorem loop_bits_len (fr to : Nat) (hto : 0 < to) (d : List Nat) :
    (loop fr to d).bits = (fr * d.length) % to ∧ (loop fr to d).ret.length = (fr * d.length) / to := by
  have := foldl_bits_len fr to hto d {} 0 (by simp) (by simp)
  simpa [loop] using this

/-! ### number-level lemmas: `beVal` and `chunk` -/

theorem beVal_append_singleton (w : Nat) (l : List Nat) (a : Nat) :
    beVal w (l ++ [a]) = beVal w l * 2^w + a := by
  simp [beVal, List.foldl_append]

theorem foldl_shift (w : Nat) : ∀ (d : List Nat) (X : Nat),
    d.foldl (fun x v => x * 2^w + v) X = X * 2^(w * d.length) + beVal w d := by
  intro d
  induction d with
  | nil => intro X; simp [beVal]
  | cons a d ih =>
    intro X
    have e1 := ih (X * 2^w + a)
    have e2 := ih (0 * 2^w + a)
    simp only [beVal, List.foldl_cons, List.length_cons] at *
    rw [e1, e2, Nat.mul_succ, Nat.pow_add, Nat.add_mul, Nat.zero_mul, Nat.zero_add,
      Nat.mul_comm (2 ^ (w * d.length)) (2 ^ w), Nat.mul_assoc, Nat.add_assoc]

theorem beVal_cons (w a : Nat) (d : List Nat) :
    beVal w (a :: d) = a * 2^(w * d.length) + beVal w d := by
  have := foldl_shift w d (0 * 2^w + a)
  simpa [beVal] using this

theorem beVal_lt (w : Nat) : ∀ (d : List Nat), (∀ x ∈ d, x < 2^w) → beVal w d < 2^(w * d.length) := by
  intro d
  induction d with
  | nil => intro _; simp [beVal]
  | cons a d ih =>
    intro hd
    have ha : a < 2^w := hd a List.mem_cons_self
    have hB := ih (fun x hx => hd x (List.mem_cons_of_mem _ hx))
    rw [beVal_cons, List.length_cons, Nat.mul_succ, Nat.add_comm (w * d.length) w, Nat.pow_add]
    calc a * 2^(w * d.length) + beVal w d < a * 2^(w * d.length) + 2^(w * d.length) := by omega
      _ = (a + 1) * 2^(w * d.length) := by rw [Nat.add_mul]; omega
      _ ≤ 2^w * 2^(w * d.length) := Nat.mul_le_mul_right _ ha

/-- (b) the chunks of `beVal w d` are the words of `d` -/
theorem chunks_beVal (w : Nat) : ∀ (d : List Nat), (∀ x ∈ d, x < 2^w) →
    (List.range d.length).map (chunk w (beVal w d) (w * d.length)) = d := by
  intro d
  induction d with
  | nil => intro _; simp
  | cons a d ih =>
    intro hd
    have ha : a < 2^w := hd a List.mem_cons_self
    have hd' : ∀ x ∈ d, x < 2^w := fun x hx => hd x (List.mem_cons_of_mem _ hx)
    have hB := beVal_lt w d hd'
    rw [List.length_cons, List.range_succ_eq_map, List.map_cons, List.map_map, beVal_cons]
    congr 1
    · unfold chunk
      have : w * (d.length + 1) - w * (0 + 1) = w * d.length := by rw [Nat.mul_succ]; omega
      rw [this, Nat.mul_comm a, Nat.mul_add_div (Nat.two_pow_pos _), Nat.div_eq_of_lt hB,
        Nat.add_zero, Nat.mod_eq_of_lt ha]
    · conv => rhs; rw [← ih hd']
      apply List.map_congr_left
      intro j hj
      have hj' : j < d.length := List.mem_range.mp hj
      simp only [Function.comp, chunk, Nat.succ_eq_add_one]
      have hle : w * (j + 1) ≤ w * d.length := Nat.mul_le_mul_left _ hj'
      have : w * (d.length + 1) - w * (j + 1 + 1) = w * d.length - w * (j + 1) := by
        rw [Nat.mul_succ w d.length, Nat.mul_succ w (j + 1)]; omega
      rw [this]
      apply @div_mod_congr _ _ (w * d.length)
      · rw [Nat.mul_add_mod_self_right]
      · have h3 : w * (j + 1) = w * j + w := Nat.mul_succ w j
        omega

/-- `beVal` is injective on lists of the same length with words below `2^w` -/
theorem beVal_inj (w : Nat) (d₁ d₂ : List Nat) (h₁ : ∀ x ∈ d₁, x < 2^w) (h₂ : ∀ x ∈ d₂, x < 2^w)
    (hl : d₁.length = d₂.length) (hv : beVal w d₁ = beVal w d₂) : d₁ = d₂ := by
  rw [← chunks_beVal w d₁ h₁, ← chunks_beVal w d₂ h₂, hl, hv]

/-- the value of the first `k` chunks -/
theorem beVal_chunks (w X T : Nat) : ∀ k, w * k ≤ T →
    beVal w ((List.range k).map (chunk w X T)) = (X / 2^(T - w * k)) % 2^(w * k) := by
  intro k
  induction k with
  | zero => intro _; simp [beVal, Nat.mod_one]
  | succ k ih =>
    intro hk
    have hk' : w * k ≤ T := by rw [Nat.mul_succ] at hk; omega
    rw [List.range_succ, List.map_append, List.map_cons, List.map_nil, beVal_append_singleton,
      ih hk']
    unfold chunk
    have e : T - w * k = (T - w * (k + 1)) + w := by rw [Nat.mul_succ] at hk ⊢; omega
    rw [e, Nat.pow_add, ← Nat.div_div_eq_div_mul]
    generalize X / 2 ^ (T - w * (k + 1)) = Z
    have e2 : 2 ^ (w * (k + 1)) = 2^w * 2^(w * k) := by
      rw [← Nat.pow_add]; congr 1; rw [Nat.mul_succ]; omega
    rw [e2, Nat.mod_mul, Nat.mul_comm (2^w)]
    omega

theorem chunk_lt (to X T j : Nat) : chunk to X T j < 2^to := Nat.mod_lt _ (Nat.two_pow_pos _)

/-- (c) appending `p` zero bits does not change the chunks that lie inside the original `T` bits -/
theorem chunk_shift (to X T p j : Nat) (h : to * (j + 1) ≤ T) :
    chunk to (X * 2^p) (T + p) j = chunk to X T j := by
  unfold chunk
  have e : T + p - to * (j + 1) = (T - to * (j + 1)) + p := by omega
  rw [e, Nat.pow_add, Nat.mul_div_mul_right _ _ (Nat.two_pow_pos _)]

/-! ### the output of `convertBits` on the number level -/

/-- the zero-padded regrouping of `d` (words of `fr` bits) into words of `to` bits -/
def padded (fr to : Nat) (d : List Nat) : List Nat :=
  (List.range (fr * d.length / to)).map (chunk to (beVal fr d) (fr * d.length)) ++
    if 0 < fr * d.length % to then
      [(beVal fr d % 2^(fr * d.length % to)) * 2^(to - fr * d.length % to)] else []

/-- full description of `convertBits` for in-range input words -/
theorem convertBits_spec (data : Bytes) (fr to : Nat) (hfr : 0 < fr) (hto : 0 < to)
    (hd : ∀ x ∈ data, x.toNat < 2^fr) (pad : Bool) :
    convertBits data fr to pad =
      if pad then some ((padded fr to (data.map UInt8.toNat)).map UInt8.ofNat)
      else if fr ≤ fr * data.length % to ∨
          beVal fr (data.map UInt8.toNat) % 2^(fr * data.length % to) ≠ 0 then none
      else some (((List.range (fr * data.length / to)).map
          (chunk to (beVal fr (data.map UInt8.toNat)) (fr * data.length))).map UInt8.ofNat) := by
  have hd' : ∀ x ∈ data.map UInt8.toNat, x < 2^fr := by
    intro x hx
    obtain ⟨y, hy, rfl⟩ := List.mem_map.mp hx
    exact hd y hy
  have hinv := loop_inv fr to hfr hto (data.map UInt8.toNat) hd'
  rw [convertBits_def, padded]
  rw [List.length_map] at *
  generalize loop fr to (data.map UInt8.toNat) = st at *
  generalize beVal fr (data.map UInt8.toNat) = X at *
  obtain ⟨acc, bits, ret⟩ := st
  obtain ⟨hb, ha, ho⟩ := hinv
  simp only at hb ha ho
  subst hb ho
  have hlt : fr * data.length % to < to := Nat.mod_lt _ hto
  simp only [Nat.one_shiftLeft, Nat.and_two_pow_sub_one_eq_mod]
  simp only [Nat.shiftLeft_eq, pad_val (Nat.le_of_lt hlt) ha]
  have hz : (X % 2 ^ (fr * data.length % to) * 2 ^ (to - fr * data.length % to) ≠ 0) ↔
      X % 2 ^ (fr * data.length % to) ≠ 0 := by
    have := Nat.two_pow_pos (to - fr * data.length % to)
    rw [Ne, Nat.mul_eq_zero]
    omega
  cases pad
  · simp only [Bool.false_eq_true, if_false, hz, ge_iff_le]
  · simp only [if_true, gt_iff_lt]
    split <;> simp only [List.append_nil]

theorem padded_lt (fr to : Nat) (hto : 0 < to) (d : List Nat) : ∀ x ∈ padded fr to d, x < 2^to := by
  intro x hx
  unfold padded at hx
  rcases List.mem_append.mp hx with h | h
  · obtain ⟨j, _, rfl⟩ := List.mem_map.mp h
    exact chunk_lt _ _ _ _
  · split at h
    · rw [List.mem_singleton] at h
      subst h
      have hlt : fr * d.length % to < to := Nat.mod_lt _ hto
      have e : 2^to = 2^(fr * d.length % to) * 2^(to - fr * d.length % to) := by
        rw [← Nat.pow_add]; congr 1; omega
      rw [e]
      exact Nat.mul_lt_mul_of_pos_right (Nat.mod_lt _ (Nat.two_pow_pos _)) (Nat.two_pow_pos _)
    · simp at h

theorem padded_length (fr to : Nat) (d : List Nat) :
    (padded fr to d).length = fr * d.length / to + if 0 < fr * d.length % to then 1 else 0 := by
  unfold padded
  rw [List.length_append, List.length_map, List.length_range]
  split <;> simp

/-- (d) the padded output is the number `X` followed by `p = (to - T % to) % to` zero bits -/
theorem beVal_padded (fr to : Nat) (hto : 0 < to) (d : List Nat) (hd : ∀ x ∈ d, x < 2^fr) :
    beVal to (padded fr to d) = beVal fr d * 2^((to - fr * d.length % to) % to) := by
  have hX := beVal_lt fr d hd
  unfold padded
  generalize beVal fr d = X at *
  generalize fr * d.length = T at *
  have hT : to * (T / to) + T % to = T := Nat.div_add_mod T to
  have hlt : T % to < to := Nat.mod_lt _ hto
  have hmain : beVal to ((List.range (T / to)).map (chunk to X T)) = X / 2^(T % to) := by
    rw [beVal_chunks to X T (T / to) (Nat.mul_div_le T to)]
    have e : T - to * (T / to) = T % to := by omega
    rw [e]
    apply Nat.mod_eq_of_lt
    rw [Nat.div_lt_iff_lt_mul (Nat.two_pow_pos _), ← Nat.pow_add, hT]
    exact hX
  split
  · rename_i hpos
    rw [beVal_append_singleton, hmain]
    have hp : (to - T % to) % to = to - T % to := Nat.mod_eq_of_lt (by omega)
    have e : 2^to = 2^(T % to) * 2^(to - T % to) := by
      rw [← Nat.pow_add]; congr 1; omega
    rw [hp, e, ← Nat.mul_assoc, ← Nat.add_mul, Nat.div_add_mod']
  · rename_i hpos
    have h0 : T % to = 0 := by omega
    rw [List.append_nil, hmain, h0]
    simp

/-! ### `UInt8` glue -/

theorem map_toNat_ofNat (l : List Nat) (h : ∀ x ∈ l, x < 256) :
    (l.map UInt8.ofNat).map UInt8.toNat = l := by
  rw [List.map_map]
  conv => rhs; rw [← List.map_id l]
  apply List.map_congr_left
  intro x hx
  simp only [Function.comp, UInt8.toNat_ofNat', id]
  exact Nat.mod_eq_of_lt (h x hx)

theorem map_ofNat_toNat (bs : Bytes) : (bs.map UInt8.toNat).map UInt8.ofNat = bs := by
  rw [List.map_map]
  conv => rhs; rw [← List.map_id bs]
  apply List.map_congr_left
  intro x _
  simp only [Function.comp, UInt8.ofNat_toNat, id]

theorem toNat_lt_of_mem (bs : Bytes) : ∀ x ∈ bs.map UInt8.toNat, x < 2^8 := by
  intro x hx
  obtain ⟨y, _, rfl⟩ := List.mem_map.mp hx
  exact UInt8.toNat_lt y

theorem mem_map_toNat_of_bound {v : Bytes} {k : Nat} (hv : ∀ x ∈ v, x.toNat < k) :
    ∀ x ∈ v.map UInt8.toNat, x < k := by
  intro x hx
  obtain ⟨y, hy, rfl⟩ := List.mem_map.mp hx
  exact hv y hy

/-! ### 8 → 5 with padding -/

theorem convertBits_8_5_eq (bs : Bytes) :
    convertBits bs 8 5 true = some ((padded 8 5 (bs.map UInt8.toNat)).map UInt8.ofNat) := by
  rw [convertBits_spec bs 8 5 (by decide) (by decide) (fun x _ => UInt8.toNat_lt x) true]
  rfl

theorem padded_8_5_lt (d : List Nat) : ∀ x ∈ padded 8 5 d, x < 32 :=
  padded_lt 8 5 (by decide) d

theorem padded_8_5_length (d : List Nat) : (padded 8 5 d).length = (8 * d.length + 4) / 5 := by
  rw [padded_length]
  split <;> omega

/-- number-level round trip: regrouping the padded 5-bit words into bytes gives the bytes back,
    with fewer than 5 padding bits, all zero -/
theorem roundtrip_nat (d : List Nat) (hd : ∀ x ∈ d, x < 2^8) :
    5 * (padded 8 5 d).length % 8 < 5 ∧
    beVal 5 (padded 8 5 d) % 2^(5 * (padded 8 5 d).length % 8) = 0 ∧
    (List.range (5 * (padded 8 5 d).length / 8)).map
      (chunk 8 (beVal 5 (padded 8 5 d)) (5 * (padded 8 5 d).length)) = d := by
  have hY := beVal_padded 8 5 (by decide) d hd
  have hl := padded_8_5_length d
  generalize hp : (5 - 8 * d.length % 5) % 5 = p at hY
  have hT : 5 * (padded 8 5 d).length = 8 * d.length + p := by omega
  have h8 : (8 * d.length + p) % 8 = p := by omega
  have hq : (8 * d.length + p) / 8 = d.length := by omega
  rw [hT, h8, hq, hY]
  refine ⟨by omega, Nat.mul_mod_left _ _, ?_⟩
  conv => rhs; rw [← chunks_beVal 8 d hd]
  apply List.map_congr_left
  intro j hj
  have hj' : j < d.length := List.mem_range.mp hj
  exact chunk_shift 8 _ _ p j (by omega)

/-- number-level canonicity: an accepted 5-bit string is the padded regrouping of its bytes -/
theorem canonical_nat (w : List Nat) (hw : ∀ x ∈ w, x < 2^5) (h1 : 5 * w.length % 8 < 5)
    (h2 : beVal 5 w % 2^(5 * w.length % 8) = 0) :
    padded 8 5 ((List.range (5 * w.length / 8)).map (chunk 8 (beVal 5 w) (5 * w.length))) = w := by
  have hYlt := beVal_lt 5 w hw
  generalize hc : (List.range (5 * w.length / 8)).map (chunk 8 (beVal 5 w) (5 * w.length)) = c
  have hcl : c.length = 5 * w.length / 8 := by rw [← hc]; simp
  have hcb : ∀ x ∈ c, x < 2^8 := by
    intro x hx
    rw [← hc] at hx
    obtain ⟨j, _, rfl⟩ := List.mem_map.mp hx
    exact chunk_lt _ _ _ _
  have hX : beVal 8 c = beVal 5 w / 2^(5 * w.length % 8) := by
    rw [← hc, beVal_chunks 8 _ _ _ (Nat.mul_div_le _ _)]
    have e : 5 * w.length - 8 * (5 * w.length / 8) = 5 * w.length % 8 := by omega
    rw [e]
    apply Nat.mod_eq_of_lt
    rw [Nat.div_lt_iff_lt_mul (Nat.two_pow_pos _), ← Nat.pow_add]
    have e2 : 8 * (5 * w.length / 8) + 5 * w.length % 8 = 5 * w.length := by omega
    rw [e2]; exact hYlt
  apply beVal_inj 5 _ _ (padded_lt 8 5 (by decide) c) hw
  · rw [padded_8_5_length, hcl]; omega
  · rw [beVal_padded 8 5 (by decide) c hcb, hX, hcl]
    have e : (5 - 8 * (5 * w.length / 8) % 5) % 5 = 5 * w.length % 8 := by omega
    rw [e]
    exact Nat.div_mul_cancel (Nat.dvd_of_mod_eq_zero h2)

/-! ### the required theorems -/

/-- 1. 8→5 with padding always succeeds, yields 5-bit words, `⌈8n/5⌉` of them, and 5→8 without
    padding inverts it. -/
theorem convertBits_8_5_roundtrip (bs : Bytes) :
    ∃ v, convertBits bs 8 5 true = some v ∧ (∀ x ∈ v, x.toNat < 32) ∧
      v.length = (8 * bs.length + 4) / 5 ∧ convertBits v 5 8 false = some bs := by
  refine ⟨_, convertBits_8_5_eq bs, ?_, ?_, ?_⟩
  · intro x hx
    obtain ⟨y, hy, rfl⟩ := List.mem_map.mp hx
    have := padded_8_5_lt _ y hy
    rw [UInt8.toNat_ofNat']
    omega
  · rw [List.length_map, padded_8_5_length, List.length_map]
  · have hmap : ((padded 8 5 (bs.map UInt8.toNat)).map UInt8.ofNat).map UInt8.toNat
        = padded 8 5 (bs.map UInt8.toNat) :=
      map_toNat_ofNat _ (fun x hx => by have := padded_8_5_lt _ x hx; omega)
    have hb : ∀ x ∈ (padded 8 5 (bs.map UInt8.toNat)).map UInt8.ofNat, x.toNat < 2^5 := by
      intro x hx
      have : x.toNat ∈ padded 8 5 (bs.map UInt8.toNat) := by
        rw [← hmap]; exact List.mem_map_of_mem hx
      exact padded_8_5_lt _ _ this
    obtain ⟨r1, r2, r3⟩ := roundtrip_nat (bs.map UInt8.toNat) (toNat_lt_of_mem bs)
    rw [convertBits_spec _ 5 8 (by decide) (by decide) hb false, hmap, List.length_map]
    have hc : ¬ (5 ≤ 5 * (padded 8 5 (bs.map UInt8.toNat)).length % 8 ∨
        beVal 5 (padded 8 5 (bs.map UInt8.toNat)) %
          2^(5 * (padded 8 5 (bs.map UInt8.toNat)).length % 8) ≠ 0) := by
      intro h
      rcases h with h | h
      · omega
      · exact h r2
    rw [if_neg (by decide), if_neg hc, r3, map_ofNat_toNat]

/-- 2. every accepted 5-bit string is the canonical (zero-padded) encoding of its decoding. -/
theorem convertBits_5_8_canonical (v bs : Bytes) :
    convertBits v 5 8 false = some bs → (∀ x ∈ v, x.toNat < 32) →
      convertBits bs 8 5 true = some v := by
  intro h hv
  rw [convertBits_spec v 5 8 (by decide) (by decide) hv false, if_neg (by decide)] at h
  split at h
  · exact absurd h (by simp)
  · rename_i hc
    have h1 : 5 * v.length % 8 < 5 := by omega
    have h2 : beVal 5 (v.map UInt8.toNat) % 2^(5 * v.length % 8) = 0 := by
      apply Decidable.byContradiction
      intro hne
      exact hc (Or.inr hne)
    have hbs := (Option.some.inj h).symm
    have hcan := canonical_nat (v.map UInt8.toNat) (mem_map_toNat_of_bound hv)
      (by rw [List.length_map]; exact h1) (by rw [List.length_map]; exact h2)
    rw [List.length_map] at hcan
    rw [convertBits_8_5_eq, hbs, map_toNat_ofNat, hcan, map_ofNat_toNat]
    intro x hx
    obtain ⟨j, _, rfl⟩ := List.mem_map.mp hx
    exact chunk_lt 8 _ _ _

/-- 3. length of an accepted 5→8 conversion; no bound on the elements of `v` is needed. -/
theorem convertBits_5_8_length (v bs : Bytes) :
    convertBits v 5 8 false = some bs → bs.length = 5 * v.length / 8 ∧ 5 * v.length % 8 < 5 := by
  intro h
  obtain ⟨l1, l2⟩ := loop_bits_len 5 8 (by decide) (v.map UInt8.toNat)
  rw [List.length_map] at l1 l2
  rw [convertBits_def, if_neg (by decide)] at h
  split at h
  · exact absurd h (by simp)
  · rename_i hc
    have hbs := (Option.some.inj h).symm
    rw [hbs, List.length_map, l2]
    refine ⟨rfl, ?_⟩
    rw [l1] at hc
    omega

/-- 4a. with `pad = true` the conversion never fails. -/
theorem convertBits_8_5_pad_isSome (bs : Bytes) : (convertBits bs 8 5 true).isSome := by
  rw [convertBits_8_5_eq]; rfl

/-- 4b. length and range of the 8→5 output. -/
theorem convertBits_8_5_length (bs v : Bytes) :
    convertBits bs 8 5 true = some v →
      v.length = (8 * bs.length + 4) / 5 ∧ ∀ x ∈ v, x.toNat < 32 := by
  intro h
  obtain ⟨v', h', hb, hl, _⟩ := convertBits_8_5_roundtrip bs
  rw [h] at h'
  cases Option.some.inj h'
  exact ⟨hl, hb⟩

/-- 5. 5→8 without padding rejects exactly the inputs with ≥ 5 padding bits or non-zero padding
    bits. -/
theorem convertBits_rejects_padding (v : Bytes) (hv : ∀ x ∈ v, x.toNat < 32) :
    convertBits v 5 8 false = none ↔
      (5 ≤ 5 * v.length % 8 ∨ beVal 5 (v.map UInt8.toNat) % 2 ^ (5 * v.length % 8) ≠ 0) := by
  rw [convertBits_spec v 5 8 (by decide) (by decide) hv false, if_neg (by decide)]
  split
  · rename_i hc; exact ⟨fun _ => hc, fun _ => rfl⟩
  · rename_i hc; exact ⟨fun h => absurd h (by simp), fun h => absurd h hc⟩

/-! ### tests (evaluated) and non-vacuity -/

example : convertBits [0xff] 8 5 true = some [31, 28] := by decide
example : convertBits [31, 28] 5 8 false = some [0xff] := by decide
example : convertBits [31, 29] 5 8 false = none := by decide
example : convertBits [] 8 5 true = some [] := by decide
example : convertBits [0, 1, 2, 3, 4] 8 5 true = some [0, 0, 0, 16, 4, 0, 24, 4] := by decide
example : convertBits [0, 0, 0, 16, 4, 0, 24, 4] 5 8 false = some [0, 1, 2, 3, 4] := by decide
-- ≥ 5 padding bits (7 words = 35 bits = 4 bytes + 3 bits is fine, 1 word = 5 bits is not)
example : convertBits [0] 5 8 false = none := by decide
-- out-of-range word (not excluded by theorem 3): its high bits are OR-ed into the accumulator, as in
-- the Go code; the length statement of theorem 3 still holds
example : convertBits [0, 252] 5 8 false = some [63] := by decide
example : convertBits [0, 28] 5 8 false = some [7] := by decide
-- non-vacuity of the hypotheses of theorems 2 and 5
example : convertBits [31, 28] 5 8 false = some [0xff] ∧ ∀ x ∈ ([31, 28] : Bytes), x.toNat < 32 := by
  decide
example : (5 ≤ 5 * ([31, 29] : Bytes).length % 8 ∨
    beVal 5 (([31, 29] : Bytes).map UInt8.toNat) % 2 ^ (5 * ([31, 29] : Bytes).length % 8) ≠ 0) := by
  decide

end Bch.Proofs.CashAddr
