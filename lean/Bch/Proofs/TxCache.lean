import Bch.Model.TxCache
import Bch.Proofs.BlockCache
/-
Helper definitions and lemmas for the second half of property C16: the standalone transaction wrapper
(`Bch.Model.TxCache`) and the height bookkeeping / message+bytes constructor of blocks
(`Bch.Model.BlockHeight`).  The models are never modified; everything here is stated about them.
-/
namespace Bch.Proofs.TxCache
open Bch Bch.Model.TxCache

/-! ## running a script of calls -/

/-- fold `step` over a list of calls, collecting the results -/
def run (W : Wire) (s : St) : List Call → St × List Res
  | [] => (s, [])
  | c :: cs => ((run W (step W s c).1 cs).1, (step W s c).2 :: (run W (step W s c).1 cs).2)

@[simp] theorem run_nil (W : Wire) (s : St) : run W s [] = (s, []) := rfl
@[simp] theorem run_cons (W : Wire) (s : St) (c : Call) (cs : List Call) :
    run W s (c :: cs) = ((run W (step W s c).1 cs).1, (step W s c).2 :: (run W (step W s c).1 cs).2) := rfl

theorem run_length (W : Wire) (calls : List Call) (s : St) : (run W s calls).2.length = calls.length := by
  induction calls generalizing s with
  | nil => rfl
  | cons c cs ih => simp [ih]

theorem run_append (W : Wire) (a b : List Call) (s : St) :
    run W s (a ++ b) = ((run W (run W s a).1 b).1, (run W s a).2 ++ (run W (run W s a).1 b).2) := by
  induction a generalizing s with
  | nil => simp
  | cons c cs ih => simp [ih]

/-- `run` really is the left fold of `step` -/
theorem run_eq_foldl (W : Wire) (s : St) (calls : List Call) :
    run W s calls =
      calls.foldl (fun (acc : St × List Res) c => ((step W acc.1 c).1, acc.2 ++ [(step W acc.1 c).2])) (s, []) := by
  suffices h : ∀ (calls : List Call) (s : St) (pre : List Res),
      calls.foldl (fun (acc : St × List Res) c => ((step W acc.1 c).1, acc.2 ++ [(step W acc.1 c).2])) (s, pre)
        = ((run W s calls).1, pre ++ (run W s calls).2) by
    simpa using (h calls s []).symm
  intro calls
  induction calls with
  | nil => intro s pre; simp
  | cons c cs ih => intro s pre; simp [ih]

/-! ## single steps -/

@[simp] theorem step_msg (W : Wire) (s : St) (c : Call) : (step W s c).1.msg = s.msg := by
  cases c <;> simp only [step] <;> try rfl
  split <;> rfl

theorem step_next_le (W : Wire) (s : St) (c : Call) : s.next ≤ (step W s c).1.next := by
  cases c <;> simp only [step] <;> try exact Nat.le_refl _
  split
  · exact Nat.le_refl _
  · exact Nat.le_succ _

/-- the index after one call -/
def idxAfter (i₀ : Int) : Call → Int
  | .setIndex i => i
  | _ => i₀

theorem step_index (W : Wire) (s : St) (c : Call) : (step W s c).1.index = idxAfter s.index c := by
  cases c <;> simp only [step, idxAfter]
  split <;> rfl

/-- a filled memo is never touched again -/
theorem step_memo_keep (W : Wire) (s : St) (c : Call) (x : Bytes × Nat) (h : s.txHash = some x) :
    (step W s c).1.txHash = some x := by
  cases c <;> simp only [step] <;> try exact h
  obtain ⟨v, k⟩ := x
  rw [h]
  exact h

/-- only `Hash()` can touch the memo -/
theorem step_memo_same (W : Wire) (s : St) (c : Call) (hc : c ≠ .hash) :
    (step W s c).1.txHash = s.txHash ∧ (step W s c).1.next = s.next := by
  cases c <;> first | exact absurd rfl hc | exact ⟨rfl, rfl⟩

/-- `Hash()`: what it returns is what the memo holds afterwards -/
theorem step_hash (W : Wire) (s : St) :
    ∃ v h, (step W s .hash).2 = .hash v h ∧ (step W s .hash).1.txHash = some (v, h) := by
  cases hm : s.txHash with
  | none => exact ⟨W.hash, s.next, by simp [step, hm], by simp [step, hm]⟩
  | some x => obtain ⟨v, k⟩ := x; exact ⟨v, k, by simp [step, hm], by simp [step, hm]⟩

/-- `SetIndex` changes the index field and nothing else -/
theorem step_setIndex (W : Wire) (s : St) (i : Int) :
    step W s (.setIndex i) = ({ s with index := i }, .unit) := rfl

/-! ## the invariant -/

/-- well-formedness of a wrapper state with respect to the wrapped wire message -/
structure Inv (W : Wire) (s : St) : Prop where
  /-- the message object existed before anything the wrapper allocates -/
  msg_lt : s.msg < s.next
  /-- a memoised hash is the wire hash; its object was allocated by the wrapper and is not the message -/
  memo : ∀ v h, s.txHash = some (v, h) → v = W.hash ∧ h < s.next ∧ h ≠ s.msg

theorem inv_step {W : Wire} {s : St} (hI : Inv W s) (c : Call) : Inv W (step W s c).1 := by
  cases c with
  | hash =>
    cases hm : s.txHash with
    | some x =>
      obtain ⟨v, k⟩ := x
      have : (step W s .hash).1 = s := by simp [step, hm]
      rw [this]; exact hI
    | none =>
      have : (step W s .hash).1 = { s with txHash := some (W.hash, s.next), next := s.next + 1 } := by
        simp [step, hm]
      rw [this]
      refine ⟨Nat.lt_succ_of_lt hI.msg_lt, ?_⟩
      intro v h e
      simp only [Option.some.injEq, Prod.mk.injEq] at e
      have := hI.msg_lt
      refine ⟨e.1.symm, ?_, ?_⟩ <;> simp only [] <;> omega
  | index => exact hI
  | setIndex i => exact ⟨hI.msg_lt, hI.memo⟩
  | msgTx => exact hI

theorem run_inv {W : Wire} (calls : List Call) {s : St} (hI : Inv W s) : Inv W (run W s calls).1 := by
  induction calls generalizing s with
  | nil => exact hI
  | cons c cs ih => exact ih (inv_step hI c)

/-! ## whole runs -/

@[simp] theorem run_msg (W : Wire) (calls : List Call) (s : St) : (run W s calls).1.msg = s.msg := by
  induction calls generalizing s with
  | nil => rfl
  | cons c cs ih => simp [ih]

theorem run_next_le (W : Wire) (calls : List Call) (s : St) : s.next ≤ (run W s calls).1.next := by
  induction calls generalizing s with
  | nil => exact Nat.le_refl _
  | cons c cs ih => exact Nat.le_trans (step_next_le W s c) (ih _)

theorem run_memo_keep (W : Wire) (calls : List Call) (s : St) (x : Bytes × Nat) (h : s.txHash = some x) :
    (run W s calls).1.txHash = some x := by
  induction calls generalizing s with
  | nil => exact h
  | cons c cs ih => exact ih _ (step_memo_keep W s c x h)

/-- the index field after a script: the last `SetIndex` value, or the initial value -/
def lastIndex (i₀ : Int) (calls : List Call) : Int := calls.foldl idxAfter i₀

@[simp] theorem lastIndex_nil (i₀ : Int) : lastIndex i₀ [] = i₀ := rfl
@[simp] theorem lastIndex_cons (i₀ : Int) (c : Call) (cs : List Call) :
    lastIndex i₀ (c :: cs) = lastIndex (idxAfter i₀ c) cs := rfl

theorem lastIndex_append (i₀ : Int) (a b : List Call) :
    lastIndex i₀ (a ++ b) = lastIndex (lastIndex i₀ a) b := by
  simp [lastIndex, List.foldl_append]

/-- no `SetIndex` in the script -/
def NoSet (calls : List Call) : Prop := ∀ c ∈ calls, ∀ j, c ≠ .setIndex j

theorem lastIndex_noSet (i₀ : Int) (calls : List Call) (h : NoSet calls) : lastIndex i₀ calls = i₀ := by
  induction calls generalizing i₀ with
  | nil => rfl
  | cons c cs ih =>
    have hc : idxAfter i₀ c = i₀ := by
      cases c <;> try rfl
      exact absurd rfl (h _ List.mem_cons_self _)
    rw [lastIndex_cons, hc]
    exact ih i₀ (fun c' hc' => h c' (by simp [hc']))

theorem lastIndex_last (i₀ i : Int) (pre mid : List Call) (h : NoSet mid) :
    lastIndex i₀ (pre ++ .setIndex i :: mid) = i := by
  rw [lastIndex_append, lastIndex_cons, lastIndex_noSet _ _ h]
  rfl

theorem run_index (W : Wire) (calls : List Call) (s : St) :
    (run W s calls).1.index = lastIndex s.index calls := by
  induction calls generalizing s with
  | nil => rfl
  | cons c cs ih => simp [ih, step_index]

/-- **master theorem for the standalone wrapper**, for an arbitrary start state: every result of a run is
determined by the start state's message handle, the script's `SetIndex` history and the memo held in the
*final* state -/
theorem run_at (W : Wire) (calls : List Call) (s : St) (p : Nat) (c : Call) (r : Res)
    (hc : calls[p]? = some c) (hr : (run W s calls).2[p]? = some r) :
    match c with
    | .hash => ∃ v h, r = .hash v h ∧ (run W s calls).1.txHash = some (v, h)
    | .index => r = .index (lastIndex s.index (calls.take p))
    | .setIndex _ => r = .unit
    | .msgTx => r = .msg s.msg := by
  induction calls generalizing s p with
  | nil => simp at hc
  | cons c' cs ih =>
    cases p with
    | zero =>
      simp only [List.getElem?_cons_zero, Option.some.injEq] at hc
      subst hc
      simp only [run_cons, List.getElem?_cons_zero, Option.some.injEq] at hr
      subst hr
      cases c' with
      | hash =>
        obtain ⟨v, h, e1, e2⟩ := step_hash W s
        exact ⟨v, h, e1, run_memo_keep W cs _ _ e2⟩
      | index => rfl
      | setIndex i => rfl
      | msgTx => rfl
    | succ p =>
      simp only [List.getElem?_cons_succ] at hc
      simp only [run_cons, List.getElem?_cons_succ] at hr
      have := ih (step W s c').1 p hc hr
      cases c with
      | hash => exact this
      | index => simpa [step_index] using this
      | setIndex i => exact this
      | msgTx => simpa using this

/-- the memo of the final state, when the start state is well-formed -/
theorem run_final_memo {W : Wire} {s : St} (hI : Inv W s) (calls : List Call) (v : Bytes) (h : Nat)
    (hm : (run W s calls).1.txHash = some (v, h)) :
    v = W.hash ∧ h ≠ s.msg ∧ (s.txHash = none → s.next ≤ h) := by
  have hF := (run_inv calls hI).memo v h hm
  refine ⟨hF.1, by simpa using hF.2.2, ?_⟩
  intro hn
  -- the memo was empty at the start, so its handle was allocated during the run
  clear hF hI
  induction calls generalizing s with
  | nil => simp [hn] at hm
  | cons c cs ih =>
    by_cases hc : c = .hash
    · subst hc
      have e : (step W s .hash).1.txHash = some (W.hash, s.next) := by simp [step, hn]
      have := run_memo_keep W cs _ _ e
      rw [run_cons] at hm
      rw [this] at hm
      simp only [Option.some.injEq, Prod.mk.injEq] at hm
      omega
    · obtain ⟨e1, e2⟩ := step_memo_same W s c hc
      have := ih (s := (step W s c).1) (by rw [run_cons] at hm; exact hm) (by rw [e1]; exact hn)
      omega

theorem run_res_exists (W : Wire) (calls : List Call) (s : St) (p : Nat) (c : Call)
    (hc : calls[p]? = some c) : ∃ r, (run W s calls).2[p]? = some r := by
  have hp : p < calls.length := (List.getElem?_eq_some_iff.mp hc).1
  exact ⟨_, List.getElem?_eq_getElem (by rw [run_length]; exact hp)⟩

/-- `Index()` right after the prefix `a` of a script -/
theorem run_index_split (W : Wire) (s : St) (a post : List Call) :
    (run W s (a ++ .index :: post)).2[a.length]? = some (.index (lastIndex s.index a)) := by
  obtain ⟨r, hr⟩ := run_res_exists W (a ++ .index :: post) s a.length .index (by simp)
  have := run_at W _ s a.length .index r (by simp) hr
  simp only [List.take_left'] at this
  rw [hr, this]

/-! ## values without object identities -/

/-- a result with its handle erased -/
def value : Res → Res
  | .hash v _ => .hash v 0
  | .msg _ => .msg 0
  | r => r

/-- two wrapper states that differ at most in object identities -/
def Sim (s s' : St) : Prop := s.index = s'.index ∧ s.txHash.map (·.1) = s'.txHash.map (·.1)

theorem sim_step (W : Wire) {s s' : St} (h : Sim s s') (c : Call) :
    Sim (step W s c).1 (step W s' c).1 ∧ value (step W s c).2 = value (step W s' c).2 := by
  obtain ⟨h1, h2⟩ := h
  cases c with
  | hash =>
    cases hm : s.txHash with
    | none =>
      cases hm' : s'.txHash with
      | none => simp [step, hm, hm', Sim, h1, value]
      | some x => rw [hm, hm'] at h2; simp at h2
    | some x =>
      cases hm' : s'.txHash with
      | none => rw [hm, hm'] at h2; simp at h2
      | some x' =>
        obtain ⟨v, k⟩ := x
        obtain ⟨v', k'⟩ := x'
        rw [hm, hm'] at h2
        simp only [Option.map_some, Option.some.injEq] at h2
        simp [step, hm, hm', Sim, h1, value, h2]
  | index => exact ⟨⟨h1, h2⟩, by simp [step, value, h1]⟩
  | setIndex i => exact ⟨⟨rfl, h2⟩, rfl⟩
  | msgTx => exact ⟨⟨h1, h2⟩, rfl⟩

theorem sim_run (W : Wire) (calls : List Call) {s s' : St} (h : Sim s s') :
    (run W s calls).2.map value = (run W s' calls).2.map value := by
  induction calls generalizing s s' with
  | nil => rfl
  | cons c cs ih =>
    obtain ⟨a, b⟩ := sim_step W h c
    simp only [run_cons, List.map_cons, b, ih a]

/-! ## constructors -/

/-- the start state comes from one of the three constructors of tx.go, and wraps the message whose wire
results are `W` -/
def IsCtor (W : Wire) (s : St) : Prop :=
  (∃ m, s = newTx m) ∨
  (∃ deser input, newTxFromBytes deser input = some (W, s)) ∨
  (∃ deser input rest, newTxFromReader deser input = some (W, s, rest))

theorem newTxFromReader_some {deser : Decoder} {input : Bytes} {W : Wire} {s : St} {rest : Bytes}
    (h : newTxFromReader deser input = some (W, s, rest)) :
    ∃ n, deser input = some (W, n) ∧ s = { msg := 0, next := 1 } ∧ rest = input.drop n := by
  unfold newTxFromReader at h
  cases hd : deser input with
  | none => simp [hd] at h
  | some x =>
    obtain ⟨W', n⟩ := x
    simp only [hd, Option.some.injEq, Prod.mk.injEq] at h
    exact ⟨n, by rw [h.1], h.2.1.symm, h.2.2.symm⟩

theorem newTxFromBytes_some {deser : Decoder} {input : Bytes} {W : Wire} {s : St}
    (h : newTxFromBytes deser input = some (W, s)) :
    ∃ n, deser input = some (W, n) ∧ s = { msg := 0, next := 1 } := by
  unfold newTxFromBytes at h
  cases hr : newTxFromReader deser input with
  | none => simp [hr] at h
  | some x =>
    obtain ⟨W', s', rest⟩ := x
    simp only [hr, Option.map_some, Option.some.injEq, Prod.mk.injEq] at h
    obtain ⟨n, a, b, _⟩ := newTxFromReader_some hr
    exact ⟨n, by rw [← h.1]; exact a, by rw [← h.2]; exact b⟩

theorem newTxFromBytes_none {deser : Decoder} {input : Bytes} (h : deser input = none) :
    newTxFromBytes deser input = none ∧ newTxFromReader deser input = none := by
  simp [newTxFromBytes, newTxFromReader, h]

theorem newTxFromBytes_ok {deser : Decoder} {input : Bytes} {W : Wire} {n : Nat} (h : deser input = some (W, n)) :
    newTxFromBytes deser input = some (W, { msg := 0, next := 1 }) ∧
    newTxFromReader deser input = some (W, { msg := 0, next := 1 }, input.drop n) := by
  simp [newTxFromBytes, newTxFromReader, h]

/-- what all constructors have in common -/
theorem IsCtor.fields {W : Wire} {s : St} (h : IsCtor W s) :
    s.txHash = none ∧ s.index = txIndexUnknown ∧ s.msg < s.next := by
  rcases h with ⟨m, rfl⟩ | ⟨deser, input, h⟩ | ⟨deser, input, rest, h⟩
  · exact ⟨rfl, rfl, Nat.lt_succ_self m⟩
  · obtain ⟨n, _, rfl⟩ := newTxFromBytes_some h
    exact ⟨rfl, rfl, Nat.zero_lt_one⟩
  · obtain ⟨n, _, rfl, _⟩ := newTxFromReader_some h
    exact ⟨rfl, rfl, Nat.zero_lt_one⟩

theorem IsCtor.inv {W : Wire} {s : St} (h : IsCtor W s) : Inv W s := by
  obtain ⟨a, _, c⟩ := h.fields
  exact ⟨c, by intro v k e; rw [a] at e; cases e⟩

/-! ## a concrete example used for the non-vacuity checks -/

def exW : Wire := { hash := [0xA1, 0xA2] }

def exScript : List Call := [.index, .msgTx, .hash, .setIndex 7, .hash, .index, .setIndex (-3), .msgTx, .hash, .index]

/-- toy decoder: a "transaction" is the three bytes `01 02 03`; anything else is an error -/
def exDeser : Decoder := fun b => if b.take 3 = [1, 2, 3] then some (exW, 3) else none

end Bch.Proofs.TxCache

/-! ## block height bookkeeping as an independent component of the block wrapper -/
namespace Bch.Proofs.BlockHeight
open Bch Bch.Model Bch.Model.BlockHeight

def run (W : BlockCache.Wire) (s : St) : List Call → St × List Res
  | [] => (s, [])
  | c :: cs => ((run W (step W s c).1 cs).1, (step W s c).2 :: (run W (step W s c).1 cs).2)

@[simp] theorem run_nil (W : BlockCache.Wire) (s : St) : run W s [] = (s, []) := rfl
@[simp] theorem run_cons (W : BlockCache.Wire) (s : St) (c : Call) (cs : List Call) :
    run W s (c :: cs) = ((run W (step W s c).1 cs).1, (step W s c).2 :: (run W (step W s c).1 cs).2) := rfl

theorem run_length (W : BlockCache.Wire) (calls : List Call) (s : St) :
    (run W s calls).2.length = calls.length := by
  induction calls generalizing s with
  | nil => rfl
  | cons c cs ih => simp [ih]

/-- the cache calls of a mixed script, in order -/
def cacheCalls : List Call → List BlockCache.Call
  | [] => []
  | .cache c :: cs => c :: cacheCalls cs
  | _ :: cs => cacheCalls cs

/-- the cache results of a mixed run, in order -/
def cacheResults : List Res → List BlockCache.Res
  | [] => []
  | .cache r :: rs => r :: cacheResults rs
  | _ :: rs => cacheResults rs

def heightAfter (h₀ : Int) : Call → Int
  | .setHeight h => h
  | _ => h₀

/-- the height field after a script: the last `SetHeight` value, or the initial value -/
def lastHeight (h₀ : Int) (calls : List Call) : Int := calls.foldl heightAfter h₀

@[simp] theorem lastHeight_nil (h₀ : Int) : lastHeight h₀ [] = h₀ := rfl
@[simp] theorem lastHeight_cons (h₀ : Int) (c : Call) (cs : List Call) :
    lastHeight h₀ (c :: cs) = lastHeight (heightAfter h₀ c) cs := rfl

theorem lastHeight_append (h₀ : Int) (a b : List Call) :
    lastHeight h₀ (a ++ b) = lastHeight (lastHeight h₀ a) b := by
  simp [lastHeight, List.foldl_append]

def NoSet (calls : List Call) : Prop := ∀ c ∈ calls, ∀ j, c ≠ .setHeight j

theorem lastHeight_noSet (h₀ : Int) (calls : List Call) (h : NoSet calls) : lastHeight h₀ calls = h₀ := by
  induction calls generalizing h₀ with
  | nil => rfl
  | cons c cs ih =>
    have hc : heightAfter h₀ c = h₀ := by
      cases c <;> try rfl
      exact absurd rfl (h _ List.mem_cons_self _)
    rw [lastHeight_cons, hc]
    exact ih h₀ (fun c' hc' => h c' (by simp [hc']))

theorem lastHeight_last (h₀ h : Int) (pre mid : List Call) (hm : NoSet mid) :
    lastHeight h₀ (pre ++ .setHeight h :: mid) = h := by
  rw [lastHeight_append, lastHeight_cons, lastHeight_noSet _ _ hm]
  rfl

theorem step_height (W : BlockCache.Wire) (s : St) (c : Call) :
    (step W s c).1.height = heightAfter s.height c := by
  cases c <;> rfl

theorem step_cache (W : BlockCache.Wire) (s : St) (c : Call) :
    (step W s c).1.cache = (Bch.Proofs.BlockCache.run W s.cache (cacheCalls [c])).1 := by
  cases c <;> rfl

/-- projection of a mixed run onto the two components -/
theorem run_proj (W : BlockCache.Wire) (calls : List Call) (s : St) :
    (run W s calls).1.cache = (Bch.Proofs.BlockCache.run W s.cache (cacheCalls calls)).1 ∧
    cacheResults (run W s calls).2 = (Bch.Proofs.BlockCache.run W s.cache (cacheCalls calls)).2 ∧
    (run W s calls).1.height = lastHeight s.height calls := by
  induction calls generalizing s with
  | nil => exact ⟨rfl, rfl, rfl⟩
  | cons c cs ih =>
    obtain ⟨a, b, d⟩ := ih (step W s c).1
    cases c with
    | cache c =>
      refine ⟨a, ?_, d⟩
      show (BlockCache.step W s.cache c).2 :: cacheResults (run W (step W s (.cache c)).1 cs).2 = _
      rw [b]; rfl
    | height => exact ⟨a, b, d⟩
    | setHeight h => exact ⟨a, b, d⟩

theorem run_height_at (W : BlockCache.Wire) (calls : List Call) (s : St) (p : Nat) (r : Res)
    (hc : calls[p]? = some .height) (hr : (run W s calls).2[p]? = some r) :
    r = .height (lastHeight s.height (calls.take p)) := by
  induction calls generalizing s p with
  | nil => simp at hc
  | cons c' cs ih =>
    cases p with
    | zero =>
      simp only [List.getElem?_cons_zero, Option.some.injEq] at hc
      subst hc
      simp only [run_cons, List.getElem?_cons_zero, Option.some.injEq] at hr
      exact hr.symm
    | succ p =>
      simp only [List.getElem?_cons_succ] at hc
      simp only [run_cons, List.getElem?_cons_succ] at hr
      have := ih (step W s c').1 p hc hr
      simpa [step_height] using this

/-- a block with a cache that was handed foreign bytes keeps them: `serialized` is preserved by every
cache call once it holds a non-empty byte string -/
theorem step_keeps_bytes (W : BlockCache.Wire) (s : BlockCache.St) (c : BlockCache.Call) (b : Bytes) (h : Nat)
    (hs : s.serialized = some (b, h)) (hb : b ≠ []) : (BlockCache.step W s c).1.serialized = some (b, h) := by
  have hlen : b.length ≠ 0 := fun e => hb (List.eq_nil_of_length_eq_zero e)
  have hget : ∀ i, (BlockCache.getTx W s i).1.serialized = some (b, h) := by
    intro i
    unfold BlockCache.getTx
    split
    · exact hs
    · simp only []
      split <;> exact hs
  have hbytes : BlockCache.getBytes W s = (s, b, h) := by
    unfold BlockCache.getBytes
    rw [hs]
    simp [hlen]
  cases c with
  | tx i =>
    simp only [BlockCache.step]
    have := hget i
    split <;> rename_i heq <;> rw [heq] at this <;> exact this
  | transactions =>
    simp only [BlockCache.step]
    split
    · exact hs
    · rw [Bch.Proofs.BlockCache.fillAll_eq]; exact hs
  | txHash i =>
    simp only [BlockCache.step]
    have := hget i
    split <;> rename_i heq <;> rw [heq] at this
    · exact this
    · simp only [BlockCache.hashOfTx]
      split <;> exact this
  | hash =>
    simp only [BlockCache.step]
    split <;> exact hs
  | bytes => simp only [BlockCache.step, hbytes]; exact hs
  | txLoc => simp only [BlockCache.step, hbytes]; exact hs

theorem run_keeps_bytes (W : BlockCache.Wire) (calls : List BlockCache.Call) (s : BlockCache.St) (b : Bytes)
    (h : Nat) (hs : s.serialized = some (b, h)) (hb : b ≠ []) :
    (Bch.Proofs.BlockCache.run W s calls).1.serialized = some (b, h) := by
  induction calls generalizing s with
  | nil => exact hs
  | cons c cs ih => exact ih _ (step_keeps_bytes W s c b h hs hb)

theorem step_bytes_of (W : BlockCache.Wire) (s : BlockCache.St) (b : Bytes) (h : Nat)
    (hs : s.serialized = some (b, h)) (hb : b ≠ []) : BlockCache.step W s .bytes = (s, .bytes b h) := by
  have hlen : b.length ≠ 0 := fun e => hb (List.eq_nil_of_length_eq_zero e)
  simp [BlockCache.step, BlockCache.getBytes, hs, hlen]

/-- in every script, every `Bytes()` call on a state that holds non-empty bytes returns exactly them -/
theorem run_bytes_at (W : BlockCache.Wire) (calls : List BlockCache.Call) (s : BlockCache.St) (b : Bytes)
    (h : Nat) (hs : s.serialized = some (b, h)) (hb : b ≠ []) (p : Nat) (r : BlockCache.Res)
    (hc : calls[p]? = some .bytes) (hr : (Bch.Proofs.BlockCache.run W s calls).2[p]? = some r) :
    r = .bytes b h := by
  induction calls generalizing s p with
  | nil => simp at hc
  | cons c' cs ih =>
    cases p with
    | zero =>
      simp only [List.getElem?_cons_zero, Option.some.injEq] at hc
      subst hc
      simp only [Bch.Proofs.BlockCache.run_cons, List.getElem?_cons_zero, Option.some.injEq] at hr
      rw [step_bytes_of W s b h hs hb] at hr
      exact hr.symm
    | succ p =>
      simp only [List.getElem?_cons_succ] at hc
      simp only [Bch.Proofs.BlockCache.run_cons, List.getElem?_cons_succ] at hr
      exact ih _ (step_keeps_bytes W s c' b h hs hb) p hc hr

/-- the invariant of the cache holds for the message+bytes constructor exactly when the caller's bytes
are the wire serialisation (or empty = "no bytes") -/
theorem inv_initBytes_iff (W : BlockCache.Wire) (b : Bytes) :
    Bch.Proofs.BlockCache.Inv W (BlockCache.initBytes b) ↔ (b = W.ser ∨ b = []) := by
  constructor
  · intro hI
    by_cases hb : b = []
    · exact Or.inr hb
    · exact Or.inl (hI.ser b 0 rfl (fun e => hb (List.eq_nil_of_length_eq_zero e)))
  · exact Bch.Proofs.BlockCache.inv_initBytes W b

/-- mixed example script -/
def exScript : List Call :=
  [.height, .cache (.tx 1), .setHeight 100000, .cache .hash, .height, .cache .bytes, .setHeight (-5),
   .cache (.tx 1), .height]

end Bch.Proofs.BlockHeight
