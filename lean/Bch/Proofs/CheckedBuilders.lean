import Bch.Proofs.CheckedBloomTx
import Bch.Proofs.MerkleSelect
/-
Fault-tracking transcription of the merkle-block BUILDERS (C08, merkle part 2):

* `bloom.NewMerkleBlock`                      (/repo/bloom/merkleblock.go:26-80, 155-202)
* `merkleblock.NewMerkleBlockWithFilter`      (/repo/merkleblock/encode.go:26-80, `calcBlock`)
* `merkleblock.NewMerkleBlockWithTxnSet`      (same file)

ONE transcription serves the three entry points. `calcTreeWidth`, `calcHash`, `traverseAndBuild` of the two Go
files are textually identical (a `diff` of lines 26-80 shows only the renamed receiver type `merkleBlock` /
`MerkleBlock`), and `calcBlock` of encode.go is the tail of `bloom.NewMerkleBlock` (height loop, traversal,
`make`, `AddTxHash` loop, flag loop) moved into a method. The entry points differ only in where the predicate
"transaction i is matched" comes from (`matchedMap[txIndex]` from `bloom.GetMatchedIndices`, or a search of the
hash in `txnSet`); the loop that fills `matchedBits`/`allHashes` is a `range` loop with `append`s and a map
look-up, none of which can panic, so it is taken from the model (`MerkleSelect.fillLoop`) with the predicate as
a parameter, exactly the parameterisation of `Model/MerkleSelect.lean`. (`TxInSet` dereferences the entries of
the caller's `txnSet`, `*tx == *next`: a nil entry there would be a nil dereference; hashes are values here, as
in the model, so this is an assumption on the caller, not a theorem.) Line numbers below are those of
/repo/bloom/merkleblock.go; the lines of encode.go are the same for 26-80.

What is checked: `m.allHashes[pos]` (:36), `m.matchedBits[i]` (:57), `make([]byte, (len(bits)+7)/8)` (:193),
`mBlock.bits[i]` and the read and the write of `Flags[i/8]` (:199).

Arithmetic. The Go code computes in `uint32`; so does the transcription (`add32`, `sub32`, `mul32`, `shl32`:
results are reduced modulo 2^32, a shift by 32 or more gives 0 as in Go). The value-level models compute in
`Nat`. The two agree as long as `numTx + 2^height ≤ 2^32` at every visited node, which holds for every block of
at most 2^31 transactions (`tree_bound`); beyond that `calcTreeWidth` wraps (`calcTreeWidthC_wraps`: at
2^31+1 transactions the width at height 31 is computed as 0 instead of 2, so the height loop stops one level
early and the last transaction is left out of the tree - no panic, a wrong tree). The flag loop runs over
`uint32(len(m.bits))`, so it additionally needs `len(bits) < 2^32`; we have `len(bits) ≤ 2·numTx + height - 1`,
whence the bound `numTx ≤ 2^31 - 16` (`maxBuilderTx`) of the theorems about the whole builder. (A block of
that many transactions would be larger than 100 GB; the wire limit is `maxTxnCount` = 2 098 360.)

Recursion. `calcHash` and `traverseAndBuild` recurse on `height - 1` after testing `height != 0`: structural
recursion on `height`. The two `for` loops have structural fuel; the theorems hold for every fuel that is at
least the number of remaining iterations, so running out of fuel does not occur.

Ghost result: the number of invocations of `calcHash` (the invocations of `traverseAndBuild` are counted by
`len(bits)`: each appends exactly one byte).
-/
set_option linter.unusedSectionVars false

namespace Bch.Proofs.CheckedBuilders
open Bch Bch.Model Bch.Model.Merkle Bch.Model.MerkleSelect
open Bch.Proofs.Checked Bch.Proofs.MerkleSelect
open Bch.Proofs.Merkle (lt_width_iff width_le_one_iff width_height height_least build_succ)

variable {H : Type} [DecidableEq H]

/-! ## `uint32` arithmetic -/

/-- Go `uint32(x)` -/
def u32 (x : Nat) : Nat := x % 2^32
/-- Go `a + b` on `uint32` -/
def add32 (a b : Nat) : Nat := (a + b) % 2^32
/-- Go `a - b` on `uint32` -/
def sub32 (a b : Nat) : Nat := (a + (2^32 - b % 2^32)) % 2^32
/-- Go `a * b` on `uint32` -/
def mul32 (a b : Nat) : Nat := (a * b) % 2^32
/-- Go `a << k` on `uint32` (`k ≥ 32` gives 0) -/
def shl32 (a k : Nat) : Nat := (a <<< k) % 2^32
/-- Go `a >> k` on `uint32` (`k ≥ 32` gives 0 for `a < 2^32`) -/
def shr32 (a k : Nat) : Nat := a >>> k

theorem u32_of_lt {x : Nat} (h : x < 2^32) : u32 x = x := Nat.mod_eq_of_lt h
theorem add32_of_lt {a b : Nat} (h : a + b < 2^32) : add32 a b = a + b := Nat.mod_eq_of_lt h
theorem mul32_of_lt {a b : Nat} (h : a * b < 2^32) : mul32 a b = a * b := Nat.mod_eq_of_lt h
theorem sub32_of_le {a b : Nat} (hb : b ≤ a) (ha : a < 2^32) : sub32 a b = a - b := by
  unfold sub32
  have : b % 2^32 = b := Nat.mod_eq_of_lt (by omega)
  rw [this]
  have : a + (2^32 - b) = (a - b) + 2^32 := by omega
  rw [this, Nat.add_mod_right]
  exact Nat.mod_eq_of_lt (by omega)
theorem shl32_of_lt {a k : Nat} (h : a * 2^k < 2^32) : shl32 a k = a * 2^k := by
  unfold shl32; rw [Nat.shiftLeft_eq]; exact Nat.mod_eq_of_lt h

/-! ## the transcription -/

/-- `calcTreeWidth` (:28-30): `(m.numTx + (1 << height) - 1) >> height`. The untyped constant `1` takes the
type of the other operand, `uint32`. Pure arithmetic, cannot panic. -/
def calcTreeWidthC (numTx height : Nat) : Nat :=
  shr32 (sub32 (add32 numTx (shl32 1 height)) 1) height

/-- `calcHash` (:34-47); second component: number of invocations. `height-1` is the structural predecessor
(the branch is taken only for `height != 0`, so the `uint32` subtraction does not wrap). -/
def calcHashC (comb : H → H → H) (m : MB H) : Nat → Nat → Except Fault (H × Nat)
  | 0, pos => do
    let x ← idx? m.allHashes pos                                    -- :36  m.allHashes[pos]
    pure (x, 1)
  | height+1, pos => do
    let (left, c1) ← calcHashC comb m height (mul32 pos 2)          -- :40  m.calcHash(height-1, pos*2)
    if add32 (mul32 pos 2) 1 < calcTreeWidthC m.numTx height then do -- :41  pos*2+1 < m.calcTreeWidth(height-1)
      let (right, c2) ← calcHashC comb m height (add32 (mul32 pos 2) 1)   -- :42
      pure (comb left right, 1 + c1 + c2)                           -- :46
    else pure (comb left left, 1 + c1)                              -- :44, :46

/-- the `for` loop of `traverseAndBuild` (:56-58):
`for i := …; i < stop && i < m.numTx; i++ { isParent |= m.matchedBits[i] }` -/
def isParentLoopC (m : MB H) (stop : Nat) : Nat → Nat → UInt8 → Except Fault UInt8
  | 0, _, isParent => pure isParent
  | fuel+1, i, isParent =>
    if i < stop ∧ i < m.numTx then do                               -- :56
      let b ← idx? m.matchedBits i                                  -- :57  m.matchedBits[i]
      isParentLoopC m stop fuel (add32 i 1) (isParent ||| b)        -- :56  i++
    else pure isParent

/-- :55-58 with the loop bounds `pos << height` and `(pos+1) << height` -/
def isParentC (m : MB H) (height pos : Nat) : Except Fault UInt8 :=
  isParentLoopC m (shl32 (add32 pos 1) height) m.numTx (shl32 pos height) 0

/-- `traverseAndBuild` (:53-80) on the struct; the `Nat` beside it counts the invocations of `calcHash` -/
def traverseAndBuildC (comb : H → H → H) : Nat → Nat → MB H × Nat → Except Fault (MB H × Nat)
  | height, pos, (m, k) => do
    let isParent ← isParentC m height pos                           -- :55-58
    let m : MB H := { m with bits := m.bits ++ [isParent] }         -- :59
    match height with
    | 0 => do                                                       -- :64  height == 0
      let (x, c) ← calcHashC comb m 0 pos                           -- :65  m.calcHash(height, pos)
      pure ({ m with finalHashes := m.finalHashes ++ [x] }, k + c)
    | h+1 =>
      if isParent == 0x00 then do                                   -- :64  isParent == 0x00
        let (x, c) ← calcHashC comb m (h+1) pos                     -- :65
        pure ({ m with finalHashes := m.finalHashes ++ [x] }, k + c)
      else do
        let mk ← traverseAndBuildC comb h (mul32 pos 2) (m, k)      -- :73  m.traverseAndBuild(height-1, pos*2)
        if add32 (mul32 pos 2) 1 < calcTreeWidthC mk.1.numTx h then -- :77
          traverseAndBuildC comb h (add32 (mul32 pos 2) 1) mk       -- :78
        else pure mk

/-- `height := uint32(0); for calcTreeWidth(height) > 1 { height++ }` (:180-183). Cannot panic; it cannot hang
either (`heightLoopC_terminates`: for every `uint32` count the loop stops at a height ≤ 32). -/
def heightLoopC (numTx : Nat) : Nat → Nat → Nat
  | 0, height => height
  | fuel+1, height => if calcTreeWidthC numTx height > 1 then heightLoopC numTx fuel (add32 height 1) else height

/-- the flag loop (:198-200): `Flags[i/8] |= bits[i] << (i % 8)`; `fuel = uint32(len(bits)) - i` -/
def flagLoopC (bits : List UInt8) : (fuel i : Nat) → List UInt8 → Except Fault (List UInt8)
  | 0, _, flags => pure flags
  | fuel+1, i, flags => do
    let b ← idx? bits i                                             -- :199  mBlock.bits[i]
    let f ← idx? flags (i / 8)                                      -- :199  Flags[i/8] (read of |=)
    let flags ← set? flags (i / 8) (f ||| (b <<< UInt8.ofNat (i % 8)))   -- :199  Flags[i/8] (write)
    flagLoopC bits fuel (add32 i 1) flags                           -- :198  i++

/-- The shared core of the three builders: `bloom.NewMerkleBlock` :158-201 after the scan, resp. the loop of
`NewMerkleBlockWith…` followed by `calcBlock`. `leaves` are the `tx.Hash()` of `block.Transactions()` in block
order, `matched i` is `matchedMap[i]` resp. the result of the search in `txnSet`. Result: the message
(`Transactions`, `Hashes`, `Flags`), `matchedIndices`, and the number of invocations of `calcHash`. -/
def builderC (comb : H → H → H) (leaves : List H) (matched : Nat → Bool) :
    Except Fault ((Msg H × List Nat) × Nat) := do
  let numTx := u32 leaves.length                                    -- :158  uint32(len(block.Transactions()))
  let (mBlock, matchedIndices) :=                                   -- :169-177 (range, map look-up, appends)
    fillLoop matched leaves.zipIdx (({ numTx := numTx } : MB H), [])
  let height := heightLoopC mBlock.numTx 33 0                       -- :180-183
  let (mBlock, calls) ← traverseAndBuildC comb height 0 (mBlock, 0) -- :186
  let flags0 ← make? (((mBlock.bits.length : Int) + 7) / 8) (0 : UInt8)   -- :193  make([]byte, (len(bits)+7)/8)
  -- :195-197: `AddTxHash` appends (it refuses, without panicking, beyond `maxTxPerBlock` hashes)
  let flags ← flagLoopC mBlock.bits (u32 mBlock.bits.length) 0 flags0     -- :198-200
  pure ((⟨mBlock.numTx, mBlock.finalHashes, flags⟩, matchedIndices), calls)

/-! ### the three entry points -/

/-- `merkleblock.NewMerkleBlockWithTxnSet(block, txnSet)`; `leaves` = the transaction hashes of the block -/
def NewMerkleBlockWithTxnSetC (comb : H → H → H) (leaves set : List H) :=
  builderC comb leaves (selectBySet leaves set)

/-- `bloom.NewMerkleBlock(block, filter)` and `merkleblock.NewMerkleBlockWithFilter(block, filter)`: the checked
scan of `CheckedBloomTx.lean` (:166 resp. encode.go `bloom.GetMatchedIndices`), then the core. Also returned:
the filter as the scan left it. -/
def NewMerkleBlockC (comb : Bytes → Bytes → Bytes) (fuel : Nat) (block : Array BloomTx.Tx) (f : Bloom.Filter) :
    Except Fault (((Msg Bytes × List Nat) × Nat) × Bloom.Filter) := do
  let s ← CheckedBloomTx.GetMatchedIndicesC fuel block f            -- :166
  let r ← builderC comb (blockHashes block) (selectByScan s.sc)
  pure (r, s.sc.filter)

/-! ## tree arithmetic: `uint32` = `Nat` inside the tree -/

theorem calcTreeWidthC_eq {n h : Nat} (h1 : 1 ≤ n) (hb : n + 2^h ≤ 2^32) : calcTreeWidthC n h = width n h := by
  have hp : 0 < 2^h := Nat.pow_pos (by decide)
  unfold calcTreeWidthC width shr32
  -- `numTx + 2^h` may be exactly 2^32 and wrap to 0; the subtraction of 1 wraps back
  have e : sub32 (add32 n (2^h)) 1 = n + 2^h - 1 := by unfold sub32 add32; omega
  rw [shl32_of_lt (a := 1) (k := h) (by omega), Nat.one_mul, Nat.shiftRight_eq_div_pow, e]

/-- the bound matters: one transaction more than 2^31 and the width at height 31 wraps to 0 (true value: 2) -/
theorem calcTreeWidthC_wraps : calcTreeWidthC (2^31+1) 31 = 0 ∧ width (2^31+1) 31 = 2 := by
  constructor <;> decide

/-- for every count the width at height 32 is computed as 0 (`1 << 32` is 0 and `x >> 32` is 0 on `uint32`) -/
theorem calcTreeWidthC_32 (n : Nat) : calcTreeWidthC n 32 = 0 := by
  unfold calcTreeWidthC shr32
  have e : shl32 1 32 = 0 := by decide
  rw [e, Nat.shiftRight_eq_div_pow]
  apply Nat.div_eq_of_lt
  unfold sub32; exact Nat.mod_lt _ (by decide)

/-- the height loop returns a height at which the width is ≤ 1, unless the fuel ran out -/
theorem heightLoopC_spec (n : Nat) : ∀ fuel h, h + fuel < 2^32 →
    h ≤ heightLoopC n fuel h ∧ heightLoopC n fuel h ≤ h + fuel ∧
      (calcTreeWidthC n (heightLoopC n fuel h) ≤ 1 ∨ heightLoopC n fuel h = h + fuel) ∧
      ∀ k, h ≤ k → k < heightLoopC n fuel h → 1 < calcTreeWidthC n k := by
  intro fuel
  induction fuel with
  | zero => intro h _; simp [heightLoopC]; intro k h1 h2; omega
  | succ fuel ih =>
    intro h hb
    unfold heightLoopC
    by_cases hw : calcTreeWidthC n h > 1
    · rw [if_pos hw, add32_of_lt (by omega)]
      obtain ⟨a, b, c, d⟩ := ih (h+1) (by omega)
      refine ⟨by omega, by omega, ?_, ?_⟩
      · rcases c with c | c
        · left; exact c
        · right; omega
      · intro k h1 h2
        by_cases hk : k = h
        · subst hk; exact hw
        · exact d k (by omega) h2
    · rw [if_neg hw]
      refine ⟨by omega, by omega, Or.inl (by omega), ?_⟩
      intro k h1 h2; omega

/-- the height loop does not hang: for every `uint32` transaction count it stops within 33 tests, at a height
≤ 32 where the computed width is ≤ 1 -/
theorem heightLoopC_terminates (n : Nat) :
    heightLoopC n 33 0 ≤ 32 ∧ calcTreeWidthC n (heightLoopC n 33 0) ≤ 1 := by
  obtain ⟨_, b, c, d⟩ := heightLoopC_spec n 33 0 (by decide)
  by_cases h33 : heightLoopC n 33 0 = 33
  · have := d 32 (by omega) (by omega)
    rw [calcTreeWidthC_32 n] at this
    omega
  · refine ⟨by omega, ?_⟩
    rcases c with c | c
    · exact c
    · omega

theorem heightLoopC_eq (n : Nat) (h1 : 1 ≤ n) (hn : n ≤ 2^31) : ∀ fuel h, h + fuel ≤ 33 →
    (∀ k, k < h → 1 < width n k) → heightLoopC n fuel h = heightLoop n fuel h := by
  intro fuel
  induction fuel with
  | zero => intro h _ _; rfl
  | succ fuel ih =>
    intro h hf hk
    -- all heights below `h` have width > 1, so `2^(h-1) < n ≤ 2^31` and `2^h ≤ 2^31`
    have hh : 2^h ≤ 2^31 := by
      cases h with
      | zero => exact Nat.pow_le_pow_right (by decide) (by omega)
      | succ h' =>
        have := hk h' (by omega)
        have hlt : 2^h' < n := by
          exact Nat.lt_of_not_le (fun hle => by have := (width_le_one_iff n h').mpr hle; omega)
        have : h' < 31 := (Nat.pow_lt_pow_iff_right (a := 2) (by decide)).mp (by omega)
        exact Nat.pow_le_pow_right (by decide) (by omega)
    unfold heightLoopC heightLoop
    rw [calcTreeWidthC_eq h1 (by omega)]
    by_cases hw : width n h > 1
    · rw [if_pos hw, if_pos hw, add32_of_lt (by omega)]
      apply ih (h+1) (by omega)
      intro k hk'
      by_cases e : k = h
      · subst e; exact hw
      · exact hk k (by omega)
    · rw [if_neg hw, if_neg hw]

/-- inside the tree of a block of at most 2^31 transactions no `uint32` operation wraps:
`numTx + 2^height ≤ 2^32` at the root, hence at every node -/
theorem tree_bound {n : Nat} (h1 : 1 ≤ n) (hn : n ≤ 2^31) : n + 2^(height n) ≤ 2^32 ∧ n ≤ 2^(height n) := by
  have hw := width_height h1 (by omega : n ≤ 2^33)
  have hle : n ≤ 2^(height n) := (width_le_one_iff n (height n)).mp (by omega)
  refine ⟨?_, hle⟩
  have hh : 2^(height n) ≤ 2^31 := by
    cases hh : height n with
    | zero => exact Nat.pow_le_pow_right (by decide) (by omega)
    | succ h' =>
      have := height_least n h' (by omega)
      have hlt : 2^h' < n := by
        exact Nat.lt_of_not_le (fun hle => by have := (width_le_one_iff n h').mpr hle; omega)
      have : h' < 31 := (Nat.pow_lt_pow_iff_right (a := 2) (by decide)).mp (by omega)
      exact Nat.pow_le_pow_right (by decide) (by omega)
  omega

/-- the arithmetic facts at a node `(h+1, pos)` of the tree, in terms of `P = pos * 2^h` and `E = 2^h` -/
theorem node_arith (h pos : Nat) :
    0 < 2^h ∧ pos * 2^(h+1) = 2 * (pos * 2^h) ∧ 2^(h+1) = 2 * 2^h ∧ pos ≤ pos * 2^h ∧
    pos * 2 * 2^h = 2 * (pos * 2^h) ∧ (pos * 2 + 1) * 2^h = 2 * (pos * 2^h) + 2^h ∧
    (pos + 1) * 2^(h+1) = 2 * (pos * 2^h) + 2 * 2^h ∧ (pos * 2 + 1 + 1) * 2^h = 2 * (pos * 2^h) + 2 * 2^h := by
  have hd : 0 < 2^h := Nat.pow_pos (by decide)
  have e1 : pos * 2^(h+1) = 2 * (pos * 2^h) := by rw [Nat.pow_succ]; ac_rfl
  have e3 : pos * 2 * 2^h = 2 * (pos * 2^h) := by ac_rfl
  have e4 : (pos * 2 + 1) * 2^h = 2 * (pos * 2^h) + 2^h := by rw [Nat.add_mul, e3, Nat.one_mul]
  refine ⟨hd, e1, Nat.pow_succ' .., Nat.le_mul_of_pos_right _ hd, e3, e4, ?_, ?_⟩
  · rw [Nat.add_mul, e1, Nat.one_mul, Nat.pow_succ']
  · rw [Nat.add_mul, e4, Nat.one_mul]; omega

/-! ## `calcHash` -/

/-- invocations of `calcHash(h, pos)` = nodes of the sub-tree below `(h, pos)` -/
def calcHashCalls (n : Nat) : Nat → Nat → Nat
  | 0, _ => 1
  | h+1, pos => 1 + calcHashCalls n h (2*pos) + (if 2*pos+1 < width n h then calcHashCalls n h (2*pos+1) else 0)

theorem calcHashC_eq (comb : H → H → H) (dflt : H) (m : MB H) (hl : m.numTx ≤ m.allHashes.length) :
    ∀ h pos, m.numTx + 2^h ≤ 2^32 → pos * 2^h < m.numTx →
      calcHashC comb m h pos = .ok (m.calcHash comb dflt h pos, calcHashCalls m.numTx h pos) := by
  intro h
  induction h with
  | zero =>
    intro pos _ hp
    simp only [Nat.pow_zero, Nat.mul_one] at hp
    simp only [calcHashC, MB.calcHash, calcHashCalls]
    rw [bind_of_ok (idx?_ok_getD (by omega) dflt)]
    rfl
  | succ h ih =>
    intro pos hb hp
    obtain ⟨hd, e1, e2, e3, e4, e5, _, _⟩ := node_arith h pos
    rw [e1] at hp
    rw [e2] at hb
    have hm : mul32 pos 2 = pos * 2 := mul32_of_lt (by omega)
    have ha : add32 (pos * 2) 1 = pos * 2 + 1 := add32_of_lt (by omega)
    have hw : calcTreeWidthC m.numTx h = width m.numTx h := calcTreeWidthC_eq (by omega) (by omega)
    simp only [calcHashC, MB.calcHash, calcHashCalls, hm, ha, hw, MerkleSelect.calcTreeWidth_eq]
    rw [bind_of_ok (ih (pos*2) (by omega) (by rw [e4]; omega))]
    simp only [Nat.mul_comm 2 pos]
    by_cases hr : pos * 2 + 1 < width m.numTx h
    · have hr' := (lt_width_iff _ _ _).mp hr
      simp only [hr, if_true]
      rw [bind_of_ok (ih (pos*2+1) (by omega) hr')]
      rfl
    · simp only [hr, if_false]
      rfl

/-- the empty block: `calcHash(0, 0)` reads `m.allHashes[0]` of an empty slice -/
theorem calcHashC_empty (comb : H → H → H) (m : MB H) (he : m.allHashes = []) (pos : Nat) :
    calcHashC comb m 0 pos = .error .indexOOB := by
  simp [calcHashC, he, idx?]

/-- number of leaves below node `(h, pos)` -/
def span (n h pos : Nat) : Nat := min ((pos+1) * 2^h) n - pos * 2^h

/-- nodes below `(h, pos)` ≤ `2·leaves - 1 + h`; a complete sub-tree has `2·leaves - 1` -/
theorem calcHashCalls_le (n : Nat) : ∀ h pos, pos * 2^h < n →
    calcHashCalls n h pos + 1 ≤ 2 * span n h pos + h ∧
      ((pos+1) * 2^h ≤ n → calcHashCalls n h pos + 1 ≤ 2 * span n h pos) := by
  intro h
  induction h with
  | zero =>
    intro pos hp
    simp only [Nat.pow_zero, Nat.mul_one] at hp
    simp only [calcHashCalls, span, Nat.pow_zero, Nat.mul_one]
    omega
  | succ h ih =>
    intro pos hp
    obtain ⟨hd, e1, e2, e3, e4, e5, e6, e7⟩ := node_arith h pos
    rw [e1] at hp
    have a := ih (2*pos)
    have b := ih (2*pos+1)
    simp only [span, Nat.mul_comm 2 pos, e4, e5, e7] at a b
    simp only [calcHashCalls, span, e1, e6, Nat.mul_comm 2 pos]
    obtain ⟨a1, a2⟩ := a (by omega)
    by_cases hr : pos * 2 + 1 < width n h
    · have hr' := (lt_width_iff _ _ _).mp hr
      rw [e5] at hr'
      obtain ⟨b1, b2⟩ := b hr'
      have a2' := a2 (by omega)
      simp only [hr, if_true]
      constructor
      · omega
      · intro hf; have := b2 hf; omega
    · have hr' : ¬ (pos * 2 + 1) * 2^h < n := fun h' => hr ((lt_width_iff _ _ _).mpr h')
      rw [e5] at hr'
      simp only [hr, if_false]
      constructor
      · omega
      · intro hf; omega

/-! ## the `isParent` loop -/

theorem isParentLoopC_eq (m : MB H) (hl : m.numTx ≤ m.matchedBits.length) (hn : m.numTx < 2^32) (stop : Nat) :
    ∀ fuel i (acc : UInt8), isParentLoopC m stop fuel i acc = .ok (m.isParentLoop stop fuel i acc) := by
  intro fuel
  induction fuel with
  | zero => intro i acc; rfl
  | succ fuel ih =>
    intro i acc
    unfold isParentLoopC MB.isParentLoop
    by_cases hc : i < stop ∧ i < m.numTx
    · rw [if_pos hc, if_pos hc, bind_of_ok (idx?_ok_getD (by omega) 0), add32_of_lt (by omega)]
      exact ih (i+1) _
    · rw [if_neg hc, if_neg hc]; rfl

theorem isParentC_eq (m : MB H) (hl : m.numTx ≤ m.matchedBits.length) (h pos : Nat)
    (hb : m.numTx + 2^h ≤ 2^32) (hp : pos * 2^h < m.numTx) :
    isParentC m h pos = .ok (m.isParent h pos) := by
  have hd : 0 < 2^h := Nat.pow_pos (by decide)
  have hpos : pos ≤ pos * 2^h := Nat.le_mul_of_pos_right _ hd
  have e : (pos + 1) * 2^h = pos * 2^h + 2^h := by rw [Nat.add_mul, Nat.one_mul]
  unfold isParentC MB.isParent
  rw [add32_of_lt (by omega), shl32_of_lt (by omega), shl32_of_lt (by omega),
    isParentLoopC_eq m hl (by omega)]
  simp only [Nat.shiftLeft_eq]

/-! ## `traverseAndBuild` -/

/-- invocations of `calcHash` made by `traverseAndBuild(h, pos)` -/
def buildHashCalls (mt : Nat → Bool) (n : Nat) : Nat → Nat → Nat
  | 0, _ => 1
  | h+1, pos =>
    if isParentGo mt n (h+1) pos then
      buildHashCalls mt n h (2*pos) + (if 2*pos+1 < width n h then buildHashCalls mt n h (2*pos+1) else 0)
    else calcHashCalls n (h+1) pos

theorem traverseAndBuildC_eq (comb : H → H → H) (dflt : H) (mt : Nat → Bool) :
    ∀ h pos (mb : MB H) (k : Nat), Tied mb mt → mb.numTx ≤ mb.allHashes.length →
      mb.numTx ≤ mb.matchedBits.length → mb.numTx + 2^h ≤ 2^32 → pos * 2^h < mb.numTx →
      traverseAndBuildC comb h pos (mb, k) =
        .ok ({ mb with
              bits := mb.bits ++
                (build comb (fun i => mb.allHashes.getD i dflt) mt mb.numTx h pos).1.map bit,
              finalHashes := mb.finalHashes ++
                (build comb (fun i => mb.allHashes.getD i dflt) mt mb.numTx h pos).2 },
            k + buildHashCalls mt mb.numTx h pos) := by
  intro h
  induction h with
  | zero =>
    intro pos mb k ht hla hlm hb hp
    rw [traverseAndBuildC, bind_of_ok (isParentC_eq mb hlm 0 pos hb hp)]
    dsimp only
    rw [bind_of_ok (calcHashC_eq comb dflt ({ mb with bits := mb.bits ++ [mb.isParent 0 pos] } : MB H) hla 0 pos hb hp)]
    simp only [pure_eq_ok, build, buildHashCalls, calcHashCalls, MB.calcHash, isParent_eq mb mt ht,
      List.map_cons, List.map_nil]
  | succ h ih =>
    intro pos mb k ht hla hlm hb hp
    have hp0 := hp
    have hb0 := hb
    obtain ⟨hd, e1, e2, e3, e4, e5, _, _⟩ := node_arith h pos
    rw [e1] at hp
    rw [e2] at hb
    have hm : mul32 pos 2 = pos * 2 := mul32_of_lt (by omega)
    have ha : add32 (pos * 2) 1 = pos * 2 + 1 := add32_of_lt (by omega)
    have hw : calcTreeWidthC mb.numTx h = width mb.numTx h := calcTreeWidthC_eq (by omega) (by omega)
    rw [traverseAndBuildC, bind_of_ok (isParentC_eq mb hlm (h+1) pos hb0 hp0)]
    dsimp only
    simp only [isParent_eq mb mt ht, bit_eq_zero]
    rw [build_succ, buildHashCalls]
    by_cases hpar : isParentGo mt mb.numTx (h+1) pos = true
    · simp only [hpar, Bool.not_true, Bool.false_eq_true, if_false, if_true, hm, ha]
      have ht1 : Tied ({ mb with bits := mb.bits ++ [bit true] } : MB H) mt := ht
      rw [bind_of_ok (ih (pos*2) _ k ht1 hla hlm (show mb.numTx + 2^h ≤ 2^32 by omega) (show pos * 2 * 2^h < mb.numTx by rw [e4]; omega))]
      simp only [hw, Nat.mul_comm 2 pos]
      by_cases hr : pos * 2 + 1 < width mb.numTx h
      · have hr' := (lt_width_iff _ _ _).mp hr
        simp only [hr, if_true]
        refine (ih (pos*2+1) _ _ ?_ ?_ ?_ ?_ ?_).trans ?_
        · exact ht
        · exact hla
        · exact hlm
        · show mb.numTx + 2^h ≤ 2^32; omega
        · exact hr'
        · simp [List.append_assoc, Nat.add_assoc]
      · simp only [hr, if_false]
        simp [List.append_assoc]
    · have hpar' : isParentGo mt mb.numTx (h+1) pos = false := by simpa using hpar
      simp only [hpar', Bool.not_false, if_true, Bool.false_eq_true, if_false, List.map_cons, List.map_nil]
      rw [bind_of_ok (calcHashC_eq comb dflt ({ mb with bits := mb.bits ++ [bit false] } : MB H) hla (h+1) pos hb0 hp0)]
      simp only [pure_eq_ok, MerkleSelect.calcHash_eq]

/-- `traverseAndBuild(0, pos)` on a struct without hashes: the loop and the append go through, then
`m.calcHash(0, pos)` reads `m.allHashes[pos]` -/
theorem traverseAndBuildC_empty (comb : H → H → H) (pos : Nat) (mb : MB H) (k : Nat) (he : mb.allHashes = [])
    (r : UInt8) (hi : isParentC mb 0 pos = .ok r) :
    traverseAndBuildC comb 0 pos (mb, k) = .error .indexOOB := by
  rw [traverseAndBuildC, bind_of_ok hi]
  dsimp only
  rw [calcHashC_empty comb ({ mb with bits := mb.bits ++ [r] } : MB H) he pos]
  rfl

/-- what `traverseAndBuild` emits and how often it calls `calcHash`: both at most the nodes of the sub-tree -/
theorem build_counts_le (comb : H → H → H) (L : Nat → H) (mt : Nat → Bool) (n : Nat) : ∀ h pos,
    (build comb L mt n h pos).1.length ≤ calcHashCalls n h pos ∧
      buildHashCalls mt n h pos ≤ calcHashCalls n h pos := by
  intro h
  induction h with
  | zero => intro pos; simp [build, buildHashCalls, calcHashCalls]
  | succ h ih =>
    intro pos
    obtain ⟨a1, a2⟩ := ih (2*pos)
    obtain ⟨b1, b2⟩ := ih (2*pos+1)
    rw [build_succ, buildHashCalls, calcHashCalls]
    split
    · split
      · simp only [List.length_cons, List.length_append]; omega
      · simp only [List.length_cons]; omega
    · simp only [List.length_cons, List.length_nil]
      split <;> omega

/-! ## the flag loop -/

theorem flagLoopC_eq (bits : List UInt8) (hb : bits.length < 2^32) : ∀ (fuel i : Nat) (flags : List UInt8),
    i + fuel ≤ bits.length → (bits.length + 7) / 8 ≤ flags.length →
    flagLoopC bits fuel i flags = .ok ((List.range' i fuel).foldl (flagStep bits) flags) := by
  intro fuel
  induction fuel with
  | zero => intro i flags _ _; rfl
  | succ fuel ih =>
    intro i flags hi hf
    have h8 : i / 8 < flags.length := by omega
    rw [flagLoopC, bind_of_ok (idx?_ok_getD (by omega) 0), bind_of_ok (idx?_ok h8), bind_of_ok (set?_ok h8 _),
      add32_of_lt (by omega), ih (i+1) _ (by omega) (by simpa using hf)]
    simp only [List.range'_succ, List.foldl_cons, flagStep]
    rw [List.modify_eq_take_cons_drop h8, List.set_eq_take_append_cons_drop, if_pos h8]

theorem flagLoopC_full (bits : List UInt8) (hb : bits.length < 2^32) :
    flagLoopC bits (u32 bits.length) 0 (List.replicate (((bits.length : Int) + 7) / 8).toNat (0 : UInt8))
      = .ok (flagLoop bits) := by
  rw [u32_of_lt hb]
  have e : (((bits.length : Int) + 7) / 8).toNat = (bits.length + 7) / 8 := by omega
  rw [e, flagLoopC_eq bits hb _ 0 _ (by omega) (by simp)]
  unfold flagLoop
  rw [List.range_eq_range']
  rfl

/-! ## the whole builder -/

/-- largest transaction count for which the theorems about the whole builder are stated: the tree arithmetic
needs `numTx ≤ 2^31`, the flag loop `len(bits) ≤ 2·numTx + 30 < 2^32` -/
def maxBuilderTx : Nat := 2^31 - 16

/-- nodes of the whole tree: at most `2·n + height - 1` -/
theorem root_calls_le {n : Nat} (h1 : 1 ≤ n) (hn : n ≤ 2^31) : calcHashCalls n (height n) 0 + 1 ≤ 2 * n + 31 := by
  obtain ⟨hb, hle⟩ := tree_bound h1 hn
  have := (calcHashCalls_le n (height n) 0 (by omega)).1
  have hs : span n (height n) 0 = n := by
    unfold span; simp only [Nat.zero_mul, Nat.zero_add, Nat.one_mul, Nat.sub_zero]; omega
  rw [hs] at this
  have hh : height n ≤ 31 := by
    have : 2^(height n) < 2^32 := by omega
    have := (Nat.pow_lt_pow_iff_right (a := 2) (by decide)).mp this
    omega
  omega

theorem builderC_eq (comb : H → H → H) (leaves : List H) (mt : Nat → Bool) (dflt : H)
    (h1 : 1 ≤ leaves.length) (hn : leaves.length ≤ maxBuilderTx) :
    builderC comb leaves mt = .ok (buildMsgBloom comb leaves mt dflt,
      buildHashCalls mt leaves.length (height leaves.length) 0) := by
  have hn31 : leaves.length ≤ 2^31 := by unfold maxBuilderTx at hn; omega
  obtain ⟨hb, hle⟩ := tree_bound h1 hn31
  unfold builderC buildMsgBloom
  rw [u32_of_lt (by omega)]
  dsimp only
  rw [fillLoop_eq]
  dsimp only
  simp only [List.nil_append]
  have ht := tied_fill mt leaves
  have hH : heightLoopC leaves.length 33 0 = height leaves.length :=
    heightLoopC_eq leaves.length h1 hn31 33 0 (by omega) (by intro k hk; omega)
  rw [hH, MerkleSelect.heightLoop_eq]
  change (traverseAndBuildC comb (height leaves.length) 0 _ >>= _) = _
  rw [bind_of_ok (traverseAndBuildC_eq comb dflt mt (height leaves.length) 0 _ 0 ht (by simp) (by simp) hb
    (by simp only; omega))]
  rw [traverseAndBuild_eq comb dflt mt _ _ _ ht]
  simp only [List.nil_append, Nat.zero_add]
  have hbits : ((build comb (fun i => (leaves.zipIdx.map Prod.fst).getD i dflt) mt leaves.length
      (height leaves.length) 0).1.map bit).length < 2^32 := by
    rw [List.length_map]
    have := (build_counts_le comb (fun i => (leaves.zipIdx.map Prod.fst).getD i dflt) mt leaves.length
      (height leaves.length) 0).1
    have := root_calls_le h1 hn31
    unfold maxBuilderTx at hn
    omega
  rw [bind_of_ok (make?_ok (by omega) 0), bind_of_ok (flagLoopC_full _ hbits)]
  rfl

theorem builderC_empty (comb : H → H → H) (mt : Nat → Bool) : builderC comb ([] : List H) mt = .error .indexOOB := by
  unfold builderC
  simp only [List.length_nil, List.zipIdx_nil, fillLoop]
  have h0 : heightLoopC (u32 0) 33 0 = 0 := by decide
  rw [h0]
  rw [traverseAndBuildC_empty comb 0 _ 0 rfl 0 rfl]
  rfl

/-- invocations of `calcHash` and of `traverseAndBuild` (= bits emitted) for a whole tree: at most `2·n + 30` -/
theorem root_counts_le (comb : H → H → H) (L : Nat → H) (mt : Nat → Bool) {n : Nat} (h1 : 1 ≤ n) (hn : n ≤ 2^31) :
    buildHashCalls mt n (height n) 0 ≤ 2 * n + 30 ∧ (build comb L mt n (height n) 0).1.length ≤ 2 * n + 30 := by
  obtain ⟨a, b⟩ := build_counts_le comb L mt n (height n) 0
  have := root_calls_le h1 hn
  omega

/-! ## the entry points that scan with a bloom filter -/

theorem GetMatchedIndicesC_empty (fuel : Nat) (f : Bloom.Filter) :
    CheckedBloomTx.GetMatchedIndicesC fuel #[] f = .ok { sc := { filter := f, matched := [] } } := rfl

theorem blockHashes_length (block : Array BloomTx.Tx) : (blockHashes block).length = block.size := by
  simp [blockHashes]

/-- `bloom.NewMerkleBlock` / `merkleblock.NewMerkleBlockWithFilter` on a block without transactions: the scan
returns (an empty map), then the core panics -/
theorem NewMerkleBlockC_empty (comb : Bytes → Bytes → Bytes) (fuel : Nat) (f : Bloom.Filter) :
    NewMerkleBlockC comb fuel #[] f = .error .indexOOB := by
  unfold NewMerkleBlockC
  rw [bind_of_ok (GetMatchedIndicesC_empty fuel f)]
  have : blockHashes #[] = [] := rfl
  rw [this, builderC_empty]
  rfl

theorem NewMerkleBlockC_no_fault (comb : Bytes → Bytes → Bytes) (fuel : Nat) (block : Array BloomTx.Tx)
    (f : Bloom.Filter) (hl : Bch.Proofs.Bloom.Lim f) (h1 : 1 ≤ block.size) (hn : block.size ≤ maxBuilderTx) :
    ∃ r, NewMerkleBlockC comb fuel block f = .ok r := by
  obtain ⟨s, hs⟩ := CheckedBloomTx.GetMatchedIndicesC_no_fault fuel block f hl
  unfold NewMerkleBlockC
  rw [bind_of_ok hs, bind_of_ok (builderC_eq comb (blockHashes block) (selectByScan s.sc) []
    (by rw [blockHashes_length]; exact h1) (by rw [blockHashes_length]; exact hn))]
  exact ⟨_, rfl⟩

/-- on a block of well-typed records the transcription returns what the model of `bloom.NewMerkleBlock` returns -/
theorem NewMerkleBlockC_eq (comb : Bytes → Bytes → Bytes) (fuel : Nat) (block : Array BloomTx.Tx) (C N : Nat)
    (hb : CheckedBloomTx.BlockOK block C N) (f : Bloom.Filter) (hl : Bch.Proofs.Bloom.Lim f)
    (h1 : 1 ≤ block.size) (hn : block.size ≤ maxBuilderTx) (dflt : Bytes) :
    ∃ c, NewMerkleBlockC comb fuel block f =
        .ok ((((newMerkleBlockBloom BloomTx.bloomOps BloomTx.bloomSame fuel comb block f dflt).1,
               (newMerkleBlockBloom BloomTx.bloomOps BloomTx.bloomSame fuel comb block f dflt).2.1), c),
             (newMerkleBlockBloom BloomTx.bloomOps BloomTx.bloomSame fuel comb block f dflt).2.2) ∧
      c ≤ 2 * block.size + 30 := by
  obtain ⟨k, a, hs, _, _⟩ := CheckedBloomTx.GetMatchedIndicesC_eq fuel block C N hb f hl
  refine ⟨buildHashCalls
    (selectByScan (BloomTx.GetMatchedIndices BloomTx.bloomOps BloomTx.bloomSame fuel block f))
    (blockHashes block).length (height (blockHashes block).length) 0, ?_, ?_⟩
  · unfold NewMerkleBlockC
    rw [bind_of_ok hs, bind_of_ok (builderC_eq comb (blockHashes block) _ dflt
      (by rw [blockHashes_length]; exact h1) (by rw [blockHashes_length]; exact hn))]
    rfl
  · rw [blockHashes_length]
    exact (root_counts_le comb (fun _ => dflt) _ h1 (by unfold maxBuilderTx at hn; omega)).1

/-- observable part of a result over `H = Nat`, for the examples (the message type has no decidable equality) -/
def builderView (r : Except Fault ((Msg Nat × List Nat) × Nat)) :
    Except Fault (Nat × List Nat × List UInt8 × List Nat × Nat) :=
  match r with
  | .ok ((msg, idx), calls) => .ok (msg.numTx, msg.hashes, msg.flags, idx, calls)
  | .error e => .error e

end Bch.Proofs.CheckedBuilders
