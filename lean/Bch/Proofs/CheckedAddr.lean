import Bch.Proofs.Checked
import Bch.Proofs.Address
/-
Fault-tracking layer for C08, part 4: raw Base58 (/repo/base58/base58.go: `Decode`, `Encode`) and the
outermost address parser `DecodeAddress` (/repo/address.go:82-194).

Same conventions as `Bch/Proofs/Checked.lean` (whose primitives `idx?`, `slice?`, `set?`, `make?` and
`Except` plumbing are used): every Go index expression, slice expression and `make` is a checked primitive
returning `Except Fault`, cited with its Go line; `for i := 0; i < n; i++` loops carry a structural
`fuel = n - i`; `for _, c := range b` loops without an index expression are structural recursion.

* `math/big` is abstract as in the model: a `big.Int` is a `Nat`, `answer.Bytes()` is `Bytes.ofNatMin`,
  `x.SetBytes(b)` is `Bytes.toNatBE`, `DivMod` is `/`, `%`. None of these can panic (`bigRadix ≠ 0`).
* `Decode`'s first loop runs downwards (`for i := len(b)-1; i >= 0; i--`): `fuel = i + 1`. The table `b58`
  is a parameter of the transcription, so that the guard-less variant (a table with 128 entries, as for
  `CharsetRev` in address.go) can be run: the real 256-entry table is what makes `b58[b[i]]` safe for
  every byte.
* `Encode`'s loop `for x.Cmp(bigZero) > 0` has no syntactic bound. As for `ConvertBits` in
  `CheckedBech32.lean` it runs on a step budget and running out of it is reported as a fault
  (`outOfFuel`). The budget `2·len(b)` is never exhausted (`256 ≤ 58²`), any larger one gives the same.
* Go strings are byte lists; `s[:k]` on a string is `slice?`; `strings.EqualFold`, `hex.DecodeString`,
  `bchec.ParsePubKey`, `chaincfg.Is…AddrID` are external total functions, taken from the model
  (`equalFoldASCII`, `hexDec`, `X.parsePub`, `pkhIDs.contains`). The `&&` of address.go:91 is short-circuit:
  the second slice is only evaluated when the first comparison fails.
* `DecodeAddress` calls `checkDecodeCashAddress` (→ `checkDecodeCashAddressC` of Checked.lean) and
  `base58.CheckDecode`, which starts with `base58.Decode` (→ `Base58DecodeC` here, then the body of
  `CheckDecodeC` of Checked.lean on the decoded bytes).

Sections: 1 `base58.Decode`, 2 `base58.Encode`, 3 `DecodeAddress`.
-/
set_option linter.unusedSectionVars false
set_option linter.unusedVariables false

namespace Bch.Proofs.CheckedAddr
open Bch Bch.Model Bch.Proofs.Checked

/-- exhausting the step budget of a loop without syntactic bound (same convention as `CheckedBech32`) -/
abbrev outOfFuel : Fault := .indexOOB

/-- Go `copy(dst, src)`: the first `min(len(dst), len(src))` elements are overwritten; never panics -/
def copyC {α : Type} (dst src : List α) : List α :=
  let n := min dst.length src.length
  src.take n ++ dst.drop n

theorem copyC_full {α : Type} (dst src : List α) (h : dst.length = src.length) : copyC dst src = src := by
  simp [copyC, h]

/-! ## 1. `base58.Decode` (/repo/base58/base58.go:17-46) -/
section B58Decode
open Bch.Model.Base58
open Bch.Proofs.Base58 (step decodeNat_eq lead leadingOnes_eq lead_le_length lead_split length_ofNatMin_le)

/-- `b58` (base58/alphabet.go:17), a `[256]byte` -/
def b58Tbl : List UInt8 := [
  255, 255, 255, 255, 255, 255, 255, 255, 255, 255, 255, 255, 255, 255, 255, 255, 255, 255, 255, 255,
  255, 255, 255, 255, 255, 255, 255, 255, 255, 255, 255, 255, 255, 255, 255, 255, 255, 255, 255, 255,
  255, 255, 255, 255, 255, 255, 255, 255, 255, 0, 1, 2, 3, 4, 5, 6, 7, 8, 255, 255, 255, 255, 255,
  255, 255, 9, 10, 11, 12, 13, 14, 15, 16, 255, 17, 18, 19, 20, 21, 255, 22, 23, 24, 25, 26, 27, 28,
  29, 30, 31, 32, 255, 255, 255, 255, 255, 255, 33, 34, 35, 36, 37, 38, 39, 40, 41, 42, 43, 255, 44,
  45, 46, 47, 48, 49, 50, 51, 52, 53, 54, 55, 56, 57, 255, 255, 255, 255, 255, 255, 255, 255, 255,
  255, 255, 255, 255, 255, 255, 255, 255, 255, 255, 255, 255, 255, 255, 255, 255, 255, 255, 255, 255,
  255, 255, 255, 255, 255, 255, 255, 255, 255, 255, 255, 255, 255, 255, 255, 255, 255, 255, 255, 255,
  255, 255, 255, 255, 255, 255, 255, 255, 255, 255, 255, 255, 255, 255, 255, 255, 255, 255, 255, 255,
  255, 255, 255, 255, 255, 255, 255, 255, 255, 255, 255, 255, 255, 255, 255, 255, 255, 255, 255, 255,
  255, 255, 255, 255, 255, 255, 255, 255, 255, 255, 255, 255, 255, 255, 255, 255, 255, 255, 255, 255,
  255, 255, 255, 255, 255, 255, 255, 255, 255, 255, 255, 255, 255, 255, 255, 255, 255, 255, 255, 255,
  255, 255, 255, 255]

/-- the first loop (base58.go:22-31), `for i := len(b)-1; i >= 0; i--`; `fuel = i + 1`;
`none` = the early `return []byte("")` -/
def decodeLoopC (tbl : List UInt8) (b : Bytes) : (fuel : Nat) → (answer j : Nat) → Except Fault (Option Nat)
  | 0, answer, _ => pure (some answer)
  | i+1, answer, j => do
    let c ← idx? b i                                     -- base58.go:23  b[i]
    let tmp ← idx? tbl c.toNat                           -- base58.go:23  b58[b[i]]
    if tmp = 255 then pure none else                     -- base58.go:24-26
    decodeLoopC tbl b i (answer + j * tmp.toNat) (j * 58)  -- base58.go:27-30

/-- the second loop (base58.go:36-40); `fuel = len(b) - numZeros` -/
def zerosLoopC (b : Bytes) : (fuel numZeros : Nat) → Except Fault Nat
  | 0, numZeros => pure numZeros
  | fuel+1, numZeros => do
    let c ← idx? b numZeros                              -- base58.go:37  b[numZeros]
    if c ≠ 49 then pure numZeros                         -- base58.go:37-39  != alphabetIdx0, break
    else zerosLoopC b fuel (numZeros + 1)

/-- `Decode` with the lookup table as a parameter -/
def Base58DecodeG (tbl : List UInt8) (b : Bytes) : Except Fault Bytes := do
  match ← decodeLoopC tbl b b.length 0 1 with            -- base58.go:18-31
  | none => pure []                                      -- base58.go:25
  | some answer =>
    let tmpval := Bytes.ofNatMin answer                  -- base58.go:33  answer.Bytes()
    let numZeros ← zerosLoopC b b.length 0               -- base58.go:35-40
    let flen : Int := (numZeros : Int) + (tmpval.length : Int)   -- base58.go:41
    let val ← make? flen (0 : UInt8)                     -- base58.go:42  make([]byte, flen)
    let dst ← slice? val (numZeros : Int) (val.length : Int)     -- base58.go:43  val[numZeros:]
    pure (val.take numZeros ++ copyC dst tmpval)         -- base58.go:43  copy(…, tmpval) writes through to val

/-- the code as it is: the 256-entry table -/
def Base58DecodeC (b : Bytes) := Base58DecodeG b58Tbl b

/-! ### the table -/

/-- one entry of the table against the model's `b58` (position in the alphabet) -/
def b58TblOK (n : Nat) : Bool :=
  match b58Tbl[n]? with
  | some t =>
    (match b58 (UInt8.ofNat n) with
     | some d => t != 255 && t.toNat == d
     | none => t == 255)
  | none => false

theorem b58Tbl_all_range : (List.range 256).all b58TblOK = true := by decide +kernel

theorem b58Tbl_length : b58Tbl.length = 256 := by decide +kernel

/-- `b58[c]` is in range for every byte `c`, and is the model's `b58 c` (255 = not in the alphabet) -/
theorem b58Tbl_spec (c : UInt8) : ∃ t, idx? b58Tbl c.toNat = .ok t ∧
    (t = 255 → b58 c = none) ∧ (t ≠ 255 → b58 c = some t.toNat) := by
  have hc : c.toNat < 256 := c.toNat_lt
  have hlen : c.toNat < b58Tbl.length := by rw [b58Tbl_length]; exact hc
  have hk : b58TblOK c.toNat = true :=
    List.all_eq_true.mp b58Tbl_all_range c.toNat (List.mem_range.mpr hc)
  have hcc : UInt8.ofNat c.toNat = c := by simp
  refine ⟨b58Tbl[c.toNat], idx?_ok hlen, ?_, ?_⟩
  · intro hr
    simp only [b58TblOK, List.getElem?_eq_getElem hlen, hr, hcc] at hk
    cases hb : b58 c with
    | none => rfl
    | some d => rw [hb] at hk; simp at hk
  · intro hr
    simp only [b58TblOK, List.getElem?_eq_getElem hlen, hcc] at hk
    cases hb : b58 c with
    | none => rw [hb] at hk; simp at hk; exact absurd hk hr
    | some d => rw [hb] at hk; simp at hk; rw [hk.2]

/-! ### the loops -/

theorem decodeLoopC_eq (b : Bytes) : ∀ (fuel answer j : Nat), fuel ≤ b.length →
    decodeLoopC b58Tbl b fuel answer j = .ok ((decodeNat (b.take fuel)).map fun v => answer + j * v) := by
  intro fuel
  induction fuel with
  | zero => intro answer j _; simp [decodeLoopC, decodeNat]
  | succ i ih =>
    intro answer j h
    have hi : i < b.length := by omega
    rw [List.take_succ_eq_append_getElem hi, decodeNat_eq, List.foldl_append, ← decodeNat_eq]
    simp only [decodeLoopC, idx?_ok hi, ok_bind, List.foldl_cons, List.foldl_nil]
    obtain ⟨t, ht, h1, h2⟩ := b58Tbl_spec b[i]
    simp only [ht, ok_bind]
    by_cases h255 : t = 255
    · rw [if_pos h255]
      have : step (decodeNat (List.take i b)) b[i] = none := by
        unfold step; rw [h1 h255]; cases decodeNat (List.take i b) <;> rfl
      rw [this]; rfl
    · rw [if_neg h255, ih _ _ (by omega)]
      unfold step
      rw [h2 h255]
      cases decodeNat (List.take i b) with
      | none => rfl
      | some a =>
        simp only [Option.map_some]
        congr 2
        rw [Nat.mul_add, Nat.add_assoc, Nat.mul_assoc, Nat.mul_comm a 58, Nat.add_comm (j * t.toNat)]

theorem zerosLoopC_eq (b : Bytes) : ∀ (fuel nz : Nat), nz + fuel = b.length →
    zerosLoopC b fuel nz = .ok (nz + leadingOnes (b.drop nz)) := by
  intro fuel
  induction fuel with
  | zero =>
    intro nz h
    have : b.drop nz = [] := List.drop_eq_nil_of_le (by omega)
    simp [zerosLoopC, this, leadingOnes]
  | succ fuel ih =>
    intro nz h
    have hi : nz < b.length := by omega
    rw [List.drop_eq_getElem_cons hi]
    simp only [zerosLoopC, idx?_ok hi, ok_bind, leadingOnes]
    by_cases hc : b[nz] = 49
    · rw [if_neg (by simpa using hc), if_pos hc, ih (nz + 1) (by omega)]
      congr 1; omega
    · rw [if_pos hc, if_neg hc]; rfl

/-! ### `Decode` -/

theorem Base58DecodeC_eq_model (b : Bytes) : Base58DecodeC b = .ok (Decode b) := by
  unfold Base58DecodeC Base58DecodeG Decode
  rw [decodeLoopC_eq b b.length 0 1 (by omega)]
  simp only [List.take_length, ok_bind]
  cases decodeNat b with
  | none => rfl
  | some n =>
    simp only [Option.map_some, Nat.zero_add, Nat.one_mul]
    rw [zerosLoopC_eq b b.length 0 (by omega)]
    simp only [ok_bind, Nat.zero_add, List.drop_zero]
    rw [make?_ok (by omega)]
    simp only [ok_bind]
    have hn : ((leadingOnes b : Int) + ((Bytes.ofNatMin n).length : Int)).toNat
        = leadingOnes b + (Bytes.ofNatMin n).length := by omega
    rw [hn, slice?_drop (by simp)]
    simp only [ok_bind, pure_eq_ok, List.take_replicate, List.drop_replicate]
    rw [copyC_full _ _ (by simp)]
    congr 3
    omega

theorem Base58DecodeC_no_fault (b : Bytes) : ∃ r, Base58DecodeC b = .ok r :=
  ⟨_, Base58DecodeC_eq_model b⟩

/-- The size of the table matters: with 128 entries (the size of `CharsetRev`) the byte 0x80 faults. -/
theorem Base58DecodeG_short_table_witness :
    Base58DecodeG (b58Tbl.take 128) [0x80] = .error .indexOOB := by decide +kernel

/-- … and so does every string whose last byte is ≥ 0x80 -/
theorem Base58DecodeG_short_table_fault (s : Bytes) (c : UInt8) (h : 128 ≤ c.toNat) :
    Base58DecodeG (b58Tbl.take 128) (s ++ [c]) = .error .indexOOB := by
  unfold Base58DecodeG
  have hl : (s ++ [c]).length = s.length + 1 := by simp
  rw [hl]
  simp only [decodeLoopC]
  rw [idx?_ok (by simp)]
  simp only [List.getElem_append_right (Nat.le_refl _), Nat.sub_self, List.getElem_cons_zero, ok_bind]
  rw [idx?_oob (by rw [List.length_take, b58Tbl_length]; omega)]
  rfl

/-! ### allocation -/

theorem foldl_step_lt (s : Bytes) : ∀ (a n : Nat), s.foldl step (some a) = some n →
    n + 1 ≤ (a + 1) * 58 ^ s.length := by
  induction s with
  | nil => intro a n h; simp at h; subst h; simp
  | cons c cs ih =>
    intro a n h
    rw [List.foldl_cons] at h
    unfold step at h
    cases hb : b58 c with
    | none =>
      rw [hb] at h
      have : List.foldl step none cs = none := Bch.Proofs.Base58.foldl_step_none cs
      simp only at h
      unfold step at this
      rw [this] at h; cases h
    | some d =>
      rw [hb] at h
      simp only at h
      have hd : d < 58 := (Bch.Proofs.Base58.b58_some hb).1
      have := ih _ _ h
      rw [List.length_cons, Nat.pow_succ, Nat.mul_comm (58 ^ cs.length) 58, ← Nat.mul_assoc]
      exact Nat.le_trans this (Nat.mul_le_mul_right _ (by omega))

theorem b58_one : b58 49 = some 0 := by decide +kernel

theorem decodeNat_replicate_append (k : Nat) (r : Bytes) :
    decodeNat (List.replicate k 49 ++ r) = decodeNat r := by
  induction k with
  | zero => simp
  | succ k ih =>
    rw [List.replicate_succ, List.cons_append, decodeNat_eq, List.foldl_cons]
    have : step (some 0) 49 = some 0 := by unfold step; rw [b58_one]
    rw [this, ← decodeNat_eq, ih]

/-- the decoded byte string is never longer than the input -/
theorem Decode_length_le (s : Bytes) : (Decode s).length ≤ s.length := by
  unfold Decode
  cases h : decodeNat s with
  | none => simp
  | some n =>
    simp only [List.length_append, List.length_replicate]
    have hs := lead_split (49 : UInt8) s
    rw [leadingOnes_eq]
    have hle := lead_le_length (49 : UInt8) s
    rw [hs, decodeNat_replicate_append, decodeNat_eq] at h
    have h1 := foldl_step_lt _ _ _ h
    simp only [Nat.zero_add, Nat.one_mul, List.length_drop] at h1
    have h3 : 58 ^ (s.length - lead 49 s) ≤ 256 ^ (s.length - lead 49 s) :=
      Nat.pow_le_pow_left (by decide) _
    have h2 : n < 256 ^ (s.length - lead 49 s) := by omega
    have := length_ofNatMin_le _ _ h2
    omega

/-- ALLOCATION: `make([]byte, flen)` asks for at most `len(b)` bytes -/
theorem Base58DecodeC_alloc (b r : Bytes) (h : Base58DecodeC b = .ok r) : r.length ≤ b.length := by
  rw [Base58DecodeC_eq_model] at h
  cases h
  exact Decode_length_le b

end B58Decode

/-! ## 2. `base58.Encode` (/repo/base58/base58.go:49-75) -/
section B58Encode
open Bch.Model.Base58
open Bch.Proofs.Base58Len (digitsLE_zero digitsLE_pos digitsLE_length_le)

/-- the digit loop (base58.go:54-58), `for x.Cmp(bigZero) > 0`, on a step budget -/
def encLoopC : (fuel x : Nat) → Bytes → Except Fault Bytes
  | 0, x, answer => if x > 0 then .error outOfFuel else pure answer
  | fuel+1, x, answer =>
    if x > 0 then do                                     -- base58.go:54
      let c ← idx? alphabet (x % 58)                     -- base58.go:56-57  alphabet[mod.Int64()]
      encLoopC fuel (x / 58) (answer ++ [c])             -- base58.go:56  x.DivMod(x, bigRadix, mod)
    else pure answer

/-- the leading-zero loop (base58.go:61-66), `for _, i := range b`: no index expression -/
def zeroPadC : Bytes → Bytes → Bytes
  | [], answer => answer
  | i :: rest, answer => if i ≠ 0 then answer else zeroPadC rest (answer ++ [49])

/-- the reversal loop (base58.go:70-72); `fuel = alen/2 - i`; `alen-1-i` is computed on Go `int`s -/
def revLoopC (alen : Nat) : (fuel i : Nat) → Bytes → Except Fault Bytes
  | 0, _, answer => pure answer
  | fuel+1, i, answer => do
    let x ← idxI? answer ((alen : Int) - 1 - (i : Int))  -- base58.go:71  answer[alen-1-i] (read)
    let y ← idx? answer i                                -- base58.go:71  answer[i] (read)
    let answer ← set? answer i x                         -- base58.go:71  answer[i] = …
    let answer ← setI? answer ((alen : Int) - 1 - (i : Int)) y   -- base58.go:71  answer[alen-1-i] = …
    revLoopC alen fuel (i + 1) answer

/-- `Encode` on a step budget for the digit loop. `make([]byte, 0, len(b)*136/100)` (base58.go:53) has
length 0 and a non-negative capacity and cannot panic; `append` cannot panic. -/
def Base58EncodeG (fuel : Nat) (b : Bytes) : Except Fault Bytes := do
  let x := Bytes.toNatBE b                               -- base58.go:50-51  x.SetBytes(b)
  let answer ← encLoopC fuel x []                        -- base58.go:53-58
  let answer := zeroPadC b answer                        -- base58.go:61-66
  let alen := answer.length                              -- base58.go:69
  revLoopC alen (alen / 2) 0 answer                      -- base58.go:70-72

/-- budget: two base-58 digits per input byte -/
def Base58EncodeC (b : Bytes) := Base58EncodeG (2 * b.length) b

theorem alphabet_length : alphabet.length = 58 := Bch.Proofs.Base58.alphabet_length

theorem encLoopC_eq : ∀ (fuel x : Nat) (acc : Bytes), (digitsLE x).length ≤ fuel →
    encLoopC fuel x acc = .ok (acc ++ (digitsLE x).map alphaAt) := by
  intro fuel
  induction fuel with
  | zero =>
    intro x acc h
    by_cases hx : x = 0
    · subst hx; simp [encLoopC, digitsLE_zero]
    · rw [digitsLE_pos x hx] at h; simp at h
  | succ fuel ih =>
    intro x acc h
    by_cases hx : x = 0
    · subst hx; simp [encLoopC, digitsLE_zero]
    · rw [digitsLE_pos x hx] at h ⊢
      have hpos : x > 0 := by omega
      have hm : x % 58 < alphabet.length := by rw [alphabet_length]; exact Nat.mod_lt _ (by decide)
      simp only [encLoopC, hpos, if_true, idx?_ok_getD hm 0, ok_bind]
      rw [ih _ _ (by simpa using h)]
      simp [alphaAt]

/-- running out of budget is reported, not hidden: one step is not enough for a two-digit number -/
theorem encLoopC_out_of_fuel : encLoopC 1 58 [] = .error outOfFuel := by decide +kernel

theorem zeroPadC_eq (b : Bytes) : ∀ acc, zeroPadC b acc = acc ++ List.replicate (leadingZeros b) 49 := by
  induction b with
  | nil => intro acc; simp [zeroPadC, leadingZeros]
  | cons i rest ih =>
    intro acc
    simp only [zeroPadC, leadingZeros]
    by_cases hi : i = 0
    · rw [if_neg (by simpa using hi), if_pos hi, ih, List.replicate_succ]
      simp
    · rw [if_pos hi, if_neg hi]; simp

/-- the state of the array after the swaps `i, …, i+fuel-1` -/
theorem revLoopC_spec (n : Nat) : ∀ (fuel i : Nat) (a : Bytes), a.length = n → i + fuel ≤ n / 2 →
    ∃ r, revLoopC n fuel i a = .ok r ∧ r.length = n ∧
      ∀ k, k < n → r[k]? =
        if (i ≤ k ∧ k < i + fuel) ∨ (n - (i + fuel) ≤ k ∧ k < n - i) then a[n - 1 - k]? else a[k]? := by
  intro fuel
  induction fuel with
  | zero =>
    intro i a hl _
    refine ⟨a, rfl, hl, ?_⟩
    intro k hk
    rw [if_neg (by omega)]
  | succ fuel ih =>
    intro i a hl h
    have hi : i < a.length := by omega
    have hj : n - 1 - i < a.length := by omega
    have hj0 : 0 ≤ (n : Int) - 1 - (i : Int) := by omega
    have hjn : ((n : Int) - 1 - (i : Int)).toNat = n - 1 - i := by omega
    simp only [revLoopC, idxI?_nonneg hj0, setI?_nonneg hj0, hjn, idx?_ok hj, idx?_ok hi, ok_bind,
      set?_ok hi]
    rw [set?_ok (by simpa using hj)]
    simp only [ok_bind]
    obtain ⟨r, hr, hrl, hrk⟩ := ih (i + 1) ((a.set i a[n - 1 - i]).set (n - 1 - i) a[i]) (by simpa using hl)
      (by omega)
    have hset : ∀ m, ((a.set i a[n - 1 - i]).set (n - 1 - i) a[i])[m]? =
        if m = n - 1 - i then some a[i] else if m = i then some a[n - 1 - i] else a[m]? := by
      intro m
      simp only [List.getElem?_set, List.length_set]
      by_cases h1 : n - 1 - i = m
      · rw [if_pos h1, if_pos hj, if_pos h1.symm]
      · rw [if_neg h1, if_neg (Ne.symm h1)]
        by_cases h2 : i = m
        · rw [if_pos h2, if_pos hi, if_pos h2.symm]
        · rw [if_neg h2, if_neg (Ne.symm h2)]
    refine ⟨r, hr, hrl, ?_⟩
    intro k hk
    rw [hrk k hk, hset, hset]
    by_cases hki : k = i
    · subst hki
      have c1 : ¬((k + 1 ≤ k ∧ k < k + 1 + fuel) ∨ (n - (k + 1 + fuel) ≤ k ∧ k < n - (k + 1))) := by omega
      have c2 : (k ≤ k ∧ k < k + (fuel + 1)) ∨ (n - (k + (fuel + 1)) ≤ k ∧ k < n - k) := by omega
      have c3 : ¬ k = n - 1 - k := by omega
      rw [if_neg c1, if_pos c2, if_neg c3, if_pos rfl, List.getElem?_eq_getElem hj]
    · by_cases hkj : k = n - 1 - i
      · have c1 : ¬((i + 1 ≤ k ∧ k < i + 1 + fuel) ∨ (n - (i + 1 + fuel) ≤ k ∧ k < n - (i + 1))) := by omega
        have c2 : (i ≤ k ∧ k < i + (fuel + 1)) ∨ (n - (i + (fuel + 1)) ≤ k ∧ k < n - i) := by omega
        have e : n - 1 - k = i := by omega
        rw [if_neg c1, if_pos c2, if_pos hkj, e, List.getElem?_eq_getElem hi]
      · by_cases hc : (i + 1 ≤ k ∧ k < i + 1 + fuel) ∨ (n - (i + 1 + fuel) ≤ k ∧ k < n - (i + 1))
        · have c2 : (i ≤ k ∧ k < i + (fuel + 1)) ∨ (n - (i + (fuel + 1)) ≤ k ∧ k < n - i) := by omega
          have c3 : ¬ n - 1 - k = n - 1 - i := by omega
          have c4 : ¬ n - 1 - k = i := by omega
          rw [if_pos hc, if_pos c2, if_neg c3, if_neg c4]
        · have c2 : ¬((i ≤ k ∧ k < i + (fuel + 1)) ∨ (n - (i + (fuel + 1)) ≤ k ∧ k < n - i)) := by omega
          rw [if_neg hc, if_neg c2, if_neg hkj, if_neg hki]

theorem revLoopC_eq (a : Bytes) : revLoopC a.length (a.length / 2) 0 a = .ok a.reverse := by
  obtain ⟨r, hr, hrl, hrk⟩ := revLoopC_spec a.length (a.length / 2) 0 a rfl (by omega)
  rw [hr]
  congr 1
  apply List.ext_getElem?
  intro k
  by_cases hk : k < a.length
  · rw [hrk k hk, List.getElem?_reverse hk]
    by_cases hc : (0 ≤ k ∧ k < 0 + a.length / 2) ∨ (a.length - (0 + a.length / 2) ≤ k ∧ k < a.length - 0)
    · rw [if_pos hc]
    · rw [if_neg hc]
      congr 1; omega
  · rw [List.getElem?_eq_none (by omega), List.getElem?_eq_none (by simp; omega)]

/-- two base-58 digits per byte suffice -/
theorem digitsLE_toNatBE_length (b : Bytes) : (digitsLE (Bytes.toNatBE b)).length ≤ 2 * b.length := by
  apply digitsLE_length_le
  have h1 := Bch.Proofs.Base58.toNatBE_lt b
  have h2 : 256 ^ b.length ≤ (58 ^ 2) ^ b.length := Nat.pow_le_pow_left (by decide) _
  rw [← Nat.pow_mul] at h2
  omega

/-- every budget of at least `2·len(b)` steps gives the model's result -/
theorem Base58EncodeG_eq_model (fuel : Nat) (b : Bytes) (h : 2 * b.length ≤ fuel) :
    Base58EncodeG fuel b = .ok (Encode b) := by
  unfold Base58EncodeG Encode
  simp only
  rw [encLoopC_eq _ _ _ (Nat.le_trans (digitsLE_toNatBE_length b) h)]
  simp only [ok_bind, List.nil_append, zeroPadC_eq]
  exact revLoopC_eq _

theorem Base58EncodeC_eq_model (b : Bytes) : Base58EncodeC b = .ok (Encode b) :=
  Base58EncodeG_eq_model _ b (Nat.le_refl _)

theorem Base58EncodeC_no_fault (b : Bytes) : ∃ r, Base58EncodeC b = .ok r :=
  ⟨_, Base58EncodeC_eq_model b⟩

/-- the budget is not what stops the loop -/
theorem Base58EncodeG_fuel_irrelevant (fuel : Nat) (b : Bytes) (h : 2 * b.length ≤ fuel) :
    Base58EncodeG fuel b = Base58EncodeC b := by
  rw [Base58EncodeG_eq_model fuel b h, Base58EncodeC_eq_model]

end B58Encode

/-! ## 3. `DecodeAddress` (/repo/address.go:82-194) -/
section Addr
open Bch.Model.Address Bch.Model.CashAddr
open Bch.Proofs.Address (tailDecode attemptStr second DecodeAddress_eq)
variable (X : Ext)

/-- `toLowerASCII` (address.go:938-946), `for i, c := range b`; `fuel = len(b) - i` -/
def toLowerLoopC : (fuel i : Nat) → Bytes → Except Fault Bytes
  | 0, _, b => pure b
  | fuel+1, i, b => do
    let c ← idx? b i                                     -- address.go:940  the range value b[i]
    if 65 ≤ c ∧ c ≤ 90 then do                           -- address.go:941
      let b ← set? b i (c + 32)                          -- address.go:942  b[i] = c + ('a' - 'A')
      toLowerLoopC fuel (i + 1) b
    else toLowerLoopC fuel (i + 1) b

def toLowerASCIIC (s : Bytes) : Except Fault Bytes := toLowerLoopC s.length 0 s

/-- the negated condition of address.go:91 and :123. `!EqualFold(…) && !EqualFold(…)` is short-circuit:
the second slice expression is evaluated only if the first comparison fails. -/
def hasPreC (addr bch slp : Bytes) : Except Fault Bool := do
  let a1 ← slice? addr 0 ((bch.length : Int) + 1)        -- address.go:91  addr[:len(bchPrefix)+1]
  if equalFoldASCII a1 (bch ++ [58]) then pure true else do
  let a2 ← slice? addr 0 ((slp.length : Int) + 1)        -- address.go:91  addr[:len(slpPrefix)+1]
  pure (equalFoldASCII a2 (slp ++ [58]))

/-- `addrWithPrefix` (address.go:90-93 with `pre = bchPrefix`, :122-125 with `pre = slpPrefix`) -/
def withPrefixC (addr bch slp pre : Bytes) : Except Fault Bytes := do
  if ← hasPreC addr bch slp then pure addr               -- address.go:90 / :122
  else do
    let low ← toLowerASCIIC addr
    pure (pre ++ [58] ++ low)                            -- address.go:92 / :124  prefix + ":" + toLowerASCII(addr)

/-- `base58.CheckDecode` after its first line: the body of `CheckDecodeC` (Checked.lean) on the decoded
bytes -/
def checkDecodeBodyC (H : Bytes → Bytes) (decoded : Bytes) :
    Except Fault (Except Base58.CheckErr (Bytes × UInt8)) := do
  if decoded.length < 5 then pure (.error .invalidFormat) else do  -- base58check.go:40
  let version ← idx? decoded 0                                     -- :43  decoded[0]
  let n : Int := decoded.length
  let ck ← slice? decoded (n - 4) n                                -- :45  decoded[len(decoded)-4:]
  let body ← slice? decoded 0 (n - 4)                              -- :46  decoded[:len(decoded)-4]
  if Base58.checksum H body ≠ ck then pure (.error .checksum) else do
  let payload ← slice? decoded 1 (n - 4)                           -- :49  decoded[1:len(decoded)-4]
  pure (.ok (payload, version))

/-- `base58.CheckDecode` including its call of `base58.Decode` -/
def CheckDecodeFullC (H : Bytes → Bytes) (s : Bytes) :
    Except Fault (Except Base58.CheckErr (Bytes × UInt8)) := do
  let decoded ← Base58DecodeC s                          -- base58check.go:39  decoded := Decode(input)
  checkDecodeBodyC H decoded

/-- `NewAddressPubKey` (address.go:622-651) -/
def newPubKeyC (ser : Bytes) (net : Net) : Except Fault (Except Err Addr) :=
  match X.parsePub ser with                              -- address.go:623  bchec.ParsePubKey
  | none => pure (.error .other)
  | some pt => do
    let b ← idx? ser 0                                   -- address.go:633  switch serializedPubKey[0]
    if b = 2 ∨ b = 3 then pure (.ok (.pubKey 1 pt net.pkhID))
    else if b = 4 then pure (.ok (.pubKey 0 pt net.pkhID))
    else if b = 6 ∨ b = 7 then pure (.ok (.pubKey 2 pt net.pkhID))
    else pure (.error .other)

/-- address.go:176-193: dispatch on the Base58Check payload. The constructors test the length and
`copy(addr.hash[:], …)` into an array (a full slice of an array and `copy` cannot panic). -/
def fromLegacy (decoded : Bytes) (netID : UInt8) : Except Err Addr :=
  if decoded.length = 20 then
    let isP2PKH := pkhIDs.contains netID
    let isP2SH := shIDs.contains netID
    if isP2PKH ∧ isP2SH then .error .addressCollision
    else if isP2PKH then newLegacyPkh decoded netID
    else if isP2SH then newLegacySh decoded netID
    else .error .unknownAddressType
  else .error .other

/-- address.go:155-193: the hex public-key branch and the Base58Check fallback -/
def tailC (addr : Bytes) (net : Net) (cashaddrErr : Bool) : Except Fault (Except Err Addr) :=
  if addr.length = 130 ∨ addr.length = 66 then           -- address.go:157
    match hexDec addr with                               -- address.go:158  hex.DecodeString(addr)
    | none => pure (.error .other)
    | some ser => newPubKeyC X ser net                   -- address.go:162
  else do
    match ← CheckDecodeFullC X.sha256d addr with         -- address.go:166
    | .error .checksum => pure (.error .checksumMismatch)
    | .error .invalidFormat =>
      pure (if cashaddrErr then .error .checksumMismatch else .error .unknownFormat)
    | .ok (decoded, netID) => pure (fromLegacy decoded netID)

/-- address.go:120-153: the retry with the SLP prefix, then the tail. `fromCash` (the model's dispatch on
`len(decoded)` and `typ`, address.go:100-119 / :130-149) contains no index or slice expression. -/
def secondC (addr : Bytes) (net : Net) : Except Fault (Except Err Addr) := do
  let w2 ← withPrefixC addr net.cashPrefix net.slpPrefix net.slpPrefix   -- address.go:122-125
  let (_, r2) ← checkDecodeCashAddressC w2               -- address.go:128
  match r2 with
  | .ok (decoded, typ) => pure (fromCash net true decoded typ)           -- address.go:129-149
  | .error e =>                                                          -- address.go:150-152
    tailC X addr net (isChecksumMismatch (.error e : Except CErr (Bytes × AddrType)))

/-- `DecodeAddress`; `guard = false` is the code without the length test of address.go:85 -/
def DecodeAddressG (guard : Bool) (addr : Bytes) (net : Net) : Except Fault (Except Err Addr) := do
  let bch := net.cashPrefix                              -- address.go:83
  let slp := net.slpPrefix                               -- address.go:84
  if guard && (addr.length < bch.length + 2 ∨ addr.length < slp.length + 2) then   -- address.go:85
    pure (.error .other) else do
  let w1 ← withPrefixC addr bch slp bch                  -- address.go:90-93
  let (pre1, r1) ← checkDecodeCashAddressC w1            -- address.go:98
  match r1 with
  | .ok (decoded, typ) =>
    if pre1 ≠ slp then pure (fromCash net false decoded typ)             -- address.go:99-119
    else secondC X addr net                                              -- address.go:120  prefix == slpPrefix
  | .error e =>
    if isChecksumMismatch (.error e : Except CErr (Bytes × AddrType)) || pre1 = slp   -- address.go:120
    then secondC X addr net
    else tailC X addr net false                                          -- address.go:155-

/-- the code as it is -/
def DecodeAddressC := DecodeAddressG X true

/-! ### `toLowerASCII`, the prefix test -/

theorem lowerASCII_cons (c : UInt8) (cs : Bytes) :
    lowerASCII (c :: cs) = (if 65 ≤ c ∧ c ≤ 90 then c + 32 else c) :: lowerASCII cs := rfl

theorem toLowerLoopC_eq : ∀ (fuel i : Nat) (b : Bytes), i + fuel = b.length →
    toLowerLoopC fuel i b = .ok (b.take i ++ lowerASCII (b.drop i)) := by
  intro fuel
  induction fuel with
  | zero =>
    intro i b h
    have : b.drop i = [] := List.drop_eq_nil_of_le (by omega)
    simp [toLowerLoopC, this, lowerASCII, List.take_of_length_le (show b.length ≤ i by omega)]
  | succ fuel ih =>
    intro i b h
    have hi : i < b.length := by omega
    simp only [toLowerLoopC, idx?_ok hi, ok_bind]
    conv => rhs; rw [List.drop_eq_getElem_cons hi, lowerASCII_cons]
    by_cases hc : 65 ≤ b[i] ∧ b[i] ≤ 90
    · rw [if_pos hc, if_pos hc, set?_ok hi]
      simp only [ok_bind]
      rw [ih (i + 1) _ (by simp; omega)]
      have e1 : (b.set i (b[i] + 32)).take (i + 1) = b.take i ++ [b[i] + 32] := by
        rw [List.take_set, List.take_succ_eq_append_getElem (by omega),
          List.set_append_right _ _ (by simp)]
        simp [show min i b.length = i by omega]
      have e2 : (b.set i (b[i] + 32)).drop (i + 1) = b.drop (i + 1) := List.drop_set_of_lt (by omega)
      rw [e1, e2]; simp
    · rw [if_neg hc, if_neg hc, ih (i + 1) _ (by omega), List.take_succ_eq_append_getElem hi,
        List.append_assoc]
      rfl

theorem toLowerASCIIC_eq_model (s : Bytes) : toLowerASCIIC s = .ok (lowerASCII s) := by
  rw [toLowerASCIIC, toLowerLoopC_eq _ _ _ (by omega)]; simp

theorem slice?_prefix (addr : Bytes) (k : Nat) (h : k + 1 ≤ addr.length) :
    slice? addr 0 ((k : Int) + 1) = .ok (addr.take (k + 1)) := by
  rw [slice?_nat 0 (k + 1) (by omega) (by omega) (by omega) h]; simp

/-- here the length guard of address.go:85 is used: both prefixes (plus the colon) fit into `addr` -/
theorem hasPreC_eq (addr bch slp : Bytes) (h1 : bch.length + 1 ≤ addr.length)
    (h2 : slp.length + 1 ≤ addr.length) :
    hasPreC addr bch slp = .ok (hasPrefixFold addr bch || hasPrefixFold addr slp) := by
  unfold hasPreC hasPrefixFold
  rw [slice?_prefix addr _ h1, slice?_prefix addr _ h2]
  simp only [ok_bind]
  cases equalFoldASCII (List.take (bch.length + 1) addr) (bch ++ [58]) <;> simp

theorem withPrefixC_eq (addr : Bytes) (net : Net) (b : Bool) (h1 : net.cashPrefix.length + 1 ≤ addr.length)
    (h2 : net.slpPrefix.length + 1 ≤ addr.length) :
    withPrefixC addr net.cashPrefix net.slpPrefix (if b then net.slpPrefix else net.cashPrefix)
      = .ok (attemptStr addr net b) := by
  unfold withPrefixC attemptStr
  rw [hasPreC_eq addr _ _ h1 h2, toLowerASCIIC_eq_model]
  simp only [ok_bind]
  cases (hasPrefixFold addr net.cashPrefix || hasPrefixFold addr net.slpPrefix) <;> rfl

/-! ### the tail -/

theorem CheckDecodeFullC_eq (H : Bytes → Bytes) (s : Bytes) : CheckDecodeFullC H s = CheckDecodeC H s := by
  unfold CheckDecodeFullC
  rw [Base58DecodeC_eq_model]
  simp only [ok_bind]
  unfold checkDecodeBodyC CheckDecodeC CheckDecodeG
  simp only [Bool.true_and, decide_eq_true_eq]

theorem CheckDecodeFullC_eq_model (H : Bytes → Bytes) (s : Bytes) :
    CheckDecodeFullC H s = .ok (Base58.CheckDecode H s) := by
  rw [CheckDecodeFullC_eq, CheckDecodeC_eq_model]

/-- `serializedPubKey[0]` needs a non-empty key (in Go, `ParsePubKey` rejects the empty one; in
`DecodeAddress` the key has 33 or 65 bytes) -/
theorem newPubKeyC_eq_model (ser : Bytes) (net : Net) (h : 0 < ser.length) :
    newPubKeyC X ser net = .ok (newPubKey X ser net) := by
  unfold newPubKeyC newPubKey
  cases X.parsePub ser with
  | none => rfl
  | some pt =>
    simp only [idx?_zero_headD h 0, ok_bind]
    generalize ser.headD 0 = b
    repeat' split
    all_goals rfl

/-- without that, the index faults whenever the (abstract) parser accepts the empty string -/
theorem newPubKeyC_empty_fault (net : Net) (pt : Bytes) (h : X.parsePub [] = some pt) :
    newPubKeyC X [] net = .error .indexOOB := by
  unfold newPubKeyC; rw [h]; rfl

theorem hexDec_length (s b : Bytes) (h : hexDec s = some b) : s.length = 2 * b.length := by
  have h1 := Bch.Proofs.Hex.hexEnc_hexDec s b h
  have h2 := Bch.Proofs.Hex.hexEnc_length b
  rw [h1] at h2
  simpa [lowerASCII] using h2

theorem tailC_eq_model (addr : Bytes) (net : Net) (f : Bool) :
    tailC X addr net f = .ok (tailDecode X addr net f) := by
  unfold tailC tailDecode
  by_cases hl : addr.length = 130 ∨ addr.length = 66
  · rw [if_pos hl, if_pos hl]
    cases hd : hexDec addr with
    | none => rfl
    | some ser =>
      have := hexDec_length addr ser hd
      exact newPubKeyC_eq_model X ser net (by omega)
  · rw [if_neg hl, if_neg hl, CheckDecodeFullC_eq_model]
    simp only [ok_bind]
    rcases Base58.CheckDecode X.sha256d addr with e | ⟨d, id⟩
    · cases e <;> rfl
    · rfl

/-! ### `DecodeAddress` -/

theorem secondC_eq_model (addr : Bytes) (net : Net) (h1 : net.cashPrefix.length + 1 ≤ addr.length)
    (h2 : net.slpPrefix.length + 1 ≤ addr.length) :
    secondC X addr net = .ok (second X addr net) := by
  unfold secondC second
  have := withPrefixC_eq addr net true h1 h2
  simp only [if_true] at this
  rw [this]
  simp only [ok_bind, checkDecodeCashAddressC_eq_model]
  generalize checkDecodeCashAddress (attemptStr addr net true) = q
  obtain ⟨p, r⟩ := q
  rcases r with e | ⟨d, t⟩
  · exact tailC_eq_model X addr net _
  · rfl

/-- For every byte string and EVERY network record (no well-formedness of the prefixes is needed): the
checked transcription computes the model. No hypothesis on the hash functions either: `CheckDecode` slices
`[32]byte` arrays with constants. -/
theorem DecodeAddressC_eq_model (addr : Bytes) (net : Net) :
    DecodeAddressC X addr net = .ok (DecodeAddress X addr net) := by
  rw [DecodeAddress_eq]
  unfold DecodeAddressC DecodeAddressG
  simp only [Bool.true_and, decide_eq_true_eq]
  by_cases hg : addr.length < net.cashPrefix.length + 2 ∨ addr.length < net.slpPrefix.length + 2
  · rw [if_pos hg, if_pos hg]; rfl
  · rw [if_neg hg, if_neg hg]
    have h1 : net.cashPrefix.length + 1 ≤ addr.length := by omega
    have h2 : net.slpPrefix.length + 1 ≤ addr.length := by omega
    have := withPrefixC_eq addr net false h1 h2
    simp only [Bool.false_eq_true, if_false] at this
    rw [this]
    simp only [ok_bind, checkDecodeCashAddressC_eq_model]
    generalize checkDecodeCashAddress (attemptStr addr net false) = q
    obtain ⟨p, r⟩ := q
    have hs := secondC_eq_model X addr net h1 h2
    rcases r with e | ⟨d, t⟩
    · simp only
      split
      · exact hs
      · exact tailC_eq_model X addr net false
    · simp only
      split
      · rfl
      · exact hs

theorem DecodeAddressC_no_fault (addr : Bytes) (net : Net) : ∃ r, DecodeAddressC X addr net = .ok r :=
  ⟨_, DecodeAddressC_eq_model X addr net⟩

/-! ### the length guard matters -/

/-- Without the test of address.go:85, every string shorter than the cash prefix plus its colon makes
`addr[:len(bchPrefix)+1]` fault … -/
theorem DecodeAddressG_false_fault (addr : Bytes) (net : Net) (h : addr.length < net.cashPrefix.length + 1) :
    DecodeAddressG X false addr net = .error .sliceOOB := by
  unfold DecodeAddressG withPrefixC hasPreC
  simp only [Bool.false_and, Bool.false_eq_true, if_false]
  rw [slice?_oob (by omega)]
  rfl

/-- … and a string that is long enough for the cash prefix, does not start with it, and is shorter than the
SLP prefix plus its colon makes `addr[:len(slpPrefix)+1]` fault (mainnet: "simpleledger" is longer than
"bitcoincash"). -/
theorem DecodeAddressG_false_fault_slp (addr : Bytes) (net : Net)
    (h1 : net.cashPrefix.length + 1 ≤ addr.length) (h2 : addr.length < net.slpPrefix.length + 1)
    (h3 : hasPrefixFold addr net.cashPrefix = false) :
    DecodeAddressG X false addr net = .error .sliceOOB := by
  unfold DecodeAddressG withPrefixC hasPreC
  simp only [Bool.false_and, Bool.false_eq_true, if_false]
  rw [slice?_prefix addr _ h1]
  unfold hasPrefixFold at h3
  simp only [ok_bind, h3, Bool.false_eq_true, if_false]
  rw [slice?_oob (by omega)]
  rfl

theorem mainNet_prefix_lengths : mainNet.cashPrefix.length = 11 ∧ mainNet.slpPrefix.length = 12 := by
  decide +kernel

/-- concrete: the empty string and "q" on mainnet -/
theorem DecodeAddressG_false_witness :
    DecodeAddressG X false [] mainNet = .error .sliceOOB ∧
    DecodeAddressG X false [113] mainNet = .error .sliceOOB :=
  ⟨DecodeAddressG_false_fault X _ _ (by rw [mainNet_prefix_lengths.1]; decide),
   DecodeAddressG_false_fault X _ _ (by rw [mainNet_prefix_lengths.1]; decide)⟩

/-- concrete: twelve times 'q' on mainnet passes the first slice and faults in the second -/
theorem DecodeAddressG_false_witness_slp :
    DecodeAddressG X false (List.replicate 12 113) mainNet = .error .sliceOOB :=
  DecodeAddressG_false_fault_slp X _ _ (by rw [mainNet_prefix_lengths.1]; decide)
    (by rw [mainNet_prefix_lengths.2]; decide) (by decide +kernel)

end Addr

end Bch.Proofs.CheckedAddr
