import Bch.Proofs.GcsBuilt
/-
CompactSize round trip, (de)serialisation of filters.
-/
namespace Bch.Proofs.Gcs
open Bch Bch.Model.Gcs

/-! ### little-endian bytes -/

theorem ofNatLE_length (n x : Nat) : (Bytes.ofNatLE n x).length = n := by
  induction n generalizing x with
  | zero => rfl
  | succ n ih => simp [Bytes.ofNatLE, ih]

theorem toNatLE_ofNatLE (n x : Nat) : Bytes.toNatLE (Bytes.ofNatLE n x) = x % 256^n := by
  induction n generalizing x with
  | zero => simp [Bytes.ofNatLE, Bytes.toNatLE, Nat.mod_one]
  | succ n ih =>
    simp only [Bytes.ofNatLE, Bytes.toNatLE, ih, UInt8.toNat_ofNat']
    have : 256^(n+1) = 256 * 256^n := by rw [Nat.pow_succ, Nat.mul_comm]
    rw [this, Nat.mod_mul]
    omega

theorem toNatLE_lt (l : Bytes) : Bytes.toNatLE l < 256^l.length := by
  induction l with
  | nil => simp [Bytes.toNatLE]
  | cons b l ih =>
    simp only [Bytes.toNatLE, List.length_cons, Nat.pow_succ]
    have := b.toNat_lt
    omega

theorem ofNatLE_toNatLE (l : Bytes) : Bytes.ofNatLE l.length (Bytes.toNatLE l) = l := by
  induction l with
  | nil => rfl
  | cons b l ih =>
    simp only [List.length_cons, Bytes.ofNatLE, Bytes.toNatLE]
    have hb := b.toNat_lt
    have h1 : (b.toNat + 256 * Bytes.toNatLE l) % 256 = b.toNat := by omega
    have h2 : (b.toNat + 256 * Bytes.toNatLE l) / 256 = Bytes.toNatLE l := by omega
    rw [h1, h2, ih, UInt8.ofNat_toNat]

/-! ### CompactSize -/

theorem take_ofNatLE_append (k v : Nat) (rest : Bytes) :
    (Bytes.ofNatLE k v ++ rest).take k = Bytes.ofNatLE k v :=
  List.take_left' (ofNatLE_length k v)

theorem drop_ofNatLE_append (k v : Nat) (rest : Bytes) :
    (Bytes.ofNatLE k v ++ rest).drop k = rest :=
  List.drop_left' (ofNatLE_length k v)

/-- **varint_roundtrip** -/
theorem varint_roundtrip (n : Nat) (hn : n < 2^64) (rest : Bytes) :
    readVarInt (writeVarInt n ++ rest) = some (n, rest) := by
  unfold writeVarInt
  by_cases h1 : n < 0xfd
  · rw [if_pos h1]
    have hk : (UInt8.ofNat n).toNat = n := by rw [UInt8.toNat_ofNat']; omega
    have e1 : UInt8.ofNat n ≠ 255 := fun e => by
      have := congrArg UInt8.toNat e; rw [hk] at this; simp at this; omega
    have e2 : UInt8.ofNat n ≠ 254 := fun e => by
      have := congrArg UInt8.toNat e; rw [hk] at this; simp at this; omega
    have e3 : UInt8.ofNat n ≠ 253 := fun e => by
      have := congrArg UInt8.toNat e; rw [hk] at this; simp at this; omega
    simp only [List.cons_append, List.nil_append, readVarInt, e1, e2, e3, if_false, hk]
  · rw [if_neg h1]
    by_cases h2 : n ≤ 0xffff
    · rw [if_pos h2]
      have hm : n % 65536 = n := Nat.mod_eq_of_lt (by omega)
      simp only [List.cons_append, readVarInt]
      simp [ofNatLE_length, toNatLE_ofNatLE, hm]
      omega
    · rw [if_neg h2]
      by_cases h3 : n ≤ 0xffffffff
      · rw [if_pos h3]
        have hm : n % 4294967296 = n := Nat.mod_eq_of_lt (by omega)
        simp only [List.cons_append, readVarInt]
        simp [ofNatLE_length, toNatLE_ofNatLE, hm]
        omega
      · rw [if_neg h3]
        have hm : n % 18446744073709551616 = n := Nat.mod_eq_of_lt (by omega)
        simp only [List.cons_append, readVarInt]
        simp [ofNatLE_length, toNatLE_ofNatLE, hm]
        omega

theorem take_drop_canon (k : Nat) (l : Bytes) (h : ¬ l.length < k) :
    Bytes.ofNatLE k (Bytes.toNatLE (l.take k)) ++ l.drop k = l := by
  have hl : (l.take k).length = k := by rw [List.length_take]; omega
  have := ofNatLE_toNatLE (l.take k)
  rw [hl] at this
  rw [this, List.take_append_drop]

/-- every accepted encoding is the canonical one: `readVarInt` is a partial inverse of
`writeVarInt` in both directions. -/
theorem readVarInt_canonical (bs : Bytes) (n : Nat) (rest : Bytes)
    (h : readVarInt bs = some (n, rest)) : n < 2^64 ∧ bs = writeVarInt n ++ rest := by
  cases bs with
  | nil => simp [readVarInt] at h
  | cons d l =>
    rw [readVarInt] at h
    by_cases h1 : d = 0xff
    · rw [if_pos h1] at h
      by_cases hl : l.length < 8
      · rw [if_pos hl] at h; cases h
      · rw [if_neg hl] at h
        simp only at h
        by_cases hv : Bytes.toNatLE (l.take 8) < 0x100000000
        · rw [if_pos hv] at h; cases h
        · rw [if_neg hv] at h
          injection h with h; injection h with hn hr
          have hlt := toNatLE_lt (l.take 8)
          have hl8 : (l.take 8).length = 8 := by rw [List.length_take]; omega
          rw [hl8] at hlt
          subst hn hr h1
          refine ⟨by omega, ?_⟩
          unfold writeVarInt
          rw [if_neg (by omega), if_neg (by omega), if_neg (by omega), List.cons_append,
            take_drop_canon 8 l hl]
    · rw [if_neg h1] at h
      by_cases h2 : d = 0xfe
      · rw [if_pos h2] at h
        by_cases hl : l.length < 4
        · rw [if_pos hl] at h; cases h
        · rw [if_neg hl] at h
          simp only at h
          by_cases hv : Bytes.toNatLE (l.take 4) < 0x10000
          · rw [if_pos hv] at h; cases h
          · rw [if_neg hv] at h
            injection h with h; injection h with hn hr
            have hlt := toNatLE_lt (l.take 4)
            have hl4 : (l.take 4).length = 4 := by rw [List.length_take]; omega
            rw [hl4] at hlt
            subst hn hr h2
            refine ⟨by omega, ?_⟩
            unfold writeVarInt
            rw [if_neg (by omega), if_neg (by omega), if_pos (by omega), List.cons_append,
              take_drop_canon 4 l hl]
      · rw [if_neg h2] at h
        by_cases h3 : d = 0xfd
        · rw [if_pos h3] at h
          by_cases hl : l.length < 2
          · rw [if_pos hl] at h; cases h
          · rw [if_neg hl] at h
            simp only at h
            by_cases hv : Bytes.toNatLE (l.take 2) < 0xfd
            · rw [if_pos hv] at h; cases h
            · rw [if_neg hv] at h
              injection h with h; injection h with hn hr
              have hlt := toNatLE_lt (l.take 2)
              have hl2 : (l.take 2).length = 2 := by rw [List.length_take]; omega
              rw [hl2] at hlt
              subst hn hr h3
              refine ⟨by omega, ?_⟩
              unfold writeVarInt
              rw [if_neg (by omega), if_pos (by omega), List.cons_append,
                take_drop_canon 2 l hl]
        · rw [if_neg h3] at h
          injection h with h; injection h with hn hr
          subst hn hr
          have hd := d.toNat_lt
          have hne : ∀ c : Nat, c < 256 → d ≠ UInt8.ofNat c → d.toNat ≠ c := by
            intro c hc hne e
            apply hne
            apply UInt8.toNat_inj.mp
            rw [UInt8.toNat_ofNat']; omega
          have e1 := hne 0xff (by decide) h1
          have e2 := hne 0xfe (by decide) h2
          have e3 := hne 0xfd (by decide) h3
          refine ⟨by omega, ?_⟩
          unfold writeVarInt
          rw [if_pos (by omega), UInt8.ofNat_toNat]
          rfl

/-- non-canonical (too short a value for the prefix) and truncated encodings are rejected -/
theorem readVarInt_rejects :
    (∀ v rest, v < 0xfd → readVarInt (0xfd :: (Bytes.ofNatLE 2 v ++ rest)) = none) ∧
    (∀ v rest, v < 0x10000 → readVarInt (0xfe :: (Bytes.ofNatLE 4 v ++ rest)) = none) ∧
    (∀ v rest, v < 0x100000000 → readVarInt (0xff :: (Bytes.ofNatLE 8 v ++ rest)) = none) ∧
    (∀ l : Bytes, l.length < 2 → readVarInt (0xfd :: l) = none) ∧
    (∀ l : Bytes, l.length < 4 → readVarInt (0xfe :: l) = none) ∧
    (∀ l : Bytes, l.length < 8 → readVarInt (0xff :: l) = none) ∧
    readVarInt [] = none := by
  refine ⟨?_, ?_, ?_, ?_, ?_, ?_, rfl⟩
  · intro v rest hv
    cases h : readVarInt (0xfd :: (Bytes.ofNatLE 2 v ++ rest)) with
    | none => rfl
    | some r =>
      exfalso
      obtain ⟨n, rest'⟩ := r
      rw [readVarInt, if_neg (by decide), if_neg (by decide), if_pos rfl,
        if_neg (by simp [ofNatLE_length]), take_ofNatLE_append, toNatLE_ofNatLE] at h
      have : v % 256^2 = v := Nat.mod_eq_of_lt (by omega)
      simp only [this] at h
      rw [if_pos hv] at h; cases h
  · intro v rest hv
    cases h : readVarInt (0xfe :: (Bytes.ofNatLE 4 v ++ rest)) with
    | none => rfl
    | some r =>
      exfalso
      obtain ⟨n, rest'⟩ := r
      rw [readVarInt, if_neg (by decide), if_pos rfl,
        if_neg (by simp [ofNatLE_length]), take_ofNatLE_append, toNatLE_ofNatLE] at h
      have : v % 256^4 = v := Nat.mod_eq_of_lt (by omega)
      simp only [this] at h
      rw [if_pos hv] at h; cases h
  · intro v rest hv
    cases h : readVarInt (0xff :: (Bytes.ofNatLE 8 v ++ rest)) with
    | none => rfl
    | some r =>
      exfalso
      obtain ⟨n, rest'⟩ := r
      rw [readVarInt, if_pos rfl,
        if_neg (by simp [ofNatLE_length]), take_ofNatLE_append, toNatLE_ofNatLE] at h
      have : v % 256^8 = v := Nat.mod_eq_of_lt (by omega)
      simp only [this] at h
      rw [if_pos hv] at h; cases h
  · intro l hl; rw [readVarInt, if_neg (by decide), if_neg (by decide), if_pos rfl, if_pos hl]
  · intro l hl; rw [readVarInt, if_neg (by decide), if_pos rfl, if_pos hl]
  · intro l hl; rw [readVarInt, if_pos rfl, if_pos hl]

/-! ### FromBytes / FromNBytes -/

theorem FromBytes_ok (N P : Nat) (M : UInt64) (d : Bytes) (hP : P ≤ 32) :
    FromBytes N P M d = .ok ⟨N, P, UInt64.ofNat N * M, d⟩ := by
  unfold FromBytes; rw [if_neg (by omega)]

theorem FromBytes_err (N P : Nat) (M : UInt64) (d : Bytes) (hP : P > 32) :
    FromBytes N P M d = .error .pTooBig := by
  unfold FromBytes; rw [if_pos hP]

theorem FromNBytes_NBytes (f : Filter) (P : Nat) (M : UInt64) (hn : f.n < 2^32) (hP : P ≤ 32) :
    FromNBytes P M (NBytes f) = .ok ⟨f.n, P, UInt64.ofNat f.n * M, f.data⟩ := by
  unfold FromNBytes NBytes
  rw [varint_roundtrip f.n (by omega)]
  simp only
  rw [if_neg (by omega), FromBytes_ok _ _ _ _ hP]

theorem built_fields {sip : Bytes → UInt64} {P : Nat} {M : UInt64} {data : List Bytes} {f : Filter}
    (hb : BuildGCSFilter sip P M data = .ok f) :
    f.n = data.length ∧ f.n < 2^32 ∧ f.p = P ∧ P ≤ 32 ∧ f.modulusNP = UInt64.ofNat f.n * M := by
  obtain ⟨h1, h2, rfl⟩ := (build_ok_iff ..).mp hb
  exact ⟨rfl, h1, rfl, h2, rfl⟩

theorem FromNBytes_built {sip : Bytes → UInt64} {P : Nat} {M : UInt64} {data : List Bytes}
    {f : Filter} (hb : BuildGCSFilter sip P M data = .ok f) :
    FromNBytes P M (NBytes f) = .ok f ∧ FromBytes f.n P M f.data = .ok f := by
  obtain ⟨_, h1, h2, h3, h4⟩ := built_fields hb
  rw [FromNBytes_NBytes f P M h1 h3, FromBytes_ok _ _ _ _ h3]
  cases f
  simp only at h2 h4
  subst h2
  simp [h4]

end Bch.Proofs.Gcs
