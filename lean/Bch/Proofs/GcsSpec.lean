import Bch.Proofs.GcsSerial
/-
Relating the `UInt64` encoder to a description on natural numbers (used by C14_bit_exact),
permutation invariance, byte length of the packed stream.
-/
namespace Bch.Proofs.Gcs
open Bch Bch.Model.Gcs

/-- successive differences of a list of naturals, starting from `last` -/
def deltasNat : Nat → List Nat → List Nat
  | _, [] => []
  | last, v :: vs => (v - last) :: deltasNat v vs

/-- Rice code of one delta in terms of `bitsOf` -/
def riceNat (p δ : Nat) : List Bool := List.replicate (δ / 2^p) true ++ false :: bitsOf p δ

theorem bitsOf_eq_range (p x : Nat) :
    bitsOf p x = (List.range p).map (fun i => x.testBit (p - 1 - i)) := by
  induction p with
  | zero => rfl
  | succ c ih =>
    rw [bitsOf, ih, List.range_succ_eq_map, List.map_cons, List.map_map]
    congr 1
    apply List.map_congr_left
    intro i hi
    have := List.mem_range.mp hi
    simp only [Function.comp]
    congr 1
    omega

theorem encodeSorted_eq_nat (P : Nat) (hP : P ≤ 32) (vs : List UInt64) (last : UInt64)
    (hs : Sorted (last :: vs)) :
    encodeSorted P last vs = (deltasNat last.toNat (vs.map UInt64.toNat)).flatMap (riceNat P) := by
  induction vs generalizing last with
  | nil => rfl
  | cons v vs ih =>
    have h := List.pairwise_cons.mp hs
    have hle : last ≤ v := h.1 v List.mem_cons_self
    rw [encodeSorted, encodeDelta_eq P hP, ih v h.2, UInt64.toNat_sub_of_le _ _ hle]
    simp only [List.map_cons, deltasNat, List.flatMap_cons, riceNat]

theorem sorted_zero_cons {vs : List UInt64} (h : Sorted vs) : Sorted (0 :: vs) := by
  refine List.pairwise_cons.mpr ⟨fun a _ => ?_, h⟩
  rw [UInt64.le_iff_toNat_le]; simp

theorem sortU64_map_toNat (l : List UInt64) :
    (sortU64 l).map UInt64.toNat = (l.map UInt64.toNat).mergeSort (fun a b => decide (a ≤ b)) := by
  unfold sortU64
  apply List.map_mergeSort
  intro a _ b _
  exact decide_eq_decide.mpr UInt64.le_iff_toNat_le

theorem modNP_toNat (n : Nat) (hn : n < 2^32) (M : UInt64) :
    (UInt64.ofNat n * M).toNat = (n * M.toNat) % 2^64 := by
  rw [UInt64.toNat_mul, UInt64.toNat_ofNat', Nat.mod_eq_of_lt (a := n) (by omega)]

/-- the hashed, sorted values as natural numbers -/
theorem valuesOf_toNat (sip : Bytes → UInt64) (M : UInt64) (data : List Bytes)
    (hn : data.length < 2^32) :
    (valuesOf sip M data).map UInt64.toNat
      = (data.map fun d => (sip d).toNat * ((data.length * M.toNat) % 2^64) / 2^64).mergeSort
          (fun a b => decide (a ≤ b)) := by
  unfold valuesOf
  rw [sortU64_map_toNat, List.map_map]
  congr 1
  apply List.map_congr_left
  intro d _
  simp only [Function.comp, hashToRange_spec, modNP_toNat _ hn]

theorem build_nat (sip : Bytes → UInt64) (P : Nat) (M : UInt64) (data : List Bytes)
    (hn : data.length < 2^32) (hP : P ≤ 32) :
    BuildGCSFilter sip P M data = .ok ⟨data.length, P, UInt64.ofNat data.length * M,
      packBits ((deltasNat 0
        ((data.map fun d => (sip d).toNat * ((data.length * M.toNat) % 2^64) / 2^64).mergeSort
          (fun a b => decide (a ≤ b)))).flatMap (riceNat P))⟩ := by
  rw [build_ok_iff]
  refine ⟨hn, hP, ?_⟩
  rw [encodeSorted_eq_nat P hP _ 0 (sorted_zero_cons (valuesOf_sorted ..)), valuesOf_toNat _ _ _ hn]
  rfl

theorem build_perm (sip : Bytes → UInt64) (P : Nat) (M : UInt64) {d₁ d₂ : List Bytes}
    (h : d₁.Perm d₂) : BuildGCSFilter sip P M d₁ = BuildGCSFilter sip P M d₂ := by
  have hl := h.length_eq
  have hv : valuesOf sip M d₁ = valuesOf sip M d₂ := by
    unfold valuesOf
    rw [hl]
    exact sortU64_congr (h.map _)
  unfold BuildGCSFilter
  simp only [hl]
  by_cases h1 : d₂.length ≥ 2^32
  · simp only [if_pos h1]
  · rw [if_neg h1, if_neg h1]
    by_cases h2 : P > 32
    · simp only [if_pos h2]
    · rw [if_neg h2, if_neg h2]
      have hv' := hv
      unfold valuesOf at hv'
      rw [hl] at hv'
      rw [hv']

theorem unpackBits_length (bs : Bytes) : (unpackBits bs).length = 8 * bs.length := by
  induction bs with
  | nil => rfl
  | cons b bs ih => rw [unpackBits_cons, List.length_append, ih]; simp [unpack8]; omega

theorem packBits_length (bs : List Bool) : (packBits bs).length = (bs.length + 7) / 8 := by
  obtain ⟨k, hk, hmod, e⟩ := unpack_pack bs
  have := congrArg List.length e
  rw [unpackBits_length, List.length_append, List.length_replicate] at this
  omega

end Bch.Proofs.Gcs
