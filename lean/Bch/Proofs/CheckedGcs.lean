import Bch.Proofs.Checked
import Bch.Proofs.GcsSpec
/-
Fault-tracking layer for C08, part 2: the GCS entry points that take untrusted input
(/repo/gcs/gcs.go `FromBytes`, `FromNBytes`, `Match`, `HashMatchAny`, `MatchAny`, `readFullUint64`), down to
the byte level of the two libraries they read with:

* `github.com/kkdai/bstream` v1.0.0 (`ReadBit`, `ReadByte`, `ReadBits`): the reader is a `[]byte` that is
  re-sliced (`b.stream[1:]`) and indexed (`b.stream[0]`) plus a bit counter `rCount`. `Bch/Model/Gcs.lean` and
  section 6 of `Checked.lean` replace it by an MSB-first `List Bool`; here the byte-level reader is transcribed
  with checked index/slice operations and *proved* to refine the bit list (`readBitC_spec`, `readByteC_spec`,
  `readBitsC_spec`, `readFullC_spec`), including the byte-straddling path of `ReadByte`.
* `wire.ReadVarInt` of gcash/bchd v0.20.0 (wire/common.go) over a `bytes.Buffer`: `Borrow()[:k]`,
  `io.ReadFull`, `buf[0]`, `binary.LittleEndian.UintNN` (`_ = b[7]`, `b[0] | b[1]<<8 | …`), `buffer.Bytes()`.

Conventions as in `Checked.lean`. In addition: the reader state carries a ghost counter `ticks` of the
`ReadBit`/`ReadByte` calls made so far, so that the step bounds are statements about the transcription itself;
unbounded Go loops (`for c {…}` in `readFullUint64`, `for {…}` in `HashMatchAny`) take a fuel argument
computed from `len(stream)`, and *running out of fuel is reported as a fault* — the no-fault theorems
therefore also show termination within that many iterations.
Go shifts by an unsigned count ≥ the width give 0 (Lean's `<<<` on `UIntN` reduces the count modulo the
width): `shl8`, `shr8`, `shl64` implement the Go meaning.
-/
set_option linter.unusedSectionVars false
set_option linter.unusedVariables false

namespace Bch.Proofs.CheckedGcs
open Bch Bch.Model Bch.Model.Gcs Bch.Proofs.Checked

/-! ## 0. Go arithmetic helpers -/

/-- Go `x << k` on `uint8` (`k` unsigned): 0 for `k ≥ 8` -/
def shl8 (x k : UInt8) : UInt8 := if k.toNat < 8 then x <<< k else 0
/-- Go `x >> k` on `uint8` (`k` unsigned): 0 for `k ≥ 8` -/
def shr8 (x k : UInt8) : UInt8 := if k.toNat < 8 then x >>> k else 0
/-- Go `x << k` on `uint64` for a `uint8` count `k` (given as its value): 0 for `k ≥ 64` -/
def shl64 (x : UInt64) (k : Nat) : UInt64 := if k < 64 then x <<< UInt64.ofNat k else 0
/-- Go `a / b` on unsigned integers -/
def div? (a b : Nat) : Except Fault Nat := if b = 0 then .error .divZero else .ok (a / b)
/-- Go `copy(dst, src)`: the first `min(len(dst), len(src))` elements are overwritten; never panics -/
def copyC {α : Type} (dst src : List α) : List α :=
  let n := min dst.length src.length
  src.take n ++ dst.drop n

theorem div?_ok {a b : Nat} (h : b ≠ 0) : div? a b = .ok (a / b) := by simp [div?, h]
theorem div?_zero (a : Nat) : div? a 0 = .error .divZero := by simp [div?]

theorem copyC_full {α : Type} (dst src : List α) (h : dst.length = src.length) : copyC dst src = src := by
  simp [copyC, h]

theorem sub_one_toNat (r : UInt8) (h1 : 1 ≤ r.toNat) : (r - 1).toNat = r.toNat - 1 := by
  have := UInt8.toNat_sub_of_le r 1 (by rw [UInt8.le_iff_toNat_le]; simpa using h1)
  simpa using this

theorem eight_sub_toNat (r : UInt8) (h8 : r.toNat ≤ 8) : (8 - r).toNat = 8 - r.toNat := by
  have := UInt8.toNat_sub_of_le 8 r (by rw [UInt8.le_iff_toNat_le]; simpa using h8)
  simpa using this

theorem and_two_pow_ne_zero (x k : Nat) : (x &&& 2 ^ k != 0) = x.testBit k := by
  cases hb : x.testBit k with
  | false =>
    have : x &&& 2 ^ k = 0 := by
      apply Nat.eq_of_testBit_eq
      intro i
      rw [Nat.testBit_and, Nat.testBit_two_pow, Nat.zero_testBit]
      by_cases h : k = i
      · subst h; simp [hb]
      · simp [h]
    simp [this]
  | true =>
    have : x &&& 2 ^ k ≠ 0 := by
      intro h
      have := congrArg (fun n => Nat.testBit n k) h
      simp [Nat.testBit_and, hb] at this
    simpa using this

/-- `b.stream[0] & (1 << (b.rCount - 1)) != 0` (bstream.go:99, 102) is bit `rCount-1` of the byte -/
theorem bit_test (x r : UInt8) (h1 : 1 ≤ r.toNat) (h8 : r.toNat ≤ 8) :
    ((x &&& shl8 1 (r - 1)) != 0) = x.toNat.testBit (r.toNat - 1) := by
  have hs := sub_one_toNat r h1
  unfold shl8
  rw [if_pos (by omega)]
  have hk : r.toNat - 1 < 8 := by omega
  have e : (x &&& (1 <<< (r - 1))).toNat = x.toNat &&& 2 ^ (r.toNat - 1) := by
    rw [UInt8.toNat_and, UInt8.toNat_shiftLeft, hs, Nat.mod_eq_of_lt hk]
    simp only [UInt8.toNat_one, Nat.shiftLeft_eq, Nat.one_mul]
    rw [Nat.mod_eq_of_lt (by have := Nat.pow_lt_pow_right (a := 2) (by omega) hk; simpa using this)]
  rw [← and_two_pow_ne_zero, ← e]
  generalize (x &&& (1 <<< (r - 1))) = y
  by_cases h : y = 0
  · subst h; rfl
  · have : y.toNat ≠ 0 := fun h' => h (UInt8.toNat_inj.mp h')
    rw [bne_iff_ne.mpr h, bne_iff_ne.mpr this]

theorem bitsOf_congr (c n m : Nat) (h : ∀ i, i < c → n.testBit i = m.testBit i) : bitsOf c n = bitsOf c m := by
  induction c with
  | zero => rfl
  | succ c ih => rw [bitsOf, bitsOf, h c (by omega), ih (fun i hi => h i (by omega))]

theorem bitsOf_add (a b n : Nat) : bitsOf (a + b) n = bitsOf a (n >>> b) ++ bitsOf b n := by
  induction a with
  | zero => simp [bitsOf]
  | succ a ih =>
    rw [show a + 1 + b = (a + b) + 1 by omega, bitsOf, bitsOf, ih, Nat.testBit_shiftRight]
    simp [Nat.add_comm]

/-- the byte-straddling path of `ReadByte` (bstream.go:130-140): with `r` unread bits left in `x`,
`x << (8-r) | y >> r` is those `r` bits followed by the top `8-r` bits of the next byte `y`, and the low `r`
bits of `y` remain -/
theorem straddle (x y r : UInt8) (h1 : 1 ≤ r.toNat) (h7 : r.toNat ≤ 7) :
    bitsOf r.toNat x.toNat ++ bitsOf 8 y.toNat
      = bitsOf 8 (shl8 x (8 - r) ||| shr8 y r).toNat ++ bitsOf r.toNat y.toNat := by
  have hs := eight_sub_toNat r (by omega)
  have hy : y.toNat < 2 ^ 8 := y.toNat_lt
  unfold shl8 shr8
  rw [if_pos (by omega), if_pos (by omega)]
  rw [UInt8.toNat_or, UInt8.toNat_shiftLeft, UInt8.toNat_shiftRight, hs,
    Nat.mod_eq_of_lt (show 8 - r.toNat < 8 by omega), Nat.mod_eq_of_lt (show r.toNat < 8 by omega)]
  generalize r.toNat = k at *
  generalize x.toNat = a
  generalize y.toNat = b at *
  have e1 : bitsOf 8 b = bitsOf (8 - k) (b >>> k) ++ bitsOf k b := by
    rw [← bitsOf_add]; congr 1; omega
  have e2 : bitsOf 8 (a <<< (8 - k) % 256 ||| b >>> k)
      = bitsOf k ((a <<< (8 - k) % 256 ||| b >>> k) >>> (8 - k)) ++ bitsOf (8 - k) (a <<< (8 - k) % 256 ||| b >>> k) := by
    rw [← bitsOf_add]; congr 1; omega
  rw [e1, e2, List.append_assoc]
  congr 1
  · apply bitsOf_congr
    intro i hi
    rw [Nat.testBit_shiftRight, Nat.testBit_or, show (256 : Nat) = 2 ^ 8 by rfl, Nat.testBit_mod_two_pow,
      Nat.testBit_shiftLeft, Nat.testBit_shiftRight]
    have : b.testBit (k + (8 - k + i)) = false :=
      Nat.testBit_lt_two_pow (Nat.lt_of_lt_of_le hy (Nat.pow_le_pow_right (by omega) (by omega)))
    rw [this]
    simp [show 8 - k + i < 8 by omega]
  · congr 1
    apply bitsOf_congr
    intro i hi
    rw [Nat.testBit_or, show (256 : Nat) = 2 ^ 8 by rfl, Nat.testBit_mod_two_pow,
      Nat.testBit_shiftLeft, Nat.testBit_shiftRight]
    simp [show ¬ (i ≥ 8 - k) by omega]

/-- `acc << k | v` for `v < 2^k` is `acc·2^k + v` in `uint64` (bstream.go:150/155, 160/166) -/
theorem shl_or (acc v : UInt64) (k : Nat) (hk : k < 64) (hv : v.toNat < 2 ^ k) :
    acc <<< UInt64.ofNat k ||| v = UInt64.ofNat (acc.toNat * 2 ^ k + v.toNat) := by
  apply UInt64.toNat_inj.mp
  have hkk : (UInt64.ofNat k).toNat % 64 = k := by
    rw [UInt64.toNat_ofNat']; omega
  rw [UInt64.toNat_or, UInt64.toNat_shiftLeft, hkk, UInt64.toNat_ofNat']
  have ha := acc.toNat_lt
  generalize acc.toNat = a at *
  generalize v.toNat = w at *
  have e : a <<< k % 2 ^ 64 = (a % 2 ^ (64 - k)) <<< k := by
    rw [Nat.shiftLeft_eq, Nat.shiftLeft_eq]
    have : 2 ^ 64 = 2 ^ (64 - k) * 2 ^ k := by rw [← Nat.pow_add]; congr 1; omega
    rw [this, Nat.mul_mod_mul_right]
  rw [e, ← Nat.shiftLeft_add_eq_or_of_lt hv, Nat.shiftLeft_eq]
  have h2 : 2 ^ 64 = 2 ^ (64 - k) * 2 ^ k := by rw [← Nat.pow_add]; congr 1; omega
  have hpos : 0 < 2 ^ k := Nat.two_pow_pos k
  have hL : 0 < 2 ^ (64 - k) := Nat.two_pow_pos _
  rw [h2]
  generalize 2 ^ k = K at *
  generalize 2 ^ (64 - k) = L at *
  have hlt : a % L * K + w < L * K := by
    have : a % L < L := Nat.mod_lt _ hL
    calc a % L * K + w < a % L * K + K := by omega
      _ = (a % L + 1) * K := by rw [Nat.add_mul, Nat.one_mul]
      _ ≤ L * K := Nat.mul_le_mul_right _ this
  have hd : a * K + w = (L * K) * (a / L) + (a % L * K + w) := by
    conv => lhs; rw [← Nat.div_add_mod a L]
    rw [Nat.add_mul]
    simp only [Nat.mul_comm, Nat.mul_left_comm, Nat.add_assoc]
  rw [hd, Nat.mul_add_mod, Nat.mod_eq_of_lt hlt]

/-! ## 1. the `kkdai/bstream` reader (bstream.go:81-173) -/

/-- `bstream.BStream` as used for reading: the remaining byte slice, the number of unread bits of its first
byte, and the ghost call counter -/
structure BS where
  stream : Bytes
  rCount : UInt8
  ticks : Nat
  deriving DecidableEq, Repr

/-- `bstream.NewBStreamReader(data)` (bstream.go:20-22) -/
def newReader (data : Bytes) : BS := ⟨data, 8, 0⟩

/-- common prologue of `ReadBit` (bstream.go:83-96) and `ReadByte` (bstream.go:107-120): `false` = `io.EOF`.
`g = false` drops the second `len(b.stream) == 0` test (:91 / :115), the one that keeps `b.stream[0]` in range
once the last byte is used up. -/
def prologueG (g : Bool) (b : BS) : Except Fault (Bool × BS) :=
  let b : BS := { b with ticks := b.ticks + 1 }
  if b.stream.length = 0 then pure (false, b)                               -- :83 / :107  len(b.stream) == 0
  else if b.rCount = 0 then do                                              -- :88 / :112
    let s ← slice? b.stream 1 b.stream.length                               -- :89 / :113  b.stream[1:]
    if g && decide (s.length = 0) then pure (false, { b with stream := s }) -- :91 / :115
    else pure (true, { b with stream := s, rCount := 8 })                   -- :95 / :119
  else pure (true, b)

/-- `ReadBit` (bstream.go:81-103); `none` = `io.EOF` -/
def readBitG (g : Bool) (b : BS) : Except Fault (Option Bool × BS) := do
  let (ok, b) ← prologueG g b
  if ok = false then pure (none, b)
  else do
    let x ← idx? b.stream 0                                                 -- :99  b.stream[0]
    let retBit := x &&& shl8 1 (b.rCount - 1)                               -- :99  & (1 << (b.rCount - 1))
    pure (some (retBit != 0), { b with rCount := b.rCount - 1 })            -- :100-102

def readBitC := readBitG true

/-- `ReadByte` (bstream.go:105-141); `none` = `io.EOF` -/
def readByteC (b : BS) : Except Fault (Option UInt8 × BS) := do
  let (ok, b) ← prologueG true b
  if ok = false then pure (none, b)
  else if b.rCount = 8 then do                                              -- :123
    let byt ← idx? b.stream 0                                               -- :124  b.stream[0]
    let s ← slice? b.stream 1 b.stream.length                               -- :125  b.stream[1:]
    pure (some byt, { b with stream := s })
  else do
    let x ← idx? b.stream 0                                                 -- :130  b.stream[0]
    let retByte := shl8 x (8 - b.rCount)                                    -- :130  << (8 - b.rCount)
    let s ← slice? b.stream 1 b.stream.length                               -- :131  b.stream[1:]
    let b : BS := { b with stream := s }
    if s.length = 0 then pure (none, b)                                     -- :134
    else do
      let y ← idx? b.stream 0                                               -- :139  b.stream[0]
      pure (some (retByte ||| shr8 y b.rCount), b)                          -- :139  >> b.rCount

/-- `ReadBits(count)` (bstream.go:144-173). The two consecutive loops `for count >= 8` (whole bytes) and
`for count > 0` (single bits) are one recursion: once `count < 8` the first test stays false.
`fuel = count + 1`. -/
def readBitsC : (fuel count : Nat) → BS → UInt64 → Except Fault (Option UInt64 × BS)
  | 0, _, _, _ => .error .indexOOB
  | fuel+1, count, b, retValue =>
    if count ≥ 8 then do                                                    -- :149
      let retValue := retValue <<< 8                                        -- :150
      let (r, b) ← readByteC b                                              -- :151
      match r with
      | none => pure (none, b)                                              -- :152-154
      | some byt => readBitsC fuel (count - 8) b (retValue ||| byt.toUInt64)  -- :155-156
    else if count > 0 then do                                               -- :159
      let retValue := retValue <<< 1                                        -- :160
      let (r, b) ← readBitC b                                               -- :161
      match r with
      | none => pure (none, b)                                              -- :162-164
      | some bi => readBitsC fuel (count - 1) b (if bi then retValue ||| 1 else retValue)  -- :165-169
    else pure (some retValue, b)                                            -- :172

/-- the unread bits, most significant first: the low `rCount` bits of the first byte, then the other bytes -/
def BS.bits (b : BS) : List Bool :=
  match b.stream with
  | [] => []
  | x :: rest => bitsOf b.rCount.toNat x.toNat ++ unpackBits rest

/-- `rCount ≤ 8` (it is a `uint8`; the reader only ever sets it to 8 and decrements it when non-zero) -/
def BS.WF (b : BS) : Prop := b.rCount.toNat ≤ 8

theorem unpack8_eq (y : UInt8) : Gcs.unpack8 y = bitsOf 8 y.toNat := by
  rw [Gcs.bitsOf_eq_range]; rfl

theorem bits_cons (x : UInt8) (rest : Bytes) (rc : UInt8) (t : Nat) :
    (⟨x :: rest, rc, t⟩ : BS).bits = bitsOf rc.toNat x.toNat ++ unpackBits rest := rfl

theorem bits_eight (s : Bytes) (t : Nat) : (⟨s, 8, t⟩ : BS).bits = unpackBits s := by
  cases s with
  | nil => rfl
  | cons x rest => rw [Gcs.unpackBits_cons, unpack8_eq]; rfl

theorem newReader_bits (data : Bytes) : (newReader data).bits = unpackBits data := bits_eight data 0

theorem newReader_WF (data : Bytes) : (newReader data).WF := by simp [newReader, BS.WF]

theorem bits_length_le (b : BS) (h : b.WF) : b.bits.length ≤ 8 * b.stream.length := by
  unfold BS.bits BS.WF at *
  cases hs : b.stream with
  | nil => simp
  | cons x rest =>
    simp only [List.length_append, Gcs.bitsOf_length, Checked.unpackBits_length, List.length_cons]
    omega

theorem slice?_tail {α : Type} (x : α) (rest : List α) :
    slice? (x :: rest) 1 ((rest.length + 1 : Nat) : Int) = .ok rest := by
  have := slice?_drop (l := x :: rest) (k := 1) (by simp)
  simpa using this

theorem prologueC_spec (b : BS) (h : b.WF) :
    ∃ ok b', prologueG true b = .ok (ok, b') ∧ b'.ticks = b.ticks + 1 ∧
      (ok = false → b.bits = []) ∧
      (ok = true → b'.WF ∧ b'.bits = b.bits ∧ 1 ≤ b'.rCount.toNat ∧ ∃ x rest, b'.stream = x :: rest) := by
  obtain ⟨stream, rc, t⟩ := b
  unfold prologueG
  simp only [Bool.true_and, decide_eq_true_eq]
  cases stream with
  | nil => exact ⟨false, ⟨[], rc, t + 1⟩, rfl, rfl, fun _ => rfl, fun h => by cases h⟩
  | cons x rest =>
    simp only [List.length_cons, Nat.succ_ne_zero, if_false]
    by_cases h0 : rc = 0
    · subst h0
      simp only [if_true]
      rw [bind_of_ok (slice?_tail x rest)]
      cases rest with
      | nil =>
        exact ⟨false, ⟨[], 0, t + 1⟩, rfl, rfl, fun _ => by simp [BS.bits, bitsOf, unpackBits], fun h => by cases h⟩
      | cons y rest' =>
        refine ⟨true, ⟨y :: rest', 8, t + 1⟩, rfl, rfl, ?_, fun _ => ⟨?_, ?_, ?_, y, rest', rfl⟩⟩
        · intro h; cases h
        · simp [BS.WF]
        rotate_left
        · simp
        simp only [BS.bits, UInt8.toNat_zero, bitsOf, List.nil_append]
        rw [Gcs.unpackBits_cons, Gcs.bitsOf_eq_range]; rfl
    · simp only [h0, if_false]
      refine ⟨true, ⟨x :: rest, rc, t + 1⟩, rfl, rfl, ?_, fun _ => ⟨h, rfl, ?_, x, rest, rfl⟩⟩
      · intro h; cases h
      have : rc.toNat ≠ 0 := fun h' => h0 (UInt8.toNat_inj.mp h')
      simp only; omega

/-- `ReadBit` refines "take the head of the bit list" -/
theorem readBitC_spec (b : BS) (h : b.WF) :
    ∃ res, readBitC b = .ok res ∧ res.2.ticks = b.ticks + 1 ∧
      match res.1 with
      | none => b.bits = []
      | some c => res.2.WF ∧ b.bits = c :: res.2.bits := by
  obtain ⟨ok, b', e, ht, hf, hT⟩ := prologueC_spec b h
  unfold readBitC readBitG
  rw [bind_of_ok e]
  cases ok with
  | false => exact ⟨_, rfl, ht, hf rfl⟩
  | true =>
    obtain ⟨hw, hb, h1, x, rest, hs⟩ := hT rfl
    simp only [Bool.true_eq_false, if_false]
    rw [hs, bind_of_ok (idx?_ok (l := x :: rest) (i := 0) (by simp))]
    refine ⟨_, rfl, ht, ?_, ?_⟩
    · simp only [BS.WF, sub_one_toNat _ h1]; unfold BS.WF at hw; omega
    · rw [← hb]
      simp only [BS.bits, hs, sub_one_toNat _ h1]
      obtain ⟨k, hk⟩ : ∃ k, b'.rCount.toNat = k + 1 := ⟨b'.rCount.toNat - 1, by omega⟩
      rw [List.getElem_cons_zero, bit_test x _ h1 hw, hk]
      simp [bitsOf]

/-- `ReadByte` refines "take eight bits" -/
theorem readByteC_spec (b : BS) (h : b.WF) :
    ∃ res, readByteC b = .ok res ∧ res.2.ticks = b.ticks + 1 ∧
      match res.1 with
      | none => b.bits.length < 8
      | some y => res.2.WF ∧ b.bits = bitsOf 8 y.toNat ++ res.2.bits := by
  obtain ⟨ok, b', e, ht, hf, hT⟩ := prologueC_spec b h
  unfold readByteC
  rw [bind_of_ok e]
  cases ok with
  | false => exact ⟨_, rfl, ht, by rw [hf rfl]; simp⟩
  | true =>
    obtain ⟨hw, hb, h1, x, rest, hs⟩ := hT rfl
    obtain ⟨s', rc, t'⟩ := b'
    simp only at hs ht h1
    subst hs
    rw [← hb]
    simp only [Bool.true_eq_false, if_false]
    have hi : idx? (x :: rest) 0 = .ok x := idx?_ok (l := x :: rest) (i := 0) (by simp)
    simp only [List.length_cons]
    by_cases h8 : rc = 8
    · subst h8
      simp only [if_true]
      rw [bind_of_ok hi, bind_of_ok (slice?_tail x rest)]
      refine ⟨_, rfl, ht, by simp [BS.WF], ?_⟩
      simp only
      rw [bits_eight, bits_eight, Gcs.unpackBits_cons, unpack8_eq]
    · simp only [h8, if_false]
      have h7 : rc.toNat ≤ 7 := by
        have : rc.toNat ≠ 8 := fun h' => h8 (UInt8.toNat_inj.mp h')
        unfold BS.WF at hw; simp only at hw; omega
      rw [bind_of_ok hi, bind_of_ok (slice?_tail x rest)]
      cases rest with
      | nil =>
        refine ⟨_, rfl, ht, ?_⟩
        simp only [bits_cons, unpackBits, List.flatMap_nil, List.append_nil, Gcs.bitsOf_length]
        omega
      | cons y rest' =>
        simp only [List.length_cons, Nat.succ_ne_zero, if_false]
        rw [bind_of_ok (idx?_ok (l := y :: rest') (i := 0) (by simp))]
        refine ⟨_, rfl, ht, hw, ?_⟩
        simp only [bits_cons, List.getElem_cons_zero]
        rw [Gcs.unpackBits_cons, unpack8_eq, ← List.append_assoc, straddle x y rc h1 h7, List.append_assoc]

/-! ### `ReadBits` refines the model's `readBits` -/

/-- outcome `res` of a byte-level reader started in `b` against the outcome `m` of the bit-list reader on
`b.bits`: same verdict, same value, the rest of the stream corresponds, and the `ReadBit`/`ReadByte` calls
are paid for by consumed bits (plus one call for the final EOF) -/
def Sim {α : Type} (b : BS) (res : Option α × BS) (m : Option (α × List Bool)) : Prop :=
  match res.1, m with
  | some a, some (a', bs') =>
    a = a' ∧ res.2.WF ∧ res.2.bits = bs' ∧ res.2.ticks + bs'.length ≤ b.ticks + b.bits.length
  | none, none => res.2.ticks ≤ b.ticks + b.bits.length + 1
  | _, _ => False

theorem Sim_mono {α : Type} {b b1 : BS} {res : Option α × BS} {m : Option (α × List Bool)}
    (h : b1.ticks + b1.bits.length ≤ b.ticks + b.bits.length) (hs : Sim b1 res m) : Sim b res m := by
  unfold Sim at *
  split <;> simp_all <;> omega

theorem readBits_short : ∀ (c : Nat) (bs : List Bool) (acc : UInt64), bs.length < c → readBits c bs acc = none := by
  intro c
  induction c with
  | zero => intro bs acc h; omega
  | succ c ih =>
    intro bs acc h
    cases bs with
    | nil => rfl
    | cons x xs => rw [readBits]; exact ih _ _ (by simpa using h)

theorem readBits_add (a c : Nat) : ∀ (bs : List Bool) (acc : UInt64),
    readBits (a + c) bs acc = (readBits a bs acc).bind fun r => readBits c r.2 r.1 := by
  induction a with
  | zero => intro bs acc; simp [readBits]
  | succ a ih =>
    intro bs acc
    rw [show a + 1 + c = (a + c) + 1 by omega]
    cases bs with
    | nil => simp [readBits]
    | cons x xs => rw [readBits, readBits, ih]

/-- one whole byte (bstream.go:150-156) -/
theorem readBits_byte (c : Nat) (y : UInt8) (rest : List Bool) (acc : UInt64) :
    readBits (c + 8) (bitsOf 8 y.toNat ++ rest) acc = readBits c rest (acc <<< 8 ||| y.toUInt64) := by
  rw [Nat.add_comm, readBits_add]
  have h := Gcs.readBits_bitsOf 8 y.toNat acc.toNat rest
  rw [UInt64.ofNat_toNat] at h
  rw [h]
  simp only [Option.bind_some]
  congr 1
  have hy : y.toNat < 2 ^ 8 := y.toNat_lt
  have := shl_or acc y.toUInt64 8 (by omega) (by simpa using hy)
  rw [show (UInt64.ofNat 8) = 8 from rfl] at this
  rw [this, Nat.mod_eq_of_lt hy]; simp

/-- one bit (bstream.go:160-167) -/
theorem readBits_bit (acc : UInt64) (bi : Bool) :
    acc * (2 : UInt64) + (if bi then (1 : UInt64) else 0) = (if bi then acc <<< (1 : UInt64) ||| (1 : UInt64) else acc <<< (1 : UInt64)) := by
  have h1 := shl_or acc 1 1 (by omega) (by decide)
  have h0 := shl_or acc 0 1 (by omega) (by decide)
  rw [show (UInt64.ofNat 1) = 1 from rfl] at h1 h0
  have e0 : acc <<< 1 = acc <<< 1 ||| 0 := by simp
  cases bi with
  | true =>
    simp only [if_true]
    rw [h1, UInt64.ofNat_add, UInt64.ofNat_mul, UInt64.ofNat_toNat]; rfl
  | false =>
    simp only [Bool.false_eq_true, if_false]
    rw [e0, h0, UInt64.ofNat_add, UInt64.ofNat_mul, UInt64.ofNat_toNat]; rfl

theorem readBitsC_spec : ∀ (fuel count : Nat) (b : BS) (acc : UInt64), b.WF → count < fuel →
    ∃ res, readBitsC fuel count b acc = .ok res ∧ Sim b res (readBits count b.bits acc) := by
  intro fuel
  induction fuel with
  | zero => intro count b acc _ h; omega
  | succ fuel ih =>
    intro count b acc hw hf
    rw [readBitsC]
    by_cases h8 : count ≥ 8
    · simp only [h8, if_true]
      obtain ⟨c, rfl⟩ : ∃ c, count = c + 8 := ⟨count - 8, by omega⟩
      obtain ⟨res, e, ht, hm⟩ := readByteC_spec b hw
      rw [bind_of_ok e]
      obtain ⟨r, b1⟩ := res
      cases r with
      | none =>
        simp only at hm ht ⊢
        refine ⟨_, rfl, ?_⟩
        rw [readBits_short _ _ _ (by omega)]
        simp only [Sim]; omega
      | some y =>
        simp only at hm ht ⊢
        obtain ⟨hw1, hb⟩ := hm
        obtain ⟨res, e2, hs⟩ := ih c b1 (acc <<< 8 ||| y.toUInt64) hw1 (by omega)
        rw [Nat.add_sub_cancel]
        refine ⟨res, e2, ?_⟩
        rw [hb, readBits_byte]
        refine Sim_mono ?_ hs
        rw [hb, List.length_append, Gcs.bitsOf_length]; omega
    · simp only [h8, if_false]
      by_cases h0 : count > 0
      · simp only [h0, if_true]
        obtain ⟨c, rfl⟩ : ∃ c, count = c + 1 := ⟨count - 1, by omega⟩
        obtain ⟨res, e, ht, hm⟩ := readBitC_spec b hw
        rw [bind_of_ok e]
        obtain ⟨r, b1⟩ := res
        cases r with
        | none =>
          simp only at hm ht ⊢
          refine ⟨_, rfl, ?_⟩
          rw [hm, readBits]
          simp only [Sim]; omega
        | some bi =>
          simp only at hm ht ⊢
          obtain ⟨hw1, hb⟩ := hm
          obtain ⟨res, e2, hs⟩ := ih c b1 (if bi then acc <<< 1 ||| 1 else acc <<< 1) hw1 (by omega)
          rw [Nat.add_sub_cancel]
          refine ⟨res, e2, ?_⟩
          rw [hb, readBits, readBits_bit]
          refine Sim_mono ?_ hs
          rw [hb, List.length_cons]; omega
      · simp only [h0, if_false]
        obtain rfl : count = 0 := by omega
        refine ⟨_, rfl, ?_⟩
        simp only [readBits, Sim]
        exact ⟨trivial, hw, trivial, Nat.le_refl _⟩

/-! ## 2. `readFullUint64` (gcs.go:524-549) -/

/-- the loop `for c { quotient++; c, err = b.ReadBit() … }` (gcs.go:532-538). `fuel = 8·len(stream) + 1`:
every iteration consumes a bit. -/
def unaryLoopC : (fuel : Nat) → (c : Bool) → BS → (quotient : UInt64) → Except Fault (Option UInt64 × BS)
  | 0, _, _, _ => .error .indexOOB
  | fuel+1, c, b, quotient =>
    if c then do                                                            -- gcs.go:532
      let quotient := quotient + 1                                          -- gcs.go:533
      let (r, b) ← readBitC b                                               -- gcs.go:534
      match r with
      | none => pure (none, b)                                              -- gcs.go:535-537
      | some c => unaryLoopC fuel c b quotient
    else pure (some quotient, b)

/-- `f.readFullUint64(b)`; `none` = `io.EOF` (the only error `bstream` produces) -/
def readFullC (p : Nat) (b : BS) : Except Fault (Option UInt64 × BS) := do
  let (r, b) ← readBitC b                                                   -- gcs.go:528
  match r with
  | none => pure (none, b)                                                  -- gcs.go:529-531
  | some c => do
    let (r, b) ← unaryLoopC (8 * b.stream.length + 1) c b 0                 -- gcs.go:525, 532-538
    match r with
    | none => pure (none, b)
    | some quotient => do
      let (r, b) ← readBitsC (p + 1) p b 0                                  -- gcs.go:541  b.ReadBits(int(f.p))
      match r with
      | none => pure (none, b)                                              -- gcs.go:542-544
      | some remainder => pure (some (shl64 quotient p + remainder), b)     -- gcs.go:547  (quotient << f.p) + remainder

/-- the model's `readFull` with Go's meaning of `quotient << f.p` (0 for `p ≥ 64`; the model's `<<<` reduces
the count mod 64). The two agree for `p < 64`, and every constructor of `Filter` enforces `p ≤ 32`. -/
def readFullS (p : Nat) (bs : List Bool) : Option (UInt64 × List Bool) :=
  match readUnary bs 0 with
  | none => none
  | some (q, bs) =>
    match readBits p bs 0 with
    | none => none
    | some (r, bs) => some (shl64 q p + r, bs)

theorem readFullS_eq_model (p : Nat) (hp : p < 64) : readFullS p = readFull p := by
  funext bs
  unfold readFullS readFull shl64
  simp only [hp, if_true]
  cases readUnary bs 0 with
  | none => rfl
  | some u =>
    obtain ⟨q, bs1⟩ := u
    simp only
    cases readBits p bs1 0 with
    | none => rfl
    | some v => rfl

/-- the hypothesis `p < 64` of `readFullS_eq_model` is needed: at `p = 64` Go computes `1 << 64 = 0`,
the model `1 <<< (64 % 64) = 1` -/
theorem readFullS_ne_model_64 :
    readFullS 64 (true :: false :: List.replicate 64 false) = some (0, []) ∧
    readFull 64 (true :: false :: List.replicate 64 false) = some (1, []) := by decide +kernel

theorem readFullS_length (p : Nat) (bs : List Bool) (r : UInt64 × List Bool) (h : readFullS p bs = some r) :
    r.2.length + p + 1 ≤ bs.length := by
  have : ∃ r', readFull p bs = some r' ∧ r'.2 = r.2 := by
    unfold readFullS at h
    unfold readFull
    cases hu : readUnary bs 0 with
    | none => rw [hu] at h; cases h
    | some u =>
      rw [hu] at h
      obtain ⟨q, bs1⟩ := u
      simp only at h ⊢
      cases hb : readBits p bs1 0 with
      | none => rw [hb] at h; cases h
      | some v =>
        rw [hb] at h
        obtain ⟨rr, bs2⟩ := v
        simp only [Option.some.injEq] at h
        subst h
        exact ⟨_, rfl, rfl⟩
  obtain ⟨r', h1, h2⟩ := this
  have := Checked.readFull_length p bs r' h1
  rw [h2] at this; exact this

theorem unaryLoopC_spec : ∀ (fuel : Nat) (c : Bool) (b : BS) (q : UInt64), b.WF → b.bits.length < fuel →
    ∃ res, unaryLoopC fuel c b q = .ok res ∧ Sim b res (readUnary (c :: b.bits) q) := by
  intro fuel
  induction fuel with
  | zero => intro c b q _ h; omega
  | succ fuel ih =>
    intro c b q hw hf
    rw [unaryLoopC]
    cases c with
    | false =>
      simp only [Bool.false_eq_true, if_false]
      refine ⟨_, rfl, ?_⟩
      simp only [readUnary, Sim]
      exact ⟨trivial, hw, trivial, Nat.le_refl _⟩
    | true =>
      simp only [if_true]
      obtain ⟨res, e, ht, hm⟩ := readBitC_spec b hw
      rw [bind_of_ok e]
      obtain ⟨r, b1⟩ := res
      cases r with
      | none =>
        simp only at hm ht ⊢
        refine ⟨_, rfl, ?_⟩
        rw [hm]
        simp only [readUnary, Sim]; omega
      | some c' =>
        simp only at hm ht ⊢
        obtain ⟨hw1, hb⟩ := hm
        have hl : b.bits.length = b1.bits.length + 1 := by rw [hb]; simp
        obtain ⟨res, e2, hs⟩ := ih c' b1 (q + 1) hw1 (by omega)
        refine ⟨res, e2, ?_⟩
        rw [readUnary, hb]
        exact Sim_mono (by omega) hs

/-- `readFullUint64` over the byte-level reader refines the bit-list decoder; never faults, for every
`p` and every reader state reachable from `NewBStreamReader` -/
theorem readFullC_spec (p : Nat) (b : BS) (hw : b.WF) :
    ∃ res, readFullC p b = .ok res ∧ Sim b res (readFullS p b.bits) := by
  unfold readFullC
  obtain ⟨res, e, ht, hm⟩ := readBitC_spec b hw
  rw [bind_of_ok e]
  obtain ⟨r, b1⟩ := res
  cases r with
  | none =>
    simp only at hm ht ⊢
    refine ⟨_, rfl, ?_⟩
    rw [hm]
    simp only [readFullS, readUnary, Sim]; omega
  | some c =>
    simp only at hm ht ⊢
    obtain ⟨hw1, hb⟩ := hm
    have hl : b.bits.length = b1.bits.length + 1 := by rw [hb]; simp
    obtain ⟨res, e2, hs⟩ := unaryLoopC_spec (8 * b1.stream.length + 1) c b1 0 hw1
      (by have := bits_length_le b1 hw1; omega)
    rw [bind_of_ok e2]
    obtain ⟨r2, b2⟩ := res
    unfold readFullS
    rw [hb]
    cases hu : readUnary (c :: b1.bits) 0 with
    | none =>
      rw [hu] at hs
      cases r2 with
      | some _ => simp [Sim] at hs
      | none =>
        refine ⟨_, rfl, ?_⟩
        simp only [Sim] at hs ⊢
        rw [hb, List.length_cons]; omega
    | some u =>
      rw [hu] at hs
      obtain ⟨q, bs1⟩ := u
      cases r2 with
      | none => simp [Sim] at hs
      | some q' =>
        simp only [Sim] at hs
        obtain ⟨rfl, hw2, hb2, ht2⟩ := hs
        simp only
        obtain ⟨res, e3, hs3⟩ := readBitsC_spec (p + 1) p b2 0 hw2 (by omega)
        rw [bind_of_ok e3]
        obtain ⟨r3, b3⟩ := res
        rw [hb2] at hs3
        cases hr : readBits p bs1 0 with
        | none =>
          rw [hr] at hs3
          cases r3 with
          | some _ => simp [Sim] at hs3
          | none =>
            refine ⟨_, rfl, ?_⟩
            simp only [Sim] at hs3 ⊢
            rw [hb, List.length_cons]; rw [hb2] at hs3; omega
        | some v =>
          rw [hr] at hs3
          obtain ⟨rem, bs2⟩ := v
          cases r3 with
          | none => simp [Sim] at hs3
          | some rem' =>
            simp only [Sim] at hs3
            obtain ⟨rfl, hw3, hb3, ht3⟩ := hs3
            refine ⟨_, rfl, ?_⟩
            simp only [Sim]
            refine ⟨trivial, hw3, hb3, ?_⟩
            rw [hb, List.length_cons]; rw [hb2] at ht3; omega

/-! ## 3. the loops of `Match`, `HashMatchAny`, `ZipMatchAny` over an arbitrary value reader

The model's loops are tied to `readFull p`. To state the refinement (and the bounds) for *every* `p`, the same
loops are written over a reader parameter `rd`; at `rd = readFull p` they are the model's. -/

abbrev Reader := List Bool → Option (UInt64 × List Bool)

def matchLoopR (rd : Reader) (term : UInt64) : Nat → List Bool → UInt64 → Bool
  | 0, _, _ => false
  | n+1, bs, value =>
    match rd bs with
    | none => false
    | some (delta, bs) =>
      let value := value + delta
      if value = term then true
      else if value > term then false
      else matchLoopR rd term n bs value

def decodeAllR (rd : Reader) : Nat → List Bool → UInt64 → List UInt64
  | 0, _, _ => []
  | fuel+1, bs, last =>
    match rd bs with
    | none => []
    | some (delta, bs) => (last + delta) :: decodeAllR rd fuel bs (last + delta)

def zipLoopR (rd : Reader) : Nat → List Bool → UInt64 → List UInt64 → Bool
  | 0, _, _, _ => false
  | n+1, bs, value, qs =>
    match rd bs with
    | none => false
    | some (delta, bs) =>
      let value := value + delta
      match zipAdvance value qs with
      | (some r, _) => r
      | (none, qs) => zipLoopR rd n bs value qs

theorem matchLoopR_model (p : Nat) (term : UInt64) : ∀ (n : Nat) (bs : List Bool) (v : UInt64),
    matchLoopR (readFull p) term n bs v = matchLoop p term n bs v := by
  intro n
  induction n with
  | zero => intro bs v; rfl
  | succ n ih =>
    intro bs v
    rw [matchLoopR, matchLoop]
    cases readFull p bs with
    | none => rfl
    | some r => obtain ⟨d, bs'⟩ := r; simp only [ih]

theorem decodeAllR_model (p : Nat) : ∀ (fuel : Nat) (bs : List Bool) (last : UInt64),
    decodeAllR (readFull p) fuel bs last = decodeAll p fuel bs last := by
  intro fuel
  induction fuel with
  | zero => intro bs last; rfl
  | succ fuel ih =>
    intro bs last
    rw [decodeAllR, decodeAll]
    cases readFull p bs with
    | none => rfl
    | some r => obtain ⟨d, bs'⟩ := r; simp only [ih]

theorem zipLoopR_model (p : Nat) : ∀ (n : Nat) (bs : List Bool) (v : UInt64) (qs : List UInt64),
    zipLoopR (readFull p) n bs v qs = zipLoop p n bs v qs := by
  intro n
  induction n with
  | zero => intro bs v qs; rfl
  | succ n ih =>
    intro bs v qs
    rw [zipLoopR, zipLoop]
    cases readFull p bs with
    | none => rfl
    | some r =>
      obtain ⟨d, bs'⟩ := r
      simp only [ih]
      generalize zipAdvance (v + d) qs = z
      obtain ⟨r, qs'⟩ := z
      cases r <;> rfl

/-! ### `Match` (gcs.go:288-339) -/

/-- `f.Bytes()` (gcs.go:217-221) -/
def BytesC (f : Filter) : Except Fault Bytes := do
  let filterData ← make? (f.data.length : Int) (0 : UInt8)                  -- gcs.go:218
  pure (copyC filterData f.data)                                            -- gcs.go:219

theorem BytesC_eq (f : Filter) : BytesC f = .ok f.data := by
  unfold BytesC
  rw [bind_of_ok (make?_ok (by omega) _)]
  simp only [Int.toNat_natCast, pure_eq_ok]
  rw [copyC_full _ _ (by simp)]

/-- the loop `for i := uint32(0); i < f.N(); i++` (gcs.go:308-333); the counter is `N - i` -/
def matchLoopC (p : Nat) (term : UInt64) : Nat → BS → UInt64 → Except Fault (Bool × BS)
  | 0, b, _ => pure (false, b)                                              -- gcs.go:338
  | n+1, b, value => do
    let (r, b) ← readFullC p b                                              -- gcs.go:311
    match r with
    | none => pure (false, b)                                               -- gcs.go:312-315  io.EOF
    | some delta =>
      let value := value + delta                                            -- gcs.go:320
      if value = term then pure (true, b)                                   -- gcs.go:324
      else if value > term then pure (false, b)                             -- gcs.go:330
      else matchLoopC p term n b value

/-- `Match` with the final reader state (for the step bound) -/
def MatchRun (sip : Bytes → UInt64) (f : Filter) (d : Bytes) : Except Fault (Bool × BS) := do
  let filterData ← BytesC f                                                 -- gcs.go:290
  let b := newReader filterData                                             -- gcs.go:295
  let term := hashToRange sip f.modulusNP d                                 -- gcs.go:299-304
  matchLoopC f.p term f.n b 0                                               -- gcs.go:307-338

def MatchC (sip : Bytes → UInt64) (f : Filter) (d : Bytes) : Except Fault Bool := do
  let (r, _) ← MatchRun sip f d
  pure r

theorem matchLoopC_spec (p : Nat) (term : UInt64) : ∀ (n : Nat) (b : BS) (v : UInt64), b.WF →
    ∃ res, matchLoopC p term n b v = .ok res ∧ res.1 = matchLoopR (readFullS p) term n b.bits v ∧
      res.2.ticks ≤ b.ticks + b.bits.length + 1 := by
  intro n
  induction n with
  | zero => intro b v _; exact ⟨_, rfl, rfl, by simp only; omega⟩
  | succ n ih =>
    intro b v hw
    rw [matchLoopC, matchLoopR]
    obtain ⟨res, e, hs⟩ := readFullC_spec p b hw
    rw [bind_of_ok e]
    obtain ⟨r, b1⟩ := res
    cases hm : readFullS p b.bits with
    | none =>
      rw [hm] at hs
      cases r with
      | some _ => simp [Sim] at hs
      | none => exact ⟨_, rfl, rfl, by simpa [Sim] using hs⟩
    | some u =>
      rw [hm] at hs
      obtain ⟨d, bs1⟩ := u
      cases r with
      | none => simp [Sim] at hs
      | some d' =>
        simp only [Sim] at hs
        obtain ⟨rfl, hw1, hb1, ht1⟩ := hs
        simp only
        split
        · exact ⟨_, rfl, rfl, by simp only; omega⟩
        · split
          · exact ⟨_, rfl, rfl, by simp only; omega⟩
          · obtain ⟨res, e2, h1, h2⟩ := ih b1 (v + d') hw1
            rw [hb1] at h1 h2
            exact ⟨res, e2, h1, by omega⟩

theorem MatchRun_spec (sip : Bytes → UInt64) (f : Filter) (d : Bytes) :
    ∃ res, MatchRun sip f d = .ok res ∧
      res.1 = matchLoopR (readFullS f.p) (hashToRange sip f.modulusNP d) f.n (unpackBits f.data) 0 ∧
      res.2.ticks ≤ 8 * f.data.length + 1 := by
  unfold MatchRun
  rw [bind_of_ok (BytesC_eq f)]
  obtain ⟨res, e, h1, h2⟩ := matchLoopC_spec f.p (hashToRange sip f.modulusNP d) f.n (newReader f.data) 0
    (newReader_WF _)
  rw [newReader_bits] at h1 h2
  rw [Checked.unpackBits_length] at h2
  exact ⟨res, e, h1, by simpa [newReader] using h2⟩

theorem MatchC_no_fault (sip : Bytes → UInt64) (f : Filter) (d : Bytes) : ∃ r, MatchC sip f d = .ok r := by
  obtain ⟨res, e, _, _⟩ := MatchRun_spec sip f d
  unfold MatchC
  rw [bind_of_ok e]
  exact ⟨_, rfl⟩

theorem MatchC_eq_model (sip : Bytes → UInt64) (f : Filter) (d : Bytes) (hp : f.p < 64) :
    MatchC sip f d = .ok (Match sip f d) := by
  obtain ⟨res, e, h1, _⟩ := MatchRun_spec sip f d
  unfold MatchC
  rw [bind_of_ok e]
  rw [readFullS_eq_model _ hp, matchLoopR_model] at h1
  obtain ⟨r, b⟩ := res
  simp only at h1
  subst h1; rfl

/-! ### `HashMatchAny` (gcs.go:451-520) -/

/-- the map key: `uint64` since fix 8237c21, `uint32(·)` before -/
def keyOf (key64 : Bool) (v : UInt64) : UInt64 := if key64 then v else v &&& 0xffffffff

/-- the loop `for { value, err := f.readFullUint64(b); … }` (gcs.go:481-494); the map `values` is the list of
inserted keys. `fuel = 8·len(filterData) + 1`: every iteration but the last consumes a bit. -/
def decodeLoopC (key64 : Bool) (p : Nat) : (fuel : Nat) → BS → (lastValue : UInt64) → (values : List UInt64) →
    Except Fault (List UInt64 × BS)
  | 0, _, _, _ => .error .indexOOB
  | fuel+1, b, lastValue, values => do
    let (r, b) ← readFullC p b                                              -- gcs.go:484
    match r with
    | some value =>                                                         -- gcs.go:485  err == nil
      let lastValue := lastValue + value                                    -- gcs.go:486
      decodeLoopC key64 p fuel b lastValue (values ++ [keyOf key64 lastValue])  -- gcs.go:487-488
    | none => pure (values, b)                                              -- gcs.go:489-490  io.EOF: break

/-- what a run of `HashMatchAny` returns and costs -/
structure HashRun where
  answer : Bool
  /-- the size hint given to `make(map[uint64]struct{}, ·)` (gcs.go:474): room for that many entries is
  allocated before anything is decoded -/
  hint : Nat
  /-- number of insertions `values[lastValue] = struct{}{}` performed (gcs.go:487) -/
  stored : Nat
  /-- `ReadBit`/`ReadByte` calls -/
  ticks : Nat
  deriving DecidableEq, Repr

/-- `HashMatchAny`. `bound = false`: without the clamp of fix ccc0aee (gcs.go:469-471);
`key64 = false`: with the `uint32` map keys of before fix 8237c21.
(`uint64(len(filterData)) * 8` cannot wrap: a Go slice has fewer than 2^61 elements.) -/
def HashMatchAnyG (bound key64 : Bool) (sip : Bytes → UInt64) (f : Filter) (data : List Bytes) :
    Except Fault HashRun :=
  if data.length = 0 then pure ⟨false, 0, 0, 0⟩                             -- gcs.go:453
  else do
    let filterData ← BytesC f                                               -- gcs.go:458
    let b := newReader filterData                                           -- gcs.go:463
    let sizeHint := f.n                                                     -- gcs.go:468
    let maxValues := filterData.length * 8                                  -- gcs.go:469
    let sizeHint := if bound && decide (sizeHint > maxValues) then maxValues else sizeHint  -- gcs.go:469-471
    let (values, b) ← decodeLoopC key64 f.p (8 * filterData.length + 1) b 0 []  -- gcs.go:474-494
    let hit := data.any fun d =>                                            -- gcs.go:503-517
      values.contains (keyOf key64 (hashToRange sip f.modulusNP d))         -- gcs.go:506-512
    pure ⟨hit, sizeHint, values.length, b.ticks⟩

def HashMatchAnyRun := HashMatchAnyG true true

def HashMatchAnyC (sip : Bytes → UInt64) (f : Filter) (data : List Bytes) : Except Fault Bool := do
  let r ← HashMatchAnyRun sip f data
  pure r.answer

theorem decodeLoopC_spec (p : Nat) : ∀ (fuel : Nat) (b : BS) (last : UInt64) (acc : List UInt64), b.WF →
    b.bits.length < fuel →
    ∃ res, decodeLoopC true p fuel b last acc = .ok res ∧
      res.1 = acc ++ decodeAllR (readFullS p) fuel b.bits last ∧
      res.2.ticks ≤ b.ticks + b.bits.length + 1 := by
  intro fuel
  induction fuel with
  | zero => intro b last acc _ h; omega
  | succ fuel ih =>
    intro b last acc hw hf
    rw [decodeLoopC, decodeAllR]
    obtain ⟨res, e, hs⟩ := readFullC_spec p b hw
    rw [bind_of_ok e]
    obtain ⟨r, b1⟩ := res
    cases hm : readFullS p b.bits with
    | none =>
      rw [hm] at hs
      cases r with
      | some _ => simp [Sim] at hs
      | none => exact ⟨_, rfl, by simp, by simpa [Sim] using hs⟩
    | some u =>
      rw [hm] at hs
      obtain ⟨d, bs1⟩ := u
      have hl := readFullS_length p _ _ hm
      cases r with
      | none => simp [Sim] at hs
      | some d' =>
        simp only [Sim] at hs
        obtain ⟨rfl, hw1, hb1, ht1⟩ := hs
        simp only at hl ⊢
        obtain ⟨res, e2, h1, h2⟩ := ih b1 (last + d') (acc ++ [keyOf true (last + d')]) hw1 (by rw [hb1]; omega)
        rw [hb1] at h1 h2
        refine ⟨res, e2, ?_, by omega⟩
        rw [h1]; simp [keyOf]

theorem HashMatchAnyRun_spec (sip : Bytes → UInt64) (f : Filter) (data : List Bytes) :
    ∃ r, HashMatchAnyRun sip f data = .ok r ∧
      r.answer = (if data.isEmpty then false else
        data.any fun d => (decodeAllR (readFullS f.p) ((unpackBits f.data).length + 1) (unpackBits f.data) 0).contains
          (hashToRange sip f.modulusNP d)) ∧
      r.hint ≤ 8 * f.data.length ∧ r.stored ≤ 8 * f.data.length ∧ r.ticks ≤ 8 * f.data.length + 1 := by
  unfold HashMatchAnyRun HashMatchAnyG
  cases data with
  | nil => exact ⟨_, rfl, rfl, by simp, by simp, by simp⟩
  | cons d0 ds =>
    simp only [List.length_cons, Nat.succ_ne_zero, if_false, List.isEmpty_cons, Bool.false_eq_true]
    rw [bind_of_ok (BytesC_eq f)]
    obtain ⟨res, e, h1, h2⟩ := decodeLoopC_spec f.p (8 * f.data.length + 1) (newReader f.data) 0 []
      (newReader_WF _) (by rw [newReader_bits, Checked.unpackBits_length]; omega)
    rw [bind_of_ok e]
    obtain ⟨vals, b1⟩ := res
    rw [newReader_bits] at h1 h2
    simp only [List.nil_append] at h1
    subst h1
    rw [Checked.unpackBits_length] at h2 ⊢
    refine ⟨_, rfl, ?_, ?_, ?_, ?_⟩
    · simp [keyOf]
    · simp only [Bool.true_and]; split <;> simp_all <;> omega
    · simp only
      have : ∀ fuel bs last, (decodeAllR (readFullS f.p) fuel bs last).length ≤ bs.length := by
        intro fuel
        induction fuel with
        | zero => intro bs last; simp [decodeAllR]
        | succ fuel ih =>
          intro bs last
          rw [decodeAllR]
          cases hr : readFullS f.p bs with
          | none => simp
          | some r =>
            obtain ⟨delta, bs'⟩ := r
            have hl := readFullS_length f.p bs _ hr
            have := ih bs' (last + delta)
            simp only [List.length_cons] at hl ⊢
            omega
      have := this (8 * f.data.length + 1) (unpackBits f.data) 0
      rw [Checked.unpackBits_length] at this; exact this
    · simpa [newReader] using h2

theorem HashMatchAnyC_no_fault (sip : Bytes → UInt64) (f : Filter) (data : List Bytes) :
    ∃ r, HashMatchAnyC sip f data = .ok r := by
  obtain ⟨r, e, _⟩ := HashMatchAnyRun_spec sip f data
  unfold HashMatchAnyC
  rw [bind_of_ok e]
  exact ⟨_, rfl⟩

theorem HashMatchAnyC_eq_model (sip : Bytes → UInt64) (f : Filter) (data : List Bytes) (hp : f.p < 64) :
    HashMatchAnyC sip f data = .ok (HashMatchAny sip f data) := by
  obtain ⟨r, e, h1, _⟩ := HashMatchAnyRun_spec sip f data
  unfold HashMatchAnyC
  rw [bind_of_ok e, pure_eq_ok, h1, readFullS_eq_model _ hp, decodeAllR_model]
  rfl

/-! ### `ZipMatchAny` (gcs.go:362-443) over the byte-level reader, `MatchAny` (gcs.go:344-354) -/

/-- the outer loop (gcs.go:404-438); the inner loop is `Checked.zipAdvanceG` with its checked
`values[queryIndex]` -/
def zipLoopC (p : Nat) (values : List UInt64) : Nat → BS → UInt64 → Nat → Except Fault (Bool × BS)
  | 0, b, _, _ => pure (false, b)                                           -- gcs.go:442
  | n+1, b, value, qi => do
    let (r, b) ← readFullC p b                                              -- gcs.go:407
    match r with
    | none => pure (false, b)                                               -- gcs.go:408-411  io.EOF
    | some delta =>
      let value := value + delta                                            -- gcs.go:414
      let (r, qi) ← zipAdvanceG true values value (values.length - qi + 1) qi  -- gcs.go:416-437
      match r with
      | some r => pure (r, b)
      | none => zipLoopC p values n b value qi                              -- gcs.go:433  continue out

def ZipMatchAnyRun (sip : Bytes → UInt64) (f : Filter) (data : List Bytes) : Except Fault (Bool × BS) :=
  if data.length = 0 then pure (false, newReader [])                        -- gcs.go:364
  else do
    let filterData ← BytesC f                                               -- gcs.go:369
    let b := newReader filterData                                           -- gcs.go:374
    let values := sortU64 (data.map (hashToRange sip f.modulusNP))          -- gcs.go:377-392
    zipLoopC f.p values f.n b 0 0                                           -- gcs.go:394-442

def ZipMatchAnyC (sip : Bytes → UInt64) (f : Filter) (data : List Bytes) : Except Fault Bool := do
  let (r, _) ← ZipMatchAnyRun sip f data
  pure r

/-- `MatchAny`: `int(f.N()/2)` divides by the constant 2 -/
def MatchAnyC (sip : Bytes → UInt64) (f : Filter) (data : List Bytes) : Except Fault Bool := do
  let half ← div? f.n 2                                                     -- gcs.go:348  f.N()/2
  if data.length ≥ half then HashMatchAnyC sip f data                       -- gcs.go:348-349
  else ZipMatchAnyC sip f data                                              -- gcs.go:351-352

theorem zipLoopC_spec (p : Nat) (values : List UInt64) : ∀ (n : Nat) (b : BS) (v : UInt64) (qi : Nat), b.WF →
    qi ≤ values.length →
    ∃ res, zipLoopC p values n b v qi = .ok res ∧
      res.1 = zipLoopR (readFullS p) n b.bits v (values.drop qi) ∧
      res.2.ticks ≤ b.ticks + b.bits.length + 1 := by
  intro n
  induction n with
  | zero => intro b v qi _ _; exact ⟨_, rfl, rfl, by simp only; omega⟩
  | succ n ih =>
    intro b v qi hw hq
    rw [zipLoopC, zipLoopR]
    obtain ⟨res, e, hs⟩ := readFullC_spec p b hw
    rw [bind_of_ok e]
    obtain ⟨r, b1⟩ := res
    cases hm : readFullS p b.bits with
    | none =>
      rw [hm] at hs
      cases r with
      | some _ => simp [Sim] at hs
      | none => exact ⟨_, rfl, rfl, by simpa [Sim] using hs⟩
    | some u =>
      rw [hm] at hs
      obtain ⟨d, bs1⟩ := u
      cases r with
      | none => simp [Sim] at hs
      | some d' =>
        simp only [Sim] at hs
        obtain ⟨rfl, hw1, hb1, ht1⟩ := hs
        simp only
        obtain ⟨qi', _, hb, hc, hd⟩ := zipAdvanceC_eq values (v + d') (values.length - qi + 1) qi hq (by omega)
        rw [bind_of_ok hc]
        generalize hz : zipAdvance (v + d') (values.drop qi) = z at hd
        obtain ⟨r, rest⟩ := z
        cases r with
        | some r => exact ⟨_, rfl, rfl, by simp only; omega⟩
        | none =>
          simp only at hd ⊢
          obtain ⟨res, e2, h1, h2⟩ := ih b1 (v + d') qi' hw1 hb
          rw [hb1] at h1 h2
          exact ⟨res, e2, by rw [h1, hd], by omega⟩

theorem ZipMatchAnyRun_spec (sip : Bytes → UInt64) (f : Filter) (data : List Bytes) :
    ∃ res, ZipMatchAnyRun sip f data = .ok res ∧
      res.1 = (if data.isEmpty then false else
        zipLoopR (readFullS f.p) f.n (unpackBits f.data) 0 (sortU64 (data.map (hashToRange sip f.modulusNP)))) ∧
      res.2.ticks ≤ 8 * f.data.length + 1 := by
  unfold ZipMatchAnyRun
  cases data with
  | nil => exact ⟨_, rfl, rfl, by simp [newReader]⟩
  | cons d0 ds =>
    simp only [List.length_cons, Nat.succ_ne_zero, if_false, List.isEmpty_cons, Bool.false_eq_true]
    rw [bind_of_ok (BytesC_eq f)]
    obtain ⟨res, e, h1, h2⟩ := zipLoopC_spec f.p (sortU64 ((d0 :: ds).map (hashToRange sip f.modulusNP))) f.n
      (newReader f.data) 0 0 (newReader_WF _) (by omega)
    rw [newReader_bits] at h1 h2
    rw [Checked.unpackBits_length] at h2
    exact ⟨res, e, by simpa using h1, by simpa [newReader] using h2⟩

theorem ZipMatchAnyC_no_fault (sip : Bytes → UInt64) (f : Filter) (data : List Bytes) :
    ∃ r, ZipMatchAnyC sip f data = .ok r := by
  obtain ⟨res, e, _, _⟩ := ZipMatchAnyRun_spec sip f data
  unfold ZipMatchAnyC
  rw [bind_of_ok e]
  exact ⟨_, rfl⟩

theorem ZipMatchAnyC_eq_model (sip : Bytes → UInt64) (f : Filter) (data : List Bytes) (hp : f.p < 64) :
    ZipMatchAnyC sip f data = .ok (ZipMatchAny sip f data) := by
  obtain ⟨res, e, h1, _⟩ := ZipMatchAnyRun_spec sip f data
  unfold ZipMatchAnyC
  rw [bind_of_ok e]
  rw [readFullS_eq_model _ hp, zipLoopR_model] at h1
  obtain ⟨r, b⟩ := res
  simp only at h1
  subst h1; rfl

theorem MatchAnyC_no_fault (sip : Bytes → UInt64) (f : Filter) (data : List Bytes) :
    ∃ r, MatchAnyC sip f data = .ok r := by
  unfold MatchAnyC
  rw [bind_of_ok (div?_ok (by omega))]
  split
  · exact HashMatchAnyC_no_fault sip f data
  · exact ZipMatchAnyC_no_fault sip f data

theorem MatchAnyC_eq_model (sip : Bytes → UInt64) (f : Filter) (data : List Bytes) (hp : f.p < 64) :
    MatchAnyC sip f data = .ok (MatchAny sip f data) := by
  unfold MatchAnyC MatchAny
  rw [bind_of_ok (div?_ok (by omega))]
  split
  · exact HashMatchAnyC_eq_model sip f data hp
  · exact ZipMatchAnyC_eq_model sip f data hp

/-! ## 4. `FromBytes` (gcs.go:177-199) -/

def FromBytesC (N P : Nat) (M : UInt64) (d : Bytes) : Except Fault (Except BuildErr Filter) :=
  if P > 32 then pure (.error .pTooBig)                                     -- gcs.go:179-181
  else do
    let modulusNP := UInt64.ofNat N * M                                     -- gcs.go:192
    let filterData ← make? (d.length : Int) (0 : UInt8)                     -- gcs.go:195
    pure (.ok ⟨N, P, modulusNP, copyC filterData d⟩)                        -- gcs.go:196-198

theorem FromBytesC_eq_model (N P : Nat) (M : UInt64) (d : Bytes) :
    FromBytesC N P M d = .ok (FromBytes N P M d) := by
  unfold FromBytesC FromBytes
  split
  · rfl
  · rw [bind_of_ok (make?_ok (by omega) _)]
    simp only [Int.toNat_natCast, pure_eq_ok]
    rw [copyC_full _ _ (by simp)]

theorem FromBytesC_no_fault (N P : Nat) (M : UInt64) (d : Bytes) : ∃ r, FromBytesC N P M d = .ok r :=
  ⟨_, FromBytesC_eq_model N P M d⟩

/-- every filter `FromBytes` returns has `p ≤ 32` -/
theorem FromBytes_p_le (N P : Nat) (M : UInt64) (d : Bytes) (f : Filter) (h : FromBytes N P M d = .ok f) :
    f.p ≤ 32 := by
  unfold FromBytes at h
  split at h
  · cases h
  · simp only [Except.ok.injEq] at h; subst h; simp only; omega

/-! ## 5. `wire.ReadVarInt` over a `bytes.Buffer` (bchd wire/common.go:476-534) and `FromNBytes`
(gcs.go:203-213) -/

/-- `bytes.Buffer` as used for reading: backing slice and read offset -/
structure Buf where
  buf : Bytes
  off : Nat
  deriving DecidableEq, Repr

/-- `binarySerializer.Borrow()[:k]` (common.go:52-60 and 75/89/103/117): an 8-byte buffer (fresh, or recycled
with stale contents — `io.ReadFull` overwrites all `k` bytes before they are read), re-sliced -/
def borrowC (k : Nat) : Except Fault Bytes := do
  let buf ← slice? (List.replicate 8 (0 : UInt8)) 0 8                      -- common.go:59  buf[:8]
  slice? buf 0 k                                                            -- common.go:75  [:1] … :117  [:8]

/-- `io.ReadFull(r, p)` (io/io.go:353, `ReadAtLeast` :329-344) for `r` a `*bytes.Buffer` and `len(p) ≥ 1`.
`Buffer.Read` (bytes/buffer.go:318-334) reports `io.EOF` on a drained buffer, otherwise copies
`min(len(p), len(b.buf)-b.off)` bytes out of `b.buf[b.off:]`; if that was fewer than `len(p)` the next `Read`
finds the buffer drained. `none` = `io.EOF` / `io.ErrUnexpectedEOF`. -/
def readFullBufC (r : Buf) (p : Bytes) : Except Fault (Option Bytes × Buf) :=
  if r.buf.length ≤ r.off then pure (none, ⟨[], 0⟩)                         -- buffer.go:320-327  empty(): Reset
  else do
    let src ← slice? r.buf r.off r.buf.length                               -- buffer.go:328  b.buf[b.off:]
    let n := min p.length src.length                                        -- buffer.go:328  copy
    let r : Buf := ⟨r.buf, r.off + n⟩                                       -- buffer.go:329
    if n < p.length then pure (none, ⟨[], 0⟩)                               -- io.go:333-342: the next Read finds it drained (Reset, EOF)
    else pure (some (copyC p src), r)                                       -- io.go:338-339

/-- `binarySerializer.Uint8(r)` (common.go:74-83) -/
def uint8C (r : Buf) : Except Fault (Option UInt8 × Buf) := do
  let buf ← borrowC 1                                                       -- common.go:75
  let (got, r) ← readFullBufC r buf                                         -- common.go:76
  match got with
  | none => pure (none, r)                                                  -- common.go:77-78
  | some buf => do
    let rv ← idx? buf 0                                                     -- common.go:80  buf[0]
    pure (some rv, r)

/-- `binarySerializer.Uint16(r, littleEndian)` (common.go:88-97; encoding/binary/binary.go:68-71) -/
def uint16C (r : Buf) : Except Fault (Option Nat × Buf) := do
  let buf ← borrowC 2                                                       -- common.go:89
  let (got, r) ← readFullBufC r buf                                         -- common.go:90
  match got with
  | none => pure (none, r)
  | some b => do
    let _ ← idx? b 1                                                        -- binary.go:69  _ = b[1]
    let b0 ← idx? b 0
    let b1 ← idx? b 1
    pure (some (b0.toNat ||| b1.toNat <<< 8), r)                            -- binary.go:70

/-- `binarySerializer.Uint32(r, littleEndian)` (common.go:102-111; binary.go:86-89) -/
def uint32C (r : Buf) : Except Fault (Option Nat × Buf) := do
  let buf ← borrowC 4                                                       -- common.go:103
  let (got, r) ← readFullBufC r buf                                         -- common.go:104
  match got with
  | none => pure (none, r)
  | some b => do
    let _ ← idx? b 3                                                        -- binary.go:87  _ = b[3]
    let b0 ← idx? b 0
    let b1 ← idx? b 1
    let b2 ← idx? b 2
    let b3 ← idx? b 3
    pure (some (b0.toNat ||| b1.toNat <<< 8 ||| b2.toNat <<< 16 ||| b3.toNat <<< 24), r)  -- binary.go:88

/-- `binarySerializer.Uint64(r, littleEndian)` (common.go:116-125; binary.go:108-112) -/
def uint64C (r : Buf) : Except Fault (Option Nat × Buf) := do
  let buf ← borrowC 8                                                       -- common.go:117
  let (got, r) ← readFullBufC r buf                                         -- common.go:118
  match got with
  | none => pure (none, r)
  | some b => do
    let _ ← idx? b 7                                                        -- binary.go:109  _ = b[7]
    let b0 ← idx? b 0
    let b1 ← idx? b 1
    let b2 ← idx? b 2
    let b3 ← idx? b 3
    let b4 ← idx? b 4
    let b5 ← idx? b 5
    let b6 ← idx? b 6
    let b7 ← idx? b 7
    pure (some (b0.toNat ||| b1.toNat <<< 8 ||| b2.toNat <<< 16 ||| b3.toNat <<< 24 |||
      b4.toNat <<< 32 ||| b5.toNat <<< 40 ||| b6.toNat <<< 48 ||| b7.toNat <<< 56), r)  -- binary.go:110-111

/-- `wire.ReadVarInt(r, pver)` (common.go:476-534); `none` = any error (short read, non-canonical) -/
def readVarIntC (r : Buf) : Except Fault (Option Nat × Buf) := do
  let (d, r) ← uint8C r                                                     -- common.go:477
  match d with
  | none => pure (none, r)                                                  -- common.go:478-480
  | some discriminant =>
    if discriminant = 0xff then do                                          -- common.go:484
      let (sv, r) ← uint64C r                                               -- common.go:485
      match sv with
      | none => pure (none, r)
      | some rv => if rv < 0x100000000 then pure (none, r) else pure (some rv, r)  -- common.go:493-497
    else if discriminant = 0xfe then do                                     -- common.go:499
      let (sv, r) ← uint32C r                                               -- common.go:500
      match sv with
      | none => pure (none, r)
      | some rv => if rv < 0x10000 then pure (none, r) else pure (some rv, r)      -- common.go:508-512
    else if discriminant = 0xfd then do                                     -- common.go:514
      let (sv, r) ← uint16C r                                               -- common.go:515
      match sv with
      | none => pure (none, r)
      | some rv => if rv < 0xfd then pure (none, r) else pure (some rv, r)         -- common.go:523-527
    else pure (some discriminant.toNat, r)                                  -- common.go:529-530

/-- `FromNBytes` -/
def FromNBytesC (P : Nat) (M : UInt64) (d : Bytes) : Except Fault (Except FromErr Filter) := do
  let buffer : Buf := ⟨d, 0⟩                                                -- gcs.go:204  bytes.NewBuffer(d)
  let (r, buffer) ← readVarIntC buffer                                      -- gcs.go:205
  match r with
  | none => pure (.error .varint)                                           -- gcs.go:206-208
  | some N =>
    if N ≥ 2 ^ 32 then pure (.error .nTooBig)                               -- gcs.go:209-211
    else do
      let rest ← slice? buffer.buf buffer.off buffer.buf.length             -- gcs.go:212  buffer.Bytes() = b.buf[b.off:]
      match ← FromBytesC N P M rest with                                    -- gcs.go:212  uint32(N) = N
      | .ok f => pure (.ok f)
      | .error _ => pure (.error .pTooBig)

theorem borrowC_eq (k : Nat) (hk : k ≤ 8) : borrowC k = .ok (List.replicate k 0) := by
  unfold borrowC
  have h1 : slice? (List.replicate 8 (0 : UInt8)) 0 8 = .ok (List.replicate 8 0) := by decide
  rw [bind_of_ok h1, slice?_take (by simp; omega), List.take_replicate]
  congr 2; omega

/-- reading `k ≥ 1` bytes at offset `off ≤ len`: short → `none`; otherwise exactly the next `k` bytes -/
theorem readFullBufC_spec (buf : Bytes) (off k : Nat) (p : Bytes) (hp : p.length = k) (hk : 0 < k)
    (ho : off ≤ buf.length) :
    ∃ res, readFullBufC ⟨buf, off⟩ p = .ok res ∧
      (if (buf.drop off).length < k then res.1 = none
       else res.1 = some ((buf.drop off).take k) ∧ res.2 = ⟨buf, off + k⟩) := by
  unfold readFullBufC
  simp only
  by_cases he : buf.length ≤ off
  · simp only [he, if_true]
    refine ⟨_, rfl, ?_⟩
    rw [if_pos (by simp only [List.length_drop]; omega)]
  · simp only [he, if_false]
    rw [bind_of_ok (slice?_drop (by omega))]
    simp only [List.length_drop, hp]
    by_cases hs : buf.length - off < k
    · rw [show min k (buf.length - off) = buf.length - off by omega]
      simp only [hs, if_true]
      exact ⟨_, rfl, rfl⟩
    · rw [show min k (buf.length - off) = k by omega]
      simp only [hs, if_false, Nat.lt_irrefl]
      refine ⟨_, rfl, ?_, rfl⟩
      simp only [copyC, hp, List.length_drop, Option.some.injEq]
      rw [show min k (buf.length - off) = k by omega, List.drop_of_length_le (Nat.le_of_eq hp)]
      simp

theorem or_shl (s b k : Nat) (hs : s < 2 ^ k) : s ||| b <<< k = s + b * 2 ^ k := by
  rw [Nat.or_comm, ← Nat.shiftLeft_add_eq_or_of_lt hs, Nat.shiftLeft_eq]; omega

theorem le16 (b0 b1 : UInt8) : b0.toNat ||| b1.toNat <<< 8 = Bytes.toNatLE [b0, b1] := by
  have h0 := b0.toNat_lt; have h1 := b1.toNat_lt
  rw [or_shl _ _ 8 (by omega)]
  simp only [Bytes.toNatLE]; omega

theorem le32 (b0 b1 b2 b3 : UInt8) :
    b0.toNat ||| b1.toNat <<< 8 ||| b2.toNat <<< 16 ||| b3.toNat <<< 24 = Bytes.toNatLE [b0, b1, b2, b3] := by
  have h0 := b0.toNat_lt; have h1 := b1.toNat_lt; have h2 := b2.toNat_lt; have h3 := b3.toNat_lt
  rw [or_shl _ _ 8 (by omega), or_shl _ _ 16 (by omega), or_shl _ _ 24 (by omega)]
  simp only [Bytes.toNatLE]; omega

theorem le64 (b0 b1 b2 b3 b4 b5 b6 b7 : UInt8) :
    b0.toNat ||| b1.toNat <<< 8 ||| b2.toNat <<< 16 ||| b3.toNat <<< 24 |||
      b4.toNat <<< 32 ||| b5.toNat <<< 40 ||| b6.toNat <<< 48 ||| b7.toNat <<< 56
      = Bytes.toNatLE [b0, b1, b2, b3, b4, b5, b6, b7] := by
  have h0 := b0.toNat_lt; have h1 := b1.toNat_lt; have h2 := b2.toNat_lt; have h3 := b3.toNat_lt
  have h4 := b4.toNat_lt; have h5 := b5.toNat_lt; have h6 := b6.toNat_lt; have h7 := b7.toNat_lt
  rw [or_shl _ _ 8 (by omega), or_shl _ _ 16 (by omega), or_shl _ _ 24 (by omega), or_shl _ _ 32 (by omega),
    or_shl _ _ 40 (by omega), or_shl _ _ 48 (by omega), or_shl _ _ 56 (by omega)]
  simp only [Bytes.toNatLE]; omega

theorem list1 (l : Bytes) (h : l.length = 1) : ∃ b0, l = [b0] := by
  match l, h with
  | [b0], _ => exact ⟨_, rfl⟩
theorem list2 (l : Bytes) (h : l.length = 2) : ∃ b0 b1, l = [b0, b1] := by
  match l, h with
  | [b0, b1], _ => exact ⟨_, _, rfl⟩
theorem list4 (l : Bytes) (h : l.length = 4) : ∃ b0 b1 b2 b3, l = [b0, b1, b2, b3] := by
  match l, h with
  | [b0, b1, b2, b3], _ => exact ⟨_, _, _, _, rfl⟩
theorem list8 (l : Bytes) (h : l.length = 8) : ∃ b0 b1 b2 b3 b4 b5 b6 b7, l = [b0, b1, b2, b3, b4, b5, b6, b7] := by
  match l, h with
  | [b0, b1, b2, b3, b4, b5, b6, b7], _ => exact ⟨_, _, _, _, _, _, _, _, rfl⟩

/-- common shape of the four reader specs -/
def UintSpec {α : Type} (buf : Bytes) (off k : Nat) (val : Bytes → α) (res : Option α × Buf) : Prop :=
  if (buf.drop off).length < k then res.1 = none
  else res.1 = some (val ((buf.drop off).take k)) ∧ res.2 = ⟨buf, off + k⟩

theorem uint8C_spec (buf : Bytes) (off : Nat) (ho : off ≤ buf.length) :
    ∃ res, uint8C ⟨buf, off⟩ = .ok res ∧ UintSpec buf off 1 (fun l => l.headD 0) res := by
  unfold uint8C UintSpec
  rw [bind_of_ok (borrowC_eq 1 (by omega))]
  obtain ⟨res, e, h⟩ := readFullBufC_spec buf off 1 (List.replicate 1 0) (by simp) (by omega) ho
  rw [bind_of_ok e]
  obtain ⟨got, r⟩ := res
  split at h
  · rename_i hs
    simp only at h; subst h
    exact ⟨_, rfl, by rw [if_pos hs]⟩
  · rename_i hs
    simp only at h
    obtain ⟨rfl, rfl⟩ := h
    obtain ⟨b0, hb⟩ := list1 ((buf.drop off).take 1) (by rw [List.length_take]; omega)
    simp only [hb]
    exact ⟨_, rfl, by rw [if_neg hs]; exact ⟨rfl, rfl⟩⟩

theorem uint16C_spec (buf : Bytes) (off : Nat) (ho : off ≤ buf.length) :
    ∃ res, uint16C ⟨buf, off⟩ = .ok res ∧ UintSpec buf off 2 Bytes.toNatLE res := by
  unfold uint16C UintSpec
  rw [bind_of_ok (borrowC_eq 2 (by omega))]
  obtain ⟨res, e, h⟩ := readFullBufC_spec buf off 2 (List.replicate 2 0) (by simp) (by omega) ho
  rw [bind_of_ok e]
  obtain ⟨got, r⟩ := res
  split at h
  · rename_i hs
    simp only at h; subst h
    exact ⟨_, rfl, by rw [if_pos hs]⟩
  · rename_i hs
    simp only at h
    obtain ⟨rfl, rfl⟩ := h
    obtain ⟨b0, b1, hb⟩ := list2 ((buf.drop off).take 2) (by rw [List.length_take]; omega)
    simp only [hb]
    exact ⟨_, rfl, by rw [if_neg hs]; exact ⟨congrArg some (le16 b0 b1), rfl⟩⟩

theorem uint32C_spec (buf : Bytes) (off : Nat) (ho : off ≤ buf.length) :
    ∃ res, uint32C ⟨buf, off⟩ = .ok res ∧ UintSpec buf off 4 Bytes.toNatLE res := by
  unfold uint32C UintSpec
  rw [bind_of_ok (borrowC_eq 4 (by omega))]
  obtain ⟨res, e, h⟩ := readFullBufC_spec buf off 4 (List.replicate 4 0) (by simp) (by omega) ho
  rw [bind_of_ok e]
  obtain ⟨got, r⟩ := res
  split at h
  · rename_i hs
    simp only at h; subst h
    exact ⟨_, rfl, by rw [if_pos hs]⟩
  · rename_i hs
    simp only at h
    obtain ⟨rfl, rfl⟩ := h
    obtain ⟨b0, b1, b2, b3, hb⟩ := list4 ((buf.drop off).take 4) (by rw [List.length_take]; omega)
    simp only [hb]
    exact ⟨_, rfl, by rw [if_neg hs]; exact ⟨congrArg some (le32 b0 b1 b2 b3), rfl⟩⟩

theorem uint64C_spec (buf : Bytes) (off : Nat) (ho : off ≤ buf.length) :
    ∃ res, uint64C ⟨buf, off⟩ = .ok res ∧ UintSpec buf off 8 Bytes.toNatLE res := by
  unfold uint64C UintSpec
  rw [bind_of_ok (borrowC_eq 8 (by omega))]
  obtain ⟨res, e, h⟩ := readFullBufC_spec buf off 8 (List.replicate 8 0) (by simp) (by omega) ho
  rw [bind_of_ok e]
  obtain ⟨got, r⟩ := res
  split at h
  · rename_i hs
    simp only at h; subst h
    exact ⟨_, rfl, by rw [if_pos hs]⟩
  · rename_i hs
    simp only at h
    obtain ⟨rfl, rfl⟩ := h
    obtain ⟨b0, b1, b2, b3, b4, b5, b6, b7, hb⟩ := list8 ((buf.drop off).take 8) (by rw [List.length_take]; omega)
    simp only [hb]
    exact ⟨_, rfl, by rw [if_neg hs]; exact ⟨congrArg some (le64 b0 b1 b2 b3 b4 b5 b6 b7), rfl⟩⟩

/-- `wire.ReadVarInt` on `bytes.NewBuffer(d)` refines the model's `readVarInt`; on success the buffer's
unread part (`buffer.Bytes()`) is the model's remainder -/
theorem readVarIntC_spec (d : Bytes) :
    ∃ res, readVarIntC ⟨d, 0⟩ = .ok res ∧
      match readVarInt d with
      | none => res.1 = none
      | some (v, rest) => res.1 = some v ∧ res.2.buf = d ∧ res.2.off ≤ d.length ∧ d.drop res.2.off = rest := by
  unfold readVarIntC
  obtain ⟨res, e, h⟩ := uint8C_spec d 0 (by omega)
  rw [bind_of_ok e]
  obtain ⟨r, b⟩ := res
  unfold UintSpec at h
  cases d with
  | nil =>
    simp only [List.drop_nil, List.length_nil, Nat.lt_one_iff, if_true] at h
    subst h
    exact ⟨_, rfl, by simp [readVarInt]⟩
  | cons x rest =>
    simp only [List.drop_zero, List.length_cons, Nat.lt_one_iff, Nat.succ_ne_zero, if_false, List.take_succ_cons,
      List.take_zero, List.headD_cons] at h
    obtain ⟨rfl, rfl⟩ := h
    simp only [readVarInt]
    have hl : 0 + 1 ≤ (x :: rest).length := by simp
    by_cases hff : x = 0xff
    · subst hff
      simp only [if_true]
      obtain ⟨res, e, h⟩ := uint64C_spec (_ :: rest) (0 + 1) hl
      rw [bind_of_ok e]
      obtain ⟨r, b⟩ := res
      unfold UintSpec at h
      simp only [Nat.zero_add, List.drop_succ_cons, List.drop_zero] at h
      by_cases hs : rest.length < 8
      · rw [if_pos hs] at h; subst h
        simp only [hs, if_true]
        exact ⟨_, rfl, rfl⟩
      · rw [if_neg hs] at h
        obtain ⟨rfl, rfl⟩ := h
        simp only [hs, if_false]
        split
        · exact ⟨_, rfl, rfl⟩
        · exact ⟨_, rfl, rfl, rfl, by simp only [List.length_cons]; omega, by simp⟩
    · simp only [hff, if_false]
      by_cases hfe : x = 0xfe
      · subst hfe
        simp only [if_true]
        obtain ⟨res, e, h⟩ := uint32C_spec (_ :: rest) (0 + 1) hl
        rw [bind_of_ok e]
        obtain ⟨r, b⟩ := res
        unfold UintSpec at h
        simp only [Nat.zero_add, List.drop_succ_cons, List.drop_zero] at h
        by_cases hs : rest.length < 4
        · rw [if_pos hs] at h; subst h
          simp only [hs, if_true]
          exact ⟨_, rfl, rfl⟩
        · rw [if_neg hs] at h
          obtain ⟨rfl, rfl⟩ := h
          simp only [hs, if_false]
          split
          · exact ⟨_, rfl, rfl⟩
          · exact ⟨_, rfl, rfl, rfl, by simp only [List.length_cons]; omega, by simp⟩
      · simp only [hfe, if_false]
        by_cases hfd : x = 0xfd
        · subst hfd
          simp only [if_true]
          obtain ⟨res, e, h⟩ := uint16C_spec (_ :: rest) (0 + 1) hl
          rw [bind_of_ok e]
          obtain ⟨r, b⟩ := res
          unfold UintSpec at h
          simp only [Nat.zero_add, List.drop_succ_cons, List.drop_zero] at h
          by_cases hs : rest.length < 2
          · rw [if_pos hs] at h; subst h
            simp only [hs, if_true]
            exact ⟨_, rfl, rfl⟩
          · rw [if_neg hs] at h
            obtain ⟨rfl, rfl⟩ := h
            simp only [hs, if_false]
            split
            · exact ⟨_, rfl, rfl⟩
            · exact ⟨_, rfl, rfl, rfl, by simp only [List.length_cons]; omega, by simp⟩
        · simp only [hfd, if_false]
          exact ⟨_, rfl, rfl, rfl, by simp, by simp⟩

theorem FromNBytesC_eq_model (P : Nat) (M : UInt64) (d : Bytes) :
    FromNBytesC P M d = .ok (FromNBytes P M d) := by
  unfold FromNBytesC FromNBytes
  obtain ⟨res, e, h⟩ := readVarIntC_spec d
  simp only
  rw [bind_of_ok e]
  obtain ⟨r, b⟩ := res
  cases hm : readVarInt d with
  | none =>
    rw [hm] at h; simp only at h; subst h
    rfl
  | some u =>
    obtain ⟨v, rest⟩ := u
    rw [hm] at h; simp only at h
    obtain ⟨rfl, hb, ho, hr⟩ := h
    simp only
    split
    · rfl
    · obtain ⟨buf, off⟩ := b
      simp only at hb ho hr
      subst hb
      rw [bind_of_ok (slice?_drop ho), hr, bind_of_ok (FromBytesC_eq_model v P M rest)]
      cases FromBytes v P M rest <;> rfl

theorem FromNBytesC_no_fault (P : Nat) (M : UInt64) (d : Bytes) : ∃ r, FromNBytesC P M d = .ok r :=
  ⟨_, FromNBytesC_eq_model P M d⟩

/-- every filter `FromNBytes` returns has `p ≤ 32` and `n < 2^32` -/
theorem FromNBytes_fields (P : Nat) (M : UInt64) (d : Bytes) (f : Filter) (h : FromNBytes P M d = .ok f) :
    f.p ≤ 32 ∧ f.n < 2 ^ 32 := by
  unfold FromNBytes at h
  cases hm : readVarInt d with
  | none => rw [hm] at h; cases h
  | some u =>
    obtain ⟨v, rest⟩ := u
    rw [hm] at h
    simp only at h
    split at h
    · cases h
    · rename_i hv
      cases hf : FromBytes v P M rest with
      | error _ => rw [hf] at h; cases h
      | ok f' =>
        rw [hf] at h
        simp only [Except.ok.injEq] at h
        subst h
        refine ⟨FromBytes_p_le _ _ _ _ _ hf, ?_⟩
        unfold FromBytes at hf
        split at hf
        · cases hf
        · simp only [Except.ok.injEq] at hf; subst hf; simp only; omega

/-! ## 6. from the wire to the answer: no hypothesis left

`f.p < 64` in the `…_eq_model` theorems holds of every filter a constructor returns (`P > 32` is rejected,
gcs.go:101, 179), so for parsed filters the model is what the byte-level code computes, for every input. -/

theorem parsed_queries_eq_model (P : Nat) (M : UInt64) (d : Bytes) (f : Filter)
    (h : FromNBytesC P M d = .ok (.ok f)) (sip : Bytes → UInt64) (q : Bytes) (qs : List Bytes) :
    f.p ≤ 32 ∧ f.n < 2 ^ 32 ∧
    MatchC sip f q = .ok (Match sip f q) ∧
    HashMatchAnyC sip f qs = .ok (HashMatchAny sip f qs) ∧
    ZipMatchAnyC sip f qs = .ok (ZipMatchAny sip f qs) ∧
    MatchAnyC sip f qs = .ok (MatchAny sip f qs) := by
  rw [FromNBytesC_eq_model] at h
  simp only [Except.ok.injEq] at h
  obtain ⟨hp, hn⟩ := FromNBytes_fields P M d f h
  exact ⟨hp, hn, MatchC_eq_model sip f q (by omega), HashMatchAnyC_eq_model sip f qs (by omega),
    ZipMatchAnyC_eq_model sip f qs (by omega), MatchAnyC_eq_model sip f qs (by omega)⟩

theorem parsed_queries_eq_model' (N P : Nat) (M : UInt64) (d : Bytes) (f : Filter)
    (h : FromBytesC N P M d = .ok (.ok f)) (sip : Bytes → UInt64) (q : Bytes) (qs : List Bytes) :
    f.p ≤ 32 ∧
    MatchC sip f q = .ok (Match sip f q) ∧
    HashMatchAnyC sip f qs = .ok (HashMatchAny sip f qs) ∧
    ZipMatchAnyC sip f qs = .ok (ZipMatchAny sip f qs) ∧
    MatchAnyC sip f qs = .ok (MatchAny sip f qs) := by
  rw [FromBytesC_eq_model] at h
  simp only [Except.ok.injEq] at h
  have hp := FromBytes_p_le N P M d f h
  exact ⟨hp, MatchC_eq_model sip f q (by omega), HashMatchAnyC_eq_model sip f qs (by omega),
    ZipMatchAnyC_eq_model sip f qs (by omega), MatchAnyC_eq_model sip f qs (by omega)⟩

/-! ## 7. negative witnesses and concrete runs -/

/-- a toy keyed hash for the concrete instances (the one of `Props/C13.lean`) -/
def toySip (d : Bytes) : UInt64 := UInt64.ofNat (Bytes.toNatBE d) * 0x9E3779B97F4A7C15

/-- the six-byte input of defect report ccc0aee: CompactSize `fe ff ff ff ff` = 2^32-1, one filter byte -/
def bomb : Bytes := [0xfe, 0xff, 0xff, 0xff, 0xff, 0x00]

/-- the filter `FromNBytes(19, 784931, bomb)` returns -/
def bombFilter : Filter := ⟨2 ^ 32 - 1, 19, UInt64.ofNat (2 ^ 32 - 1) * 784931, [0]⟩

theorem bomb_parses : FromNBytesC 19 784931 bomb = .ok (.ok bombFilter) := by decide +kernel

/-- NEGATIVE (fix ccc0aee): sizing the table from `N` allocates room for 2^32-1 entries for that input … -/
theorem HashMatchAny_prefix_alloc :
    HashMatchAnyG false true toySip bombFilter [[1]] = .ok ⟨false, 2 ^ 32 - 1, 0, 2⟩ := by decide +kernel

/-- … the fixed code for 8, and it stores nothing (the one byte holds no complete value at `P = 19`) -/
theorem HashMatchAny_fixed_alloc :
    HashMatchAnyG true true toySip bombFilter [[1]] = .ok ⟨false, 8, 0, 2⟩ := by decide +kernel

/-- a one-element filter holding the value `2^32 + 5` (`P = 32`: quotient 1, remainder 5), modulus `2^63` -/
def wideFilter : Filter := ⟨1, 32, 0x8000000000000000, [0x80, 0, 0, 0x01, 0x40]⟩

/-- a "hash" sending every query to `10`, i.e. to `10·2^63 / 2^64 = 5` in the range of `wideFilter` -/
def tenSip : Bytes → UInt64 := fun _ => 10

/-- NEGATIVE (fix 8237c21): with `uint32` map keys the query hashing to `5` "matches" the member `2^32+5`;
the fixed code, the model and `Match` say no -/
theorem HashMatchAny_prefix_key32 :
    FromBytesC 1 32 0x8000000000000000 [0x80, 0, 0, 0x01, 0x40] = .ok (.ok wideFilter) ∧
    decodeAll 32 41 (unpackBits wideFilter.data) 0 = [4294967301] ∧
    hashToRange tenSip wideFilter.modulusNP [] = 5 ∧
    (HashMatchAnyG true false tenSip wideFilter [[]]).map (·.answer) = .ok true ∧
    HashMatchAnyC tenSip wideFilter [[]] = .ok false ∧
    HashMatchAny tenSip wideFilter [[]] = false ∧
    MatchC tenSip wideFilter [] = .ok false := by decide +kernel

/-- NEGATIVE (bstream.go:91): without the second emptiness test `ReadBit` indexes the empty slice when the
last byte has been used up (the state after eight `ReadBit`s on a one-byte stream) -/
theorem readBit_noGuard_fault : readBitG false ⟨[0], 0, 8⟩ = .error .indexOOB := by decide

theorem readBit_guard_eof : readBitG true ⟨[0], 0, 8⟩ = .ok (none, ⟨[], 0, 9⟩) := by decide

/-- the fuel is not slack: one unit less than the bits available and the unary loop is cut off (reported as
a fault), so `readFullC_spec` does show termination within `8·len + 1` iterations -/
theorem unaryLoop_fuel_needed :
    unaryLoopC 8 true (newReader [0xff]) 0 = .error .indexOOB ∧
    readFullC 3 (newReader [0xff]) = .ok (none, ⟨[], 0, 9⟩) := by decide

/-- There is NO division or modulo by a `P`- or `N`-derived quantity in gcs.go: the range reduction is the
multiply-shift `fastReduction` (gcs.go:54-74), Golomb coding uses `<<`/`>>`/`&` only, and the one division is
`f.N()/2` by a constant (gcs.go:348). For contrast, the textbook reduction `v % (N·M)` would divide by zero for
the `N = 0` filter that `FromNBytes` accepts; `fastReduction` returns 0 there. -/
theorem no_division_contrast (M : UInt64) (v : UInt64) (sip : Bytes → UInt64) (d : Bytes) :
    mod? v.toNat (UInt64.ofNat 0 * M).toNat = .error .divZero ∧
    hashToRange sip (UInt64.ofNat 0 * M) d = 0 ∧
    FromNBytesC 19 M [0] = .ok (.ok ⟨0, 19, UInt64.ofNat 0 * M, []⟩) := by
  have h0 : UInt64.ofNat 0 * M = 0 := by simp
  refine ⟨by rw [h0]; rfl, by rw [h0]; exact Gcs.hashToRange_zero sip d, ?_⟩
  rw [FromNBytesC_eq_model]
  simp [FromNBytes, readVarInt, FromBytes]

/-- the toy filter of C13 (`BuildGCSFilter toySip 3 5 [[1,2,3],[0xff],[7,7]]`, values 8, 11, 12) -/
theorem toy_build : BuildGCSFilter toySip 3 5 [[1, 2, 3], [0xff], [7, 7]] = .ok ⟨3, 3, 15, [129, 136]⟩ := by
  rw [Gcs.build_ok_iff]
  refine ⟨by decide, by decide, ?_⟩
  have hv : Gcs.valuesOf toySip 5 [[1, 2, 3], [0xff], [7, 7]] = [8, 11, 12] :=
    Gcs.sorted_eq_of_perm (Gcs.sortU64_sorted _) (by decide)
      ((Gcs.sortU64_perm _).trans (by decide))
  have he : encodeSorted 3 0 [8, 11, 12]
      = [true, false, false, false, false, false, false, true, true, false, false, false, true] := by
    decide
  rw [hv, he]
  simp [packBits, byteOfBits]

/-- build (model) → `NBytes` → `FromNBytesC` → `HashMatchAnyC` / `MatchC`: no fault, right answers, and the
run uses exactly `8·2 + 1` reader calls -/
theorem toy_pipeline :
    NBytes ⟨3, 3, 15, [129, 136]⟩ = [3, 129, 136] ∧
    FromNBytesC 3 5 [3, 129, 136] = .ok (.ok ⟨3, 3, 15, [129, 136]⟩) ∧
    HashMatchAnyRun toySip ⟨3, 3, 15, [129, 136]⟩ [[5], [7, 7]] = .ok ⟨true, 3, 3, 17⟩ ∧
    HashMatchAnyC toySip ⟨3, 3, 15, [129, 136]⟩ [[5]] = .ok false ∧
    MatchC toySip ⟨3, 3, 15, [129, 136]⟩ [0xff] = .ok true ∧
    MatchAnyC toySip ⟨3, 3, 15, [129, 136]⟩ [[5], [7, 7]] = .ok true := by decide +kernel

end Bch.Proofs.CheckedGcs
