import Bch.Prim.F64
/-
  Bit-field view of a binary64 pattern: sign / exponent / fraction fields as natural numbers, and the
  characterisation of the classification predicates and of `decodeAbs` in terms of them.
  Core Lean only.
-/
namespace Bch.Proofs.F64
open Bch.Prim.F64

def sgnF (a : UInt64) : Nat := a.toNat / 2^63
def expF (a : UInt64) : Nat := a.toNat / 2^52 % 2048
def fracF (a : UInt64) : Nat := a.toNat % 2^52

theorem toNat_fields (a : UInt64) :
    a.toNat = sgnF a * 2^63 + expF a * 2^52 + fracF a ∧ sgnF a < 2 ∧ expF a < 2048 ∧ fracF a < 2^52 := by
  have := a.toNat_lt
  unfold sgnF expF fracF
  omega

theorem expField_eq (a : UInt64) : ((a >>> 52) &&& 0x7FF).toNat = expF a := by
  rw [UInt64.toNat_and, UInt64.toNat_shiftRight]
  show a.toNat >>> 52 &&& 2^11 - 1 = _
  rw [Nat.and_two_pow_sub_one_eq_mod, Nat.shiftRight_eq_div_pow]
  rfl

theorem fracField_eq (a : UInt64) : (a &&& fracMask).toNat = fracF a := by
  rw [UInt64.toNat_and]
  show a.toNat &&& 2^52 - 1 = _
  rw [Nat.and_two_pow_sub_one_eq_mod]; rfl

theorem absField_eq (a : UInt64) : (a &&& absMask).toNat = a.toNat % 2^63 := by
  rw [UInt64.toNat_and]
  show a.toNat &&& 2^63 - 1 = _
  rw [Nat.and_two_pow_sub_one_eq_mod]

theorem expMask_eq (a : UInt64) : (a &&& expMask).toNat = expF a * 2^52 := by
  rw [UInt64.toNat_and]
  have h1 : (a.toNat &&& expMask.toNat) / 2^52 = a.toNat / 2^52 % 2^11 := by
    rw [Nat.and_div_two_pow]
    show a.toNat / 2^52 &&& 2^11 - 1 = _
    rw [Nat.and_two_pow_sub_one_eq_mod]
  have h2 : (a.toNat &&& expMask.toNat) % 2^52 = 0 := by
    rw [Nat.and_mod_two_pow]
    show a.toNat % 2^52 &&& 0 = 0
    simp
  unfold expF
  omega

theorem signMask_eq (a : UInt64) : (a &&& signMask).toNat = sgnF a * 2^63 := by
  rw [UInt64.toNat_and]
  have h1 : (a.toNat &&& signMask.toNat) / 2^63 = a.toNat / 2^63 % 2^1 := by
    rw [Nat.and_div_two_pow]
    show a.toNat / 2^63 &&& 2^1 - 1 = _
    rw [Nat.and_two_pow_sub_one_eq_mod]
  have h2 : (a.toNat &&& signMask.toNat) % 2^63 = 0 := by
    rw [Nat.and_mod_two_pow]
    show a.toNat % 2^63 &&& 0 = 0
    simp
  have := a.toNat_lt
  unfold sgnF
  omega

theorem u64_eq_iff (a b : UInt64) : a = b ↔ a.toNat = b.toNat := UInt64.toNat_inj.symm

theorem isFinite_iff (a : UInt64) : isFinite a = true ↔ expF a ≠ 2047 := by
  unfold isFinite
  rw [bne_iff_ne, Ne, u64_eq_iff, expMask_eq]
  have : expMask.toNat = 2047 * 2^52 := by decide
  omega

theorem isNaN_iff (a : UInt64) : isNaN a = true ↔ expF a = 2047 ∧ fracF a ≠ 0 := by
  unfold isNaN
  rw [Bool.and_eq_true, beq_iff_eq, bne_iff_ne, Ne, u64_eq_iff, u64_eq_iff, expMask_eq, fracField_eq]
  have : expMask.toNat = 2047 * 2^52 := by decide
  have : (0 : UInt64).toNat = 0 := by decide
  omega

theorem isInf_iff (a : UInt64) : isInf a = true ↔ expF a = 2047 ∧ fracF a = 0 := by
  unfold isInf
  rw [beq_iff_eq, u64_eq_iff, absField_eq]
  have : posInf.toNat = 2047 * 2^52 := by decide
  have := toNat_fields a
  omega

theorem isNeg_iff (a : UInt64) : isNeg a = true ↔ sgnF a = 1 := by
  unfold isNeg
  rw [bne_iff_ne, Ne, u64_eq_iff, signMask_eq]
  have : (0 : UInt64).toNat = 0 := by decide
  have := toNat_fields a
  omega

theorem isZero_iff (a : UInt64) : isZero a = true ↔ expF a = 0 ∧ fracF a = 0 := by
  unfold isZero
  rw [beq_iff_eq, u64_eq_iff, absField_eq]
  have : (0 : UInt64).toNat = 0 := by decide
  have := toNat_fields a
  omega

theorem decodeAbs_eq (a : UInt64) :
    decodeAbs a = if expF a = 0 then (fracF a, -1074) else (fracF a + 2^52, (expF a : Int) - 1075) := by
  unfold decodeAbs
  simp only [expField_eq, fracField_eq, beq_iff_eq]

theorem neg_toNat (a : UInt64) : (neg a).toNat = if a.toNat < 2^63 then a.toNat + 2^63 else a.toNat - 2^63 := by
  unfold neg
  rw [UInt64.toNat_xor]
  have h1 : (a.toNat ^^^ signMask.toNat) / 2^63 = a.toNat / 2^63 ^^^ 1 := by
    rw [Nat.xor_div_two_pow]; rfl
  have h2 : (a.toNat ^^^ signMask.toNat) % 2^63 = a.toNat % 2^63 := by
    rw [Nat.xor_mod_two_pow]
    show a.toNat % 2^63 ^^^ 0 = _
    simp
  have := a.toNat_lt
  have h3 : a.toNat / 2^63 = 0 ∨ a.toNat / 2^63 = 1 := by omega
  rcases h3 with h | h <;> rw [h] at h1 <;> simp at h1 <;> split <;> omega

theorem neg_fields (a : UInt64) :
    sgnF (neg a) = 1 - sgnF a ∧ expF (neg a) = expF a ∧ fracF (neg a) = fracF a := by
  have h := neg_toNat a
  have := a.toNat_lt
  unfold sgnF expF fracF
  split at h <;> rw [h] <;> omega

theorem neg_neg (a : UInt64) : neg (neg a) = a := by
  rw [u64_eq_iff, neg_toNat, neg_toNat]
  have := a.toNat_lt
  split <;> split <;> omega

theorem isFinite_neg (a : UInt64) : isFinite (neg a) = isFinite a := by
  rw [Bool.eq_iff_iff, isFinite_iff, isFinite_iff, (neg_fields a).2.1]

theorem isNaN_neg (a : UInt64) : isNaN (neg a) = isNaN a := by
  rw [Bool.eq_iff_iff, isNaN_iff, isNaN_iff, (neg_fields a).2.1, (neg_fields a).2.2]

theorem isInf_neg (a : UInt64) : isInf (neg a) = isInf a := by
  rw [Bool.eq_iff_iff, isInf_iff, isInf_iff, (neg_fields a).2.1, (neg_fields a).2.2]

theorem isZero_neg (a : UInt64) : isZero (neg a) = isZero a := by
  rw [Bool.eq_iff_iff, isZero_iff, isZero_iff, (neg_fields a).2.1, (neg_fields a).2.2]

theorem isNeg_neg (a : UInt64) : isNeg (neg a) = !isNeg a := by
  rw [Bool.eq_iff_iff, Bool.not_eq_true', ← Bool.not_eq_true, isNeg_iff, isNeg_iff, (neg_fields a).1]
  have := (toNat_fields a).2.1
  omega

theorem decodeAbs_neg (a : UInt64) : decodeAbs (neg a) = decodeAbs a := by
  rw [decodeAbs_eq, decodeAbs_eq, (neg_fields a).2.1, (neg_fields a).2.2]

/-- The fields of a pattern assembled as `s·2^63 + E·2^52 + mant` where `mant` may carry into the
exponent (`mant ≤ 2^53`) and is below `2^52` only for `E = 0`. -/
theorem fields_of_pack (x : UInt64) (s E mant : Nat) (_hs : s < 2)
    (hx : x.toNat = s * 2^63 + E * 2^52 + mant) (hm : mant ≤ 2^53)
    (hsub : mant < 2^52 → E = 0) (hfin : E * 2^52 + mant < 2047 * 2^52) :
    sgnF x = s ∧ expF x ≠ 2047 ∧
    ∃ m e' : Nat, decodeAbs x = (m, (e' : Int) - 1074) ∧ m * 2^e' = mant * 2^E ∧ m < 2^53 ∧
      (m % 2 = 0 ↔ x.toNat % 2 = 0) := by
  rw [decodeAbs_eq]
  unfold sgnF expF fracF
  by_cases h1 : mant < 2^52
  · have hE := hsub h1
    subst hE
    refine ⟨by omega, by omega, mant, 0, ?_, by simp, by omega, ?_⟩
    · rw [if_pos (by omega)]
      have : x.toNat % 2^52 = mant := by omega
      simp [this]
    · omega
  · by_cases h2 : mant = 2^53
    · subst h2
      refine ⟨by omega, by omega, 2^52, E + 1, ?_, by rw [Nat.pow_succ]; omega, by omega, ?_⟩
      · rw [if_neg (by omega)]
        have h3 : x.toNat % 2^52 = 0 := by omega
        have h4 : x.toNat / 2^52 % 2048 = E + 2 := by omega
        rw [h3, h4]; simp; omega
      · omega
    · refine ⟨by omega, by omega, mant, E, ?_, rfl, by omega, ?_⟩
      · rw [if_neg (by omega)]
        have h3 : x.toNat % 2^52 = mant - 2^52 := by omega
        have h4 : x.toNat / 2^52 % 2048 = E + 1 := by omega
        rw [h3, h4]; simp; omega
      · omega

end Bch.Proofs.F64
