import Bch.Generated.Facts
import Bch.Model.BloomAll
import Bch.Proofs.BloomTxInst
import Bch.Proofs.Locking
/-
Helper lemmas for the ten-operation instance of property C20 (`Bch/Props/C20All.lean`):
the sequential step `Bch.Model.BloomAll.step` over ALL ten exported methods of `bloom.Filter`
(the eight operations of C09 plus `MatchTxAndUpdate` and `MsgFilterLoad`).

Key fact (`step_fst_eq`): every operation that is not `Reload`/`Unload` changes the state by
folding `Bloom.add` over the list `insertsAt f op` of the items it inserts in state `f` — for
`MatchTxAndUpdate` the outpoints selected by the update flag (`updIdxs`, characterised by
`C10_update_mem`), via `matchTx_filter` of the C10 proofs.  Everything else (wire limit, monotone
bits, no false negatives) follows from the C09 lemmas about `add`.
-/
namespace Bch.Proofs.BloomAll
open Bch Bch.Model.BloomAll
open Bch.Model.Bloom (Msg Filter Matches add addOutPoint matchesOutPoint addMsg testBit outPointBytes)
open Bch.Model.BloomTx (Tx bloomOps matchTxAndUpdate)
open Bch.Proofs.Bloom (Lim Lim_none Lim_some Lim_add add_matches add_mono add_isSome)
open Bch.Proofs.BloomTx (updIdxs matchTx_filter)

/-! ### vocabulary -/

/-- state after a history -/
def run (f : Filter) (ops : List Op) : Filter := ops.foldl (fun f op => (step f op).1) f

/-- the values returned along a history (one entry per call) -/
def answers : Filter → List Op → List Result
  | _, [] => []
  | f, op :: ops => (step f op).2 :: answers (step f op).1 ops

/-- operations that replace the bit array (`Reload`, `Unload`) -/
def resets : Op → Bool
  | .reload _ => true
  | .unload => true
  | _ => false

def opOk : Op → Bool
  | .reload m => decide (m.bits.length ≤ 36000)
  | _ => true

/-- every reloaded message respects the wire limit (`MaxFilterLoadFilterSize`) -/
def WithinLimits (ops : List Op) : Bool := ops.all opOk

/-- the byte string a membership test asks for -/
def queries : Op → Option Bytes
  | .query d => some d
  | .queryOutPoint h i => some (outPointBytes h i)
  | _ => none

/-- the four read-only methods: `IsLoaded`, `Matches`, `MatchesOutPoint`, `MsgFilterLoad` -/
def isQuery : Op → Bool
  | .isLoaded => true
  | .query _ => true
  | .queryOutPoint _ _ => true
  | .msgFilterLoad => true
  | _ => false

/-- the items operation `op` inserts when it runs in state `f`: the argument of `Add`/`AddHash`,
the serialised outpoint of `AddOutPoint`, and for `MatchTxAndUpdate tx` the serialised outpoints
`(tx.id, i)` of the outputs `i ∈ updIdxs bloomOps f tx` — by `C10_update_mem` exactly the outputs
that are eligible under the update flag of `f` (1 = all, 2 = pay-to-pubkey/multisig only, else
none) and have a data push matching the filter at their turn.  Everything else inserts nothing. -/
def insertsAt (f : Filter) : Op → List Bytes
  | .add d => [d]
  | .addHash h => [h]
  | .addOutPoint h i => [outPointBytes h i]
  | .matchTx tx => (updIdxs bloomOps f tx).map (outPointBytes tx.id)
  | _ => []

/-- the two serialisations of an outpoint (C09 model / C10 model) are the same function -/
theorem outPointBytes_eq (h : Bytes) (i : Nat) :
    Bch.Model.BloomTx.outPointBytes h i = outPointBytes h i := rfl

/-! ### the step as a fold of `add` -/

/-- every operation except `Reload`/`Unload` folds `add` over the items it inserts -/
theorem step_fst_eq (f : Filter) (op : Op) (hr : resets op = false) :
    (step f op).1 = (insertsAt f op).foldl add f := by
  cases op with
  | reload m => simp [resets] at hr
  | unload => simp [resets] at hr
  | matchTx tx => exact matchTx_filter bloomOps f tx
  | _ => rfl

theorem step_reload (f : Filter) (m : Msg) : step f (.reload m) = (some m, .unit) := rfl
theorem step_unload (f : Filter) : step f .unload = (none, .unit) := rfl

/-- the read-only methods leave the state unchanged -/
theorem step_query_fst (f : Filter) (op : Op) (hq : isQuery op = true) : (step f op).1 = f := by
  cases op <;> simp [isQuery] at hq <;> rfl

theorem step_query_of_queries {f : Filter} {q : Op} {x : Bytes} (hq : queries q = some x) :
    step f q = (f, .bool (Matches f x)) := by
  cases q <;> simp [queries] at hq <;> subst hq <;> rfl

theorem isQuery_of_queries {q : Op} {x : Bytes} (hq : queries q = some x) : isQuery q = true := by
  cases q <;> simp [queries] at hq <;> rfl

theorem not_resets_of_mem {f : Filter} {op : Op} {x : Bytes} (hx : x ∈ insertsAt f op) :
    resets op = false := by
  cases op <;> simp [insertsAt] at hx <;> rfl

/-- the C09 model is the restriction of this one to its eight operations -/
theorem step_ofBloom (f : Filter) (op : Bch.Model.Bloom.Op) :
    step f (ofBloom op) = ((Bch.Model.Bloom.step f op).1, ofAnswer (Bch.Model.Bloom.step f op).2) := by
  cases op <;> rfl

theorem run_ofBloom (f : Filter) (ops : List Bch.Model.Bloom.Op) :
    run f (ops.map ofBloom) = Bch.Proofs.Bloom.run f ops := by
  induction ops generalizing f with
  | nil => rfl
  | cons op ops ih =>
    simp only [List.map_cons, run, List.foldl_cons, Bch.Proofs.Bloom.run] at ih ⊢
    rw [step_ofBloom]
    exact ih _

/-! ### folds of `add` -/

theorem Lim_foldl_add {f : Filter} (xs : List Bytes) (h : Lim f) : Lim (xs.foldl add f) := by
  induction xs generalizing f with
  | nil => exact h
  | cons x xs ih => exact ih (Lim_add x h)

theorem foldl_add_isSome (f : Filter) (xs : List Bytes) : (xs.foldl add f).isSome = f.isSome := by
  induction xs generalizing f with
  | nil => rfl
  | cons x xs ih => rw [List.foldl_cons, ih, add_isSome]

theorem foldl_add_mono (f : Filter) (xs : List Bytes) (y : Bytes) (hy : Matches f y = true) :
    Matches (xs.foldl add f) y = true := by
  induction xs generalizing f with
  | nil => exact hy
  | cons x xs ih => exact ih _ (add_mono f x y hy)

theorem foldl_add_mem (f : Filter) (xs : List Bytes) (x : Bytes) (hs : f.isSome = true)
    (hl : Lim f) (hx : x ∈ xs) : Matches (xs.foldl add f) x = true := by
  induction xs generalizing f with
  | nil => cases hx
  | cons y ys ih =>
    rw [List.foldl_cons]
    rcases List.mem_cons.1 hx with rfl | h
    · exact foldl_add_mono _ ys _ (add_matches f x hs hl)
    · exact ih _ ((add_isSome f y).trans hs) (Lim_add y hl) h

/-- insertions only set bits, and keep the length and the parameters -/
theorem foldl_addMsg_bits_mono (m : Msg) (xs : List Bytes) (k : Nat)
    (hk : testBit m.bits k = true) : testBit (xs.foldl addMsg m).bits k = true := by
  induction xs generalizing m with
  | nil => exact hk
  | cons x xs ih => exact ih _ (Bch.Proofs.Bloom.testBit_addMsg_mono m x k hk)

/-- what "only sets bits" means for two loaded states -/
def BitsLe (m m' : Msg) : Prop :=
  m'.nHash = m.nHash ∧ m'.tweak = m.tweak ∧ m'.flags = m.flags ∧
  m'.bits.length = m.bits.length ∧ ∀ k, testBit m.bits k = true → testBit m'.bits k = true

theorem foldl_add_bits_mono (m : Msg) (xs : List Bytes) :
    ∃ m', xs.foldl add (some m) = some m' ∧ BitsLe m m' :=
  ⟨xs.foldl addMsg m, Bch.Proofs.Bloom.foldl_add_some m xs,
    Bch.Proofs.Bloom.foldl_addMsg_nHash m xs, Bch.Proofs.Bloom.foldl_addMsg_tweak m xs,
    Bch.Proofs.Bloom.foldl_addMsg_flags m xs, Bch.Proofs.Bloom.foldl_addMsg_length m xs,
    fun k hk => foldl_addMsg_bits_mono m xs k hk⟩

/-- **`matchTxAndUpdate` only sets bits**: on a loaded filter the result is loaded, has the same
hash-function count, tweak, update flag and bit-array length, and every bit that was set is set. -/
theorem matchTxAndUpdate_bits_mono (m : Msg) (tx : Tx) :
    ∃ m', (matchTxAndUpdate bloomOps (some m) tx).1 = some m' ∧ BitsLe m m' := by
  rw [matchTx_filter]
  exact foldl_add_bits_mono m _

/-- on an unloaded filter `matchTxAndUpdate` inserts nothing and the filter stays unloaded -/
theorem matchTxAndUpdate_none (tx : Tx) : (matchTxAndUpdate bloomOps none tx).1 = none := by
  rw [matchTx_filter]
  exact Bch.Proofs.Bloom.foldl_add_none _

/-- every operation except `Reload`/`Unload` only sets bits of a loaded filter -/
theorem step_bits_mono (m : Msg) (op : Op) (hr : resets op = false) :
    ∃ m', (step (some m) op).1 = some m' ∧ BitsLe m m' := by
  rw [step_fst_eq _ _ hr]
  exact foldl_add_bits_mono m _

/-- an unloaded filter stays unloaded under every operation except `Reload` -/
theorem step_none (op : Op) (h : ∀ m, op ≠ .reload m) : (step none op).1 = none := by
  by_cases hr : resets op = true
  · cases op <;> simp [resets] at hr
    · exact absurd rfl (h _)
    · rfl
  · rw [step_fst_eq _ _ (by simpa using hr)]
    exact Bch.Proofs.Bloom.foldl_add_none _

/-! ### steps and histories -/

theorem run_nil (f : Filter) : run f [] = f := rfl
theorem run_cons (f : Filter) (op : Op) (ops : List Op) :
    run f (op :: ops) = run (step f op).1 ops := rfl
theorem run_append (f : Filter) (a b : List Op) : run f (a ++ b) = run (run f a) b := by
  simp [run, List.foldl_append]

theorem WithinLimits_append (a b : List Op) :
    WithinLimits (a ++ b) = (WithinLimits a && WithinLimits b) := by
  simp [WithinLimits, List.all_append]

theorem Lim_step {f : Filter} {op : Op} (hf : Lim f) (hop : opOk op = true) :
    Lim (step f op).1 := by
  by_cases hr : resets op = true
  · cases op <;> simp [resets] at hr
    · rw [step_reload]; rw [Lim_some]; simpa [opOk] using hop
    · exact Lim_none
  · rw [step_fst_eq _ _ (by simpa using hr)]
    exact Lim_foldl_add _ hf

theorem Lim_run {f : Filter} {ops : List Op} (hf : Lim f) (hops : WithinLimits ops = true) :
    Lim (run f ops) := by
  induction ops generalizing f with
  | nil => exact hf
  | cons op ops ih =>
    simp only [WithinLimits, List.all_cons, Bool.and_eq_true] at hops
    rw [run_cons]
    exact ih (Lim_step hf hops.1) (by simpa [WithinLimits] using hops.2)

/-- a step that is not a `Reload`/`Unload` keeps every positive answer -/
theorem step_mono {f : Filter} {op : Op} (hr : resets op = false) {y : Bytes}
    (hy : Matches f y = true) : Matches (step f op).1 y = true := by
  rw [step_fst_eq _ _ hr]
  exact foldl_add_mono f _ y hy

theorem run_mono {f : Filter} {ops : List Op} (hr : ∀ op ∈ ops, resets op = false) {y : Bytes}
    (hy : Matches f y = true) : Matches (run f ops) y = true := by
  induction ops generalizing f with
  | nil => exact hy
  | cons op ops ih =>
    rw [run_cons]
    exact ih (fun o ho => hr o (by simp [ho])) (step_mono (hr op (by simp)) hy)

/-- on a loaded filter within the wire limit everything an operation inserts is matched
afterwards -/
theorem step_inserts {f : Filter} {op : Op} {x : Bytes} (hs : f.isSome = true) (hl : Lim f)
    (hx : x ∈ insertsAt f op) : Matches (step f op).1 x = true := by
  rw [step_fst_eq _ _ (not_resets_of_mem hx)]
  exact foldl_add_mem f _ x hs hl hx

theorem BitsLe.refl (m : Msg) : BitsLe m m := ⟨rfl, rfl, rfl, rfl, fun _ h => h⟩

theorem BitsLe.trans {a b c : Msg} (h1 : BitsLe a b) (h2 : BitsLe b c) : BitsLe a c :=
  ⟨h2.1.trans h1.1, h2.2.1.trans h1.2.1, h2.2.2.1.trans h1.2.2.1, h2.2.2.2.1.trans h1.2.2.2.1,
    fun k hk => h2.2.2.2.2 k (h1.2.2.2.2 k hk)⟩

/-- a history without `Reload`/`Unload` only sets bits of a loaded filter -/
theorem run_bits_mono (m : Msg) (ops : List Op) (hr : ∀ op ∈ ops, resets op = false) :
    ∃ m', run (some m) ops = some m' ∧ BitsLe m m' := by
  induction ops generalizing m with
  | nil => exact ⟨m, rfl, BitsLe.refl m⟩
  | cons op ops ih =>
    obtain ⟨m1, e1, l1⟩ := step_bits_mono m op (hr op (by simp))
    obtain ⟨m2, e2, l2⟩ := ih m1 (fun o ho => hr o (by simp [ho]))
    exact ⟨m2, by rw [run_cons, e1, e2], l1.trans l2⟩

/-- positional form: insertion at some position, no `Reload`/`Unload` afterwards, test later -/
theorem query_after_insert (f0 : Filter) (pre mid : List Op) (ins q : Op) (x : Bytes)
    (hl : Lim f0) (hops : WithinLimits pre = true)
    (hloaded : (run f0 pre).isSome = true)
    (hins : x ∈ insertsAt (run f0 pre) ins) (hmid : ∀ op ∈ mid, resets op = false)
    (hq : queries q = some x) :
    (step (run f0 (pre ++ ins :: mid)) q).2 = .bool true := by
  rw [step_query_of_queries hq, run_append, run_cons]
  simp only [Result.bool.injEq]
  exact run_mono hmid (step_inserts hloaded (Lim_run hl hops) hins)

/-! ### ghost tracking of the inserted items -/

/-- state together with the items inserted (while loaded) since the last `Reload`/`Unload` -/
def track (s : Filter × List Bytes) (op : Op) : Filter × List Bytes :=
  ((step s.1 op).1,
    if resets op then [] else if s.1.isSome then insertsAt s.1 op ++ s.2 else s.2)

def inserted (f : Filter) (ops : List Op) : List Bytes := (ops.foldl track (f, [])).2

theorem foldl_track_fst (s : Filter × List Bytes) (ops : List Op) :
    (ops.foldl track s).1 = run s.1 ops := by
  induction ops generalizing s with
  | nil => rfl
  | cons op ops ih => rw [List.foldl_cons, ih, run_cons]; rfl

def Inv (s : Filter × List Bytes) : Prop := ∀ x ∈ s.2, Matches s.1 x = true

theorem Inv_track {s : Filter × List Bytes} {op : Op} (hl : Lim s.1) (hinv : Inv s) :
    Inv (track s op) := by
  intro x hx
  unfold track at hx ⊢
  by_cases hr : resets op = true
  · simp [hr] at hx
  · have hr' : resets op = false := by simpa using hr
    simp only [hr', Bool.false_eq_true, if_false] at hx
    by_cases hs : s.1.isSome = true
    · simp only [hs, if_true, List.mem_append] at hx
      rcases hx with hx | hx
      · exact step_inserts hs hl hx
      · exact step_mono hr' (hinv x hx)
    · simp only [hs, Bool.false_eq_true, if_false] at hx
      exact step_mono hr' (hinv x hx)

theorem Inv_foldl {s : Filter × List Bytes} {ops : List Op} (hl : Lim s.1)
    (hops : WithinLimits ops = true) (hinv : Inv s) : Inv (ops.foldl track s) := by
  induction ops generalizing s with
  | nil => exact hinv
  | cons op ops ih =>
    simp only [WithinLimits, List.all_cons, Bool.and_eq_true] at hops
    rw [List.foldl_cons]
    exact ih (Lim_step hl hops.1) (by simpa [WithinLimits] using hops.2) (Inv_track hl hinv)

theorem inserted_matched (f : Filter) (ops : List Op) (hl : Lim f)
    (hops : WithinLimits ops = true) : ∀ x ∈ inserted f ops, Matches (run f ops) x = true := by
  have h := Inv_foldl (s := (f, [])) hl hops (by intro x hx; cases hx)
  intro x hx
  have := h x hx
  rwa [foldl_track_fst] at this

/-- `inserted` really records the insertions (so `inserted_matched` is not vacuous) -/
theorem inserted_complete (f0 : Filter) (pre mid : List Op) (ins : Op) (x : Bytes)
    (hloaded : (run f0 pre).isSome = true) (hins : x ∈ insertsAt (run f0 pre) ins)
    (hmid : ∀ op ∈ mid, resets op = false) :
    x ∈ inserted f0 (pre ++ ins :: mid) := by
  unfold inserted
  rw [List.foldl_append, List.foldl_cons]
  have hst : x ∈ (track (List.foldl track (f0, []) pre) ins).2 := by
    simp only [track, not_resets_of_mem hins, foldl_track_fst, hloaded]
    simp [hins]
  generalize track (List.foldl track (f0, []) pre) ins = s at hst
  induction mid generalizing s with
  | nil => exact hst
  | cons op mid ih =>
    rw [List.foldl_cons]
    apply ih (fun o ho => hmid o (by simp [ho]))
    have hr : resets op = false := hmid op (by simp)
    simp only [track, hr]
    by_cases hs : s.1.isSome = true <;> simp [hs, hst]

/-! ### generic facts about `seqRun`, `lockInvs`, `pendingLock` -/

section Generic
open Bch.Proofs.Locking
variable {σ Op' Res : Type} {step' : σ → Op' → σ × Res}

theorem foldl_seqStep_log (s : σ) (log : List (Nat × Nat × Res)) (l : List (Nat × Nat × Op')) :
    l.foldl (seqStep step') (s, log) =
      ((l.foldl (seqStep step') (s, [])).1, log ++ (l.foldl (seqStep step') (s, [])).2) := by
  induction l generalizing s log with
  | nil => simp
  | cons x l ih =>
    rw [List.foldl_cons, List.foldl_cons]
    have e1 : seqStep step' (s, log) x
        = ((step' s x.2.2).1, log ++ [(x.1, x.2.1, (step' s x.2.2).2)]) := rfl
    have e2 : seqStep step' (s, []) x
        = ((step' s x.2.2).1, [] ++ [(x.1, x.2.1, (step' s x.2.2).2)]) := rfl
    rw [e1, e2, ih _ (log ++ _), ih _ ([] ++ _)]
    simp

theorem seqRun_append (s0 : σ) (a b : List (Nat × Nat × Op')) :
    seqRun step' s0 (a ++ b) =
      ((seqRun step' (seqRun step' s0 a).1 b).1,
        (seqRun step' s0 a).2 ++ (seqRun step' (seqRun step' s0 a).1 b).2) := by
  rw [seqRun_eq, List.foldl_append, ← seqRun_eq]
  have : seqRun step' s0 a = ((seqRun step' s0 a).1, (seqRun step' s0 a).2) := rfl
  rw [this, foldl_seqStep_log]
  rfl

theorem seqRun_cons (s0 : σ) (x : Nat × Nat × Op') (l : List (Nat × Nat × Op')) :
    seqRun step' s0 (x :: l) =
      ((seqRun step' (step' s0 x.2.2).1 l).1,
        (x.1, x.2.1, (step' s0 x.2.2).2) :: (seqRun step' (step' s0 x.2.2).1 l).2) := by
  have := seqRun_append (step' := step') s0 [x] l
  simpa [seqRun] using this

/-- two adjacent calls that do not change the state can be swapped: same final state, the two get
the same results, and all other calls get the same results in the same places -/
theorem seqRun_swap (s0 : σ) (pre post : List (Nat × Nat × Op')) (x y : Nat × Nat × Op')
    (hx : (step' (seqRun step' s0 pre).1 x.2.2).1 = (seqRun step' s0 pre).1)
    (hy : (step' (seqRun step' s0 pre).1 y.2.2).1 = (seqRun step' s0 pre).1) :
    (seqRun step' s0 (pre ++ x :: y :: post)).1 = (seqRun step' s0 (pre ++ y :: x :: post)).1 ∧
    (seqRun step' s0 (pre ++ x :: y :: post)).2 =
      (seqRun step' s0 pre).2 ++
        (x.1, x.2.1, (step' (seqRun step' s0 pre).1 x.2.2).2) ::
        (y.1, y.2.1, (step' (seqRun step' s0 pre).1 y.2.2).2) ::
        (seqRun step' (seqRun step' s0 pre).1 post).2 ∧
    (seqRun step' s0 (pre ++ y :: x :: post)).2 =
      (seqRun step' s0 pre).2 ++
        (y.1, y.2.1, (step' (seqRun step' s0 pre).1 y.2.2).2) ::
        (x.1, x.2.1, (step' (seqRun step' s0 pre).1 x.2.2).2) ::
        (seqRun step' (seqRun step' s0 pre).1 post).2 := by
  rw [seqRun_append, seqRun_append]
  generalize (seqRun step' s0 pre).1 = s at hx hy ⊢
  rw [seqRun_cons, seqRun_cons, seqRun_cons (x := y), seqRun_cons (x := x)]
  simp only [hx, hy]
  exact ⟨trivial, trivial, trivial⟩

theorem pendingLock_length_le (c : Config σ Op' Res) : (pendingLock c).length ≤ 1 := by
  unfold pendingLock
  cases c.holder with
  | none => simp
  | some t =>
    simp only
    cases (c.thr t).pend with
    | nil => simp
    | cons i r => simp only; split <;> simp

/-- one-section programs: a place in the list of `lock` events is the same place in the effect
order, unless it is the last `lock` event and its invocation has not yet performed its effect -/
theorem effInvs_of_lockInvs {c : Config σ Op' Res}
    (hl : lockInvs c.tr = effInvs c.tr ++ pendingLock c)
    (A post : List (Nat × Nat × Op')) (x : Nat × Nat × Op')
    (hsplit : lockInvs c.tr = A ++ x :: post) :
    (post = [] ∧ pendingLock c = [x] ∧ effInvs c.tr = A) ∨
      ∃ post', effInvs c.tr = A ++ x :: post' := by
  have hlen := pendingLock_length_le c
  rw [hl] at hsplit
  cases hp : pendingLock c with
  | nil =>
    rw [hp, List.append_nil] at hsplit
    exact Or.inr ⟨post, hsplit⟩
  | cons y r =>
    rw [hp] at hlen hsplit
    have hr : r = [] := by
      cases r with
      | nil => rfl
      | cons _ _ => simp at hlen
    subst hr
    rcases List.eq_nil_or_concat post with rfl | ⟨post', z, rfl⟩
    · have h2 : effInvs c.tr ++ [y] = A ++ [x] := hsplit
      have := List.append_inj' h2 rfl
      exact Or.inl ⟨rfl, by rw [List.cons.inj (this.2) |>.1], this.1⟩
    · have h2 : effInvs c.tr ++ [y] = (A ++ x :: post') ++ [z] := by
        rw [hsplit]; simp
      exact Or.inr ⟨post', (List.append_inj' h2 rfl).1⟩

end Generic

/-! ### calls of the real methods -/

open Bch.Proofs.Locking in
/-- the lock skeleton extracted from /repo/bloom/filter.go for the method `name` -/
def skelOf (name : String) : List Bch.Model.Locking.Act :=
  (Bch.Generated.bloomSkeletons.lookup name).getD []

open Bch.Proofs.Locking in
/-- a call of the exported method that operation `op` stands for: the EXTRACTED skeleton of that
method together with the sequential operation -/
def call (op : Op) : Invoc Op := ⟨skelOf (methodName op), op⟩

open Bch.Proofs.Locking in
/-- the program in which thread `t` issues the calls `T[t]` in order -/
def prog (T : List (List Op)) : List (List (Invoc Op)) := T.map (·.map call)

theorem call_mem_skeletons (op : Op) :
    (methodName op, (call op).sk) ∈ Bch.Generated.bloomSkeletons := by
  cases op <;> simp only [methodName, call] <;> decide

/-- the ten operations name ten different methods, and these are exactly the methods analysed -/
theorem methodNames_all :
    [Op.isLoaded, .reload ⟨[], 0, 0, 0⟩, .unload, .add [], .addHash [], .addOutPoint [] 0,
      .query [], .queryOutPoint [] 0, .matchTx ⟨[], [], []⟩, .msgFilterLoad].map methodName
      = ["IsLoaded", "Reload", "Unload", "Add", "AddHash", "AddOutPoint", "Matches",
         "MatchesOutPoint", "MatchTxAndUpdate", "MsgFilterLoad"] := rfl

/-! ### a tiny concrete instance (used by the non-vacuity examples of `Bch/Props/C20All.lean`) -/

namespace Ex
open Bch.Proofs.Locking

/-- the 2-byte, 3-hash-function filter of C09's examples, with update flag `BloomUpdateAll` -/
def msg : Msg := ⟨[0, 0], 3, 5, 1⟩
def item : Bytes := [1, 2, 3]
/-- a transaction with id `[9]` whose only output pushes `item` -/
def tx : Tx := ⟨[9], [⟨some [item], false⟩], []⟩
/-- the serialised outpoint (tx, 0) -/
def outp : Bytes := outPointBytes [9] 0

/-- thread 0: `Add item`; thread 1: `MatchTxAndUpdate tx`, `Matches item`, `MatchesOutPoint (tx, 0)` -/
def T : List (List Op) := [[.add item], [.matchTx tx, .query item, .queryOutPoint [9] 0]]

def init0 : Config Filter Op Result := init (prog T) (some msg)

/-- what we observe of a run: the recorded results and the invocations (thread, index) in the
    order of their `lock` events -/
def obs (s : List Nat) : Option (List (Nat × Nat × Result) × List (Nat × Nat)) :=
  (runSched step init0 s).map fun c => (c.res, (lockInvs c.tr).map (fun x => (x.1, x.2.1)))

/-- … the final filter and whether both threads have finished -/
def obsSt (s : List Nat) : Option (Filter × Bool) :=
  (runSched step init0 s).map fun c =>
    (c.st, (c.thr 0).pend.isEmpty && (c.thr 1).pend.isEmpty)

/-- interleaving A: `Add` takes the mutex first, then thread 1 runs its three calls -/
def schedA : List Nat := [0, 0, 0, 0, 1, 1, 1, 1, 1, 1, 1, 1, 1, 1, 1, 1]
/-- interleaving B: `MatchTxAndUpdate` first, then `Add`, then the two membership tests -/
def schedB : List Nat := [1, 1, 1, 1, 0, 0, 0, 0, 1, 1, 1, 1, 1, 1, 1, 1]
/-- interleaving C: like B, but `Add`'s `unlock`/`ret` overlap with thread 1 -/
def schedC : List Nat := [1, 1, 1, 0, 0, 1, 0, 1, 1, 0, 1, 1, 1, 1, 1, 1]

def cfgA : Config Filter Op Result := (runSched step init0 schedA).getD init0

theorem cfgA_reach : Reach step init0 cfgA := runSched_reach step Reach.refl schedA cfgA rfl

theorem cfgA_complete : Complete cfgA := by
  intro t
  match t with
  | 0 => rfl
  | 1 => rfl
  | n + 2 => rfl

/-- the side conditions of the trace-form theorem at the effect event(s) of invocation
    (`tid`, `inv`), as a decidable check over all trace positions -/
def effCheck (f0 : Filter) (tr : List (Event Op)) (tid inv p' : Nat) (x : Bytes) (op : Op) : Bool :=
  (List.range tr.length).all fun p =>
    match tr[p]? with
    | none => true
    | some a =>
      !(a.eff && a.tid == tid && a.inv == inv) ||
        ((run f0 ((effInvs (tr.take p)).map (·.2.2))).isSome &&
         decide (x ∈ insertsAt (run f0 ((effInvs (tr.take p)).map (·.2.2))) op) &&
         (effInvs ((tr.drop (p + 1)).take (p' - (p + 1)))).all (fun y => !resets y.2.2))

end Ex

end Bch.Proofs.BloomAll
