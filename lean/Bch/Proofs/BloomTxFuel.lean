import Bch.Proofs.BloomTxInst
import Bch.Model.Merkle
/-
C10, the fuel of the block-scan model discharged.

`checkFilterTx` (model of the recursive Go function of the same name) carries a `fuel` argument that
bounds the *recursion depth*; `Scan.outOfFuel` records that the bound was hit.  This file proves

1. `scan_oof_steps`: a scan that ran out of fuel performed at least `fuel` evaluations
   (every level of a recursion that reaches depth `fuel` evaluated one transaction);
2. `scan_fuel_mono`: a scan that did not run out of fuel is unchanged by more fuel;
3. `scan_version_cov`: the version bound `version ≤ number of outputs` from laws about a
   "covered" predicate (`cov f x` → inserting `x` changes nothing) instead of `test`; this variant
   has no "good filter" side condition;
4. the real bloom filter satisfies these laws with `cov f x := (add f x = f)` for *every* filter
   state (unloaded, empty, oversize): `setBit`s commute and are idempotent;
5. hence `bloom_scan_total`: for the real filter, fuel above `block.size * (outputs + 1)` never
   runs out, whatever the block (spend cycles included);
6. `newMerkleBlockIndices`: the index list the merkle-block builder returns.
-/
namespace Bch.Proofs.BloomTx
open Bch Bch.Model.BloomTx
open Bch.Model.Bloom (Msg addMsg matchesMsg setBit testBit hashIdx)

variable {F : Type}

/-! ## 1. Running out of fuel costs at least `fuel` evaluations -/

section oof
variable (O : FilterOps F) (same : F → F → Bool) (block : Array Tx) (inputs : Inputs)

theorem check_steps_mono (fuel i : Nat) (s : Scan F) :
    s.steps ≤ (checkFilterTx O same block inputs fuel i s).steps :=
  checkFilterTx_inv O same block inputs (fun s' => s.steps ≤ s'.steps) (fun _ => True)
    (fun _ _ _ => trivial) (fun _ h => h)
    (fun _ _ _ _ _ _ h => Nat.le_trans h (Nat.le_succ _)) fuel i s trivial (Nat.le_refl _)

/-- running out of fuel is sticky -/
theorem check_oof_sticky (fuel i : Nat) (s : Scan F) (h : s.outOfFuel = true) :
    (checkFilterTx O same block inputs fuel i s).outOfFuel = true :=
  checkFilterTx_inv O same block inputs (fun s' => s'.outOfFuel = true) (fun _ => True)
    (fun _ _ _ => trivial) (fun _ _ => rfl) (fun _ _ _ _ _ _ h => h) fuel i s trivial h

theorem check_oof_false (fuel i : Nat) (s : Scan F)
    (h : (checkFilterTx O same block inputs fuel i s).outOfFuel = false) : s.outOfFuel = false := by
  cases hs : s.outOfFuel with
  | false => rfl
  | true => rw [check_oof_sticky O same block inputs fuel i s hs] at h; cases h

theorem fold_steps_mono (fuel : Nat) (l : List Nat) (s : Scan F) :
    s.steps ≤ (l.foldl (fun s d => checkFilterTx O same block inputs fuel d s) s).steps :=
  foldl_inv (fun s' => s.steps ≤ s'.steps) _ l
    (fun a b _ h => Nat.le_trans h (check_steps_mono O same block inputs fuel b a)) s (Nat.le_refl _)

theorem fold_oof_false (fuel : Nat) (l : List Nat) (s : Scan F)
    (h : (l.foldl (fun s d => checkFilterTx O same block inputs fuel d s) s).outOfFuel = false) :
    s.outOfFuel = false := by
  cases hs : s.outOfFuel with
  | false => rfl
  | true =>
    have := foldl_inv (fun s' : Scan F => s'.outOfFuel = true)
      (fun s d => checkFilterTx O same block inputs fuel d s) l
      (fun a b _ h => check_oof_sticky O same block inputs fuel b a h) s hs
    rw [this] at h; cases h

theorem fold_oof_steps (fuel : Nat)
    (ih : ∀ (i : Nat) (s : Scan F), s.outOfFuel = false →
      (checkFilterTx O same block inputs fuel i s).outOfFuel = true →
      s.steps + fuel ≤ (checkFilterTx O same block inputs fuel i s).steps)
    (l : List Nat) (s : Scan F) (h0 : s.outOfFuel = false)
    (h1 : (l.foldl (fun s d => checkFilterTx O same block inputs fuel d s) s).outOfFuel = true) :
    s.steps + fuel ≤ (l.foldl (fun s d => checkFilterTx O same block inputs fuel d s) s).steps := by
  induction l generalizing s with
  | nil => rw [List.foldl_nil, h0] at h1; cases h1
  | cons d ds ihl =>
    rw [List.foldl_cons] at h1 ⊢
    cases hd : (checkFilterTx O same block inputs fuel d s).outOfFuel with
    | true =>
      exact Nat.le_trans (ih d s h0 hd) (fold_steps_mono O same block inputs fuel ds _)
    | false =>
      have h2 := ihl _ hd h1
      have h3 := check_steps_mono O same block inputs fuel d s
      omega

/-- a check that hits the depth bound `fuel` has evaluated at least `fuel` transactions: one per
    level of the recursion -/
theorem check_oof_steps : ∀ (fuel i : Nat) (s : Scan F), s.outOfFuel = false →
    (checkFilterTx O same block inputs fuel i s).outOfFuel = true →
    s.steps + fuel ≤ (checkFilterTx O same block inputs fuel i s).steps := by
  intro fuel
  induction fuel with
  | zero => intro i s _ _; exact Nat.le_refl _
  | succ fuel ih =>
    intro i s h0
    rw [checkFilterTx_succ]
    cases hb : block[i]? with
    | none => intro h1; rw [h0] at h1; cases h1
    | some tx =>
      dsimp only
      split
      · intro h1; rw [h0] at h1; cases h1
      · split
        · intro h1
          have := fold_oof_steps O same block inputs fuel ih _ (evalStep O same tx i s) h0 h1
          rw [evalStep_steps] at this
          omega
        · intro h1; rw [evalStep_outOfFuel, h0] at h1; cases h1

/-- **a scan that ran out of fuel performed at least `fuel` evaluations** -/
theorem scan_oof_steps (fuel : Nat) (f : F)
    (h : (GetMatchedIndices O same fuel block f).outOfFuel = true) :
    fuel ≤ (GetMatchedIndices O same fuel block f).steps :=
  scanLoop_simple block _ (fun s => s.outOfFuel = true → fuel ≤ s.steps)
    (fun inputs i s h h1 => by
      cases hs : s.outOfFuel with
      | true => exact Nat.le_trans (h hs) (check_steps_mono O same block inputs fuel i s)
      | false =>
        have := check_oof_steps O same block inputs fuel i s hs h1
        omega) _ (by intro h; cases h) h

/-! ## 2. More fuel changes nothing once the scan terminates -/

theorem fold_fuel_mono (fuel fuel' : Nat)
    (ih : ∀ (i : Nat) (s : Scan F), (checkFilterTx O same block inputs fuel i s).outOfFuel = false →
      checkFilterTx O same block inputs fuel' i s = checkFilterTx O same block inputs fuel i s)
    (l : List Nat) (s : Scan F)
    (h : (l.foldl (fun s d => checkFilterTx O same block inputs fuel d s) s).outOfFuel = false) :
    l.foldl (fun s d => checkFilterTx O same block inputs fuel' d s) s =
      l.foldl (fun s d => checkFilterTx O same block inputs fuel d s) s := by
  induction l generalizing s with
  | nil => rfl
  | cons d ds ihl =>
    rw [List.foldl_cons] at h
    rw [List.foldl_cons, List.foldl_cons, ih d s (fold_oof_false O same block inputs fuel ds _ h)]
    exact ihl _ h

theorem check_fuel_mono : ∀ (fuel fuel' i : Nat) (s : Scan F), fuel ≤ fuel' →
    (checkFilterTx O same block inputs fuel i s).outOfFuel = false →
    checkFilterTx O same block inputs fuel' i s = checkFilterTx O same block inputs fuel i s := by
  intro fuel
  induction fuel with
  | zero => intro fuel' i s _ h; rw [checkFilterTx_zero] at h; cases h
  | succ fuel ih =>
    intro fuel' i s hle
    obtain ⟨k, rfl⟩ : ∃ k, fuel' = k + 1 := ⟨fuel' - 1, by omega⟩
    rw [checkFilterTx_succ, checkFilterTx_succ]
    cases hb : block[i]? with
    | none => intro _; rfl
    | some tx =>
      dsimp only
      by_cases hc : s.checkedAt.lookup i = some s.version
      · rw [if_pos hc, if_pos hc]; intro _; rfl
      · rw [if_neg hc, if_neg hc]
        by_cases hm : (matchTxAndUpdate O s.filter tx).2 = true
        · rw [if_pos hm, if_pos hm]
          intro h
          exact fold_fuel_mono O same block inputs fuel k
            (fun j t ht => ih k j t (by omega) ht) _ _ h
        · rw [if_neg hm, if_neg hm]; intro _; rfl

end oof

theorem scanLoop_succ (check : Inputs → Nat → Scan F → Scan F) (block : Array Tx) (i n : Nat)
    (inputs : Inputs) (s : Scan F) :
    scanLoop check block i (n+1) inputs s =
      match block[i]? with
      | none => s
      | some tx =>
        scanLoop check block (i+1) n (inputs ++ tx.ins.map (fun inp => (inp.prevHash, i)))
          (check (inputs ++ tx.ins.map (fun inp => (inp.prevHash, i))) i s) := by
  rw [scanLoop]
  cases block[i]? <;> rfl

theorem scanLoop_oof_sticky (check : Inputs → Nat → Scan F → Scan F) (block : Array Tx)
    (hc : ∀ inputs i s, s.outOfFuel = true → (check inputs i s).outOfFuel = true) :
    ∀ (n i : Nat) (inputs : Inputs) (s : Scan F), s.outOfFuel = true →
      (scanLoop check block i n inputs s).outOfFuel = true := by
  intro n
  induction n with
  | zero => intro i inputs s h; rw [scanLoop]; exact h
  | succ n ih =>
    intro i inputs s h
    rw [scanLoop_succ]
    cases block[i]? with
    | none => exact h
    | some tx => exact ih _ _ _ (hc _ _ _ h)

theorem scanLoop_fuel_mono (O : FilterOps F) (same : F → F → Bool) (block : Array Tx)
    (fuel fuel' : Nat) (hle : fuel ≤ fuel') :
    ∀ (n i : Nat) (inputs : Inputs) (s : Scan F),
      (scanLoop (fun inputs i s => checkFilterTx O same block inputs fuel i s) block i n inputs s).outOfFuel = false →
      scanLoop (fun inputs i s => checkFilterTx O same block inputs fuel' i s) block i n inputs s =
        scanLoop (fun inputs i s => checkFilterTx O same block inputs fuel i s) block i n inputs s := by
  intro n
  induction n with
  | zero => intro i inputs s _; rw [scanLoop, scanLoop]
  | succ n ih =>
    intro i inputs s
    rw [scanLoop_succ, scanLoop_succ]
    cases block[i]? with
    | none => intro _; rfl
    | some tx =>
      dsimp only
      intro h
      have h1 : (checkFilterTx O same block (inputs ++ tx.ins.map (fun inp => (inp.prevHash, i))) fuel i s).outOfFuel
          = false := by
        cases hs : (checkFilterTx O same block (inputs ++ tx.ins.map (fun inp => (inp.prevHash, i))) fuel i s).outOfFuel with
        | false => rfl
        | true =>
          rw [scanLoop_oof_sticky _ block
            (fun inputs i s hs => check_oof_sticky O same block inputs fuel i s hs) _ _ _ _ hs] at h
          cases h
      rw [check_fuel_mono O same block _ fuel fuel' i s hle h1]
      exact ih _ _ _ h

/-- **fuel monotonicity**: a scan that did not run out of fuel returns the very same state
    (filter, matched list, steps, version, memo) with any larger fuel -/
theorem scan_fuel_mono (O : FilterOps F) (same : F → F → Bool) (block : Array Tx)
    (fuel fuel' : Nat) (hle : fuel ≤ fuel') (f : F)
    (h : (GetMatchedIndices O same fuel block f).outOfFuel = false) :
    GetMatchedIndices O same fuel' block f = GetMatchedIndices O same fuel block f :=
  scanLoop_fuel_mono O same block fuel fuel' hle _ _ _ _ h

/-! ## 3. The version bound from a "covered" predicate -/

/-- `cov f x`: inserting `x` into `f` changes nothing; preserved by insertions -/
structure CovLaws (O : FilterOps F) (cov : F → Bytes → Bool) : Prop where
  idem : ∀ f x, cov f x = true → O.add f x = f
  add_self : ∀ f x, cov (O.add f x) x = true
  mono : ∀ f x y, cov f y = true → cov (O.add f x) y = true

section cov
variable {O : FilterOps F} {cov : F → Bytes → Bool} (C : CovLaws O cov)
include C

theorem cov_addAll_mono (f : F) (xs : List Bytes) (y : Bytes) (h : cov f y = true) :
    cov (addAll O f xs) y = true := by
  induction xs generalizing f with
  | nil => exact h
  | cons x xs ih => rw [addAll_cons]; exact ih _ (C.mono f x y h)

theorem cov_addAll_of_mem (f : F) (xs : List Bytes) (x : Bytes) (hx : x ∈ xs) :
    cov (addAll O f xs) x = true := by
  induction xs generalizing f with
  | nil => cases hx
  | cons a xs ih =>
    rw [addAll_cons]
    rcases List.mem_cons.1 hx with rfl | hx
    · exact cov_addAll_mono C _ _ _ (C.add_self f x)
    · exact ih _ hx

theorem addAll_of_all_cov (f : F) (xs : List Bytes) (h : ∀ x ∈ xs, cov f x = true) :
    addAll O f xs = f := by
  induction xs with
  | nil => rfl
  | cons x xs ih =>
    rw [addAll_cons, C.idem f x (h x (by simp))]
    exact ih (fun y hy => h y (List.mem_cons_of_mem _ hy))

end cov

theorem insIdxs_range (O : FilterOps F) (id : Bytes) (outs : List TxOut) (idx : Nat) (f : F) (k : Nat)
    (h : k ∈ insIdxs O id outs idx f) : idx ≤ k ∧ k < idx + outs.length := by
  induction outs generalizing idx f with
  | nil => simp [insIdxs] at h
  | cons o os ih =>
    rw [insIdxs] at h
    split at h
    · rcases List.mem_cons.1 h with rfl | h
      · simp
      · have := ih _ _ h; simp only [List.length_cons]; omega
    · have := ih _ _ h; simp only [List.length_cons]; omega

theorem updIdxs_lt (O : FilterOps F) (f : F) (tx : Tx) (k : Nat) (h : k ∈ updIdxs O f tx) :
    k < tx.outs.length := by
  have := insIdxs_range O tx.id tx.outs 0 f k h
  omega

/-- number of block outpoints not yet covered -/
def unseenC (cov : F → Bytes → Bool) (block : Array Tx) (f : F) : Nat :=
  (allOutpoints block).countP (fun x => !cov f x)

def VersionInvC (cov : F → Bytes → Bool) (block : Array Tx) (s : Scan F) : Prop :=
  s.version + unseenC cov block s.filter ≤ totalOuts block

theorem versionInvC_evalStep {O : FilterOps F} {cov : F → Bytes → Bool} (C : CovLaws O cov)
    {same : F → F → Bool} (hrefl : ∀ f, same f f = true) {block : Array Tx} {s : Scan F}
    (h : VersionInvC cov block s) (i : Nat) (tx : Tx) (hb : block[i]? = some tx) :
    VersionInvC cov block (evalStep O same tx i s) := by
  unfold VersionInvC at h ⊢
  have hq : ∀ x, (!cov (matchTxAndUpdate O s.filter tx).1 x) = true → (!cov s.filter x) = true := by
    intro x hx
    cases h1 : cov s.filter x with
    | false => rfl
    | true =>
      have := cov_addAll_mono C s.filter ((updIdxs O s.filter tx).map (outPointBytes tx.id)) x h1
      rw [← matchTx_filter] at this
      simp [this] at hx
  have hmono : unseenC cov block (matchTxAndUpdate O s.filter tx).1 ≤ unseenC cov block s.filter :=
    List.countP_mono_left (fun x _ => hq x)
  rw [evalStep_filter, evalStep_version]
  by_cases hsame : same s.filter (matchTxAndUpdate O s.filter tx).1 = true
  · rw [if_pos hsame]; omega
  · rw [if_neg hsame]
    have hex : ∃ idx ∈ updIdxs O s.filter tx, cov s.filter (outPointBytes tx.id idx) = false := by
      apply Classical.byContradiction
      intro hno
      have hall : ∀ x ∈ (updIdxs O s.filter tx).map (outPointBytes tx.id), cov s.filter x = true := by
        intro x hx
        obtain ⟨idx, hidx, rfl⟩ := List.mem_map.1 hx
        cases h1 : cov s.filter (outPointBytes tx.id idx) with
        | true => rfl
        | false => exact absurd ⟨idx, hidx, h1⟩ hno
      have := addAll_of_all_cov C s.filter _ hall
      rw [matchTx_filter, this, hrefl] at hsame
      exact hsame rfl
    obtain ⟨idx, hidx, hun⟩ := hex
    have hlt : unseenC cov block (matchTxAndUpdate O s.filter tx).1 < unseenC cov block s.filter := by
      unfold unseenC
      refine countP_lt_of (x0 := outPointBytes tx.id idx) hq ?_ (by simp [hun]) ?_
      · unfold allOutpoints
        refine List.mem_flatMap.2 ⟨tx, ?_, List.mem_map.2 ⟨idx, List.mem_range.2 ?_, rfl⟩⟩
        · exact Array.mem_toList_iff.2 (Array.mem_of_getElem? hb)
        · exact updIdxs_lt O _ _ _ hidx
      · have : cov (matchTxAndUpdate O s.filter tx).1 (outPointBytes tx.id idx) = true := by
          rw [matchTx_filter]
          exact cov_addAll_of_mem C _ _ _ (List.mem_map_of_mem hidx)
        simp [this]
    omega

/-- **version bound, every filter state**: the filter changes at most once per output of the block -/
theorem scan_version_cov {O : FilterOps F} {cov : F → Bytes → Bool} (C : CovLaws O cov)
    (same : F → F → Bool) (hrefl : ∀ f, same f f = true) (fuel : Nat) (block : Array Tx) (f : F) :
    (GetMatchedIndices O same fuel block f).version ≤ totalOuts block := by
  have h : VersionInvC cov block (GetMatchedIndices O same fuel block f) :=
    scanLoop_simple block _ (VersionInvC cov block)
      (fun inputs i s h => checkFilterTx_inv O same block inputs (VersionInvC cov block) (fun _ => True)
        (fun _ _ _ => trivial) (fun _ h => h)
        (fun _ j tx _ hb _ h => versionInvC_evalStep C hrefl h j tx hb) fuel i s trivial h) _
      (by
        show 0 + unseenC cov block f ≤ totalOuts block
        unfold unseenC
        have := List.countP_le_length (p := fun x => !cov f x) (l := allOutpoints block)
        rw [length_allOutpoints] at this
        omega)
  unfold VersionInvC at h
  omega

/-- **termination from the laws**: with fuel above `block.size * (outputs + 1)` the scan does not run
    out of fuel -/
theorem scan_total_cov {O : FilterOps F} {cov : F → Bytes → Bool} (C : CovLaws O cov)
    (same : F → F → Bool) (hrefl : ∀ f, same f f = true) (fuel : Nat) (block : Array Tx) (f : F)
    (hfuel : block.size * (totalOuts block + 1) < fuel) :
    (GetMatchedIndices O same fuel block f).outOfFuel = false := by
  cases h : (GetMatchedIndices O same fuel block f).outOfFuel with
  | false => rfl
  | true =>
    have h1 := scan_oof_steps O same block fuel f h
    have h2 := scan_steps (O := O) same fuel block f
    have h3 := scan_version_cov C same hrefl fuel block f
    have h4 : block.size * ((GetMatchedIndices O same fuel block f).version + 1) ≤
        block.size * (totalOuts block + 1) := Nat.mul_le_mul_left _ (by omega)
    omega

/-! ## 4. The real filter: `setBit`s commute and are idempotent, for every bit array -/

theorem modify_or_comm (l : Bytes) (p q : Nat) (a b : UInt8) :
    (l.modify p (· ||| a)).modify q (· ||| b) = (l.modify q (· ||| b)).modify p (· ||| a) := by
  apply List.ext_getElem?
  intro k
  simp only [List.getElem?_modify]
  cases l[k]? with
  | none => rfl
  | some x =>
    by_cases hp : p = k <;> by_cases hq : q = k <;>
      simp [hp, hq, UInt8.or_assoc, UInt8.or_comm a b]

theorem modify_or_idem (l : Bytes) (p : Nat) (a : UInt8) :
    (l.modify p (· ||| a)).modify p (· ||| a) = l.modify p (· ||| a) := by
  apply List.ext_getElem?
  intro k
  simp only [List.getElem?_modify]
  cases l[k]? with
  | none => rfl
  | some x => by_cases hp : p = k <;> simp [hp, UInt8.or_assoc]

theorem setBit_comm (bits : Bytes) (i j : Nat) :
    setBit (setBit bits i) j = setBit (setBit bits j) i := by
  simp only [Bch.Proofs.Bloom.setBit_eq]
  exact modify_or_comm _ _ _ _ _

theorem setBit_idem (bits : Bytes) (i : Nat) : setBit (setBit bits i) i = setBit bits i := by
  simp only [Bch.Proofs.Bloom.setBit_eq]
  exact modify_or_idem _ _ _

theorem foldl_setBit_comm1 (g : Nat → Nat) (l : List Nat) (bits : Bytes) (k : Nat) :
    l.foldl (fun b i => setBit b (g i)) (setBit bits k) =
      setBit (l.foldl (fun b i => setBit b (g i)) bits) k := by
  induction l generalizing bits with
  | nil => rfl
  | cons a l ih => rw [List.foldl_cons, List.foldl_cons, setBit_comm, ih]

theorem foldl_setBit_comm (g g' : Nat → Nat) (l l' : List Nat) (bits : Bytes) :
    l'.foldl (fun b i => setBit b (g' i)) (l.foldl (fun b i => setBit b (g i)) bits) =
      l.foldl (fun b i => setBit b (g i)) (l'.foldl (fun b i => setBit b (g' i)) bits) := by
  induction l' generalizing bits with
  | nil => rfl
  | cons a l' ih => rw [List.foldl_cons, List.foldl_cons, ← foldl_setBit_comm1, ih]

theorem foldl_setBit_idem (g : Nat → Nat) (l : List Nat) (bits : Bytes) :
    l.foldl (fun b i => setBit b (g i)) (l.foldl (fun b i => setBit b (g i)) bits) =
      l.foldl (fun b i => setBit b (g i)) bits := by
  induction l generalizing bits with
  | nil => rfl
  | cons a l ih =>
    rw [List.foldl_cons, List.foldl_cons, ← foldl_setBit_comm1, setBit_idem, ih]

theorem addMsg_of_ne (m : Msg) (x : Bytes) (h : m.bits ≠ []) :
    addMsg m x =
      { m with bits := (List.range m.nHash).foldl (fun bits i => setBit bits (hashIdx m i x)) m.bits } := by
  unfold addMsg
  rw [if_neg (by simp [Bch.Proofs.Bloom.isEmpty_false_of_ne h])]

/-- insertions into the real filter commute — every filter, no size limit -/
theorem addMsg_comm (m : Msg) (x y : Bytes) : addMsg (addMsg m x) y = addMsg (addMsg m y) x := by
  by_cases h0 : m.bits = []
  · rw [Bch.Proofs.Bloom.addMsg_of_empty m x h0, Bch.Proofs.Bloom.addMsg_of_empty m y h0,
      Bch.Proofs.Bloom.addMsg_of_empty m x h0]
  · rw [addMsg_of_ne _ y (Bch.Proofs.Bloom.addMsg_bits_ne m x h0),
      addMsg_of_ne _ x (Bch.Proofs.Bloom.addMsg_bits_ne m y h0)]
    simp only [Bch.Proofs.Bloom.hashIdx_addMsg, Bch.Proofs.Bloom.addMsg_nHash]
    rw [addMsg_of_ne m x h0, addMsg_of_ne m y h0]
    simp only
    rw [foldl_setBit_comm]

/-- inserting twice is inserting once -/
theorem addMsg_idem (m : Msg) (x : Bytes) : addMsg (addMsg m x) x = addMsg m x := by
  by_cases h0 : m.bits = []
  · rw [Bch.Proofs.Bloom.addMsg_of_empty m x h0, Bch.Proofs.Bloom.addMsg_of_empty m x h0]
  · rw [addMsg_of_ne _ x (Bch.Proofs.Bloom.addMsg_bits_ne m x h0)]
    simp only [Bch.Proofs.Bloom.hashIdx_addMsg, Bch.Proofs.Bloom.addMsg_nHash]
    rw [addMsg_of_ne m x h0]
    simp only
    rw [foldl_setBit_idem]

theorem bloom_add_comm (f : Bch.Model.Bloom.Filter) (x y : Bytes) :
    Bch.Model.Bloom.add (Bch.Model.Bloom.add f x) y = Bch.Model.Bloom.add (Bch.Model.Bloom.add f y) x := by
  cases f with
  | none => simp [Bch.Model.Bloom.add]
  | some m => exact congrArg some (addMsg_comm m x y)

theorem bloom_add_add (f : Bch.Model.Bloom.Filter) (x : Bytes) :
    Bch.Model.Bloom.add (Bch.Model.Bloom.add f x) x = Bch.Model.Bloom.add f x := by
  cases f with
  | none => simp [Bch.Model.Bloom.add]
  | some m => exact congrArg some (addMsg_idem m x)

/-- `x` is covered by `f`: inserting it changes nothing (decidable: `Msg` has decidable equality) -/
def bloomCov (f : Bch.Model.Bloom.Filter) (x : Bytes) : Bool := decide (Bch.Model.Bloom.add f x = f)

/-- the covered-laws hold for the real filter in **every** state (unloaded, empty, above the wire
    limit, above 2^29 bytes where `uint32(len) << 3` wraps) -/
theorem bloom_covLaws : CovLaws bloomOps bloomCov where
  idem f x h := of_decide_eq_true h
  add_self f x := decide_eq_true (bloom_add_add f x)
  mono f x y h := by
    have hy : Bch.Model.Bloom.add f y = f := of_decide_eq_true h
    apply decide_eq_true
    show Bch.Model.Bloom.add (Bch.Model.Bloom.add f x) y = Bch.Model.Bloom.add f x
    rw [bloom_add_comm, hy]

/-! ## 5. The real filter never runs out of fuel above the polynomial bound -/

theorem bloom_scan_total (fuel : Nat) (block : Array Tx) (f : Bch.Model.Bloom.Filter)
    (hfuel : block.size * (totalOuts block + 1) < fuel) :
    (GetMatchedIndices bloomOps bloomSame fuel block f).outOfFuel = false :=
  scan_total_cov bloom_covLaws bloomSame bloomSame_refl fuel block f hfuel

theorem bloom_scan_version (fuel : Nat) (block : Array Tx) (f : Bch.Model.Bloom.Filter) :
    (GetMatchedIndices bloomOps bloomSame fuel block f).version ≤ totalOuts block :=
  scan_version_cov bloom_covLaws bloomSame bloomSame_refl fuel block f


/-! ## 6. The index list of the merkle-block builders -/

/-- second result of `NewMerkleBlock`: the builder walks the block in order and emits position `i`
    exactly when `matchedMap[i]` (the scan's result) is set -/
def newMerkleBlockIndices (O : FilterOps F) (same : F → F → Bool) (fuel : Nat) (block : Array Tx)
    (f : F) : List Nat :=
  (List.range block.size).filter (fun i => (GetMatchedIndices O same fuel block f).matched.contains i)

theorem markMatched_nodup (l : List Nat) (i : Nat) (h : l.Nodup) : (markMatched l i).Nodup := by
  unfold markMatched
  split
  · exact h
  · rename_i hc
    exact List.nodup_cons.2 ⟨by simpa using hc, h⟩

/-- the matched list never holds an index twice (it models a Go `map[int]bool`) -/
theorem scan_matched_nodup (O : FilterOps F) (same : F → F → Bool) (fuel : Nat) (block : Array Tx) (f : F) :
    (GetMatchedIndices O same fuel block f).matched.Nodup :=
  scanLoop_simple block _ (fun s => s.matched.Nodup)
    (fun inputs i s h => checkFilterTx_inv O same block inputs (fun s => s.matched.Nodup) (fun _ => True)
      (fun _ _ _ => trivial) (fun _ h => h)
      (fun s j tx _ _ _ h => by
        rw [evalStep_matched]
        split
        · exact markMatched_nodup _ _ h
        · exact h) fuel i s trivial h) _ List.nodup_nil

/-- every matched index is a position of the block (no filter law needed) -/
theorem scan_matched_lt (O : FilterOps F) (same : F → F → Bool) (fuel : Nat) (block : Array Tx) (f : F) :
    ∀ i ∈ (GetMatchedIndices O same fuel block f).matched, i < block.size :=
  scanLoop_simple block _ (fun s => ∀ i ∈ s.matched, i < block.size)
    (fun inputs i s h => checkFilterTx_inv O same block inputs (fun s => ∀ i ∈ s.matched, i < block.size)
      (fun _ => True) (fun _ _ _ => trivial) (fun _ h => h)
      (fun s j tx _ hb _ h k hk => by
        rw [evalStep_matched] at hk
        split at hk
        · rcases (mem_markMatched _ _ _).1 hk with rfl | hk
          · rcases Nat.lt_or_ge k block.size with h' | h'
            · exact h'
            · rw [Array.getElem?_eq_none h'] at hb; cases hb
          · exact h k hk
        · exact h k hk) fuel i s trivial h) _ (by intro i hi; cases hi)

section indices
variable (O : FilterOps F) (same : F → F → Bool) (fuel : Nat) (block : Array Tx) (f : F)

theorem mem_newMerkleBlockIndices (i : Nat) :
    i ∈ newMerkleBlockIndices O same fuel block f ↔ i ∈ (GetMatchedIndices O same fuel block f).matched := by
  unfold newMerkleBlockIndices
  simp only [List.mem_filter, List.mem_range, List.contains_iff_mem]
  exact ⟨fun h => h.2, fun h => ⟨scan_matched_lt O same fuel block f i h, h⟩⟩

theorem newMerkleBlockIndices_sorted :
    (newMerkleBlockIndices O same fuel block f).Pairwise (· < ·) :=
  List.Pairwise.filter _ List.pairwise_lt_range

theorem newMerkleBlockIndices_nodup : (newMerkleBlockIndices O same fuel block f).Nodup :=
  (newMerkleBlockIndices_sorted O same fuel block f).imp (fun h => Nat.ne_of_lt h)

/-- sorting the matched set (what the harness prints) gives the builder's list -/
theorem mergeSort_matched :
    (GetMatchedIndices O same fuel block f).matched.mergeSort = newMerkleBlockIndices O same fuel block f := by
  have hp := List.mergeSort_perm (GetMatchedIndices O same fuel block f).matched (fun a b => decide (a ≤ b))
  have hn : ((GetMatchedIndices O same fuel block f).matched.mergeSort).Nodup :=
    hp.nodup_iff.2 (scan_matched_nodup O same fuel block f)
  have hs : ((GetMatchedIndices O same fuel block f).matched.mergeSort).Pairwise (· ≤ ·) := by
    have := List.pairwise_mergeSort (le := fun a b : Nat => decide (a ≤ b))
      (by intro a b c h1 h2; simp only [decide_eq_true_eq] at *; omega)
      (by intro a b; simp only [Bool.or_eq_true, decide_eq_true_eq]; omega)
      (GetMatchedIndices O same fuel block f).matched
    exact this.imp (fun h => by simpa using h)
  refine List.Perm.eq_of_pairwise (le := (· ≤ ·)) (fun a b _ _ h1 h2 => Nat.le_antisymm h1 h2) hs
    ((newMerkleBlockIndices_sorted O same fuel block f).imp (fun h => Nat.le_of_lt h)) ?_
  refine (List.perm_ext_iff_of_nodup hn (newMerkleBlockIndices_nodup O same fuel block f)).2 ?_
  intro a
  rw [List.mem_mergeSort, mem_newMerkleBlockIndices]

/-- the model's merkle-block builder (`Merkle.buildMsg`, property C11), driven as the harness drives it
    (leaves = the transaction ids, match predicate = membership in the matched set, given as any
    list `idx` with the same members, e.g. the sorted one), returns `newMerkleBlockIndices` -/
theorem buildMsg_indices {H : Type} (comb : H → H → H) (leaves : List H) (dflt : H)
    (hl : leaves.length = block.size) (idx : List Nat)
    (hidx : ∀ i, i ∈ idx ↔ i ∈ (GetMatchedIndices O same fuel block f).matched) :
    (Bch.Model.Merkle.buildMsg comb leaves (fun i => idx.contains i) dflt).2 =
      newMerkleBlockIndices O same fuel block f := by
  have h1 : (Bch.Model.Merkle.buildMsg comb leaves (fun i => idx.contains i) dflt).2 =
      (List.range leaves.length).filter (fun i => idx.contains i) := by
    simp only [Bch.Model.Merkle.buildMsg]
  rw [h1, hl]
  unfold newMerkleBlockIndices
  apply List.filter_congr
  intro i _
  rw [Bool.eq_iff_iff]
  simp only [List.contains_iff_mem]
  exact hidx i

end indices


/-! ## 7. Completeness (b) in property form
(the statement of `Bch.Props.C10.C10_block_complete_b`, re-derived here from `scan_complete_b` so that
this file and `Bch/Props/C10Fuel.lean` do not import `Bch/Props/C10.lean`) -/

theorem scan_complete_b_prop {O : FilterOps F} {G : F → Prop} (L : LawfulOn O G) (same : F → F → Bool)
    (hs : SameSound O same) (fuel : Nat) (block : Array Tx) (f : F) (hG : G f)
    (hf : (GetMatchedIndices O same fuel block f).outOfFuel = false) :
    ∃ ins : List (Bytes × Nat),
      (GetMatchedIndices O same fuel block f).filter
        = (ins.map (fun e => outPointBytes e.1 e.2)).foldl O.add f ∧
      (∀ e ∈ ins,
        (∃ j t, j ∈ (GetMatchedIndices O same fuel block f).matched ∧ block[j]? = some t ∧ t.id = e.1 ∧
          ∃ o, t.outs[e.2]? = some o ∧
            (O.flags f = 1 ∨ (O.flags f = 2 ∧ o.isPubKeyOrMultisig = true)) ∧
            ∃ ps, o.pushes = some ps ∧
              ∃ d ∈ ps, O.test (GetMatchedIndices O same fuel block f).filter d = true) ∧
        (∀ k u, block[k]? = some u → (∃ inp ∈ u.ins, inp.prevHash = e.1 ∧ inp.prevIdx = e.2) →
          k ∈ (GetMatchedIndices O same fuel block f).matched)) ∧
      (∀ j ∈ (GetMatchedIndices O same fuel block f).matched, ∀ t i o, block[j]? = some t →
        t.outs[i]? = some o → (O.flags f = 1 ∨ (O.flags f = 2 ∧ o.isPubKeyOrMultisig = true)) →
        (∃ ps, o.pushes = some ps ∧ ∃ d ∈ ps, O.test f d = true) → (t.id, i) ∈ ins) := by
  obtain ⟨ins, e, p, c⟩ := scan_complete_b L hs fuel block f hG hf
  have hflags := (scan_ext L same fuel block f).flags
  refine ⟨ins, e, ?_, ?_⟩
  · intro x hx
    obtain ⟨⟨j, t, hj, hb, hid, o, ho, he, hp⟩, hobl⟩ := p x hx
    refine ⟨⟨j, t, hj, hb, hid, o, ho, ?_, (pushHit_iff O _ _).1 hp⟩, ?_⟩
    · rw [hflags] at he; simpa [eligible] using he
    · intro k u hu hsp
      have hk : k < block.size := by
        rcases Nat.lt_or_ge k block.size with h | h
        · exact h
        · rw [Array.getElem?_eq_none h] at hu; cases hu
      exact hobl k hk u hu hsp
  · intro j hj t i o hb ho he hp
    rcases c j hj with h | h
    · cases h
    · refine h t i o hb ho ?_ ((pushHit_iff O _ _).2 hp)
      rw [hflags]; simpa [eligible] using he


end Bch.Proofs.BloomTx
