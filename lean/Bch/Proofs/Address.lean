import Bch.Model.Address
import Bch.Proofs.CashAddr
import Bch.Proofs.CashAddrBits
import Bch.Proofs.Hex
import Bch.Proofs.Base58Len
import Bch.Proofs.Base58
/-!
The `DecodeAddress` cascade: equation lemmas, the three ways through it, and the round-trip /
canonicity facts per address family.
-/
namespace Bch.Proofs.Address
open Bch Bch.Model Bch.Model.CashAddr Bch.Model.Address
open Bch.Proofs.CashAddr

variable (X : Ext)

/-- the tail of the cascade: public-key hex, then Base58Check -/
def tailDecode (addr : Bytes) (net : Net) (cashaddrErr : Bool) : Except Err Addr :=
  if addr.length = 130 ∨ addr.length = 66 then
    match hexDec addr with
    | none => .error .other
    | some ser => newPubKey X ser net
  else
    match Base58.CheckDecode X.sha256d addr with
    | .error .checksum => .error .checksumMismatch
    | .error .invalidFormat => if cashaddrErr then .error .checksumMismatch else .error .unknownFormat
    | .ok (decoded, netID) =>
      if decoded.length = 20 then
        let isP2PKH := pkhIDs.contains netID
        let isP2SH := shIDs.contains netID
        if isP2PKH ∧ isP2SH then .error .addressCollision
        else if isP2PKH then newLegacyPkh decoded netID
        else if isP2SH then newLegacySh decoded netID
        else .error .unknownAddressType
      else .error .other

/-- the string handed to the first (`slp = false`) / second (`slp = true`) CashAddr attempt -/
def attemptStr (addr : Bytes) (net : Net) (slp : Bool) : Bytes :=
  if hasPrefixFold addr net.cashPrefix || hasPrefixFold addr net.slpPrefix then addr
  else (if slp then net.slpPrefix else net.cashPrefix) ++ [58] ++ lowerASCII addr

/-- the SLP retry -/
def second (addr : Bytes) (net : Net) : Except Err Addr :=
  match (checkDecodeCashAddress (attemptStr addr net true)).2 with
  | .ok (d, t) => fromCash net true d t
  | .error e => tailDecode X addr net (isChecksumMismatch (.error e : Except CErr (Bytes × Nat)))

theorem DecodeAddress_eq (addr : Bytes) (net : Net) : DecodeAddress X addr net =
    if addr.length < net.cashPrefix.length + 2 ∨ addr.length < net.slpPrefix.length + 2 then .error .other
    else
      match (checkDecodeCashAddress (attemptStr addr net false)).2 with
      | .ok (d, t) =>
        if (checkDecodeCashAddress (attemptStr addr net false)).1 ≠ net.slpPrefix then fromCash net false d t
        else second X addr net
      | .error e =>
        if isChecksumMismatch (.error e : Except CErr (Bytes × Nat)) ||
            (checkDecodeCashAddress (attemptStr addr net false)).1 = net.slpPrefix
        then second X addr net else tailDecode X addr net false := by
  unfold DecodeAddress second attemptStr
  simp only [Bool.false_eq_true, if_false, if_true]
  split
  · rfl
  · rcases checkDecodeCashAddress (if (hasPrefixFold addr net.cashPrefix || hasPrefixFold addr net.slpPrefix) = true
        then addr else net.cashPrefix ++ [58] ++ lowerASCII addr) with ⟨pre1, r1⟩
    generalize (checkDecodeCashAddress (if (hasPrefixFold addr net.cashPrefix || hasPrefixFold addr net.slpPrefix) = true
        then addr else net.slpPrefix ++ [58] ++ lowerASCII addr)).2 = r2
    rcases r1 with e1 | ⟨d, t⟩ <;> rcases r2 with e2 | ⟨d2, t2⟩ <;> by_cases hp : pre1 = net.slpPrefix <;>
      simp [hp, tailDecode]
    all_goals (first | rfl | (cases isChecksumMismatch (Except.error e1 : Except CErr (Bytes × AddrType)) <;> rfl))

/-! ### case folding and prefix detection -/

theorem lowerASCII_eq (s : Bytes) : lowerASCII s = s.map lower1 := rfl

theorem lower_idem (s : Bytes) : lowerASCII (lowerASCII s) = lowerASCII s := by
  simp only [lowerASCII_eq, List.map_map]
  apply List.map_congr_left
  intro c _
  exact (class_facts c).2.2.2.2.2.1

theorem lower_upper (s : Bytes) : lowerASCII (upperASCII s) = lowerASCII s := by
  simp only [lowerASCII_eq, upperASCII, List.map_map]
  apply List.map_congr_left
  intro c _
  exact (class_facts c).2.2.2.2.2.2.2.2.2.2

theorem lower_of_low (s : Bytes) (h : ∀ c ∈ s, (isLow c || isDig c) = true) : lowerASCII s = s := by
  rw [lowerASCII_eq]
  conv => rhs; rw [← List.map_id s]
  apply List.map_congr_left
  intro c hc
  have := h c hc
  simp only [Bool.or_eq_true] at this
  rcases this with h | h
  · exact ((class_facts c).1 h).2.2.2.1
  · exact ((class_facts c).2.2.1 h).2.2.2.1

theorem lower_append (a b : Bytes) : lowerASCII (a ++ b) = lowerASCII a ++ lowerASCII b := by
  simp [lowerASCII_eq]

theorem mem_lower_58 {s : Bytes} : 58 ∈ lowerASCII s ↔ 58 ∈ s := by
  rw [lowerASCII_eq]
  constructor
  · intro h
    obtain ⟨c, hc, h58⟩ := List.mem_map.mp h
    rwa [((class_facts c).2.2.2.1).mp h58] at hc
  · intro h
    exact List.mem_map.mpr ⟨58, h, by decide⟩

/-- splitting at the first colon is unique -/
theorem split_colon {a a' b b' : Bytes} (ha : 58 ∉ a) (ha' : 58 ∉ a')
    (h : a ++ 58 :: b = a' ++ 58 :: b') : a = a' ∧ b = b' := by
  induction a generalizing a' with
  | nil =>
    cases a' with
    | nil => simpa using h
    | cons x a' =>
      simp only [List.nil_append, List.cons_append, List.cons.injEq] at h
      exact absurd (by simp [h.1]) ha'
  | cons x a ih =>
    cases a' with
    | nil =>
      simp only [List.nil_append, List.cons_append, List.cons.injEq] at h
      exact absurd (by simp [h.1]) ha
    | cons y a' =>
      simp only [List.cons_append, List.cons.injEq] at h
      have := ih (fun hx => ha (by simp [hx])) (fun hx => ha' (by simp [hx])) h.2
      exact ⟨by rw [h.1, this.1], this.2⟩

theorem hasPrefixFold_false_of_no_colon (s pre : Bytes) (h : 58 ∉ s) : hasPrefixFold s pre = false := by
  cases hh : hasPrefixFold s pre with
  | false => rfl
  | true =>
    exfalso
    simp only [hasPrefixFold, equalFoldASCII, Bool.and_eq_true, decide_eq_true_eq] at hh
    have h1 : 58 ∈ lowerASCII (pre ++ [58]) := mem_lower_58.mpr (by simp)
    rw [← hh.2] at h1
    have := mem_lower_58.mp h1
    exact h (List.mem_of_mem_take this)

/-- `hasPrefixFold` says exactly: after ASCII case folding the string starts with `pre:` -/
theorem hasPrefixFold_iff (s pre : Bytes) (hpre : lowerASCII pre = pre) (h128 : ∀ c ∈ pre, c < 128) :
    hasPrefixFold s pre = true ↔ ∃ rest, lowerASCII s = pre ++ 58 :: rest := by
  simp only [hasPrefixFold, equalFoldASCII, Bool.and_eq_true, decide_eq_true_eq, List.all_eq_true]
  constructor
  · rintro ⟨_, h⟩
    refine ⟨lowerASCII (s.drop (pre.length + 1)), ?_⟩
    conv => lhs; rw [← List.take_append_drop (pre.length + 1) s]
    rw [lower_append, h, lower_append, hpre]
    simp [lowerASCII_eq, lower1]
  · rintro ⟨rest, h⟩
    have ht : lowerASCII (s.take (pre.length + 1)) = pre ++ [58] := by
      rw [lowerASCII_eq, List.map_take, ← lowerASCII_eq, h]
      rw [show pre ++ 58 :: rest = (pre ++ [58]) ++ rest by simp]
      exact List.take_left' (by simp)
    constructor
    · intro c hc
      have hm : lower1 c ∈ pre ++ [58] := by
        rw [← ht, lowerASCII_eq]; exact List.mem_map.mpr ⟨c, hc, rfl⟩
      have : lower1 c < 128 := by
        rcases List.mem_append.mp hm with hm | hm
        · exact h128 _ hm
        · simp only [List.mem_singleton] at hm; rw [hm]; decide
      exact (class_facts c).2.2.2.2.2.2.2.2.1 this
    · rw [ht, lower_append, hpre]; simp [lowerASCII_eq, lower1]

/-! ### the networks -/

/-- what the proofs need of a network's parameters -/
structure NetWF (net : Net) : Prop where
  cash_ne : net.cashPrefix ≠ []
  cash_low : ∀ c ∈ net.cashPrefix, isLow c = true
  slp_low : ∀ c ∈ net.slpPrefix, isLow c = true
  cash_ne_slp : net.cashPrefix ≠ net.slpPrefix
  cash_len : net.cashPrefix.length ≤ 12
  slp_len : net.slpPrefix.length ≤ 12

def netWFb (net : Net) : Bool :=
  net.cashPrefix ≠ [] && net.cashPrefix.all isLow && net.slpPrefix.all isLow &&
    net.cashPrefix ≠ net.slpPrefix && net.cashPrefix.length ≤ 12 && net.slpPrefix.length ≤ 12

theorem nets_wfb : ∀ net ∈ nets, netWFb net = true := by decide +kernel

theorem nets_wf {net : Net} (h : net ∈ nets) : NetWF net := by
  have := nets_wfb net h
  simp only [netWFb, Bool.and_eq_true, decide_eq_true_eq, List.all_eq_true] at this
  obtain ⟨⟨⟨⟨⟨h1, h2⟩, h3⟩, h4⟩, h5⟩, h6⟩ := this
  exact ⟨h1, h2, h3, h4, h5, h6⟩

theorem low_no_colon {pre : Bytes} (h : ∀ c ∈ pre, isLow c = true) : 58 ∉ pre := by
  intro h58
  exact ((class_facts 58).1 (h 58 h58)).2.2.1 rfl

theorem low_lower {pre : Bytes} (h : ∀ c ∈ pre, isLow c = true) : lowerASCII pre = pre :=
  lower_of_low pre (fun c hc => by simp [h c hc])

theorem low_lt128 {pre : Bytes} (h : ∀ c ∈ pre, isLow c = true) : ∀ c ∈ pre, c < 128 :=
  fun c hc => ((class_facts c).1 (h c hc)).2.2.2.2.2.2.2.2.1


/-! ### `checkDecodeCashAddress` -/

/-- the payload half of `checkDecodeCashAddress` -/
def payloadResult (data5 : Bytes) : Except CErr (Bytes × AddrType) :=
  match convertBits data5 5 8 false with
  | none => .error .padding
  | some data =>
    if data.length = 33 then
      if data.headD 0 ≠ 0x0b then .error .unknownType
      else .ok (data.drop 1, 2)
    else if data.length ≠ 21 then .error .length
    else match data.headD 0 with
      | 0x00 => .ok (data.drop 1, 0)
      | 0x08 => .ok (data.drop 1, 1)
      | _ => .error .unknownType

theorem cdc_eq (w : Bytes) : checkDecodeCashAddress w =
    match DecodeCashAddress w with
    | .error e => ([], .error (.decode e))
    | .ok (pre, data5) => (pre, payloadResult data5) := by
  unfold checkDecodeCashAddress payloadResult
  rfl

/-- the admissible (type, version byte, hash length) triples -/
def VerOK (t : Nat) (ver : UInt8) (n : Nat) : Prop :=
  (t = 0 ∧ ver = 0 ∧ n = 20) ∨ (t = 1 ∧ ver = 8 ∧ n = 20) ∨ (t = 2 ∧ ver = 11 ∧ n = 32)

theorem payloadResult_ok_iff (pl d : Bytes) (t : Nat) :
    payloadResult pl = .ok (d, t) ↔
      ∃ ver, convertBits pl 5 8 false = some (ver :: d) ∧ VerOK t ver d.length := by
  unfold payloadResult VerOK
  constructor
  · intro h
    cases hc : convertBits pl 5 8 false with
    | none => rw [hc] at h; cases h
    | some data =>
      rw [hc] at h
      simp only [] at h
      cases data with
      | nil => simp at h
      | cons x xs =>
        simp only [List.headD_cons, List.length_cons, List.drop_succ_cons, List.drop_zero] at h
        refine ⟨x, ?_⟩
        split at h
        · split at h
          · cases h
          · rename_i h33 hx
            simp only [Except.ok.injEq, Prod.mk.injEq] at h
            obtain ⟨rfl, rfl⟩ := h
            exact ⟨rfl, Or.inr (Or.inr ⟨rfl, by simpa using hx, by omega⟩)⟩
        · split at h
          · cases h
          · rename_i h33 h21
            split at h
            · simp only [Except.ok.injEq, Prod.mk.injEq] at h
              obtain ⟨rfl, rfl⟩ := h
              exact ⟨rfl, Or.inl ⟨rfl, rfl, by omega⟩⟩
            · simp only [Except.ok.injEq, Prod.mk.injEq] at h
              obtain ⟨rfl, rfl⟩ := h
              exact ⟨rfl, Or.inr (Or.inl ⟨rfl, rfl, by omega⟩)⟩
            · cases h
  · rintro ⟨ver, hc, h⟩
    rw [hc]
    rcases h with ⟨rfl, rfl, hl⟩ | ⟨rfl, rfl, hl⟩ | ⟨rfl, rfl, hl⟩ <;> simp [hl]


/-! ### the three CashAddr kinds, uniformly -/

/-- the address of type `t` (0 P2PKH, 1 P2SH, 2 P2SH32) -/
def mkCash (t : Nat) (h pre : Bytes) : Addr :=
  match t with
  | 0 => .pkh h pre
  | 1 => .sh h pre
  | _ => .sh32 h pre

theorem fromCash_ok (net : Net) (slp : Bool) (h : Bytes) (t : Nat) (ver : UInt8)
    (hv : VerOK t ver h.length) :
    fromCash net slp h t = .ok (mkCash t h (if slp then net.slpPrefix else net.cashPrefix)) := by
  rcases hv with ⟨rfl, _, hl⟩ | ⟨rfl, _, hl⟩ | ⟨rfl, _, hl⟩ <;>
    simp [fromCash, hl, newPkh, newSh, newSh32, mkCash]

theorem fromCash_ok_inv (net : Net) (slp : Bool) (d : Bytes) (t : Nat) (a : Addr)
    (h : fromCash net slp d t = .ok a) :
    a = mkCash t d (if slp then net.slpPrefix else net.cashPrefix) ∧
      ((t = 0 ∧ d.length = 20) ∨ (t = 1 ∧ d.length = 20) ∨ (t = 2 ∧ d.length = 32)) := by
  unfold fromCash at h
  simp only [] at h
  split at h
  · rename_i h20
    split at h
    · rename_i ht; subst ht
      simp only [newPkh, h20, ne_eq, not_true_eq_false, if_false, Except.ok.injEq] at h
      exact ⟨h.symm, Or.inl ⟨rfl, h20⟩⟩
    · split at h
      · rename_i _ ht; subst ht
        simp only [newSh, h20, ne_eq, not_true_eq_false, if_false, Except.ok.injEq] at h
        exact ⟨h.symm, Or.inr (Or.inl ⟨rfl, h20⟩)⟩
      · cases h
  · split at h
    · rename_i h32
      split at h
      · rename_i ht; subst ht
        simp only [newSh32, h32, ne_eq, not_true_eq_false, if_false, Except.ok.injEq] at h
        exact ⟨h.symm, Or.inr (Or.inr ⟨rfl, h32⟩)⟩
      · cases h
    · cases h

theorem pack_spec (t : Nat) (ver : UInt8) (h : Bytes) (hv : VerOK t ver h.length) :
    packAddressData (if t = 2 then 1 else t) h = convertBits (ver :: h) 8 5 true := by
  rcases hv with ⟨rfl, rfl, hl⟩ | ⟨rfl, rfl, hl⟩ | ⟨rfl, rfl, hl⟩ <;>
    simp [packAddressData, hl]

theorem encodeAddress_mkCash (t : Nat) (ver : UInt8) (h pre : Bytes) (hv : VerOK t ver h.length) :
    EncodeAddress X (mkCash t h pre) = checkEncodeCashAddress h pre (if t = 2 then 1 else t) := by
  rcases hv with ⟨rfl, rfl, hl⟩ | ⟨rfl, rfl, hl⟩ | ⟨rfl, rfl, hl⟩
  · have : h.take 20 = h := List.take_of_length_le (by omega)
    simp [mkCash, EncodeAddress, this]
  · have : h.take 20 = h := List.take_of_length_le (by omega)
    simp [mkCash, EncodeAddress, this]
  · simp [mkCash, EncodeAddress]

/-- everything about the string form of a CashAddr-kind address -/
theorem encodeAddress_cash (t : Nat) (ver : UInt8) (h pre : Bytes) (hv : VerOK t ver h.length) :
    ∃ pl, convertBits (ver :: h) 8 5 true = some pl ∧ (∀ x ∈ pl, x.toNat < 32) ∧
      pl.length = (8 * (h.length + 1) + 4) / 5 ∧ convertBits pl 5 8 false = some (ver :: h) ∧
      encode pre pl = some (EncodeAddress X (mkCash t h pre)) ∧
      EncodeAddress X (mkCash t h pre) = (pl ++ createChecksum pre pl).map chOf := by
  obtain ⟨pl, h1, h2, h3, h4⟩ := convertBits_8_5_roundtrip (ver :: h)
  have he : EncodeAddress X (mkCash t h pre) = (pl ++ createChecksum pre pl).map chOf := by
    rw [encodeAddress_mkCash X t ver h pre hv, checkEncodeCashAddress, pack_spec t ver h hv, h1]
    simp only []
    rw [encode_eq pre pl h2]; rfl
  refine ⟨pl, h1, h2, by simpa using h3, h4, ?_, he⟩
  rw [he, encode_eq pre pl h2]

theorem cdc_encoded (t : Nat) (ver : UInt8) (h pre : Bytes) (hv : VerOK t ver h.length)
    (hne : pre ≠ []) (hlow : ∀ c ∈ pre, isLow c = true) :
    checkDecodeCashAddress (pre ++ [58] ++ EncodeAddress X (mkCash t h pre)) = (pre, .ok (h, t)) ∧
    checkDecodeCashAddress (upperASCII (pre ++ [58] ++ EncodeAddress X (mkCash t h pre)))
      = (pre, .ok (h, t)) := by
  obtain ⟨pl, _, h2, _, h4, h5, _⟩ := encodeAddress_cash X t ver h pre hv
  obtain ⟨s, hs, _, _, hd1, hd2⟩ := decodeCash_encode pre pl hne hlow h2
  rw [h5] at hs
  cases hs
  have hp : payloadResult pl = .ok (h, t) := (payloadResult_ok_iff pl h t).mpr ⟨ver, h4, hv⟩
  constructor
  · rw [cdc_eq, hd1]; simp only [hp]
  · rw [cdc_eq, hd2]; simp only [hp]


/-! ### the cash-prefix and SLP-prefix checksums of one payload never coincide -/

/-- difference of the checksum states of two prefixes, pushed through `n` zero symbols -/
def prefixDelta (a b : Bytes) (n : Nat) : Nat :=
  pm (pm 1 (expandPrefix a) ^^^ pm 1 (expandPrefix b)) (List.replicate n 0)

/-- the finite fact behind the SLP retry: for the five networks with an SLP prefix and the two
    payload lengths (34 + 8 and 53 + 8 symbols) the prefix difference does not vanish -/
theorem slp_cash_checksums_differ : ∀ net ∈ nets, net.slpPrefix ≠ [] →
    prefixDelta net.slpPrefix net.cashPrefix 42 ≠ 0 ∧ prefixDelta net.slpPrefix net.cashPrefix 61 ≠ 0 := by
  decide +kernel


/-! ### the strings handed to the CashAddr attempts -/

theorem attemptStr_unq (r : Bytes) (net : Net) (b : Bool) (h : 58 ∉ r) :
    attemptStr r net b = (if b then net.slpPrefix else net.cashPrefix) ++ [58] ++ lowerASCII r := by
  unfold attemptStr
  rw [hasPrefixFold_false_of_no_colon r _ h, hasPrefixFold_false_of_no_colon r _ h]
  simp

theorem attemptStr_q (r : Bytes) (net : Net) (b : Bool) (hwf : NetWF net) (pre rest : Bytes)
    (hpre : pre = net.cashPrefix ∨ pre = net.slpPrefix) (h : lowerASCII r = pre ++ 58 :: rest) :
    attemptStr r net b = r := by
  unfold attemptStr
  have : (hasPrefixFold r net.cashPrefix || hasPrefixFold r net.slpPrefix) = true := by
    rcases hpre with rfl | rfl
    · rw [(hasPrefixFold_iff r _ (low_lower hwf.cash_low) (low_lt128 hwf.cash_low)).mpr ⟨rest, h⟩]; rfl
    · rw [(hasPrefixFold_iff r _ (low_lower hwf.slp_low) (low_lt128 hwf.slp_low)).mpr ⟨rest, h⟩]; simp
  rw [if_pos this]

/-- the four renderings of an encoded CashAddr string the harness feeds back -/
def renderings (pre s : Bytes) : List Bytes :=
  [s, upperASCII s, pre ++ [58] ++ s, upperASCII (pre ++ [58] ++ s)]

/-- facts about the string form used by the cascade proofs -/
theorem encoded_facts (t : Nat) (ver : UInt8) (h pre : Bytes) (hv : VerOK t ver h.length) :
    (∀ c ∈ EncodeAddress X (mkCash t h pre), (isLow c || isDig c) = true) ∧
    ((EncodeAddress X (mkCash t h pre)).length = 42 ∨ (EncodeAddress X (mkCash t h pre)).length = 61) := by
  obtain ⟨pl, _, h2, h3, _, _, h6⟩ := encodeAddress_cash X t ver h pre hv
  have hw : ∀ x ∈ pl ++ createChecksum pre pl, x.toNat < 32 := by
    intro x hx
    rcases List.mem_append.mp hx with hx | hx
    · exact h2 x hx
    · exact createChecksum_lt pre pl x hx
  constructor
  · intro c hc
    rw [h6] at hc
    obtain ⟨x, hx, rfl⟩ := List.mem_map.mp hc
    exact (chOf_facts (hw x hx)).2.2.1
  · rw [h6]
    simp only [List.length_map, List.length_append, createChecksum_length, h3]
    rcases hv with ⟨_, _, hl⟩ | ⟨_, _, hl⟩ | ⟨_, _, hl⟩ <;> rw [hl] <;> simp

theorem lowdig_no_colon {s : Bytes} (h : ∀ c ∈ s, (isLow c || isDig c) = true) : 58 ∉ s := by
  intro h58
  have := h 58 h58
  revert this; decide

theorem upper_no_colon {s : Bytes} (h : 58 ∉ s) : 58 ∉ upperASCII s := by
  intro h58
  obtain ⟨c, hc, hc58⟩ := List.mem_map.mp h58
  rw [((class_facts c).2.2.2.2.1).mp hc58] at hc
  exact h hc

theorem upperASCII_length (s : Bytes) : (upperASCII s).length = s.length := by simp [upperASCII]

/-- how the renderings look after case folding -/
theorem renderings_lower (pre s r : Bytes) (hpre : ∀ c ∈ pre, isLow c = true)
    (hs : ∀ c ∈ s, (isLow c || isDig c) = true) (hr : r ∈ renderings pre s) :
    (58 ∉ r ∧ lowerASCII r = s ∧ r.length = s.length) ∨
    (lowerASCII r = pre ++ 58 :: s ∧ r.length = pre.length + 1 + s.length ∧
      (r = pre ++ [58] ++ s ∨ r = upperASCII (pre ++ [58] ++ s))) := by
  have hls := lower_of_low s hs
  have hlp := low_lower hpre
  simp only [renderings, List.mem_cons, List.not_mem_nil, or_false] at hr
  rcases hr with rfl | rfl | rfl | rfl
  · exact Or.inl ⟨lowdig_no_colon hs, hls, rfl⟩
  · exact Or.inl ⟨upper_no_colon (lowdig_no_colon hs), by rw [lower_upper, hls], upperASCII_length s⟩
  · refine Or.inr ⟨?_, by simp; omega, Or.inl rfl⟩
    rw [lower_append, lower_append, hls, hlp]; simp [lowerASCII_eq, lower1]
  · refine Or.inr ⟨?_, by simp [upperASCII_length]; omega, Or.inr rfl⟩
    rw [lower_upper, lower_append, lower_append, hls, hlp]; simp [lowerASCII_eq, lower1]

/-- **cash round trip**, uniform in the kind -/
theorem cash_roundtrip (net : Net) (hwf : NetWF net) (t : Nat) (ver : UInt8) (h : Bytes)
    (hv : VerOK t ver h.length) :
    ∀ r ∈ renderings net.cashPrefix (EncodeAddress X (mkCash t h net.cashPrefix)),
      DecodeAddress X r net = .ok (mkCash t h net.cashPrefix) := by
  intro r hr
  obtain ⟨hchars, hlen⟩ := encoded_facts X t ver h net.cashPrefix hv
  obtain ⟨hc1, hc2⟩ := cdc_encoded X t ver h net.cashPrefix hv hwf.cash_ne hwf.cash_low
  have hfc := fromCash_ok net false h t ver hv
  simp only [Bool.false_eq_true, if_false] at hfc
  have h1 := hwf.cash_len
  have h2 := hwf.slp_len
  rcases renderings_lower _ _ r hwf.cash_low hchars hr with ⟨hnc, hlow, hl⟩ | ⟨hlow, hl, hrr⟩
  · rw [DecodeAddress_eq, if_neg (by omega), attemptStr_unq r net false hnc, hlow]
    simp only [Bool.false_eq_true, if_false, hc1, ne_eq, hwf.cash_ne_slp, not_false_eq_true, if_true, hfc]
  · rw [DecodeAddress_eq, if_neg (by omega), attemptStr_q r net false hwf _ _ (Or.inl rfl) hlow]
    rcases hrr with rfl | rfl
    · simp only [hc1, ne_eq, hwf.cash_ne_slp, not_false_eq_true, if_true, hfc]
    · simp only [hc2, ne_eq, hwf.cash_ne_slp, not_false_eq_true, if_true, hfc]


/-- an SLP-prefixed string does not verify under the cash prefix — for every hash -/
theorem slp_not_cash (net : Net) (hnet : net ∈ nets) (hslp : net.slpPrefix ≠ []) (pl : Bytes)
    (hl : pl.length = 34 ∨ pl.length = 53) :
    verifyChecksum net.cashPrefix (pl ++ createChecksum net.slpPrefix pl) = false := by
  rw [verify_other_prefix net.slpPrefix net.cashPrefix _ (verify_create net.slpPrefix pl)]
  have := slp_cash_checksums_differ net hnet hslp
  unfold prefixDelta at this
  rw [List.length_append, createChecksum_length]
  rcases hl with hl | hl <;> rw [hl]
  · exact decide_eq_false this.1
  · exact decide_eq_false this.2

theorem cdc_cash_on_slp (net : Net) (hnet : net ∈ nets) (hslp : net.slpPrefix ≠ []) (t : Nat)
    (ver : UInt8) (h : Bytes) (hv : VerOK t ver h.length) :
    checkDecodeCashAddress (net.cashPrefix ++ [58] ++ EncodeAddress X (mkCash t h net.slpPrefix))
      = ([], .error (.decode .checksumMismatch)) := by
  have hwf := nets_wf hnet
  obtain ⟨pl, _, h2, h3, _, _, h6⟩ := encodeAddress_cash X t ver h net.slpPrefix hv
  obtain ⟨hchars, _⟩ := encoded_facts X t ver h net.slpPrefix hv
  have hw : ∀ x ∈ pl ++ createChecksum net.slpPrefix pl, x.toNat < 32 := by
    intro x hx
    rcases List.mem_append.mp hx with hx | hx
    · exact h2 x hx
    · exact createChecksum_lt _ pl x hx
  have hpl : pl.length = 34 ∨ pl.length = 53 := by
    rw [h3]
    rcases hv with ⟨_, _, hl⟩ | ⟨_, _, hl⟩ | ⟨_, _, hl⟩ <;> rw [hl] <;> simp
  have hmap : net.cashPrefix.map (· ||| 0x20) = net.cashPrefix := by
    conv => rhs; rw [← List.map_id net.cashPrefix]
    apply List.map_congr_left
    intro c hc
    exact ((class_facts c).1 (hwf.cash_low c hc)).2.2.2.2.1
  have hd : DecodeCashAddress (net.cashPrefix ++ 58 :: EncodeAddress X (mkCash t h net.slpPrefix))
      = .error .checksumMismatch := by
    apply decode_mismatch _ _ (pl ++ createChecksum net.slpPrefix pl) hwf.cash_ne
    · intro c hc; simp [isLetter, hwf.cash_low c hc]
    · intro c hc
      have := hchars c hc
      simp only [Bool.or_eq_true] at this
      rcases this with h | h <;> simp [isAlnum, h]
    · intro ⟨hup, _⟩
      obtain ⟨c, hc, hcu⟩ := List.any_eq_true.mp hup
      rcases List.mem_append.mp hc with hc | hc
      · simp [((class_facts c).1 (hwf.cash_low c hc)).1] at hcu
      · have := hchars c hc
        simp only [Bool.or_eq_true] at this
        rcases this with h | h
        · simp [((class_facts _).1 h).1] at hcu
        · simp [((class_facts _).2.2.1 h).2.1] at hcu
    · rw [h6]
      apply mapM_map_some
      intro x hx
      exact (chOf_facts (hw x hx)).1
    · rw [hmap]; exact slp_not_cash net hnet hslp pl hpl
  rw [List.append_assoc, List.singleton_append, cdc_eq, hd]

/-- **SLP round trip**, uniform in the kind -/
theorem slp_roundtrip (net : Net) (hnet : net ∈ nets) (hslp : net.slpPrefix ≠ []) (t : Nat)
    (ver : UInt8) (h : Bytes) (hv : VerOK t ver h.length) :
    ∀ r ∈ renderings net.slpPrefix (EncodeAddress X (mkCash t h net.slpPrefix)),
      DecodeAddress X r net = .ok (mkCash t h net.slpPrefix) := by
  intro r hr
  have hwf := nets_wf hnet
  obtain ⟨hchars, hlen⟩ := encoded_facts X t ver h net.slpPrefix hv
  obtain ⟨hc1, hc2⟩ := cdc_encoded X t ver h net.slpPrefix hv hslp hwf.slp_low
  have hmis := cdc_cash_on_slp X net hnet hslp t ver h hv
  have hfc := fromCash_ok net true h t ver hv
  simp only [if_true] at hfc
  have h1 := hwf.cash_len
  have h2 := hwf.slp_len
  rcases renderings_lower _ _ r hwf.slp_low hchars hr with ⟨hnc, hlow, hl⟩ | ⟨hlow, hl, hrr⟩
  · rw [DecodeAddress_eq, if_neg (by omega), attemptStr_unq r net false hnc, hlow]
    simp only [Bool.false_eq_true, if_false, hmis, isChecksumMismatch, Bool.true_or, if_true]
    rw [second, attemptStr_unq r net true hnc, hlow]
    simp only [if_true, hc1, hfc]
  · rw [DecodeAddress_eq, if_neg (by omega), attemptStr_q r net false hwf _ _ (Or.inr rfl) hlow]
    rcases hrr with rfl | rfl
    · simp only [hc1, ne_eq, not_true_eq_false, if_false]
      rw [second, attemptStr_q _ net true hwf _ _ (Or.inr rfl) hlow]
      simp only [hc1, hfc]
    · simp only [hc2, ne_eq, not_true_eq_false, if_false]
      rw [second, attemptStr_q _ net true hwf _ _ (Or.inr rfl) hlow]
      simp only [hc2, hfc]


/-! ### inversion of a successful CashAddr attempt -/

/-- a successful `checkDecodeCashAddress` pins the input down up to ASCII case: it is the decoded
    prefix, a colon, and the canonical encoding of the decoded (type, hash) under that prefix -/
theorem cdc_ok_inv (w p d : Bytes) (t : Nat) (h : checkDecodeCashAddress w = (p, .ok (d, t))) :
    ∃ ver, VerOK t ver d.length ∧ lowerASCII w = p ++ 58 :: EncodeAddress X (mkCash t d p) ∧
      p ≠ [] ∧ (∀ c ∈ p, isLow c = true) := by
  rw [cdc_eq] at h
  cases hd : DecodeCashAddress w with
  | error e => rw [hd] at h; cases h
  | ok r =>
    obtain ⟨p', pl⟩ := r
    rw [hd] at h
    simp only [Prod.mk.injEq] at h
    obtain ⟨rfl, hp⟩ := h
    obtain ⟨ver, hcv, hv⟩ := (payloadResult_ok_iff pl d t).mp hp
    obtain ⟨enc, henc, hlow, _, _, hne, hplow, hpl, _⟩ := decode_canonical w p' pl hd
    have hcanon := convertBits_5_8_canonical pl (ver :: d) hcv hpl
    obtain ⟨pl', h1, _, _, _, h5, _⟩ := encodeAddress_cash X t ver d p' hv
    rw [hcanon] at h1
    cases h1
    rw [henc] at h5
    cases h5
    exact ⟨ver, hv, hlow, hne, hplow⟩

include X in
/-- a CashAddr attempt on `pre:lower(s)` cannot succeed unless `s` has 42 or 61 characters -/
theorem attempt_fails (pre s : Bytes) (hpre : ∀ c ∈ pre, isLow c = true)
    (hlen : s.length ≠ 42 ∧ s.length ≠ 61) :
    ∃ e, (checkDecodeCashAddress (pre ++ [58] ++ lowerASCII s)).2 = .error e := by
  rcases hc : checkDecodeCashAddress (pre ++ [58] ++ lowerASCII s) with ⟨p, r⟩
  cases r with
  | error e => exact ⟨e, rfl⟩
  | ok dt =>
    exfalso
    obtain ⟨d, t⟩ := dt
    obtain ⟨ver, hv, hlow, _, hplow⟩ := cdc_ok_inv X _ p d t hc
    rw [lower_append, lower_append, lower_idem, low_lower hpre] at hlow
    have h58 : lowerASCII [58] = [58] := by decide
    rw [h58] at hlow
    have hsplit := split_colon (low_no_colon hpre) (low_no_colon hplow)
      (by simpa using hlow : pre ++ 58 :: lowerASCII s = p ++ 58 :: EncodeAddress X (mkCash t d p))
    have hl := (encoded_facts X t ver d p hv).2
    rw [← hsplit.2] at hl
    simp only [lowerASCII_eq, List.length_map] at hl
    omega

/-- when neither CashAddr attempt can succeed the cascade reaches its tail -/
theorem falls_through (net : Net) (hwf : NetWF net) (s : Bytes) (hs : 58 ∉ s)
    (hlen : s.length ≠ 42 ∧ s.length ≠ 61)
    (hmin : ¬ (s.length < net.cashPrefix.length + 2 ∨ s.length < net.slpPrefix.length + 2)) :
    ∃ flag, DecodeAddress X s net = tailDecode X s net flag := by
  obtain ⟨e1, h1⟩ := attempt_fails X net.cashPrefix s hwf.cash_low hlen
  obtain ⟨e2, h2⟩ := attempt_fails X net.slpPrefix s hwf.slp_low hlen
  rw [DecodeAddress_eq, if_neg hmin, attemptStr_unq s net false hs]
  simp only [Bool.false_eq_true, if_false, h1]
  have hsec : second X s net = tailDecode X s net (isChecksumMismatch (.error e2 : Except CErr (Bytes × Nat))) := by
    rw [second, attemptStr_unq s net true hs]
    simp only [if_true, h2]
  split
  · exact ⟨_, hsec⟩
  · exact ⟨_, rfl⟩


/-! ### legacy Base58Check addresses -/

def idsOKb (net : Net) : Bool :=
  pkhIDs.contains net.pkhID && !shIDs.contains net.pkhID && shIDs.contains net.shID &&
    !pkhIDs.contains net.shID

theorem nets_ids : ∀ net ∈ nets, idsOKb net = true := by decide +kernel

/-- no version byte is registered both as P2PKH and as P2SH id -/
theorem ids_disjoint : ∀ id : UInt8, ¬ (pkhIDs.contains id = true ∧ shIDs.contains id = true) := by
  decide +kernel

/-- what `DecodeAddress` does on a Base58Check string of a 20-byte payload, for every version byte -/
theorem legacy_decode (net : Net) (hwf : NetWF net) (h : Bytes) (hl : h.length = 20) (id : UInt8)
    (hsha : ∀ x, 4 ≤ (X.sha256d x).length) :
    DecodeAddress X (Base58.CheckEncode X.sha256d h id) net =
      if pkhIDs.contains id then .ok (.legacyPkh h id)
      else if shIDs.contains id then .ok (.legacySh h id)
      else .error .unknownAddressType := by
  have hb : (id :: h ++ Base58.checksum X.sha256d (id :: h)).length = 25 := by
    have := hsha (id :: h)
    simp only [Base58.checksum, List.length_append, List.length_cons, List.length_take, hl]
    omega
  have hlen := Base58Len.Encode_length_25 _ hb
  have hchars := Base58Len.Encode_chars (id :: h ++ Base58.checksum X.sha256d (id :: h))
  have hs : Base58.CheckEncode X.sha256d h id
      = Base58.Encode (id :: h ++ Base58.checksum X.sha256d (id :: h)) := rfl
  have hnc : 58 ∉ Base58.CheckEncode X.sha256d h id := by
    rw [hs]; intro h58
    exact (Base58Len.alphabet_char_excl 58 (hchars 58 h58)).2.1 rfl
  have h1 := hwf.cash_len
  have h2 := hwf.slp_len
  obtain ⟨flag, hft⟩ := falls_through X net hwf _ hnc (by rw [hs]; omega) (by rw [hs]; omega)
  rw [hft, tailDecode, if_neg (by rw [hs]; omega),
    Base58.CheckDecode_CheckEncode X.sha256d h id (hsha _)]
  simp only [hl, if_true]
  have hd := ids_disjoint id
  simp only [List.contains_iff_mem] at hd
  simp only [List.contains_iff_mem]
  by_cases hp : id ∈ pkhIDs
  · have hns : ¬ id ∈ shIDs := fun hsh => hd ⟨hp, hsh⟩
    simp [hp, hns, newLegacyPkh, hl]
  · by_cases hsh : id ∈ shIDs
    · simp [hp, hsh, newLegacySh, hl]
    · simp [hp, hsh]

/-! ### public keys -/

theorem hex_upper_eq (s : Bytes) : Hex.upperASCII s = upperASCII s := rfl

/-- a hex string of a 33- or 65-byte serialisation, in either case, is handed to `newPubKey` -/
theorem pubkey_decode (net : Net) (hwf : NetWF net) (ser : Bytes)
    (hlen : ser.length = 33 ∨ ser.length = 65) :
    DecodeAddress X (hexEnc ser) net = newPubKey X ser net ∧
    DecodeAddress X (upperASCII (hexEnc ser)) net = newPubKey X ser net := by
  have hl := Hex.hexEnc_length ser
  have hch := Hex.hexEnc_chars ser
  have hnc : 58 ∉ hexEnc ser := by
    intro h58
    have := hch 58 h58
    revert this; decide
  have h1 := hwf.cash_len
  have h2 := hwf.slp_len
  constructor
  · obtain ⟨flag, hft⟩ := falls_through X net hwf (hexEnc ser) hnc (by omega) (by omega)
    rw [hft, tailDecode, if_pos (by omega), Hex.hexDec_hexEnc]
  · have hlu := upperASCII_length (hexEnc ser)
    obtain ⟨flag, hft⟩ := falls_through X net hwf (upperASCII (hexEnc ser)) (upper_no_colon hnc)
      (by omega) (by omega)
    rw [hft, tailDecode, if_pos (by omega), ← hex_upper_eq, Hex.hexDec_upper_hexEnc]


/-! ### inversion of the whole cascade -/

def hasPre (s : Bytes) (net : Net) : Bool :=
  hasPrefixFold s net.cashPrefix || hasPrefixFold s net.slpPrefix

theorem attemptStr_of_hasPre (s : Bytes) (net : Net) (b : Bool) (h : hasPre s net = true) :
    attemptStr s net b = s := by
  unfold attemptStr; unfold hasPre at h; rw [if_pos h]

theorem attemptStr_of_not_hasPre (s : Bytes) (net : Net) (b : Bool) (h : hasPre s net = false) :
    attemptStr s net b = (if b then net.slpPrefix else net.cashPrefix) ++ [58] ++ lowerASCII s := by
  unfold attemptStr; unfold hasPre at h; rw [if_neg (by simp [h])]

theorem lower_colon : lowerASCII [58] = [58] := by decide

/-- a successful attempt: which prefix was decoded and what the input looks like -/
theorem attempt_inv (net : Net) (hwf : NetWF net) (s : Bytes) (b : Bool) (p d : Bytes) (t : Nat)
    (h : checkDecodeCashAddress (attemptStr s net b) = (p, .ok (d, t))) :
    ∃ ver, VerOK t ver d.length ∧ p ≠ [] ∧ (p = net.cashPrefix ∨ p = net.slpPrefix) ∧
      (hasPre s net = false → p = if b then net.slpPrefix else net.cashPrefix) ∧
      (lowerASCII s = EncodeAddress X (mkCash t d p) ∨
        lowerASCII s = p ++ 58 :: EncodeAddress X (mkCash t d p)) := by
  obtain ⟨ver, hv, hlow, hpne, hplow⟩ := cdc_ok_inv X _ p d t h
  refine ⟨ver, hv, hpne, ?_⟩
  cases hp : hasPre s net with
  | true =>
    rw [attemptStr_of_hasPre s net b hp] at hlow
    refine ⟨?_, by simp, Or.inr hlow⟩
    unfold hasPre at hp
    simp only [Bool.or_eq_true] at hp
    rcases hp with hp | hp
    · obtain ⟨rest, hr⟩ := (hasPrefixFold_iff s _ (low_lower hwf.cash_low) (low_lt128 hwf.cash_low)).mp hp
      rw [hr] at hlow
      exact Or.inl (split_colon (low_no_colon hwf.cash_low) (low_no_colon hplow) hlow).1.symm
    · obtain ⟨rest, hr⟩ := (hasPrefixFold_iff s _ (low_lower hwf.slp_low) (low_lt128 hwf.slp_low)).mp hp
      rw [hr] at hlow
      exact Or.inr (split_colon (low_no_colon hwf.slp_low) (low_no_colon hplow) hlow).1.symm
  | false =>
    rw [attemptStr_of_not_hasPre s net b hp] at hlow
    have hq : ∀ c ∈ (if b then net.slpPrefix else net.cashPrefix), isLow c = true := by
      cases b
      · exact hwf.cash_low
      · exact hwf.slp_low
    rw [lower_append, lower_append, lower_idem, low_lower hq, lower_colon] at hlow
    have hsplit := split_colon (low_no_colon hq) (low_no_colon hplow)
      (by simpa using hlow :
        (if b then net.slpPrefix else net.cashPrefix) ++ 58 :: lowerASCII s = p ++ 58 :: _)
    refine ⟨?_, fun _ => hsplit.1.symm, Or.inl hsplit.2⟩
    rw [← hsplit.1]
    cases b
    · exact Or.inl rfl
    · exact Or.inr rfl

theorem second_ok_inv (net : Net) (hwf : NetWF net) (s : Bytes) (a : Addr)
    (hfirst : ∀ d t, (checkDecodeCashAddress (attemptStr s net false)).2 = .ok (d, t) →
      (checkDecodeCashAddress (attemptStr s net false)).1 = net.slpPrefix)
    (h : second X s net = .ok a) :
    (∃ t d ver, a = mkCash t d net.slpPrefix ∧ VerOK t ver d.length ∧ net.slpPrefix ≠ [] ∧
      (lowerASCII s = EncodeAddress X a ∨ lowerASCII s = net.slpPrefix ++ 58 :: EncodeAddress X a)) ∨
    (∃ flag, tailDecode X s net flag = .ok a) := by
  unfold second at h
  rcases hc : checkDecodeCashAddress (attemptStr s net true) with ⟨p2, r2⟩
  rw [hc] at h
  cases r2 with
  | error e => exact Or.inr ⟨_, h⟩
  | ok dt =>
    obtain ⟨d, t⟩ := dt
    simp only [] at h
    obtain ⟨ha, _⟩ := fromCash_ok_inv net true d t a h
    simp only [if_true] at ha
    obtain ⟨ver, hv, hpne, _, hnp, hlow⟩ := attempt_inv X net hwf s true p2 d t hc
    have hp2 : p2 = net.slpPrefix := by
      cases hp : hasPre s net with
      | false => simpa using hnp hp
      | true =>
        have e : attemptStr s net false = attemptStr s net true := by
          rw [attemptStr_of_hasPre s net _ hp, attemptStr_of_hasPre s net _ hp]
        have := hfirst d t (by rw [e, hc])
        rw [e, hc] at this
        exact this
    subst hp2
    exact Or.inl ⟨t, d, ver, ha, hv, hpne, by rw [ha]; exact hlow⟩

/-- **master inversion**: an accepted string is either a CashAddr string of the returned address
    (possibly qualified with the address's own prefix) or was accepted by the hex / Base58 tail -/
theorem decode_ok_cases (net : Net) (hwf : NetWF net) (s : Bytes) (a : Addr)
    (h : DecodeAddress X s net = .ok a) :
    (∃ t d ver pre, a = mkCash t d pre ∧ (pre = net.cashPrefix ∨ pre = net.slpPrefix) ∧ pre ≠ [] ∧
      VerOK t ver d.length ∧
      (lowerASCII s = EncodeAddress X a ∨ lowerASCII s = pre ++ 58 :: EncodeAddress X a)) ∨
    (∃ flag, tailDecode X s net flag = .ok a) := by
  rw [DecodeAddress_eq] at h
  split at h
  · cases h
  rcases hc : checkDecodeCashAddress (attemptStr s net false) with ⟨p1, r1⟩
  rw [hc] at h
  have hsec : (∀ d t, (checkDecodeCashAddress (attemptStr s net false)).2 = .ok (d, t) →
      (checkDecodeCashAddress (attemptStr s net false)).1 = net.slpPrefix) → second X s net = .ok a →
      ((∃ t d ver pre, a = mkCash t d pre ∧ (pre = net.cashPrefix ∨ pre = net.slpPrefix) ∧ pre ≠ [] ∧
        VerOK t ver d.length ∧
        (lowerASCII s = EncodeAddress X a ∨ lowerASCII s = pre ++ 58 :: EncodeAddress X a)) ∨
      (∃ flag, tailDecode X s net flag = .ok a)) := by
    intro hf hs
    rcases second_ok_inv X net hwf s a hf hs with ⟨t, d, ver, ha, hv, hne, hl⟩ | hr
    · exact Or.inl ⟨t, d, ver, net.slpPrefix, ha, Or.inr rfl, hne, hv, hl⟩
    · exact Or.inr hr
  cases r1 with
  | ok dt =>
    obtain ⟨d, t⟩ := dt
    simp only [] at h
    by_cases hp : p1 = net.slpPrefix
    · rw [if_neg (by simp [hp])] at h
      exact hsec (by rw [hc]; intro _ _ _; exact hp) h
    · rw [if_pos hp] at h
      obtain ⟨ha, _⟩ := fromCash_ok_inv net false d t a h
      simp only [Bool.false_eq_true, if_false] at ha
      obtain ⟨ver, hv, _, hpp, _, hlow⟩ := attempt_inv X net hwf s false p1 d t hc
      have hp1 : p1 = net.cashPrefix := hpp.resolve_right hp
      subst hp1
      exact Or.inl ⟨t, d, ver, net.cashPrefix, ha, Or.inl rfl, hwf.cash_ne, hv, by rw [ha]; exact hlow⟩
  | error e =>
    simp only [] at h
    split at h
    · exact hsec (by rw [hc]; intro _ _ hh; cases hh) h
    · exact Or.inr ⟨_, h⟩


/-! ### the tail: public keys and legacy addresses -/

/-- serialisation format selected by the first byte (1 compressed, 0 uncompressed, 2 hybrid) -/
def fmtOfHead (b : UInt8) : Option Nat :=
  if b = 2 ∨ b = 3 then some 1 else if b = 4 then some 0 else if b = 6 ∨ b = 7 then some 2 else none

theorem newPubKey_eq (ser : Bytes) (net : Net) : newPubKey X ser net =
    match X.parsePub ser with
    | none => .error .other
    | some pt => match fmtOfHead (ser.headD 0) with
      | some f => .ok (.pubKey f pt net.pkhID)
      | none => .error .other := by
  unfold newPubKey fmtOfHead
  cases X.parsePub ser with
  | none => rfl
  | some pt =>
    simp only []
    split
    · rfl
    · split
      · rfl
      · split <;> rfl

theorem newPubKey_ok_inv (ser : Bytes) (net : Net) (a : Addr) (h : newPubKey X ser net = .ok a) :
    ∃ pt f, X.parsePub ser = some pt ∧ fmtOfHead (ser.headD 0) = some f ∧ a = .pubKey f pt net.pkhID := by
  rw [newPubKey_eq] at h
  cases hp : X.parsePub ser with
  | none => rw [hp] at h; cases h
  | some pt =>
    rw [hp] at h
    cases hf : fmtOfHead (ser.headD 0) with
    | none => rw [hf] at h; cases h
    | some f =>
      rw [hf] at h
      simp only [Except.ok.injEq] at h
      exact ⟨pt, f, rfl, rfl, h.symm⟩

theorem tail_ok_inv (s : Bytes) (net : Net) (flag : Bool) (a : Addr)
    (h : tailDecode X s net flag = .ok a) :
    ((s.length = 130 ∨ s.length = 66) ∧ ∃ ser, hexDec s = some ser ∧ newPubKey X ser net = .ok a) ∨
    (¬ (s.length = 130 ∨ s.length = 66) ∧ ∃ d id, Base58.CheckDecode X.sha256d s = .ok (d, id) ∧
      d.length = 20 ∧ ((id ∈ pkhIDs ∧ id ∉ shIDs ∧ a = .legacyPkh d id) ∨
        (id ∈ shIDs ∧ id ∉ pkhIDs ∧ a = .legacySh d id))) := by
  unfold tailDecode at h
  split at h
  · rename_i hlen
    left
    refine ⟨hlen, ?_⟩
    cases hd : hexDec s with
    | none => rw [hd] at h; cases h
    | some ser => rw [hd] at h; exact ⟨ser, rfl, h⟩
  · rename_i hlen
    right
    refine ⟨hlen, ?_⟩
    split at h
    · cases h
    · split at h <;> cases h
    · rename_i d id hcd
      refine ⟨d, id, hcd, ?_⟩
      split at h
      · rename_i h20
        refine ⟨h20, ?_⟩
        simp only [List.contains_iff_mem] at h
        split at h
        · cases h
        · rename_i hboth
          split at h
          · rename_i hp
            simp only [newLegacyPkh, h20, ne_eq, not_true_eq_false, if_false, Except.ok.injEq] at h
            exact Or.inl ⟨hp, fun hs => hboth ⟨hp, hs⟩, h.symm⟩
          · rename_i hp
            split at h
            · rename_i hs
              simp only [newLegacySh, h20, ne_eq, not_true_eq_false, if_false, Except.ok.injEq] at h
              exact Or.inr ⟨hs, hp, h.symm⟩
            · cases h
      · cases h

/-- **canonical form of an accepted string**, all address families (no law on `X` needed; for public
    keys the statement is in terms of the parsed serialisation) -/
theorem canonical (net : Net) (hwf : NetWF net) (s : Bytes) (a : Addr) :
    DecodeAddress X s net = .ok a →
    match a with
    | .pkh _ pre | .sh _ pre | .sh32 _ pre =>
      (pre = net.cashPrefix ∨ pre = net.slpPrefix) ∧ pre ≠ [] ∧
      (lowerASCII s = EncodeAddress X a ∨ lowerASCII s = pre ++ 58 :: EncodeAddress X a)
    | .legacyPkh _ _ | .legacySh _ _ => s = EncodeAddress X a
    | .pubKey f pt _ => ∃ ser, X.parsePub ser = some pt ∧ fmtOfHead (ser.headD 0) = some f ∧
        (ser.length = 33 ∨ ser.length = 65) ∧ lowerASCII s = hexEnc ser := by
  intro h
  rcases decode_ok_cases X net hwf s a h with ⟨t, d, ver, pre, ha, hpre, hne, hv, hlow⟩ | ⟨flag, htail⟩
  · subst ha
    rcases hv with ⟨rfl, _, _⟩ | ⟨rfl, _, _⟩ | ⟨rfl, _, _⟩ <;> exact ⟨hpre, hne, hlow⟩
  · rcases tail_ok_inv X s net flag a htail with ⟨hlen, ser, hd, hn⟩ | ⟨_, d, id, hcd, h20, hk⟩
    · obtain ⟨pt, f, hp, hf, rfl⟩ := newPubKey_ok_inv X ser net a hn
      have hl := (Hex.hexDec_chars s ser hd).2
      exact ⟨ser, hp, hf, by omega, (Hex.hexEnc_hexDec s ser hd).symm⟩
    · have htake : d.take 20 = d := List.take_of_length_le (by omega)
      have hcanon := Base58.CheckDecode_canonical X.sha256d s d id hcd
      rcases hk with ⟨_, _, rfl⟩ | ⟨_, _, rfl⟩ <;>
        simp only [EncodeAddress, htake, hcanon]

/-! ### where a result of the cascade can come from -/

theorem decode_result_cases (s : Bytes) (net : Net) :
    DecodeAddress X s net = .error .other ∨
    (∃ b p d t, checkDecodeCashAddress (attemptStr s net b) = (p, .ok (d, t)) ∧
      DecodeAddress X s net = fromCash net b d t) ∨
    (∃ flag, DecodeAddress X s net = tailDecode X s net flag) := by
  rw [DecodeAddress_eq]
  split
  · exact Or.inl rfl
  have hsec : (∃ b p d t, checkDecodeCashAddress (attemptStr s net b) = (p, .ok (d, t)) ∧
      second X s net = fromCash net b d t) ∨ (∃ flag, second X s net = tailDecode X s net flag) := by
    unfold second
    rcases hc : checkDecodeCashAddress (attemptStr s net true) with ⟨p2, r2⟩
    cases r2 with
    | error e => exact Or.inr ⟨_, rfl⟩
    | ok dt =>
      obtain ⟨d, t⟩ := dt
      exact Or.inl ⟨true, p2, d, t, hc, rfl⟩
  rcases hc : checkDecodeCashAddress (attemptStr s net false) with ⟨p1, r1⟩
  cases r1 with
  | ok dt =>
    simp only []
    split
    · exact Or.inr (Or.inl ⟨false, p1, dt.1, dt.2, hc, rfl⟩)
    · exact Or.inr hsec
  | error e =>
    simp only []
    split
    · exact Or.inr hsec
    · exact Or.inr (Or.inr ⟨_, rfl⟩)

theorem fromCash_ne_collision (net : Net) (b : Bool) (d : Bytes) (t : Nat) :
    fromCash net b d t ≠ .error .addressCollision := by
  unfold fromCash newPkh newSh newSh32
  simp only []
  repeat' split
  all_goals simp

theorem tail_ne_collision (s : Bytes) (net : Net) (flag : Bool) :
    tailDecode X s net flag ≠ .error .addressCollision := by
  unfold tailDecode
  split
  · cases hexDec s with
    | none => simp
    | some ser =>
      simp only []
      rw [newPubKey_eq]
      cases X.parsePub ser with
      | none => simp
      | some pt => cases fmtOfHead (ser.headD 0) <;> simp
  · split
    · simp
    · split <;> simp
    · rename_i d id _
      split
      · have := ids_disjoint id
        simp only [this, if_false]
        unfold newLegacyPkh newLegacySh
        repeat' split
        all_goals simp
      · simp

/-- `ErrAddressCollision` is unreachable with the registered version bytes -/
theorem no_collision (s : Bytes) (net : Net) : DecodeAddress X s net ≠ .error .addressCollision := by
  rcases decode_result_cases X s net with h | ⟨b, p, d, t, _, h⟩ | ⟨flag, h⟩
  · rw [h]; simp
  · rw [h]; exact fromCash_ne_collision net b d t
  · rw [h]; exact tail_ne_collision X s net flag

/-- a CashAddr-kind result can only come from a successful `checkDecodeCashAddress` attempt -/
theorem cash_accept_via_attempt (s : Bytes) (net : Net) (t : Nat) (h pre : Bytes)
    (hd : DecodeAddress X s net = .ok (mkCash t h pre)) :
    ∃ b p d t', checkDecodeCashAddress (attemptStr s net b) = (p, .ok (d, t')) ∧
      fromCash net b d t' = .ok (mkCash t h pre) := by
  rcases decode_result_cases X s net with h0 | ⟨b, p, d, t', hc, h1⟩ | ⟨flag, h2⟩
  · rw [hd] at h0; cases h0
  · exact ⟨b, p, d, t', hc, by rw [← h1, hd]⟩
  · exfalso
    rw [hd] at h2
    rcases tail_ok_inv X s net flag _ h2.symm with ⟨_, ser, _, hn⟩ | ⟨_, d, id, _, _, hk⟩
    · obtain ⟨pt, f, _, _, he⟩ := newPubKey_ok_inv X ser net _ hn
      unfold mkCash at he; split at he <;> cases he
    · rcases hk with ⟨_, _, he⟩ | ⟨_, _, he⟩ <;> (unfold mkCash at he; split at he <;> cases he)

/-! ### normal forms -/

/-- the part after the first colon, or everything when there is none -/
def afterColon (x : Bytes) : Bytes := if 58 ∈ x then (x.dropWhile (· ≠ 58)).drop 1 else x

theorem afterColon_no_colon {x : Bytes} (h : 58 ∉ x) : afterColon x = x := by simp [afterColon, h]

theorem afterColon_split {p e : Bytes} (h : 58 ∉ p) : afterColon (p ++ 58 :: e) = e := by
  unfold afterColon
  rw [if_pos (by simp)]
  induction p with
  | nil => simp
  | cons c p ih =>
    have hc : c ≠ 58 := fun hc => h (by simp [hc])
    simp only [List.cons_append, List.dropWhile_cons, ne_eq, hc, not_false_eq_true, decide_true, if_true]
    exact ih (fun hm => h (by simp [hm]))

/-- the documented normalisation of an input string, per address family -/
def normalForm (a : Addr) (s : Bytes) : Bytes :=
  match a with
  | .pkh .. | .sh .. | .sh32 .. => afterColon (lowerASCII s)
  | .legacyPkh .. | .legacySh .. => s
  | .pubKey .. => lowerASCII s

/-- `EncodeAddress` for hash kinds, the hex `String` for public keys -/
def canonicalString (a : Addr) : Bytes :=
  match a with
  | .pubKey .. => Address.String X a
  | _ => EncodeAddress X a

theorem normalForm_eq (net : Net) (hwf : NetWF net) (s : Bytes) (a : Addr)
    (hser : ∀ f pt id, a = .pubKey f pt id → ∀ ser, X.parsePub ser = some pt →
      fmtOfHead (ser.headD 0) = some f → X.serPub f pt = ser)
    (h : DecodeAddress X s net = .ok a) : normalForm a s = canonicalString X a := by
  have hc := canonical X net hwf s a h
  have key : ∀ (t : Nat) (ver : UInt8) (d pre : Bytes), VerOK t ver d.length →
      (pre = net.cashPrefix ∨ pre = net.slpPrefix) →
      (lowerASCII s = EncodeAddress X (mkCash t d pre) ∨
        lowerASCII s = pre ++ 58 :: EncodeAddress X (mkCash t d pre)) →
      afterColon (lowerASCII s) = EncodeAddress X (mkCash t d pre) := by
    intro t ver d pre hv hpre hl
    have hnc := lowdig_no_colon (encoded_facts X t ver d pre hv).1
    have hpl : 58 ∉ pre := by
      rcases hpre with rfl | rfl
      · exact low_no_colon hwf.cash_low
      · exact low_no_colon hwf.slp_low
    rcases hl with hl | hl <;> rw [hl]
    · exact afterColon_no_colon hnc
    · exact afterColon_split hpl
  rcases decode_ok_cases X net hwf s a h with ⟨t, d, ver, pre, ha, hpre, _, hv, hlow⟩ | ⟨flag, htail⟩
  · subst ha
    have := key t ver d pre hv hpre hlow
    rcases hv with ⟨rfl, _, _⟩ | ⟨rfl, _, _⟩ | ⟨rfl, _, _⟩ <;> exact this
  · rcases tail_ok_inv X s net flag a htail with ⟨_, ser, _, hn⟩ | ⟨_, d, id, _, _, hk⟩
    · obtain ⟨pt, f, _, _, rfl⟩ := newPubKey_ok_inv X ser net a hn
      obtain ⟨ser', hp', hf', _, hl'⟩ := hc
      simp only [normalForm, canonicalString, Address.String, serialize]
      rw [hser f pt _ rfl ser' hp' hf', hl']
    · rcases hk with ⟨_, _, rfl⟩ | ⟨_, _, rfl⟩ <;> exact hc


/-! ### strings that contain a colon -/

theorem b58_colon : Base58.b58 58 = none := by decide +kernel

/-- neither the hex stage nor the Base58Check stage accepts a string with a colon -/
theorem tail_fails_on_colon (s : Bytes) (net : Net) (flag : Bool) (a : Addr) (h58 : 58 ∈ s) :
    tailDecode X s net flag ≠ .ok a := by
  intro h
  rcases tail_ok_inv X s net flag a h with ⟨_, ser, hd, _⟩ | ⟨_, d, id, hcd, _, _⟩
  · have := (Hex.hexDec_chars s ser hd).1 58 h58
    revert this; unfold Hex.isHexDigit; decide
  · have hne : Base58.Decode s ≠ [] := by
      rw [((Base58.CheckDecode_ok_iff X.sha256d s d id).mp hcd).1]; simp
    have := Base58.alphabet_of_Decode_ne_nil s hne 58 h58
    rw [b58_colon] at this
    cases this

/-- an accepted string with a colon was accepted by `checkDecodeCashAddress` on the string itself -/
theorem qualified_accept (net : Net) (hwf : NetWF net) (s : Bytes) (a : Addr) (h58 : 58 ∈ s)
    (h : DecodeAddress X s net = .ok a) :
    ∃ p d t, checkDecodeCashAddress s = (p, .ok (d, t)) ∧ (p = net.cashPrefix ∨ p = net.slpPrefix) ∧
      ∃ pre, a = mkCash t d pre := by
  rcases decode_result_cases X s net with h0 | ⟨b, p, d, t, hc, h1⟩ | ⟨flag, h2⟩
  · rw [h] at h0; cases h0
  · rw [h] at h1
    obtain ⟨ha, _⟩ := fromCash_ok_inv net b d t a h1.symm
    obtain ⟨ver, hv, _, hpp, _, _⟩ := attempt_inv X net hwf s b p d t hc
    cases hp : hasPre s net with
    | true =>
      rw [attemptStr_of_hasPre s net b hp] at hc
      exact ⟨p, d, t, hc, hpp, _, ha⟩
    | false =>
      exfalso
      rw [attemptStr_of_not_hasPre s net b hp] at hc
      obtain ⟨ver', hv', hlow, _, hplow⟩ := cdc_ok_inv X _ p d t hc
      have hq : ∀ c ∈ (if b then net.slpPrefix else net.cashPrefix), isLow c = true := by
        cases b
        · exact hwf.cash_low
        · exact hwf.slp_low
      rw [lower_append, lower_append, lower_idem, low_lower hq, lower_colon] at hlow
      have hsplit := split_colon (low_no_colon hq) (low_no_colon hplow)
        (by simpa using hlow :
          (if b then net.slpPrefix else net.cashPrefix) ++ 58 :: lowerASCII s = p ++ 58 :: _)
      have hnc := lowdig_no_colon (encoded_facts X t ver' d p hv').1
      rw [← hsplit.2] at hnc
      exact hnc (mem_lower_58.mpr h58)
  · rw [h] at h2
    exact absurd h2.symm (tail_fails_on_colon X s net flag a h58)

/-- a structurally fine `P:B` whose checksum does not verify is never decoded -/
theorem decode_reject_checksum (P B values : Bytes) (hP : 58 ∉ P)
    (hmap : B.mapM charsetRev = some values)
    (hver : verifyChecksum (P.map lower1) values = false) :
    ∀ r, DecodeCashAddress (P ++ 58 :: B) ≠ .ok r := by
  intro r h
  obtain ⟨pre, pl⟩ := r
  obtain ⟨P', B', ck, e, _, hP', hpre, hm, _, hv⟩ := decode_inv _ pre pl h
  have hnc : 58 ∉ P' := by
    intro h58
    have := hP' 58 h58
    revert this; decide
  obtain ⟨rfl, rfl⟩ := split_colon hP hnc e
  rw [hmap] at hm
  cases hm
  rw [hpre, hver] at hv
  cases hv

/-! ### rejections at the `checkDecodeCashAddress` level -/

theorem cdc_of_decode (w pre pl : Bytes) (h : DecodeCashAddress w = .ok (pre, pl)) :
    checkDecodeCashAddress w = (pre, payloadResult pl) := by
  rw [cdc_eq, h]

theorem payload_unknown_version (pl data : Bytes) (hc : convertBits pl 5 8 false = some data)
    (h : (data.length = 21 ∧ data.headD 0 ≠ 0x00 ∧ data.headD 0 ≠ 0x08) ∨
      (data.length = 33 ∧ data.headD 0 ≠ 0x0b)) :
    payloadResult pl = .error .unknownType := by
  unfold payloadResult
  rw [hc]
  rcases h with ⟨hl, h0, h8⟩ | ⟨hl, hb⟩
  · simp only [hl]
    rw [if_neg (by decide), if_neg (by decide)]
  · simp only [hl, if_true, hb, ne_eq, not_false_eq_true]

theorem payload_bad_length (pl data : Bytes) (hc : convertBits pl 5 8 false = some data)
    (h : data.length ≠ 21 ∧ data.length ≠ 33) : payloadResult pl = .error .length := by
  unfold payloadResult
  rw [hc]
  simp only [h.2, if_false, ne_eq, h.1, not_false_eq_true, if_true]

theorem payload_padding (pl : Bytes) (hc : convertBits pl 5 8 false = none) :
    payloadResult pl = .error .padding := by
  unfold payloadResult
  rw [hc]

end Bch.Proofs.Address
