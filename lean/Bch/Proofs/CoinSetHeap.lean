import Bch.Model.CoinSetHeap
import Bch.Proofs.TxSortHeap
import Bch.Proofs.CoinSetAnySort
/-!
Lemmas for `Props/C19Heap.lean`: the frame of every operation of `Model/CoinSetHeap.lean` (which arrays / set objects
can differ afterwards), freshness of results, and the refinement of the value-level model `Model/CoinSet.lean`.
-/
namespace Bch.Proofs.CoinSetHeap
open Bch Bch.Model.CoinSet Bch.Model.CoinSetHeap
open Bch.Model.TxSortHeap (Slice swapArr window InRange sortSwaps)
open Bch.Proofs.TxSortHeap (SwapsSpec applySwaps)

/-! ## generic list facts -/

theorem getElem?_modify_ne' {α : Type} (l : List α) (b c : Nat) (f : α → α) (h : c ≠ b) :
    (l.modify b f)[c]? = l[c]? := by
  rw [List.getElem?_modify]
  cases l[c]? <;> simp [Ne.symm h]

theorem getD_modify_self' {α : Type} (l : List α) (b : Nat) (f : α → α) (d : α) (hb : b < l.length) :
    (l.modify b f).getD b d = f (l.getD b d) := by
  simp [List.getD_eq_getElem?_getD, List.getElem?_eq_getElem hb]

theorem modify_concat {α : Type} (l : List α) (a : α) (f : α → α) :
    (l ++ [a]).modify l.length f = l ++ [f a] := by
  rw [List.modify_eq_take_cons_drop (by simp)]
  simp

theorem length_writeAt (a : List Nat) (pos : Nat) (xs : List Nat) : (writeAt a pos xs).length = a.length := by
  induction xs generalizing a pos with
  | nil => rfl
  | cons x xs ih => simp [writeAt, ih]

theorem getElem?_writeAt (a : List Nat) (pos : Nat) (xs : List Nat) (i : Nat) :
    (writeAt a pos xs)[i]? =
      if pos ≤ i ∧ i < pos + xs.length ∧ i < a.length then xs[i - pos]? else a[i]? := by
  induction xs generalizing a pos with
  | nil => simp only [writeAt, List.length_nil, Nat.add_zero]; rw [if_neg (by omega)]
  | cons x xs ih =>
    simp only [writeAt]
    rw [ih]
    simp only [List.length_set, List.length_cons, List.getElem?_set]
    by_cases h1 : pos = i
    · subst h1
      by_cases h2 : pos < a.length
      · rw [if_neg (by omega), if_pos rfl, if_pos (by omega)]; simp [h2]
      · rw [if_neg (by omega), if_pos rfl, if_neg (by omega)]; simp at h2; simp [h2]
    · by_cases h2 : pos + 1 ≤ i ∧ i < pos + 1 + xs.length ∧ i < a.length
      · have h3 : pos ≤ i ∧ i < pos + (xs.length + 1) ∧ i < a.length := by omega
        rw [if_pos h2, if_pos h3]
        obtain ⟨k, hk⟩ : ∃ k, i - pos = k + 1 := ⟨i - pos - 1, by omega⟩
        rw [hk, List.getElem?_cons_succ]
        congr 1; omega
      · have h3 : ¬(pos ≤ i ∧ i < pos + (xs.length + 1) ∧ i < a.length) := by omega
        rw [if_neg h2, if_neg h3, if_neg h1]

/-- writing `xs` at the start of a long enough array: the first `xs.length` cells are `xs` -/
theorem take_writeAt_zero (a xs : List Nat) (h : xs.length ≤ a.length) : (writeAt a 0 xs).take xs.length = xs := by
  apply List.ext_getElem?
  intro i
  rw [List.getElem?_take, getElem?_writeAt]
  by_cases hi : i < xs.length
  · rw [if_pos hi, if_pos (by omega)]; simp
  · rw [if_neg hi]; simp at hi; simp [hi]

/-! ## frames -/

/-- `h'` differs from `h` at most in arrays with index `≥ na` and set objects with index `≥ ns` (and by allocation):
    every coin object is unchanged, nothing is freed -/
structure Frame (na ns : Nat) (h h' : Heap) : Prop where
  coins : h'.coins = h.coins
  alen : h.arrs.length ≤ h'.arrs.length
  arrs : ∀ b, b < na → h'.arrs[b]? = h.arrs[b]?
  slen : h.sets.length ≤ h'.sets.length
  sets : ∀ c, c < ns → h'.sets[c]? = h.sets[c]?

/-- everything that existed in `h` is unchanged in `h'` -/
abbrev Ext (h h' : Heap) : Prop := Frame h.arrs.length h.sets.length h h'

theorem Frame.refl (na ns : Nat) (h : Heap) : Frame na ns h h :=
  ⟨rfl, Nat.le_refl _, fun _ _ => rfl, Nat.le_refl _, fun _ _ => rfl⟩

theorem Frame.trans {na ns : Nat} {a b c : Heap} (h1 : Frame na ns a b) (h2 : Frame na ns b c) : Frame na ns a c :=
  ⟨h2.coins.trans h1.coins, Nat.le_trans h1.alen h2.alen, fun x hx => (h2.arrs x hx).trans (h1.arrs x hx),
   Nat.le_trans h1.slen h2.slen, fun x hx => (h2.sets x hx).trans (h1.sets x hx)⟩

theorem Frame.mono {na ns na' ns' : Nat} {a b : Heap} (h : Frame na ns a b) (h1 : na' ≤ na) (h2 : ns' ≤ ns) :
    Frame na' ns' a b :=
  ⟨h.coins, h.alen, fun x hx => h.arrs x (by omega), h.slen, fun x hx => h.sets x (by omega)⟩

theorem Ext.trans {a b c : Heap} (h1 : Ext a b) (h2 : Ext b c) : Ext a c :=
  Frame.trans h1 (h2.mono h1.alen h1.slen)

/-- a frame of the later heap, seen from the earlier one -/
theorem Ext.then {na ns : Nat} {a b c : Heap} (h1 : Ext a b) (hna : na ≤ a.arrs.length) (hns : ns ≤ a.sets.length)
    (h2 : Frame na ns b c) : Frame na ns a c :=
  Frame.trans (h1.mono hna hns) h2

theorem Frame.arrD {na ns : Nat} {h h' : Heap} (f : Frame na ns h h') {b : Nat} (hb : b < na) :
    h'.arrs.getD b [] = h.arrs.getD b [] := by
  simp only [List.getD_eq_getElem?_getD, f.arrs b hb]

theorem Frame.readPtrs_eq {na ns : Nat} {h h' : Heap} (f : Frame na ns h h') {s : Slice} (hs : s.arr < na) :
    readPtrs h' s = readPtrs h s := by
  simp only [readPtrs, f.arrD hs]

theorem Frame.setAt_eq {na ns : Nat} {h h' : Heap} (f : Frame na ns h h') {c : Nat} (hc : c < ns) :
    setAt h' c = setAt h c := by
  simp only [setAt, List.getD_eq_getElem?_getD, f.sets c hc]

theorem Frame.coinAt_eq {na ns : Nat} {h h' : Heap} (f : Frame na ns h h') (p : Nat) : coinAt h' p = coinAt h p := by
  simp only [coinAt, f.coins]

theorem Frame.readCoins_eq {na ns : Nat} {h h' : Heap} (f : Frame na ns h h') {s : Slice} (hs : s.arr < na) :
    readCoins h' s = readCoins h s := by
  have : coinAt h' = coinAt h := funext f.coinAt_eq
  simp only [readCoins, f.readPtrs_eq hs, this]

theorem Frame.readSet_eq {na ns : Nat} {h h' : Heap} (f : Frame na ns h h') {c : Nat} (hc : c < ns) :
    readSet h' c = readSet h c := by
  have : coinAt h' = coinAt h := funext f.coinAt_eq
  simp only [readSet, f.setAt_eq hc, this]

theorem Frame.validIn {na ns : Nat} {h h' : Heap} (f : Frame na ns h h') {s : Slice} (hs : s.arr < na)
    (hv : s.ValidIn h.arrs) : s.ValidIn h'.arrs :=
  ⟨Nat.lt_of_lt_of_le hv.1 f.alen, hv.2.1, by rw [f.arrD hs]; exact hv.2.2⟩

/-! ## the `CoinSet` object -/

theorem newEmptySet_ext (h : Heap) : Ext h (newEmptySet h).1 :=
  ⟨rfl, Nat.le_refl _, fun _ _ => rfl, by simp [newEmptySet],
   fun c hc => by simp only [newEmptySet]; exact List.getElem?_append_left hc⟩

theorem newEmptySet_setAt (h : Heap) : setAt (newEmptySet h).1 h.sets.length = ⟨[], 0, 0⟩ := by
  simp [setAt, newEmptySet, List.getD_eq_getElem?_getD]

theorem pushCoin_frame (na : Nat) {ns cs : Nat} (h : Heap) (p : Nat) (hns : ns ≤ cs) :
    Frame na ns h (pushCoin h cs p) :=
  ⟨rfl, Nat.le_refl _, fun _ _ => rfl, by simp [pushCoin],
   fun c hc => by simp only [pushCoin]; exact getElem?_modify_ne' _ _ _ _ (by omega)⟩

theorem pushCoin_setAt (h : Heap) (cs p : Nat) (hcs : cs < h.sets.length) :
    setAt (pushCoin h cs p) cs = ⟨(setAt h cs).list ++ [p], (setAt h cs).totalValue + (coinAt h p).value,
      (setAt h cs).totalValueAge + (coinAt h p).valueAge⟩ := by
  simp only [setAt, pushCoin]
  rw [getD_modify_self' _ _ _ _ hcs]

theorem pushCoin_setAt_ne (h : Heap) (cs p c : Nat) (hc : c ≠ cs) : setAt (pushCoin h cs p) c = setAt h c := by
  simp only [setAt, pushCoin, List.getD_eq_getElem?_getD, getElem?_modify_ne' _ _ _ _ hc]

theorem pushCoin_sets_length (h : Heap) (cs p : Nat) : (pushCoin h cs p).sets.length = h.sets.length := by
  simp [pushCoin]

theorem popCoin_frame (na : Nat) {ns cs : Nat} (h : Heap) (hns : ns ≤ cs) : Frame na ns h (popCoin h cs).1 := by
  unfold popCoin
  split
  · exact Frame.refl _ _ _
  · exact ⟨rfl, Nat.le_refl _, fun _ _ => rfl, by simp,
      fun c hc => getElem?_modify_ne' _ _ _ _ (by omega)⟩

theorem shiftCoin_frame (na : Nat) {ns cs : Nat} (h : Heap) (hns : ns ≤ cs) : Frame na ns h (shiftCoin h cs).1 := by
  unfold shiftCoin
  split
  · exact Frame.refl _ _ _
  · exact ⟨rfl, Nat.le_refl _, fun _ _ => rfl, by simp,
      fun c hc => getElem?_modify_ne' _ _ _ _ (by omega)⟩

theorem popCoin_sets_length (h : Heap) (cs : Nat) : (popCoin h cs).1.sets.length = h.sets.length := by
  unfold popCoin; split <;> simp

theorem shiftCoin_sets_length (h : Heap) (cs : Nat) : (shiftCoin h cs).1.sets.length = h.sets.length := by
  unfold shiftCoin; split <;> simp

/-- `PopCoin` on a non-empty set: the last pointer is returned, the list loses it, the totals lose its value -/
theorem popCoin_snoc (h : Heap) (cs : Nat) (hcs : cs < h.sets.length) (l : List Nat) (p : Nat)
    (hl : (setAt h cs).list = l ++ [p]) :
    (popCoin h cs).2 = some p ∧
    setAt (popCoin h cs).1 cs = ⟨l, (setAt h cs).totalValue - (coinAt h p).value,
      (setAt h cs).totalValueAge - (coinAt h p).valueAge⟩ := by
  unfold popCoin
  have : (setAt h cs).list.getLast? = some p := by rw [hl]; simp
  rw [this]
  refine ⟨rfl, ?_⟩
  simp only [setAt]
  rw [getD_modify_self' _ _ _ _ hcs]
  have hl' : (h.sets.getD cs ⟨[], 0, 0⟩).list = l ++ [p] := hl
  simp only [hl']
  simp

theorem popCoin_nil (h : Heap) (cs : Nat) (hl : (setAt h cs).list = []) : popCoin h cs = (h, none) := by
  unfold popCoin; rw [hl]; rfl

theorem shiftCoin_cons (h : Heap) (cs : Nat) (hcs : cs < h.sets.length) (l : List Nat) (p : Nat)
    (hl : (setAt h cs).list = p :: l) :
    (shiftCoin h cs).2 = some p ∧
    setAt (shiftCoin h cs).1 cs = ⟨l, (setAt h cs).totalValue - (coinAt h p).value,
      (setAt h cs).totalValueAge - (coinAt h p).valueAge⟩ := by
  unfold shiftCoin
  split
  · rename_i h0; rw [hl] at h0; cases h0
  · rename_i q rest h0
    rw [hl] at h0
    injection h0 with h1 h2
    subst h1
    refine ⟨rfl, ?_⟩
    simp only [setAt]
    rw [getD_modify_self' _ _ _ _ hcs]
    have hl' : (h.sets.getD cs ⟨[], 0, 0⟩).list = p :: l := hl
    simp only [hl']
    simp

theorem shiftCoin_nil (h : Heap) (cs : Nat) (hl : (setAt h cs).list = []) : shiftCoin h cs = (h, none) := by
  unfold shiftCoin; rw [hl]

theorem coinsOf_ext (h : Heap) (cs : Nat) : Ext h (coinsOf h cs).1 :=
  ⟨rfl, by simp [coinsOf], fun b hb => by simp only [coinsOf]; exact List.getElem?_append_left hb,
   Nat.le_refl _, fun _ _ => rfl⟩

theorem coinsOf_readPtrs (h : Heap) (cs : Nat) :
    readPtrs (coinsOf h cs).1 (coinsOf h cs).2 = (setAt h cs).list := by
  simp [readPtrs, coinsOf, window, List.getD_eq_getElem?_getD]

theorem coinsOf_sets (h : Heap) (cs : Nat) : (coinsOf h cs).1.sets = h.sets := rfl

theorem pushAll_frame (na : Nat) {ns cs : Nat} (hns : ns ≤ cs) (ps : List Nat) (h : Heap) :
    Frame na ns h (pushAll cs ps h) := by
  induction ps generalizing h with
  | nil => exact Frame.refl _ _ _
  | cons p ps ih => exact (pushCoin_frame na h p hns).trans (ih _)

theorem pushAll_sets_length (cs : Nat) (ps : List Nat) (h : Heap) :
    (pushAll cs ps h).sets.length = h.sets.length := by
  induction ps generalizing h with
  | nil => rfl
  | cons p ps ih => simp only [pushAll]; rw [ih, pushCoin_sets_length]

theorem pushAll_list (cs : Nat) (ps : List Nat) (h : Heap) (hcs : cs < h.sets.length) :
    (setAt (pushAll cs ps h) cs).list = (setAt h cs).list ++ ps := by
  induction ps generalizing h with
  | nil => simp [pushAll]
  | cons p ps ih =>
    simp only [pushAll]
    rw [ih _ (by rw [pushCoin_sets_length]; exact hcs), pushCoin_setAt _ _ _ hcs]
    simp

theorem newCoinSet_ext (h : Heap) (s : Slice) : Ext h (newCoinSet h s).1 :=
  (newEmptySet_ext h).then (Nat.le_refl _) (Nat.le_refl _) (pushAll_frame _ (Nat.le_refl _) _ _)

theorem newCoinSet_snd (h : Heap) (s : Slice) : (newCoinSet h s).2 = h.sets.length := rfl

theorem newCoinSet_sets_length (h : Heap) (s : Slice) : (newCoinSet h s).1.sets.length = h.sets.length + 1 := by
  simp [newCoinSet, pushAll_sets_length, newEmptySet]

theorem newCoinSet_arrs (h : Heap) (s : Slice) : (newCoinSet h s).1.arrs = h.arrs := by
  have : ∀ (ps : List Nat) (cs : Nat) (h : Heap), (pushAll cs ps h).arrs = h.arrs := by
    intro ps cs
    induction ps with
    | nil => intro h; rfl
    | cons p ps ih => intro h; simp only [pushAll]; rw [ih]; rfl
  simp only [newCoinSet, this]; rfl

theorem newCoinSet_list (h : Heap) (s : Slice) :
    (setAt (newCoinSet h s).1 h.sets.length).list = readPtrs h s := by
  simp only [newCoinSet]
  rw [show (newEmptySet h).2 = h.sets.length from rfl,
    pushAll_list _ _ _ (by simp [newEmptySet]), newEmptySet_setAt]
  rfl

/-! ## slices: `append`, the copy, `Swap` -/

theorem readPtrs_length_le (h : Heap) (s : Slice) : (readPtrs h s).length ≤ s.len := by
  simp only [readPtrs, window, List.length_take]; omega

theorem readPtrs_length (h : Heap) (s : Slice) (hv : s.ValidIn h.arrs) : (readPtrs h s).length = s.len := by
  simp only [readPtrs, window, List.length_take, List.length_drop]
  have := hv.2.1; have := hv.2.2; omega

/-- `append`: in place it writes only the array of `s`; otherwise it only allocates -/
theorem append_frame (g : Nat → Nat) {na ns : Nat} (h : Heap) (s : Slice) (xs : List Nat) (h1 : na ≤ s.arr)
    (h2 : na ≤ h.arrs.length) : Frame na ns h (append g h s xs).1 := by
  unfold append
  split
  · exact ⟨rfl, by simp, fun b hb => getElem?_modify_ne' _ _ _ _ (by omega), Nat.le_refl _, fun _ _ => rfl⟩
  · exact ⟨rfl, by simp, fun b hb => List.getElem?_append_left (by omega), Nat.le_refl _, fun _ _ => rfl⟩

theorem append_inplace (g : Nat → Nat) (h : Heap) (s : Slice) (xs : List Nat) (hc : s.len + xs.length ≤ s.cap) :
    append g h s xs = ({ h with arrs := h.arrs.modify s.arr (fun a => writeAt a (s.off + s.len) xs) },
     { s with len := s.len + xs.length }) := by
  unfold append; rw [if_pos hc]

/-- the copy `make([]Coin, 0, len(coins)); append(·, coins...)` in full: one new array of `len(coins)` cells whose
    prefix is the offered pointers; the slice header returned -/
theorem copySlice_spec (g : Nat → Nat) (h : Heap) (s : Slice) :
    (copySlice g h s).1.coins = h.coins ∧ (copySlice g h s).1.sets = h.sets ∧
    (∃ A, (copySlice g h s).1.arrs = h.arrs ++ [A] ∧ A.length = s.len ∧
      A.take (readPtrs h s).length = readPtrs h s) ∧
    (copySlice g h s).2 = ⟨h.arrs.length, 0, (readPtrs h s).length, s.len⟩ := by
  have hle := readPtrs_length_le h s
  rw [copySlice, append_inplace g _ _ _ (by show 0 + _ ≤ s.len; omega)]
  simp only [make]
  refine ⟨trivial, trivial, ⟨writeAt (List.replicate s.len 0) 0 (readPtrs h s), ?_, ?_, ?_⟩, ?_⟩
  · simp only [Nat.add_zero]
    rw [modify_concat]
  · rw [length_writeAt]; simp
  · exact take_writeAt_zero _ _ (by simpa using hle)
  · simp

theorem copySlice_ext (g : Nat → Nat) (h : Heap) (s : Slice) : Ext h (copySlice g h s).1 := by
  obtain ⟨h1, h2, ⟨A, h3, _, _⟩, _⟩ := copySlice_spec g h s
  exact ⟨h1, by rw [h3]; simp, fun b hb => by rw [h3]; exact List.getElem?_append_left hb, by rw [h2]; exact Nat.le_refl _,
    fun c _ => by rw [h2]⟩

theorem copySlice_arr (g : Nat → Nat) (h : Heap) (s : Slice) : (copySlice g h s).2.arr = h.arrs.length := by
  rw [(copySlice_spec g h s).2.2.2]

theorem copySlice_arrs_length (g : Nat → Nat) (h : Heap) (s : Slice) :
    (copySlice g h s).1.arrs.length = h.arrs.length + 1 := by
  obtain ⟨_, _, ⟨A, h3, _, _⟩, _⟩ := copySlice_spec g h s
  rw [h3]; simp

theorem copySlice_readPtrs (g : Nat → Nat) (h : Heap) (s : Slice) :
    readPtrs (copySlice g h s).1 (copySlice g h s).2 = readPtrs h s := by
  obtain ⟨_, _, ⟨A, h3, _, h5⟩, h6⟩ := copySlice_spec g h s
  rw [h6]
  simp only [readPtrs, window, h3, List.getD_eq_getElem?_getD, List.getElem?_concat_length, Option.getD_some,
    List.drop_zero]
  exact h5

theorem copySlice_valid (g : Nat → Nat) (h : Heap) (s : Slice) :
    (copySlice g h s).2.ValidIn (copySlice g h s).1.arrs := by
  obtain ⟨_, _, ⟨A, h3, h4, _⟩, h6⟩ := copySlice_spec g h s
  rw [h6, h3]
  refine ⟨by simp, readPtrs_length_le h s, ?_⟩
  simp [List.getD_eq_getElem?_getD, h4]

theorem swapH_frame {na ns : Nat} (h : Heap) (s : Slice) (ij : Nat × Nat) (hna : na ≤ s.arr) :
    Frame na ns h (swapH h s ij) :=
  ⟨rfl, by simp [swapH], fun b hb => by simp only [swapH]; exact getElem?_modify_ne' _ _ _ _ (by omega),
   Nat.le_refl _, fun _ _ => rfl⟩

theorem foldl_swapH_frame {na ns : Nat} (s : Slice) (hna : na ≤ s.arr) (sw : List (Nat × Nat)) (h : Heap) :
    Frame na ns h (sw.foldl (fun h ij => swapH h s ij) h) := by
  induction sw generalizing h with
  | nil => exact Frame.refl _ _ _
  | cons ij rest ih => exact (swapH_frame h s ij hna).trans (ih _)

/-- **an in-place sort writes at most the array of its slice**, whatever swaps it performs -/
theorem sortH_frame {na ns : Nat} (sched : Sched) (k : Key) (h : Heap) (s : Slice) (hna : na ≤ s.arr) :
    Frame na ns h (sortH sched k h s) := foldl_swapH_frame s hna _ h

theorem foldl_swapH_arrs (s : Slice) (sw : List (Nat × Nat)) (h : Heap) :
    (sw.foldl (fun h ij => swapH h s ij) h).arrs =
      sw.foldl (fun A ij => A.modify s.arr (fun a => swapArr a (s.off + ij.1) (s.off + ij.2))) h.arrs := by
  induction sw generalizing h with
  | nil => rfl
  | cons ij rest ih => simp only [List.foldl_cons]; rw [ih]; rfl

theorem foldl_swaps_spec (s : Slice) (sw : List (Nat × Nat)) (arrs : List (List Nat))
    (hv : s.ValidIn arrs) (hr : InRange s sw) :
    SwapsSpec arrs
      (sw.foldl (fun A ij => A.modify s.arr (fun a => swapArr a (s.off + ij.1) (s.off + ij.2))) arrs) s := by
  induction sw generalizing arrs with
  | nil => exact SwapsSpec.refl _ _
  | cons ij rest ih =>
    have hij := hr ij (List.mem_cons_self ..)
    have st := SwapsSpec.step arrs s ij hv hij.1 hij.2
    exact st.trans (ih _ (st.validIn hv) (fun x hx => hr x (List.mem_cons_of_mem _ hx)))

/-- the footprint of the in-place sort on the arrays, for in-range swaps on a valid slice -/
theorem sortH_spec (sched : Sched) (k : Key) (h : Heap) (s : Slice) (hv : s.ValidIn h.arrs)
    (hr : InRange s (sched k h s)) : SwapsSpec h.arrs (sortH sched k h s).arrs s := by
  simp only [sortH, foldl_swapH_arrs]
  exact foldl_swaps_spec s _ _ hv hr

theorem sortH_readPtrs (sched : Sched) (k : Key) (h : Heap) (s : Slice) (hv : s.ValidIn h.arrs)
    (hr : InRange s (sched k h s)) :
    readPtrs (sortH sched k h s) s = applySwaps (readPtrs h s) (sched k h s) := by
  simp only [readPtrs, sortH, foldl_swapH_arrs]
  exact Bch.Proofs.TxSortHeap.window_foldl_swap s _ _ hv hr

/-! ### sub-slices -/

theorem readPtrs_sub (h : Heap) (P : Slice) (lo hi : Nat) (hhi : hi ≤ P.len) :
    readPtrs h (sub P lo hi) = ((readPtrs h P).drop lo).take (hi - lo) := by
  simp only [readPtrs, sub, window, List.drop_take, List.drop_drop, List.take_take]
  congr 1
  omega

theorem sub_valid (arrs : List (List Nat)) (P : Slice) (lo hi : Nat) (hv : P.ValidIn arrs) (h1 : lo ≤ hi)
    (h2 : hi ≤ P.len) : (sub P lo hi).ValidIn arrs := by
  obtain ⟨a, b, c⟩ := hv
  refine ⟨a, ?_, ?_⟩
  · simp only [sub]; omega
  · simp only [sub]; omega

/-! ## pass 1: frame, freshness and provenance of every selector (no assumption on the schedules for the frame) -/

open Bch.Proofs.CoinSet (SubMultiset)

/-- the contract of `sort.Sort`: `Swap(i, j)` is only called with `i, j < Len()` -/
def InRangeOK (sched : Sched) : Prop := ∀ k h s, s.ValidIn h.arrs → InRange s (sched k h s)

/-- what every `CoinSelect` guarantees about memory: everything that existed before is unchanged; a returned set is a
    new object; (for in-range sorts) its list holds offered pointers, each at most as often as it was offered -/
structure SelOK (sched : Sched) (h : Heap) (s : Slice) (r : Res) : Prop where
  ext : Ext h r.1
  fresh : ∀ cs, r.2 = some cs → h.sets.length ≤ cs ∧ cs < r.1.sets.length
  mem : InRangeOK sched → ∀ cs, r.2 = some cs → SubMultiset (setAt r.1 cs).list (readPtrs h s)

theorem minIndexLoopH_ok (na : Nat) {ns cs : Nat} (t mc : Int) (hns : ns ≤ cs) (k : Nat) (ps : List Nat) (h : Heap)
    (hcs : cs < h.sets.length) :
    Frame na ns h (minIndexLoopH t mc cs k ps h).1 ∧
    (∀ x, (minIndexLoopH t mc cs k ps h).2 = some x → x = cs) ∧
    (minIndexLoopH t mc cs k ps h).1.sets.length = h.sets.length ∧
    ∃ j, (setAt (minIndexLoopH t mc cs k ps h).1 cs).list = (setAt h cs).list ++ ps.take j := by
  induction ps generalizing k h with
  | nil =>
    cases k <;> simp only [minIndexLoopH] <;>
      exact ⟨Frame.refl _ _ _, fun x hx => (by cases hx), trivial, 0, by simp⟩
  | cons p ps ih =>
    cases k with
    | zero =>
      simp only [minIndexLoopH]
      exact ⟨Frame.refl _ _ _, fun x hx => (by cases hx), trivial, 0, by simp⟩
    | succ k =>
      simp only [minIndexLoopH]
      have hl := pushCoin_setAt h cs p hcs
      split
      · refine ⟨pushCoin_frame na h p hns, fun x hx => (by cases hx; rfl), pushCoin_sets_length _ _ _, 1, ?_⟩
        rw [hl]; simp
      · obtain ⟨a, b, c, j, d⟩ := ih k (pushCoin h cs p) (by rw [pushCoin_sets_length]; exact hcs)
        refine ⟨(pushCoin_frame na h p hns).trans a, b, c.trans (pushCoin_sets_length _ _ _), j + 1, ?_⟩
        rw [d, hl]; simp

/-- `MinIndexCoinSelector.CoinSelect`: a new set whose list is a prefix of the offered pointers -/
theorem minIndexH_ok (mi mc t : Int) (h : Heap) (s : Slice) :
    Ext h (minIndexH mi mc t h s).1 ∧
    (∀ cs, (minIndexH mi mc t h s).2 = some cs → cs = h.sets.length) ∧
    (minIndexH mi mc t h s).1.sets.length = h.sets.length + 1 ∧
    ∃ j, (setAt (minIndexH mi mc t h s).1 h.sets.length).list = (readPtrs h s).take j := by
  obtain ⟨a, b, c, j, d⟩ := minIndexLoopH_ok h.arrs.length (ns := h.sets.length) (cs := h.sets.length) t mc
    (Nat.le_refl _) mi.toNat (readPtrs h s) (newEmptySet h).1 (by simp [newEmptySet])
  refine ⟨(newEmptySet_ext h).then (Nat.le_refl _) (Nat.le_refl _) a, b, ?_, j, ?_⟩
  · simp only [minIndexH]; rw [show (newEmptySet h).2 = h.sets.length from rfl, c]; simp [newEmptySet]
  · simp only [minIndexH]; rw [show (newEmptySet h).2 = h.sets.length from rfl, d, newEmptySet_setAt]; rfl

theorem minIndexH_selOK (sched : Sched) (mi mc t : Int) (h : Heap) (s : Slice) :
    SelOK sched h s (minIndexH mi mc t h s) := by
  obtain ⟨a, b, c, j, d⟩ := minIndexH_ok mi mc t h s
  refine ⟨a, fun cs hcs => ?_, fun _ cs hcs => ?_⟩
  · rw [b cs hcs, c]; omega
  · rw [b cs hcs, d]; exact SubMultiset.of_sublist (List.take_sublist _ _)

/-- the copy-and-sort selectors: a new set whose list is a prefix of a permutation of the offered pointers -/
theorem sortedSelectH_selOK (k : Key) (g : Nat → Nat) (sched : Sched) (mi mc t : Int) (h : Heap) (s : Slice) :
    SelOK sched h s (sortedSelectH k g sched mi mc t h s) := by
  have e1 := copySlice_ext g h s
  have harr := copySlice_arr g h s
  have e2 : Frame h.arrs.length h.sets.length (copySlice g h s).1 (sortH sched k (copySlice g h s).1 (copySlice g h s).2) :=
    sortH_frame sched k _ _ (by rw [harr]; exact Nat.le_refl _)
  have e12 : Ext h (sortH sched k (copySlice g h s).1 (copySlice g h s).2) := Frame.trans e1 e2
  obtain ⟨a, b, c, j, d⟩ := minIndexH_ok mi mc t (sortH sched k (copySlice g h s).1 (copySlice g h s).2)
    (copySlice g h s).2
  simp only [sortedSelectH]
  refine ⟨e12.trans a, fun cs hcs => ?_, fun hr cs hcs => ?_⟩
  · rw [b cs hcs, c]; have := e12.slen; omega
  · rw [b cs hcs, d]
    have hp : (readPtrs (sortH sched k (copySlice g h s).1 (copySlice g h s).2) (copySlice g h s).2).Perm
        (readPtrs h s) := by
      have := (sortH_spec sched k _ _ (copySlice_valid g h s) (hr k _ _ (copySlice_valid g h s))).perm
      rw [← copySlice_readPtrs g h s]
      exact this
    exact SubMultiset.of_sublist_perm (List.take_sublist _ _) hp

theorem extendH_ok (na : Nat) {ns ext : Nat} (mi mc ma t : Int) (hns : ns ≤ ext) (ps : List Nat) (h : Heap)
    (hext : ext < h.sets.length) :
    Frame na ns h (extendH mi mc ma t ext ps h) ∧ (extendH mi mc ma t ext ps h).sets.length = h.sets.length ∧
    ∃ sub, sub.Sublist ps ∧ (setAt (extendH mi mc ma t ext ps h) ext).list = (setAt h ext).list ++ sub := by
  induction ps generalizing h with
  | nil => exact ⟨Frame.refl _ _ _, rfl, [], List.Sublist.refl _, by simp [extendH]⟩
  | cons p ps ih =>
    simp only [extendH]
    split
    · exact ⟨Frame.refl _ _ _, rfl, [], List.nil_sublist _, by simp⟩
    · split
      · obtain ⟨a, b, sub, c, d⟩ := ih h hext
        exact ⟨a, b, sub, c.cons _, d⟩
      · have hl := pushCoin_setAt h ext p hext
        have hlen : ext < (pushCoin h ext p).sets.length := by rw [pushCoin_sets_length]; exact hext
        split
        · obtain ⟨_, hpop⟩ := popCoin_snoc (pushCoin h ext p) ext hlen (setAt h ext).list p (by rw [hl])
          obtain ⟨a, b, sub, c, d⟩ := ih (popCoin (pushCoin h ext p) ext).1
            (by rw [popCoin_sets_length]; exact hlen)
          refine ⟨((pushCoin_frame na h p hns).trans (popCoin_frame na _ hns)).trans a,
            b.trans ((popCoin_sets_length _ _).trans (pushCoin_sets_length _ _ _)), sub, c.cons _, ?_⟩
          rw [d, hpop]
        · obtain ⟨a, b, sub, c, d⟩ := ih (pushCoin h ext p) hlen
          refine ⟨(pushCoin_frame na h p hns).trans a, b.trans (pushCoin_sets_length _ _ _), p :: sub,
            c.cons_cons _, ?_⟩
          rw [d, hl]; simp

/-- the recursive call is a well-behaved `CoinSelect` -/
def RecOK (sched : Sched) (rec : RecH) : Prop := ∀ mi mc ma t h s, SelOK sched h s (rec mi mc ma t h s)

/-- `highs ++ lows` is a rearrangement of part of the sorted copy -/
theorem split_subMultiset {α : Type} (X : List α) (c n : Nat) :
    SubMultiset ((X.drop c).take n ++ X.take c) X := by
  refine SubMultiset.of_sublist_perm ((List.take_sublist _ _).append (List.Sublist.refl _)) ?_
  refine List.perm_append_comm.trans ?_
  rw [List.take_append_drop]

/-- what the two loops of the min-priority selector guarantee (`X` = what the result may draw from) -/
structure LoopOK (sched : Sched) (h : Heap) (X : List Nat) (r : Res) : Prop where
  ext : Ext h r.1
  fresh : ∀ cs, r.2 = some cs → h.sets.length ≤ cs ∧ cs < r.1.sets.length
  mem : InRangeOK sched → ∀ cs, r.2 = some cs → SubMultiset (setAt r.1 cs).list X

theorem LoopOK.none (sched : Sched) (h : Heap) (X : List Nat) : LoopOK sched h X (h, none) :=
  ⟨Frame.refl _ _ _, fun _ hcs => (by cases hcs), fun _ _ hcs => (by cases hcs)⟩

theorem loopLowH_ok (sched : Sched) (rec : RecH) (hrec : RecOK sched rec) (mi mc ma t : Int) (P : Slice)
    (cutoff i : Nat) (hci : cutoff ≤ i) (hi : i < P.len) (X : List Nat) (m numLow : Nat) (h : Heap)
    (hP : P.arr < h.arrs.length) (hX : readPtrs h P = X) :
    LoopOK sched h ((X.drop cutoff).take (i + 1 - cutoff) ++ X.take cutoff)
      (loopLowH rec mi mc ma t P cutoff i m numLow h) := by
  induction m generalizing numLow h with
  | zero => exact LoopOK.none _ _ _
  | succ m ih =>
    simp only [loopLowH]
    split
    · exact LoopOK.none _ _ _
    · -- allHigh
      have ea := newCoinSet_ext h (sub P cutoff (i + 1))
      have ha2 := newCoinSet_snd h (sub P cutoff (i + 1))
      have hal := newCoinSet_sets_length h (sub P cutoff (i + 1))
      have haa := newCoinSet_arrs h (sub P cutoff (i + 1))
      have hlist := newCoinSet_list h (sub P cutoff (i + 1))
      rw [readPtrs_sub h P _ _ (by omega), hX] at hlist
      generalize newCoinSet h (sub P cutoff (i + 1)) = a at *
      obtain ⟨ah, a2⟩ := a
      simp only at ea ha2 hal haa hlist ⊢
      subst ha2
      -- the recursive call
      have hr : SelOK sched ah (sub P 0 cutoff)
          (lowCall rec mc ma t (setAt ah h.sets.length) numLow ah (sub P 0 cutoff)) := hrec _ _ _ _ _ _
      generalize lowCall rec mc ma t (setAt ah h.sets.length) numLow ah (sub P 0 cutoff) = r at hr ⊢
      have ear : Ext h r.1 := ea.trans hr.ext
      split
      · rename_i ls hls
        have ec := coinsOf_ext r.1 ls
        have hc := coinsOf_readPtrs r.1 ls
        have hcs := coinsOf_sets r.1 ls
        generalize coinsOf r.1 ls = c at *
        have hlt : h.sets.length < c.1.sets.length := by rw [hcs]; have := hr.ext.slen; omega
        refine ⟨(ear.trans ec).then (Nat.le_refl _) (Nat.le_refl _) (pushAll_frame _ (Nat.le_refl _) _ _),
          fun cs hcs' => ?_, fun hin cs hcs' => ?_⟩
        · cases hcs'; rw [pushAll_sets_length]; exact ⟨Nat.le_refl _, hlt⟩
        · cases hcs'
          rw [pushAll_list _ _ _ hlt, hc]
          have e1 : setAt c.1 h.sets.length = setAt ah h.sets.length := by
            have : setAt c.1 h.sets.length = setAt r.1 h.sets.length := by simp only [setAt, hcs]
            rw [this]; exact hr.ext.setAt_eq (by omega)
          rw [e1, hlist]
          refine SubMultiset.append (SubMultiset.refl _) ?_
          have := hr.mem hin ls hls
          have e2 : readPtrs ah (sub P 0 cutoff) = X.take cutoff := by
            rw [readPtrs_sub ah P _ _ (by omega), ea.readPtrs_eq hP, hX]; simp
          rw [e2] at this
          exact this
      · have := ih (numLow + 1) r.1 (Nat.lt_of_lt_of_le hP ear.alen) (by rw [ear.readPtrs_eq hP]; exact hX)
        exact ⟨ear.trans this.ext, fun cs hcs => (by have := this.fresh cs hcs; have := ear.slen; omega),
          this.mem⟩

theorem loopIH_ok (g : Nat → Nat) (sched : Sched) (rec : RecH) (hrec : RecOK sched rec) (mi mc ma t : Int)
    (P : Slice) (cutoff : Nat) (X : List Nat) (k i : Nat) (h : Heap) (hci : cutoff ≤ i)
    (hP : P.arr < h.arrs.length) (hX : readPtrs h P = X) :
    LoopOK sched h X (loopIH g sched rec mi mc ma t P cutoff k i h) := by
  induction k generalizing i h with
  | zero => exact LoopOK.none _ _ _
  | succ k ih =>
    simp only [loopIH]
    split
    · exact LoopOK.none _ _ _
    · rename_i hi
      have hi : i < P.len := by omega
      have hr : SelOK sched h (sub P cutoff (i + 1)) (minNumberH g sched mi mc t h (sub P cutoff (i + 1))) :=
        sortedSelectH_selOK _ g sched mi mc t h _
      generalize minNumberH g sched mi mc t h (sub P cutoff (i + 1)) = r at hr ⊢
      have hsplit := split_subMultiset X cutoff (i + 1 - cutoff)
      split
      · rename_i hs hhs
        -- highSelect.Coins(), NewCoinSet(·), the extension loop
        have ec := coinsOf_ext r.1 hs
        have hc := coinsOf_readPtrs r.1 hs
        have hcs := coinsOf_sets r.1 hs
        generalize coinsOf r.1 hs = c at *
        have ee := newCoinSet_ext c.1 c.2
        have he2 := newCoinSet_snd c.1 c.2
        have hel := newCoinSet_sets_length c.1 c.2
        have hlist := newCoinSet_list c.1 c.2
        generalize newCoinSet c.1 c.2 = e at *
        obtain ⟨eh, e2⟩ := e
        simp only at ee he2 hel hlist ⊢
        subst he2
        have hce : Ext h eh := (hr.ext.trans ec).trans ee
        have hle : h.sets.length ≤ c.1.sets.length := by rw [hcs]; exact hr.ext.slen
        obtain ⟨fa, fb, sub', fc, fd⟩ := extendH_ok h.arrs.length (ns := h.sets.length) mi mc ma t hle
          (readPtrs eh (sub P 0 cutoff)) eh (by omega)
        refine ⟨Frame.trans hce fa, fun cs hcs' => ?_, fun hin cs hcs' => ?_⟩
        · cases hcs'; rw [fb]; omega
        · cases hcs'
          rw [fd, hlist, hc]
          refine (SubMultiset.append (hr.mem hin hs hhs) (SubMultiset.of_sublist fc)).trans ?_
          rw [readPtrs_sub h P _ _ (by omega), readPtrs_sub eh P _ _ (by omega), hce.readPtrs_eq hP, hX]
          simpa using hsplit
      · have hP' : P.arr < r.1.arrs.length := Nat.lt_of_lt_of_le hP hr.ext.alen
        have hX' : readPtrs r.1 P = X := by rw [hr.ext.readPtrs_eq hP]; exact hX
        have hl := loopLowH_ok sched rec hrec mi mc ma t P cutoff i hci hi X (cutoff + 1) 1 r.1 hP' hX'
        generalize loopLowH rec mi mc ma t P cutoff i (cutoff + 1) 1 r.1 = l at hl ⊢
        split
        · rename_i x hx
          refine ⟨hr.ext.trans hl.ext, fun cs hcs' => ?_, fun hin cs hcs' => ?_⟩
          · cases hcs'; have := hl.fresh x hx; have := hr.ext.slen
            show h.sets.length ≤ x ∧ x < l.1.sets.length; omega
          · cases hcs'; exact (hl.mem hin x hx).trans hsplit
        · have hrl : Ext h l.1 := hr.ext.trans hl.ext
          have := ih (i + 1) l.1 (by omega) (Nat.lt_of_lt_of_le hP hrl.alen)
            (by rw [hrl.readPtrs_eq hP]; exact hX)
          exact ⟨hrl.trans this.ext, fun cs hcs => (by have := this.fresh cs hcs; have := hrl.slen; omega),
            this.mem⟩

theorem sortH_arrs_length (sched : Sched) (k : Key) (h : Heap) (s : Slice) :
    (sortH sched k h s).arrs.length = h.arrs.length := by
  simp only [sortH, foldl_swapH_arrs]
  generalize sched k h s = sw
  generalize h.arrs = A
  induction sw generalizing A with
  | nil => rfl
  | cons ij rest ih => simp only [List.foldl_cons]; rw [ih]; simp

theorem minPriorityBodyH_ok (g : Nat → Nat) (sched : Sched) (rec : RecH) (hrec : RecOK sched rec) :
    RecOK sched (minPriorityBodyH g sched rec) := by
  intro mi mc ma t h s
  have e1 := copySlice_ext g h s
  have harr := copySlice_arr g h s
  have hval := copySlice_valid g h s
  have hrp := copySlice_readPtrs g h s
  have hal := copySlice_arrs_length g h s
  simp only [minPriorityBodyH]
  generalize copySlice g h s = c at *
  have e2 : Frame h.arrs.length h.sets.length c.1 (sortH sched .valueAgeAsc c.1 c.2) :=
    sortH_frame sched _ _ _ (by rw [harr]; exact Nat.le_refl _)
  have e12 : Ext h (sortH sched .valueAgeAsc c.1 c.2) := Frame.trans e1 e2
  have hsl := sortH_arrs_length sched .valueAgeAsc c.1 c.2
  split
  · exact ⟨e12, fun _ hcs => (by cases hcs), fun _ _ hcs => (by cases hcs)⟩
  · rename_i cutoff hcut
    have hl := loopIH_ok g sched rec hrec mi mc ma t c.2 cutoff _ (c.2.len + 1) cutoff
      (sortH sched .valueAgeAsc c.1 c.2) (Nat.le_refl _) (by rw [hsl, hal, harr]; omega) rfl
    generalize loopIH g sched rec mi mc ma t c.2 cutoff (c.2.len + 1) cutoff (sortH sched .valueAgeAsc c.1 c.2)
      = l at hl ⊢
    refine ⟨e12.trans hl.ext, fun cs hcs => (by have := hl.fresh cs hcs; have := e12.slen; omega),
      fun hin cs hcs => ?_⟩
    refine (hl.mem hin cs hcs).trans (SubMultiset.of_sublist_perm (List.Sublist.refl _) ?_)
    rw [← hrp]
    exact (sortH_spec sched _ _ _ hval (hin _ _ _ hval)).perm

/-- **every level of recursion of the min-priority selector is well behaved** -/
theorem minPriorityH_ok (g : Nat → Nat) (sched : Sched) (fuel : Nat) : RecOK sched (minPriorityH g sched fuel) := by
  induction fuel with
  | zero => intro mi mc ma t h s; exact ⟨Frame.refl _ _ _, fun _ hcs => (by cases hcs), fun _ _ hcs => (by cases hcs)⟩
  | succ n ih => exact minPriorityBodyH_ok g sched _ ih

/-! ## pass 2: the heap run computes the value-level model -/

open Bch.Proofs.CoinSetAnySort (minNumberWith maxValueAgeWith loopIWith minPriorityBodyWith minPriorityWith)

/-- the oracle, run on any valid slice of any heap, performs in-range swaps that rearrange the offered coins the way
    the list function `srt` does -/
def Implements (sched : Sched) (k : Key) (srt : List Coin → List Coin) : Prop :=
  ∀ h s, s.ValidIn h.arrs →
    InRange s (sched k h s) ∧ applySwaps (readCoins h s) (sched k h s) = srt (readCoins h s)

theorem sortH_coins (sched : Sched) (k : Key) (h : Heap) (s : Slice) : (sortH sched k h s).coins = h.coins :=
  (sortH_frame (na := 0) (ns := 0) sched k h s (Nat.zero_le _)).coins

theorem sortH_sets (sched : Sched) (k : Key) (h : Heap) (s : Slice) : (sortH sched k h s).sets = h.sets := by
  simp only [sortH]
  generalize sched k h s = sw
  induction sw generalizing h with
  | nil => rfl
  | cons ij rest ih => simp only [List.foldl_cons]; rw [ih]; rfl

theorem readCoins_sortH (sched : Sched) (k : Key) (srt : List Coin → List Coin) (hs : Implements sched k srt)
    (h : Heap) (s : Slice) (hv : s.ValidIn h.arrs) : readCoins (sortH sched k h s) s = srt (readCoins h s) := by
  obtain ⟨hr, he⟩ := hs h s hv
  have hc : coinAt (sortH sched k h s) = coinAt h := by funext p; simp only [coinAt, sortH_coins]
  rw [← he]
  simp only [readCoins, hc, sortH_readPtrs sched k h s hv hr, Bch.Proofs.TxSortHeap.map_applySwaps]

theorem coinAt_pushCoin (h : Heap) (cs p : Nat) : coinAt (pushCoin h cs p) = coinAt h := rfl

theorem readSet_pushCoin (h : Heap) (cs p : Nat) (hcs : cs < h.sets.length) :
    readSet (pushCoin h cs p) cs = (readSet h cs).push (coinAt h p) := by
  simp only [readSet, coinAt_pushCoin, pushCoin_setAt h cs p hcs, CS.push, List.map_append, List.map_cons,
    List.map_nil]

theorem minIndexLoopH_ref (t mc : Int) (cs k : Nat) (ps : List Nat) (h : Heap) (hcs : cs < h.sets.length) :
    (minIndexLoopH t mc cs k ps h).2.map (readSet (minIndexLoopH t mc cs k ps h).1) =
      minIndexGo t mc k (ps.map (coinAt h)) (readSet h cs) := by
  induction ps generalizing k h with
  | nil => cases k <;> simp [minIndexLoopH, minIndexGo]
  | cons p ps ih =>
    cases k with
    | zero => simp [minIndexLoopH, minIndexGo]
    | succ k =>
      simp only [minIndexLoopH, List.map_cons, minIndexGo]
      have hp := readSet_pushCoin h cs p hcs
      have htv : (setAt (pushCoin h cs p) cs).totalValue = ((readSet h cs).push (coinAt h p)).totalValue := by
        rw [← hp]; rfl
      rw [htv]
      split
      · simp only [Option.map_some, hp]
      · rw [ih k (pushCoin h cs p) (by rw [pushCoin_sets_length]; exact hcs), hp, coinAt_pushCoin]

theorem readSet_newEmptySet (h : Heap) : readSet (newEmptySet h).1 h.sets.length = {} := by
  simp only [readSet, newEmptySet_setAt]; rfl

theorem minIndexH_ref (mi mc t : Int) (h : Heap) (s : Slice) :
    (minIndexH mi mc t h s).2.map (readSet (minIndexH mi mc t h s).1) = minIndex mi mc t (readCoins h s) := by
  simp only [minIndexH, minIndex]
  rw [minIndexLoopH_ref t mc _ _ _ _ (by simp [newEmptySet])]
  rw [show (newEmptySet h).2 = h.sets.length from rfl, readSet_newEmptySet]
  rfl

theorem readCoins_copySlice (g : Nat → Nat) (h : Heap) (s : Slice) :
    readCoins (copySlice g h s).1 (copySlice g h s).2 = readCoins h s := by
  have hc : coinAt (copySlice g h s).1 = coinAt h := by
    funext p; simp only [coinAt, (copySlice_spec g h s).1]
  simp only [readCoins, copySlice_readPtrs, hc]

/-- the copy-and-sort selectors compute the prefix scan on `srt (offer)` -/
theorem sortedSelectH_ref (k : Key) (g : Nat → Nat) (sched : Sched) (srt : List Coin → List Coin)
    (hs : Implements sched k srt) (mi mc t : Int) (h : Heap) (s : Slice) :
    (sortedSelectH k g sched mi mc t h s).2.map (readSet (sortedSelectH k g sched mi mc t h s).1) =
      minIndex mi mc t (srt (readCoins h s)) := by
  simp only [sortedSelectH]
  rw [minIndexH_ref, readCoins_sortH sched k srt hs _ _ (copySlice_valid g h s), readCoins_copySlice]

theorem coinAt_popCoin (h : Heap) (cs : Nat) : coinAt (popCoin h cs).1 = coinAt h := by
  unfold popCoin; split <;> rfl

theorem extendH_ref (mi mc ma t : Int) (ext : Nat) (ps : List Nat) (h : Heap) (hext : ext < h.sets.length) :
    readSet (extendH mi mc ma t ext ps h) ext = extend mi mc ma t (ps.map (coinAt h)) (readSet h ext) := by
  induction ps generalizing h with
  | nil => rfl
  | cons p ps ih =>
    simp only [extendH, List.map_cons, extend]
    have hlen : ((readSet h ext).coins.length : Int) = ((setAt h ext).list.length : Int) := by
      simp [readSet]
    rw [hlen]
    split
    · rfl
    · split
      · exact ih h hext
      · have hp := readSet_pushCoin h ext p hext
        have hl := pushCoin_setAt h ext p hext
        have hlt : ext < (pushCoin h ext p).sets.length := by rw [pushCoin_sets_length]; exact hext
        have h1 : (setAt (pushCoin h ext p) ext).totalValueAge = ((readSet h ext).push (coinAt h p)).totalValueAge := by
          rw [← hp]; rfl
        have h2 : (setAt (pushCoin h ext p) ext).totalValue = ((readSet h ext).push (coinAt h p)).totalValue := by
          rw [← hp]; rfl
        have h3 : ((setAt (pushCoin h ext p) ext).list.length : Int) =
            (((readSet h ext).push (coinAt h p)).coins.length : Int) := by
          rw [← hp]; simp [readSet]
        rw [h1, h2, h3]
        split
        · obtain ⟨_, hpop⟩ := popCoin_snoc (pushCoin h ext p) ext hlt (setAt h ext).list p (by rw [hl])
          rw [ih _ (by rw [popCoin_sets_length]; exact hlt), coinAt_popCoin, coinAt_pushCoin]
          congr 1
          simp only [readSet, hpop, coinAt_popCoin, coinAt_pushCoin, hl]
          congr 1 <;> omega
        · rw [ih _ hlt, hp, coinAt_pushCoin]

theorem coinAt_pushAll (cs : Nat) (ps : List Nat) (h : Heap) : coinAt (pushAll cs ps h) = coinAt h := by
  induction ps generalizing h with
  | nil => rfl
  | cons p ps ih => simp only [pushAll]; rw [ih, coinAt_pushCoin]

theorem readSet_pushAll (cs : Nat) (ps : List Nat) (h : Heap) (hcs : cs < h.sets.length) :
    readSet (pushAll cs ps h) cs = (ps.map (coinAt h)).foldl CS.push (readSet h cs) := by
  induction ps generalizing h with
  | nil => rfl
  | cons p ps ih =>
    simp only [pushAll, List.map_cons, List.foldl_cons]
    rw [ih _ (by rw [pushCoin_sets_length]; exact hcs), readSet_pushCoin h cs p hcs, coinAt_pushCoin]

theorem readSet_newCoinSet (h : Heap) (s : Slice) :
    readSet (newCoinSet h s).1 h.sets.length = CS.ofList (readCoins h s) := by
  simp only [newCoinSet]
  rw [show (newEmptySet h).2 = h.sets.length from rfl, readSet_pushAll _ _ _ (by simp [newEmptySet]),
    readSet_newEmptySet]
  rfl

theorem readCoins_coinsOf (h : Heap) (cs : Nat) :
    readCoins (coinsOf h cs).1 (coinsOf h cs).2 = (readSet h cs).coins := by
  simp only [readCoins, coinsOf_readPtrs]; rfl

theorem readCoins_sub (h : Heap) (P : Slice) (lo hi : Nat) (hhi : hi ≤ P.len) :
    readCoins h (sub P lo hi) = ((readCoins h P).drop lo).take (hi - lo) := by
  simp only [readCoins, readPtrs_sub h P lo hi hhi, List.map_take, List.map_drop]

theorem readCoins_length (h : Heap) (s : Slice) (hv : s.ValidIn h.arrs) : (readCoins h s).length = s.len := by
  simp only [readCoins, List.length_map]; exact readPtrs_length h s hv

/-- the parameters of the recursive call are the value-level model's -/
theorem lowCall_eq (rec : RecH) (mc ma t : Int) (h : Heap) (cs numLow : Nat) :
    lowCall rec mc ma t (setAt h cs) numLow =
      rec (numLow : Int) mc
        (if ma * (((readSet h cs).coins.length + numLow : Nat) : Int) - (readSet h cs).totalValueAge > 0 ∧
            Int.tmod (ma * (((readSet h cs).coins.length + numLow : Nat) : Int) - (readSet h cs).totalValueAge)
              numLow ≠ 0
         then Int.tdiv (ma * (((readSet h cs).coins.length + numLow : Nat) : Int) - (readSet h cs).totalValueAge)
              numLow + 1
         else Int.tdiv (ma * (((readSet h cs).coins.length + numLow : Nat) : Int) - (readSet h cs).totalValueAge)
              numLow)
        (t - (readSet h cs).totalValue) := by
  have hn : (if (setAt h cs).list.length + numLow > numLow then numLow else (setAt h cs).list.length + numLow)
      = numLow := by split <;> omega
  simp only [lowCall, readSet, List.length_map, hn]

/-- the recursive call computes `recV` on the offered coins -/
def RecRef (rec : RecH) (recV : Rec) : Prop :=
  ∀ mi mc ma t h s,
    (rec mi mc ma t h s).2.map (readSet (rec mi mc ma t h s).1) = recV mi mc ma t (readCoins h s)

theorem loopLowH_ref (sched : Sched) (rec : RecH) (recV : Rec) (hok : RecOK sched rec) (href : RecRef rec recV)
    (mi mc ma t : Int) (P : Slice) (cutoff i : Nat) (hci : cutoff ≤ i) (hi : i < P.len) (V : List Coin)
    (m numLow : Nat) (h : Heap) (hv : P.ValidIn h.arrs) (hV : readCoins h P = V) :
    (loopLowH rec mi mc ma t P cutoff i m numLow h).2.map (readSet (loopLowH rec mi mc ma t P cutoff i m numLow h).1)
      = loopLow recV mi mc ma t cutoff i (V.take cutoff) ((V.drop cutoff).take (i + 1 - cutoff)) m numLow := by
  induction m generalizing numLow h with
  | zero => rfl
  | succ m ih =>
    simp only [loopLowH, loopLow]
    split
    · rfl
    · have hP : P.arr < h.arrs.length := hv.1
      have ea := newCoinSet_ext h (sub P cutoff (i + 1))
      have ha2 := newCoinSet_snd h (sub P cutoff (i + 1))
      have hal := newCoinSet_sets_length h (sub P cutoff (i + 1))
      have hrs := readSet_newCoinSet h (sub P cutoff (i + 1))
      rw [readCoins_sub h P _ _ (by omega), hV] at hrs
      generalize newCoinSet h (sub P cutoff (i + 1)) = a at *
      obtain ⟨ah, a2⟩ := a
      simp only at ea ha2 hal hrs ⊢
      subst ha2
      have hlow : readCoins ah (sub P 0 cutoff) = V.take cutoff := by
        rw [readCoins_sub ah P _ _ (by omega), ea.readCoins_eq hP, hV]; simp
      obtain ⟨ma', t', hlc, e2, e3⟩ : ∃ ma' t', lowCall rec mc ma t (setAt ah h.sets.length) numLow =
          rec (numLow : Int) mc ma' t' ∧ ma' = _ ∧ t' = _ := ⟨_, _, lowCall_eq rec mc ma t ah h.sets.length numLow, rfl, rfl⟩
      rw [hlc]
      rw [hrs] at e2 e3
      rw [← e2, ← e3]
      have hr := hok (numLow : Int) mc ma' t' ah (sub P 0 cutoff)
      have hf := href (numLow : Int) mc ma' t' ah (sub P 0 cutoff)
      rw [hlow] at hf
      generalize rec (numLow : Int) mc ma' t' ah (sub P 0 cutoff) = r at hr hf ⊢
      rw [← hf]
      obtain ⟨rh, ro⟩ := r
      have ear : Ext h rh := ea.trans hr.ext
      cases ro with
      | none =>
        simp only [Option.map_none]
        exact ih (numLow + 1) rh (ear.validIn hP hv) (by rw [ear.readCoins_eq hP]; exact hV)
      | some ls =>
        simp only [Option.map_some]
        have hlt : h.sets.length < (coinsOf rh ls).1.sets.length := by
          rw [coinsOf_sets]; have := hr.ext.slen; simp only at this; omega
        rw [readSet_pushAll _ _ _ hlt]
        have e1 : readSet (coinsOf rh ls).1 h.sets.length = readSet rh h.sets.length := rfl
        have e2' : readSet rh h.sets.length = readSet ah h.sets.length := hr.ext.readSet_eq (by omega)
        have e3' : (readPtrs (coinsOf rh ls).1 (coinsOf rh ls).2).map (coinAt (coinsOf rh ls).1) =
            (readSet rh ls).coins := readCoins_coinsOf rh ls
        rw [e1, e2', hrs, e3']

theorem loopIH_ref (g : Nat → Nat) (sched : Sched) (rec : RecH) (recV : Rec) (srtV : List Coin → List Coin)
    (hsV : Implements sched .valueDesc srtV) (hok : RecOK sched rec) (href : RecRef rec recV)
    (mi mc ma t : Int) (P : Slice) (cutoff : Nat) (V : List Coin) (k i : Nat) (h : Heap) (hci : cutoff ≤ i)
    (hv : P.ValidIn h.arrs) (hV : readCoins h P = V) :
    (loopIH g sched rec mi mc ma t P cutoff k i h).2.map (readSet (loopIH g sched rec mi mc ma t P cutoff k i h).1)
      = loopIWith srtV recV mi mc ma t V cutoff k i := by
  induction k generalizing i h with
  | zero => rfl
  | succ k ih =>
    have hP : P.arr < h.arrs.length := hv.1
    have hlen : V.length = P.len := by rw [← hV]; exact readCoins_length h P hv
    simp only [loopIH, loopIWith, hlen]
    split
    · rfl
    · rename_i hi
      have hi : i < P.len := by omega
      have hr : SelOK sched h (sub P cutoff (i + 1)) (minNumberH g sched mi mc t h (sub P cutoff (i + 1))) :=
        sortedSelectH_selOK _ g sched mi mc t h _
      have hf := sortedSelectH_ref .valueDesc g sched srtV hsV mi mc t h (sub P cutoff (i + 1))
      rw [readCoins_sub h P _ _ (by omega), hV] at hf
      change Option.map (readSet (minNumberH g sched mi mc t h (sub P cutoff (i + 1))).1)
        (minNumberH g sched mi mc t h (sub P cutoff (i + 1))).2 = _ at hf
      generalize minNumberH g sched mi mc t h (sub P cutoff (i + 1)) = r at hr hf ⊢
      unfold minNumberWith
      rw [← hf]
      obtain ⟨rh, ro⟩ := r
      cases ro with
      | some hs =>
        simp only [Option.map_some]
        have ec : Ext rh (coinsOf rh hs).1 := coinsOf_ext rh hs
        have ee := newCoinSet_ext (coinsOf rh hs).1 (coinsOf rh hs).2
        have he2 := newCoinSet_snd (coinsOf rh hs).1 (coinsOf rh hs).2
        have hel := newCoinSet_sets_length (coinsOf rh hs).1 (coinsOf rh hs).2
        have hrs := readSet_newCoinSet (coinsOf rh hs).1 (coinsOf rh hs).2
        rw [readCoins_coinsOf] at hrs
        generalize newCoinSet (coinsOf rh hs).1 (coinsOf rh hs).2 = e at *
        obtain ⟨eh, e2⟩ := e
        simp only at ee he2 hel hrs ⊢
        subst he2
        have hce : Ext h eh := (hr.ext.trans ec).trans ee
        rw [extendH_ref _ _ _ _ _ _ _ (by omega), hrs]
        have : (readPtrs eh (sub P 0 cutoff)).map (coinAt eh) = V.take cutoff := by
          have := readCoins_sub eh P 0 cutoff (by omega)
          rw [hce.readCoins_eq hP, hV] at this
          simpa [readCoins] using this
        rw [this]
      | none =>
        simp only [Option.map_none]
        have hv' : P.ValidIn rh.arrs := hr.ext.validIn hP hv
        have hV' : readCoins rh P = V := by rw [hr.ext.readCoins_eq hP]; exact hV
        have hl := loopLowH_ok sched rec hok mi mc ma t P cutoff i hci hi _ (cutoff + 1) 1 rh hv'.1 rfl
        have hlf := loopLowH_ref sched rec recV hok href mi mc ma t P cutoff i hci hi V (cutoff + 1) 1 rh hv' hV'
        generalize loopLowH rec mi mc ma t P cutoff i (cutoff + 1) 1 rh = l at hl hlf ⊢
        rw [← hlf]
        obtain ⟨lh, lo⟩ := l
        cases lo with
        | some x => rfl
        | none =>
          simp only [Option.map_none]
          have hrl : Ext h lh := hr.ext.trans hl.ext
          exact ih (i + 1) lh (by omega) (hrl.validIn hP hv) (by rw [hrl.readCoins_eq hP]; exact hV)

theorem minPriorityBodyH_ref (g : Nat → Nat) (sched : Sched) (rec : RecH) (recV : Rec)
    (srtVA srtV : List Coin → List Coin) (hsVA : Implements sched .valueAgeAsc srtVA)
    (hsV : Implements sched .valueDesc srtV) (hok : RecOK sched rec) (href : RecRef rec recV) :
    RecRef (minPriorityBodyH g sched rec) (minPriorityBodyWith srtVA srtV recV) := by
  intro mi mc ma t h s
  have hval := copySlice_valid g h s
  have hrc := readCoins_copySlice g h s
  simp only [minPriorityBodyH, minPriorityBodyWith]
  generalize copySlice g h s = c at *
  have hsorted := readCoins_sortH sched .valueAgeAsc srtVA hsVA c.1 c.2 hval
  rw [hrc] at hsorted
  have hv1 : c.2.ValidIn (sortH sched .valueAgeAsc c.1 c.2).arrs :=
    (sortH_spec sched _ _ _ hval (hsVA _ _ hval).1).validIn hval
  have hlen : (srtVA (readCoins h s)).length = c.2.len := by
    rw [← hsorted]; exact readCoins_length _ _ hv1
  rw [hsorted, hlen]
  cases hcut : List.findIdx? (fun c => decide (c.valueAge ≥ ma)) (srtVA (readCoins h s)) with
  | none => rfl
  | some cutoff =>
    exact loopIH_ref g sched rec recV srtV hsV hok href mi mc ma t c.2 cutoff _ (c.2.len + 1) cutoff _
      (Nat.le_refl _) hv1 hsorted

/-- **the heap run of the min-priority selector computes the value-level model** (for the sorts the oracle
    implements), at every recursion depth -/
theorem minPriorityH_ref (g : Nat → Nat) (sched : Sched) (srtVA srtV : List Coin → List Coin)
    (hsVA : Implements sched .valueAgeAsc srtVA) (hsV : Implements sched .valueDesc srtV) (fuel : Nat) :
    RecRef (minPriorityH g sched fuel) (minPriorityWith srtVA srtV fuel) := by
  induction fuel with
  | zero => intro mi mc ma t h s; rfl
  | succ n ih =>
    exact minPriorityBodyH_ref g sched _ _ srtVA srtV hsVA hsV (minPriorityH_ok g sched n) ih

/-! ## the insertion-sort oracle implements the model's sorts -/

theorem goSched_implements (k : Key) (hk : Bch.Proofs.TxSort.StrictWeak k.less) :
    Implements goSched k (Bch.Model.TxSort.sortBy k.less) := by
  intro h s hv
  refine ⟨Bch.Proofs.TxSortHeap.sortSwaps_inRange _ _ _ (readCoins_length h s hv), ?_⟩
  exact Bch.Proofs.TxSortHeap.applySwaps_sortSwaps hk _

theorem goSched_valueDesc : Implements goSched .valueDesc sortByValueDesc :=
  goSched_implements .valueDesc Bch.Proofs.CoinSetAnySort.strictWeak_lessValueDesc
theorem goSched_valueAgeDesc : Implements goSched .valueAgeDesc sortByValueAgeDesc :=
  goSched_implements .valueAgeDesc Bch.Proofs.CoinSetAnySort.strictWeak_lessValueAgeDesc
theorem goSched_valueAgeAsc : Implements goSched .valueAgeAsc sortByValueAgeAsc :=
  goSched_implements .valueAgeAsc Bch.Proofs.CoinSetAnySort.strictWeak_lessValueAgeAsc

theorem Implements.inRange {sched : Sched} {srtV srtVAd srtVAa : List Coin → List Coin}
    (h1 : Implements sched .valueDesc srtV) (h2 : Implements sched .valueAgeDesc srtVAd)
    (h3 : Implements sched .valueAgeAsc srtVAa) : InRangeOK sched := by
  intro k h s hv
  cases k
  · exact (h1 h s hv).1
  · exact (h2 h s hv).1
  · exact (h3 h s hv).1

/-! ## the recursion budget is immaterial once it exceeds the length of the offer -/

theorem loopLowH_congr (rec1 rec2 : RecH) (mi mc ma t : Int) (P : Slice) (cutoff i : Nat)
    (hag : ∀ mi mc ma t h, rec1 mi mc ma t h (sub P 0 cutoff) = rec2 mi mc ma t h (sub P 0 cutoff))
    (m numLow : Nat) (h : Heap) :
    loopLowH rec1 mi mc ma t P cutoff i m numLow h = loopLowH rec2 mi mc ma t P cutoff i m numLow h := by
  induction m generalizing numLow h with
  | zero => rfl
  | succ m ih =>
    simp only [loopLowH]
    have : ∀ H a, lowCall rec1 mc ma t H numLow a (sub P 0 cutoff) = lowCall rec2 mc ma t H numLow a (sub P 0 cutoff) := by
      intro H a; simp only [lowCall]; exact hag _ _ _ _ _
    simp only [this, ih]

theorem loopIH_congr (g : Nat → Nat) (sched : Sched) (rec1 rec2 : RecH) (mi mc ma t : Int) (P : Slice) (cutoff : Nat)
    (hag : ∀ mi mc ma t h, rec1 mi mc ma t h (sub P 0 cutoff) = rec2 mi mc ma t h (sub P 0 cutoff))
    (k i : Nat) (h : Heap) :
    loopIH g sched rec1 mi mc ma t P cutoff k i h = loopIH g sched rec2 mi mc ma t P cutoff k i h := by
  induction k generalizing i h with
  | zero => rfl
  | succ k ih =>
    simp only [loopIH, loopLowH_congr rec1 rec2 mi mc ma t P cutoff i hag, ih]

theorem minPriorityBodyH_congr (g : Nat → Nat) (sched : Sched) (rec1 rec2 : RecH) (N : Nat)
    (hag : ∀ mi mc ma t h s, s.len < N → rec1 mi mc ma t h s = rec2 mi mc ma t h s)
    (mi mc ma t : Int) (h : Heap) (s : Slice) (hs : s.len ≤ N) :
    minPriorityBodyH g sched rec1 mi mc ma t h s = minPriorityBodyH g sched rec2 mi mc ma t h s := by
  simp only [minPriorityBodyH]
  split
  · rfl
  · rename_i cutoff hcut
    have hlt := (List.findIdx?_eq_some_iff_getElem.1 hcut).1
    have h1 : (readCoins (sortH sched .valueAgeAsc (copySlice g h s).1 (copySlice g h s).2)
        (copySlice g h s).2).length ≤ (copySlice g h s).2.len := by
      simp only [readCoins, List.length_map]; exact readPtrs_length_le _ _
    have h2 : (copySlice g h s).2.len ≤ s.len := by
      rw [(copySlice_spec g h s).2.2.2]; exact readPtrs_length_le h s
    exact loopIH_congr g sched rec1 rec2 mi mc ma t _ cutoff
      (fun mi mc ma t h' => hag mi mc ma t h' _ (by simp only [sub]; omega)) _ _ _

/-- any two budgets above the length of the offered slice give the same run (same heap, same result) -/
theorem minPriorityH_fuel (g : Nat → Nat) (sched : Sched) (n : Nat) :
    ∀ f1 f2, n < f1 → n < f2 → ∀ mi mc ma t h s, s.len ≤ n →
      minPriorityH g sched f1 mi mc ma t h s = minPriorityH g sched f2 mi mc ma t h s := by
  induction n with
  | zero =>
    intro f1 f2 h1 h2 mi mc ma t h s hs
    obtain ⟨f1, rfl⟩ : ∃ k, f1 = k + 1 := ⟨f1 - 1, by omega⟩
    obtain ⟨f2, rfl⟩ : ∃ k, f2 = k + 1 := ⟨f2 - 1, by omega⟩
    exact minPriorityBodyH_congr g sched _ _ 0 (fun _ _ _ _ _ s hs => by omega) mi mc ma t h s hs
  | succ n ih =>
    intro f1 f2 h1 h2 mi mc ma t h s hs
    obtain ⟨f1, rfl⟩ : ∃ k, f1 = k + 1 := ⟨f1 - 1, by omega⟩
    obtain ⟨f2, rfl⟩ : ∃ k, f2 = k + 1 := ⟨f2 - 1, by omega⟩
    exact minPriorityBodyH_congr g sched _ _ (n + 1)
      (fun mi mc ma t h s hs => ih f1 f2 (by omega) (by omega) mi mc ma t h s (by omega)) mi mc ma t h s hs

/-! ## the operations of one `CoinSet`: exact footprint and value-level meaning -/

/-- an operation on the set `cs` changed at most that set object: coin objects, all arrays, the number of set objects
    and every other set object are as before -/
structure OpFrame (cs : Nat) (h h' : Heap) : Prop where
  coins : h'.coins = h.coins
  arrs : h'.arrs = h.arrs
  slen : h'.sets.length = h.sets.length
  others : ∀ c, c ≠ cs → h'.sets[c]? = h.sets[c]?

theorem pushCoin_opFrame (h : Heap) (cs p : Nat) : OpFrame cs h (pushCoin h cs p) :=
  ⟨rfl, rfl, pushCoin_sets_length h cs p, fun c hc => by simp only [pushCoin]; exact getElem?_modify_ne' _ _ _ _ hc⟩

theorem popCoin_opFrame (h : Heap) (cs : Nat) : OpFrame cs h (popCoin h cs).1 := by
  unfold popCoin
  split
  · exact ⟨rfl, rfl, rfl, fun _ _ => rfl⟩
  · exact ⟨rfl, rfl, by simp, fun c hc => getElem?_modify_ne' _ _ _ _ hc⟩

theorem shiftCoin_opFrame (h : Heap) (cs : Nat) : OpFrame cs h (shiftCoin h cs).1 := by
  unfold shiftCoin
  split
  · exact ⟨rfl, rfl, rfl, fun _ _ => rfl⟩
  · exact ⟨rfl, rfl, by simp, fun c hc => getElem?_modify_ne' _ _ _ _ hc⟩

theorem coinAt_shiftCoin (h : Heap) (cs : Nat) : coinAt (shiftCoin h cs).1 = coinAt h := by
  unfold shiftCoin; split <;> rfl

/-- `PopCoin` is the value-level `CS.pop` -/
theorem readSet_popCoin (h : Heap) (cs : Nat) (hcs : cs < h.sets.length) :
    readSet (popCoin h cs).1 cs = (readSet h cs).pop.1 ∧
    (popCoin h cs).2.map (coinAt h) = (readSet h cs).pop.2 := by
  rcases List.eq_nil_or_concat (setAt h cs).list with hn | ⟨l, p, hl⟩
  · rw [popCoin_nil h cs hn, Bch.Proofs.CoinSet.pop_of_nil _ (by simp [readSet, hn])]
    exact ⟨rfl, rfl⟩
  · rw [List.concat_eq_append] at hl
    obtain ⟨h1, h2⟩ := popCoin_snoc h cs hcs l p hl
    rw [Bch.Proofs.CoinSet.pop_of_snoc (readSet h cs) (l.map (coinAt h)) (coinAt h p) (by simp [readSet, hl])]
    refine ⟨?_, by rw [h1]; rfl⟩
    simp only [readSet, coinAt_popCoin, h2]

/-- `ShiftCoin` is the value-level `CS.shift` -/
theorem readSet_shiftCoin (h : Heap) (cs : Nat) (hcs : cs < h.sets.length) :
    readSet (shiftCoin h cs).1 cs = (readSet h cs).shift.1 ∧
    (shiftCoin h cs).2.map (coinAt h) = (readSet h cs).shift.2 := by
  cases hl : (setAt h cs).list with
  | nil =>
    rw [shiftCoin_nil h cs hl, Bch.Proofs.CoinSet.shift_of_nil _ (by simp [readSet, hl])]
    exact ⟨rfl, rfl⟩
  | cons p l =>
    obtain ⟨h1, h2⟩ := shiftCoin_cons h cs hcs l p hl
    rw [Bch.Proofs.CoinSet.shift_of_cons (readSet h cs) (coinAt h p) (l.map (coinAt h)) (by simp [readSet, hl])]
    refine ⟨?_, by rw [h1]; rfl⟩
    simp only [readSet, coinAt_shiftCoin, h2]

/-- everything that existed is preserved, stated on the stores as lists -/
theorem Ext.take {h h' : Heap} (e : Ext h h') :
    h'.coins = h.coins ∧ h'.arrs.take h.arrs.length = h.arrs ∧ h'.sets.take h.sets.length = h.sets := by
  refine ⟨e.coins, ?_, ?_⟩
  · apply List.ext_getElem?
    intro b
    rw [List.getElem?_take]
    split
    · rename_i hb; exact e.arrs b hb
    · rename_i hb; rw [List.getElem?_eq_none (by omega)]
  · apply List.ext_getElem?
    intro b
    rw [List.getElem?_take]
    split
    · rename_i hb; exact e.sets b hb
    · rename_i hb; rw [List.getElem?_eq_none (by omega)]
