import Bch.Spec.BIP32
/-
Helper lemmas for C04 / C05 (BIP32 extended keys).
-/
namespace Bch.Proofs.HDKey
open Bch Bch.Model Bch.Model.HDKey

/-! ## Big-endian byte strings -/
section BytesLemmas
open Bytes

theorem snoc_induction {α : Type} {P : List α → Prop} (hnil : P [])
    (hsnoc : ∀ l b, P l → P (l ++ [b])) : ∀ l, P l := by
  intro l
  rw [← List.reverse_reverse l]
  induction l.reverse with
  | nil => exact hnil
  | cons b t ih => rw [List.reverse_cons]; exact hsnoc _ _ ih

theorem toNatBE_foldl (acc : Nat) (bs : Bytes) :
    bs.foldl (fun acc b => acc * 256 + b.toNat) acc = acc * 256 ^ bs.length + toNatBE bs := by
  induction bs generalizing acc with
  | nil => simp [toNatBE]
  | cons b bs ih =>
    simp only [List.foldl_cons, List.length_cons, toNatBE]
    rw [ih, ih (0 * 256 + b.toNat)]
    rw [Nat.pow_succ]
    simp only [Nat.zero_mul, Nat.zero_add, Nat.add_mul]
    rw [Nat.mul_assoc, Nat.mul_comm 256, Nat.add_assoc]

theorem toNatBE_nil : toNatBE [] = 0 := rfl

theorem toNatBE_append (a b : Bytes) :
    toNatBE (a ++ b) = toNatBE a * 256 ^ b.length + toNatBE b := by
  unfold toNatBE
  rw [List.foldl_append, toNatBE_foldl]
  rfl

theorem toNatBE_snoc (a : Bytes) (b : UInt8) : toNatBE (a ++ [b]) = toNatBE a * 256 + b.toNat := by
  rw [toNatBE_append]; simp [toNatBE]

theorem toNatBE_cons (b : UInt8) (a : Bytes) : toNatBE (b :: a) = b.toNat * 256 ^ a.length + toNatBE a := by
  have := toNatBE_append [b] a
  simpa [toNatBE] using this

theorem toNatBE_lt (bs : Bytes) : toNatBE bs < 256 ^ bs.length := by
  induction bs using snoc_induction with
  | hnil => simp [toNatBE]
  | hsnoc bs b ih =>
    rw [toNatBE_snoc, List.length_append, List.length_singleton, Nat.pow_succ]
    have := UInt8.toNat_lt b
    omega

theorem toNatBE_replicate_zero (m : Nat) : toNatBE (List.replicate m 0) = 0 := by
  induction m with
  | zero => rfl
  | succ m ih => rw [List.replicate_succ, toNatBE_cons, ih]; simp

theorem length_ofNatLE (m x : Nat) : (ofNatLE m x).length = m := by
  induction m generalizing x with
  | zero => rfl
  | succ m ih => simp [ofNatLE, ih]

@[simp] theorem length_ofNatBE (m x : Nat) : (ofNatBE m x).length = m := by
  simp [ofNatBE, length_ofNatLE]

theorem ofNatBE_succ (m x : Nat) :
    ofNatBE (m + 1) x = ofNatBE m (x / 256) ++ [UInt8.ofNat (x % 256)] := by
  simp [ofNatBE, ofNatLE]

theorem ofNatBE_zero (m : Nat) : ofNatBE m 0 = List.replicate m 0 := by
  induction m with
  | zero => rfl
  | succ m ih =>
    rw [ofNatBE_succ, Nat.zero_div, ih, List.replicate_succ']
    rfl

theorem toNatBE_ofNatBE_mod (m x : Nat) : toNatBE (ofNatBE m x) = x % 256 ^ m := by
  induction m generalizing x with
  | zero => simp [ofNatBE, ofNatLE, toNatBE, Nat.mod_one]
  | succ m ih =>
    rw [ofNatBE_succ, toNatBE_snoc, ih, Nat.pow_succ]
    have h : (UInt8.ofNat (x % 256)).toNat = x % 256 := by
      simp [UInt8.toNat_ofNat']
    rw [h, Nat.mul_comm (256 ^ m) 256, Nat.mod_mul]
    omega

theorem toNatBE_ofNatBE (m x : Nat) (h : x < 256 ^ m) : toNatBE (ofNatBE m x) = x := by
  rw [toNatBE_ofNatBE_mod, Nat.mod_eq_of_lt h]

theorem ofNatBE_toNatBE (bs : Bytes) : ofNatBE bs.length (toNatBE bs) = bs := by
  induction bs using snoc_induction with
  | hnil => rfl
  | hsnoc bs b ih =>
    rw [List.length_append, List.length_singleton, ofNatBE_succ, toNatBE_snoc]
    have hb := UInt8.toNat_lt b
    have h1 : (toNatBE bs * 256 + b.toNat) / 256 = toNatBE bs := by omega
    have h2 : (toNatBE bs * 256 + b.toNat) % 256 = b.toNat := by omega
    rw [h1, h2, ih]
    simp

theorem ofNatBE_toNatBE' (m : Nat) (bs : Bytes) (h : bs.length = m) : ofNatBE m (toNatBE bs) = bs := by
  subst h; exact ofNatBE_toNatBE bs

theorem ofNatMin_zero : ofNatMin 0 = [] := by
  rw [ofNatMin]; simp

theorem ofNatMin_pos (x : Nat) (h : x ≠ 0) :
    ofNatMin x = ofNatMin (x / 256) ++ [UInt8.ofNat (x % 256)] := by
  rw [ofNatMin]; simp [h]

theorem length_ofNatMin_le (m x : Nat) (h : x < 256 ^ m) : (ofNatMin x).length ≤ m := by
  induction m generalizing x with
  | zero =>
    have : x = 0 := by simpa using h
    subst this; simp [ofNatMin_zero]
  | succ m ih =>
    by_cases hx : x = 0
    · subst hx; simp [ofNatMin_zero]
    · rw [ofNatMin_pos x hx, List.length_append, List.length_singleton]
      have : x / 256 < 256 ^ m := by
        rw [Nat.pow_succ] at h; omega
      have := ih _ this
      omega

/-- the left padding of `big.Int.Bytes()` to `m` bytes is the fixed-width big-endian encoding -/
theorem pad_ofNatMin (m x : Nat) (h : x < 256 ^ m) :
    List.replicate (m - (ofNatMin x).length) 0 ++ ofNatMin x = ofNatBE m x := by
  induction m generalizing x with
  | zero =>
    have : x = 0 := by simpa using h
    subst this; simp [ofNatMin_zero, ofNatBE, ofNatLE]
  | succ m ih =>
    by_cases hx : x = 0
    · subst hx; simp [ofNatMin_zero, ofNatBE_zero]
    · have hlt : x / 256 < 256 ^ m := by
        rw [Nat.pow_succ] at h; omega
      rw [ofNatMin_pos x hx, ofNatBE_succ, ← ih _ hlt, List.length_append, List.length_singleton,
        Nat.add_sub_add_right, List.append_assoc]

theorem length_ofNatMin_eq (m k : Nat) (h1 : 256 ^ m ≤ k) (h2 : k < 256 ^ (m + 1)) :
    (ofNatMin k).length = m + 1 := by
  induction m generalizing k with
  | zero =>
    have hk : k ≠ 0 := by simp at h1; omega
    have hd : k / 256 = 0 := by simp at h2; omega
    rw [ofNatMin_pos k hk, hd, ofNatMin_zero]; rfl
  | succ m ih =>
    have hp : 0 < 256 ^ (m + 1) := Nat.pow_pos (by decide)
    have hk : k ≠ 0 := by omega
    rw [ofNatMin_pos k hk, List.length_append, List.length_singleton]
    rw [Nat.pow_succ] at h1 h2
    rw [ih (k / 256) (by omega) (by omega)]

end BytesLemmas

/-! ## Laws of the external primitives, well-formedness, abstraction -/
section Defs
open Bytes Bch.Spec.BIP32
variable {Pt : Type}

/-- addition on `Option Pt`, `none` (the point at infinity) being the identity -/
def addO (X : HDExt Pt) : Option Pt → Option Pt → Option Pt
  | none, q => q
  | some p, none => some p
  | some p, some q => X.add p q

/-- What the theorems assume about the external code (`bchec`, HMAC-SHA512, hash160, sha256d). -/
structure GroupLaws (X : HDExt Pt) : Prop where
  n_pos : 0 < X.n
  n_lt : X.n < 2 ^ 256
  /-- `k·G` depends only on `k mod n` -/
  mulG_mod : ∀ a, X.mulG (a % X.n) = X.mulG a
  /-- `k·G = ∞ ↔ n ∣ k` (G has order exactly n) -/
  mulG_none : ∀ a, X.mulG a = none ↔ a % X.n = 0
  /-- `a·G + b·G = (a+b)·G` -/
  mulG_add : ∀ a b, addO X (X.mulG a) (X.mulG b) = X.mulG (a + b)
  parse_serC : ∀ P, X.parse (X.serC P) = some P
  serC_len : ∀ P, (X.serC P).length = 33
  /-- compressed encodings start with 0x02/0x03, in particular not with 0x00 -/
  serC_head : ∀ P, (X.serC P).headD 1 ≠ 0
  serInf_len : X.serInf.length = 33
  hmac_len : ∀ k d, (X.hmac512 k d).length = 64
  hash160_len : ∀ x, (X.hash160 x).length = 20
  sha256d_len : ∀ x, 4 ≤ (X.sha256d x).length

/-- `ParsePubKey` accepts only the canonical compressed encoding of the point it returns. -/
def ParseCanonical (X : HDExt Pt) : Prop := ∀ b P, X.parse b = some P → b = X.serC P

structure WF (X : HDExt Pt) (k : XKey) : Prop where
  priv_len : k.isPrivate = true → k.key.length = 32
  pub_key : k.isPrivate = false → k.key.length = 33 ∧ ∃ P, X.parse k.key = some P ∧ k.key = X.serC P
  cc_len : k.chainCode.length = 32
  fp_len : k.parentFP.length = 4
  ver_len : k.version.length = 4
  depth_le : k.depth ≤ 255

/-- the private scalar is reduced mod n (guaranteed by `NewMaster`, `Child`, `NewKeyFromString`) -/
def Reduced (X : HDExt Pt) (k : XKey) : Prop := k.isPrivate = true → toNatBE k.key < X.n

/-- abstraction: the BIP32-level key a byte-level key stands for -/
def abs (X : HDExt Pt) (k : XKey) : Option (SKey Pt) :=
  if k.isPrivate then
    (X.mulG (toNatBE k.key)).map fun K =>
      ⟨some (toNatBE k.key), K, k.chainCode, k.depth, k.parentFP, k.childNum⟩
  else
    (X.parse k.key).map fun K => ⟨none, K, k.chainCode, k.depth, k.parentFP, k.childNum⟩

/-- the 37 bytes fed to HMAC by the Go code -/
def childData (X : HDExt Pt) (k : XKey) (i : Nat) : Bytes :=
  (if i ≥ hardenedKeyStart then copyInto 33 1 k.key else copyInto 33 0 (pubKeyBytes X k)) ++ ofNatBE 4 i

def childI (X : HDExt Pt) (k : XKey) (i : Nat) : Bytes := X.hmac512 k.chainCode (childData X k i)
def childIL (X : HDExt Pt) (k : XKey) (i : Nat) : Nat := toNatBE ((childI X k i).take 32)

/-- the `I` of BIP32's CKDpriv / CKDpub -/
def specI (X : HDExt Pt) (s : SKey Pt) (i : Nat) : Bytes :=
  match s.priv with
  | some k =>
    if i ≥ 2 ^ 31 then X.hmac512 s.c ([0] ++ ser256 k ++ ser32 i) else X.hmac512 s.c (X.serC s.pub ++ ser32 i)
  | none => X.hmac512 s.c (X.serC s.pub ++ ser32 i)

def specIL (X : HDExt Pt) (s : SKey Pt) (i : Nat) : Nat := parse256 ((specI X s i).take 32)

/-- the case BIP32 declares invalid but the Go code does not test: child scalar 0 / child point ∞ -/
def NonDegenerate (X : HDExt Pt) (s : SKey Pt) (i : Nat) : Prop :=
  match s.priv with
  | some k => (specIL X s i + k) % X.n ≠ 0
  | none => addO X (X.mulG (specIL X s i)) (some s.pub) ≠ none

theorem nondeg_priv {X : HDExt Pt} {s : SKey Pt} {kk : Nat} (hs : s.priv = some kk) (i : Nat) :
    NonDegenerate X s i ↔ (specIL X s i + kk) % X.n ≠ 0 := by
  cases s; simp only at hs; subst hs; exact Iff.rfl

theorem nondeg_pub {X : HDExt Pt} {s : SKey Pt} (hs : s.priv = none) (i : Nat) :
    NonDegenerate X s i ↔ addO X (X.mulG (specIL X s i)) (some s.pub) ≠ none := by
  cases s; simp only at hs; subst hs; exact Iff.rfl

end Defs

section ChildLemmas
open Bytes Bch.Spec.BIP32
variable {Pt : Type} {X : HDExt Pt}

theorem copyInto_exact (off : Nat) (src : Bytes) (m : Nat) (h : m = off + src.length) :
    copyInto m off src = List.replicate off 0 ++ src := by
  subst h
  unfold copyInto
  rw [List.take_append_of_le_length (by simp)]
  apply List.take_of_length_le; simp

theorem serOpt_len (L : GroupLaws X) (o : Option Pt) : (serOpt X o).length = 33 := by
  cases o with
  | none => exact L.serInf_len
  | some p => exact L.serC_len p

theorem pubKeyBytes_len (L : GroupLaws X) {k : XKey} (hwf : WF X k) : (pubKeyBytes X k).length = 33 := by
  unfold pubKeyBytes
  cases hp : k.isPrivate with
  | true => simpa using serOpt_len L _
  | false => simpa using (hwf.pub_key hp).1

theorem pow256_32 : (256:Nat) ^ 32 = 2 ^ 256 := by decide

theorem Child_priv (L : GroupLaws X) {k : XKey} (hp : k.isPrivate = true) (i : Nat) :
    Child X k i =
      if k.depth = 255 then .error .deriveBeyondMaxDepth
      else if childIL X k i ≥ X.n ∨ childIL X k i = 0 then .error .invalidChild
      else .ok { key := ofNatBE 32 ((childIL X k i + toNatBE k.key) % X.n),
                 chainCode := (childI X k i).drop 32, depth := k.depth + 1,
                 parentFP := (X.hash160 (pubKeyBytes X k)).take 4, childNum := i,
                 version := k.version, isPrivate := true } := by
  have hlt : (childIL X k i + toNatBE k.key) % X.n < 256 ^ 32 := by
    rw [pow256_32]; exact Nat.lt_trans (Nat.mod_lt _ L.n_pos) L.n_lt
  unfold Child
  simp only [hp, Bool.not_true, Bool.false_eq_true, false_and, if_false, if_true]
  split
  · rfl
  · change (if childIL X k i ≥ X.n ∨ childIL X k i = 0 then _ else _) = _
    split
    · rfl
    · have e := pad_ofNatMin 32 _ hlt
      simp only [childIL, childI, childData] at e ⊢
      rw [e]

theorem mulG_isSome (L : GroupLaws X) {a : Nat} (h0 : a ≠ 0) (hn : a < X.n) : ∃ Q, X.mulG a = some Q := by
  cases h : X.mulG a with
  | some Q => exact ⟨Q, rfl⟩
  | none =>
    have := (L.mulG_none a).1 h
    rw [Nat.mod_eq_of_lt hn] at this
    exact absurd this h0

theorem Child_pub (L : GroupLaws X) {k : XKey} (hp : k.isPrivate = false) (i : Nat) {P : Pt}
    (hP : X.parse k.key = some P) :
    Child X k i =
      if k.depth = 255 then .error .deriveBeyondMaxDepth
      else if i ≥ hardenedKeyStart then .error .deriveHardFromPublic
      else if childIL X k i ≥ X.n ∨ childIL X k i = 0 then .error .invalidChild
      else .ok { key := serOpt X (addO X (X.mulG (childIL X k i)) (some P)),
                 chainCode := (childI X k i).drop 32, depth := k.depth + 1,
                 parentFP := (X.hash160 (pubKeyBytes X k)).take 4, childNum := i,
                 version := k.version, isPrivate := false } := by
  unfold Child
  simp only [hp, Bool.not_false, true_and, Bool.false_eq_true, if_false]
  split
  · rfl
  · split
    · rfl
    · rename_i hh
      simp only [childIL, childI, childData, if_neg hh]
      split
      · rfl
      · rename_i hil
        obtain ⟨Q, hQ⟩ := mulG_isSome L (a := toNatBE (List.take 32 (X.hmac512 k.chainCode
          (copyInto 33 0 (pubKeyBytes X k) ++ ofNatBE 4 i)))) (by omega) (by omega)
        rw [hQ]
        simp only [hP, addO]

theorem hardened_eq : hardenedKeyStart = 2 ^ 31 := by decide

theorem abs_priv {k : XKey} (hp : k.isPrivate = true) {s : SKey Pt} (h : abs X k = some s) :
    ∃ K, X.mulG (toNatBE k.key) = some K ∧
      s = ⟨some (toNatBE k.key), K, k.chainCode, k.depth, k.parentFP, k.childNum⟩ := by
  unfold abs at h
  simp only [hp, if_true, Option.map_eq_some_iff] at h
  obtain ⟨K, hK, rfl⟩ := h
  exact ⟨K, hK, rfl⟩

theorem abs_pub {k : XKey} (hp : k.isPrivate = false) {s : SKey Pt} (h : abs X k = some s) :
    ∃ K, X.parse k.key = some K ∧
      s = ⟨none, K, k.chainCode, k.depth, k.parentFP, k.childNum⟩ := by
  unfold abs at h
  simp only [hp, Bool.false_eq_true, if_false, Option.map_eq_some_iff] at h
  obtain ⟨K, hK, rfl⟩ := h
  exact ⟨K, hK, rfl⟩

theorem abs_priv_of {k : XKey} (hp : k.isPrivate = true) {K : Pt} (hK : X.mulG (toNatBE k.key) = some K) :
    abs X k = some ⟨some (toNatBE k.key), K, k.chainCode, k.depth, k.parentFP, k.childNum⟩ := by
  simp only [abs, hp, if_true, hK, Option.map_some]

theorem abs_pub_of {k : XKey} (hp : k.isPrivate = false) {K : Pt} (hK : X.parse k.key = some K) :
    abs X k = some ⟨none, K, k.chainCode, k.depth, k.parentFP, k.childNum⟩ := by
  simp only [abs, hp, Bool.false_eq_true, if_false, hK, Option.map_some]

/-- the fields `abs` copies -/
theorem abs_fields {k : XKey} {s : SKey Pt} (h : abs X k = some s) :
    s.c = k.chainCode ∧ s.depth = k.depth ∧ s.fp = k.parentFP ∧ s.idx = k.childNum ∧
      s.priv.isSome = k.isPrivate := by
  cases hp : k.isPrivate with
  | true => obtain ⟨K, _, rfl⟩ := abs_priv hp h; simp
  | false => obtain ⟨K, _, rfl⟩ := abs_pub hp h; simp

theorem pubKeyBytes_priv {k : XKey} (hp : k.isPrivate = true) {K : Pt}
    (hK : X.mulG (toNatBE k.key) = some K) : pubKeyBytes X k = X.serC K := by
  simp [pubKeyBytes, hp, hK, serOpt]

theorem pubKeyBytes_pub {k : XKey} (hp : k.isPrivate = false) : pubKeyBytes X k = k.key := by
  simp [pubKeyBytes, hp]

/-- for a well-formed key the public key bytes are the compressed encoding of `(abs k).pub` -/
theorem pubKeyBytes_abs {k : XKey} (hwf : WF X k) {s : SKey Pt} (h : abs X k = some s) :
    pubKeyBytes X k = X.serC s.pub := by
  cases hp : k.isPrivate with
  | true => obtain ⟨K, hK, rfl⟩ := abs_priv hp h; exact pubKeyBytes_priv hp hK
  | false =>
    obtain ⟨K, hK, rfl⟩ := abs_pub hp h
    obtain ⟨_, P, hP, hser⟩ := hwf.pub_key hp
    rw [hK] at hP; cases hP
    rw [pubKeyBytes_pub hp]; exact hser

/-- the HMAC input/output of the Go code is the `I` of the specification -/
theorem childI_eq_specI (L : GroupLaws X) {k : XKey} (hwf : WF X k) {s : SKey Pt} (h : abs X k = some s)
    (i : Nat) (hi : k.isPrivate = true ∨ i < 2 ^ 31) : childI X k i = specI X s i := by
  have hpk := pubKeyBytes_abs hwf h
  have hpl : (pubKeyBytes X k).length = 33 := by rw [hpk]; exact L.serC_len _
  have hnh : copyInto 33 0 (pubKeyBytes X k) = X.serC s.pub := by
    rw [copyInto_exact 0 _ 33 (by simp [hpl])]; simpa using hpk
  cases hp : k.isPrivate with
  | true =>
    obtain ⟨K, hK, rfl⟩ := abs_priv hp h
    have hkl := hwf.priv_len hp
    simp only [childI, childData, specI, hardened_eq, ser256, ser32]
    split
    · rw [copyInto_exact 1 _ 33 (by simp [hkl]), ofNatBE_toNatBE' 32 _ hkl]; rfl
    · rw [hnh]
  | false =>
    obtain ⟨K, hK, rfl⟩ := abs_pub hp h
    have hi' : ¬ i ≥ 2 ^ 31 := by
      rcases hi with hi | hi
      · rw [hp] at hi; cases hi
      · omega
    simp only [childI, childData, specI, hardened_eq, ser32, if_neg hi']
    rw [hnh]

theorem childIL_eq_specIL (L : GroupLaws X) {k : XKey} (hwf : WF X k) {s : SKey Pt} (h : abs X k = some s)
    (i : Nat) (hi : k.isPrivate = true ∨ i < 2 ^ 31) : childIL X k i = specIL X s i := by
  simp only [childIL, specIL, parse256, childI_eq_specI L hwf h i hi]

end ChildLemmas

/-! ## The invariant -/
section Invariant
open Bytes Bch.Spec.BIP32
variable {Pt : Type} {X : HDExt Pt}

theorem wf_newMaster (L : GroupLaws X) {seed hdPriv : Bytes} (hv : hdPriv.length = 4) {k : XKey}
    (h : NewMaster X seed hdPriv = .ok k) :
    WF X k ∧ Reduced X k ∧ toNatBE k.key ≠ 0 ∧ k.isPrivate = true ∧ k.depth = 0 := by
  unfold NewMaster at h
  split at h
  · cases h
  · simp only [] at h
    split at h
    · cases h
    · rename_i hr
      cases h
      have hl := L.hmac_len masterKey seed
      refine ⟨⟨?_, ?_, ?_, ?_, ?_, ?_⟩, ?_, ?_, rfl, rfl⟩
      · intro _; simp [hl]
      · intro hf; cases hf
      · simp [hl]
      · rfl
      · exact hv
      · simp
      · intro _; simp only; omega
      · simp only; omega

theorem child_lens (L : GroupLaws X) {k : XKey} (hwf : WF X k) {i : Nat} {k' : XKey}
    (h : Child X k i = .ok k') :
    k'.chainCode.length = 32 ∧ k'.parentFP.length = 4 ∧ k'.version = k.version ∧
      k'.depth = k.depth + 1 ∧ k'.depth ≤ 255 ∧ k'.childNum = i ∧ k'.isPrivate = k.isPrivate ∧
      k'.chainCode = (childI X k i).drop 32 ∧ k'.parentFP = (X.hash160 (pubKeyBytes X k)).take 4 := by
  have hI : ((childI X k i).drop 32).length = 32 := by simp [childI, L.hmac_len]
  have hF : ((X.hash160 (pubKeyBytes X k)).take 4).length = 4 := by simp [L.hash160_len]
  have hd := hwf.depth_le
  cases hp : k.isPrivate with
  | true =>
    rw [Child_priv L hp] at h
    split at h
    · cases h
    · split at h
      · cases h
      · cases h; exact ⟨hI, hF, rfl, rfl, by simp only; omega, rfl, rfl, rfl, rfl⟩
  | false =>
    obtain ⟨_, P, hP, _⟩ := hwf.pub_key hp
    rw [Child_pub L hp i hP] at h
    split at h
    · cases h
    · split at h
      · cases h
      · split at h
        · cases h
        · cases h; exact ⟨hI, hF, rfl, rfl, by simp only; omega, rfl, rfl, rfl, rfl⟩

theorem wf_child_priv (L : GroupLaws X) {k : XKey} (hwf : WF X k) (hp : k.isPrivate = true) {i : Nat}
    {k' : XKey} (h : Child X k i = .ok k') :
    WF X k' ∧ Reduced X k' ∧ k'.isPrivate = true ∧
      k'.key = ofNatBE 32 ((childIL X k i + toNatBE k.key) % X.n) := by
  obtain ⟨h1, h2, h3, h4, h5, h6, h7, _⟩ := child_lens L hwf h
  have hlt : (childIL X k i + toNatBE k.key) % X.n < 256 ^ 32 := by
    rw [pow256_32]; exact Nat.lt_trans (Nat.mod_lt _ L.n_pos) L.n_lt
  have hk : k'.key = ofNatBE 32 ((childIL X k i + toNatBE k.key) % X.n) := by
    rw [Child_priv L hp] at h
    split at h
    · cases h
    · split at h
      · cases h
      · cases h; rfl
  rw [hp] at h7
  refine ⟨⟨?_, ?_, h1, h2, ?_, h5⟩, ?_, h7, hk⟩
  · intro _; rw [hk]; simp
  · intro hf; rw [h7] at hf; cases hf
  · rw [h3]; exact hwf.ver_len
  · intro _; rw [hk, toNatBE_ofNatBE _ _ hlt]; exact Nat.mod_lt _ L.n_pos

theorem wf_child_pub (L : GroupLaws X) {k : XKey} (hwf : WF X k) (hp : k.isPrivate = false) {i : Nat}
    {k' : XKey} (h : Child X k i = .ok k') {Q : Pt}
    (hnd : addO X (X.mulG (childIL X k i)) (X.parse k.key) = some Q) :
    WF X k' ∧ k'.isPrivate = false ∧ k'.key = X.serC Q := by
  obtain ⟨h1, h2, h3, h4, h5, h6, h7, _⟩ := child_lens L hwf h
  obtain ⟨_, P, hP, _⟩ := hwf.pub_key hp
  have hk : k'.key = X.serC Q := by
    rw [Child_pub L hp i hP] at h
    split at h
    · cases h
    · split at h
      · cases h
      · split at h
        · cases h
        · cases h; simp only; rw [← hP, hnd]; rfl
  rw [hp] at h7
  refine ⟨⟨?_, ?_, h1, h2, ?_, h5⟩, h7, hk⟩
  · intro hf; rw [h7] at hf; cases hf
  · intro _; rw [hk]; exact ⟨L.serC_len Q, Q, L.parse_serC Q, rfl⟩
  · rw [h3]; exact hwf.ver_len

theorem hdPairs_len {v w : Bytes} (h : hdPairs.lookup v = some w) : w.length = 4 := by
  unfold hdPairs at h
  simp only [List.lookup] at h
  repeat (split at h; (first | (cases h; rfl) | skip))
  cases h

theorem wf_neuter (L : GroupLaws X) {k : XKey} (hwf : WF X k)
    (hnz : k.isPrivate = true → toNatBE k.key % X.n ≠ 0) {k' : XKey} (h : Neuter X k = .ok k') :
    WF X k' ∧ k'.isPrivate = false ∧ k'.key = pubKeyBytes X k ∧ k'.chainCode = k.chainCode ∧
      k'.depth = k.depth ∧ k'.parentFP = k.parentFP ∧ k'.childNum = k.childNum := by
  unfold Neuter at h
  cases hp : k.isPrivate with
  | false =>
    simp only [hp, Bool.not_false, if_true] at h
    cases h
    exact ⟨hwf, hp, (pubKeyBytes_pub hp).symm, rfl, rfl, rfl, rfl⟩
  | true =>
    simp only [hp, Bool.not_true, Bool.false_eq_true, if_false] at h
    split at h
    · cases h
    · rename_i v hv
      cases h
      cases hK : X.mulG (toNatBE k.key) with
      | none => exact absurd ((L.mulG_none _).1 hK) (hnz hp)
      | some K =>
        refine ⟨⟨?_, ?_, hwf.cc_len, hwf.fp_len, hdPairs_len hv, hwf.depth_le⟩, rfl, rfl, rfl, rfl, rfl, rfl⟩
        · intro hf; cases hf
        · intro _
          simp only [pubKeyBytes_priv hp hK]
          exact ⟨L.serC_len K, K, L.parse_serC K, rfl⟩

end Invariant
end Bch.Proofs.HDKey

namespace Bch.Proofs.HDKey
open Bch Bch.Model Bch.Model.HDKey
/-! ## Refinement of `Child` -/
section Refinement
open Bytes Bch.Spec.BIP32
variable {Pt : Type} {X : HDExt Pt}

theorem spec_child_priv (s : SKey Pt) {kk : Nat} (hs : s.priv = some kk) (i : Nat) :
    child X s i =
      if specIL X s i ≥ X.n ∨ (specIL X s i + kk) % X.n = 0 then none else
      (X.mulG ((specIL X s i + kk) % X.n)).map fun Ki =>
        ⟨some ((specIL X s i + kk) % X.n), Ki, (specI X s i).drop 32, s.depth + 1, fingerprint X s.pub, i⟩ := by
  cases s; simp only at hs; subst hs; rfl

theorem spec_child_pub (s : SKey Pt) (hs : s.priv = none) (i : Nat) :
    child X s i =
      if i ≥ 2 ^ 31 then none else
      if specIL X s i ≥ X.n then none else
      match X.mulG (specIL X s i) with
      | none => none
      | some P => (X.add P s.pub).map fun Ki =>
        ⟨none, Ki, (specI X s i).drop 32, s.depth + 1, fingerprint X s.pub, i⟩ := by
  cases s; simp only at hs; subst hs
  rfl

theorem child_error_priv (L : GroupLaws X) {k : XKey} (hp : k.isPrivate = true) (i : Nat) (e : Err) :
    Child X k i = .error e ↔
      (k.depth = 255 ∧ e = .deriveBeyondMaxDepth) ∨
      (k.depth ≠ 255 ∧ (childIL X k i ≥ X.n ∨ childIL X k i = 0) ∧ e = .invalidChild) := by
  rw [Child_priv L hp]
  split
  · rename_i h
    constructor
    · intro he; cases he; exact Or.inl ⟨h, rfl⟩
    · rintro (⟨_, rfl⟩ | ⟨h', _⟩)
      · rfl
      · exact absurd h h'
  · rename_i h
    split
    · rename_i h2
      constructor
      · intro he; cases he; exact Or.inr ⟨h, h2, rfl⟩
      · rintro (⟨h', _⟩ | ⟨_, _, rfl⟩)
        · exact absurd h' h
        · rfl
    · rename_i h2; simp [h, h2]

theorem child_error_pub (L : GroupLaws X) {k : XKey} (hp : k.isPrivate = false) {P : Pt}
    (hP : X.parse k.key = some P) (i : Nat) (e : Err) :
    Child X k i = .error e ↔
      (k.depth = 255 ∧ e = .deriveBeyondMaxDepth) ∨
      (k.depth ≠ 255 ∧ i ≥ 2 ^ 31 ∧ e = .deriveHardFromPublic) ∨
      (k.depth ≠ 255 ∧ i < 2 ^ 31 ∧ (childIL X k i ≥ X.n ∨ childIL X k i = 0) ∧ e = .invalidChild) := by
  rw [Child_pub L hp i hP, hardened_eq]
  split
  · rename_i h
    constructor
    · intro he; cases he; exact Or.inl ⟨h, rfl⟩
    · rintro (⟨_, rfl⟩ | ⟨h', _⟩ | ⟨h', _⟩)
      · rfl
      · exact absurd h h'
      · exact absurd h h'
  · rename_i h
    split
    · rename_i h1
      constructor
      · intro he; cases he; exact Or.inr (Or.inl ⟨h, h1, rfl⟩)
      · rintro (⟨h', _⟩ | ⟨_, _, rfl⟩ | ⟨_, h', _⟩)
        · exact absurd h' h
        · rfl
        · omega
    · rename_i h1
      split
      · rename_i h2
        constructor
        · intro he; cases he; exact Or.inr (Or.inr ⟨h, by omega, h2, rfl⟩)
        · rintro (⟨h', _⟩ | ⟨_, h', _⟩ | ⟨_, _, _, rfl⟩)
          · exact absurd h' h
          · omega
          · rfl
      · rename_i h2; simp [h, h1, h2]

theorem refines_priv (L : GroupLaws X) {k : XKey} (hwf : WF X k) (hp : k.isPrivate = true)
    {s : SKey Pt} (habs : abs X k = some s) {i : Nat} {k' : XKey} (hc : Child X k i = .ok k')
    (hnd : NonDegenerate X s i) :
    ∃ s', child X s i = some s' ∧ abs X k' = some s' ∧ WF X k' ∧
      s'.priv = some ((specIL X s i + toNatBE k.key) % X.n) ∧ s'.depth = s.depth + 1 ∧ s'.idx = i ∧
      s'.fp = fingerprint X s.pub ∧ s'.c = (specI X s i).drop 32 := by
  have hIL := childIL_eq_specIL L hwf habs i (Or.inl hp)
  have hI := childI_eq_specI L hwf habs i (Or.inl hp)
  have hpk := pubKeyBytes_abs hwf habs
  obtain ⟨hwf', _, hp', hk'⟩ := wf_child_priv L hwf hp hc
  obtain ⟨_, _, _, hd', _, hcn', _, hcc', hfp'⟩ := child_lens L hwf hc
  obtain ⟨K, hK, hs⟩ := abs_priv hp habs
  have hpriv : s.priv = some (toNatBE k.key) := by rw [hs]
  have hsd : s.depth = k.depth := by rw [hs]
  have hnd' : (specIL X s i + toNatBE k.key) % X.n ≠ 0 := by
    unfold NonDegenerate at hnd; rw [hpriv] at hnd; exact hnd
  have hd : k.depth ≠ 255 := by
    intro h255; rw [Child_priv L hp, if_pos h255] at hc; cases hc
  have hil : ¬ (specIL X s i ≥ X.n) := by
    intro hge
    have := (child_error_priv L hp i .invalidChild).2 (Or.inr ⟨hd, Or.inl (by rw [hIL]; exact hge), rfl⟩)
    rw [this] at hc; cases hc
  have hlt : (specIL X s i + toNatBE k.key) % X.n < 256 ^ 32 := by
    rw [pow256_32]; exact Nat.lt_trans (Nat.mod_lt _ L.n_pos) L.n_lt
  obtain ⟨Ki, hKi⟩ := mulG_isSome L hnd' (Nat.mod_lt _ L.n_pos)
  refine ⟨⟨some ((specIL X s i + toNatBE k.key) % X.n), Ki, (specI X s i).drop 32, s.depth + 1,
    fingerprint X s.pub, i⟩, ?_, ?_, hwf', rfl, rfl, rfl, rfl, rfl⟩
  · rw [spec_child_priv s hpriv, if_neg (by simp [hil, hnd']), hKi]; rfl
  · unfold abs
    rw [hp', if_pos rfl, hk', hIL, toNatBE_ofNatBE _ _ hlt, hKi, hd', hcn', hcc', hfp', hI, hpk, hsd]
    rfl

theorem refines_pub (L : GroupLaws X) {k : XKey} (hwf : WF X k) (hp : k.isPrivate = false)
    {s : SKey Pt} (habs : abs X k = some s) {i : Nat} {k' : XKey} (hc : Child X k i = .ok k')
    (hnd : NonDegenerate X s i) :
    ∃ s', child X s i = some s' ∧ abs X k' = some s' ∧ WF X k' ∧
      s'.priv = none ∧ addO X (X.mulG (specIL X s i)) (some s.pub) = some s'.pub ∧
      s'.depth = s.depth + 1 ∧ s'.idx = i ∧
      s'.fp = fingerprint X s.pub ∧ s'.c = (specI X s i).drop 32 := by
  obtain ⟨K, hK, hs⟩ := abs_pub hp habs
  have hpriv : s.priv = none := by rw [hs]
  have hsd : s.depth = k.depth := by rw [hs]
  have hspub : s.pub = K := by rw [hs]
  -- the guards passed
  have hd : k.depth ≠ 255 := by
    intro h255; rw [Child_pub L hp i hK, if_pos h255] at hc; cases hc
  have hi : i < 2 ^ 31 := by
    apply Nat.lt_of_not_ge; intro hge
    have := (child_error_pub L hp hK i .deriveHardFromPublic).2 (Or.inr (Or.inl ⟨hd, hge, rfl⟩))
    rw [this] at hc; cases hc
  have hIL := childIL_eq_specIL L hwf habs i (Or.inr hi)
  have hI := childI_eq_specI L hwf habs i (Or.inr hi)
  have hpk := pubKeyBytes_abs hwf habs
  have hrange : ¬ (childIL X k i ≥ X.n ∨ childIL X k i = 0) := by
    intro hr
    have := (child_error_pub L hp hK i .invalidChild).2 (Or.inr (Or.inr ⟨hd, hi, hr, rfl⟩))
    rw [this] at hc; cases hc
  rw [hIL] at hrange
  obtain ⟨P, hP⟩ := mulG_isSome L (a := specIL X s i) (by omega) (by omega)
  have hnd' : addO X (X.mulG (specIL X s i)) (some s.pub) ≠ none := by
    unfold NonDegenerate at hnd; rw [hpriv] at hnd; exact hnd
  cases hQ : addO X (X.mulG (specIL X s i)) (some s.pub) with
  | none => exact absurd hQ hnd'
  | some Q =>
    have hadd : X.add P s.pub = some Q := by rw [hP] at hQ; exact hQ
    obtain ⟨hwf', hp', hk'⟩ := wf_child_pub L hwf hp hc (Q := Q) (by rw [hIL, hK, ← hspub]; exact hQ)
    obtain ⟨_, _, _, hd', _, hcn', _, hcc', hfp'⟩ := child_lens L hwf hc
    refine ⟨⟨none, Q, (specI X s i).drop 32, s.depth + 1, fingerprint X s.pub, i⟩, ?_, ?_, hwf', rfl, rfl, rfl,
      rfl, rfl, rfl⟩
    · rw [spec_child_pub s hpriv, if_neg (by omega), if_neg (by omega), hP]
      simp only [hadd, Option.map_some]
    · unfold abs
      rw [hp', if_neg (by simp), hk', L.parse_serC, hd', hcn', hcc', hfp', hI, hpk, hsd]
      rfl

/-- when the specification rejects (private parent) -/
theorem spec_child_none_priv (L : GroupLaws X) (s : SKey Pt) {kk : Nat} (hs : s.priv = some kk) (i : Nat) :
    child X s i = none ↔ specIL X s i ≥ X.n ∨ (specIL X s i + kk) % X.n = 0 := by
  rw [spec_child_priv s hs]
  split
  · rename_i h; simp [h]
  · rename_i h
    obtain ⟨Ki, hKi⟩ := mulG_isSome L (a := (specIL X s i + kk) % X.n) (by omega) (Nat.mod_lt _ L.n_pos)
    simp [hKi, h]

/-- when the specification (as transcribed) rejects (public parent) -/
theorem spec_child_none_pub (L : GroupLaws X) (s : SKey Pt) (hs : s.priv = none) (i : Nat) :
    child X s i = none ↔
      i ≥ 2 ^ 31 ∨ specIL X s i ≥ X.n ∨ specIL X s i = 0 ∨
        addO X (X.mulG (specIL X s i)) (some s.pub) = none := by
  rw [spec_child_pub s hs]
  split
  · rename_i h; simp [h]
  · rename_i h
    split
    · rename_i h2; simp [h2]
    · rename_i h2
      by_cases h0 : specIL X s i = 0
      · have : X.mulG (specIL X s i) = none := (L.mulG_none _).2 (by rw [h0]; exact Nat.zero_mod _)
        rw [this]; simp [h0]
      · obtain ⟨P, hP⟩ := mulG_isSome L h0 (by omega)
        rw [hP]
        simp [h, h2, h0, addO]

/-- converse direction, private: whenever the specification yields a child and `IL ≠ 0`, so does the
Go code (depth guard aside), and the results correspond -/
theorem refines_priv_complete (L : GroupLaws X) {k : XKey} (hwf : WF X k) (hp : k.isPrivate = true)
    {s : SKey Pt} (habs : abs X k = some s) {i : Nat} (hd : k.depth ≠ 255) {s' : SKey Pt}
    (hs' : child X s i = some s') (h0 : specIL X s i ≠ 0) :
    ∃ k', Child X k i = .ok k' ∧ abs X k' = some s' ∧ WF X k' := by
  obtain ⟨K, _, hs⟩ := abs_priv hp habs
  have hpriv : s.priv = some (toNatBE k.key) := by rw [hs]
  have hIL := childIL_eq_specIL L hwf habs i (Or.inl hp)
  have hnn : ¬ (specIL X s i ≥ X.n ∨ (specIL X s i + toNatBE k.key) % X.n = 0) := by
    intro h; rw [(spec_child_none_priv L s hpriv i).2 h] at hs'; cases hs'
  cases hc : Child X k i with
  | error e =>
    rcases (child_error_priv L hp i e).1 hc with ⟨h, _⟩ | ⟨_, h, _⟩
    · exact absurd h hd
    · rw [hIL] at h; omega
  | ok k' =>
    obtain ⟨s'', h1, h2, h3, _⟩ := refines_priv L hwf hp habs hc ((nondeg_priv hpriv i).2 (by omega))
    rw [hs'] at h1; cases h1
    exact ⟨k', rfl, h2, h3⟩

/-- converse direction, public -/
theorem refines_pub_complete (L : GroupLaws X) {k : XKey} (hwf : WF X k) (hp : k.isPrivate = false)
    {s : SKey Pt} (habs : abs X k = some s) {i : Nat} (hd : k.depth ≠ 255) {s' : SKey Pt}
    (hs' : child X s i = some s') :
    ∃ k', Child X k i = .ok k' ∧ abs X k' = some s' ∧ WF X k' := by
  obtain ⟨K, hK, hs⟩ := abs_pub hp habs
  have hpriv : s.priv = none := by rw [hs]
  have hnn : ¬ (i ≥ 2 ^ 31 ∨ specIL X s i ≥ X.n ∨ specIL X s i = 0 ∨
      addO X (X.mulG (specIL X s i)) (some s.pub) = none) := by
    intro h; rw [(spec_child_none_pub L s hpriv i).2 h] at hs'; cases hs'
  have hi : i < 2 ^ 31 := by omega
  have hIL := childIL_eq_specIL L hwf habs i (Or.inr hi)
  cases hc : Child X k i with
  | error e =>
    rcases (child_error_pub L hp hK i e).1 hc with ⟨h, _⟩ | ⟨_, h, _⟩ | ⟨_, _, h, _⟩
    · exact absurd h hd
    · omega
    · rw [hIL] at h; omega
  | ok k' =>
    obtain ⟨s'', h1, h2, h3, _⟩ := refines_pub L hwf hp habs hc
      ((nondeg_pub hpriv i).2 (fun h => hnn (Or.inr (Or.inr (Or.inr h)))))
    rw [hs'] at h1; cases h1
    exact ⟨k', rfl, h2, h3⟩

end Refinement
end Bch.Proofs.HDKey

namespace Bch.Proofs.HDKey
open Bch Bch.Model Bch.Model.HDKey
/-! ## Paths, master key, serialisation, neutering, guards -/
section Rest
open Bytes Bch.Spec.BIP32
variable {Pt : Type} {X : HDExt Pt}

/-- `k.Child(i₁).Child(i₂)…` with Go's error propagation -/
def derivePath (X : HDExt Pt) (k : XKey) : List Nat → Except Err XKey
  | [] => .ok k
  | i :: p => match Child X k i with
    | .error e => .error e
    | .ok k' => derivePath X k' p

/-- `CKD(…CKD(CKD(s, i₁), i₂)…)` -/
def specPath (X : HDExt Pt) (s : SKey Pt) : List Nat → Option (SKey Pt)
  | [] => some s
  | i :: p => match child X s i with
    | none => none
    | some s' => specPath X s' p

/-- no step of the path hits the child-scalar-0 / child-point-∞ case -/
def NonDegPath (X : HDExt Pt) : SKey Pt → List Nat → Prop
  | _, [] => True
  | s, i :: p => NonDegenerate X s i ∧ ∀ s', child X s i = some s' → NonDegPath X s' p

theorem refines_step (L : GroupLaws X) {k : XKey} (hwf : WF X k)
    {s : SKey Pt} (habs : abs X k = some s) {i : Nat} {k' : XKey} (hc : Child X k i = .ok k')
    (hnd : NonDegenerate X s i) :
    ∃ s', child X s i = some s' ∧ abs X k' = some s' ∧ WF X k' := by
  cases hp : k.isPrivate with
  | true => obtain ⟨s', h1, h2, h3, _⟩ := refines_priv L hwf hp habs hc hnd; exact ⟨s', h1, h2, h3⟩
  | false => obtain ⟨s', h1, h2, h3, _⟩ := refines_pub L hwf hp habs hc hnd; exact ⟨s', h1, h2, h3⟩

theorem refines_path (L : GroupLaws X) (p : List Nat) {k : XKey} (hwf : WF X k)
    {s : SKey Pt} (habs : abs X k = some s) {k' : XKey} (hc : derivePath X k p = .ok k')
    (hnd : NonDegPath X s p) :
    ∃ s', specPath X s p = some s' ∧ abs X k' = some s' ∧ WF X k' := by
  induction p generalizing k s with
  | nil => cases hc; exact ⟨s, rfl, habs, hwf⟩
  | cons i p ih =>
    unfold derivePath at hc
    split at hc
    · cases hc
    · rename_i k1 hk1
      obtain ⟨s1, hs1, ha1, hw1⟩ := refines_step L hwf habs hk1 hnd.1
      obtain ⟨s', hs', ha', hw'⟩ := ih hw1 ha1 hc (hnd.2 s1 hs1)
      exact ⟨s', by simp only [specPath, hs1, hs'], ha', hw'⟩

theorem master_eq (seed : Bytes) :
    master X seed =
      if seed.length < 16 ∨ seed.length > 64 then none else
      if toNatBE ((X.hmac512 masterKey seed).take 32) = 0 ∨
          toNatBE ((X.hmac512 masterKey seed).take 32) ≥ X.n then none else
      (X.mulG (toNatBE ((X.hmac512 masterKey seed).take 32))).map fun K =>
        ⟨some (toNatBE ((X.hmac512 masterKey seed).take 32)), K, (X.hmac512 masterKey seed).drop 32, 0,
          [0,0,0,0], 0⟩ := rfl

theorem master_refines (L : GroupLaws X) {seed v : Bytes} {k : XKey} (h : NewMaster X seed v = .ok k) :
    ∃ s, master X seed = some s ∧ abs X k = some s := by
  unfold NewMaster at h
  split at h
  · cases h
  · rename_i hlen
    simp only [] at h
    split at h
    · cases h
    · rename_i hr
      cases h
      obtain ⟨K, hK⟩ := mulG_isSome L (a := toNatBE ((X.hmac512 masterKey seed).take 32)) (by omega) (by omega)
      refine ⟨⟨some (toNatBE ((X.hmac512 masterKey seed).take 32)), K, (X.hmac512 masterKey seed).drop 32, 0,
        [0,0,0,0], 0⟩, ?_, ?_⟩
      · rw [master_eq, if_neg hlen, if_neg (by omega), hK]; rfl
      · simp only [abs, if_true, hK, Option.map_some]

theorem master_none_iff (L : GroupLaws X) (seed v : Bytes) :
    master X seed = none ↔ ∃ e, NewMaster X seed v = .error e := by
  rw [master_eq]
  unfold NewMaster
  split
  · simp
  · simp only []
    by_cases hr : toNatBE ((X.hmac512 masterKey seed).take 32) ≥ X.n ∨
        toNatBE ((X.hmac512 masterKey seed).take 32) = 0
    · rw [if_pos (by omega), if_pos hr]; simp
    · rw [if_neg (by omega), if_neg hr]
      obtain ⟨K, hK⟩ := mulG_isSome L (a := toNatBE ((X.hmac512 masterKey seed).take 32)) (by omega) (by omega)
      rw [hK]; simp

/-- the 78 bytes that are check-summed and Base58-encoded -/
def payload (k : XKey) : Bytes :=
  k.version ++ [UInt8.ofNat k.depth] ++ k.parentFP ++ ofNatBE 4 k.childNum ++ k.chainCode ++
    (if k.isPrivate then [0] ++ k.key else k.key)

theorem payload_len {k : XKey} (hwf : WF X k) : (payload k).length = 78 := by
  unfold payload
  cases hp : k.isPrivate with
  | true => simp [hwf.priv_len hp, hwf.cc_len, hwf.fp_len, hwf.ver_len]
  | false => simp [(hwf.pub_key hp).1, hwf.cc_len, hwf.fp_len, hwf.ver_len]

theorem String_eq_of_len {k : XKey} (hkl : k.key.length = if k.isPrivate then 32 else 33) :
    HDKey.String X k = Base58.Encode (payload k ++ (X.sha256d (payload k)).take 4) := by
  unfold HDKey.String payload
  cases hp : k.isPrivate with
  | true =>
    have hl : k.key.length = 32 := by simpa [hp] using hkl
    have hne : k.key.isEmpty = false := by
      cases hk : k.key with
      | nil => rw [hk] at hl; cases hl
      | cons _ _ => rfl
    simp only [hne, Bool.false_eq_true, if_false, if_true, Wif.paddedAppend, hl, Nat.sub_self,
      List.replicate_zero, List.append_nil, List.append_assoc]
  | false =>
    have hl : k.key.length = 33 := by simpa [hp] using hkl
    have hne : k.key.isEmpty = false := by
      cases hk : k.key with
      | nil => rw [hk] at hl; cases hl
      | cons _ _ => rfl
    simp only [hne, Bool.false_eq_true, if_false, pubKeyBytes_pub hp, List.append_assoc]

theorem String_eq {k : XKey} (hwf : WF X k) :
    HDKey.String X k = Base58.Encode (payload k ++ (X.sha256d (payload k)).take 4) := by
  apply String_eq_of_len
  cases hp : k.isPrivate with
  | true => simpa using hwf.priv_len hp
  | false => simpa using (hwf.pub_key hp).1

theorem serialise {k : XKey} (hwf : WF X k) {s : SKey Pt} (habs : abs X k = some s)
    (verPriv verPub : Bytes) (hv : k.version = if k.isPrivate then verPriv else verPub) :
    HDKey.String X k = serialize X verPriv verPub s := by
  rw [String_eq hwf]
  unfold payload serialize
  cases hp : k.isPrivate with
  | true =>
    obtain ⟨K, hK, rfl⟩ := abs_priv hp habs
    rw [hp] at hv
    simp only [if_true] at hv
    subst hv
    simp only [if_true, ser256, ser32, ofNatBE_toNatBE' 32 _ (hwf.priv_len hp)]
    simp only [List.append_assoc]
  | false =>
    obtain ⟨K, hK, rfl⟩ := abs_pub hp habs
    obtain ⟨_, P, hP, hser⟩ := hwf.pub_key hp
    rw [hK] at hP; cases hP
    rw [hp] at hv
    simp only [Bool.false_eq_true, if_false] at hv
    subst hv
    simp only [Bool.false_eq_true, if_false, ser32, ← hser]

theorem childI_congr {k₁ k₂ : XKey} {i : Nat} (hi : i < 2 ^ 31) (hcc : k₁.chainCode = k₂.chainCode)
    (hpk : pubKeyBytes X k₁ = pubKeyBytes X k₂) : childI X k₁ i = childI X k₂ i := by
  have : ¬ i ≥ hardenedKeyStart := by rw [hardened_eq]; omega
  simp only [childI, childData, if_neg this, hcc, hpk]

theorem neuter_eq {k : XKey} (hp : k.isPrivate = true) {nk : XKey} (hn : Neuter X k = .ok nk) :
    ∃ v, hdPairs.lookup k.version = some v ∧
      nk = { k with key := pubKeyBytes X k, version := v, isPrivate := false } := by
  unfold Neuter at hn
  simp only [hp, Bool.not_true, Bool.false_eq_true, if_false] at hn
  split at hn
  · cases hn
  · rename_i v hv; cases hn; exact ⟨v, hv, rfl⟩

theorem neuter_commutes (L : GroupLaws X) {k : XKey} (hp : k.isPrivate = true)
    (hnz : toNatBE k.key % X.n ≠ 0) {i : Nat} (hi : i < 2 ^ 31) {c : XKey} (hc : Child X k i = .ok c)
    {nk : XKey} (hn : Neuter X k = .ok nk) :
    ∃ nc, Neuter X c = .ok nc ∧ Child X nk i = .ok nc := by
  obtain ⟨v, hv, rfl⟩ := neuter_eq hp hn
  obtain ⟨K, hK⟩ : ∃ K, X.mulG (toNatBE k.key) = some K := by
    cases h : X.mulG (toNatBE k.key) with
    | some K => exact ⟨K, rfl⟩
    | none => exact absurd ((L.mulG_none _).1 h) hnz
  have hpkb := pubKeyBytes_priv hp hK
  let nk : XKey := { k with key := pubKeyBytes X k, version := v, isPrivate := false }
  have hnp : nk.isPrivate = false := rfl
  have hpk2 : pubKeyBytes X nk = pubKeyBytes X k := pubKeyBytes_pub hnp
  have hI : childI X nk i = childI X k i := childI_congr hi rfl hpk2
  have hIL : childIL X nk i = childIL X k i := by simp only [childIL, hI]
  have hP : X.parse nk.key = some K := by
    change X.parse (pubKeyBytes X k) = some K
    rw [hpkb]; exact L.parse_serC K
  have hlt : (childIL X k i + toNatBE k.key) % X.n < 256 ^ 32 := by
    rw [pow256_32]; exact Nat.lt_trans (Nat.mod_lt _ L.n_pos) L.n_lt
  have hnh : ¬ i ≥ hardenedKeyStart := by rw [hardened_eq]; omega
  change ∃ nc, Neuter X c = .ok nc ∧ Child X nk i = .ok nc
  rw [Child_pub L hnp i hP, hIL, hI, hpk2, if_neg hnh]
  rw [Child_priv L hp] at hc
  change (if k.depth = 255 then _ else _) = _ at hc
  change ∃ nc, _ ∧ (if k.depth = 255 then _ else _) = _
  split at hc
  · cases hc
  · rename_i hd
    rw [if_neg hd]
    split at hc
    · cases hc
    · rename_i hr
      rw [if_neg hr]
      cases hc
      refine ⟨_, ?_, rfl⟩
      unfold Neuter
      simp only [Bool.not_true, Bool.false_eq_true, if_false, hv]
      simp only [pubKeyBytes, Bool.not_true, Bool.false_eq_true, if_false]
      rw [toNatBE_ofNatBE _ _ hlt, L.mulG_mod, ← L.mulG_add, hK]

theorem neuter_commutes_err (L : GroupLaws X) {k : XKey} (hp : k.isPrivate = true)
    (hnz : toNatBE k.key % X.n ≠ 0) {i : Nat} (hi : i < 2 ^ 31) {e : Err} (hc : Child X k i = .error e)
    {nk : XKey} (hn : Neuter X k = .ok nk) : Child X nk i = .error e := by
  obtain ⟨v, hv, rfl⟩ := neuter_eq hp hn
  obtain ⟨K, hK⟩ : ∃ K, X.mulG (toNatBE k.key) = some K := by
    cases h : X.mulG (toNatBE k.key) with
    | some K => exact ⟨K, rfl⟩
    | none => exact absurd ((L.mulG_none _).1 h) hnz
  have hpkb := pubKeyBytes_priv hp hK
  let nk : XKey := { k with key := pubKeyBytes X k, version := v, isPrivate := false }
  have hnp : nk.isPrivate = false := rfl
  have hpk2 : pubKeyBytes X nk = pubKeyBytes X k := pubKeyBytes_pub hnp
  have hI : childI X nk i = childI X k i := childI_congr hi rfl hpk2
  have hIL : childIL X nk i = childIL X k i := by simp only [childIL, hI]
  have hP : X.parse nk.key = some K := by
    change X.parse (pubKeyBytes X k) = some K
    rw [hpkb]; exact L.parse_serC K
  change Child X nk i = .error e
  rw [child_error_pub L hnp hP, hIL]
  rcases (child_error_priv L hp i e).1 hc with ⟨h1, h2⟩ | ⟨h1, h2, h3⟩
  · exact Or.inl ⟨h1, h2⟩
  · exact Or.inr (Or.inr ⟨h1, hi, h2, h3⟩)

theorem guard_depth (k : XKey) (i : Nat) (h : k.depth = 255) :
    Child X k i = .error .deriveBeyondMaxDepth := by
  unfold Child; rw [if_pos h]

theorem guard_hard (k : XKey) (i : Nat) (hd : k.depth ≠ 255) (hp : k.isPrivate = false) (hi : i ≥ 2 ^ 31) :
    Child X k i = .error .deriveHardFromPublic := by
  unfold Child
  rw [if_neg hd]
  simp only [hp, hardened_eq]
  rw [if_pos ⟨by simp, hi⟩]

theorem guard_seed (seed v : Bytes) (h : seed.length < 16 ∨ seed.length > 64) :
    NewMaster X seed v = .error .invalidSeedLen := by
  unfold NewMaster; rw [if_pos h]

end Rest
end Bch.Proofs.HDKey

namespace Bch.Proofs.HDKey
open Bch Bch.Model Bch.Model.HDKey
/-! ## Parsing (C05) -/
section Parsing
open Bytes Bch.Spec.BIP32
variable {Pt : Type} {X : HDExt Pt}

/-- field-wise slicing of the 82 decoded bytes -/
def sliceKey (b : Bytes) (priv : Bool) : XKey :=
  { key := if priv then (b.drop 46).take 32 else (b.drop 45).take 33
    chainCode := (b.drop 13).take 32
    depth := (b.getD 4 0).toNat
    parentFP := (b.drop 5).take 4
    childNum := toNatBE ((b.drop 9).take 4)
    version := b.take 4
    isPrivate := priv }

theorem slice_take78 (b : Bytes) (hb : b.length = 82) :
    (b.take 78).take 4 = b.take 4 ∧ (b.take 78).getD 4 0 = b.getD 4 0 ∧
    ((b.take 78).drop 5).take 4 = (b.drop 5).take 4 ∧
    ((b.take 78).drop 9).take 4 = (b.drop 9).take 4 ∧
    ((b.take 78).drop 13).take 32 = (b.drop 13).take 32 ∧
    (b.take 78).drop 45 = (b.drop 45).take 33 ∧
    ((b.take 78).drop 45).headD 1 = b.getD 45 0 ∧
    ((b.take 78).drop 45).drop 1 = (b.drop 46).take 32 := by
  refine ⟨?_, ?_, ?_, ?_, ?_, ?_, ?_, ?_⟩
  all_goals simp [List.take_take, List.drop_take, List.getD_eq_getElem?_getD]
  rw [List.head?_take, List.head?_drop, List.getElem?_eq_getElem (by omega)]; simp

/-- `NewKeyFromString` with all slices taken from the decoded 82 bytes -/
theorem NewKeyFromString_eq (s : Bytes) :
    NewKeyFromString X s =
      if (Base58.Decode s).length ≠ 82 then .error .invalidKeyLen
      else if (Base58.Decode s).drop 78 ≠ (X.sha256d ((Base58.Decode s).take 78)).take 4 then .error .badChecksum
      else if (Base58.Decode s).getD 45 0 = 0 then
        if toNatBE (((Base58.Decode s).drop 46).take 32) ≥ X.n ∨ toNatBE (((Base58.Decode s).drop 46).take 32) = 0
        then .error .unusableSeed
        else .ok (sliceKey (Base58.Decode s) true)
      else match X.parse (((Base58.Decode s).drop 45).take 33) with
        | none => .error .other
        | some _ => .ok (sliceKey (Base58.Decode s) false) := by
  unfold NewKeyFromString
  generalize Base58.Decode s = b
  simp only []
  split
  · rfl
  · rename_i hb
    have hb : b.length = 82 := by simpa using hb
    obtain ⟨h1, h2, h3, h4, h5, h6, h7, h8⟩ := slice_take78 b hb
    split
    · rfl
    · rw [h1, h2, h3, h4, h5, h7, h8, h6]
      rfl

theorem accept_iff (s : Bytes) (k : XKey) :
    NewKeyFromString X s = .ok k ↔
      (Base58.Decode s).length = 82 ∧
      (Base58.Decode s).drop 78 = (X.sha256d ((Base58.Decode s).take 78)).take 4 ∧
      (((Base58.Decode s).getD 45 0 = 0 ∧ 0 < toNatBE (((Base58.Decode s).drop 46).take 32) ∧
          toNatBE (((Base58.Decode s).drop 46).take 32) < X.n ∧ k = sliceKey (Base58.Decode s) true) ∨
       ((Base58.Decode s).getD 45 0 ≠ 0 ∧ X.parse (((Base58.Decode s).drop 45).take 33) ≠ none ∧
          k = sliceKey (Base58.Decode s) false)) := by
  rw [NewKeyFromString_eq]
  generalize Base58.Decode s = b
  by_cases h1 : b.length = 82
  · by_cases h2 : b.drop 78 = (X.sha256d (b.take 78)).take 4
    · by_cases h3 : b.getD 45 0 = 0
      · by_cases h4 : toNatBE ((b.drop 46).take 32) ≥ X.n ∨ toNatBE ((b.drop 46).take 32) = 0
        · rw [if_neg (by simpa using h1), if_neg (by simpa using h2), if_pos h3, if_pos h4]
          constructor
          · intro h; cases h
          · rintro ⟨_, _, ⟨_, h5, h6, _⟩ | ⟨h5, _⟩⟩
            · omega
            · exact absurd h3 h5
        · rw [if_neg (by simpa using h1), if_neg (by simpa using h2), if_pos h3, if_neg h4]
          constructor
          · intro h; cases h; exact ⟨h1, h2, Or.inl ⟨h3, by omega, by omega, rfl⟩⟩
          · rintro ⟨_, _, ⟨_, _, _, rfl⟩ | ⟨h5, _⟩⟩
            · rfl
            · exact absurd h3 h5
      · rw [if_neg (by simpa using h1), if_neg (by simpa using h2), if_neg h3]
        cases h4 : X.parse ((b.drop 45).take 33) with
        | none =>
          constructor
          · intro h; cases h
          · rintro ⟨_, _, ⟨h5, _⟩ | ⟨_, h5, _⟩⟩
            · exact absurd h5 h3
            · exact absurd rfl h5
        | some P =>
          constructor
          · intro h; cases h; exact ⟨h1, h2, Or.inr ⟨h3, by simp, rfl⟩⟩
          · rintro ⟨_, _, ⟨h5, _⟩ | ⟨_, _, rfl⟩⟩
            · exact absurd h5 h3
            · rfl
    · rw [if_neg (by simpa using h1), if_pos h2]
      constructor
      · intro h; cases h
      · rintro ⟨_, h, _⟩; exact absurd h h2
  · rw [if_pos h1]
    constructor
    · intro h; cases h
    · rintro ⟨h, _⟩; exact absurd h h1

/-- which error for which failure, in the order the code checks -/
theorem error_iff (s : Bytes) (e : Err) :
    NewKeyFromString X s = .error e ↔
      ((Base58.Decode s).length ≠ 82 ∧ e = .invalidKeyLen) ∨
      ((Base58.Decode s).length = 82 ∧
        (Base58.Decode s).drop 78 ≠ (X.sha256d ((Base58.Decode s).take 78)).take 4 ∧ e = .badChecksum) ∨
      ((Base58.Decode s).length = 82 ∧
        (Base58.Decode s).drop 78 = (X.sha256d ((Base58.Decode s).take 78)).take 4 ∧
        (Base58.Decode s).getD 45 0 = 0 ∧
        (toNatBE (((Base58.Decode s).drop 46).take 32) ≥ X.n ∨ toNatBE (((Base58.Decode s).drop 46).take 32) = 0) ∧
        e = .unusableSeed) ∨
      ((Base58.Decode s).length = 82 ∧
        (Base58.Decode s).drop 78 = (X.sha256d ((Base58.Decode s).take 78)).take 4 ∧
        (Base58.Decode s).getD 45 0 ≠ 0 ∧ X.parse (((Base58.Decode s).drop 45).take 33) = none ∧
        e = .other) := by
  rw [NewKeyFromString_eq]
  generalize Base58.Decode s = b
  by_cases h1 : b.length = 82
  · by_cases h2 : b.drop 78 = (X.sha256d (b.take 78)).take 4
    · by_cases h3 : b.getD 45 0 = 0
      · by_cases h4 : toNatBE ((b.drop 46).take 32) ≥ X.n ∨ toNatBE ((b.drop 46).take 32) = 0
        · rw [if_neg (by simpa using h1), if_neg (by simpa using h2), if_pos h3, if_pos h4]
          constructor
          · intro h; cases h; exact Or.inr (Or.inr (Or.inl ⟨h1, h2, h3, h4, rfl⟩))
          · rintro (⟨h, _⟩ | ⟨_, h, _⟩ | ⟨_, _, _, _, rfl⟩ | ⟨_, _, h, _⟩)
            · exact absurd h1 h
            · exact absurd h2 h
            · rfl
            · exact absurd h3 h
        · rw [if_neg (by simpa using h1), if_neg (by simpa using h2), if_pos h3, if_neg h4]
          constructor
          · intro h; cases h
          · rintro (⟨h, _⟩ | ⟨_, h, _⟩ | ⟨_, _, _, h, _⟩ | ⟨_, _, h, _⟩)
            · exact absurd h1 h
            · exact absurd h2 h
            · exact absurd h h4
            · exact absurd h3 h
      · rw [if_neg (by simpa using h1), if_neg (by simpa using h2), if_neg h3]
        cases h4 : X.parse ((b.drop 45).take 33) with
        | none =>
          constructor
          · intro h; cases h; exact Or.inr (Or.inr (Or.inr ⟨h1, h2, h3, rfl, rfl⟩))
          · rintro (⟨h, _⟩ | ⟨_, h, _⟩ | ⟨_, _, h, _⟩ | ⟨_, _, _, _, rfl⟩)
            · exact absurd h1 h
            · exact absurd h2 h
            · exact absurd h h3
            · rfl
        | some P =>
          constructor
          · intro h; cases h
          · rintro (⟨h, _⟩ | ⟨_, h, _⟩ | ⟨_, _, h, _⟩ | ⟨_, _, _, h, _⟩)
            · exact absurd h1 h
            · exact absurd h2 h
            · exact absurd h h3
            · cases h
    · rw [if_neg (by simpa using h1), if_pos h2]
      constructor
      · intro h; cases h; exact Or.inr (Or.inl ⟨h1, h2, rfl⟩)
      · rintro (⟨h, _⟩ | ⟨_, _, rfl⟩ | ⟨_, h, _⟩ | ⟨_, h, _⟩)
        · exact absurd h1 h
        · rfl
        · exact absurd h h2
        · exact absurd h h2
  · rw [if_pos h1]
    constructor
    · intro h; cases h; exact Or.inl ⟨h1, rfl⟩
    · rintro (⟨_, rfl⟩ | ⟨h, _⟩ | ⟨h, _⟩ | ⟨h, _⟩)
      · rfl
      · exact absurd h h1
      · exact absurd h h1
      · exact absurd h h1

theorem wf_sliceKey_priv (b : Bytes) (hb : b.length = 82) :
    (sliceKey b true).key.length = 32 ∧ (sliceKey b true).chainCode.length = 32 ∧
    (sliceKey b true).parentFP.length = 4 ∧ (sliceKey b true).version.length = 4 ∧
    (sliceKey b true).depth ≤ 255 ∧ (sliceKey b true).childNum < 2 ^ 32 := by
  refine ⟨?_, ?_, ?_, ?_, ?_, ?_⟩
  · simp [sliceKey, hb]
  · simp [sliceKey, hb]
  · simp [sliceKey, hb]
  · simp [sliceKey, hb]
  · have := UInt8.toNat_lt (b.getD 4 0); simp only [sliceKey]; omega
  · have := toNatBE_lt ((b.drop 9).take 4)
    have hl : ((b.drop 9).take 4).length = 4 := by simp [hb]
    rw [hl] at this; simp only [sliceKey]; omega

theorem wf_newKeyFromString (hc : ParseCanonical X) {s : Bytes} {k : XKey}
    (h : NewKeyFromString X s = .ok k) :
    WF X k ∧ Reduced X k ∧ (k.isPrivate = true → toNatBE k.key ≠ 0) ∧ k.childNum < 2 ^ 32 := by
  obtain ⟨hb, _, h⟩ := (accept_iff s k).1 h
  have hcn : (sliceKey (Base58.Decode s) true).childNum < 2 ^ 32 := (wf_sliceKey_priv _ hb).2.2.2.2.2
  obtain ⟨h1, h2, h3, h4, h5, _⟩ := wf_sliceKey_priv _ hb
  rcases h with ⟨_, hpos, hlt, rfl⟩ | ⟨_, hP, rfl⟩
  · refine ⟨⟨fun _ => h1, ?_, h2, h3, h4, h5⟩, fun _ => hlt, fun _ => by simp only [sliceKey, if_true]; omega, hcn⟩
    intro hf; cases hf
  · refine ⟨⟨?_, ?_, h2, h3, h4, h5⟩, ?_, ?_, hcn⟩
    · intro hf; cases hf
    · intro _
      cases hQ : X.parse (((Base58.Decode s).drop 45).take 33) with
      | none => exact absurd hQ hP
      | some Q =>
        refine ⟨by simp [sliceKey, hb], Q, ?_, ?_⟩
        · simpa [sliceKey] using hQ
        · simpa [sliceKey] using hc _ _ hQ
    · intro hf; cases hf
    · intro hf; cases hf

theorem slice_concat (v fp cn cc kd ck : Bytes) (d : UInt8) (hv : v.length = 4) (hfp : fp.length = 4)
    (hcn : cn.length = 4) (hcc : cc.length = 32) (hkd : kd.length = 33) (hck : ck.length = 4) :
    let b := v ++ [d] ++ fp ++ cn ++ cc ++ kd ++ ck
    b.length = 82 ∧ b.take 78 = v ++ [d] ++ fp ++ cn ++ cc ++ kd ∧ b.drop 78 = ck ∧ b.take 4 = v ∧
      b.getD 4 0 = d ∧ (b.drop 5).take 4 = fp ∧ (b.drop 9).take 4 = cn ∧ (b.drop 13).take 32 = cc ∧
      (b.drop 45).take 33 = kd := by
  intro b
  refine ⟨?_, ?_, ?_, ?_, ?_, ?_, ?_, ?_, ?_⟩
  all_goals simp (disch := omega) [b, List.take_append, List.drop_append, hv, hfp, hcn, hcc, hkd, hck,
    List.getD_eq_getElem?_getD, List.take_of_length_le, List.drop_of_length_le]
  rw [List.getElem?_append_right (by omega)]; simp [hv]

theorem take_split (l : Bytes) (a m n : Nat) :
    (l.drop a).take (m + n) = (l.drop a).take m ++ (l.drop (a + m)).take n := by
  rw [List.take_add, List.drop_drop]

theorem take_one_drop (l : Bytes) (i : Nat) (h : i < l.length) : (l.drop i).take 1 = [l.getD i 0] := by
  rw [List.take_one, List.head?_drop, List.getD_eq_getElem?_getD, List.getElem?_eq_getElem h]; rfl

theorem take33_split (b : Bytes) (hb : b.length = 82) :
    (b.drop 45).take 33 = [b.getD 45 0] ++ (b.drop 46).take 32 := by
  rw [← take_one_drop b 45 (by omega)]
  exact take_split b 45 1 32

theorem take78_split (b : Bytes) (hb : b.length = 82) :
    b.take 78 = b.take 4 ++ [b.getD 4 0] ++ (b.drop 5).take 4 ++ (b.drop 9).take 4 ++
      (b.drop 13).take 32 ++ (b.drop 45).take 33 := by
  have e1 := take_split b 0 4 74
  have e2 := take_split b 4 1 73
  have e3 := take_split b 5 4 69
  have e4 := take_split b 9 4 65
  have e5 := take_split b 13 32 33
  simp only [List.drop_zero, Nat.zero_add, Nat.reduceAdd] at e1 e2 e3 e4 e5
  rw [e1, e2, e3, e4, e5, take_one_drop b 4 (by omega)]
  simp only [List.append_assoc]

theorem payload_sliceKey (b : Bytes) (hb : b.length = 82) (priv : Bool)
    (h0 : priv = true → b.getD 45 0 = 0) : payload (sliceKey b priv) = b.take 78 := by
  have hl : ((b.drop 9).take 4).length = 4 := by simp [hb]
  rw [take78_split b hb]
  unfold payload sliceKey
  simp only [UInt8.ofNat_toNat, ofNatBE_toNatBE' 4 _ hl]
  cases priv with
  | true => simp only [if_true]; rw [take33_split b hb, h0 rfl]
  | false => simp only [Bool.false_eq_true, if_false]

theorem decodeNat_some_alphabet (s : Bytes) (acc : Option Nat) {n : Nat}
    (h : s.foldl (fun acc c => match acc, Base58.b58 c with
      | some a, some d => some (a * 58 + d)
      | _, _ => none) acc = some n) : ∀ c ∈ s, (Base58.b58 c).isSome := by
  induction s generalizing acc with
  | nil => intro c hc; cases hc
  | cons x xs ih =>
    have hnone : ∀ l : Bytes, l.foldl (fun acc c => match acc, Base58.b58 c with
      | some a, some d => some (a * 58 + d)
      | _, _ => none) none = none := by
      intro l; induction l with
      | nil => rfl
      | cons y ys ihy => simpa [List.foldl_cons] using ihy
    rw [List.foldl_cons] at h
    intro c hc
    cases hx : Base58.b58 x with
    | none =>
      rw [hx] at h
      have : (match acc, (none : Option Nat) with
        | some a, some d => some (a * 58 + d)
        | _, _ => none) = none := by cases acc <;> rfl
      rw [this, hnone] at h; cases h
    | some d =>
      rcases List.mem_cons.1 hc with rfl | hc
      · simp [hx]
      · exact ih _ h c hc

theorem alphabet_of_decode_len (s : Bytes) (h : (Base58.Decode s).length = 82) :
    ∀ c ∈ s, (Base58.b58 c).isSome := by
  unfold Base58.Decode at h
  split at h
  · cases h
  · rename_i n hn
    exact decodeNat_some_alphabet s _ hn

/-- `NewKeyFromString (String k) = k`; `hB58` is `Bch.Props.C07.C07_b58_dec_enc`. -/
theorem parse_string (L : GroupLaws X) (hB58 : ∀ b, Base58.Decode (Base58.Encode b) = b)
    {k : XKey} (hwf : WF X k) (hred : Reduced X k) (hnz : k.isPrivate = true → toNatBE k.key ≠ 0)
    (hcn : k.childNum < 2 ^ 32) :
    NewKeyFromString X (HDKey.String X k) = .ok k := by
  rw [accept_iff, String_eq hwf, hB58]
  have hpl := payload_len hwf
  have hckl : ((X.sha256d (payload k)).take 4).length = 4 := by
    have := L.sha256d_len (payload k); simp; omega
  generalize hck : (X.sha256d (payload k)).take 4 = ck at hckl
  have htake : (payload k ++ ck).take 78 = payload k := by
    rw [List.take_append_of_le_length (by omega), List.take_of_length_le (by omega)]
  have hdrop : (payload k ++ ck).drop 78 = ck := by
    rw [List.drop_append_of_le_length (by omega), List.drop_of_length_le (by omega)]; rfl
  have hlen : (payload k ++ ck).length = 82 := by simp [hpl, hckl]
  have hd : (UInt8.ofNat k.depth).toNat = k.depth := by
    have := hwf.depth_le; rw [UInt8.toNat_ofNat']; omega
  have hc4 : toNatBE (ofNatBE 4 k.childNum) = k.childNum := toNatBE_ofNatBE 4 _ (by omega)
  have hv := hwf.ver_len
  have hfp := hwf.fp_len
  have hcc := hwf.cc_len
  refine ⟨hlen, by rw [hdrop, htake, hck], ?_⟩
  cases hp : k.isPrivate with
  | true =>
    have hkl := hwf.priv_len hp
    have hpay : payload k = k.version ++ [UInt8.ofNat k.depth] ++ k.parentFP ++ ofNatBE 4 k.childNum ++
        k.chainCode ++ ([0] ++ k.key) := by simp only [payload, hp, if_true]
    obtain ⟨_, _, _, hs4, hsd, hsfp, hscn, hscc, hskd⟩ :=
      slice_concat k.version k.parentFP (ofNatBE 4 k.childNum) k.chainCode ([0] ++ k.key) ck
        (UInt8.ofNat k.depth) hv hfp (by simp) hcc (by simp [hkl]) hckl
    rw [← hpay] at hs4 hsd hsfp hscn hscc hskd
    have h33 := take33_split _ hlen
    rw [hskd] at h33
    have h45 : (payload k ++ ck).getD 45 0 = 0 := by
      have := congrArg List.head? h33; simpa using this.symm
    have h46 : ((payload k ++ ck).drop 46).take 32 = k.key := by
      have := congrArg List.tail h33; simpa using this.symm
    refine Or.inl ⟨h45, ?_, ?_, ?_⟩
    · rw [h46]; have := hnz hp; omega
    · rw [h46]; exact hred hp
    · unfold sliceKey
      rw [hs4, hsd, hsfp, hscn, hscc, h46, hd, hc4]
      simp only [if_true]
      rw [← hp]
  | false =>
    obtain ⟨hkl, P, hP, hser⟩ := hwf.pub_key hp
    have hpay : payload k = k.version ++ [UInt8.ofNat k.depth] ++ k.parentFP ++ ofNatBE 4 k.childNum ++
        k.chainCode ++ k.key := by simp only [payload, hp, Bool.false_eq_true, if_false]
    obtain ⟨_, _, _, hs4, hsd, hsfp, hscn, hscc, hskd⟩ :=
      slice_concat k.version k.parentFP (ofNatBE 4 k.childNum) k.chainCode k.key ck
        (UInt8.ofNat k.depth) hv hfp (by simp) hcc hkl hckl
    rw [← hpay] at hs4 hsd hsfp hscn hscc hskd
    have h33 := take33_split _ hlen
    rw [hskd] at h33
    have h45 : (payload k ++ ck).getD 45 0 ≠ 0 := by
      have hh := L.serC_head P
      rw [← hser, h33] at hh
      simpa using hh
    refine Or.inr ⟨h45, by rw [hskd, hP]; simp, ?_⟩
    unfold sliceKey
    rw [hs4, hsd, hsfp, hscn, hscc, hskd, hd, hc4]
    simp only [Bool.false_eq_true, if_false]
    rw [← hp]

/-- accepted strings re-serialise to themselves; `hB58'` is `Bch.Props.C07.C07_b58_enc_dec`. -/
theorem string_parse
    (hB58' : ∀ s, (∀ c ∈ s, (Base58.b58 c).isSome) → Base58.Encode (Base58.Decode s) = s)
    {s : Bytes} {k : XKey} (h : NewKeyFromString X s = .ok k) : HDKey.String X k = s := by
  obtain ⟨hb, hck, h⟩ := (accept_iff s k).1 h
  have henc := hB58' s (alphabet_of_decode_len s hb)
  have hfin : ∀ priv, (priv = true → (Base58.Decode s).getD 45 0 = 0) →
      HDKey.String X (sliceKey (Base58.Decode s) priv) = s := by
    intro priv h0
    rw [String_eq_of_len, payload_sliceKey _ hb priv h0, ← hck, List.take_append_drop, henc]
    cases priv <;> simp [sliceKey, hb]
  rcases h with ⟨h0, _, _, rfl⟩ | ⟨_, _, rfl⟩
  · exact hfin true (fun _ => h0)
  · exact hfin false (fun hf => by cases hf)

end Parsing
end Bch.Proofs.HDKey

/-! ## A toy instance of the external primitives satisfying the laws (non-vacuity)

The group is ℤ/7 with generator 1; `Pt = Fin 7` (the value 0 is never produced by `mulG`;
infinity is `none`). "HMAC" produces `IL = (value of the data) mod 9`, so that all of
`IL = 0`, `0 < IL < n` and `IL ≥ n` occur. -/
namespace Bch.Proofs.HDKey.Toy
open Bch Bch.Model Bch.Model.HDKey Bch.Proofs.HDKey Bytes

def mulG (k : Nat) : Option (Fin 7) := if k % 7 = 0 then none else some (Fin.ofNat 7 k)
def add (p q : Fin 7) : Option (Fin 7) := mulG (p.val + q.val)
def serC (p : Fin 7) : Bytes := 2 :: ofNatBE 32 p.val
def parse (b : Bytes) : Option (Fin 7) :=
  match b with
  | 2 :: t => if t.length = 32 ∧ toNatBE t < 7 then some (Fin.ofNat 7 (toNatBE t)) else none
  | _ => none
def hmac512 (_k d : Bytes) : Bytes := ofNatBE 32 (toNatBE d % 9) ++ List.replicate 32 7
def hash160 (x : Bytes) : Bytes := (x ++ List.replicate 20 0).take 20
def sha256d (x : Bytes) : Bytes := (x ++ List.replicate 32 0).take 32

def X : HDExt (Fin 7) :=
  { hmac512 := hmac512, hash160 := hash160, sha256d := sha256d, n := 7, mulG := mulG, add := add,
    parse := parse, serC := serC, serInf := List.replicate 33 0 }

theorem mulG_congr {a b : Nat} (h : a % 7 = b % 7) : mulG a = mulG b := by
  unfold mulG
  rw [h]
  have : Fin.ofNat 7 a = Fin.ofNat 7 b := by apply Fin.ext; simpa [Fin.ofNat] using h
  rw [this]

theorem mulG_val {a : Nat} (h : a % 7 ≠ 0) : mulG a = some ⟨a % 7, Nat.mod_lt _ (by decide)⟩ := by
  unfold mulG; rw [if_neg h]; rfl

theorem laws : GroupLaws X where
  n_pos := by decide
  n_lt := by decide
  mulG_mod := fun a => mulG_congr (Nat.mod_mod _ _)
  mulG_none := by
    intro a
    change mulG a = none ↔ a % 7 = 0
    unfold mulG; split <;> simp [*]
  mulG_add := by
    intro a b
    change addO X (mulG a) (mulG b) = mulG (a + b)
    by_cases ha : a % 7 = 0
    · have h1 : mulG a = none := by unfold mulG; rw [if_pos ha]
      rw [h1]
      have : mulG (a + b) = mulG b := mulG_congr (by omega)
      rw [this]; rfl
    · by_cases hb : b % 7 = 0
      · have h1 : mulG b = none := by unfold mulG; rw [if_pos hb]
        have : mulG (a + b) = mulG a := mulG_congr (by omega)
        rw [h1, this, mulG_val ha]; rfl
      · rw [mulG_val ha, mulG_val hb]
        change mulG (a % 7 + b % 7) = mulG (a + b)
        exact mulG_congr (by omega)
  parse_serC := by
    intro P
    change parse (2 :: ofNatBE 32 P.val) = some P
    have hlt : P.val < 256 ^ 32 := Nat.lt_trans P.isLt (by decide)
    simp only [parse, length_ofNatBE, toNatBE_ofNatBE 32 _ hlt, P.isLt, and_self, if_true]
    congr 1; apply Fin.ext; simp [Fin.ofNat, Nat.mod_eq_of_lt P.isLt]
  serC_len := by intro P; change (2 :: ofNatBE 32 P.val).length = 33; simp
  serC_head := by intro P; change (2 :: ofNatBE 32 P.val).headD 1 ≠ 0; simp
  serInf_len := by change (List.replicate 33 (0 : UInt8)).length = 33; simp
  hmac_len := by intro k d; change (hmac512 k d).length = 64; simp [hmac512]
  hash160_len := by intro x; change (hash160 x).length = 20; simp [hash160]
  sha256d_len := by intro x; change 4 ≤ (sha256d x).length; simp [sha256d]

theorem parseCanonical : ParseCanonical X := by
  intro b P h
  change parse b = some P at h
  change b = 2 :: ofNatBE 32 P.val
  unfold parse at h
  split at h
  · rename_i t
    split at h
    · rename_i ht
      cases h
      have : (Fin.ofNat 7 (toNatBE t)).val = toNatBE t := by simp [Fin.ofNat, Nat.mod_eq_of_lt ht.2]
      rw [this, ofNatBE_toNatBE' 32 t ht.1]
    · cases h
  · cases h


/-! ### concrete keys of the toy instance, used by the non-vacuity examples -/
def xprv : Bytes := [0x04,0x88,0xad,0xe4]
def xpub : Bytes := [0x04,0x88,0xb2,0x1e]
/-- a seed with `IL = 3` -/
def seed : Bytes := List.replicate 15 0 ++ [3]
/-- a seed with `IL = 7 = n` -/
def badSeed : Bytes := List.replicate 16 1
/-- private key 3 -/
def kPriv : XKey := ⟨ofNatBE 32 3, List.replicate 32 5, 0, [0,0,0,0], 0, xprv, true⟩
/-- its public counterpart -/
def kPub : XKey := ⟨serC 3, List.replicate 32 5, 0, [0,0,0,0], 0, xpub, false⟩
def sPriv : Spec.BIP32.SKey (Fin 7) := ⟨some 3, 3, List.replicate 32 5, 0, [0,0,0,0], 0⟩
def sPub : Spec.BIP32.SKey (Fin 7) := ⟨none, 3, List.replicate 32 5, 0, [0,0,0,0], 0⟩

theorem wf_kPriv : WF X kPriv :=
  ⟨by decide +kernel, (by intro h; cases h), by decide +kernel, by decide, by decide, by decide⟩
theorem wf_kPub : WF X kPub :=
  ⟨(by intro h; cases h), fun _ => ⟨by decide +kernel, 3, by decide +kernel, rfl⟩, by decide +kernel,
    by decide, by decide, by decide⟩
theorem key_kPriv : toNatBE kPriv.key = 3 := by decide +kernel
theorem abs_kPriv : abs X kPriv = some sPriv := by
  rw [abs_priv_of (K := 3) rfl (by decide +kernel), key_kPriv]; rfl
theorem abs_kPub : abs X kPub = some sPub := by
  rw [abs_pub_of (K := 3) rfl (by decide +kernel)]; rfl
theorem reduced_kPriv : Reduced X kPriv := fun _ => by rw [key_kPriv]; decide
theorem IL_kPriv_0 : childIL X kPriv 0 = 5 := by decide +kernel
theorem IL_kPriv_hard : childIL X kPriv (2 ^ 31) = 5 := by decide +kernel
theorem IL_kPub_0 : childIL X kPub 0 = 5 := by decide +kernel
theorem specIL_sPriv_0 : specIL X sPriv 0 = 5 := by
  rw [← childIL_eq_specIL laws wf_kPriv abs_kPriv 0 (Or.inl rfl)]; exact IL_kPriv_0
theorem specIL_sPriv_hard : specIL X sPriv (2 ^ 31) = 5 := by
  rw [← childIL_eq_specIL laws wf_kPriv abs_kPriv _ (Or.inl rfl)]; exact IL_kPriv_hard
theorem specIL_sPub_0 : specIL X sPub 0 = 5 := by
  rw [← childIL_eq_specIL laws wf_kPub abs_kPub 0 (Or.inr (by decide))]; exact IL_kPub_0

theorem child_kPriv_0 : ∃ c, Child X kPriv 0 = .ok c := by
  rw [Child_priv laws rfl, if_neg (by decide), if_neg (by rw [IL_kPriv_0]; decide)]; exact ⟨_, rfl⟩
theorem child_kPriv_hard : ∃ c, Child X kPriv (2 ^ 31) = .ok c := by
  rw [Child_priv laws rfl, if_neg (by decide), if_neg (by rw [IL_kPriv_hard]; decide)]; exact ⟨_, rfl⟩
theorem child_kPub_0 : ∃ c, Child X kPub 0 = .ok c := by
  rw [Child_pub laws (P := 3) rfl 0 (by decide +kernel), if_neg (by decide), if_neg (by decide),
    if_neg (by rw [IL_kPub_0]; decide)]
  exact ⟨_, rfl⟩
theorem nondeg_sPriv_0 : NonDegenerate X sPriv 0 := by
  rw [nondeg_priv (kk := 3) rfl, specIL_sPriv_0]; decide
theorem nondeg_sPriv_hard : NonDegenerate X sPriv (2 ^ 31) := by
  rw [nondeg_priv (kk := 3) rfl, specIL_sPriv_hard]; decide
theorem nondeg_sPub_0 : NonDegenerate X sPub 0 := by
  rw [nondeg_pub rfl, specIL_sPub_0]; decide +kernel
theorem IL_kPriv_2 : childIL X kPriv 2 = 7 := by decide +kernel
theorem IL_kPriv_4 : childIL X kPriv 4 = 0 := by decide +kernel
theorem IL_kPriv_8 : childIL X kPriv 8 = 4 := by decide +kernel
/-- `IL = n`: rejected by both -/
theorem child_kPriv_2 : Child X kPriv 2 = .error .invalidChild :=
  (child_error_priv laws rfl 2 _).2 (Or.inr ⟨by decide, Or.inl (by rw [IL_kPriv_2]; decide), rfl⟩)
/-- `IL = 0`: rejected by the Go code, … -/
theorem child_kPriv_4 : Child X kPriv 4 = .error .invalidChild :=
  (child_error_priv laws rfl 4 _).2 (Or.inr ⟨by decide, Or.inr IL_kPriv_4, rfl⟩)
/-- … accepted by the specification -/
theorem spec_child_sPriv_4 : Spec.BIP32.child X sPriv 4 ≠ none := by
  rw [Ne, spec_child_none_priv laws sPriv (kk := 3) rfl,
    ← childIL_eq_specIL laws wf_kPriv abs_kPriv 4 (Or.inl rfl), IL_kPriv_4]
  decide
/-- the child the Go code returns for index 8: scalar `(4 + 3) mod 7 = 0` -/
def cZero : XKey := ⟨ofNatBE 32 0, List.replicate 32 7, 1, [2,0,0,0], 8, xprv, true⟩
/-- child scalar 0: accepted by the Go code, … -/
theorem child_kPriv_8 : Child X kPriv 8 = .ok cZero := by
  rw [Child_priv laws rfl, if_neg (by decide), if_neg (by rw [IL_kPriv_8]; decide)]
  refine congrArg Except.ok ?_
  decide +kernel
/-- … rejected by the specification -/
theorem spec_child_sPriv_8 : Spec.BIP32.child X sPriv 8 = none := by
  rw [spec_child_none_priv laws sPriv (kk := 3) rfl,
    ← childIL_eq_specIL laws wf_kPriv abs_kPriv 8 (Or.inl rfl), IL_kPriv_8]
  decide

theorem neuter_kPriv : ∃ nk, Neuter X kPriv = .ok nk := by
  unfold Neuter
  rw [if_neg (by decide)]
  have : hdPairs.lookup kPriv.version = some xpub := by decide +kernel
  rw [this]; exact ⟨_, rfl⟩
theorem master_seed : ∃ k, NewMaster X seed xprv = .ok k := by
  unfold NewMaster
  rw [if_neg (by decide)]
  simp only []
  rw [if_neg (by decide +kernel)]
  exact ⟨_, rfl⟩
theorem master_badSeed : NewMaster X badSeed xprv = .error .unusableSeed := by
  unfold NewMaster
  rw [if_neg (by decide)]
  simp only []
  rw [if_pos (by decide +kernel)]

end Bch.Proofs.HDKey.Toy
