import Bch.Model.Bech32
/-!
Proofs about the bech32 `ConvertBits` bit-regrouping loop (`Bch.Model.Bech32.ConvertBits`).

Method: every value is viewed as an MSB-first list of bits (`bits n x`), a byte list as the
concatenation of the `n`-bit views of its elements (`flatB n l`).  The loop state `CB` denotes
`flatB to st.out ++ bits st.filled st.nextByte` (`flatS`), and one inner-loop iteration appends the
`ex` top bits of the current input group to that bit string.  All top-level theorems are then
statements about lengths/injectivity of bit strings.
-/
namespace Bch.Proofs.Bech32CB
open Bch Bch.Model.Bech32

/-- decidable equality of `ConvertBits` results, so that the concrete test `example`s can be
closed by `decide` (core has no `DecidableEq (Except ε α)` instance) -/
instance instDecEqCBResult : DecidableEq (Except CBErr Bytes)
  | .ok a, .ok b =>
    if h : a = b then isTrue (by rw [h]) else isFalse (fun h' => h (Except.ok.inj h'))
  | .error a, .error b =>
    if h : a = b then isTrue (by rw [h]) else isFalse (fun h' => h (Except.error.inj h'))
  | .ok _, .error _ => isFalse (fun h => by cases h)
  | .error _, .ok _ => isFalse (fun h => by cases h)

/-! ## bit lists, MSB first -/

/-- the low `n` bits of `x`, most significant first -/
def bits : Nat → Nat → List Bool
  | 0, _ => []
  | n+1, x => bits n (x / 2) ++ [x % 2 == 1]

/-- concatenated `n`-bit views of the elements of `l` -/
def flatB (n : Nat) (l : Bytes) : List Bool := l.flatMap (fun b => bits n b.toNat)

@[simp] theorem length_bits (n x : Nat) : (bits n x).length = n := by
  induction n generalizing x with
  | zero => rfl
  | succ n ih => simp [bits, ih]

theorem bits_append (a b x y : Nat) (hy : y < 2^b) :
    bits (a+b) (x * 2^b + y) = bits a x ++ bits b y := by
  induction b generalizing y with
  | zero =>
    have : y = 0 := by simpa using hy
    subst this; simp [bits]
  | succ b ih =>
    have hy' : y < 2^b * 2 := by rw [Nat.pow_succ] at hy; exact hy
    have h1 : (x * 2^(b+1) + y) / 2 = x * 2^b + y/2 := by
      rw [Nat.pow_succ, ← Nat.mul_assoc]; omega
    have h2 : (x * 2^(b+1) + y) % 2 = y % 2 := by
      rw [Nat.pow_succ, ← Nat.mul_assoc]; omega
    show bits (a + b + 1) _ = _
    rw [bits, h1, h2, ih (y/2) (by omega), bits, List.append_assoc]

theorem bits_split (a b x : Nat) :
    bits (a+b) x = bits a (x / 2^b) ++ bits b (x % 2^b) := by
  have h := bits_append a b (x / 2^b) (x % 2^b) (Nat.mod_lt _ (Nat.two_pow_pos b))
  rw [Nat.div_add_mod'] at h
  exact h

theorem bits_inj (n x y : Nat) (hx : x < 2^n) (hy : y < 2^n) (h : bits n x = bits n y) : x = y := by
  induction n generalizing x y with
  | zero => simp at hx hy; omega
  | succ n ih =>
    rw [Nat.pow_succ] at hx hy
    simp only [bits] at h
    have h' := List.append_inj' h (by simp)
    have h1 := ih (x/2) (y/2) (by omega) (by omega) h'.1
    have h2 : (x % 2 == 1) = (y % 2 == 1) := by simpa using h'.2
    rcases Nat.mod_two_eq_zero_or_one x with hx2 | hx2 <;>
      rcases Nat.mod_two_eq_zero_or_one y with hy2 | hy2 <;>
      simp [hx2, hy2] at h2 <;> omega

theorem bits_zero (n : Nat) : bits n 0 = List.replicate n false := by
  induction n with
  | zero => rfl
  | succ n ih => simp [bits, ih, List.replicate_succ']

@[simp] theorem flatB_nil (n : Nat) : flatB n [] = [] := rfl
@[simp] theorem flatB_cons (n : Nat) (b : UInt8) (l : Bytes) :
    flatB n (b :: l) = bits n b.toNat ++ flatB n l := by simp [flatB]
@[simp] theorem flatB_append (n : Nat) (l1 l2 : Bytes) :
    flatB n (l1 ++ l2) = flatB n l1 ++ flatB n l2 := by simp [flatB]

theorem length_flatB (n : Nat) (l : Bytes) : (flatB n l).length = n * l.length := by
  induction l with
  | nil => simp
  | cons b l ih => simp [ih, Nat.mul_succ]; omega

theorem flatB_inj (n : Nat) (hn : 0 < n) (l1 l2 : Bytes)
    (h1 : ∀ x ∈ l1, x.toNat < 2^n) (h2 : ∀ x ∈ l2, x.toNat < 2^n)
    (h : flatB n l1 = flatB n l2) : l1 = l2 := by
  induction l1 generalizing l2 with
  | nil =>
    cases l2 with
    | nil => rfl
    | cons b l2 =>
      have := congrArg List.length h
      simp [length_flatB] at this; omega
  | cons a l1 ih =>
    cases l2 with
    | nil =>
      have := congrArg List.length h
      simp [length_flatB] at this; omega
    | cons b l2 =>
      simp only [flatB_cons] at h
      have h' := List.append_inj h (by simp)
      have hab : a = b := UInt8.toNat_inj.mp
        (bits_inj n _ _ (h1 a (by simp)) (h2 b (by simp)) h'.1)
      have := ih l2 (fun x hx => h1 x (by simp [hx])) (fun x hx => h2 x (by simp [hx])) h'.2
      rw [hab, this]

/-- the bit string read from a byte list whose elements are first truncated to `n` bits -/
def flatMod (n : Nat) (l : Bytes) : List Bool := l.flatMap (fun b => bits n (b.toNat % 2^n))

@[simp] theorem flatMod_nil (n : Nat) : flatMod n [] = [] := rfl
@[simp] theorem flatMod_cons (n : Nat) (b : UInt8) (l : Bytes) :
    flatMod n (b :: l) = bits n (b.toNat % 2^n) ++ flatMod n l := by simp [flatMod]
@[simp] theorem flatMod_append (n : Nat) (l1 l2 : Bytes) :
    flatMod n (l1 ++ l2) = flatMod n l1 ++ flatMod n l2 := by simp [flatMod]

theorem length_flatMod (n : Nat) (l : Bytes) : (flatMod n l).length = n * l.length := by
  induction l with
  | nil => simp
  | cons b l ih => simp [ih, Nat.mul_succ]; omega

theorem flatMod_eq_flatB (n : Nat) (l : Bytes) (h : ∀ x ∈ l, x.toNat < 2^n) :
    flatMod n l = flatB n l := by
  induction l with
  | nil => rfl
  | cons b l ih =>
    rw [flatMod_cons, flatB_cons, ih (fun x hx => h x (by simp [hx])),
      Nat.mod_eq_of_lt (h b (by simp))]

theorem flatMod_8 (l : Bytes) : flatMod 8 l = flatB 8 l :=
  flatMod_eq_flatB 8 l (fun x _ => UInt8.toNat_lt x)

/-! ## UInt8 mechanics -/

theorem toNat_ofNat_small (n : Nat) (h : n ≤ 8) : (UInt8.ofNat n).toNat = n := by
  rw [UInt8.toNat_ofNat']; omega

theorem pow_le_256 (n : Nat) (h : n ≤ 8) : 2^n ≤ 256 := by
  have := Nat.pow_le_pow_right (n := 2) (by omega) h
  simpa using this

/-- top `ex` bits of the current group -/
theorem shr_spec (b : UInt8) (r rem ex : Nat) (h1 : 1 ≤ ex) (h2 : ex ≤ rem) (h3 : rem ≤ 8)
    (hb : b.toNat = r * 2^(8-rem)) :
    (b >>> UInt8.ofNat (8-ex)).toNat = r / 2^(rem-ex) := by
  rw [UInt8.toNat_shiftRight, toNat_ofNat_small _ (by omega), Nat.mod_eq_of_lt (by omega),
    Nat.shiftRight_eq_div_pow, hb]
  have : 2^(8-ex) = 2^(rem-ex) * 2^(8-rem) := by
    rw [← Nat.pow_add]; congr 1; omega
  rw [this, Nat.mul_div_mul_right _ _ (Nat.two_pow_pos _)]

theorem mul_pow_lt (x f ex : Nat) (h : x < 2^f) : x * 2^ex + 2^ex ≤ 2^(f+ex) := by
  have : (x+1) * 2^ex ≤ 2^f * 2^ex := Nat.mul_le_mul_right _ h
  rw [Nat.pow_add]
  rw [Nat.add_mul] at this
  omega

/-- shifting the accumulator left never overflows (and the `ex = 8` wrap-around is harmless) -/
theorem shl_nx (nx : UInt8) (f ex : Nat) (h1 : 1 ≤ ex) (h : f + ex ≤ 8) (hn : nx.toNat < 2^f) :
    (nx <<< UInt8.ofNat ex).toNat = nx.toNat * 2^ex := by
  rw [UInt8.toNat_shiftLeft, toNat_ofNat_small _ (by omega)]
  by_cases h8 : ex = 8
  · subst h8
    have hf : f = 0 := by omega
    subst hf
    have : nx.toNat = 0 := by simpa using hn
    simp [this]
  · rw [Nat.mod_eq_of_lt (by omega : ex < 8), Nat.shiftLeft_eq]
    apply Nat.mod_eq_of_lt
    have h1 := mul_pow_lt nx.toNat f ex hn
    have h2 := pow_le_256 (f+ex) h
    have h3 := Nat.two_pow_pos ex
    omega

/-- remaining bits of the current group stay left-aligned -/
theorem shl_b (b : UInt8) (r rem ex : Nat) (h2 : ex < rem) (h3 : rem ≤ 8)
    (hb : b.toNat = r * 2^(8-rem)) :
    (b <<< UInt8.ofNat ex).toNat = (r % 2^(rem-ex)) * 2^(8-(rem-ex)) := by
  rw [UInt8.toNat_shiftLeft, toNat_ofNat_small _ (by omega), Nat.mod_eq_of_lt (by omega : ex < 8),
    Nat.shiftLeft_eq, hb]
  have e1 : r * 2^(8-rem) * 2^ex = r * 2^(8-(rem-ex)) := by
    rw [Nat.mul_assoc, ← Nat.pow_add]; congr 2; omega
  have e2 : 2^8 = 2^(rem-ex) * 2^(8-(rem-ex)) := by
    rw [← Nat.pow_add]; congr 1; omega
  rw [e1, e2, Nat.mul_mod_mul_right]

/-- the outer loop's initial left-alignment drops the bits above `fr` -/
theorem shl_init (b : UInt8) (fr : Nat) (h1 : 1 ≤ fr) (h2 : fr ≤ 8) :
    (b <<< UInt8.ofNat (8 - fr)).toNat = (b.toNat % 2^fr) * 2^(8-fr) := by
  rw [UInt8.toNat_shiftLeft, toNat_ofNat_small _ (by omega),
    Nat.mod_eq_of_lt (by omega : 8 - fr < 8), Nat.shiftLeft_eq]
  have e2 : 2^8 = 2^fr * 2^(8-fr) := by
    rw [← Nat.pow_add]; congr 1; omega
  rw [e2, Nat.mul_mod_mul_right]

theorem or_add (x y : UInt8) (a t ex : Nat) (hx : x.toNat = a * 2^ex) (hy : y.toNat = t)
    (ht : t < 2^ex) : (x ||| y).toNat = a * 2^ex + t := by
  rw [UInt8.toNat_or, hx, hy, ← Nat.shiftLeft_eq, ← Nat.shiftLeft_add_eq_or_of_lt ht]

theorem div_lt_pow (r rem ex : Nat) (h : ex ≤ rem) (hr : r < 2^rem) : r / 2^(rem-ex) < 2^ex := by
  rw [Nat.div_lt_iff_lt_mul (Nat.two_pow_pos _), ← Nat.pow_add]
  have : ex + (rem - ex) = rem := by omega
  rw [this]; exact hr

/-! ## state abstraction and the inner loop -/

/-- the bit string denoted by a loop state -/
def flatS (to : Nat) (st : CB) : List Bool := flatB to st.out ++ bits st.filled st.nextByte.toNat

/-- loop-state invariant -/
def WF (to : Nat) (st : CB) : Prop :=
  st.filled < to ∧ st.nextByte.toNat < 2^st.filled ∧ ∀ x ∈ st.out, x.toNat < 2^to

theorem cbInner_zero (to rem : Nat) (b : UInt8) (st : CB) : cbInner to 0 rem b st = st := rfl

theorem cbInner_succ (to fuel rem : Nat) (b : UInt8) (st : CB) :
    cbInner to (fuel+1) rem b st =
      if rem = 0 then st else
      let ex := if to - st.filled < rem then to - st.filled else rem
      let nb := (st.nextByte <<< UInt8.ofNat ex) ||| (b >>> UInt8.ofNat (8 - ex))
      cbInner to fuel (rem - ex) (b <<< UInt8.ofNat ex)
        (if st.filled + ex = to then ⟨st.out ++ [nb], 0, 0⟩ else ⟨st.out, nb, st.filled + ex⟩) := rfl

theorem cbInner_rem_zero (to fuel : Nat) (b : UInt8) (st : CB) : cbInner to fuel 0 b st = st := by
  cases fuel <;> simp [cbInner]

theorem cbInner_spec (to : Nat) (hto1 : 1 ≤ to) (hto8 : to ≤ 8) :
    ∀ (fuel rem : Nat) (b : UInt8) (st : CB) (r : Nat), rem ≤ fuel → rem ≤ 8 → r < 2^rem →
      (rem = 0 ∨ b.toNat = r * 2^(8-rem)) → WF to st →
      WF to (cbInner to fuel rem b st) ∧
        flatS to (cbInner to fuel rem b st) = flatS to st ++ bits rem r := by
  intro fuel
  induction fuel with
  | zero =>
    intro rem b st r h1 _ _ _ hwf
    have : rem = 0 := by omega
    subst this
    simp [cbInner_zero, hwf, bits]
  | succ fuel ih =>
    intro rem b st r hfuel hrem8 hr hb hwf
    by_cases hrem0 : rem = 0
    · subst hrem0
      simp [cbInner_rem_zero, hwf, bits]
    · obtain ⟨hf, hnx, hout⟩ := hwf
      have hb : b.toNat = r * 2^(8-rem) := by
        rcases hb with h | h
        · exact absurd h hrem0
        · exact h
      rw [cbInner_succ, if_neg hrem0]
      -- name `ex`
      generalize hex : (if to - st.filled < rem then to - st.filled else rem) = ex
      have hex1 : 1 ≤ ex := by subst hex; split <;> omega
      have hexrem : ex ≤ rem := by subst hex; split <;> omega
      have hexto : st.filled + ex ≤ to := by subst hex; split <;> omega
      simp only []
      generalize hnb : (st.nextByte <<< UInt8.ofNat ex ||| b >>> UInt8.ofNat (8 - ex)) = nb
      have htop := div_lt_pow r rem ex hexrem hr
      have hnbv : nb.toNat = st.nextByte.toNat * 2^ex + r / 2^(rem-ex) := by
        rw [← hnb]
        exact or_add _ _ _ _ ex (shl_nx _ st.filled ex hex1 (by omega) hnx)
          (shr_spec b r rem ex hex1 hexrem hrem8 hb) htop
      have hnblt : nb.toNat < 2^(st.filled + ex) := by
        have := mul_pow_lt st.nextByte.toNat st.filled ex hnx
        omega
      -- the new state
      generalize hst' : (if st.filled + ex = to then (⟨st.out ++ [nb], 0, 0⟩ : CB)
        else ⟨st.out, nb, st.filled + ex⟩) = st'
      have hwf' : WF to st' := by
        subst hst'
        split
        · next heq =>
          refine ⟨Nat.lt_of_lt_of_le Nat.zero_lt_one hto1, by simp, ?_⟩
          intro x hx
          simp only [List.mem_append, List.mem_singleton] at hx
          rcases hx with hx | hx
          · exact hout x hx
          · subst hx; rw [heq] at hnblt; exact hnblt
        · next hne =>
          exact ⟨by simpa using (by omega : st.filled + ex < to), hnblt, hout⟩
      have hflat' : flatS to st' = flatS to st ++ bits ex (r / 2^(rem-ex)) := by
        have key : bits (st.filled + ex) nb.toNat
            = bits st.filled st.nextByte.toNat ++ bits ex (r / 2^(rem-ex)) := by
          rw [hnbv]; exact bits_append _ _ _ _ htop
        subst hst'
        split
        · next heq =>
          simp only [flatS, flatB_append, flatB_cons, flatB_nil, bits, List.append_nil,
            List.append_assoc]
          rw [← heq, key]
        · next hne =>
          simp only [flatS, List.append_assoc]
          rw [key]
      have hb' : rem - ex = 0 ∨
          (b <<< UInt8.ofNat ex).toNat = (r % 2^(rem-ex)) * 2^(8-(rem-ex)) := by
        by_cases h : ex < rem
        · exact Or.inr (shl_b b r rem ex h hrem8 hb)
        · exact Or.inl (by omega)
      have := ih (rem - ex) (b <<< UInt8.ofNat ex) st' (r % 2^(rem-ex)) (by omega) (by omega)
        (Nat.mod_lt _ (Nat.two_pow_pos _)) hb' hwf'
      refine ⟨this.1, ?_⟩
      rw [this.2, hflat', List.append_assoc]
      congr 1
      have hsplit := bits_split ex (rem - ex) r
      rw [show ex + (rem - ex) = rem by omega] at hsplit
      exact hsplit.symm

/-! ## the outer fold -/

/-- the state after the outer `for _, b := range data` loop of `ConvertBits` -/
def cbFold (fr to : Nat) (data : Bytes) : CB :=
  data.foldl (fun st b => cbInner to 8 fr (b <<< UInt8.ofNat (8 - fr)) st) ⟨[], 0, 0⟩

theorem ConvertBits_eq (data : Bytes) (fr to : Nat) (pad : Bool) :
    ConvertBits data fr to pad =
      if fr < 1 ∨ fr > 8 ∨ to < 1 ∨ to > 8 then .error .groups
      else
        let st := cbFold fr to data
        let st := if pad ∧ st.filled > 0 then
          (⟨st.out ++ [st.nextByte <<< UInt8.ofNat (to - st.filled)], 0, 0⟩ : CB) else st
        if st.filled > 0 ∧ (st.filled > 4 ∨ st.nextByte ≠ 0) then .error .incomplete
        else .ok st.out := rfl

theorem foldl_spec (fr to : Nat) (hfr1 : 1 ≤ fr) (hfr8 : fr ≤ 8) (hto1 : 1 ≤ to) (hto8 : to ≤ 8)
    (data : Bytes) : ∀ st : CB, WF to st →
      WF to (data.foldl (fun st b => cbInner to 8 fr (b <<< UInt8.ofNat (8 - fr)) st) st) ∧
      flatS to (data.foldl (fun st b => cbInner to 8 fr (b <<< UInt8.ofNat (8 - fr)) st) st)
        = flatS to st ++ flatMod fr data := by
  induction data with
  | nil => intro st h; simp [h]
  | cons b data ih =>
    intro st h
    have hs := cbInner_spec to hto1 hto8 8 fr (b <<< UInt8.ofNat (8 - fr)) st (b.toNat % 2^fr)
      hfr8 hfr8 (Nat.mod_lt _ (Nat.two_pow_pos _)) (Or.inr (shl_init b fr hfr1 hfr8)) h
    have := ih _ hs.1
    simp only [List.foldl_cons, flatMod_cons]
    refine ⟨this.1, ?_⟩
    rw [this.2, hs.2, List.append_assoc]

theorem cbFold_spec (fr to : Nat) (hfr1 : 1 ≤ fr) (hfr8 : fr ≤ 8) (hto1 : 1 ≤ to) (hto8 : to ≤ 8)
    (data : Bytes) :
    WF to (cbFold fr to data) ∧ flatS to (cbFold fr to data) = flatMod fr data := by
  have := foldl_spec fr to hfr1 hfr8 hto1 hto8 data ⟨[], 0, 0⟩
    ⟨Nat.lt_of_lt_of_le Nat.zero_lt_one hto1, by simp, by simp⟩
  simpa [cbFold, flatS, bits] using this

/-- length bookkeeping for the final state -/
theorem cbFold_length (fr to : Nat) (hfr1 : 1 ≤ fr) (hfr8 : fr ≤ 8) (hto1 : 1 ≤ to) (hto8 : to ≤ 8)
    (data : Bytes) :
    to * (cbFold fr to data).out.length + (cbFold fr to data).filled = fr * data.length := by
  have := congrArg List.length (cbFold_spec fr to hfr1 hfr8 hto1 hto8 data).2
  simpa [flatS, length_flatB, length_flatMod] using this

/-! ## top-level theorems -/

theorem convertbits_widths (data : Bytes) (fr to : Nat) (pad : Bool)
    (h : fr < 1 ∨ fr > 8 ∨ to < 1 ∨ to > 8) : ConvertBits data fr to pad = .error .groups := by
  rw [ConvertBits_eq, if_pos h]

theorem ConvertBits_nopad (data : Bytes) (fr to : Nat)
    (hfr1 : 1 ≤ fr) (hfr8 : fr ≤ 8) (hto1 : 1 ≤ to) (hto8 : to ≤ 8) :
    ConvertBits data fr to false =
      if (cbFold fr to data).filled > 0 ∧
          ((cbFold fr to data).filled > 4 ∨ (cbFold fr to data).nextByte ≠ 0)
      then .error .incomplete else .ok (cbFold fr to data).out := by
  rw [ConvertBits_eq, if_neg (by omega)]; simp

/-- general spec: the fold state inside `ConvertBits` and how the result is computed from it -/
theorem convertbits_spec (data : Bytes) (fr to : Nat) (pad : Bool)
    (hfr1 : 1 ≤ fr) (hfr8 : fr ≤ 8) (hto1 : 1 ≤ to) (hto8 : to ≤ 8) :
    ∃ st : CB,
      flatB to st.out ++ bits st.filled st.nextByte.toNat
        = data.flatMap (fun b => bits fr (b.toNat % 2^fr)) ∧
      st.filled < to ∧ st.nextByte.toNat < 2^st.filled ∧ (∀ x ∈ st.out, x.toNat < 2^to) ∧
      to * st.out.length + st.filled = fr * data.length ∧
      ConvertBits data fr to pad =
        (let st' : CB := if pad = true ∧ st.filled > 0 then
            ⟨st.out ++ [st.nextByte <<< UInt8.ofNat (to - st.filled)], 0, 0⟩ else st
         if st'.filled > 0 ∧ (st'.filled > 4 ∨ st'.nextByte ≠ 0) then .error .incomplete
         else .ok st'.out) := by
  obtain ⟨⟨hf, hnx, hout⟩, hfl⟩ := cbFold_spec fr to hfr1 hfr8 hto1 hto8 data
  refine ⟨cbFold fr to data, hfl, hf, hnx, hout, cbFold_length fr to hfr1 hfr8 hto1 hto8 data, ?_⟩
  rw [ConvertBits_eq, if_neg (by omega)]

/-- with padding, conversion between any two valid widths succeeds; the output groups are
`to`-bit values whose bit string is the input bit string followed by fewer than `to` zero bits -/
theorem convert_pad_spec (fr to : Nat)
    (hfr1 : 1 ≤ fr) (hfr8 : fr ≤ 8) (hto1 : 1 ≤ to) (hto8 : to ≤ 8) (data : Bytes) :
    ∃ v, ConvertBits data fr to true = .ok v ∧ (∀ x ∈ v, x.toNat < 2^to) ∧
      ∃ p, p < to ∧ flatB to v = flatMod fr data ++ List.replicate p false := by
  obtain ⟨⟨hf, hnx, hout⟩, hflat⟩ := cbFold_spec fr to hfr1 hfr8 hto1 hto8 data
  rw [ConvertBits_eq, if_neg (by omega)]
  generalize cbFold fr to data = st at *
  by_cases h0 : st.filled > 0
  · have hv := shl_nx st.nextByte st.filled (to - st.filled) (by omega) (by omega) hnx
    have hsum : st.filled + (to - st.filled) = to := by omega
    refine ⟨st.out ++ [st.nextByte <<< UInt8.ofNat (to - st.filled)], ?_, ?_,
      to - st.filled, by omega, ?_⟩
    · simp [h0]
    · intro x hx
      simp only [List.mem_append, List.mem_singleton] at hx
      rcases hx with hx | hx
      · exact hout x hx
      · subst hx; rw [hv]
        have h1 := mul_pow_lt st.nextByte.toNat st.filled (to - st.filled) hnx
        rw [hsum] at h1
        have h2 := Nat.two_pow_pos (to - st.filled)
        omega
    · rw [flatB_append, flatB_cons, flatB_nil, List.append_nil, hv, ← hflat, flatS,
        List.append_assoc]
      congr 1
      have h1 := bits_append st.filled (to - st.filled) st.nextByte.toNat 0 (Nat.two_pow_pos _)
      rw [hsum, Nat.add_zero, bits_zero] at h1
      exact h1
  · have h00 : st.filled = 0 := by omega
    refine ⟨st.out, ?_, hout, 0, hto1, ?_⟩
    · simp [h00]
    · simp [← hflat, flatS, h00, bits]

theorem convertbits_8_5_roundtrip (bs : Bytes) :
    ∃ v, ConvertBits bs 8 5 true = .ok v ∧ (∀ x ∈ v, x.toNat < 32) ∧
      ConvertBits v 5 8 false = .ok bs := by
  obtain ⟨v, hv, hlt, p, hp, hflat⟩ :=
    convert_pad_spec 8 5 (by omega) (by omega) (by omega) (by omega) bs
  have hlt' : ∀ x ∈ v, x.toNat < 2^5 := hlt
  refine ⟨v, hv, hlt, ?_⟩
  rw [flatMod_8] at hflat
  obtain ⟨⟨hf, hnx, hout⟩, hfl⟩ := cbFold_spec 5 8 (by omega) (by omega) (by omega) (by omega) v
  rw [flatMod_eq_flatB 5 v hlt', hflat, flatS] at hfl
  rw [ConvertBits_nopad v 5 8 (by omega) (by omega) (by omega) (by omega)]
  generalize cbFold 5 8 v = st at *
  have hlen := congrArg List.length hfl
  simp only [List.length_append, length_flatB, length_bits, List.length_replicate] at hlen
  have hfp : st.filled = p := by omega
  have hl : st.out.length = bs.length := by omega
  have h' := List.append_inj hfl (by simp [length_flatB, hl])
  have hob : st.out = bs :=
    flatB_inj 8 (by omega) _ _ hout (fun x _ => UInt8.toNat_lt x) h'.1
  have hnb : st.nextByte.toNat = 0 :=
    bits_inj st.filled _ _ hnx (Nat.two_pow_pos _) (by rw [h'.2, bits_zero, hfp])
  have hnb0 : st.nextByte = 0 := UInt8.toNat_inj.mp (by simpa using hnb)
  rw [if_neg, hob]
  rintro ⟨_, h | h⟩
  · omega
  · exact h hnb0

theorem convertbits_5_8_canonical (v bs : Bytes) (hv : ∀ x ∈ v, x.toNat < 32)
    (h : ConvertBits v 5 8 false = .ok bs) : ConvertBits bs 8 5 true = .ok v := by
  have hv' : ∀ x ∈ v, x.toNat < 2^5 := hv
  obtain ⟨⟨hf, hnx, hout⟩, hfl⟩ := cbFold_spec 5 8 (by omega) (by omega) (by omega) (by omega) v
  rw [ConvertBits_nopad v 5 8 (by omega) (by omega) (by omega) (by omega)] at h
  rw [flatMod_eq_flatB 5 v hv', flatS] at hfl
  generalize cbFold 5 8 v = st at *
  split at h
  · cases h
  · next hc =>
    have hbs : st.out = bs := by injection h
    have hf4 : st.filled ≤ 4 := by
      by_cases h0 : st.filled > 0
      · by_cases h4 : st.filled > 4
        · exact absurd ⟨h0, Or.inl h4⟩ hc
        · omega
      · omega
    have hnb : st.nextByte.toNat = 0 := by
      by_cases h0 : st.filled > 0
      · by_cases hz : st.nextByte = 0
        · rw [hz]; rfl
        · exact absurd ⟨h0, Or.inr hz⟩ hc
      · have : st.filled = 0 := by omega
        rw [this] at hnx; simpa using hnx
    rw [hnb, bits_zero, hbs] at hfl
    obtain ⟨v', hv'ok, hlt', p, hp, hflat'⟩ :=
      convert_pad_spec 8 5 (by omega) (by omega) (by omega) (by omega) bs
    rw [flatMod_8] at hflat'
    have hlen1 := congrArg List.length hfl
    have hlen2 := congrArg List.length hflat'
    simp only [List.length_append, length_flatB, List.length_replicate] at hlen1 hlen2
    have hfp : st.filled = p := by omega
    rw [hfp, ← hflat'] at hfl
    have : v' = v := flatB_inj 5 (by omega) _ _ hlt' hv' hfl
    rw [hv'ok, this]

theorem convertbits_rejects_padding_overlong (v : Bytes) (h : (5 * v.length) % 8 > 4) :
    ConvertBits v 5 8 false = .error .incomplete := by
  have hlen := cbFold_length 5 8 (by omega) (by omega) (by omega) (by omega) v
  have hf := (cbFold_spec 5 8 (by omega) (by omega) (by omega) (by omega) v).1.1
  rw [ConvertBits_nopad v 5 8 (by omega) (by omega) (by omega) (by omega), if_pos]
  generalize cbFold 5 8 v = st at *
  have hfr : st.filled = (5 * v.length) % 8 := by omega
  exact ⟨by omega, Or.inl (by omega)⟩

/-- the leftover bits after regrouping `init ++ [last]` from 5 to 8 are the low bits of `last` -/
theorem nextByte_last (init : Bytes) (last : UInt8) (r : Nat)
    (hr : r = (5 * (init.length + 1)) % 8) (hr5 : r ≤ 5) :
    (cbFold 5 8 (init ++ [last])).filled = r ∧
      (cbFold 5 8 (init ++ [last])).nextByte.toNat = last.toNat % 2^r := by
  have hlen := cbFold_length 5 8 (by omega) (by omega) (by omega) (by omega) (init ++ [last])
  obtain ⟨⟨hf, hnx, hout⟩, hfl⟩ :=
    cbFold_spec 5 8 (by omega) (by omega) (by omega) (by omega) (init ++ [last])
  rw [flatS, flatMod_append, flatMod_cons, flatMod_nil, List.append_nil] at hfl
  generalize cbFold 5 8 (init ++ [last]) = st at *
  simp only [List.length_append, List.length_singleton] at hlen
  have hfr : st.filled = r := by omega
  refine ⟨hfr, ?_⟩
  have hsplit := bits_split (5 - r) r (last.toNat % 2^5)
  rw [show 5 - r + r = 5 by omega] at hsplit
  rw [hsplit, ← List.append_assoc, hfr] at hfl
  have h' := List.append_inj' hfl (by simp)
  rw [hfr] at hnx
  have := bits_inj r _ _ hnx (Nat.mod_lt _ (Nat.two_pow_pos _)) h'.2
  rw [this, Nat.mod_mod_of_dvd _ (Nat.pow_dvd_pow 2 hr5)]

theorem convertbits_rejects_padding_nonzero (init : Bytes) (last : UInt8) (r : Nat)
    (hr : r = (5 * (init.length + 1)) % 8) (h0 : 0 < r) (h4 : r ≤ 4)
    (hne : last.toNat % 2^r ≠ 0) :
    ConvertBits (init ++ [last]) 5 8 false = .error .incomplete := by
  obtain ⟨hf, hnb⟩ := nextByte_last init last r hr (by omega)
  rw [ConvertBits_nopad _ 5 8 (by omega) (by omega) (by omega) (by omega), if_pos]
  refine ⟨by omega, Or.inr ?_⟩
  intro hz
  rw [hz] at hnb
  exact hne hnb.symm

theorem convertbits_5_8_accepts_iff (v : Bytes) :
    (∃ bs, ConvertBits v 5 8 false = .ok bs) ↔
      ((5 * v.length) % 8 ≤ 4 ∧ ((5 * v.length) % 8 = 0 ∨
        ∃ init last, v = init ++ [last] ∧ last.toNat % 2^((5 * v.length) % 8) = 0)) := by
  have hlen := cbFold_length 5 8 (by omega) (by omega) (by omega) (by omega) v
  have hf := (cbFold_spec 5 8 (by omega) (by omega) (by omega) (by omega) v).1.1
  rw [ConvertBits_nopad v 5 8 (by omega) (by omega) (by omega) (by omega)]
  have hfr : (cbFold 5 8 v).filled = (5 * v.length) % 8 := by omega
  constructor
  · rintro ⟨bs, h⟩
    split at h
    · cases h
    · next hc =>
      by_cases h0 : (cbFold 5 8 v).filled > 0
      · have h4 : ¬ (cbFold 5 8 v).filled > 4 := fun h4 => hc ⟨h0, Or.inl h4⟩
        have hz : (cbFold 5 8 v).nextByte = 0 := by
          by_cases hz : (cbFold 5 8 v).nextByte = 0
          · exact hz
          · exact absurd ⟨h0, Or.inr hz⟩ hc
        refine ⟨by omega, Or.inr ?_⟩
        rcases List.eq_nil_or_concat v with hnil | ⟨init, last, hv⟩
        · subst hnil; simp at hfr; omega
        · rw [List.concat_eq_append] at hv
          subst hv
          refine ⟨init, last, rfl, ?_⟩
          have := (nextByte_last init last _ rfl (by simp at hfr ⊢; omega)).2
          rw [hz] at this
          simp only [List.length_append, List.length_singleton]
          exact this.symm
      · exact ⟨by omega, Or.inl (by omega)⟩
  · rintro ⟨h4, h⟩
    refine ⟨(cbFold 5 8 v).out, ?_⟩
    rw [if_neg]
    rintro ⟨h0, h | h⟩
    · omega
    · rcases ‹_ ∨ _› with hr0 | ⟨init, last, hv, hz⟩
      · omega
      · subst hv
        have := (nextByte_last init last _ rfl (by simp at h4 ⊢; omega)).2
        simp only [List.length_append, List.length_singleton] at hz
        rw [hz] at this
        exact h (UInt8.toNat_inj.mp (by simpa using this))

end Bch.Proofs.Bech32CB
