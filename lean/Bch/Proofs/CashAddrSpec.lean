import Bch.Proofs.Address
import Bch.Spec.CashAddrSpec
/-!
The model's CashAddr encoder (`Bch.Model.CashAddr`: accumulator-loop `convertBits`, `createChecksum`,
`encode`) computes what the independent transcription `Bch.Spec.CashAddr` of the specification prescribes.
-/
namespace Bch.Proofs.CashAddrSpec
open Bch Bch.Model Bch.Model.CashAddr Bch.Model.Address
open Bch.Proofs.CashAddr Bch.Proofs.Address

/-! ### regrouping -/

theorem beNat_eq_beVal (d : List Nat) : Spec.CashAddr.beNat d = beVal 8 d := rfl

theorem regroup5_length (d : List Nat) : (Spec.CashAddr.regroup5 d).length = (8 * d.length + 4) / 5 := by
  simp [Spec.CashAddr.regroup5]

theorem regroup5_lt (d : List Nat) : ∀ x ∈ Spec.CashAddr.regroup5 d, x < 2 ^ 5 := by
  intro x hx
  simp only [Spec.CashAddr.regroup5, List.mem_map] at hx
  obtain ⟨i, _, rfl⟩ := hx
  exact Nat.mod_lt _ (by decide)

/-- the spec's digit list is the list of 5-bit chunks of the padded number -/
theorem regroup5_eq_chunks (d : List Nat) :
    Spec.CashAddr.regroup5 d =
      (List.range ((8 * d.length + 4) / 5)).map
        (chunk 5 (beVal 8 d * 2 ^ (5 * ((8 * d.length + 4) / 5) - 8 * d.length))
          (5 * ((8 * d.length + 4) / 5))) := by
  simp only [Spec.CashAddr.regroup5, beNat_eq_beVal]
  apply List.map_congr_left
  intro i hi
  have hi' := List.mem_range.mp hi
  unfold chunk
  have e : (32 : Nat) ^ ((8 * d.length + 4) / 5 - 1 - i)
      = 2 ^ (5 * ((8 * d.length + 4) / 5) - 5 * (i + 1)) := by
    rw [show (32 : Nat) = 2 ^ 5 from rfl, ← Nat.pow_mul]
    congr 1; omega
  rw [e]

theorem beVal_regroup5 (d : List Nat) (hd : ∀ x ∈ d, x < 2 ^ 8) :
    beVal 5 (Spec.CashAddr.regroup5 d)
      = beVal 8 d * 2 ^ (5 * ((8 * d.length + 4) / 5) - 8 * d.length) := by
  rw [regroup5_eq_chunks, beVal_chunks 5 _ _ _ (Nat.le_refl _), Nat.sub_self, Nat.pow_zero, Nat.div_one]
  apply Nat.mod_eq_of_lt
  have hX := beVal_lt 8 d hd
  have e : 5 * ((8 * d.length + 4) / 5)
      = 8 * d.length + (5 * ((8 * d.length + 4) / 5) - 8 * d.length) := by omega
  conv => rhs; rw [e, Nat.pow_add]
  exact Nat.mul_lt_mul_of_pos_right hX (Nat.two_pow_pos _)

/-- **regrouping**: the number-level regrouping of the spec is what the model's accumulator loop emits -/
theorem regroup5_eq_padded (d : List Nat) (hd : ∀ x ∈ d, x < 2 ^ 8) :
    Spec.CashAddr.regroup5 d = padded 8 5 d := by
  apply beVal_inj 5 _ _ (regroup5_lt d) (padded_lt 8 5 (by decide) d)
  · rw [regroup5_length, padded_8_5_length]
  · rw [beVal_regroup5 d hd, beVal_padded 8 5 (by decide) d hd]
    congr 2; omega

theorem convertBits_eq_regroup5 (bs : Bytes) :
    convertBits bs 8 5 true = some ((Spec.CashAddr.regroup5 (bs.map UInt8.toNat)).map UInt8.ofNat) := by
  rw [convertBits_8_5_eq, regroup5_eq_padded _ (toNat_lt_of_mem bs)]

/-! ### checksum -/

theorem polyModStep_eq (c : Nat) (d : UInt8) :
    Spec.CashAddr.polyModStep c d.toNat = CashAddr.polyModStep c d := by
  simp only [Spec.CashAddr.polyModStep, CashAddr.polyModStep, gt_iff_lt, Nat.pos_iff_ne_zero]

theorem polyMod_eq (v : Bytes) : Spec.CashAddr.polyMod (v.map UInt8.toNat) = CashAddr.polyMod v := by
  unfold Spec.CashAddr.polyMod CashAddr.polyMod
  rw [List.foldl_map]
  congr 1
  apply congrFun; apply congrFun; apply congrArg
  funext c d; exact polyModStep_eq c d

theorem and31_toNat (c : UInt8) : (c &&& 0x1f).toNat = c.toNat % 32 := by
  rw [UInt8.toNat_and]
  exact Nat.and_two_pow_sub_one_eq_mod c.toNat 5

theorem expand_map (pre pl : Bytes) :
    (expandPrefix pre ++ pl ++ [0, 0, 0, 0, 0, 0, 0, 0]).map UInt8.toNat
      = pre.map (fun c => c.toNat % 32) ++ [0] ++ pl.map UInt8.toNat ++ [0, 0, 0, 0, 0, 0, 0, 0] := by
  simp only [expandPrefix, List.map_append, List.map_map, List.map_cons, List.map_nil]
  congr 3
  apply List.map_congr_left
  intro c _
  exact and31_toNat c

theorem group_eq (m i : Nat) :
    (m >>> (5 * (7 - i))) &&& 0x1f = m / 32 ^ (7 - i) % 32 := by
  rw [Nat.shiftRight_eq_div_pow, show (0x1f : Nat) = 2 ^ 5 - 1 from rfl, Nat.and_two_pow_sub_one_eq_mod,
    show (32 : Nat) = 2 ^ 5 from rfl, ← Nat.pow_mul]

/-- **checksum**: the model's eight checksum symbols are the spec's -/
theorem createChecksum_eq (pre pl : Bytes) :
    (createChecksum pre pl).map UInt8.toNat = Spec.CashAddr.checksum pre (pl.map UInt8.toNat) := by
  unfold createChecksum Spec.CashAddr.checksum
  simp only []
  rw [← expand_map, polyMod_eq, List.map_map]
  apply List.map_congr_left
  intro i _
  simp only [Function.comp, UInt8.toNat_ofNat']
  rw [group_eq _ i]
  exact Nat.mod_eq_of_lt (Nat.lt_of_lt_of_le (Nat.mod_lt _ (by decide)) (by decide))

/-! ### the whole string -/

theorem versionByte_vals :
    Spec.CashAddr.versionByte 0 20 = some 0 ∧ Spec.CashAddr.versionByte 1 20 = some 8 ∧
    Spec.CashAddr.versionByte 1 32 = some 11 := by decide

/-- the spec string for a version byte `ver` (a number < 256) and a hash -/
theorem spec_string (X : Ext) (t : Nat) (ver : UInt8) (h pre : Bytes) (hv : VerOK t ver h.length) :
    EncodeAddress X (mkCash t h pre) =
      (Spec.CashAddr.regroup5 (ver.toNat :: h.map UInt8.toNat) ++
        Spec.CashAddr.checksum pre (Spec.CashAddr.regroup5 (ver.toNat :: h.map UInt8.toNat))).map
        (fun s => Spec.CashAddr.charset.getD s 0) := by
  obtain ⟨pl, h1, _, _, _, _, h6⟩ := encodeAddress_cash X t ver h pre hv
  rw [convertBits_eq_regroup5] at h1
  have hpl : pl.map UInt8.toNat = Spec.CashAddr.regroup5 (ver.toNat :: h.map UInt8.toNat) := by
    cases h1
    apply map_toNat_ofNat
    intro x hx
    exact Nat.lt_trans (regroup5_lt _ x hx) (by decide)
  rw [h6, ← hpl, ← createChecksum_eq, ← List.map_append, List.map_map]
  rfl

end Bch.Proofs.CashAddrSpec
