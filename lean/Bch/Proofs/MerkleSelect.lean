import Bch.Model.MerkleSelect
import Bch.Proofs.Merkle
import Bch.Proofs.BloomTxRefine
/-
Helper lemmas for `Bch/Props/C11Select.lean`:
* the statement-by-statement transcription `buildMsgBloom` of bloom/merkleblock.go equals the functional
  `Merkle.buildMsg` (struct threading, byte-valued flag bits, the in-place flag loop);
* `TxInSet` / `selectBySet` / `selectByScan`;
* canonicity: what acceptance by the extractor determines about a message (`extractP_canon`).
-/
set_option linter.unusedSectionVars false

namespace Bch.Proofs.MerkleSelect
open Bch Bch.Model.Merkle Bch.Model.MerkleSelect Bch.Proofs.Merkle

variable {H : Type} [DecidableEq H]

/-! ## the byte 0/1 of a flag -/

/-- Go: `0x01` / `0x00` -/
def bit (b : Bool) : UInt8 := if b then 1 else 0

theorem bit_or (a b : Bool) : bit a ||| bit b = bit (a || b) := by
  cases a <;> cases b <;> decide

theorem bit_eq_zero (b : Bool) : (bit b == 0) = !b := by cases b <;> decide

/-! ## `calcTreeWidth`, `calcHash`, the `isParent` loop, the height loop -/

theorem calcTreeWidth_eq (mb : MB H) (h : Nat) : mb.calcTreeWidth h = width mb.numTx h := by
  unfold MB.calcTreeWidth width
  rw [Nat.one_shiftLeft, Nat.shiftRight_eq_div_pow]

theorem calcHash_eq (comb : H → H → H) (dflt : H) (mb : MB H) : ∀ h pos,
    mb.calcHash comb dflt h pos =
      calcHash comb (fun i => mb.allHashes.getD i dflt) mb.numTx h pos := by
  intro h
  induction h with
  | zero => intro pos; rfl
  | succ h ih =>
    intro pos
    simp only [MB.calcHash, calcHash, ih, calcTreeWidth_eq, Nat.mul_comm pos 2]

theorem heightLoop_eq (mb : MB H) : ∀ fuel h, mb.heightLoop fuel h = heightLoop mb.numTx fuel h := by
  intro fuel
  induction fuel with
  | zero => intro h; rfl
  | succ fuel ih => intro h; simp only [MB.heightLoop, heightLoop, ih, calcTreeWidth_eq]

/-- the subset as the byte slice `matchedBits` -/
def Tied (mb : MB H) (m : Nat → Bool) : Prop :=
  ∀ j, j < mb.numTx → mb.matchedBits.getD j 0 = bit (m j)

theorem isParentLoop_eq (mb : MB H) (m : Nat → Bool) (ht : Tied mb m) (stop : Nat) :
    ∀ fuel i (a0 : Bool), mb.numTx ≤ fuel + i →
      mb.isParentLoop stop fuel i (bit a0) =
        bit (a0 || (List.range' i (min stop mb.numTx - i)).any m) := by
  intro fuel
  induction fuel with
  | zero =>
    intro i a0 hf
    have : min stop mb.numTx - i = 0 := by omega
    simp [MB.isParentLoop, this]
  | succ fuel ih =>
    intro i a0 hf
    unfold MB.isParentLoop
    by_cases hc : i < stop ∧ i < mb.numTx
    · rw [if_pos hc, ht i hc.2, bit_or, ih (i+1) _ (by omega)]
      have : min stop mb.numTx - i = (min stop mb.numTx - (i+1)) + 1 := by omega
      rw [this, List.range'_succ]
      simp [Bool.or_assoc]
    · rw [if_neg hc]
      have : min stop mb.numTx - i = 0 := by omega
      simp [this]

theorem isParent_eq (mb : MB H) (m : Nat → Bool) (ht : Tied mb m) (h pos : Nat) :
    mb.isParent h pos = bit (isParentGo m mb.numTx h pos) := by
  unfold MB.isParent isParentGo
  simp only [Nat.shiftLeft_eq]
  have := isParentLoop_eq mb m ht ((pos+1) * 2^h) mb.numTx (pos * 2^h) false (Nat.le_add_right _ _)
  exact this.trans (by rw [Bool.false_or])

/-! ## `traverseAndBuild` on the struct = `build` -/

theorem traverseAndBuild_eq (comb : H → H → H) (dflt : H) (m : Nat → Bool) :
    ∀ h pos (mb : MB H), Tied mb m →
      mb.traverseAndBuild comb dflt h pos =
        { mb with
          bits := mb.bits ++
            (build comb (fun i => mb.allHashes.getD i dflt) m mb.numTx h pos).1.map bit,
          finalHashes := mb.finalHashes ++
            (build comb (fun i => mb.allHashes.getD i dflt) m mb.numTx h pos).2 } := by
  intro h
  induction h with
  | zero =>
    intro pos mb ht
    simp only [MB.traverseAndBuild, build, isParent_eq mb m ht, List.map_cons, List.map_nil]
    rfl
  | succ h ih =>
    intro pos mb ht
    rw [MB.traverseAndBuild, build_succ]
    simp only [isParent_eq mb m ht, bit_eq_zero]
    by_cases hp : isParentGo m mb.numTx (h+1) pos = true
    · simp only [hp, Bool.not_true, Bool.false_eq_true, if_false, if_true]
      have ht1 : Tied ({ mb with bits := mb.bits ++ [bit true] } : MB H) m := ht
      rw [ih (pos*2) _ ht1]
      simp only [calcTreeWidth_eq, Nat.mul_comm pos 2]
      by_cases hw : 2*pos+1 < width mb.numTx h
      · simp only [hw, if_true]
        refine (ih (2*pos+1) _ ?_).trans ?_
        · exact ht
        · simp [List.append_assoc]
      · simp only [hw, if_false]
        simp [List.append_assoc]
    · have hp' : isParentGo m mb.numTx (h+1) pos = false := by simpa using hp
      simp only [hp', Bool.not_false, if_true, Bool.false_eq_true, if_false, List.map_cons, List.map_nil]
      rw [calcHash_eq]

/-! ## the fill loop of `NewMerkleBlock` -/

theorem fillLoop_eq (m : Nat → Bool) : ∀ (l : List (H × Nat)) (mb : MB H) (idx : List Nat),
    fillLoop m l (mb, idx) =
      ({ mb with matchedBits := mb.matchedBits ++ l.map (fun e => bit (m e.2)),
                 allHashes := mb.allHashes ++ l.map Prod.fst },
        idx ++ (l.map Prod.snd).filter m) := by
  intro l
  induction l with
  | nil => intro mb idx; simp [fillLoop]
  | cons e l ih =>
    intro mb idx
    obtain ⟨x, i⟩ := e
    unfold fillLoop
    by_cases hm : m i = true
    · simp [hm, ih, bit, List.append_assoc]
    · simp [hm, ih, bit, List.append_assoc]

/-! ## the in-place flag loop = `packFlags` -/

theorem modify_append_left {α : Type} (f : α → α) : ∀ (l1 l2 : List α) (i : Nat), i < l1.length →
    (l1 ++ l2).modify i f = l1.modify i f ++ l2 := by
  intro l1
  induction l1 with
  | nil => intro l2 i h; simp at h
  | cons a l1 ih =>
    intro l2 i h
    cases i with
    | zero => simp
    | succ i => simp [ih l2 i (by simpa using h)]

theorem modify_append_right {α : Type} (f : α → α) : ∀ (l1 l2 : List α) (j : Nat),
    (l1 ++ l2).modify (l1.length + j) f = l1 ++ l2.modify j f := by
  intro l1
  induction l1 with
  | nil => intro l2 j; simp
  | cons a l1 ih =>
    intro l2 j
    have : (a :: l1).length + j = (l1.length + j) + 1 := by simp; omega
    rw [this]
    simp [ih l2 j]

theorem packByte_snoc (l : List Bool) (b : Bool) :
    packByte (l ++ [b]) = packByte l ||| (bit b <<< UInt8.ofNat l.length) := by
  unfold packByte
  rw [List.zipIdx_append, List.foldl_append]
  cases b <;> simp [bit]

theorem packByte_single (b : Bool) : packByte [b] = bit b := by cases b <;> decide

theorem packFlags_length' (l : List Bool) : (packFlags l).length = (l.length + 7) / 8 := by
  have := packFlags_length l
  have := padLen_lt l.length
  have := padLen_spec l.length
  omega

theorem packFlags_snoc : ∀ (k : Nat) (l : List Bool) (b : Bool), l.length = k →
    packFlags (l ++ [b]) =
      if l.length % 8 = 0 then packFlags l ++ [bit b]
      else (packFlags l).modify (l.length / 8) (fun x => x ||| (bit b <<< UInt8.ofNat (l.length % 8))) := by
  intro k
  induction k using Nat.strongRecOn with
  | ind k ih =>
    intro l b hk
    have hne : l ++ [b] ≠ [] := by simp
    rw [packFlags_of_ne_nil hne]
    by_cases hl : l = []
    · subst hl
      simp [packFlags_nil, packByte_single]
    · have hpos : 0 < l.length := List.length_pos_iff.2 hl
      rw [packFlags_of_ne_nil hl]
      by_cases h8 : l.length < 8
      · have t1 : (l ++ [b]).take 8 = l ++ [b] := List.take_of_length_le (by simp; omega)
        have d1 : (l ++ [b]).drop 8 = [] := List.drop_eq_nil_of_le (by simp; omega)
        have t2 : l.take 8 = l := List.take_of_length_le (by omega)
        have d2 : l.drop 8 = [] := List.drop_eq_nil_of_le (by omega)
        have e1 : l.length % 8 = l.length := Nat.mod_eq_of_lt h8
        have e2 : l.length / 8 = 0 := Nat.div_eq_of_lt h8
        rw [t1, d1, t2, d2, packFlags_nil, e1, e2, if_neg (by omega), packByte_snoc]
        rfl
      · have h8' : 8 ≤ l.length := by omega
        have t1 : (l ++ [b]).take 8 = l.take 8 := List.take_append_of_le_length h8'
        have d1 : (l ++ [b]).drop 8 = l.drop 8 ++ [b] := List.drop_append_of_le_length h8'
        have hlen : (l.drop 8).length = l.length - 8 := List.length_drop
        rw [t1, d1, ih (l.drop 8).length (by omega) (l.drop 8) b rfl, hlen]
        have e1 : (l.length - 8) % 8 = l.length % 8 := by omega
        have e2 : l.length / 8 = (l.length - 8) / 8 + 1 := by omega
        rw [e1, e2]
        by_cases h0 : l.length % 8 = 0
        · simp [h0]
        · simp [h0]

/-- one iteration of the flag loop -/
def flagStep (bits : List UInt8) (flags : List UInt8) (i : Nat) : List UInt8 :=
  flags.modify (i/8) (fun b => b ||| (bits.getD i 0 <<< UInt8.ofNat (i % 8)))

theorem flagFold_eq (l : List Bool) (N : Nat) : ∀ k, k ≤ l.length → (k + 7) / 8 ≤ N →
    (List.range k).foldl (flagStep (l.map bit)) (List.replicate N 0) =
      packFlags (l.take k) ++ List.replicate (N - (k + 7) / 8) 0 := by
  intro k
  induction k with
  | zero => intro _ _; simp [packFlags_nil]
  | succ k ih =>
    intro hk hN
    have hk' : k < l.length := by omega
    rw [List.range_succ, List.foldl_append, ih (by omega) (by omega)]
    simp only [List.foldl_cons, List.foldl_nil]
    have hget : (l.map bit).getD k 0 = bit l[k] := by
      simp [List.getD, hk']
    have hlen : (packFlags (l.take k)).length = (k + 7) / 8 := by
      rw [packFlags_length', List.length_take]; congr 2; omega
    have htk : (l.take k).length = k := by rw [List.length_take]; omega
    rw [List.take_succ_eq_append_getElem hk', packFlags_snoc _ _ _ rfl, htk]
    unfold flagStep
    rw [hget]
    by_cases h0 : k % 8 = 0
    · rw [if_pos h0]
      have e1 : k / 8 = (packFlags (l.take k)).length + 0 := by omega
      have e2 : N - (k + 7) / 8 = (N - (k + 1 + 7) / 8) + 1 := by omega
      rw [e1, modify_append_right, e2, List.replicate_succ, List.modify_zero_cons, h0, List.append_assoc]
      congr 2
      cases l[k] <;> decide
    · rw [if_neg h0]
      have e1 : k / 8 < (packFlags (l.take k)).length := by omega
      have e2 : N - (k + 7) / 8 = N - (k + 1 + 7) / 8 := by omega
      rw [modify_append_left _ _ _ _ e1, e2]

theorem flagLoop_eq (l : List Bool) : flagLoop (l.map bit) = packFlags l := by
  have := flagFold_eq l ((l.length + 7) / 8) l.length (Nat.le_refl _) (Nat.le_refl _)
  unfold flagLoop
  simp only [List.length_map]
  unfold flagStep at this
  rw [this]
  simp

/-! ## the two renderings of the builder agree -/

theorem tied_fill (m : Nat → Bool) (leaves : List H) :
    Tied ({ numTx := leaves.length, matchedBits := leaves.zipIdx.map (fun e => bit (m e.2)),
            allHashes := leaves.zipIdx.map Prod.fst } : MB H) m := by
  intro j hj
  have hj' : j < leaves.length := hj
  simp [List.getD, hj']

theorem buildMsgBloom_eq (comb : H → H → H) (leaves : List H) (m : Nat → Bool) (dflt : H) :
    buildMsgBloom comb leaves m dflt = buildMsg comb leaves m dflt := by
  unfold buildMsgBloom buildMsg
  dsimp only
  rw [fillLoop_eq]
  dsimp only
  simp only [List.nil_append]
  have ht := tied_fill m leaves
  rw [traverseAndBuild_eq comb dflt m _ _ _ ht]
  simp only [List.nil_append, heightLoop_eq, flagLoop_eq, List.zipIdx_map_fst, List.zipIdx_map_snd]
  rw [← List.range_eq_range']
  rfl

/-! ## `TxInSet`, `selectBySet`, `selectByScan` -/

theorem TxInSet_iff (tx : H) (set : List H) : TxInSet tx set = true ↔ tx ∈ set := by
  induction set with
  | nil => simp [TxInSet]
  | cons a set ih =>
    unfold TxInSet
    by_cases h : tx = a
    · simp [h]
    · simp [h, ih]

theorem selectBySet_iff (leaves set : List H) (i : Nat) :
    selectBySet leaves set i = true ↔ ∃ h, leaves[i]? = some h ∧ h ∈ set := by
  unfold selectBySet
  cases hl : leaves[i]? with
  | none => simp
  | some x => simp [TxInSet_iff]

theorem selectBySet_lt {leaves set : List H} {i : Nat} (h : selectBySet leaves set i = true) :
    i < leaves.length := by
  obtain ⟨x, hx, -⟩ := (selectBySet_iff leaves set i).1 h
  exact (List.getElem?_eq_some_iff.1 hx).1

/-- the leaves at the selected positions are the leaves that satisfy the predicate, in order, with multiplicity -/
theorem range_filter_map_getD (p : H → Bool) (d : H) : ∀ l : List H,
    ((List.range l.length).filter (fun i => match l[i]? with | some h => p h | none => false)).map
        (fun i => l.getD i d) = l.filter p := by
  intro l
  induction l with
  | nil => simp
  | cons a l ih =>
    rw [List.length_cons, List.range_succ_eq_map, List.filter_cons, List.filter_cons]
    have e : ((List.map Nat.succ (List.range l.length)).filter
          (fun i => match (a :: l)[i]? with | some h => p h | none => false)).map
          (fun i => (a :: l).getD i d) = l.filter p := by
      rw [List.filter_map, List.map_map, ← ih]
      rfl
    by_cases hp : p a = true
    · simp only [List.getElem?_cons_zero, hp, if_true, List.map_cons, e]
      rfl
    · have hp' : p a = false := by simpa using hp
      simp only [List.getElem?_cons_zero, hp', Bool.false_eq_true, if_false, e]

theorem selectBySet_matches (leaves set : List H) (d : H) :
    ((List.range leaves.length).filter (selectBySet leaves set)).map (fun i => leaves.getD i d) =
      leaves.filter (fun h => TxInSet h set) :=
  range_filter_map_getD (fun h => TxInSet h set) d leaves

theorem getD_inj_of_nodup {leaves : List H} (hnd : leaves.Nodup) (d : H) :
    ∀ i j, i < leaves.length → j < leaves.length → leaves.getD i d = leaves.getD j d → i = j := by
  intro i j hi hj he
  simp only [List.getD, List.getElem?_eq_getElem hi, List.getElem?_eq_getElem hj, Option.getD_some] at he
  rw [List.nodup_iff_pairwise_ne, List.pairwise_iff_getElem] at hnd
  rcases Nat.lt_trichotomy i j with h | h | h
  · exact absurd he (hnd i j hi hj h)
  · exact h
  · exact absurd he.symm (hnd j i hj hi h)

theorem mem_filter_range (m : Nat → Bool) (n i : Nat) :
    i ∈ (List.range n).filter m ↔ i < n ∧ m i = true := by
  simp [List.mem_filter]

theorem pairwise_filter_range (m : Nat → Bool) (n : Nat) :
    ((List.range n).filter m).Pairwise (· < ·) :=
  List.Pairwise.filter m List.pairwise_lt_range

/-! ## canonicity: what acceptance determines -/

theorem mem_leafRange_div {n h pos i : Nat} (hi : i ∈ leafRange n h pos) : i / 2^h = pos := by
  rw [mem_leafRange] at hi
  exact Nat.div_eq_of_lt_le hi.1 hi.2.1

theorem build_pos (comb : H → H → H) (L : Nat → H) (m : Nat → Bool) (n : Nat) : ∀ h pos,
    1 ≤ (build comb L m n h pos).1.length ∧ 1 ≤ (build comb L m n h pos).2.length := by
  intro h
  induction h with
  | zero => intro pos; simp [build]
  | succ h ih =>
    intro pos
    rw [build_succ]
    have a := ih (2*pos)
    split
    · split
      · simp only [List.length_cons, List.length_append]; omega
      · simp only [List.length_cons]; omega
    · simp

/-- positions reported below node `(h,pos)` lie below that node -/
theorem extractP_pos_div (comb : H → H → H) (n : Nat) {h pos : Nat} {bits : List Bool} {hs : List H} {r : H}
    {ms : List (Nat × H)} {bits' : List Bool} {hs' : List H} (hp : pos < width n h)
    (he : extractP comb n h pos bits hs = .ok (r, ms, bits', hs')) :
    ∀ i, i ∈ ms.map Prod.fst → i / 2^h = pos := by
  intro i hi
  obtain ⟨⟨p, x⟩, hm, rfl⟩ := List.mem_map.1 hi
  exact ((extractP_sound comb n h pos bits hs r ms bits' hs' hp he).1 p x hm).1

/-- **Canonicity, parser level.** With an injective combiner: if the parser accepts a prefix of `(bits, hs)` at node
`(h,pos)` and returns the *true* hash of that node, then the consumed hashes are true subtree hashes, the revealed
leaves are the true leaves, and — `m` being any predicate that agrees with the revealed positions below the node — the
consumed prefix is at least as long as what `build` emits for `m`, and equals it when it is not longer (in bits). -/
theorem extractP_canon (comb : H → H → H) (L : Nat → H) (m : Nat → Bool) (n : Nat)
    (hinj : ∀ a b c d, comb a b = comb c d → a = c ∧ b = d) :
    ∀ h pos bits hs ms bits' hs', pos < width n h →
      extractP comb n h pos bits hs = .ok (calcHash comb L n h pos, ms, bits', hs') →
      (∀ i, i ∈ leafRange n h pos → (m i = true ↔ i ∈ ms.map Prod.fst)) →
      ∃ ub uh, bits = ub ++ bits' ∧ hs = uh ++ hs' ∧
        ms = matchedList L m n h pos ∧
        (build comb L m n h pos).1.length ≤ ub.length ∧
        (build comb L m n h pos).2.length ≤ uh.length ∧
        (ub.length ≤ (build comb L m n h pos).1.length →
          ub = (build comb L m n h pos).1 ∧ uh = (build comb L m n h pos).2) := by
  intro h
  induction h with
  | zero =>
    intro pos bits hs ms bits' hs' hpw he hm
    rw [width_zero] at hpw
    cases bits with
    | nil => simp [extractP] at he
    | cons p bits =>
      cases hs with
      | nil => simp [extractP] at he
      | cons x hs =>
        simp only [extractP, Except.ok.injEq, Prod.mk.injEq, calcHash] at he
        obtain ⟨rfl, rfl, rfl, rfl⟩ := he
        have hmp : m pos = p := by
          have := hm pos (by rw [leafRange_zero]; simp [hpw])
          cases p <;> simp_all
        have hpar : isParentGo m n 0 pos = p := by rw [isParentGo_zero]; simp [hpw, hmp]
        refine ⟨[p], [L pos], rfl, rfl, ?_, ?_, ?_, ?_⟩
        · rw [matchedList_zero, hpar]
        · simp [build]
        · simp [build]
        · intro _; simp [build, hpar]
  | succ h ih =>
    intro pos bits hs ms bits' hs' hpw he hm
    have hl := child_lt_width hpw
    cases bits with
    | nil => simp [extractP] at he
    | cons p bits =>
      by_cases hb : p = true
      · subst hb
        simp only [extractP, if_true] at he
        cases e1 : extractP comb n h (2*pos) bits hs with
        | error e => simp [e1] at he
        | ok v1 =>
          obtain ⟨l, ml, bits1, hs1⟩ := v1
          simp only [e1] at he
          have pl := extractP_pos_div comb n hl e1
          by_cases hw : 2*pos+1 < width n h
          · simp only [hw, if_true] at he
            cases e2 : extractP comb n h (2*pos+1) bits1 hs1 with
            | error e => simp [e2] at he
            | ok v2 =>
              obtain ⟨rr, mr, bits2, hs2⟩ := v2
              simp only [e2] at he
              have pr := extractP_pos_div comb n hw e2
              by_cases heq : rr = l
              · simp [heq] at he
              · simp only [heq, if_false, Except.ok.injEq, Prod.mk.injEq, calcHash, hw, if_true] at he
                obtain ⟨hc, rfl, rfl, rfl⟩ := he
                obtain ⟨rfl, rfl⟩ := hinj _ _ _ _ hc
                have hmL : ∀ i, i ∈ leafRange n h (2*pos) → (m i = true ↔ i ∈ ml.map Prod.fst) := by
                  intro i hi
                  have := hm i (by rw [leafRange_succ]; exact List.mem_append_left _ hi)
                  rw [this, List.map_append, List.mem_append]
                  constructor
                  · rintro (a | a)
                    · exact a
                    · have := pr i a; have := mem_leafRange_div hi; omega
                  · exact Or.inl
                have hmR : ∀ i, i ∈ leafRange n h (2*pos+1) → (m i = true ↔ i ∈ mr.map Prod.fst) := by
                  intro i hi
                  have := hm i (by rw [leafRange_succ, if_pos hw]; exact List.mem_append_right _ hi)
                  rw [this, List.map_append, List.mem_append]
                  constructor
                  · rintro (a | a)
                    · have := pl i a; have := mem_leafRange_div hi; omega
                    · exact a
                  · exact Or.inr
                obtain ⟨ub1, uh1, rfl, rfl, rfl, a1, a2, a3⟩ := ih _ _ _ _ _ _ hl e1 hmL
                obtain ⟨ub2, uh2, rfl, rfl, rfl, b1, b2, b3⟩ := ih _ _ _ _ _ _ hw e2 hmR
                have q1 := build_pos comb L m n h (2*pos)
                have q2 := build_pos comb L m n h (2*pos+1)
                refine ⟨true :: (ub1 ++ ub2), uh1 ++ uh2, by simp, by simp, ?_, ?_, ?_, ?_⟩
                · rw [matchedList_succ, if_pos hw]
                · rw [build_succ]; split
                  · simp only [List.length_cons, List.length_append]; omega
                  · simp only [List.length_cons, List.length_append, List.length_nil]; omega
                · rw [build_succ]; split
                  · simp only [List.length_append]; omega
                  · simp only [List.length_cons, List.length_append, List.length_nil]; omega
                · rw [build_succ]; split
                  · simp only [List.length_cons, List.length_append]
                    intro hle
                    obtain ⟨rfl, rfl⟩ := a3 (by omega)
                    obtain ⟨rfl, rfl⟩ := b3 (by omega)
                    exact ⟨rfl, rfl⟩
                  · simp only [List.length_cons, List.length_append, List.length_nil]
                    intro hle; omega
          · simp only [hw, if_false, Except.ok.injEq, Prod.mk.injEq, calcHash] at he
            obtain ⟨hc, rfl, rfl, rfl⟩ := he
            obtain ⟨rfl, -⟩ := hinj _ _ _ _ hc
            have hmL : ∀ i, i ∈ leafRange n h (2*pos) → (m i = true ↔ i ∈ ml.map Prod.fst) := by
              intro i hi
              exact hm i (by rw [leafRange_succ, if_neg hw, List.append_nil]; exact hi)
            obtain ⟨ub1, uh1, rfl, rfl, rfl, a1, a2, a3⟩ := ih _ _ _ _ _ _ hl e1 hmL
            have q1 := build_pos comb L m n h (2*pos)
            refine ⟨true :: ub1, uh1, by simp, rfl, ?_, ?_, ?_, ?_⟩
            · rw [matchedList_succ, if_neg hw, List.append_nil]
            · rw [build_succ]; split
              · simp only [List.length_cons]; omega
              · simp only [List.length_cons, List.length_nil]; omega
            · rw [build_succ]; split
              · omega
              · simp only [List.length_cons, List.length_nil]; omega
            · rw [build_succ]; split
              · simp only [List.length_cons]
                intro hle
                obtain ⟨rfl, rfl⟩ := a3 (by omega)
                exact ⟨rfl, rfl⟩
              · simp only [List.length_cons, List.length_nil]
                intro hle; omega
      · have hb' : p = false := by cases p <;> simp_all
        subst hb'
        cases hs with
        | nil => simp [extractP] at he
        | cons y hs =>
          simp only [extractP, Bool.false_eq_true, if_false, Except.ok.injEq, Prod.mk.injEq] at he
          obtain ⟨rfl, rfl, rfl, rfl⟩ := he
          have hpar : ¬ isParentGo m n (h+1) pos = true := by
            rw [isParentGo_eq_any, List.any_eq_true]
            rintro ⟨i, hi, hmi⟩
            have := (hm i hi).1 hmi
            simp at this
          have hpar' : isParentGo m n (h+1) pos = false := by simpa using hpar
          refine ⟨[false], [calcHash comb L n (h+1) pos], rfl, rfl, ?_, ?_, ?_, ?_⟩
          · rw [matchedList_eq_nil_of_not_parent hpar]
          · rw [build_succ]; simp [hpar']
          · rw [build_succ]; simp [hpar']
          · rw [build_succ]; simp [hpar']

/-! ## canonicity, message level -/

section MsgLevel
variable (comb : H → H → H) (zero : H)

/-- the extractor's cursor state after `ExtractMatches` on `msg` -/
abbrev finalState (msg : Msg H) : Ext H :=
  (traverse comb zero msg.numTx (unpackFlags msg.flags).toArray msg.hashes.toArray (height msg.numTx) 0 {}).2

theorem canonical_of_accept (L : Nat → H) (msg : Msg H)
    (hinj : ∀ a b c d, comb a b = comb c d → a = c ∧ b = d)
    (hroot : (extractMsg comb zero msg).root = some (calcHash comb L msg.numTx (height msg.numTx) 0))
    (m : Nat → Bool) (hm : ∀ i, m i = true ↔ i ∈ (extractMsg comb zero msg).items) :
    (extractMsg comb zero msg).items = (List.range msg.numTx).filter m ∧
    (extractMsg comb zero msg).matches_ = ((List.range msg.numTx).filter m).map L ∧
    (extractMsg comb zero msg).bad = false ∧
    (build comb L m msg.numTx (height msg.numTx) 0).1.length ≤ (finalState comb zero msg).bitsUsed ∧
    (build comb L m msg.numTx (height msg.numTx) 0).2.length ≤ msg.hashes.length ∧
    (packFlags (build comb L m msg.numTx (height msg.numTx) 0).1).length ≤ msg.flags.length ∧
    msg.flags.length = ((finalState comb zero msg).bitsUsed + 7) / 8 ∧
    ((finalState comb zero msg).bitsUsed ≤ (build comb L m msg.numTx (height msg.numTx) 0).1.length →
      msg.hashes = (build comb L m msg.numTx (height msg.numTx) 0).2 ∧
      msg.flags.length = (packFlags (build comb L m msg.numTx (height msg.numTx) 0).1).length ∧
      (unpackFlags msg.flags).take (build comb L m msg.numTx (height msg.numTx) 0).1.length =
        (build comb L m msg.numTx (height msg.numTx) 0).1) := by
  obtain ⟨hpre, hbad, hbits, hhashes, hr⟩ := extractMsg_root_some comb zero msg hroot
  have h1 : 1 ≤ msg.numTx := Nat.pos_of_ne_zero hpre.1
  have h33 : msg.numTx ≤ 2^33 := by have := hpre.2.1; unfold maxTxnCount at this; omega
  have hwid := width_height h1 h33
  cases he : extractP comb msg.numTx (height msg.numTx) 0 (unpackFlags msg.flags) msg.hashes with
  | error e =>
    have := traverse_init_error comb zero msg.numTx _ _ he
    rw [this] at hbad; cases hbad
  | ok v =>
    obtain ⟨r, ms, bs', hs'⟩ := v
    obtain ⟨t, -, -, -, -⟩ := traverse_init_ok comb zero msg.numTx _ _ he
    have hex := extractMsg_of_ok comb zero msg hpre he
    have hr' : r = calcHash comb L msg.numTx (height msg.numTx) 0 := by rw [hr, t]
    subst hr'
    have hitems : (extractMsg comb zero msg).items = ms.map Prod.fst := by rw [hex]
    have hmatches : (extractMsg comb zero msg).matches_ = ms.map Prod.snd := by rw [hex]
    obtain ⟨ub, uh, hb, hh, hms, c1, c2, c3⟩ :=
      extractP_canon comb L m msg.numTx hinj _ _ _ _ _ _ _ (by omega) he
        (fun i _ => by rw [hm i, hitems])
    rw [matchedList_root L m (Nat.le_of_eq hwid)] at hms
    have hused : (finalState comb zero msg).bitsUsed = ub.length := by
      show (traverse comb zero msg.numTx (unpackFlags msg.flags).toArray msg.hashes.toArray
        (height msg.numTx) 0 {}).2.bitsUsed = _
      rw [t, hb]; simp
    have hhu : msg.hashes.length - hs'.length = msg.hashes.length := by
      rw [t] at hhashes; exact hhashes
    have hhs : hs' = [] := by
      have : hs'.length ≤ msg.hashes.length := by rw [hh]; simp
      apply List.eq_nil_of_length_eq_zero
      have : 0 < msg.hashes.length := by
        have := (build_pos comb L m msg.numTx (height msg.numTx) 0).2
        rw [hh, List.length_append]; omega
      omega
    subst hhs
    rw [List.append_nil] at hh
    have hfl : msg.flags.length = (ub.length + 7) / 8 := by
      rw [t] at hbits
      dsimp only at hbits
      rw [hb] at hbits
      have e := unpackFlags_length msg.flags
      rw [hb] at e
      simp only [List.length_append] at hbits e
      omega
    refine ⟨?_, ?_, ?_, ?_, ?_, ?_, ?_, ?_⟩
    · rw [hitems, hms]; simp [List.map_map, Function.comp_def]
    · rw [hmatches, hms]; simp [List.map_map, Function.comp_def]
    · rw [hex]
    · rw [hused]; exact c1
    · rw [hh]; exact c2
    · rw [packFlags_length', hfl]; omega
    · rw [hused]; exact hfl
    · rw [hused]
      intro hle
      obtain ⟨e1, e2⟩ := c3 hle
      refine ⟨by rw [hh, e2], ?_, ?_⟩
      · rw [packFlags_length', hfl, e1]
      · rw [hb, ← e1]; simp

/-- the builder's message with arbitrary bits in the padding positions of the last flag byte extracts to the same
result (round trip generalised over the padding) -/
theorem extract_build_pad (L : Nat → H) (m : Nat → Bool) (n : Nat) (h1 : 1 ≤ n) (h2 : n ≤ maxTxnCount)
    (hne : noEqSib comb L m n (height n) 0) (pad : List Bool)
    (hpad : pad.length = padLen (build comb L m n (height n) 0).1.length) :
    extractMsg comb zero
        ⟨n, (build comb L m n (height n) 0).2, packFlags ((build comb L m n (height n) 0).1 ++ pad)⟩ =
      ⟨some (calcHash comb L n (height n) 0), ((List.range n).filter m).map L, (List.range n).filter m, false⟩ := by
  have h33 : n ≤ 2^33 := by unfold maxTxnCount at h2; omega
  have hun := unpack_packFlags _ ((build comb L m n (height n) 0).1 ++ pad) rfl
  have hp0 : padLen ((build comb L m n (height n) 0).1 ++ pad).length = 0 := by
    rw [List.length_append, hpad]
    have := padLen_spec (build comb L m n (height n) 0).1.length
    unfold padLen at *; omega
  rw [hp0, List.replicate_zero, List.append_nil] at hun
  have hpre : PreOK (H := H) ⟨n, (build comb L m n (height n) 0).2,
      packFlags ((build comb L m n (height n) 0).1 ++ pad)⟩ := by
    refine ⟨?_, h2, ?_, ?_⟩
    · dsimp only; omega
    · have := build_hashes_le_leaves comb L m n (height n) 0 (by omega)
      dsimp only
      omega
    · dsimp only
      rw [hun, List.length_append]
      have := build_hashes_le_bits comb L m n (height n) 0
      omega
  have he := extractP_build comb L m n (height n) 0 pad [] hne
  rw [List.append_nil, ← hun] at he
  rw [extractMsg_of_ok comb zero _ hpre he, matchedList_root L m (Nat.le_of_eq (width_height h1 h33))]
  have := padLen_lt (build comb L m n (height n) 0).1.length
  simp [List.map_map, Function.comp_def, hpad, this]

end MsgLevel

/-! ## flag bytes are determined by their bits -/

set_option maxRecDepth 100000 in
theorem pack_unpack_nat : ∀ n, n < 256 → packByte (unpackByte (UInt8.ofNat n)) = UInt8.ofNat n := by decide

theorem pack_unpackByte (b : UInt8) : packByte (unpackByte b) = b := by
  have := pack_unpack_nat b.toNat (UInt8.toNat_lt b)
  rwa [UInt8.ofNat_toNat] at this

theorem unpackByte_inj {a b : UInt8} (h : unpackByte a = unpackByte b) : a = b := by
  rw [← pack_unpackByte a, h, pack_unpackByte]

theorem unpackFlags_inj : ∀ a b : List UInt8, unpackFlags a = unpackFlags b → a = b := by
  intro a
  induction a with
  | nil =>
    intro b h
    have := congrArg List.length h
    rw [unpackFlags_length, unpackFlags_length] at this
    exact (List.eq_nil_of_length_eq_zero (by simp at this; omega)).symm
  | cons x a ih =>
    intro b h
    cases b with
    | nil =>
      have := congrArg List.length h
      rw [unpackFlags_length, unpackFlags_length] at this
      simp at this
    | cons y b =>
      rw [unpackFlags_cons, unpackFlags_cons] at h
      obtain ⟨h1, h2⟩ := List.append_inj h (by rw [unpackByte_length, unpackByte_length])
      rw [unpackByte_inj h1, ih b h2]

/-- flag bytes of the right count whose bits start with `c` and are `false` afterwards are `packFlags c` -/
theorem flags_eq_of_zero_pad (flags : List UInt8) (c : List Bool)
    (hlen : flags.length = (packFlags c).length)
    (htake : (unpackFlags flags).take c.length = c)
    (hz : ∀ b ∈ (unpackFlags flags).drop c.length, b = false) : flags = packFlags c := by
  apply unpackFlags_inj
  rw [unpack_packFlags _ c rfl]
  have hl := unpackFlags_length flags
  have hp := packFlags_length c
  have hd : (unpackFlags flags).drop c.length = List.replicate (padLen c.length) false := by
    rw [List.eq_replicate_iff]
    refine ⟨?_, hz⟩
    rw [List.length_drop, hl, hlen]; omega
  rw [← List.take_append_drop c.length (unpackFlags flags), htake, hd]

/-! ## the round trip of `Props/C11`, re-derived here (so that `Props/C11Select` does not import `Props/C11`) -/

theorem packFlags_pad (bits : List Bool) :
    packFlags (bits ++ List.replicate (padLen bits.length) false) = packFlags bits := by
  apply unpackFlags_inj
  rw [unpack_packFlags _ _ rfl, unpack_packFlags _ bits rfl]
  have : padLen (bits ++ List.replicate (padLen bits.length) false).length = 0 := by
    rw [List.length_append, List.length_replicate]
    have := padLen_spec bits.length
    unfold padLen at *; omega
  rw [this, List.replicate_zero, List.append_nil]

theorem roundtrip_msg (comb : H → H → H) (zero dflt : H) (leaves : List H) (m : Nat → Bool)
    (h1 : 1 ≤ leaves.length) (h2 : leaves.length ≤ maxTxnCount)
    (hne : NoEqualSiblings comb (fun i => leaves.getD i dflt) m leaves.length) :
    extractMsg comb zero (buildMsg comb leaves m dflt).1 =
      ⟨some (calcHash comb (fun i => leaves.getD i dflt) leaves.length (height leaves.length) 0),
       ((List.range leaves.length).filter m).map (fun i => leaves.getD i dflt),
       (List.range leaves.length).filter m,
       false⟩ ∧
    (buildMsg comb leaves m dflt).2 = (List.range leaves.length).filter m := by
  refine ⟨?_, rfl⟩
  have := extract_build_pad comb zero (fun i => leaves.getD i dflt) m leaves.length h1 h2
    (noEqSib_of_NoEqualSiblings hne _ _) (List.replicate (padLen _) false) (List.length_replicate ..)
  rw [packFlags_pad] at this
  exact this

theorem distinct_ok (comb : H → H → H) (leaves : List H) (dflt : H)
    (hcomb : ∀ a b c d, comb a b = comb c d → a = c) (hnd : leaves.Nodup) (m : Nat → Bool) :
    NoEqualSiblings comb (fun i => leaves.getD i dflt) m leaves.length :=
  (noEqualSiblingsAll_of_injective comb _ _ hcomb (getD_inj_of_nodup hnd dflt)).toSubset m

/-- on the built message the extractor consumes exactly the emitted flag bits, and the padding bits are zero -/
theorem built_used (comb : H → H → H) (zero : H) (L : Nat → H) (m : Nat → Bool) (n : Nat)
    (hne : noEqSib comb L m n (height n) 0) :
    (traverse comb zero n (unpackFlags (packFlags (build comb L m n (height n) 0).1)).toArray
        (build comb L m n (height n) 0).2.toArray (height n) 0 {}).2.bitsUsed =
      (build comb L m n (height n) 0).1.length ∧
    ∀ b ∈ (unpackFlags (packFlags (build comb L m n (height n) 0).1)).drop
        (build comb L m n (height n) 0).1.length, b = false := by
  have hun := unpack_packFlags _ (build comb L m n (height n) 0).1 rfl
  have he := extractP_build comb L m n (height n) 0
    (List.replicate (padLen (build comb L m n (height n) 0).1.length) false) [] hne
  rw [List.append_nil, ← hun] at he
  obtain ⟨t, -⟩ := traverse_init_ok comb zero n _ _ he
  refine ⟨?_, ?_⟩
  · rw [t]
    simp [hun]
  · rw [hun]
    intro b hb
    simp at hb
    exact hb.2

/-! ## data for the examples of `Props/C11Select` -/

section ExampleData
open FreeTree Bch.Model.BloomTx Bch.Proofs.BloomTx.Toy

/-- a block with a duplicated transaction hash (positions 1 and 3), not adjacent siblings -/
def dupLeaves : List FreeTree := [leaf 0, leaf 1, leaf 2, leaf 1]

/-- `NoEqualSiblings` holds for it (subset: the copies of `leaf 1`) although the leaves are not distinct -/
theorem dupLeaves_ok : NoEqualSiblings node (fun i => dupLeaves.getD i (leaf 0))
    (selectBySet dupLeaves [leaf 1]) dupLeaves.length := by
  rw [noEqualSiblings_iff _ _ _ _ (by decide) (by decide)]
  show noEqSib node _ _ 4 2 0
  simp only [noEqSib]
  decide

/-- toy node combiner on byte strings (concatenation; NOT injective — `NoEqualSiblings` is checked directly) -/
def catComb : Bytes → Bytes → Bytes := fun a b => a ++ b

/-- the scan of the C10 example block `blk = #[txB, txA, txC]` (child `txB` listed before its parent `txA`) with the
toy filter `[[7]]` reports `{0, 1}`; `NoEqualSiblings` holds for that subset -/
theorem blk_ok : NoEqualSiblings catComb (fun i => (blockHashes blk).getD i [])
    (selectByScan (GetMatchedIndices toyOps toySame 5 blk [[7]])) blk.size := by
  rw [noEqualSiblings_iff _ _ _ _ (by decide) (by decide)]
  show noEqSib catComb _ _ 3 2 0
  simp only [noEqSib]
  decide

/-- three leaves; with `leaf 0` chosen the built message has flag bits `1 1 1 0 0` and hashes
`[leaf 0, leaf 1, node (leaf 2) (leaf 2)]` -/
def ex3 : List FreeTree := [leaf 0, leaf 1, leaf 2]

/-- a NON-canonical message for the same block and the same subset: the right inner node (no chosen leaf below it,
one real child) is expanded — flag bits `1 1 1 0 1 0` (= `0x17`), hashes `[leaf 0, leaf 1, leaf 2]` -/
def ex3Alt : Msg FreeTree := ⟨3, [leaf 0, leaf 1, leaf 2], [0x17]⟩

end ExampleData

end Bch.Proofs.MerkleSelect
