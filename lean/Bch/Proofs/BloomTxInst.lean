import Bch.Proofs.Bloom
import Bch.Proofs.BloomTxRefine
/-
C10 for the real bloom filter: `bloomOps` (model of gcash/bchutil `bloom.Filter`) satisfies the
abstract laws used by `Bch/Proofs/BloomTx.lean`, by the theorems of property C09
(`Bch/Proofs/Bloom.lean`: `add_matches` = `bloom_add_matches`, `add_mono` = `bloom_add_mono`).
-/
namespace Bch.Proofs.BloomTx
open Bch Bch.Model.BloomTx
open Bch.Model.Bloom (Msg addMsg matchesMsg setBit testBit hashIdx)

/-- a loaded filter within the wire limit (`MaxFilterLoadFilterSize` = 36000 bytes) -/
def bloomGood (f : Bch.Model.Bloom.Filter) : Prop := f.isSome = true ∧ Bch.Proofs.Bloom.Lim f

theorem bloomGood_some (m : Msg) (h : m.bits.length ≤ 36000) : bloomGood (some m) :=
  ⟨rfl, Bch.Proofs.Bloom.Lim_some.2 h⟩

/-- the laws of C10 for the real filter, from C09 -/
theorem bloom_lawful : LawfulOn bloomOps bloomGood where
  good_add f x h := ⟨(Bch.Proofs.Bloom.add_isSome f x).trans h.1, Bch.Proofs.Bloom.Lim_add x h.2⟩
  add_test f x h := Bch.Proofs.Bloom.add_matches f x h.1 h.2
  add_mono f x y h := Bch.Proofs.Bloom.add_mono f x y h
  add_flags f x := by
    cases f with
    | none => rfl
    | some m => exact Bch.Proofs.Bloom.addMsg_flags m x

theorem addAll_bloom (f : Bch.Model.Bloom.Filter) (xs : List Bytes) :
    addAll bloomOps f xs = xs.foldl Bch.Model.Bloom.add f := rfl

/-- `bytes.Equal` on the bit arrays detects every change made by insertions -/
theorem bloom_sameSound : SameSound bloomOps bloomSame := by
  intro f xs h
  rw [addAll_bloom] at h ⊢
  cases f with
  | none => exact Bch.Proofs.Bloom.foldl_add_none xs
  | some m =>
    rw [Bch.Proofs.Bloom.foldl_add_some] at h ⊢
    have hb : m.bits = (xs.foldl addMsg m).bits := by simpa [bloomSame] using h
    have h1 := Bch.Proofs.Bloom.foldl_addMsg_nHash m xs
    have h2 := Bch.Proofs.Bloom.foldl_addMsg_tweak m xs
    have h3 := Bch.Proofs.Bloom.foldl_addMsg_flags m xs
    generalize xs.foldl addMsg m = m' at *
    cases m; cases m'; simp_all

theorem bloomSame_refl (f : Bch.Model.Bloom.Filter) : bloomSame f f = true := by
  simp [bloomSame]

theorem nat_or_two_pow_of_testBit (a k : Nat) (h : a.testBit k = true) : a ||| 2 ^ k = a := by
  apply Nat.eq_of_testBit_eq
  intro i
  rw [Nat.testBit_or, Nat.testBit_two_pow]
  by_cases hik : k = i
  · subst hik; simp [h]
  · simp [hik]

/-- setting a bit that is already set changes nothing -/
theorem setBit_of_testBit (bits : Bytes) (i : Nat) (h : testBit bits i = true) : setBit bits i = bits := by
  rw [Bch.Proofs.Bloom.setBit_eq]
  rw [Bch.Proofs.Bloom.testBit_eq] at h
  apply List.ext_getElem?
  intro j
  rw [List.getElem?_modify]
  by_cases hij : i / 8 = j
  · subst hij
    simp only [if_true]
    cases hb : bits[i / 8]? with
    | none => rfl
    | some b =>
      have hd : bits.getD (i / 8) 0 = b := by simp [List.getD_eq_getElem?_getD, hb]
      rw [hd] at h
      show some (b ||| (1 : UInt8) <<< UInt8.ofNat (i &&& 7)) = some b
      congr 1
      rw [← UInt8.toNat_inj, UInt8.toNat_or, Bch.Proofs.Bloom.mask_toNat]
      exact nat_or_two_pow_of_testBit _ _ h
  · simp only [if_neg hij]
    cases bits[j]? <;> rfl

/-- inserting an element the filter already matches changes nothing -/
theorem bloom_add_idem (f : Bch.Model.Bloom.Filter) (x : Bytes) (h : bloomOps.test f x = true) :
    bloomOps.add f x = f := by
  cases f with
  | none => rfl
  | some m =>
    show some (addMsg m x) = some m
    congr 1
    have hm : matchesMsg m x = true := h
    unfold addMsg
    unfold matchesMsg at hm
    split
    · rfl
    · rename_i hne
      rw [if_neg hne] at hm
      have hall : ∀ i ∈ List.range m.nHash, testBit m.bits (hashIdx m i x) = true := by
        simpa [List.all_eq_true] using hm
      have key : ∀ (l : List Nat) (bits : Bytes), (∀ i ∈ l, testBit bits (hashIdx m i x) = true) →
          l.foldl (fun bits i => setBit bits (hashIdx m i x)) bits = bits := by
        intro l
        induction l with
        | nil => intro _ _; rfl
        | cons a l ih =>
          intro bits hb
          rw [List.foldl_cons, setBit_of_testBit _ _ (hb a (by simp))]
          exact ih bits (fun i hi => hb i (List.mem_cons_of_mem _ hi))
      rw [key _ _ hall]

namespace Toy
/-- a 4-byte real bloom filter (2 hash functions, tweak 5, `BloomUpdateAll`) watching the datum `[7]` -/
def bloomMsg0 : Msg := { bits := [0, 0, 0, 0], nHash := 2, tweak := 5, flags := 1 }
def bloomF0 : Bch.Model.Bloom.Filter := Bch.Model.Bloom.add (some bloomMsg0) [7]
end Toy

end Bch.Proofs.BloomTx
