/-!
# C03: the executable part (definitions only, core Lean only)

Table forms of the two checksum step functions, the syndrome columns of unit errors and the
XOR-basis depth-first search `checkIndep`. No theorems here; the proofs are in
`Bch/Proofs/Polymod.lean`.

This module imports nothing, so that it can be given to a separate `lean_lib` with
`precompileModules = true` (then the enumeration facts of `C03Enum.lean` are evaluated by compiled code,
about 2 s instead of about 6 CPU-minutes in the interpreter).

Layout of the column table `cols step n : Array UInt64` (size `5*n`): entry `5*p + b` is the syndrome
`fold step 0 (2^b :: p zeros)` of the unit error with value `2^b` at the position followed by `p` more
symbols (`p = 0` is the last symbol of the word).

`checkIndep cols n k` only visits position sets that contain position 0. That is enough when the table
comes from a step function whose zero-symbol step is injective (shifting a set of positions multiplies
all its columns by the same injective linear map) — see `LinStep.mindist`. The search over *all* sets of
≤ `k` positions below `n`, for an arbitrary table, is `dfs cols k [] 0 n` (sound by `dfs_sound`).
-/
namespace Bch.Proofs.Polymod

/-- `sel b K` : the constant `K` if the bit is set -/
def sel (b : Bool) (K : Nat) : Nat := if b then K else 0

/-- the XOR of the CashAddr generator constants selected by the low five bits of `c0` -/
def tblC (c0 : Nat) : Nat :=
  sel (c0.testBit 0) 0x98f2bc8e61 ^^^ sel (c0.testBit 1) 0x79b76d99e2 ^^^ sel (c0.testBit 2) 0xf33e5fb3c4
    ^^^ sel (c0.testBit 3) 0xae2eabe2a8 ^^^ sel (c0.testBit 4) 0x1e4f43e470

/-- the table form of `CashAddr.polyModStep` on `Nat` symbols -/
def stepC (c d : Nat) : Nat := ((c &&& 0x07ffffffff) <<< 5) ^^^ d ^^^ tblC (c >>> 35)

def tblB (b : Nat) : Nat :=
  sel (b.testBit 0) 0x3b6a57b2 ^^^ sel (b.testBit 1) 0x26508e6d ^^^ sel (b.testBit 2) 0x1ea119fa
    ^^^ sel (b.testBit 3) 0x3d4233dd ^^^ sel (b.testBit 4) 0x2a1462b3

/-- the table form of `Bech32.polymodStep` -/
def stepB (c d : Nat) : Nat := ((c &&& 0x1ffffff) <<< 5) ^^^ d ^^^ tblB (c >>> 25)

/-- syndrome of the unit error `2^b` at the position that is followed by `p` more symbols -/
def colN (step : Nat → Nat → Nat) (p b : Nat) : Nat := (2^b :: List.replicate p 0).foldl step 0

/-- the column table: entry `5*p+b` is `colN step p b` (as a 64-bit word), for `p < n`, `b < 5` -/
def cols (step : Nat → Nat → Nat) (n : Nat) : Array UInt64 :=
  Array.ofFn (n := 5 * n) fun i => UInt64.ofNat (colN step (i.val / 5) (i.val % 5))

def colAt (cols : Array UInt64) (p b : Nat) : UInt64 := cols[5 * p + b]!

/-- a basis vector `b` with its pivot mask `m` (a single bit that is set in `b`) -/
structure Ent where
  m : UInt64
  b : UInt64

/-- reduce `v` by the basis (oldest entry = last of the list first) -/
def reduce : List Ent → UInt64 → UInt64
  | [], v => v
  | e :: B, v =>
    let v' := reduce B v
    if v' &&& e.m = 0 then v' else v' ^^^ e.b

/-- add a vector to the basis; `none` if it is in the span already -/
def insert (B : List Ent) (c : UInt64) : Option (List Ent) :=
  let r := reduce B c
  if r = 0 then none else some (⟨1 <<< r.log2, r⟩ :: B)

/-- add the five bit-columns of position `p` -/
def insertPos (cols : Array UInt64) (B : List Ent) (p : Nat) : Option (List Ent) :=
  match insert B (colAt cols p 0) with
  | none => none
  | some B =>
  match insert B (colAt cols p 1) with
  | none => none
  | some B =>
  match insert B (colAt cols p 2) with
  | none => none
  | some B =>
  match insert B (colAt cols p 3) with
  | none => none
  | some B => insert B (colAt cols p 4)

/-- all increasing position lists of length ≤ `k` inside `[lo, lo+cnt)` can be added to `B` -/
def dfs (cols : Array UInt64) : (k : Nat) → (B : List Ent) → (lo cnt : Nat) → Bool
  | 0, _, _, _ => true
  | _+1, _, _, 0 => true
  | k+1, B, lo, cnt+1 =>
    (match insertPos cols B lo with
      | none => false
      | some B' => dfs cols k B' (lo+1) cnt)
    && dfs cols (k+1) B (lo+1) cnt

/-- like `dfs (k+1)`, but the first position is restricted to `[lo, lo+m)` -/
def dfsTop (cols : Array UInt64) (k : Nat) (B : List Ent) : (lo m cnt : Nat) → Bool
  | _, 0, _ => true
  | lo, m+1, cnt =>
    (match insertPos cols B lo with
      | none => false
      | some B' => dfs cols k B' (lo+1) (cnt-1))
    && dfsTop cols k B (lo+1) m (cnt-1)

/-- the part of the search with position 0 chosen and the next position in `[lo, lo+m)`;
    in total at most `k+2` positions below `n` -/
def slice (cols : Array UInt64) (n k lo m : Nat) : Bool :=
  match insertPos cols [] 0 with
  | none => false
  | some B => dfsTop cols k B lo m (n - lo)

/-- every set of at most `k` positions below `n` that contains position 0 has GF(2)-independent
    bit-columns (see `checkIndep_sound` in `Polymod.lean` for why position 0 may be fixed) -/
def checkIndep (cols : Array UInt64) (n k : Nat) : Bool :=
  match k with
  | 0 => true
  | 1 => (insertPos cols [] 0).isSome
  | k+2 => slice cols n k 1 (n - 1)

/-- the search split into consecutive ranges of the second position (thunks, so that they can be
    evaluated as parallel tasks) -/
def sliceList (cols : Array UInt64) (n k : Nat) : Nat → List Nat → List (Unit → Bool)
  | _, [] => []
  | lo, m :: ms => (fun _ => slice cols n k lo m) :: sliceList cols n k (lo + m) ms

/-- evaluate all thunks as parallel tasks; equal to `fs.all (· ())` (`parAll_eq`) -/
def parAll (fs : List (Unit → Bool)) : Bool := (fs.map fun f => Task.spawn f).all Task.get

end Bch.Proofs.Polymod
