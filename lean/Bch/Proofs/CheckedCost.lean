import Bch.Proofs.Checked
import Bch.Proofs.CheckedAddr
import Bch.Proofs.CheckedBech32
import Bch.Proofs.CashAddrBits
import Mathlib.Tactic.Linarith
/-
Cost layer for C08 ("… running time at most quadratic in the input length and allocation proportional to
it"): STEP and ALLOCATION accounts for the string parsers whose fault-tracking transcriptions live in
`Checked.lean`, `CheckedAddr.lean`, `CheckedBech32.lean` — `DecodeCashAddress`, `checkDecodeCashAddress`,
Base58 `Decode`/`CheckDecode`, `DecodeWIF`, `NewKeyFromString`, `DecodeAddress`, bech32 `Decode`/`Encode`,
bloom `matches`/`add`, jsonpb `convertHex`. Nothing in those files is changed.

## The unit of cost

* **U1 loop iteration.** One execution of the body of a Go `for` loop costs 1. The body's bounded amount of
  work is included: its index expressions (`idx?`, `set?`), look-ups in the fixed tables (`CharsetRev`,
  `b58`, `charset` — `strings.IndexByte(charset, c)` scans a constant 32-byte string —, `gen`), machine-word
  arithmetic, and `append` of ONE element to a slice (amortised). Work in the body that is NOT bounded is
  charged on top (U3-U5): the weight function of the loop says what.
* **U2 straight-line primitive.** Each checked primitive outside a loop (`idx?`, `slice?`, `mod?`, a
  comparison of two 4-byte checksums, a `switch`) costs 1.
* **U3 bulk operation** on `n` elements costs `n + 1` (`bulk n`): `make([]T, n)`, `copy`, `append(x, y...)`,
  `[]byte(s)`, `strings.ToLower/ToUpper`, `==` on strings, `strings.EqualFold`, `strings.LastIndexByte`,
  `hex.DecodeString`, `big.Int.SetBytes` / `.Bytes`, and **string concatenation `s += t`, which in Go
  allocates and copies the whole new string: `n = len(s) + len(t)`**.
* **U4 external function** on `n` bytes costs `n + 1`: the hash functions (`chainhash.DoubleHashB`, one
  call), `MurmurHash3`, `bchec.ParsePubKey`, and the per-string converter of `convertHex`.
* **U5 big-integer step.** `math/big` multiply-add / multiply by a small constant on an operand whose
  minimal byte representation has `k` bytes costs `k + 1` (`natLen`). This is what makes Base58 quadratic.

## How the cost functions are tied to the transcriptions

Every loop of a transcription `fooC` is shown to BE the generic early-exit loop `forC` / `downC` / `rangeC`
run on an explicitly given body (`fooC_loop : fooC … = forC fooBody …`, proved by induction with the same
case split as the transcription); its cost `fooCost` is by definition the generic ghost counter
`forCost` / `downCost` / `rangeCost` of that same body: the sum of the weights of the iterations the loop
actually executes (it stops where the loop exits or faults). So the twin cannot drift from the
transcription: same guards, same recursive calls, by construction. Where a transcription calls a MODEL
function directly (`verifyChecksum`, `convertBits` of address.go, `MurmurHash3`, `equalFoldASCII`, `hexDec`)
the cost is the number of elements the model's list functions traverse, or a structurally recursive twin of
the model function with a lemma tying it to the model's output (`cbEmitCost`). Straight-line entry points
(`DecodeCashAddressC`, `CheckDecodeC`, …) get the sum of the costs of the calls on the executed path; the
intermediate values they branch on are named by the model expressions the `…_eq` lemmas of the `Checked*`
files prove them equal to.

## Allocation

`fooAlloc` is the sum of the sizes (in elements) of all slices/strings the Go code creates on the executed
path: each `make?`, each `append` target at its final length, each string built. For a string built by
repeated concatenation the intermediate strings are garbage; they are accounted separately
(`prefixConcatGarbage`).
-/
set_option linter.unusedSectionVars false
set_option linter.unusedVariables false

namespace Bch.Proofs.CheckedCost
open Bch Bch.Model Bch.Proofs.Checked

/-- U3/U4: a bulk operation or an external call on `n` elements -/
abbrev bulk (n : Nat) : Nat := n + 1

/-- U5: size in bytes of a `big.Int` -/
def natLen (n : Nat) : Nat := (Bytes.ofNatMin n).length

/-! ## 0. generic early-exit loops and their ghost counters -/

/-- what one iteration of a loop body does: leave the loop with a result, or go on with a new state -/
inductive Step (ρ σ : Type) where
  | exit (r : ρ)
  | next (s : σ)

section loops
variable {ρ σ α : Type}

/-- `for i := i₀; i < n; i++ { body }` on `fuel = n - i`; `done` is what follows normal termination -/
def forC (body : Nat → σ → Except Fault (Step ρ σ)) (done : σ → ρ) : (fuel i : Nat) → σ → Except Fault ρ
  | 0, _, s => .ok (done s)
  | fuel+1, i, s =>
    match body i s with
    | .error e => .error e
    | .ok (.exit r) => .ok r
    | .ok (.next s') => forC body done fuel (i+1) s'

/-- ghost counter of `forC`: the sum of the weights `w i s` of the iterations that are executed -/
def forCost (body : Nat → σ → Except Fault (Step ρ σ)) (w : Nat → σ → Nat) : (fuel i : Nat) → σ → Nat
  | 0, _, _ => 0
  | fuel+1, i, s =>
    w i s + match body i s with
      | .ok (.next s') => forCost body w fuel (i+1) s'
      | _ => 0

/-- `for i := n-1; i >= 0; i--` on `fuel = i + 1`: the body sees the index `fuel - 1` -/
def downC (body : Nat → σ → Except Fault (Step ρ σ)) (done : σ → ρ) : (fuel : Nat) → σ → Except Fault ρ
  | 0, s => .ok (done s)
  | i+1, s =>
    match body i s with
    | .error e => .error e
    | .ok (.exit r) => .ok r
    | .ok (.next s') => downC body done i s'

def downCost (body : Nat → σ → Except Fault (Step ρ σ)) (w : Nat → σ → Nat) : (fuel : Nat) → σ → Nat
  | 0, _ => 0
  | i+1, s =>
    w i s + match body i s with
      | .ok (.next s') => downCost body w i s'
      | _ => 0

/-- `for _, a := range l { body }` -/
def rangeC (body : α → σ → Except Fault (Step ρ σ)) (done : σ → ρ) : List α → σ → Except Fault ρ
  | [], s => .ok (done s)
  | a :: l, s =>
    match body a s with
    | .error e => .error e
    | .ok (.exit r) => .ok r
    | .ok (.next s') => rangeC body done l s'

def rangeCost (body : α → σ → Except Fault (Step ρ σ)) (w : α → σ → Nat) : List α → σ → Nat
  | [], _ => 0
  | a :: l, s =>
    w a s + match body a s with
      | .ok (.next s') => rangeCost body w l s'
      | _ => 0

/-- a loop whose iterations weigh at most `W` costs at most `fuel · W` -/
theorem forCost_le (body : Nat → σ → Except Fault (Step ρ σ)) (w : Nat → σ → Nat) (W : Nat)
    (hw : ∀ i s, w i s ≤ W) : ∀ fuel i s, forCost body w fuel i s ≤ fuel * W := by
  intro fuel
  induction fuel with
  | zero => intro i s; simp [forCost]
  | succ fuel ih =>
    intro i s
    rw [forCost, Nat.succ_mul]
    have := hw i s
    split
    · have := ih (i+1) ‹_›; omega
    · omega

theorem rangeCost_le (body : α → σ → Except Fault (Step ρ σ)) (w : α → σ → Nat) (W : Nat)
    (hw : ∀ a s, w a s ≤ W) : ∀ l s, rangeCost body w l s ≤ l.length * W := by
  intro l
  induction l with
  | nil => intro s; simp [rangeCost]
  | cons a l ih =>
    intro s
    rw [rangeCost, List.length_cons, Nat.succ_mul]
    have := hw a s
    split
    · have := ih ‹_›; omega
    · omega

/-- with an invariant `P` and a bound `g` that absorbs one iteration at a time -/
theorem forCost_le_of (body : Nat → σ → Except Fault (Step ρ σ)) (w : Nat → σ → Nat)
    (P : Nat → σ → Prop) (g : Nat → Nat → Nat)
    (hstep : ∀ i s s', P i s → body i s = .ok (.next s') → P (i+1) s')
    (hg : ∀ fuel i s, P i s → w i s + g fuel (i+1) ≤ g (fuel+1) i) :
    ∀ fuel i s, P i s → forCost body w fuel i s ≤ g fuel i := by
  intro fuel
  induction fuel with
  | zero => intro i s _; simp [forCost]
  | succ fuel ih =>
    intro i s hP
    rw [forCost]
    have h1 := hg fuel i s hP
    split
    · next s' hb => have := ih (i+1) s' (hstep i s s' hP hb); omega
    · omega

end loops

/-! ## 1. `DecodeCashAddress`, `checkDecodeCashAddress` (address.go) -/
section CashAddr
open Bch.Model.CashAddr

/-- body of the scan loop (address.go:999-1033) -/
def scanBody (str : Bytes) (i : Nat) (st : Scan) : Except Fault (Step (Except DErr Scan) Scan) :=
  match idx? str i with
  | .error e => .error e
  | .ok c =>
    if 97 ≤ c ∧ c ≤ 122 then .ok (.next { st with lower := true })
    else if 65 ≤ c ∧ c ≤ 90 then .ok (.next { st with upper := true })
    else if 48 ≤ c ∧ c ≤ 57 then
      if st.prefixSize = 0 then .ok (.exit (.error .numberInPrefix)) else .ok (.next st)
    else if c = 58 then
      if i = 0 ∨ st.prefixSize ≠ 0 then .ok (.exit (.error .separator))
      else .ok (.next { st with prefixSize := i })
    else .ok (.exit (.error .unexpectedChar))

/-- the transcription's scan loop IS the generic loop on `scanBody` -/
theorem scanC_loop (str : Bytes) : ∀ fuel i st,
    scanC str fuel i st = forC (scanBody str) Except.ok fuel i st := by
  intro fuel
  induction fuel with
  | zero => intro i st; rfl
  | succ fuel ih =>
    intro i st
    simp only [scanC, forC, scanBody]
    cases idx? str i with
    | error e => rfl
    | ok c =>
      simp only [ok_bind]
      split_ifs <;> first | rfl | exact ih _ _

/-- iterations of the scan loop -/
def scanCost (str : Bytes) := forCost (scanBody str) (fun _ _ => 1)

/-- body of the prefix loop (address.go:1047-1049): `prefix += string(lowerCase(str[i]))` -/
def prefixBody (str : Bytes) (i : Nat) (acc : Bytes) : Except Fault (Step Bytes Bytes) :=
  match idx? str i with
  | .error e => .error e
  | .ok c => .ok (.next (acc ++ [c ||| 0x20]))

theorem prefixC_loop (str : Bytes) : ∀ fuel i acc,
    prefixC str fuel i acc = forC (prefixBody str) id fuel i acc := by
  intro fuel
  induction fuel with
  | zero => intro i acc; rfl
  | succ fuel ih =>
    intro i acc
    simp only [prefixC, forC, prefixBody]
    cases idx? str i with
    | error e => rfl
    | ok c => exact ih _ _

/-- The prefix loop. Each iteration (U1) performs one Go string concatenation, which allocates a new
string of `len(prefix) + 1` bytes and copies into it (U3). -/
def prefixCost (str : Bytes) := forCost (prefixBody str) (fun _ acc => 1 + bulk (acc.length + 1))

/-- the same loop with the concatenation charged as ONE unit (what a `strings.Builder` would cost) -/
def prefixIters (str : Bytes) := forCost (prefixBody str) (fun _ _ => 1)

/-- body of the values loop (address.go:1054-1062) -/
def valuesBody (str : Bytes) (ps : Nat) (i : Nat) (values : Bytes) :
    Except Fault (Step (Option Bytes) Bytes) :=
  match idx? str (i + ps + 1) with
  | .error e => .error e
  | .ok c =>
    if c > 127 then .ok (.exit none) else
    match idx? CharsetRevTbl c.toNat with
    | .error e => .error e
    | .ok r =>
      if r = -1 then .ok (.exit none) else
      match set? values i (UInt8.ofNat r.toNat) with
      | .error e => .error e
      | .ok v => .ok (.next v)

theorem valuesC_loop (str : Bytes) (ps : Nat) : ∀ fuel i values,
    valuesC str ps fuel i values = forC (valuesBody str ps) some fuel i values := by
  intro fuel
  induction fuel with
  | zero => intro i values; rfl
  | succ fuel ih =>
    intro i values
    simp only [valuesC, forC, valuesBody]
    cases idx? str (i + ps + 1) with
    | error e => rfl
    | ok c =>
      simp only [ok_bind]
      split_ifs
      · rfl
      · cases idx? CharsetRevTbl c.toNat with
        | error e => rfl
        | ok r =>
          simp only [ok_bind]
          split_ifs
          · rfl
          · cases set? values i (UInt8.ofNat r.toNat) with
            | error e => rfl
            | ok v => exact ih _ _

/-- iterations of the values loop (two look-ups in the 128-entry table `CharsetRev` each) -/
def valuesCost (str : Bytes) (ps : Nat) := forCost (valuesBody str ps) (fun _ _ => 1)

theorem scanCost_le (str : Bytes) (fuel i : Nat) (st : Scan) : scanCost str fuel i st ≤ fuel := by
  have := forCost_le (scanBody str) (fun _ _ => 1) 1 (fun _ _ => Nat.le_refl _) fuel i st
  simpa [scanCost] using this

theorem valuesCost_le (str : Bytes) (ps fuel i : Nat) (v : Bytes) : valuesCost str ps fuel i v ≤ fuel := by
  have := forCost_le (valuesBody str ps) (fun _ _ => 1) 1 (fun _ _ => Nat.le_refl _) fuel i v
  simpa [valuesCost] using this

theorem prefixIters_le (str : Bytes) (fuel i : Nat) (acc : Bytes) : prefixIters str fuel i acc ≤ fuel := by
  have := forCost_le (prefixBody str) (fun _ _ => 1) 1 (fun _ _ => Nat.le_refl _) fuel i acc
  simpa [prefixIters] using this

/-- `Σ_{k<fuel} (|acc| + k + 3)`: quadratic in the number of iterations -/
theorem prefixCost_le (str : Bytes) : ∀ fuel i (acc : Bytes),
    2 * prefixCost str fuel i acc ≤ fuel * (2 * acc.length + fuel + 5) := by
  intro fuel
  induction fuel with
  | zero => intro i acc; simp [prefixCost, forCost]
  | succ fuel ih =>
    intro i acc
    unfold prefixCost at ih ⊢
    rw [forCost]
    simp only [prefixBody]
    cases idx? str i with
    | error e => simp only; nlinarith
    | ok c =>
      simp only
      have := ih (i+1) (acc ++ [c ||| 0x20])
      simp only [List.length_append, List.length_singleton] at this
      nlinarith

/-- … and not less when the loop runs to its end: the quadratic term is real -/
theorem prefixCost_ge (str : Bytes) : ∀ fuel i (acc : Bytes), i + fuel ≤ str.length →
    fuel * (2 * acc.length + fuel + 5) ≤ 2 * prefixCost str fuel i acc := by
  intro fuel
  induction fuel with
  | zero => intro i acc _; simp
  | succ fuel ih =>
    intro i acc h
    unfold prefixCost at ih ⊢
    rw [forCost]
    simp only [prefixBody, idx?_ok (show i < str.length by omega)]
    have := ih (i+1) (acc ++ [str[i] ||| 0x20]) (by omega)
    simp only [List.length_append, List.length_singleton] at this
    nlinarith

/-- `verifyChecksum(prefix, values)` (address.go:963): `expandPrefix` makes `len(prefix)+1` bytes (U3) and
fills them in a loop (U1 each); `cat` appends (U3); `polyMod` runs one step per byte (U1 each). Cost of the
model function the transcription calls: the lengths its list functions traverse. -/
def verifyChecksumCost (pre payload : Bytes) : Nat :=
  bulk (pre.length + 1) + pre.length + bulk (pre.length + 1 + payload.length)
    + (pre.length + 1 + payload.length)

/-- `values[:len(values)-8]` (U2), reached when the checksum verifies over at least eight symbols -/
def sliceUnit (pre values : Bytes) : Nat :=
  if !verifyChecksum pre values then 0 else if values.length < 8 then 0 else 1

theorem sliceUnit_le (pre values : Bytes) : sliceUnit pre values ≤ 1 := by
  unfold sliceUnit; split_ifs <;> omega

/-- the prefix part of a string: position of its first (only) colon if the scan accepts it, else 0 -/
def prefixLen (str : Bytes) : Nat :=
  match scan str 0 {} with
  | .ok st => st.prefixSize
  | .error _ => 0

/-- Steps of `DecodeCashAddressC str` along the executed path. The values the code branches on are named by
the model expressions `scanC_eq`, `prefixC_eq`, `valuesC_eq` (Checked.lean) prove them equal to.
`concat = true`: string concatenation charged as in Go (U3); `concat = false`: charged as one unit. -/
def DecodeCashAddressCostG (concat : Bool) (str : Bytes) : Nat :=
  scanCost str str.length 0 {} +
  match scan str 0 {} with
  | .error _ => 0
  | .ok st =>
    if st.prefixSize = 0 then 0 else if st.upper ∧ st.lower then 0 else
    let vs := str.length - 1 - st.prefixSize
    (if concat then prefixCost str st.prefixSize 0 [] else prefixIters str st.prefixSize 0 [])
    + bulk vs                                                        -- make([]byte, valuesSize)
    + valuesCost str st.prefixSize vs 0 (List.replicate vs 0)
    + match (str.drop (st.prefixSize + 1)).mapM charsetRev with
      | none => 0
      | some values =>
        verifyChecksumCost ((str.take st.prefixSize).map (· ||| 0x20)) values
        + sliceUnit ((str.take st.prefixSize).map (· ||| 0x20)) values

/-- the cost of the code as it is -/
def DecodeCashAddressCost := DecodeCashAddressCostG true

/-- ALLOCATION of `DecodeCashAddress`: the prefix string (final value), `values`, the `len(prefix)+1` bytes
of `expandPrefix` and the array `cat` appends into. All sizes are lengths of parts of the input string. -/
def DecodeCashAddressAlloc (str : Bytes) : Nat :=
  match scan str 0 {} with
  | .error _ => 0
  | .ok st =>
    if st.prefixSize = 0 then 0 else if st.upper ∧ st.lower then 0 else
    let vs := str.length - 1 - st.prefixSize
    st.prefixSize + vs +
    match (str.drop (st.prefixSize + 1)).mapM charsetRev with
    | none => 0
    | some values => (st.prefixSize + 1) + (st.prefixSize + 1 + values.length)

/-- the intermediate strings `prefix[:1]`, `prefix[:2]`, … that the concatenation loop creates and drops:
`1 + 2 + … + prefixSize` bytes in total (cumulative, not live at the same time) -/
def prefixConcatGarbage (str : Bytes) : Nat := prefixLen str * (prefixLen str + 1) / 2

theorem mapM_length {α β : Type} (f : α → Option β) : ∀ (l : List α) (r : List β),
    l.mapM f = some r → r.length = l.length := by
  intro l
  induction l with
  | nil => intro r h; simp at h; subst h; rfl
  | cons a l ih =>
    intro r h
    rw [List.mapM_cons] at h
    cases ha : f a with
    | none => simp [ha] at h
    | some b =>
      cases hl : l.mapM f with
      | none => simp [ha, hl] at h
      | some r' =>
        simp [ha, hl] at h
        subst h
        simp [ih r' hl]

theorem prefixLen_lt (str : Bytes) : prefixLen str = 0 ∨ prefixLen str < str.length := by
  unfold prefixLen
  cases h : scan str 0 {} with
  | error e => left; rfl
  | ok st =>
    simp only
    rcases scan_prefixSize str 0 {} st h with h | h
    · left; exact h
    · right; omega

/-- linear part + the concatenation loop -/
theorem DecodeCashAddressCost_le (str : Bytes) :
    2 * DecodeCashAddressCost str ≤ 10 * str.length + 6 + prefixLen str * (prefixLen str + 5) := by
  unfold DecodeCashAddressCost DecodeCashAddressCostG prefixLen
  have h1 := scanCost_le str str.length 0 {}
  cases hsc : scan str 0 {} with
  | error e => simp only; omega
  | ok st =>
    simp only
    split_ifs with h0 h2
    · omega
    · omega
    · have hps : st.prefixSize < str.length := by
        rcases scan_prefixSize str 0 {} st hsc with h | h
        · exact absurd h h0
        · omega
      have h3 := prefixCost_le str st.prefixSize 0 []
      obtain ⟨vs, hvs⟩ : ∃ vs, str.length - 1 - st.prefixSize = vs := ⟨_, rfl⟩
      have hlen : str.length = st.prefixSize + 1 + vs := by omega
      rw [hvs]
      have h4 := valuesCost_le str st.prefixSize vs 0 (List.replicate vs 0)
      simp only [List.length_nil, Nat.mul_zero, Nat.zero_add] at h3 ⊢
      cases hm : (str.drop (st.prefixSize + 1)).mapM charsetRev with
      | none => simp only [bulk]; nlinarith
      | some values =>
        have hl := mapM_length _ _ _ hm
        simp only [List.length_drop] at hl
        have hl' : values.length = vs := by omega
        have hsl := sliceUnit_le ((str.take st.prefixSize).map (· ||| 0x20)) values
        simp only [verifyChecksumCost, List.length_map, List.length_take, hl', bulk,
          show min st.prefixSize str.length = st.prefixSize by omega]
        nlinarith

/-- with the concatenation charged as one unit the parser is linear -/
theorem DecodeCashAddressCostG_false_le (str : Bytes) :
    DecodeCashAddressCostG false str ≤ 6 * str.length + 3 := by
  unfold DecodeCashAddressCostG
  simp only [Bool.false_eq_true, if_false]
  have h1 := scanCost_le str str.length 0 {}
  cases hsc : scan str 0 {} with
  | error e => simp only; omega
  | ok st =>
    simp only
    split_ifs with h0 h2
    · omega
    · omega
    · have hps : st.prefixSize < str.length := by
        rcases scan_prefixSize str 0 {} st hsc with h | h
        · exact absurd h h0
        · omega
      have h3 := prefixIters_le str st.prefixSize 0 []
      have h4 := valuesCost_le str st.prefixSize (str.length - 1 - st.prefixSize) 0
        (List.replicate (str.length - 1 - st.prefixSize) 0)
      cases hm : (str.drop (st.prefixSize + 1)).mapM charsetRev with
      | none => simp only [bulk]; omega
      | some values =>
        have hl := mapM_length _ _ _ hm
        simp only [List.length_drop] at hl
        have hsl := sliceUnit_le ((str.take st.prefixSize).map (· ||| 0x20)) values
        simp only [verifyChecksumCost, List.length_map, List.length_take, hl, bulk,
          show min st.prefixSize str.length = st.prefixSize by omega]
        omega

theorem DecodeCashAddressAlloc_le (str : Bytes) : DecodeCashAddressAlloc str ≤ 3 * str.length := by
  unfold DecodeCashAddressAlloc
  cases hsc : scan str 0 {} with
  | error e => simp only; omega
  | ok st =>
    simp only
    split_ifs with h0 h2
    · omega
    · omega
    · have hps : st.prefixSize < str.length := by
        rcases scan_prefixSize str 0 {} st hsc with h | h
        · exact absurd h h0
        · omega
      cases hm : (str.drop (st.prefixSize + 1)).mapM charsetRev with
      | none => simp only; omega
      | some values =>
        have hl := mapM_length _ _ _ hm
        simp only [List.length_drop] at hl
        simp only [hl]
        omega

/-! ### the quadratic term is attained: `a…a:q` -/

theorem scan_lower_run (rest : Bytes) : ∀ (n i : Nat) (st : Scan), st.lower = true →
    scan (List.replicate n 97 ++ rest) i st = scan rest (i + n) st := by
  intro n
  induction n with
  | zero => intro i st _; rfl
  | succ n ih =>
    intro i st h
    rw [List.replicate_succ, List.cons_append, scan]
    have h97 : (97 : UInt8) ≤ 97 ∧ (97 : UInt8) ≤ 122 := by decide
    rw [if_pos h97]
    have hst : ({ st with lower := true } : Scan) = st := by cases st; simp_all
    rw [hst, ih (i+1) st h]
    congr 1; omega

/-- the string `a^(n+1) ++ ":q"` -/
def longPrefix (n : Nat) : Bytes := 97 :: (List.replicate n 97 ++ [58, 113])

theorem scan_longPrefix (n : Nat) :
    scan (longPrefix n) 0 {} = .ok { lower := true, upper := false, prefixSize := n + 1 } := by
  unfold longPrefix
  rw [scan, if_pos (by decide), scan_lower_run _ n 1 _ rfl]
  have e : 1 + n = n + 1 := by omega
  simp [scan, e]

theorem longPrefix_length (n : Nat) : (longPrefix n).length = n + 3 := by simp [longPrefix]

/-- LOWER BOUND: on `a^(n+1):q` the concatenation loop alone costs `(n+1)(n+6)/2` -/
theorem DecodeCashAddressCost_longPrefix (n : Nat) :
    (n + 1) * (n + 6) ≤ 2 * DecodeCashAddressCost (longPrefix n) := by
  unfold DecodeCashAddressCost DecodeCashAddressCostG
  rw [scan_longPrefix]
  have h := prefixCost_ge (longPrefix n) (n + 1) 0 [] (by rw [longPrefix_length]; omega)
  simp only [List.length_nil, Nat.mul_zero, Nat.zero_add] at h
  rw [show n + 1 + 5 = n + 6 by omega] at h
  simp only [if_true, Nat.succ_ne_zero, if_false, Bool.false_eq_true, false_and]
  omega

/-! ### `convertBits` (address.go:1080-1111) and `checkDecodeCashAddress` (address.go:759-787)

`checkDecodeCashAddressC` calls the MODEL function `convertBits`; its cost is counted on the model, with a
twin that follows the model's recursion (`cbEmit`: the inner loop `for bits >= tobits`; the fold: the loop
over the input words, in the form `CashAddr.mstep`/`loop` that `convertBits_def` proves the model equal to). -/
open Bch.Proofs.CashAddr (mstep loop convertBits_def loop_bits_len)

/-- iterations of the inner loop `for bits >= tobits { … append … }`: twin of the model's `cbEmit` -/
def cbEmitCost (tb maxv : Nat) : (fuel : Nat) → CB → Nat
  | 0, _ => 0
  | fuel+1, st =>
    if st.bits ≥ tb then
      let bits := st.bits - tb
      1 + cbEmitCost tb maxv fuel { st with bits := bits, ret := st.ret ++ [(st.acc >>> bits) &&& maxv] }
    else 0

/-- the twin follows `cbEmit`: every counted iteration is one `append` to `ret` -/
theorem cbEmit_cost (tb maxv : Nat) : ∀ fuel (st : CB),
    (cbEmit tb maxv fuel st).ret.length = st.ret.length + cbEmitCost tb maxv fuel st := by
  intro fuel
  induction fuel with
  | zero => intro st; simp [cbEmit, cbEmitCost]
  | succ fuel ih =>
    intro st
    rw [cbEmit, cbEmitCost]
    split_ifs
    · rw [ih]; simp only [List.length_append, List.length_singleton]; omega
    · rfl

/-- iterations of the outer loop (1 each) plus those of the inner loop: twin of the model's fold -/
def cbLoopCost (fr tb : Nat) : List Nat → CB → Nat
  | [], _ => 0
  | v :: d, st =>
    1 + cbEmitCost tb ((1 <<< tb) - 1) (fr + tb)
          ⟨((st.acc <<< fr) ||| v) &&& ((1 <<< (fr + tb - 1)) - 1), st.bits + fr, st.ret⟩
      + cbLoopCost fr tb d (mstep fr tb st v)

theorem cbLoop_cost (fr tb : Nat) : ∀ (d : List Nat) (st : CB),
    (d.foldl (mstep fr tb) st).ret.length + d.length = st.ret.length + cbLoopCost fr tb d st := by
  intro d
  induction d with
  | nil => intro st; simp [cbLoopCost]
  | cons v d ih =>
    intro st
    rw [List.foldl_cons, List.length_cons, cbLoopCost]
    have h1 := ih (mstep fr tb st v)
    have h2 : (mstep fr tb st v).ret.length = st.ret.length + cbEmitCost tb ((1 <<< tb) - 1) (fr + tb)
          ⟨((st.acc <<< fr) ||| v) &&& ((1 <<< (fr + tb - 1)) - 1), st.bits + fr, st.ret⟩ := by
      unfold mstep; rw [cbEmit_cost]
    omega

/-- `convertBits(data, fr, to, false)`: the `uintArr` loop (one `append` per input byte), the main loop,
the padding test, and on success the `dataArr` loop (one `append` per output word) -/
def convertBitsCost (data : Bytes) (fr tb : Nat) : Nat :=
  data.length + cbLoopCost fr tb (data.map UInt8.toNat) {} + 1 +
  match convertBits data fr tb false with
  | none => 0
  | some out => out.length

/-- ALLOCATION of `convertBits`: the append targets `uintArr`, `ret` and (on success) `dataArr` -/
def convertBitsAlloc (data : Bytes) (fr tb : Nat) : Nat :=
  data.length + (loop fr tb (data.map UInt8.toNat)).ret.length +
  match convertBits data fr tb false with
  | none => 0
  | some out => out.length

theorem convertBits_false_length (data : Bytes) (fr tb : Nat) (out : Bytes)
    (h : convertBits data fr tb false = some out) :
    out.length = (loop fr tb (data.map UInt8.toNat)).ret.length := by
  rw [convertBits_def] at h
  simp only [Bool.false_eq_true, if_false] at h
  split_ifs at h
  cases h
  simp

theorem convertBitsCost_le (data : Bytes) (fr tb : Nat) (hto : 0 < tb) :
    convertBitsCost data fr tb ≤ 2 * data.length + 2 * (fr * data.length / tb) + 1 := by
  unfold convertBitsCost
  have h1 := cbLoop_cost fr tb (data.map UInt8.toNat) {}
  have h2 := (loop_bits_len fr tb hto (data.map UInt8.toNat)).2
  simp only [List.length_map] at h1 h2
  have h3 : (List.foldl (mstep fr tb) {} (data.map UInt8.toNat)).ret.length = fr * data.length / tb := h2
  have h0 : ({} : CB).ret.length = 0 := rfl
  cases hc : convertBits data fr tb false with
  | none => simp only; omega
  | some out =>
    have := convertBits_false_length data fr tb out hc
    simp only; omega

theorem convertBitsAlloc_le (data : Bytes) (fr tb : Nat) (hto : 0 < tb) :
    convertBitsAlloc data fr tb ≤ data.length + 2 * (fr * data.length / tb) := by
  unfold convertBitsAlloc
  have h2 := (loop_bits_len fr tb hto (data.map UInt8.toNat)).2
  simp only [List.length_map] at h2
  cases hc : convertBits data fr tb false with
  | none => simp only; omega
  | some out =>
    have := convertBits_false_length data fr tb out hc
    simp only; omega

/-- Steps of `checkDecodeCashAddressC input`: `DecodeCashAddress`, `convertBits(data, 5, 8, false)` on its
payload, then `data[0]` and `data[1:k]` (U2) where they are evaluated. -/
def checkDecodeCashAddressCostG (concat : Bool) (input : Bytes) : Nat :=
  DecodeCashAddressCostG concat input +
  match DecodeCashAddress input with
  | .error _ => 0
  | .ok (_, data5) =>
    convertBitsCost data5 5 8 +
    match convertBits data5 5 8 false with
    | none => 0
    | some data =>
      if data.length = 33 then 1 + (if data.headD 0 ≠ 0x0b then 0 else 1)
      else if data.length ≠ 21 then 0
      else 1 + (if data.headD 0 = 0x00 ∨ data.headD 0 = 0x08 then 1 else 0)

def checkDecodeCashAddressCost := checkDecodeCashAddressCostG true

def checkDecodeCashAddressAlloc (input : Bytes) : Nat :=
  DecodeCashAddressAlloc input +
  match DecodeCashAddress input with
  | .error _ => 0
  | .ok (_, data5) => convertBitsAlloc data5 5 8

/-- the payload handed to `convertBits` is shorter than the input -/
theorem DecodeCashAddress_payload_le (str pre data5 : Bytes) (h : DecodeCashAddress str = .ok (pre, data5)) :
    data5.length + 2 ≤ str.length ∧ pre.length ≤ prefixLen str ∧ pre.length + data5.length + 2 ≤ str.length := by
  rw [DecodeCashAddress_eq] at h
  unfold prefixLen
  cases hsc : scan str 0 {} with
  | error e => rw [hsc] at h; cases h
  | ok st =>
    rw [hsc] at h
    simp only at h ⊢
    split_ifs at h with h0 h2
    have hps : st.prefixSize < str.length := by
      rcases scan_prefixSize str 0 {} st hsc with h | h
      · exact absurd h h0
      · omega
    cases hm : (str.drop (st.prefixSize + 1)).mapM charsetRev with
    | none => rw [hm] at h; cases h
    | some values =>
      rw [hm] at h
      simp only at h
      split_ifs at h
      cases h
      have hl := mapM_length _ _ _ hm
      simp only [List.length_drop] at hl
      simp only [List.length_take, List.length_map]
      omega

theorem checkDecodeCashAddressCost_tail_le (input : Bytes) :
    (match DecodeCashAddress input with
      | .error _ => 0
      | .ok (_, data5) =>
        convertBitsCost data5 5 8 +
        match convertBits data5 5 8 false with
        | none => 0
        | some data =>
          if data.length = 33 then 1 + (if data.headD 0 ≠ 0x0b then 0 else 1)
          else if data.length ≠ 21 then 0
          else 1 + (if data.headD 0 = 0x00 ∨ data.headD 0 = 0x08 then 1 else 0)) ≤ 4 * input.length := by
  cases hd : DecodeCashAddress input with
  | error e => simp
  | ok r =>
    obtain ⟨pre, data5⟩ := r
    have hl := (DecodeCashAddress_payload_le input pre data5 hd).1
    have hc := convertBitsCost_le data5 5 8 (by decide)
    have hdiv : 5 * data5.length / 8 ≤ data5.length := by omega
    simp only
    have : (match convertBits data5 5 8 false with
        | none => 0
        | some data =>
          if data.length = 33 then 1 + (if data.headD 0 ≠ 0x0b then 0 else 1)
          else if data.length ≠ 21 then 0
          else 1 + (if data.headD 0 = 0x00 ∨ data.headD 0 = 0x08 then 1 else 0)) ≤ 2 := by
      cases convertBits data5 5 8 false with
      | none => simp
      | some data => simp only; split_ifs <;> omega
    omega

theorem checkDecodeCashAddressCost_le (input : Bytes) :
    2 * checkDecodeCashAddressCost input ≤ 18 * input.length + 6 + prefixLen input * (prefixLen input + 5) := by
  unfold checkDecodeCashAddressCost checkDecodeCashAddressCostG
  have h1 := DecodeCashAddressCost_le input
  unfold DecodeCashAddressCost at h1
  have h2 := checkDecodeCashAddressCost_tail_le input
  omega

theorem checkDecodeCashAddressCostG_false_le (input : Bytes) :
    checkDecodeCashAddressCostG false input ≤ 10 * input.length + 3 := by
  unfold checkDecodeCashAddressCostG
  have h1 := DecodeCashAddressCostG_false_le input
  have h2 := checkDecodeCashAddressCost_tail_le input
  omega

theorem checkDecodeCashAddressAlloc_le (input : Bytes) : checkDecodeCashAddressAlloc input ≤ 6 * input.length := by
  unfold checkDecodeCashAddressAlloc
  have h1 := DecodeCashAddressAlloc_le input
  cases hd : DecodeCashAddress input with
  | error e => simp only; omega
  | ok r =>
    obtain ⟨pre, data5⟩ := r
    have hl := (DecodeCashAddress_payload_le input pre data5 hd).1
    have hc := convertBitsAlloc_le data5 5 8 (by decide)
    simp only
    omega

end CashAddr

/-! ## 2. `base58.Decode` (base58.go:17-46) -/
section B58
open Bch.Model.Base58 Bch.Proofs.CheckedAddr
open Bch.Proofs.Base58 (length_ofNatMin_le)

/-- body of the digit loop (base58.go:22-31); the state is `(answer, j)` -/
def decodeBody (tbl : List UInt8) (b : Bytes) (i : Nat) (st : Nat × Nat) :
    Except Fault (Step (Option Nat) (Nat × Nat)) :=
  match idx? b i with
  | .error e => .error e
  | .ok c =>
    match idx? tbl c.toNat with
    | .error e => .error e
    | .ok tmp =>
      if tmp = 255 then .ok (.exit none)
      else .ok (.next (st.1 + st.2 * tmp.toNat, st.2 * 58))

theorem decodeLoopC_loop (tbl : List UInt8) (b : Bytes) : ∀ fuel answer j,
    decodeLoopC tbl b fuel answer j = downC (decodeBody tbl b) (fun st => some st.1) fuel (answer, j) := by
  intro fuel
  induction fuel with
  | zero => intro answer j; rfl
  | succ i ih =>
    intro answer j
    simp only [decodeLoopC, downC, decodeBody]
    cases idx? b i with
    | error e => rfl
    | ok c =>
      simp only [ok_bind]
      cases idx? tbl c.toNat with
      | error e => rfl
      | ok tmp =>
        simp only [ok_bind]
        split_ifs
        · rfl
        · exact ih _ _

/-- One iteration (U1) runs three `math/big` operations (U5): `scratch.Mul(j, scratch)` on the `natLen j`
bytes of `j`; `answer.Add(answer, scratch)`, charged by the size of its result; `j.Mul(j, bigRadix)`, charged
by the size of its result. -/
def decodeWeight (tbl : List UInt8) (b : Bytes) (i : Nat) (st : Nat × Nat) : Nat :=
  1 + (natLen st.2 + 1) +
  match decodeBody tbl b i st with
  | .ok (.next st') => (natLen st'.1 + 1) + (natLen st'.2 + 1)
  | _ => 0

def decodeLoopCost (tbl : List UInt8) (b : Bytes) := downCost (decodeBody tbl b) (decodeWeight tbl b)

/-- the number of iterations alone -/
def decodeLoopIters (tbl : List UInt8) (b : Bytes) := downCost (decodeBody tbl b) (fun _ _ => 1)

theorem natLen_le (n k : Nat) (h : n < 256 ^ k) : natLen n ≤ k := length_ofNatMin_le k n h

/-- QUADRATIC: with `answer, j < 256^k` the remaining `fuel` iterations cost at most
`Σ_{t<fuel} (3(k+t) + 6)`. Holds for any table (a table entry is a byte). -/
theorem decodeLoopCost_le (tbl : List UInt8) (b : Bytes) : ∀ fuel (st : Nat × Nat) (k : Nat),
    st.1 < 256 ^ k → st.2 < 256 ^ k →
    2 * decodeLoopCost tbl b fuel st ≤ fuel * (6 * k + 3 * fuel + 9) := by
  intro fuel
  induction fuel with
  | zero => intro st k _ _; simp [decodeLoopCost, downCost]
  | succ i ih =>
    intro st k h1 h2
    unfold decodeLoopCost at ih ⊢
    rw [downCost, decodeWeight]
    have hj := natLen_le _ _ h2
    cases hb : decodeBody tbl b i st with
    | error e => simp only; nlinarith
    | ok r =>
      cases r with
      | exit r => simp only; nlinarith
      | next st' =>
        simp only
        have hst' : st'.1 < 256 ^ (k+1) ∧ st'.2 < 256 ^ (k+1) := by
          unfold decodeBody at hb
          cases hc : idx? b i with
          | error e => rw [hc] at hb; cases hb
          | ok c =>
            rw [hc] at hb
            simp only at hb
            cases ht : idx? tbl c.toNat with
            | error e => rw [ht] at hb; cases hb
            | ok tmp =>
              rw [ht] at hb
              simp only at hb
              split_ifs at hb
              · simp at hb
              simp only [Except.ok.injEq, Step.next.injEq] at hb
              subst hb
              have htmp : tmp.toNat < 256 := tmp.toNat_lt
              have hm : st.2 * tmp.toNat ≤ st.2 * 255 := Nat.mul_le_mul_left _ (by omega)
              simp only [Nat.pow_succ]
              constructor <;> omega
        have ha' := natLen_le _ _ hst'.1
        have hj' := natLen_le _ _ hst'.2
        have := ih st' (k+1) hst'.1 hst'.2
        nlinarith

theorem decodeLoopIters_le (tbl : List UInt8) (b : Bytes) : ∀ fuel st, decodeLoopIters tbl b fuel st ≤ fuel := by
  intro fuel
  induction fuel with
  | zero => intro st; simp [decodeLoopIters, downCost]
  | succ i ih =>
    intro st
    unfold decodeLoopIters at ih ⊢
    rw [downCost]
    split
    · have := ih ‹_›; omega
    · omega

/-- body of the leading-'1' loop (base58.go:36-40); the state is `numZeros` (= the loop index) -/
def zerosBody (b : Bytes) (_i : Nat) (nz : Nat) : Except Fault (Step Nat Nat) :=
  match idx? b nz with
  | .error e => .error e
  | .ok c => if c ≠ 49 then .ok (.exit nz) else .ok (.next (nz + 1))

theorem zerosLoopC_loop (b : Bytes) : ∀ fuel i nz, zerosLoopC b fuel nz = forC (zerosBody b) id fuel i nz := by
  intro fuel
  induction fuel with
  | zero => intro i nz; rfl
  | succ fuel ih =>
    intro i nz
    simp only [zerosLoopC, forC, zerosBody]
    cases idx? b nz with
    | error e => rfl
    | ok c =>
      simp only [ok_bind]
      split_ifs
      · rfl
      · exact ih _ _

def zerosCost (b : Bytes) := forCost (zerosBody b) (fun _ _ => 1)

theorem zerosCost_le (b : Bytes) (fuel i nz : Nat) : zerosCost b fuel i nz ≤ fuel := by
  have := forCost_le (zerosBody b) (fun _ _ => 1) 1 (fun _ _ => Nat.le_refl _) fuel i nz
  simpa [zerosCost] using this

/-- Steps of `Base58DecodeC b`: the digit loop; then, unless a foreign character ended it, `answer.Bytes()`
(U3), the leading-'1' loop, `make([]byte, flen)` (U3), `val[numZeros:]` (U2) and `copy` (U3). The value of
`answer` after the loop is `decodeNat b` (`decodeLoopC_eq`). -/
def Base58DecodeCost (b : Bytes) : Nat :=
  decodeLoopCost b58Tbl b b.length (0, 1) +
  match decodeNat b with
  | none => 0
  | some answer =>
    bulk (natLen answer) + zerosCost b b.length 0 0 + bulk (leadingOnes b + natLen answer) + 1
      + bulk (natLen answer)

/-- ALLOCATION of `Decode`: `tmpval` and `val` (the three `big.Int`s `answer`, `j`, `scratch` hold numbers
below `256^(len(b)+1)`: at most `len(b) + 1` bytes each, not counted here) -/
def Base58DecodeAlloc (b : Bytes) : Nat :=
  match decodeNat b with
  | none => 0
  | some answer => natLen answer + (leadingOnes b + natLen answer)

theorem Decode_some_length (b : Bytes) (n : Nat) (h : decodeNat b = some n) :
    leadingOnes b + natLen n ≤ b.length := by
  have := Decode_length_le b
  unfold Decode at this
  rw [h] at this
  simpa [natLen] using this

theorem Base58DecodeCost_le (b : Bytes) :
    2 * Base58DecodeCost b ≤ 3 * b.length ^ 2 + 23 * b.length + 8 := by
  unfold Base58DecodeCost
  have h1 := decodeLoopCost_le b58Tbl b b.length (0, 1) 1 (by decide) (by decide)
  cases hd : decodeNat b with
  | none => simp only; nlinarith
  | some n =>
    have h2 := Decode_some_length b n hd
    have h3 := zerosCost_le b b.length 0 0
    simp only [bulk]
    nlinarith

theorem Base58DecodeAlloc_le (b : Bytes) : Base58DecodeAlloc b ≤ 2 * b.length := by
  unfold Base58DecodeAlloc
  cases hd : decodeNat b with
  | none => simp
  | some n => have := Decode_some_length b n hd; simp only; omega

end B58

/-! ## 3. `base58.CheckDecode`, `DecodeWIF`, `NewKeyFromString`: everything behind `base58.Decode`

These three are straight-line code after the call of `Decode` (no loop): the cost is `Base58DecodeCost` plus
the primitives on the executed path. `decoded` is `Base58.Decode s` (`Base58DecodeC_eq_model`). -/
section B58Check
open Bch.Model.Base58 Bch.Proofs.CheckedAddr

/-- `CheckDecode` after `Decode` (base58check.go:40-50): `decoded[0]`, two slices (U2), `copy` into the
4-byte array (U3), the double hash of the body (U4, `n - 4` bytes), the comparison (U2); on success the
payload slice (U2) and `append(result, payload...)` (U3). -/
def checkDecodeBodyCost (H : Bytes → Bytes) (decoded : Bytes) : Nat :=
  if decoded.length < 5 then 0 else
  3 + bulk 4 + bulk (decoded.length - 4) + 1 +
  (if checksum H (decoded.take (decoded.length - 4)) ≠ decoded.drop (decoded.length - 4) then 0
   else 1 + bulk (decoded.length - 5))

def CheckDecodeCost (H : Bytes → Bytes) (s : Bytes) : Nat :=
  Base58DecodeCost s + checkDecodeBodyCost H (Decode s)

/-- ALLOCATION: what `Decode` allocates, and on success the copy of the payload -/
def CheckDecodeAlloc (H : Bytes → Bytes) (s : Bytes) : Nat :=
  Base58DecodeAlloc s +
  (if (Decode s).length < 5 then 0
   else if checksum H ((Decode s).take ((Decode s).length - 4)) ≠ (Decode s).drop ((Decode s).length - 4) then 0
   else (Decode s).length - 5)

theorem checkDecodeBodyCost_le (H : Bytes → Bytes) (decoded : Bytes) :
    checkDecodeBodyCost H decoded ≤ 2 * decoded.length + 3 := by
  unfold checkDecodeBodyCost
  simp only [bulk]
  by_cases h5 : decoded.length < 5
  · rw [if_pos h5]; omega
  · rw [if_neg h5]
    split_ifs <;> omega

theorem CheckDecodeCost_le (H : Bytes → Bytes) (s : Bytes) :
    2 * CheckDecodeCost H s ≤ 3 * s.length ^ 2 + 27 * s.length + 14 := by
  unfold CheckDecodeCost
  have h1 := Base58DecodeCost_le s
  have h2 := checkDecodeBodyCost_le H (Decode s)
  have h3 := Decode_length_le s
  omega

theorem CheckDecodeAlloc_le (H : Bytes → Bytes) (s : Bytes) : CheckDecodeAlloc H s ≤ 3 * s.length := by
  unfold CheckDecodeAlloc
  have h1 := Base58DecodeAlloc_le s
  have h3 := Decode_length_le s
  split_ifs <;> omega

/-- `DecodeWIF` after `Decode` (wif.go:109-119) for a payload of `k` bytes to be hashed: the `tosum` slice
(U2), the double hash (U4), `[:4]`, `decoded[decodedLen-4:]`, the comparison (U2 each); on success
`decoded[0]`, `decoded[1:33]` (U2) and `PrivKeyFromBytes` (U3 on 32 bytes). -/
def wifTailCost (H : Bytes → Bytes) (decoded : Bytes) (k : Nat) : Nat :=
  1 + bulk k + 3 +
  (if (H (decoded.take k)).take 4 ≠ decoded.drop (decoded.length - 4) then 0 else 2 + bulk 32)

/-- Steps of `DecodeWIFC H s`: `Decode`, the `switch decodedLen` with `decoded[33]` (U2), then the tail. -/
def DecodeWIFCost (H : Bytes → Bytes) (s : Bytes) : Nat :=
  Base58DecodeCost s +
  (if (Decode s).length = 38 then
     1 + (if (Decode s).getD 33 0 ≠ 1 then 0 else wifTailCost H (Decode s) 34)
   else if (Decode s).length = 37 then wifTailCost H (Decode s) 33
   else 0)

/-- ALLOCATION of `DecodeWIF`: `Decode`'s, and the 32-byte scalar of the private key -/
def DecodeWIFAlloc (s : Bytes) : Nat := Base58DecodeAlloc s + 32

theorem DecodeWIFCost_le (H : Bytes → Bytes) (s : Bytes) :
    2 * DecodeWIFCost H s ≤ 3 * s.length ^ 2 + 23 * s.length + 158 := by
  unfold DecodeWIFCost wifTailCost
  have h1 := Base58DecodeCost_le s
  simp only [bulk]
  split_ifs <;> omega

/-- Steps of `NewKeyFromStringC X s` (extendedkey.go:517-567): `Decode`; for 82 decoded bytes two slices
(U2), the double hash of the 78-byte payload (U4), `[:4]` and the comparison (U2); on success the eight
field slices/indices (U2), then either `keyData[1:]` (U2) and `SetBytes` (U3, 32 bytes) or `ParsePubKey`
(U4, 33 bytes). -/
def NewKeyFromStringCost {Pt : Type} (X : HDKey.HDExt Pt) (s : Bytes) : Nat :=
  Base58DecodeCost s +
  (if (Decode s).length ≠ 82 then 0 else
   2 + bulk 78 + 2 +
   (if (Decode s).drop 78 ≠ (X.sha256d ((Decode s).take 78)).take 4 then 0 else
    8 + (if (((Decode s).take 78).drop 45).headD 1 = 0 then 1 + bulk 32 else bulk 33)))

/-- ALLOCATION of `NewKeyFromString`: `Decode`'s; the fields of the key are sub-slices of `decoded` -/
def NewKeyFromStringAlloc (s : Bytes) : Nat := Base58DecodeAlloc s

theorem NewKeyFromStringCost_le {Pt : Type} (X : HDKey.HDExt Pt) (s : Bytes) :
    2 * NewKeyFromStringCost X s ≤ 3 * s.length ^ 2 + 23 * s.length + 258 := by
  unfold NewKeyFromStringCost
  have h1 := Base58DecodeCost_le s
  simp only [bulk]
  split_ifs <;> omega

end B58Check

/-! ## 4. `DecodeAddress` (address.go:82-194) -/
section Addr
open Bch.Model.Address Bch.Model.CashAddr Bch.Proofs.CheckedAddr
open Bch.Proofs.Address (tailDecode attemptStr second)

/-- body of the loop of `toLowerASCII` (address.go:940-944) -/
def toLowerBody (i : Nat) (b : Bytes) : Except Fault (Step Bytes Bytes) :=
  match idx? b i with
  | .error e => .error e
  | .ok c =>
    if 65 ≤ c ∧ c ≤ 90 then
      match set? b i (c + 32) with
      | .error e => .error e
      | .ok b' => .ok (.next b')
    else .ok (.next b)

theorem toLowerLoopC_loop : ∀ fuel i b, toLowerLoopC fuel i b = forC toLowerBody id fuel i b := by
  intro fuel
  induction fuel with
  | zero => intro i b; rfl
  | succ fuel ih =>
    intro i b
    simp only [toLowerLoopC, forC, toLowerBody]
    cases idx? b i with
    | error e => rfl
    | ok c =>
      simp only [ok_bind]
      split_ifs
      · cases set? b i (c + 32) with
        | error e => rfl
        | ok b' => exact ih _ _
      · exact ih _ _

/-- `toLowerASCII(s)`: `[]byte(s)` (U3), the loop, `string(b)` (U3) -/
def toLowerCost (s : Bytes) : Nat :=
  bulk s.length + forCost toLowerBody (fun _ _ => 1) s.length 0 s + bulk s.length

theorem toLowerCost_le (s : Bytes) : toLowerCost s ≤ 3 * s.length + 2 := by
  have := forCost_le toLowerBody (fun _ _ => 1) 1 (fun _ _ => Nat.le_refl _) s.length 0 s
  unfold toLowerCost; simp only [bulk]; omega

/-- the test of address.go:91 / :123: `bchPrefix+":"` (U3), `addr[:len(bchPrefix)+1]` (U2), `EqualFold`
(U3); the same for the SLP prefix unless the first comparison succeeds (short-circuit `&&`) -/
def hasPreCost (addr bch slp : Bytes) : Nat :=
  bulk (bch.length + 1) + 1 + bulk (bch.length + 1) +
  (if equalFoldASCII (addr.take (bch.length + 1)) (bch ++ [58]) then 0
   else bulk (slp.length + 1) + 1 + bulk (slp.length + 1))

/-- `addrWithPrefix` (address.go:90-93 / :122-125): the test, and if no prefix is present `toLowerASCII`
and the concatenation `prefix + ":" + lower` (U3) -/
def withPrefixCost (addr : Bytes) (net : Net) (slp : Bool) : Nat :=
  hasPreCost addr net.cashPrefix net.slpPrefix +
  (if hasPrefixFold addr net.cashPrefix || hasPrefixFold addr net.slpPrefix then 0
   else toLowerCost addr + bulk ((if slp then net.slpPrefix else net.cashPrefix).length + 1 + addr.length))

def withPrefixAlloc (addr : Bytes) (net : Net) (slp : Bool) : Nat :=
  (net.cashPrefix.length + 1) + (net.slpPrefix.length + 1) +
  (if hasPrefixFold addr net.cashPrefix || hasPrefixFold addr net.slpPrefix then 0
   else 2 * addr.length + ((if slp then net.slpPrefix else net.cashPrefix).length + 1 + addr.length))

/-- address.go:155-193: `hex.DecodeString` (U3), `ParsePubKey` (U4) and `serializedPubKey[0]` (U2); or
`base58.CheckDecode` and the two network-id look-ups (U2 each) -/
def tailCost (X : Ext) (addr : Bytes) : Nat :=
  if addr.length = 130 ∨ addr.length = 66 then
    bulk addr.length +
    match hexDec addr with
    | none => 0
    | some ser => bulk ser.length + (if (X.parsePub ser).isSome then 1 else 0)
  else
    CheckDecodeCost X.sha256d addr +
    match Base58.CheckDecode X.sha256d addr with
    | .ok (decoded, _) => if decoded.length = 20 then 2 else 0
    | .error _ => 0

def tailAlloc (X : Ext) (addr : Bytes) : Nat :=
  if addr.length = 130 ∨ addr.length = 66 then
    match hexDec addr with
    | none => 0
    | some ser => ser.length
  else CheckDecodeAlloc X.sha256d addr

/-- the SLP retry (address.go:120-153), then the tail if it fails -/
def secondCost (X : Ext) (addr : Bytes) (net : Net) : Nat :=
  withPrefixCost addr net true + checkDecodeCashAddressCost (attemptStr addr net true) +
  match (checkDecodeCashAddress (attemptStr addr net true)).2 with
  | .ok _ => 0
  | .error _ => tailCost X addr

def secondAlloc (X : Ext) (addr : Bytes) (net : Net) : Nat :=
  withPrefixAlloc addr net true + checkDecodeCashAddressAlloc (attemptStr addr net true) +
  match (checkDecodeCashAddress (attemptStr addr net true)).2 with
  | .ok _ => 0
  | .error _ => tailAlloc X addr

/-- Steps of `DecodeAddressC X addr net`, following the branches of `DecodeAddressG` (the strings handed to
the two CashAddr attempts are `attemptStr addr net false/true`, `withPrefixC_eq`). The constructors
(`fromCash`, `fromLegacy`) test a length and copy 20 or 32 bytes: constant, not counted. -/
def DecodeAddressCost (X : Ext) (addr : Bytes) (net : Net) : Nat :=
  if addr.length < net.cashPrefix.length + 2 ∨ addr.length < net.slpPrefix.length + 2 then 0 else
  withPrefixCost addr net false + checkDecodeCashAddressCost (attemptStr addr net false) +
  match (checkDecodeCashAddress (attemptStr addr net false)).2 with
  | .ok _ =>
    if (checkDecodeCashAddress (attemptStr addr net false)).1 ≠ net.slpPrefix then 0
    else secondCost X addr net
  | .error e =>
    if isChecksumMismatch (.error e : Except CErr (Bytes × AddrType)) ||
        (checkDecodeCashAddress (attemptStr addr net false)).1 = net.slpPrefix
    then secondCost X addr net else tailCost X addr

def DecodeAddressAlloc (X : Ext) (addr : Bytes) (net : Net) : Nat :=
  if addr.length < net.cashPrefix.length + 2 ∨ addr.length < net.slpPrefix.length + 2 then 0 else
  withPrefixAlloc addr net false + checkDecodeCashAddressAlloc (attemptStr addr net false) +
  match (checkDecodeCashAddress (attemptStr addr net false)).2 with
  | .ok _ =>
    if (checkDecodeCashAddress (attemptStr addr net false)).1 ≠ net.slpPrefix then 0
    else secondAlloc X addr net
  | .error e =>
    if isChecksumMismatch (.error e : Except CErr (Bytes × AddrType)) ||
        (checkDecodeCashAddress (attemptStr addr net false)).1 = net.slpPrefix
    then secondAlloc X addr net else tailAlloc X addr

variable (X : Ext) (addr : Bytes) (net : Net)

theorem attemptStr_length (b : Bool) (h1 : net.cashPrefix.length + 2 ≤ addr.length)
    (h2 : net.slpPrefix.length + 2 ≤ addr.length) : (attemptStr addr net b).length ≤ 2 * addr.length := by
  unfold attemptStr
  split_ifs <;>
    (try simp only [lowerASCII, List.length_append, List.length_map, List.length_cons, List.length_nil]) <;> omega

theorem withPrefixCost_le (b : Bool) (h1 : net.cashPrefix.length + 2 ≤ addr.length)
    (h2 : net.slpPrefix.length + 2 ≤ addr.length) : withPrefixCost addr net b ≤ 9 * addr.length + 4 := by
  unfold withPrefixCost hasPreCost
  have := toLowerCost_le addr
  simp only [bulk]
  split_ifs <;> omega

theorem withPrefixAlloc_le (b : Bool) (h1 : net.cashPrefix.length + 2 ≤ addr.length)
    (h2 : net.slpPrefix.length + 2 ≤ addr.length) : withPrefixAlloc addr net b ≤ 6 * addr.length := by
  unfold withPrefixAlloc
  split_ifs <;> omega

theorem hexDec_len (s b : Bytes) (h : hexDec s = some b) : s.length = 2 * b.length :=
  Bch.Proofs.CheckedAddr.hexDec_length s b h

theorem tailCost_le : 2 * tailCost X addr ≤ 3 * addr.length ^ 2 + 27 * addr.length + 18 := by
  unfold tailCost
  split_ifs with h
  · cases hd : hexDec addr with
    | none => simp only [bulk]; nlinarith
    | some ser =>
      have := hexDec_len addr ser hd
      simp only [bulk]
      split_ifs <;> nlinarith
  · have := CheckDecodeCost_le X.sha256d addr
    rcases Base58.CheckDecode X.sha256d addr with e | ⟨d, id⟩ <;> simp only
    · omega
    · split_ifs <;> omega

theorem tailAlloc_le : tailAlloc X addr ≤ 3 * addr.length := by
  unfold tailAlloc
  split_ifs with h
  · cases hd : hexDec addr with
    | none => simp
    | some ser => have := hexDec_len addr ser hd; simp only; omega
  · exact CheckDecodeAlloc_le _ _

/-- a CashAddr attempt on a string of at most `2·n` bytes -/
theorem checkCost_attempt (b : Bool) (h1 : net.cashPrefix.length + 2 ≤ addr.length)
    (h2 : net.slpPrefix.length + 2 ≤ addr.length) :
    2 * checkDecodeCashAddressCost (attemptStr addr net b) ≤ 4 * addr.length ^ 2 + 46 * addr.length + 6 := by
  have hl := attemptStr_length addr net b h1 h2
  have hc := checkDecodeCashAddressCost_le (attemptStr addr net b)
  have hp : prefixLen (attemptStr addr net b) ≤ 2 * addr.length := by
    rcases prefixLen_lt (attemptStr addr net b) with h | h <;> omega
  have : prefixLen (attemptStr addr net b) * (prefixLen (attemptStr addr net b) + 5)
      ≤ (2 * addr.length) * (2 * addr.length + 5) := Nat.mul_le_mul hp (by omega)
  nlinarith

theorem secondCost_le (h1 : net.cashPrefix.length + 2 ≤ addr.length)
    (h2 : net.slpPrefix.length + 2 ≤ addr.length) :
    2 * secondCost X addr net ≤ 7 * addr.length ^ 2 + 91 * addr.length + 32 := by
  unfold secondCost
  have a := withPrefixCost_le addr net true h1 h2
  have b := checkCost_attempt addr net true h1 h2
  have c := tailCost_le X addr
  cases (checkDecodeCashAddress (attemptStr addr net true)).2 <;> simp only <;> omega

theorem secondAlloc_le (h1 : net.cashPrefix.length + 2 ≤ addr.length)
    (h2 : net.slpPrefix.length + 2 ≤ addr.length) : secondAlloc X addr net ≤ 21 * addr.length := by
  unfold secondAlloc
  have a := withPrefixAlloc_le addr net true h1 h2
  have b := checkDecodeCashAddressAlloc_le (attemptStr addr net true)
  have hl := attemptStr_length addr net true h1 h2
  have c := tailAlloc_le X addr
  cases (checkDecodeCashAddress (attemptStr addr net true)).2 <;> simp only <;> omega

theorem DecodeAddressCost_le :
    2 * DecodeAddressCost X addr net ≤ 11 * addr.length ^ 2 + 155 * addr.length + 46 := by
  unfold DecodeAddressCost
  by_cases hg : addr.length < net.cashPrefix.length + 2 ∨ addr.length < net.slpPrefix.length + 2
  · rw [if_pos hg]; omega
  · rw [if_neg hg]
    have h1 : net.cashPrefix.length + 2 ≤ addr.length := by omega
    have h2 : net.slpPrefix.length + 2 ≤ addr.length := by omega
    have a := withPrefixCost_le addr net false h1 h2
    have b := checkCost_attempt addr net false h1 h2
    have c := tailCost_le X addr
    have d := secondCost_le X addr net h1 h2
    cases (checkDecodeCashAddress (attemptStr addr net false)).2 with
    | error e => simp only; split_ifs <;> omega
    | ok r => simp only; split_ifs <;> omega

theorem DecodeAddressAlloc_le : DecodeAddressAlloc X addr net ≤ 39 * addr.length := by
  unfold DecodeAddressAlloc
  by_cases hg : addr.length < net.cashPrefix.length + 2 ∨ addr.length < net.slpPrefix.length + 2
  · rw [if_pos hg]; omega
  · rw [if_neg hg]
    have h1 : net.cashPrefix.length + 2 ≤ addr.length := by omega
    have h2 : net.slpPrefix.length + 2 ≤ addr.length := by omega
    have a := withPrefixAlloc_le addr net false h1 h2
    have b := checkDecodeCashAddressAlloc_le (attemptStr addr net false)
    have hl := attemptStr_length addr net false h1 h2
    have c := tailAlloc_le X addr
    have d := secondAlloc_le X addr net h1 h2
    cases (checkDecodeCashAddress (attemptStr addr net false)).2 with
    | error e => simp only; split_ifs <;> omega
    | ok r => simp only; split_ifs <;> omega

end Addr

/-! ## 5. bech32 `Decode` / `Encode` (bech32/bech32.go) -/
section Bech32S
open Bch.Model.Bech32 Bch.Proofs.CheckedBech32

/-- body of the loop of `toBytes` (bech32.go:107-114) -/
def toBytesBody (chars : Bytes) (i : Nat) (decoded : Bytes) : Except Fault (Step (Option Bytes) Bytes) :=
  match idx? chars i with
  | .error e => .error e
  | .ok c =>
    if indexByte charset c < 0 then
      match idx? chars i with
      | .error e => .error e
      | .ok _ => .ok (.exit none)
    else .ok (.next (decoded ++ [UInt8.ofNat (indexByte charset c).toNat]))

theorem toBytesLoopC_loop (chars : Bytes) : ∀ fuel i decoded,
    toBytesLoopC chars fuel i decoded = forC (toBytesBody chars) some fuel i decoded := by
  intro fuel
  induction fuel with
  | zero => intro i d; rfl
  | succ fuel ih =>
    intro i d
    simp only [toBytesLoopC, forC, toBytesBody]
    cases idx? chars i with
    | error e => rfl
    | ok c =>
      simp only [ok_bind]
      split_ifs
      · rfl
      · exact ih _ _

/-- body of the loop of `toChars` (bech32.go:122-127) -/
def toCharsBody (guard : Bool) (b : UInt8) (result : Bytes) : Except Fault (Step (Option Bytes) Bytes) :=
  if guard && decide (b.toNat ≥ charset.length) then .ok (.exit none) else
  match idx? charset b.toNat with
  | .error e => .error e
  | .ok ch => .ok (.next (result ++ [ch]))

theorem toCharsLoopG_loop (guard : Bool) : ∀ data result,
    toCharsLoopG guard data result = rangeC (toCharsBody guard) some data result := by
  intro data
  induction data with
  | nil => intro r; rfl
  | cons b rest ih =>
    intro r
    simp only [toCharsLoopG, rangeC, toCharsBody]
    split_ifs
    · rfl
    · cases idx? charset b.toNat with
      | error e => rfl
      | ok ch => exact ih _

/-- body of `for i, b := range data { integers[i] = int(b) }`; the state is `(i, integers)` -/
def intsBody (b : UInt8) (st : Nat × List Nat) : Except Fault (Step (List Nat) (Nat × List Nat)) :=
  match set? st.2 st.1 b.toNat with
  | .error e => .error e
  | .ok ints => .ok (.next (st.1 + 1, ints))

theorem intsLoopC_loop : ∀ rest i ints, intsLoopC rest i ints = rangeC intsBody (·.2) rest (i, ints) := by
  intro rest
  induction rest with
  | nil => intro i ints; rfl
  | cons b rest ih =>
    intro i ints
    simp only [intsLoopC, rangeC, intsBody]
    cases set? ints i b.toNat with
    | error e => rfl
    | ok v => exact ih _ _

def hrpHiBody (hrp : Bytes) (i : Nat) (v : List Nat) : Except Fault (Step (List Nat) (List Nat)) :=
  match idx? hrp i with
  | .error e => .error e
  | .ok c => .ok (.next (v ++ [(c >>> 5).toNat]))

def hrpLoBody (hrp : Bytes) (i : Nat) (v : List Nat) : Except Fault (Step (List Nat) (List Nat)) :=
  match idx? hrp i with
  | .error e => .error e
  | .ok c => .ok (.next (v ++ [(c &&& 31).toNat]))

theorem hrpHiLoopC_loop (hrp : Bytes) : ∀ fuel i v, hrpHiLoopC hrp fuel i v = forC (hrpHiBody hrp) id fuel i v := by
  intro fuel
  induction fuel with
  | zero => intro i v; rfl
  | succ fuel ih =>
    intro i v
    simp only [hrpHiLoopC, forC, hrpHiBody]
    cases idx? hrp i with
    | error e => rfl
    | ok c => exact ih _ _

theorem hrpLoLoopC_loop (hrp : Bytes) : ∀ fuel i v, hrpLoLoopC hrp fuel i v = forC (hrpLoBody hrp) id fuel i v := by
  intro fuel
  induction fuel with
  | zero => intro i v; rfl
  | succ fuel ih =>
    intro i v
    simp only [hrpLoLoopC, forC, hrpLoBody]
    cases idx? hrp i with
    | error e => rfl
    | ok c => exact ih _ _

/-- body of the inner loop of `bech32Polymod` (bech32.go:224-228) -/
def polyInnerBody (b : Nat) (i : Nat) (chk : Nat) : Except Fault (Step Nat Nat) :=
  if (b >>> i) &&& 1 = 1 then
    match idx? gen i with
    | .error e => .error e
    | .ok g => .ok (.next (chk ^^^ g))
  else .ok (.next chk)

theorem polyInnerC_loop (b : Nat) : ∀ fuel i chk, polyInnerC b fuel i chk = forC (polyInnerBody b) id fuel i chk := by
  intro fuel
  induction fuel with
  | zero => intro i chk; rfl
  | succ fuel ih =>
    intro i chk
    simp only [polyInnerC, forC, polyInnerBody]
    split_ifs
    · cases idx? gen i with
      | error e => rfl
      | ok g => exact ih _ _
    · exact ih _ _

def polyInnerCost (b : Nat) := forCost (polyInnerBody b) (fun _ _ => 1)

/-- body of the outer loop of `bech32Polymod` (bech32.go:221-229): one polymod step -/
def polymodBody (v : Nat) (chk : Nat) : Except Fault (Step Nat Nat) :=
  match polyInnerC (chk >>> 25) 5 0 (((chk &&& 0x1ffffff) <<< 5) ^^^ v) with
  | .error e => .error e
  | .ok chk' => .ok (.next chk')

theorem polymodLoopC_loop : ∀ values chk, polymodLoopC values chk = rangeC polymodBody id values chk := by
  intro values
  induction values with
  | nil => intro chk; rfl
  | cons v vs ih =>
    intro chk
    simp only [polymodLoopC, rangeC, polymodBody]
    cases polyInnerC (chk >>> 25) 5 0 (((chk &&& 0x1ffffff) <<< 5) ^^^ v) with
    | error e => rfl
    | ok c => exact ih _

/-- one polymod step: the outer iteration (U1) and the iterations of its inner loop -/
def polymodWeight (v : Nat) (chk : Nat) : Nat :=
  1 + polyInnerCost (chk >>> 25) 5 0 (((chk &&& 0x1ffffff) <<< 5) ^^^ v)

def polymodCost (values : List Nat) : Nat := rangeCost polymodBody polymodWeight values 1

theorem polymodCost_le (values : List Nat) : polymodCost values ≤ 6 * values.length := by
  have := rangeCost_le polymodBody polymodWeight 6 (fun v chk => by
    have := forCost_le (polyInnerBody (chk >>> 25)) (fun _ _ => 1) 1 (fun _ _ => Nat.le_refl _) 5 0
      (((chk &&& 0x1ffffff) <<< 5) ^^^ v)
    unfold polymodWeight polyInnerCost; omega) values 1
  unfold polymodCost; omega

/-- body of the character loop of `Decode` (bech32.go:27-32) -/
def charBody (bech : Bytes) (i : Nat) (_u : Unit) : Except Fault (Step Bool Unit) :=
  match idx? bech i with
  | .error e => .error e
  | .ok c =>
    if c < 33 ∨ c > 126 then .ok (.exit true) else .ok (.next ())

theorem charLoopC_loop (bech : Bytes) : ∀ fuel i, charLoopC bech fuel i = forC (charBody bech) (fun _ => false) fuel i () := by
  intro fuel
  induction fuel with
  | zero => intro i; rfl
  | succ fuel ih =>
    intro i
    simp only [charLoopC, forC, charBody]
    cases idx? bech i with
    | error e => rfl
    | ok c =>
      simp only [ok_bind]
      split_ifs
      · rfl
      · exact ih _

/-- `toBytes(chars)`: `make([]byte, 0, len(chars))` (U3) and the loop -/
def toBytesCost (chars : Bytes) : Nat :=
  bulk chars.length + forCost (toBytesBody chars) (fun _ _ => 1) chars.length 0 []

/-- `toChars(data)`: `make` (U3), the loop, `string(result)` (U3) -/
def toCharsCost (data : Bytes) : Nat :=
  bulk data.length + rangeCost (toCharsBody true) (fun _ _ => 1) data [] + bulk data.length

/-- `integers := make([]int, len(data))` (U3) and its loop -/
def intsCost (data : Bytes) : Nat :=
  bulk data.length + rangeCost intsBody (fun _ _ => 1) data (0, List.replicate data.length 0)

/-- `bech32HrpExpand(hrp)`: `make` (U3), the two loops, `append(v, 0)` (U2) -/
def hrpExpandCost (hrp : Bytes) : Nat :=
  bulk (2 * hrp.length + 1) + forCost (hrpHiBody hrp) (fun _ _ => 1) hrp.length 0 [] + 1
    + forCost (hrpLoBody hrp) (fun _ _ => 1) hrp.length 0
        (hrp.map (fun (c : UInt8) => c.toNat >>> 5) ++ [0])

/-- `bech32VerifyChecksum(hrp, data)`: the two conversions, `append(hx, integers...)` (U3), the polymod
over `hrpExpand hrp ++ data` (the list `hrpExpandC_eq`/`intsC_eq` prove the code builds), the comparison -/
def verifyCost32 (hrp data : Bytes) : Nat :=
  intsCost data + hrpExpandCost hrp + bulk (2 * hrp.length + 1 + data.length)
    + polymodCost (hrpExpand hrp ++ data.map (·.toNat)) + 1

/-- `bech32Checksum(hrp, data)`: as above with the six zeros appended (U3, may re-allocate), the final loop
of 6 iterations -/
def checksumCost32 (hrp data : Bytes) : Nat :=
  intsCost data + hrpExpandCost hrp + bulk (2 * hrp.length + 1 + data.length)
    + bulk (2 * hrp.length + 1 + data.length + 6)
    + polymodCost (hrpExpand hrp ++ data.map (·.toNat) ++ [0, 0, 0, 0, 0, 0]) + 6

theorem toBytesCost_le (chars : Bytes) : toBytesCost chars ≤ 2 * chars.length + 1 := by
  have := forCost_le (toBytesBody chars) (fun _ _ => 1) 1 (fun _ _ => Nat.le_refl _) chars.length 0 []
  unfold toBytesCost; simp only [bulk]; omega

theorem toCharsCost_le (data : Bytes) : toCharsCost data ≤ 3 * data.length + 2 := by
  have := rangeCost_le (toCharsBody true) (fun _ _ => 1) 1 (fun _ _ => Nat.le_refl _) data []
  unfold toCharsCost; simp only [bulk]; omega

theorem intsCost_le (data : Bytes) : intsCost data ≤ 2 * data.length + 1 := by
  have := rangeCost_le intsBody (fun _ _ => 1) 1 (fun _ _ => Nat.le_refl _) data
    (0, List.replicate data.length 0)
  unfold intsCost; simp only [bulk]; omega

theorem hrpExpandCost_le (hrp : Bytes) : hrpExpandCost hrp ≤ 4 * hrp.length + 3 := by
  have h1 := forCost_le (hrpHiBody hrp) (fun _ _ => 1) 1 (fun _ _ => Nat.le_refl _) hrp.length 0 []
  have h2 := forCost_le (hrpLoBody hrp) (fun _ _ => 1) 1 (fun _ _ => Nat.le_refl _) hrp.length 0
    (hrp.map (fun (c : UInt8) => c.toNat >>> 5) ++ [0])
  unfold hrpExpandCost; simp only [bulk]; omega

theorem hrpExpand_length (hrp : Bytes) : (hrpExpand hrp).length = 2 * hrp.length + 1 := by
  simp [hrpExpand]; omega

theorem verifyCost32_le (hrp data : Bytes) : verifyCost32 hrp data ≤ 18 * hrp.length + 9 * data.length + 13 := by
  unfold verifyCost32
  have h1 := intsCost_le data
  have h2 := hrpExpandCost_le hrp
  have h3 := polymodCost_le (hrpExpand hrp ++ data.map (·.toNat))
  simp only [List.length_append, hrpExpand_length, List.length_map] at h3
  simp only [bulk]; omega

theorem checksumCost32_le (hrp data : Bytes) :
    checksumCost32 hrp data ≤ 20 * hrp.length + 10 * data.length + 62 := by
  unfold checksumCost32
  have h1 := intsCost_le data
  have h2 := hrpExpandCost_le hrp
  have h3 := polymodCost_le (hrpExpand hrp ++ data.map (·.toNat) ++ [0, 0, 0, 0, 0, 0])
  simp only [List.length_append, hrpExpand_length, List.length_map, List.length_cons, List.length_nil] at h3
  simp only [bulk]; omega

/-- Steps of `bech32.DecodeC bech`, following the branches of `DecodeG` (values named as in
`Bech32.Decode_eq` / `decodeLower`): the character loop; `ToLower`, `ToUpper`, the comparison with `lower`
and, if that fails (short-circuit `&&`), the one with `upper` (U3 each); `LastIndexByte` (U3); the two slices (U2); `toBytes`; `bech32VerifyChecksum`; then
either the slice (U2) or, for a wrong checksum, the two slices, `bech32Checksum` and `toChars` that build
the error message. (`fmt.Errorf` on bounded arguments: constant, not counted.) -/
def Bech32DecodeCost (bech : Bytes) : Nat :=
  if bech.length < 8 ∨ bech.length > 90 then 0 else
  forCost (charBody bech) (fun _ _ => 1) bech.length 0 () +
  if bech.any (fun c => c < 33 ∨ c > 126) then 0 else
  3 * bulk bech.length + (if bech ≠ bech.map toLower then bulk bech.length else 0) +
  if bech ≠ bech.map toLower ∧ bech ≠ bech.map toUpper then 0 else
  bulk bech.length +
  match lastIndexOf 49 (bech.map toLower) with
  | none => 0
  | some one =>
    if one < 1 ∨ one + 7 > bech.length then 0 else
    2 + toBytesCost ((bech.map toLower).drop (one + 1)) +
    match toBytes ((bech.map toLower).drop (one + 1)) with
    | none => 0
    | some decoded =>
      verifyCost32 ((bech.map toLower).take one) decoded +
      if !verifyChecksum ((bech.map toLower).take one) decoded then
        2 + checksumCost32 ((bech.map toLower).take one) (decoded.take (decoded.length - 6))
          + toCharsCost (checksum ((bech.map toLower).take one) (decoded.take (decoded.length - 6)))
      else 1

/-- ALLOCATION of `bech32.Decode`: `lower`, `upper`, `decoded`, and in `bech32VerifyChecksum` `integers`,
the expanded prefix and the array `append` copies both into; for a wrong checksum the same again inside
`bech32Checksum` (plus the six zeros, `res`) and the six characters of `toChars`. -/
def Bech32DecodeAlloc (bech : Bytes) : Nat :=
  if bech.length < 8 ∨ bech.length > 90 then 0 else
  if bech.any (fun c => c < 33 ∨ c > 126) then 0 else
  2 * bech.length +
  if bech ≠ bech.map toLower ∧ bech ≠ bech.map toUpper then 0 else
  match lastIndexOf 49 (bech.map toLower) with
  | none => 0
  | some one =>
    if one < 1 ∨ one + 7 > bech.length then 0 else
    let d := bech.length - (one + 1)
    d +
    match toBytes ((bech.map toLower).drop (one + 1)) with
    | none => 0
    | some decoded =>
      (d + (2 * one + 1) + (2 * one + 1 + d)) +
      if !verifyChecksum ((bech.map toLower).take one) decoded then
        ((d - 6) + (2 * one + 1) + (2 * one + 1 + (d - 6)) + (2 * one + 1 + (d - 6) + 6) + 6) + 12
      else 0

theorem Bech32DecodeCost_le (bech : Bytes) : Bech32DecodeCost bech ≤ 44 * bech.length + 7 := by
  unfold Bech32DecodeCost
  have h1 := forCost_le (charBody bech) (fun _ _ => 1) 1 (fun _ _ => Nat.le_refl _) bech.length 0 ()
  have hcmp : (if bech ≠ bech.map toLower then bulk bech.length else 0) ≤ bech.length + 1 := by
    split_ifs <;> (try simp only [bulk]) <;> omega
  generalize (if bech ≠ bech.map toLower then bulk bech.length else 0) = cmp at hcmp ⊢
  by_cases hl : bech.length < 8 ∨ bech.length > 90
  · rw [if_pos hl]; omega
  rw [if_neg hl]
  by_cases hc : bech.any (fun c => c < 33 ∨ c > 126) = true
  · rw [if_pos hc]; omega
  rw [if_neg hc]
  by_cases hm : bech ≠ bech.map toLower ∧ bech ≠ bech.map toUpper
  · rw [if_pos hm]; simp only [bulk]; omega
  rw [if_neg hm]
  cases lastIndexOf 49 (bech.map toLower) with
  | none => simp only [bulk]; omega
  | some one =>
    simp only
    by_cases hs : one < 1 ∨ one + 7 > bech.length
    · rw [if_pos hs]; simp only [bulk]; omega
    rw [if_neg hs]
    have h2 := toBytesCost_le ((bech.map toLower).drop (one + 1))
    simp only [List.length_drop, List.length_map] at h2
    cases htb : toBytes ((bech.map toLower).drop (one + 1)) with
    | none => simp only [bulk]; omega
    | some decoded =>
      have hdl : decoded.length = bech.length - (one + 1) := by
        rw [(Bch.Proofs.Bech32.toBytes_some _ _ htb).1]; simp
      have h3 := verifyCost32_le ((bech.map toLower).take one) decoded
      have h4 := checksumCost32_le ((bech.map toLower).take one) (decoded.take (decoded.length - 6))
      have h5 := toCharsCost_le (checksum ((bech.map toLower).take one) (decoded.take (decoded.length - 6)))
      rw [Bch.Proofs.Bech32.checksum_length] at h5
      simp only [List.length_take, List.length_map] at h3 h4
      have hmin : min one bech.length = one := by omega
      rw [hmin] at h3 h4
      simp only [bulk]
      split_ifs <;> omega

theorem Bech32DecodeAlloc_le (bech : Bytes) : Bech32DecodeAlloc bech ≤ 12 * bech.length + 29 := by
  unfold Bech32DecodeAlloc
  by_cases hl : bech.length < 8 ∨ bech.length > 90
  · rw [if_pos hl]; omega
  rw [if_neg hl]
  by_cases hc : bech.any (fun c => c < 33 ∨ c > 126) = true
  · rw [if_pos hc]; omega
  rw [if_neg hc]
  by_cases hm : bech ≠ bech.map toLower ∧ bech ≠ bech.map toUpper
  · rw [if_pos hm]; omega
  rw [if_neg hm]
  cases lastIndexOf 49 (bech.map toLower) with
  | none => simp only; omega
  | some one =>
    simp only
    by_cases hs : one < 1 ∨ one + 7 > bech.length
    · rw [if_pos hs]; omega
    rw [if_neg hs]
    cases toBytes ((bech.map toLower).drop (one + 1)) with
    | none => simp only; omega
    | some decoded => simp only; split_ifs <;> omega

/-- the length test makes the cost a constant: at most `44·90 + 7` steps whatever the input -/
theorem Bech32DecodeCost_const (bech : Bytes) : Bech32DecodeCost bech ≤ 3967 := by
  have h := Bech32DecodeCost_le bech
  by_cases hl : bech.length < 8 ∨ bech.length > 90
  · unfold Bech32DecodeCost; rw [if_pos hl]; omega
  · omega

/-- Steps of `bech32.EncodeC hrp data`: `bech32Checksum`, `make` and the two `append`s (U3), `toChars`, and
on success the concatenation `hrp + "1" + dataChars` (U3) -/
def Bech32EncodeCost (hrp data : Bytes) : Nat :=
  checksumCost32 hrp data + bulk (data.length + 6) + bulk data.length + bulk 6
    + toCharsCost (data ++ checksum hrp data)
    + match toChars (data ++ checksum hrp data) with
      | none => 0
      | some cs => bulk (hrp.length + 1 + cs.length)

/-- ALLOCATION of `bech32.Encode`: inside `bech32Checksum` (`integers`, the expanded prefix, the two
`append` targets, `res`), `combined`, the `toChars` buffer and string, the result string -/
def Bech32EncodeAlloc (hrp data : Bytes) : Nat :=
  (data.length + (2 * hrp.length + 1) + (2 * hrp.length + 1 + data.length)
    + (2 * hrp.length + 1 + data.length + 6) + 6)
  + (data.length + 6) + 2 * (data.length + 6)
  + match toChars (data ++ checksum hrp data) with
    | none => 0
    | some cs => hrp.length + 1 + cs.length

theorem toChars_length : ∀ (l cs : Bytes), toChars l = some cs → cs.length = l.length := by
  intro l
  induction l with
  | nil => intro cs h; simp [toChars] at h; subst h; rfl
  | cons b bs ih =>
    intro cs h
    rw [toChars] at h
    split_ifs at h
    cases hb : toChars bs with
    | none => rw [hb] at h; simp at h
    | some r =>
      rw [hb] at h
      simp only [Option.map_some, Option.some.injEq] at h
      subst h
      simp [ih r hb]

theorem Bech32EncodeCost_le (hrp data : Bytes) :
    Bech32EncodeCost hrp data ≤ 21 * hrp.length + 16 * data.length + 106 := by
  unfold Bech32EncodeCost
  have h1 := checksumCost32_le hrp data
  have h2 := toCharsCost_le (data ++ checksum hrp data)
  simp only [List.length_append, Bch.Proofs.Bech32.checksum_length] at h2
  cases htc : toChars (data ++ checksum hrp data) with
  | none => simp only [bulk]; omega
  | some cs =>
    have := toChars_length _ _ htc
    simp only [List.length_append, Bch.Proofs.Bech32.checksum_length] at this
    simp only [bulk]; omega

theorem Bech32EncodeAlloc_le (hrp data : Bytes) :
    Bech32EncodeAlloc hrp data ≤ 7 * hrp.length + 7 * data.length + 40 := by
  unfold Bech32EncodeAlloc
  cases htc : toChars (data ++ checksum hrp data) with
  | none => simp only; omega
  | some cs =>
    have := toChars_length _ _ htc
    simp only [List.length_append, Bch.Proofs.Bech32.checksum_length] at this
    simp only; omega

end Bech32S

/-! ## 6. bloom `matches` / `add` (bloom/filter.go) -/
section BloomS
open Bch.Model.Bloom

/-- body of the loop of `matches` (filter.go:151-156) -/
def matchesBody (m : Msg) (data : Bytes) (i : Nat) (_u : Unit) : Except Fault (Step Bool Unit) :=
  match hashC m.bits.length m.tweak i data with
  | .error e => .error e
  | .ok idx =>
    match idx? m.bits (idx >>> 3) with
    | .error e => .error e
    | .ok b =>
      if b &&& ((1 : UInt8) <<< UInt8.ofNat (idx &&& 7)) = 0 then .ok (.exit false) else .ok (.next ())

theorem matchesLoopC_loop (m : Msg) (data : Bytes) : ∀ fuel i,
    matchesLoopC m data fuel i = forC (matchesBody m data) (fun _ => true) fuel i () := by
  intro fuel
  induction fuel with
  | zero => intro i; rfl
  | succ fuel ih =>
    intro i
    simp only [matchesLoopC, forC, matchesBody]
    cases hashC m.bits.length m.tweak i data with
    | error e => rfl
    | ok idx =>
      simp only [ok_bind]
      cases idx? m.bits (idx >>> 3) with
      | error e => rfl
      | ok b =>
        simp only [ok_bind]
        split_ifs
        · rfl
        · exact ih _

/-- body of the loop of `add` (filter.go:210-213) -/
def addBody (tweak : UInt32) (data : Bytes) (i : Nat) (bits : Bytes) : Except Fault (Step Bytes Bytes) :=
  match hashC bits.length tweak i data with
  | .error e => .error e
  | .ok idx =>
    match idx? bits (idx >>> 3) with
    | .error e => .error e
    | .ok b =>
      match set? bits (idx >>> 3) (b ||| ((1 : UInt8) <<< UInt8.ofNat (7 &&& idx))) with
      | .error e => .error e
      | .ok bits' => .ok (.next bits')

theorem addLoopC_loop (tweak : UInt32) (data : Bytes) : ∀ fuel i bits,
    addLoopC tweak data fuel i bits = forC (addBody tweak data) id fuel i bits := by
  intro fuel
  induction fuel with
  | zero => intro i bits; rfl
  | succ fuel ih =>
    intro i bits
    simp only [addLoopC, forC, addBody]
    cases hashC bits.length tweak i data with
    | error e => rfl
    | ok idx =>
      simp only [ok_bind]
      cases idx? bits (idx >>> 3) with
      | error e => rfl
      | ok b =>
        simp only [ok_bind]
        cases set? bits (idx >>> 3) (b ||| ((1 : UInt8) <<< UInt8.ofNat (7 &&& idx))) with
        | error e => rfl
        | ok bits' => exact ih _ _

/-- one iteration (U1) evaluates `MurmurHash3` on `data` (U4): `1 + (len(data) + 1)`; the `%`, the index
and the bit operations are part of the iteration -/
def bloomWeight (data : Bytes) : Nat := 1 + bulk data.length

/-- Steps of `matchesMsgC m data`: the empty-array test (U2), then the loop on the fuel `HashFuncs` -/
def matchesMsgCost (m : Msg) (data : Bytes) : Nat :=
  1 + (if m.bits.isEmpty then 0
       else forCost (matchesBody m data) (fun _ _ => bloomWeight data) m.nHash 0 ())

/-- Steps of `MatchesC f data`: the nil test (U2) first -/
def MatchesCost (f : Filter) (data : Bytes) : Nat :=
  1 + match f with
      | none => 0
      | some m => matchesMsgCost m data

def addMsgCost (m : Msg) (data : Bytes) : Nat :=
  1 + (if m.bits.isEmpty then 0
       else forCost (addBody m.tweak data) (fun _ _ => bloomWeight data) m.nHash 0 m.bits)

def addCost (f : Filter) (data : Bytes) : Nat :=
  1 + match f with
      | none => 0
      | some m => addMsgCost m data

/-- ALLOCATION of `matches` / `add`: none — the bit array is tested and updated in place, `MurmurHash3`
works on machine words -/
def bloomAlloc (_f : Filter) (_data : Bytes) : Nat := 0

theorem matchesMsgCost_le (m : Msg) (data : Bytes) : matchesMsgCost m data ≤ 1 + m.nHash * (data.length + 2) := by
  unfold matchesMsgCost
  have := forCost_le (matchesBody m data) (fun _ _ => bloomWeight data) (data.length + 2)
    (fun _ _ => by simp only [bloomWeight, bulk]; omega) m.nHash 0 ()
  split_ifs <;> omega

theorem addMsgCost_le (m : Msg) (data : Bytes) : addMsgCost m data ≤ 1 + m.nHash * (data.length + 2) := by
  unfold addMsgCost
  have := forCost_le (addBody m.tweak data) (fun _ _ => bloomWeight data) (data.length + 2)
    (fun _ _ => by simp only [bloomWeight, bulk]; omega) m.nHash 0 m.bits
  split_ifs <;> omega

/-- under the wire limit `HashFuncs ≤ MaxFilterLoadHashFuncs = 50` -/
theorem MatchesCost_le (f : Filter) (data : Bytes) (nH : Nat) (h : ∀ m, f = some m → m.nHash ≤ nH) :
    MatchesCost f data ≤ 2 + nH * (data.length + 2) := by
  unfold MatchesCost
  cases f with
  | none => simp only; omega
  | some m =>
    have h1 := matchesMsgCost_le m data
    have h2 := Nat.mul_le_mul_right (data.length + 2) (h m rfl)
    simp only; omega

theorem addCost_le (f : Filter) (data : Bytes) (nH : Nat) (h : ∀ m, f = some m → m.nHash ≤ nH) :
    addCost f data ≤ 2 + nH * (data.length + 2) := by
  unfold addCost
  cases f with
  | none => simp only; omega
  | some m =>
    have h1 := addMsgCost_le m data
    have h2 := Nat.mul_le_mul_right (data.length + 2) (h m rfl)
    simp only; omega

end BloomS

/-! ## 7. jsonpb `convertHex` (jsonpb/jsonpb.go:208-263)

COST OF THE MODEL. `convertHexC` is the mutual recursion `convertHexG`/`convObjG`/`convAllG` + `convStrsG`
(35 lines); `convertHexC_eq_model` proves it equal to the model `JsonHex.convertHex`, which has the same four
functions with the same patterns. The cost twin below follows the MODEL's recursion equation by equation:
one unit for every call of `convertHex` (the type switch, U2), one per iteration of a `range` loop (U1),
`len(s) + 1` for every call of the per-string converter (U4). -/
section JsonS
open Bch.Model.JsonHex (J convertHex convObj convStrs convAll)

/-- the `case string:` loop over an array: twin of `convStrs` -/
def convStrsCost : List J → Nat
  | [] => 0
  | .str s :: rest => 1 + bulk s.length + convStrsCost rest
  | .null :: rest => 1 + convStrsCost rest
  | .bool _ :: rest => 1 + convStrsCost rest
  | .num _ :: rest => 1 + convStrsCost rest
  | .arr _ :: rest => 1 + convStrsCost rest
  | .obj _ :: rest => 1 + convStrsCost rest

mutual
/-- twin of `convertHex` -/
def convertHexCost : J → Nat
  | .obj kvs => 1 + convObjCost kvs
  | .arr [] => 1
  | .arr (.str s :: rest) => 1 + 1 + convStrsCost (.str s :: rest)     -- `d[0]`, then the string loop
  | .arr (.obj o :: rest) => 1 + 1 + convAllCost (.obj o :: rest)
  | .arr (.arr a :: rest) => 1 + 1 + convAllCost (.arr a :: rest)
  | .arr (.null :: _) => 1 + 1
  | .arr (.bool _ :: _) => 1 + 1
  | .arr (.num _ :: _) => 1 + 1
  | .null => 1
  | .bool _ => 1
  | .num _ => 1
  | .str _ => 1
/-- twin of `convObj`: the `range d` loop over a map -/
def convObjCost : List (Bytes × J) → Nat
  | [] => 0
  | (_, .str s) :: rest => 1 + bulk s.length + convObjCost rest
  | (_, .obj o) :: rest => 1 + (1 + convObjCost o) + convObjCost rest          -- `convertHex(tv)`
  | (_, .arr a) :: rest => 1 + convertHexCost (.arr a) + convObjCost rest      -- `convertHex(tv)`
  | (_, .null) :: rest => 1 + convObjCost rest                                 -- `delete(d, k)`
  | (_, .bool _) :: rest => 1 + convObjCost rest
  | (_, .num _) :: rest => 1 + convObjCost rest
/-- twin of `convAll`: `for _, t := range d { convertHex(t) }` -/
def convAllCost : List J → Nat
  | [] => 0
  | j :: rest => 1 + convertHexCost j + convAllCost rest
end

mutual
/-- size of a JSON value: its nodes plus the bytes of its string values -/
def jsize : J → Nat
  | .obj kvs => 1 + jsizeObj kvs
  | .arr l => 1 + jsizeList l
  | .str s => 1 + s.length
  | .null => 1
  | .bool _ => 1
  | .num _ => 1
def jsizeObj : List (Bytes × J) → Nat
  | [] => 0
  | (_, j) :: rest => jsize j + jsizeObj rest
def jsizeList : List J → Nat
  | [] => 0
  | j :: rest => jsize j + jsizeList rest
end

theorem convStrsCost_le : ∀ l : List J, convStrsCost l ≤ 3 * jsizeList l
  | [] => by simp [convStrsCost, jsizeList]
  | .str s :: rest => by
    have := convStrsCost_le rest
    simp only [convStrsCost, jsizeList, jsize, bulk]; omega
  | .null :: rest => by
    have := convStrsCost_le rest
    simp only [convStrsCost, jsizeList, jsize]; omega
  | .bool _ :: rest => by
    have := convStrsCost_le rest
    simp only [convStrsCost, jsizeList, jsize]; omega
  | .num _ :: rest => by
    have := convStrsCost_le rest
    simp only [convStrsCost, jsizeList, jsize]; omega
  | .arr a :: rest => by
    have := convStrsCost_le rest
    simp only [convStrsCost, jsizeList, jsize]; omega
  | .obj o :: rest => by
    have := convStrsCost_le rest
    simp only [convStrsCost, jsizeList, jsize]; omega

mutual
theorem convertHexCost_le : ∀ j : J, convertHexCost j + 1 ≤ 3 * jsize j
  | .obj kvs => by
    have := convObjCost_le kvs
    simp only [convertHexCost, jsize]; omega
  | .arr [] => by simp [convertHexCost, jsize, jsizeList]
  | .arr (.str s :: rest) => by
    have := convStrsCost_le (.str s :: rest)
    simp only [convertHexCost, jsize]; omega
  | .arr (.obj o :: rest) => by
    have := convAllCost_le (.obj o :: rest)
    simp only [convertHexCost, jsize]; omega
  | .arr (.arr a :: rest) => by
    have := convAllCost_le (.arr a :: rest)
    simp only [convertHexCost, jsize]; omega
  | .arr (.null :: rest) => by simp only [convertHexCost, jsize, jsizeList]; omega
  | .arr (.bool _ :: rest) => by simp only [convertHexCost, jsize, jsizeList]; omega
  | .arr (.num _ :: rest) => by simp only [convertHexCost, jsize, jsizeList]; omega
  | .null => by simp [convertHexCost, jsize]
  | .bool _ => by simp [convertHexCost, jsize]
  | .num _ => by simp [convertHexCost, jsize]
  | .str s => by simp only [convertHexCost, jsize]; omega
theorem convObjCost_le : ∀ kvs : List (Bytes × J), convObjCost kvs ≤ 3 * jsizeObj kvs
  | [] => by simp [convObjCost, jsizeObj]
  | (_, .str s) :: rest => by
    have := convObjCost_le rest
    simp only [convObjCost, jsizeObj, jsize, bulk]; omega
  | (_, .obj o) :: rest => by
    have := convObjCost_le rest
    have := convObjCost_le o
    simp only [convObjCost, jsizeObj, jsize]; omega
  | (_, .arr a) :: rest => by
    have := convObjCost_le rest
    have := convertHexCost_le (.arr a)
    simp only [convObjCost, jsizeObj]; omega
  | (_, .null) :: rest => by
    have := convObjCost_le rest
    simp only [convObjCost, jsizeObj, jsize]; omega
  | (_, .bool _) :: rest => by
    have := convObjCost_le rest
    simp only [convObjCost, jsizeObj, jsize]; omega
  | (_, .num _) :: rest => by
    have := convObjCost_le rest
    simp only [convObjCost, jsizeObj, jsize]; omega
theorem convAllCost_le : ∀ l : List J, convAllCost l ≤ 3 * jsizeList l
  | [] => by simp [convAllCost, jsizeList]
  | j :: rest => by
    have := convAllCost_le rest
    have := convertHexCost_le j
    simp only [convAllCost, jsizeList]; omega
end

end JsonS

end Bch.Proofs.CheckedCost
