import Bch.Proofs.Polymod
/-!
# C03: the two enumeration facts

This is the only file of the project that uses `native_decide` (sanctioned exception to rule 2 of the
proof guide): kernel reduction cannot run the 5.9·10⁶-leaf search. The two facts `*_slices` below are
evaluated by the Lean interpreter/compiler; each adds one axiom `…._native.native_decide.ax_*`.
Everything derived from them (`cashaddr_indep_112_5`, `bech32_indep_89_4`) is kernel-checked.

Cost with the plain `lean_lib` (IR interpreter): about 6 CPU-minutes, 45–55 s wall-clock (the thread pool
gives about 8-fold parallelism here). With the evaluator module `Bch.Proofs.C03Eval` in a `lean_lib` that
has `precompileModules = true` this file builds in about 2 s.

The search is cut into ranges of the second-lowest chosen position (`sliceList`); `parAll` runs the ranges
as parallel tasks inside the one evaluation, because separate `native_decide` theorems of one file are
elaborated sequentially (measured).
-/
namespace Bch.Proofs.C03Enum
open Bch.Proofs.Polymod

/-- widths of the ranges of the second position, CashAddr (positions 1..111), balanced by leaf count -/
def rangesC : List Nat := [1, 1, 1, 1, 1, 1, 1, 1, 1, 1, 1, 2, 1, 1, 2, 1, 1, 2, 2, 1, 2, 2, 2, 3, 2, 3, 3, 4, 4, 6, 9, 47]
/-- widths of the ranges of the second position, bech32 (positions 1..88) -/
def rangesB : List Nat := [2, 2, 2, 2, 3, 2, 3, 2, 3, 4, 3, 5, 5, 6, 9, 35]

/-- enumeration fact 1 (evaluated, not kernel-reduced) -/
theorem cashaddr_slices : parAll (sliceList (cols stepC 112) 112 3 1 rangesC) = true := by
  native_decide

/-- enumeration fact 2 (evaluated, not kernel-reduced) -/
theorem bech32_slices : parAll (sliceList (cols stepB 89) 89 2 1 rangesB) = true := by
  native_decide

/-- every ≤ 5 of the last 112 CashAddr positions (containing the last one) have independent columns -/
theorem cashaddr_indep_112_5 : checkIndep (cols stepC 112) 112 5 = true := by
  have h := cashaddr_slices
  rw [parAll_eq] at h
  exact sliceList_all (cols stepC 112) 112 3 rangesC.tail (rangesC.headD 0) 1 h

/-- every ≤ 4 of the last 89 bech32 positions (containing the last one) have independent columns -/
theorem bech32_indep_89_4 : checkIndep (cols stepB 89) 89 4 = true := by
  have h := bech32_slices
  rw [parAll_eq] at h
  exact sliceList_all (cols stepB 89) 89 2 rangesB.tail (rangesB.headD 0) 1 h

end Bch.Proofs.C03Enum
