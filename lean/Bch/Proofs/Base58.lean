import Mathlib.Data.Nat.Digits.Lemmas
import Bch.Model.Wif
/-
Helper lemmas for C07 (Base58 / Base58Check half) and C06 (WIF).
Nothing here changes a model definition; every lemma is about the model's own functions.
-/
namespace Bch.Proofs.Base58
open Bch Bch.Model Bch.Model.Base58

/-! ## generic "number of leading copies of `a`" -/

/-- number of leading elements equal to `a` -/
def lead {α : Type} [DecidableEq α] (a : α) : List α → Nat
  | [] => 0
  | x :: xs => if x = a then lead a xs + 1 else 0

section lead
variable {α : Type} [DecidableEq α] (a : α)

theorem leadingOnes_eq (s : Bytes) : leadingOnes s = lead 49 s := by
  induction s with
  | nil => rfl
  | cons c cs ih => simp [leadingOnes, lead, ih]

theorem leadingZeros_eq (s : Bytes) : leadingZeros s = lead 0 s := by
  induction s with
  | nil => rfl
  | cons c cs ih => simp [leadingZeros, lead, ih]

theorem lead_le_length (l : List α) : lead a l ≤ l.length := by
  induction l with
  | nil => simp [lead]
  | cons x xs ih => simp only [lead]; split <;> (simp; try omega)

/-- every list is its run of leading `a`s followed by the rest -/
theorem lead_split (l : List α) : l = List.replicate (lead a l) a ++ l.drop (lead a l) := by
  induction l with
  | nil => simp [lead]
  | cons x xs ih =>
    simp only [lead]
    split
    · next h => subst h; simp [List.replicate_succ]; exact ih
    · simp

/-- the rest does not start with `a` -/
theorem head?_drop_lead (l : List α) : (l.drop (lead a l)).head? ≠ some a := by
  induction l with
  | nil => simp [lead]
  | cons x xs ih =>
    simp only [lead]
    split
    · simpa using ih
    · next h => simpa using h

theorem lead_of_head? {l : List α} (h : l.head? ≠ some a) : lead a l = 0 := by
  cases l with
  | nil => rfl
  | cons x xs => simp only [lead]; split
                 · next hx => subst hx; simp at h
                 · rfl

theorem lead_replicate_append (k : Nat) (r : List α) :
    lead a (List.replicate k a ++ r) = k + lead a r := by
  induction k with
  | zero => simp
  | succ k ih => simp [List.replicate_succ, lead, ih]; omega

theorem lead_replicate_append_of_head? (k : Nat) {r : List α} (h : r.head? ≠ some a) :
    lead a (List.replicate k a ++ r) = k := by
  rw [lead_replicate_append, lead_of_head? a h]; rfl

theorem lead_map {β : Type} [DecidableEq β] (f : α → β) (l : List α)
    (hf : ∀ x ∈ l, f x = f a → x = a) : lead (f a) (l.map f) = lead a l := by
  induction l with
  | nil => rfl
  | cons x xs ih =>
    have ih' := ih (fun y hy => hf y (List.mem_cons_of_mem _ hy))
    simp only [List.map_cons, lead]
    by_cases hx : x = a
    · subst hx; simp [ih']
    · have : f x ≠ f a := fun h => hx (hf x (List.mem_cons_self) h)
      simp [hx, this]

end lead

/-! ## big-endian bytes ↔ `Nat` -/

theorem toNatBE_foldl (acc : Nat) (b : Bytes) :
    b.foldl (fun acc x => acc * 256 + x.toNat) acc = acc * 256 ^ b.length + Bytes.toNatBE b := by
  unfold Bytes.toNatBE
  induction b using List.reverseRecOn with
  | nil => simp
  | append_singleton l x ih =>
    simp only [List.foldl_append, List.foldl_cons, List.foldl_nil, List.length_append,
      List.length_singleton, Nat.pow_succ]
    rw [ih]; ring

@[simp] theorem toNatBE_nil : Bytes.toNatBE [] = 0 := rfl

theorem toNatBE_append_singleton (b : Bytes) (x : UInt8) :
    Bytes.toNatBE (b ++ [x]) = Bytes.toNatBE b * 256 + x.toNat := by
  simp [Bytes.toNatBE, List.foldl_append]

theorem toNatBE_append (a b : Bytes) :
    Bytes.toNatBE (a ++ b) = Bytes.toNatBE a * 256 ^ b.length + Bytes.toNatBE b := by
  conv => lhs; unfold Bytes.toNatBE
  rw [List.foldl_append, toNatBE_foldl]; rfl

theorem toNatBE_replicate_zero (k : Nat) : Bytes.toNatBE (List.replicate k 0) = 0 := by
  induction k with
  | zero => rfl
  | succ k ih => rw [List.replicate_succ', toNatBE_append_singleton, ih]; rfl

theorem toNatBE_replicate_zero_append (k : Nat) (b : Bytes) :
    Bytes.toNatBE (List.replicate k 0 ++ b) = Bytes.toNatBE b := by
  rw [toNatBE_append, toNatBE_replicate_zero]; simp

theorem toNatBE_lt (b : Bytes) : Bytes.toNatBE b < 256 ^ b.length := by
  induction b using List.reverseRecOn with
  | nil => simp
  | append_singleton l x ih =>
    rw [toNatBE_append_singleton, List.length_append, List.length_singleton, Nat.pow_succ]
    have := x.toNat_lt
    omega

theorem ofNatMin_zero : Bytes.ofNatMin 0 = [] := by
  rw [Bytes.ofNatMin]; simp

theorem ofNatMin_pos {n : Nat} (h : n ≠ 0) :
    Bytes.ofNatMin n = Bytes.ofNatMin (n / 256) ++ [UInt8.ofNat (n % 256)] := by
  rw [Bytes.ofNatMin]; simp [h]

/-- `big.Int.SetBytes(x.Bytes()) = x` -/
theorem toNatBE_ofNatMin (n : Nat) : Bytes.toNatBE (Bytes.ofNatMin n) = n := by
  induction n using Nat.strongRecOn with
  | ind n ih =>
    by_cases h : n = 0
    · subst h; rw [ofNatMin_zero]; rfl
    · rw [ofNatMin_pos h, toNatBE_append_singleton, ih (n / 256) (by omega)]
      simp [UInt8.toNat_ofNat']
      omega

/-- the minimal representation never starts with a zero byte -/
theorem head?_ofNatMin (n : Nat) : (Bytes.ofNatMin n).head? ≠ some 0 := by
  induction n using Nat.strongRecOn with
  | ind n ih =>
    by_cases h : n = 0
    · subst h; rw [ofNatMin_zero]; simp
    · rw [ofNatMin_pos h]
      by_cases h2 : n / 256 = 0
      · rw [h2, ofNatMin_zero]
        simp only [List.nil_append, List.head?_cons, ne_eq, Option.some.injEq]
        intro hc
        have := congrArg UInt8.toNat hc
        simp [UInt8.toNat_ofNat'] at this
        omega
      · have := ih (n / 256) (by omega)
        rw [ofNatMin_pos h2] at this ⊢
        simpa using this

/-- a byte string without leading zero is the minimal representation of its value -/
theorem ofNatMin_toNatBE_of_head? (b : Bytes) (h : b.head? ≠ some 0) :
    Bytes.ofNatMin (Bytes.toNatBE b) = b := by
  induction b using List.reverseRecOn with
  | nil => exact ofNatMin_zero
  | append_singleton l x ih =>
    have hl : l.head? ≠ some 0 := by
      cases l with
      | nil => simp
      | cons y ys => simpa using h
    have hx := x.toNat_lt
    rw [toNatBE_append_singleton]
    have hne : Bytes.toNatBE l * 256 + x.toNat ≠ 0 := by
      cases l with
      | nil =>
        simp only [List.nil_append, List.head?_cons, ne_eq, Option.some.injEq] at h
        intro hc
        apply h
        apply UInt8.toNat_inj.mp
        simp at hc ⊢
        omega
      | cons y ys =>
        intro hc
        have h0 : Bytes.toNatBE (y :: ys) = 0 := by omega
        have := ih hl
        rw [h0, ofNatMin_zero] at this
        simp at this
    rw [ofNatMin_pos hne]
    have h1 : (Bytes.toNatBE l * 256 + x.toNat) / 256 = Bytes.toNatBE l := by omega
    have h2 : (Bytes.toNatBE l * 256 + x.toNat) % 256 = x.toNat := by omega
    rw [h1, h2, ih hl]
    simp

/-- `x.SetBytes(b).Bytes()` is `b` with its leading zero bytes stripped -/
theorem ofNatMin_toNatBE (b : Bytes) :
    Bytes.ofNatMin (Bytes.toNatBE b) = b.drop (lead 0 b) := by
  conv => lhs; rw [lead_split 0 b, toNatBE_replicate_zero_append]
  exact ofNatMin_toNatBE_of_head? _ (head?_drop_lead 0 b)

theorem length_ofNatMin_toNatBE (b : Bytes) :
    (Bytes.ofNatMin (Bytes.toNatBE b)).length = b.length - lead 0 b := by
  rw [ofNatMin_toNatBE]; simp

/-- zero-padding the minimal representation back to the original length restores the bytes
(the `paddedAppend` fact behind WIF, including keys with leading zero bytes) -/
theorem pad_ofNatMin_toNatBE (b : Bytes) :
    List.replicate (b.length - (Bytes.ofNatMin (Bytes.toNatBE b)).length) 0
      ++ Bytes.ofNatMin (Bytes.toNatBE b) = b := by
  have hle := lead_le_length 0 b
  rw [length_ofNatMin_toNatBE, ofNatMin_toNatBE]
  have : b.length - (b.length - lead 0 b) = lead 0 b := by omega
  rw [this]
  exact (lead_split 0 b).symm

/-! ### fixed-width conversions -/

theorem toNatBE_reverse (l : Bytes) : Bytes.toNatBE l.reverse = Bytes.toNatLE l := by
  induction l with
  | nil => rfl
  | cons x xs ih => rw [List.reverse_cons, toNatBE_append_singleton, ih, Bytes.toNatLE]; omega

theorem length_ofNatLE (n x : Nat) : (Bytes.ofNatLE n x).length = n := by
  induction n generalizing x with
  | zero => rfl
  | succ n ih => simp [Bytes.ofNatLE, ih]

@[simp] theorem length_ofNatBE (n x : Nat) : (Bytes.ofNatBE n x).length = n := by
  simp [Bytes.ofNatBE, length_ofNatLE]

theorem toNatLE_ofNatLE (n x : Nat) : Bytes.toNatLE (Bytes.ofNatLE n x) = x % 256 ^ n := by
  induction n generalizing x with
  | zero => simp [Bytes.ofNatLE, Bytes.toNatLE, Nat.mod_one]
  | succ n ih =>
    simp only [Bytes.ofNatLE, Bytes.toNatLE, ih, UInt8.toNat_ofNat']
    rw [Nat.pow_succ 256 n, Nat.mul_comm (256 ^ n) 256, Nat.mod_mul]
    have : x % 256 % (2 ^ 7 * 2) = x % 256 := Nat.mod_eq_of_lt (by omega)
    omega

theorem toNatBE_ofNatBE (n x : Nat) : Bytes.toNatBE (Bytes.ofNatBE n x) = x % 256 ^ n := by
  rw [Bytes.ofNatBE, toNatBE_reverse, toNatLE_ofNatLE]

theorem ofNatLE_toNatLE (l : Bytes) : Bytes.ofNatLE l.length (Bytes.toNatLE l) = l := by
  induction l with
  | nil => rfl
  | cons x xs ih =>
    have hx := x.toNat_lt
    simp only [List.length_cons, Bytes.ofNatLE, Bytes.toNatLE]
    have h1 : (x.toNat + 256 * Bytes.toNatLE xs) % 256 = x.toNat := by omega
    have h2 : (x.toNat + 256 * Bytes.toNatLE xs) / 256 = Bytes.toNatLE xs := by omega
    rw [h1, h2, ih]; simp

/-- `ofNatBE` inverts `toNatBE` at the right width -/
theorem ofNatBE_toNatBE (b : Bytes) : Bytes.ofNatBE b.length (Bytes.toNatBE b) = b := by
  have := ofNatLE_toNatLE b.reverse
  rw [← toNatBE_reverse, List.reverse_reverse, List.length_reverse] at this
  rw [Bytes.ofNatBE, this, List.reverse_reverse]

/-- for `d < 256^n` zero-padding `d.Bytes()` to `n` bytes is the `n`-byte big-endian form -/
theorem pad_ofNatMin (n d : Nat) (h : d < 256 ^ n) :
    List.replicate (n - (Bytes.ofNatMin d).length) 0 ++ Bytes.ofNatMin d = Bytes.ofNatBE n d := by
  have hv : Bytes.toNatBE (Bytes.ofNatBE n d) = d := by
    rw [toNatBE_ofNatBE, Nat.mod_eq_of_lt h]
  have := pad_ofNatMin_toNatBE (Bytes.ofNatBE n d)
  rwa [hv, length_ofNatBE] at this

theorem length_ofNatMin_le (n d : Nat) (h : d < 256 ^ n) : (Bytes.ofNatMin d).length ≤ n := by
  have hv : Bytes.toNatBE (Bytes.ofNatBE n d) = d := by
    rw [toNatBE_ofNatBE, Nat.mod_eq_of_lt h]
  have := length_ofNatMin_toNatBE (Bytes.ofNatBE n d)
  rw [hv, length_ofNatBE] at this
  omega

theorem lt_of_length_ofNatMin_le (n d : Nat) (h : (Bytes.ofNatMin d).length ≤ n) : d < 256 ^ n := by
  have h1 := toNatBE_lt (Bytes.ofNatMin d)
  rw [toNatBE_ofNatMin] at h1
  exact Nat.lt_of_lt_of_le h1 (Nat.pow_le_pow_right (by decide) h)

/-! ## the alphabet table -/

/-- the 58 bytes of the Bitcoin alphabet, written out -/
def alphaList : Bytes :=
  [49,50,51,52,53,54,55,56,57,65,66,67,68,69,70,71,72,74,75,76,77,78,80,81,82,83,84,85,86,87,88,89,
   90,97,98,99,100,101,102,103,104,105,106,107,109,110,111,112,113,114,115,116,117,118,119,120,121,122]

theorem alphabet_eq : alphabet = alphaList := by decide +kernel

theorem alphabet_length : alphabet.length = 58 := by rw [alphabet_eq]; rfl

theorem b58_alphaAt {d : Nat} (h : d < 58) : b58 (alphaAt d) = some d := by
  have : ∀ d : Fin 58, b58 (alphaAt d) = some d.val := by
    simp only [b58, alphaAt, alphabet_eq]; decide
  exact this ⟨d, h⟩

theorem b58_some {c : UInt8} {d : Nat} (h : b58 c = some d) : d < 58 ∧ alphaAt d = c := by
  unfold b58 at h
  simp only at h
  split at h
  · next hi =>
    injection h with h
    subst h
    refine ⟨hi, ?_⟩
    unfold alphaAt
    have hi' : List.idxOf c alphabet < alphabet.length := by rw [alphabet_length]; exact hi
    rw [List.getD_eq_getElem?_getD, List.getElem?_eq_getElem hi', Option.getD_some]
    exact List.getElem_idxOf hi'
  · cases h

theorem alphaAt_zero : alphaAt 0 = 49 := by
  simp [alphaAt, alphabet_eq, alphaList]

theorem alphaAt_eq_zero {d : Nat} (h : d < 58) (h2 : alphaAt d = alphaAt 0) : d = 0 := by
  have h3 := b58_alphaAt h
  rw [h2, b58_alphaAt (by decide)] at h3
  injection h3 with h3; exact h3.symm

/-! ## `decodeNat` -/

/-- the loop body of `decodeNat` -/
def step (acc : Option Nat) (c : UInt8) : Option Nat :=
  match acc, b58 c with
  | some a, some d => some (a * 58 + d)
  | _, _ => none

theorem decodeNat_eq (s : Bytes) : decodeNat s = s.foldl step (some 0) := rfl

theorem foldl_step_none (s : Bytes) : s.foldl step none = none := by
  induction s with
  | nil => rfl
  | cons c cs ih => simpa [step] using ih

theorem foldl_step_map (ds : List Nat) (h : ∀ d ∈ ds, d < 58) (a : Nat) :
    (ds.map alphaAt).foldl step (some a) = some (ds.foldl (fun a d => a * 58 + d) a) := by
  induction ds generalizing a with
  | nil => rfl
  | cons d ds ih =>
    have hd : d < 58 := h d List.mem_cons_self
    simp only [List.map_cons, List.foldl_cons, step, b58_alphaAt hd]
    exact ih (fun x hx => h x (List.mem_cons_of_mem _ hx)) _

theorem foldl_ofDigits (ds : List Nat) :
    ds.foldl (fun a d => a * 58 + d) 0 = Nat.ofDigits 58 ds.reverse := by
  induction ds using List.reverseRecOn with
  | nil => rfl
  | append_singleton l x ih =>
    simp only [List.foldl_append, List.foldl_cons, List.foldl_nil, List.reverse_append,
      List.reverse_cons, List.reverse_nil, List.nil_append, List.cons_append, Nat.ofDigits_cons, ih]
    omega

theorem decodeNat_map_alphaAt (ds : List Nat) (h : ∀ d ∈ ds, d < 58) :
    decodeNat (ds.map alphaAt) = some (Nat.ofDigits 58 ds.reverse) := by
  rw [decodeNat_eq, foldl_step_map ds h, foldl_ofDigits]

theorem decodeNat_foreign (s : Bytes) (h : ∃ c ∈ s, b58 c = none) : decodeNat s = none := by
  rw [decodeNat_eq]
  generalize some 0 = acc
  induction s generalizing acc with
  | nil => simp at h
  | cons c cs ih =>
    obtain ⟨x, hx, hn⟩ := h
    rw [List.foldl_cons]
    rcases List.mem_cons.mp hx with rfl | hx
    · have : step acc x = none := by cases acc <;> simp [step, hn]
      rw [this, foldl_step_none]
    · exact ih ⟨x, hx, hn⟩ _

/-- digit values of a string (foreign bytes are mapped to 0; only used for alphabet strings) -/
def vals (s : Bytes) : List Nat := s.map (fun c => (b58 c).getD 0)

theorem vals_lt (s : Bytes) : ∀ d ∈ vals s, d < 58 := by
  intro d hd
  simp only [vals, List.mem_map] at hd
  obtain ⟨c, _, rfl⟩ := hd
  cases hc : b58 c with
  | none => simp
  | some v => simpa using (b58_some hc).1

theorem map_alphaAt_vals (s : Bytes) (h : ∀ c ∈ s, (b58 c).isSome) : (vals s).map alphaAt = s := by
  simp only [vals, List.map_map]
  conv => rhs; rw [← List.map_id s]
  apply List.map_congr_left
  intro c hc
  have := h c hc
  cases hb : b58 c with
  | none => simp [hb] at this
  | some v => simpa [hb] using (b58_some hb).2

theorem decodeNat_isSome_iff (s : Bytes) :
    (decodeNat s).isSome ↔ ∀ c ∈ s, (b58 c).isSome := by
  constructor
  · intro h c hc
    cases hb : b58 c with
    | none => rw [decodeNat_foreign s ⟨c, hc, hb⟩] at h; simp at h
    | some v => rfl
  · intro h
    rw [← map_alphaAt_vals s h, decodeNat_map_alphaAt _ (vals_lt s)]; rfl

/-! ## `Encode` / `Decode` in closed form -/

theorem digitsLE_eq (x : Nat) : digitsLE x = Nat.digits 58 x := by
  induction x using Nat.strongRecOn with
  | ind x ih =>
    rw [digitsLE]
    by_cases h : x = 0
    · subst h; simp
    · rw [dif_neg h, Nat.digits_def' (by decide) (Nat.pos_of_ne_zero h), ih (x / 58) (by omega)]

theorem Encode_eq (b : Bytes) :
    Encode b = (List.replicate (lead 0 b) 0
      ++ (Nat.digits 58 (Bytes.toNatBE b)).reverse).map alphaAt := by
  simp [Encode, digitsLE_eq, leadingZeros_eq, alphaAt_zero]

theorem Decode_foreign (s : Bytes) (h : ∃ c ∈ s, b58 c = none) : Decode s = [] := by
  simp [Decode, decodeNat_foreign s h]

theorem Decode_map_alphaAt (ds : List Nat) (h : ∀ d ∈ ds, d < 58) :
    Decode (ds.map alphaAt) = List.replicate (lead 0 ds) 0
      ++ Bytes.ofNatMin (Nat.ofDigits 58 ds.reverse) := by
  have hl : leadingOnes (ds.map alphaAt) = lead 0 ds := by
    rw [leadingOnes_eq, ← alphaAt_zero]
    exact lead_map 0 alphaAt ds (fun x hx hxa => alphaAt_eq_zero (h x hx) hxa)
  simp [Decode, decodeNat_map_alphaAt ds h, hl]

theorem head?_reverse_digits (n : Nat) : (Nat.digits 58 n).reverse.head? ≠ some 0 := by
  rw [List.head?_reverse]
  by_cases h : n = 0
  · subst h; simp
  · rw [List.getLast?_eq_some_getLast (Nat.digits_ne_nil_iff_ne_zero.mpr h)]
    simpa using Nat.getLast_digit_ne_zero 58 h

theorem Decode_Encode (b : Bytes) : Decode (Encode b) = b := by
  rw [Encode_eq, Decode_map_alphaAt]
  · rw [lead_replicate_append_of_head? 0 _ (head?_reverse_digits _)]
    simp only [List.reverse_append, List.reverse_reverse, List.reverse_replicate,
      Nat.ofDigits_append_replicate_zero, Nat.ofDigits_digits]
    rw [ofNatMin_toNatBE]
    exact (lead_split 0 b).symm
  · intro d hd
    rcases List.mem_append.mp hd with hd | hd
    · rw [List.eq_of_mem_replicate hd]; decide
    · exact Nat.digits_lt_base (by decide) (List.mem_reverse.mp hd)

theorem Encode_Decode_map_alphaAt (ds : List Nat) (h : ∀ d ∈ ds, d < 58) :
    Encode (Decode (ds.map alphaAt)) = ds.map alphaAt := by
  rw [Decode_map_alphaAt ds h, Encode_eq,
    lead_replicate_append_of_head? 0 _ (head?_ofNatMin _),
    toNatBE_replicate_zero_append, toNatBE_ofNatMin]
  congr 1
  have hs := lead_split 0 ds
  have hh := head?_drop_lead 0 ds
  generalize lead 0 ds = k at hs hh ⊢
  generalize hr : ds.drop k = r at hs hh
  have hr_lt : ∀ d ∈ r.reverse, d < 58 := by
    intro d hd
    apply h d
    rw [hs]; exact List.mem_append_right _ (List.mem_reverse.mp hd)
  have hlast : ∀ hne : r.reverse ≠ [], r.reverse.getLast hne ≠ 0 := by
    intro hne
    have hrne : r ≠ [] := by simpa using hne
    rw [List.getLast_reverse]
    intro hc
    apply hh
    rw [List.head?_eq_some_head hrne, hc]
  conv => lhs; rw [hs, List.reverse_append, List.reverse_replicate,
    Nat.ofDigits_append_replicate_zero, Nat.digits_ofDigits 58 (by decide) _ hr_lt hlast,
    List.reverse_reverse]
  exact hs.symm

theorem Encode_Decode (s : Bytes) (h : ∀ c ∈ s, (b58 c).isSome) : Encode (Decode s) = s := by
  have := Encode_Decode_map_alphaAt (vals s) (vals_lt s)
  rwa [map_alphaAt_vals s h] at this

theorem Encode_alphabet (b : Bytes) : ∀ c ∈ Encode b, (b58 c).isSome := by
  intro c hc
  rw [Encode_eq, List.mem_map] at hc
  obtain ⟨d, hd, rfl⟩ := hc
  have hd58 : d < 58 := by
    rcases List.mem_append.mp hd with hd | hd
    · rw [List.eq_of_mem_replicate hd]; decide
    · exact Nat.digits_lt_base (by decide) (List.mem_reverse.mp hd)
  rw [b58_alphaAt hd58]; rfl

theorem leadingOnes_Encode (b : Bytes) : leadingOnes (Encode b) = leadingZeros b := by
  rw [leadingOnes_eq, leadingZeros_eq, Encode_eq, ← alphaAt_zero, lead_map 0 alphaAt]
  · exact lead_replicate_append_of_head? 0 _ (head?_reverse_digits _)
  · intro d hd hxa
    refine alphaAt_eq_zero ?_ hxa
    rcases List.mem_append.mp hd with hd | hd
    · rw [List.eq_of_mem_replicate hd]; decide
    · exact Nat.digits_lt_base (by decide) (List.mem_reverse.mp hd)

theorem leadingZeros_Decode (s : Bytes) (h : ∀ c ∈ s, (b58 c).isSome) :
    leadingZeros (Decode s) = leadingOnes s := by
  conv => rhs; rw [← Encode_Decode s h]
  exact (leadingOnes_Encode _).symm

/-- a non-empty decoding can only come from a string over the alphabet -/
theorem alphabet_of_Decode_ne_nil (s : Bytes) (h : Decode s ≠ []) : ∀ c ∈ s, (b58 c).isSome := by
  intro c hc
  cases hb : b58 c with
  | none => exact absurd (Decode_foreign s ⟨c, hc, hb⟩) h
  | some v => rfl

theorem Encode_Decode_of_ne_nil (s : Bytes) (h : Decode s ≠ []) : Encode (Decode s) = s :=
  Encode_Decode s (alphabet_of_Decode_ne_nil s h)

/-! ## Base58Check -/
section Check
variable (H : Bytes → Bytes)

/-- splitting off a trailing block of known length -/
theorem take_drop_tail {a c : Bytes} {k : Nat} (hc : c.length = k) :
    (a ++ c).take ((a ++ c).length - k) = a ∧ (a ++ c).drop ((a ++ c).length - k) = c := by
  have : (a ++ c).length - k = a.length := by simp [hc]
  rw [this]
  exact ⟨List.take_left' rfl, List.drop_left' rfl⟩

theorem CheckDecode_ok_iff (s p : Bytes) (v : UInt8) :
    CheckDecode H s = .ok (p, v) ↔
      Decode s = v :: p ++ checksum H (v :: p) ∧ (checksum H (v :: p)).length = 4 := by
  unfold CheckDecode
  simp only
  generalize Decode s = d
  constructor
  · intro h
    split at h
    · cases h
    · next hlen =>
      split at h
      · cases h
      · next hck =>
        have hck : checksum H (d.take (d.length - 4)) = d.drop (d.length - 4) := by simpa using hck
        injection h with h
        injection h with hp hv
        cases d with
        | nil => simp at hlen
        | cons x t =>
          simp only [List.headD_cons] at hv
          subst hv
          have h1 : (x :: t).length - 4 = (t.length - 4) + 1 := by simp at hlen ⊢; omega
          rw [h1, List.take_succ_cons] at hp hck
          simp only [List.drop_succ_cons, List.drop_zero] at hp
          subst hp
          constructor
          · rw [hck, ← h1]
            have := List.take_append_drop ((x :: t).length - 4) (x :: t)
            rw [h1, List.take_succ_cons] at this
            rw [h1]; exact this.symm
          · rw [hck]; simp at hlen ⊢; omega
  · rintro ⟨hd, hlen⟩
    subst hd
    have hsplit := take_drop_tail (a := v :: p) hlen
    rw [hsplit.1, hsplit.2]
    simp [hlen]

theorem CheckDecode_invalidFormat_iff (s : Bytes) :
    CheckDecode H s = .error .invalidFormat ↔ (Decode s).length < 5 := by
  unfold CheckDecode
  simp only
  split
  · simp [*]
  · split <;> simp [*]

theorem CheckDecode_checksum_iff (s : Bytes) :
    CheckDecode H s = .error .checksum ↔
      5 ≤ (Decode s).length ∧
      (Decode s).drop ((Decode s).length - 4)
        ≠ checksum H ((Decode s).take ((Decode s).length - 4)) := by
  unfold CheckDecode
  simp only
  split
  · next h => simp; omega
  · next h =>
    split
    · next h2 => simp; exact ⟨by omega, fun h3 => h2 h3.symm⟩
    · next h2 =>
      have h2' : checksum H ((Decode s).take ((Decode s).length - 4))
          = (Decode s).drop ((Decode s).length - 4) := by simpa using h2
      simp [h2']

theorem CheckDecode_ok_iff_tail (s : Bytes) (r : Bytes × UInt8) :
    CheckDecode H s = .ok r ↔
      5 ≤ (Decode s).length ∧
      (Decode s).drop ((Decode s).length - 4)
        = checksum H ((Decode s).take ((Decode s).length - 4)) ∧
      r = (((Decode s).take ((Decode s).length - 4)).drop 1, (Decode s).headD 0) := by
  unfold CheckDecode
  simp only
  split
  · next h => simp; omega
  · next h =>
    split
    · next h2 => simp; intro _ h3; exact absurd h3.symm h2
    · next h2 =>
      have h2 : checksum H ((Decode s).take ((Decode s).length - 4))
          = (Decode s).drop ((Decode s).length - 4) := by simpa using h2
      constructor
      · intro h3; injection h3 with h3; exact ⟨by omega, h2.symm, h3.symm⟩
      · rintro ⟨_, _, h3⟩; rw [h3]

theorem CheckDecode_CheckEncode (payload : Bytes) (v : UInt8)
    (h : 4 ≤ (H (v :: payload)).length) :
    CheckDecode H (CheckEncode H payload v) = .ok (payload, v) := by
  rw [CheckDecode_ok_iff]
  simp only [CheckEncode, Decode_Encode, List.cons_append, checksum, List.length_take]
  exact ⟨trivial, by omega⟩

theorem CheckDecode_CheckEncode_iff (payload : Bytes) (v : UInt8) :
    CheckDecode H (CheckEncode H payload v) = .ok (payload, v) ↔ 4 ≤ (H (v :: payload)).length := by
  rw [CheckDecode_ok_iff]
  simp only [CheckEncode, Decode_Encode, List.cons_append, checksum, List.length_take, true_and]
  omega

theorem CheckDecode_canonical (s p : Bytes) (v : UInt8) (h : CheckDecode H s = .ok (p, v)) :
    CheckEncode H p v = s := by
  rw [CheckDecode_ok_iff] at h
  have hne : Decode s ≠ [] := by rw [h.1]; simp
  have := Encode_Decode_of_ne_nil s hne
  rw [h.1] at this
  simpa [CheckEncode] using this

end Check

/-! ## WIF -/
section Wif
open Bch.Model.Wif
variable (H : Bytes → Bytes)

theorem two_pow_256 : (2 : Nat) ^ 256 = 256 ^ 32 := by norm_num

theorem paddedAppend_ofNatMin (dst : Bytes) (d : Nat) (h : d < 2 ^ 256) :
    paddedAppend 32 dst (Bytes.ofNatMin d) = dst ++ Bytes.ofNatBE 32 d := by
  unfold paddedAppend
  rw [List.append_assoc, pad_ofNatMin 32 d (by rwa [← two_pow_256])]

theorem paddedAppend_key (dst k : Bytes) (hk : k.length = 32) :
    paddedAppend 32 dst (Bytes.ofNatMin (Bytes.toNatBE k)) = dst ++ k := by
  unfold paddedAppend
  rw [List.append_assoc, ← hk, pad_ofNatMin_toNatBE]

/-- the bytes that `String` checksums: net id, 32 key bytes, optional compression marker -/
def wifBody (netID : UInt8) (key : Bytes) (compress : Bool) : Bytes :=
  netID :: key ++ (if compress then [1] else [])

theorem length_wifBody (n : UInt8) (key : Bytes) (c : Bool) :
    (wifBody n key c).length = key.length + 1 + (if c then 1 else 0) := by
  cases c <;> simp [wifBody]

theorem String_eq (w : WIF) (h : w.d < 2 ^ 256) :
    Wif.String H w =
      Encode (wifBody w.netID (Bytes.ofNatBE 32 w.d) w.compress
        ++ (H (wifBody w.netID (Bytes.ofNatBE 32 w.d) w.compress)).take 4) := by
  unfold Wif.String
  simp only [paddedAppend_ofNatMin _ _ h, wifBody]
  cases w.compress <;> simp

theorem take_succ_succ_cons (x : UInt8) (t : Bytes) (n : Nat) (h : n < t.length) :
    (x :: t).take (n + 2) = x :: ((x :: t).drop 1).take n ++ [(x :: t).getD (n + 1) 0] := by
  simp only [List.take_succ_cons, List.drop_succ_cons, List.drop_zero, List.getD_cons_succ,
    List.cons_append]
  rw [List.take_add_one, List.getD_eq_getElem?_getD, List.getElem?_eq_getElem h]
  simp

theorem DecodeWIF_ok_iff (s : Bytes) (w : WIF) :
    DecodeWIF H s = .ok w ↔ ∃ key : Bytes, key.length = 32 ∧ w.d = Bytes.toNatBE key ∧
      Decode s = wifBody w.netID key w.compress ++ (H (wifBody w.netID key w.compress)).take 4 ∧
      ((H (wifBody w.netID key w.compress)).take 4).length = 4 := by
  unfold DecodeWIF
  simp only
  generalize Decode s = d
  constructor
  · intro h
    cases d with
    | nil => simp at h
    | cons x t =>
      split at h
      · next hn =>
        have ht : t.length = 37 := by simpa using hn
        split at h
        · cases h
        · next h33 =>
          have h33 : (x :: t).getD 33 0 = 1 := by simpa using h33
          split at h
          · cases h
          · next hck =>
            have hck : (H ((x :: t).take 34)).take 4 = (x :: t).drop ((x :: t).length - 4) := by
              simpa using hck
            injection h with h
            subst h
            have h34 := take_succ_succ_cons x t 32 (by omega)
            rw [h33] at h34
            refine ⟨((x :: t).drop 1).take 32, by simp; omega, rfl, ?_, ?_⟩
            · simp only [List.headD_cons, wifBody, if_true]
              rw [← h34, hck, hn]
              exact (List.take_append_drop 34 (x :: t)).symm
            · simp only [List.headD_cons, wifBody, if_true]
              rw [← h34, hck, hn]; simp; omega
      · split at h
        · next _ hn =>
          have ht : t.length = 36 := by simpa using hn
          split at h
          · cases h
          · next hck =>
            have hck : (H ((x :: t).take 33)).take 4 = (x :: t).drop ((x :: t).length - 4) := by
              simpa using hck
            injection h with h
            subst h
            have h33 : (x :: t).take 33 = x :: ((x :: t).drop 1).take 32 := by simp
            refine ⟨((x :: t).drop 1).take 32, by simp; omega, rfl, ?_, ?_⟩
            · simp only [List.headD_cons, wifBody, Bool.false_eq_true, if_false, List.append_nil]
              rw [← h33, hck, hn]
              exact (List.take_append_drop 33 (x :: t)).symm
            · simp only [List.headD_cons, wifBody, Bool.false_eq_true, if_false, List.append_nil]
              rw [← h33, hck, hn]; simp; omega
        · cases h
  · rintro ⟨key, hk, hd, hdec, hlen⟩
    subst hdec
    obtain ⟨wd, c, nid⟩ := w
    simp only at hd hlen hk ⊢
    subst hd
    have hsplit := take_drop_tail (a := wifBody nid key c) hlen
    have hbl := length_wifBody nid key c
    cases c
    · -- uncompressed: 37 bytes
      have hL : (wifBody nid key false ++ (H (wifBody nid key false)).take 4).length = 37 := by
        rw [List.length_append, hlen, hbl, hk]; rfl
      rw [hL] at hsplit ⊢
      simp only [Nat.reduceEqDiff, if_false, if_true, Nat.reduceSub]
      simp only [Nat.reduceSub] at hsplit
      rw [hsplit.1, hsplit.2]
      simp [wifBody, hk]
    · have hL : (wifBody nid key true ++ (H (wifBody nid key true)).take 4).length = 38 := by
        rw [List.length_append, hlen, hbl, hk]; rfl
      rw [hL] at hsplit ⊢
      simp only [if_true, Nat.reduceSub]
      simp only [Nat.reduceSub] at hsplit
      rw [hsplit.1, hsplit.2]
      simp [wifBody, hk]

theorem DecodeWIF_String (w : WIF) (hd : w.d < 2 ^ 256)
    (hH : 4 ≤ (H (wifBody w.netID (Bytes.ofNatBE 32 w.d) w.compress)).length) :
    DecodeWIF H (Wif.String H w) = .ok w := by
  rw [DecodeWIF_ok_iff, String_eq H w hd, Decode_Encode]
  refine ⟨Bytes.ofNatBE 32 w.d, length_ofNatBE _ _, ?_, rfl, by simp; omega⟩
  rw [toNatBE_ofNatBE, Nat.mod_eq_of_lt]
  rwa [← two_pow_256]

theorem lt_of_DecodeWIF_ok (s : Bytes) (w : WIF) (h : DecodeWIF H s = .ok w) : w.d < 2 ^ 256 := by
  obtain ⟨key, hk, hd, -, -⟩ := (DecodeWIF_ok_iff H s w).mp h
  rw [hd, two_pow_256, ← hk]
  exact toNatBE_lt key

theorem String_of_DecodeWIF_ok (s : Bytes) (w : WIF) (h : DecodeWIF H s = .ok w) :
    Wif.String H w = s := by
  have hlt := lt_of_DecodeWIF_ok H s w h
  obtain ⟨key, hk, hd, hdec, -⟩ := (DecodeWIF_ok_iff H s w).mp h
  have hkey : Bytes.ofNatBE 32 w.d = key := by rw [hd, ← hk]; exact ofNatBE_toNatBE key
  rw [String_eq H w hlt, hkey, ← hdec]
  apply Encode_Decode_of_ne_nil
  rw [hdec]; simp [wifBody]

/-- the format condition of `DecodeWIF` on the Base58-decoded bytes -/
def wifFormatOk (d : Bytes) : Prop := d.length = 37 ∨ (d.length = 38 ∧ d.getD 33 0 = 1)

instance (d : Bytes) : Decidable (wifFormatOk d) := by unfold wifFormatOk; infer_instance

/-- `DecodeWIF` with the two length branches merged -/
theorem DecodeWIF_eq (s : Bytes) :
    DecodeWIF H s =
      if wifFormatOk (Decode s) then
        if (H ((Decode s).take ((Decode s).length - 4))).take 4
            ≠ (Decode s).drop ((Decode s).length - 4) then .error .checksum
        else .ok ⟨Bytes.toNatBE (((Decode s).drop 1).take 32), decide ((Decode s).length = 38),
              (Decode s).headD 0⟩
      else .error .malformed := by
  unfold DecodeWIF
  simp only []
  generalize Decode s = d
  by_cases h38 : d.length = 38
  · by_cases h33 : d.getD 33 0 = 1
    · have hf : wifFormatOk d := Or.inr ⟨h38, h33⟩
      rw [if_pos h38, if_neg (not_not.mpr h33), if_pos hf, h38]
      rfl
    · have hf : ¬ wifFormatOk d := by
        rintro (h37 | ⟨_, h⟩)
        · omega
        · exact h33 h
      rw [if_pos h38, if_pos h33, if_neg hf]
  · by_cases h37 : d.length = 37
    · have hf : wifFormatOk d := Or.inl h37
      rw [if_neg h38, if_pos h37, if_pos hf, h37]
      rfl
    · have hf : ¬ wifFormatOk d := by
        rintro (h | ⟨h, _⟩)
        · exact h37 h
        · exact h38 h
      rw [if_neg h38, if_neg h37, if_neg hf]

theorem DecodeWIF_malformed_iff (s : Bytes) :
    DecodeWIF H s = .error .malformed ↔ ¬ wifFormatOk (Decode s) := by
  rw [DecodeWIF_eq]
  split
  · split <;> simp [*]
  · simp [*]

theorem DecodeWIF_checksum_iff (s : Bytes) :
    DecodeWIF H s = .error .checksum ↔ wifFormatOk (Decode s) ∧
      (Decode s).drop ((Decode s).length - 4)
        ≠ (H ((Decode s).take ((Decode s).length - 4))).take 4 := by
  rw [DecodeWIF_eq]
  generalize (H ((Decode s).take ((Decode s).length - 4))).take 4 = a
  generalize (Decode s).drop ((Decode s).length - 4) = b
  split
  · next hf =>
    split
    · next hck => simp only [true_and, hf]; exact ⟨fun _ => Ne.symm hck, fun _ => trivial⟩
    · next hck =>
      have hck : a = b := by simpa using hck
      simp [hck]
  · next hf => simp [hf]

theorem DecodeWIF_ok_iff_tail (s : Bytes) (w : WIF) :
    DecodeWIF H s = .ok w ↔ wifFormatOk (Decode s) ∧
      (Decode s).drop ((Decode s).length - 4)
        = (H ((Decode s).take ((Decode s).length - 4))).take 4 ∧
      w = ⟨Bytes.toNatBE (((Decode s).drop 1).take 32), decide ((Decode s).length = 38),
            (Decode s).headD 0⟩ := by
  rw [DecodeWIF_eq]
  generalize (H ((Decode s).take ((Decode s).length - 4))).take 4 = a
  generalize (Decode s).drop ((Decode s).length - 4) = b
  generalize (⟨_, _, _⟩ : WIF) = r
  split
  · next hf =>
    split
    · next hck =>
      simp only [hf, true_and, reduceCtorEq, false_iff, not_and]
      exact fun h => absurd h.symm hck
    · next hck =>
      have hck : a = b := by simpa using hck
      simp [hck, hf, eq_comm]
  · next hf => simp [hf]

end Wif

end Bch.Proofs.Base58
