import Bch.Proofs.F64Interval
import Bch.Proofs.Amount
/-
  Decimal text: a strict parser `parseDecimal` for strings `-?digits(.digits)?` (the specification
  vocabulary for "the text denotes the rational …"), the `%f` layout of `formatF` (`fixedStr`,
  `trimZeros`, zero padding), and the shortest-digits path of `formatF`:

  * `formatF_shortest_parse` — for every finite non-zero float the text printed with negative precision
    parses to `± N·10^p` with `(N, p) = shortest m e`;
  * `formatF_shortest_exact` — if a decimal `A·10^-k` (`A < 2^52`) rounds to the float, that text denotes
    exactly `A·10^-k`.
-/
namespace Bch.Proofs.F64
open Bch.Prim.F64

/-! ### the parser -/

/-- value of a non-empty list of decimal digit characters; `none` for anything else -/
def parseDigits (cs : List Char) : Option Nat :=
  if !cs.isEmpty && cs.all Char.isDigit then some (Nat.ofDigitChars 10 cs 0) else none

/-- `digits` or `digits.digits` (both groups non-empty) as an exact rational -/
def parseUnsigned (cs : List Char) : Option ℚ :=
  match cs.dropWhile (· != '.') with
  | [] => (parseDigits cs).map (fun n : Nat => (n : ℚ))
  | _ :: fp =>
    match parseDigits (cs.takeWhile (· != '.')), parseDigits fp with
    | some i, some f => some ((i : ℚ) + (f : ℚ) / 10 ^ fp.length)
    | _, _ => none

/-- The rational denoted by a decimal string of the form `-?digits(.digits)?`; `none` for every other
string (empty groups, exponents, signs other than a single leading `-`, spaces, …). -/
def parseDecimal (s : String) : Option ℚ :=
  match s.toList with
  | '-' :: cs => (parseUnsigned cs).map (fun v => -v)
  | cs => parseUnsigned cs

/-- all characters are decimal digits -/
def AllDigits (cs : List Char) : Prop := ∀ c ∈ cs, c.isDigit = true

theorem allDigits_toDigits (n : Nat) : AllDigits (Nat.toDigits 10 n) :=
  fun _ hc => Nat.isDigit_of_mem_toDigits (by norm_num) (by norm_num) hc

theorem allDigits_replicate (n : Nat) : AllDigits (List.replicate n '0') := by
  intro c hc
  rw [List.mem_replicate] at hc
  rw [hc.2]; decide

theorem AllDigits.append {a b : List Char} (ha : AllDigits a) (hb : AllDigits b) : AllDigits (a ++ b) := by
  intro c hc
  rcases List.mem_append.mp hc with h | h
  · exact ha c h
  · exact hb c h

theorem AllDigits.take {a : List Char} (ha : AllDigits a) (k : Nat) : AllDigits (a.take k) :=
  fun c hc => ha c (List.mem_of_mem_take hc)

theorem AllDigits.drop {a : List Char} (ha : AllDigits a) (k : Nat) : AllDigits (a.drop k) :=
  fun c hc => ha c (List.mem_of_mem_drop hc)

theorem AllDigits.ne_dot {a : List Char} (ha : AllDigits a) : ∀ c ∈ a, (c != '.') = true := by
  intro c hc
  have := ha c hc
  rw [bne_iff_ne]
  rintro rfl
  exact absurd this (by decide)

theorem parseDigits_of_allDigits {cs : List Char} (h : AllDigits cs) (hne : cs ≠ []) :
    parseDigits cs = some (Nat.ofDigitChars 10 cs 0) := by
  unfold parseDigits
  have h1 : cs.isEmpty = false := by cases cs <;> simp_all
  have h2 : cs.all Char.isDigit = true := List.all_eq_true.mpr h
  rw [h1, h2]; rfl

theorem parseUnsigned_int {cs : List Char} (h : AllDigits cs) (hne : cs ≠ []) :
    parseUnsigned cs = some ((Nat.ofDigitChars 10 cs 0 : Nat) : ℚ) := by
  unfold parseUnsigned
  have hd : cs.dropWhile (· != '.') = [] := by
    have := List.dropWhile_append_of_pos (l₂ := []) h.ne_dot
    rwa [List.append_nil] at this
  rw [hd]
  simp only [parseDigits_of_allDigits h hne, Option.map_some]

theorem ofDigitChars_append_zero (a b : List Char) :
    Nat.ofDigitChars 10 (a ++ b) 0 = Nat.ofDigitChars 10 a 0 * 10 ^ b.length + Nat.ofDigitChars 10 b 0 := by
  rw [Nat.ofDigitChars_append, Nat.ofDigitChars_eq_ofDigitChars_zero, Nat.mul_comm]

theorem parseUnsigned_frac {ip fp : List Char} (hi : AllDigits ip) (hine : ip ≠ []) (hf : AllDigits fp)
    (hfne : fp ≠ []) :
    parseUnsigned (ip ++ '.' :: fp) =
      some (((Nat.ofDigitChars 10 (ip ++ fp) 0 : Nat) : ℚ) / 10 ^ fp.length) := by
  unfold parseUnsigned
  have hd : (ip ++ '.' :: fp).dropWhile (· != '.') = '.' :: fp := by
    rw [List.dropWhile_append_of_pos hi.ne_dot]
    exact List.dropWhile_cons_of_neg (by simp)
  have ht : (ip ++ '.' :: fp).takeWhile (· != '.') = ip := by
    rw [List.takeWhile_append_of_pos hi.ne_dot, List.takeWhile_cons_of_neg (by simp), List.append_nil]
  rw [hd]
  simp only [ht, parseDigits_of_allDigits hi hine, parseDigits_of_allDigits hf hfne]
  rw [ofDigitChars_append_zero]
  have : (0:ℚ) < 10 ^ fp.length := by positivity
  push_cast; field_simp

/-! ### exactly which strings are accepted -/

theorem parseDecimal_neg (s : String) (cs : List Char) (h : s.toList = '-' :: cs) :
    parseDecimal s = (parseUnsigned cs).map (fun v => -v) := by
  unfold parseDecimal; rw [h]; rfl

theorem parseDecimal_pos (s : String) (c : Char) (cs : List Char) (h : s.toList = c :: cs)
    (hc : c.isDigit = true) : parseDecimal s = parseUnsigned (c :: cs) := by
  unfold parseDecimal; rw [h]
  split
  · rename_i heq
    have : c = '-' := by injection heq
    subst this; exact absurd hc (by decide)
  · rfl


/-- the optional fraction `.fp` as characters -/
def fracTail : Option (List Char) → List Char
  | none => []
  | some f => '.' :: f
/-- … and its value `fp / 10^|fp|` -/
def fracVal : Option (List Char) → ℚ
  | none => 0
  | some f => ((Nat.ofDigitChars 10 f 0 : Nat) : ℚ) / 10 ^ f.length

/-- `cs` reads `-?ip(.fp)?` with non-empty groups `ip`, `fp` of decimal digits, and `v` is its value -/
def DecimalOf (cs : List Char) (v : ℚ) : Prop :=
  ∃ (neg : Bool) (ip : List Char) (fp : Option (List Char)),
    AllDigits ip ∧ ip ≠ [] ∧ (∀ f, fp = some f → AllDigits f ∧ f ≠ []) ∧
    cs = (if neg then ['-'] else []) ++ (ip ++ fracTail fp) ∧
    v = (if neg then -1 else 1) * (((Nat.ofDigitChars 10 ip 0 : Nat) : ℚ) + fracVal fp)

theorem parseDigits_eq_some {cs : List Char} {n : Nat} (h : parseDigits cs = some n) :
    AllDigits cs ∧ cs ≠ [] ∧ n = Nat.ofDigitChars 10 cs 0 := by
  unfold parseDigits at h
  split at h
  · rename_i hc
    simp only [Bool.and_eq_true, Bool.not_eq_true', List.all_eq_true] at hc
    refine ⟨hc.2, ?_, by injection h with h; exact h.symm⟩
    rintro rfl; simp at hc
  · exact absurd h (by simp)

theorem parseUnsigned_eq_some {cs : List Char} {w : ℚ} (h : parseUnsigned cs = some w) :
    ∃ (ip : List Char) (fp : Option (List Char)),
      AllDigits ip ∧ ip ≠ [] ∧ (∀ f, fp = some f → AllDigits f ∧ f ≠ []) ∧
      cs = ip ++ fracTail fp ∧ w = ((Nat.ofDigitChars 10 ip 0 : Nat) : ℚ) + fracVal fp := by
  unfold parseUnsigned at h
  cases hd : cs.dropWhile (· != '.') with
  | nil =>
    rw [hd] at h
    simp only [Option.map_eq_some_iff] at h
    obtain ⟨n, hn, rfl⟩ := h
    obtain ⟨h1, h2, h3⟩ := parseDigits_eq_some hn
    exact ⟨cs, none, h1, h2, fun f hf => absurd hf (by simp), by simp [fracTail], by simp [fracVal, h3]⟩
  | cons c fp =>
    rw [hd] at h
    simp only at h
    have hc : c = '.' := by
      have hne : cs.dropWhile (· != '.') ≠ [] := by rw [hd]; simp
      have := List.head_dropWhile_not (· != '.') hne
      simp only [hd, List.head_cons] at this
      simpa using this
    subst hc
    have hcs : cs = cs.takeWhile (· != '.') ++ '.' :: fp := by
      rw [← hd]; exact List.takeWhile_append_dropWhile.symm
    cases hpi : parseDigits (cs.takeWhile (· != '.')) with
    | none => rw [hpi] at h; exact absurd h (by simp)
    | some i =>
      cases hpf : parseDigits fp with
      | none => rw [hpi, hpf] at h; exact absurd h (by simp)
      | some f =>
        rw [hpi, hpf] at h
        simp only [Option.some.injEq] at h
        obtain ⟨a1, a2, a3⟩ := parseDigits_eq_some hpi
        obtain ⟨b1, b2, b3⟩ := parseDigits_eq_some hpf
        refine ⟨cs.takeWhile (· != '.'), some fp, a1, a2, ?_, hcs, ?_⟩
        · intro f' hf'; injection hf' with hf'; subst hf'; exact ⟨b1, b2⟩
        · simp only [fracVal]; rw [← h, a3, b3]

theorem parseUnsigned_of_shape (ip : List Char) (fp : Option (List Char)) (h1 : AllDigits ip) (h2 : ip ≠ [])
    (h3 : ∀ f, fp = some f → AllDigits f ∧ f ≠ []) :
    parseUnsigned (ip ++ fracTail fp) = some (((Nat.ofDigitChars 10 ip 0 : Nat) : ℚ) + fracVal fp) := by
  cases fp with
  | none => simp only [fracTail, fracVal, List.append_nil, add_zero]; exact parseUnsigned_int h1 h2
  | some f =>
    obtain ⟨hf1, hf2⟩ := h3 f rfl
    simp only [fracTail, fracVal]
    rw [parseUnsigned_frac h1 h2 hf1 hf2, Nat.ofDigitChars_append,
      Nat.ofDigitChars_eq_ofDigitChars_zero (l := f)]
    have : (0:ℚ) < 10 ^ f.length := by positivity
    push_cast; field_simp

/-- **`parseDecimal` accepts exactly the strings `-?digits(.digits)?`** and returns their value. -/
theorem parseDecimal_eq_some_iff (s : String) (v : ℚ) :
    parseDecimal s = some v ↔ DecimalOf s.toList v := by
  constructor
  · intro h
    unfold parseDecimal at h
    split at h
    · rename_i cs heq
      simp only [Option.map_eq_some_iff] at h
      obtain ⟨w, hw, rfl⟩ := h
      obtain ⟨ip, fp, h1, h2, h3, h4, h5⟩ := parseUnsigned_eq_some hw
      refine ⟨true, ip, fp, h1, h2, h3, ?_, ?_⟩
      · rw [heq, h4]; simp
      · rw [h5]; simp
    · obtain ⟨ip, fp, h1, h2, h3, h4, h5⟩ := parseUnsigned_eq_some h
      refine ⟨false, ip, fp, h1, h2, h3, ?_, ?_⟩
      · rw [h4]; simp
      · rw [h5]; simp
  · rintro ⟨neg, ip, fp, h1, h2, h3, h4, h5⟩
    have hU := parseUnsigned_of_shape ip fp h1 h2 h3
    obtain ⟨c, ip', rfl⟩ : ∃ c ip', ip = c :: ip' := by
      cases ip with
      | nil => exact absurd rfl h2
      | cons c ip' => exact ⟨c, ip', rfl⟩
    have hcd : c.isDigit = true := h1 c List.mem_cons_self
    cases neg
    · simp only [Bool.false_eq_true, if_false, List.nil_append, one_mul] at h4 h5
      rw [parseDecimal_pos s c (ip' ++ fracTail fp) (by rw [h4]; rfl) hcd, h5]
      exact hU
    · simp only [if_true] at h4 h5
      rw [parseDecimal_neg s (c :: ip' ++ fracTail fp) (by rw [h4]; rfl), hU, h5]
      simp

/-! ### layout -/

theorem toList_pushn (s : String) (c : Char) (n : Nat) :
    (s.pushn c n).toList = s.toList ++ List.replicate n c := by
  rw [String.pushn_eq_repeat_push]
  induction n with
  | zero => simp [Nat.repeat]
  | succ n ih => rw [Nat.repeat, String.toList_push, ih, List.replicate_succ', List.append_assoc]

/-- the digits of `N` followed by `z` zeros read back as `N·10^z` -/
theorem parseUnsigned_padded (N z : Nat) :
    parseUnsigned (Nat.toDigits 10 N ++ List.replicate z '0') = some ((N : ℚ) * 10 ^ z) := by
  rw [parseUnsigned_int ((allDigits_toDigits N).append (allDigits_replicate z)) (by simp)]
  rw [Nat.ofDigitChars_append, Nat.ofDigitChars_ten_toDigits, Nat.ofDigitChars_replicate_zero]
  push_cast; ring_nf

/-- `fixedStr N p` reads back as `N / 10^p` -/
theorem parseUnsigned_fixedStr (N p : Nat) :
    parseUnsigned (fixedStr N p).toList = some ((N : ℚ) / 10 ^ p) := by
  unfold fixedStr
  by_cases hp : p = 0
  · subst hp
    simp only [beq_self_eq_true, if_true, String.toList_ofList]
    have := parseUnsigned_padded N 0
    simpa using this
  · have hp' : (p == 0) = false := by simpa using hp
    simp only [hp', Bool.false_eq_true, if_false, String.toList_ofList]
    -- the padded digit list
    set ds := (if (Nat.toDigits 10 N).length ≤ p
      then List.replicate (p + 1 - (Nat.toDigits 10 N).length) '0' ++ Nat.toDigits 10 N
      else Nat.toDigits 10 N) with hds
    have hall : AllDigits ds := by
      rw [hds]; split
      · exact (allDigits_replicate _).append (allDigits_toDigits N)
      · exact allDigits_toDigits N
    have hval : Nat.ofDigitChars 10 ds 0 = N := by
      rw [hds]; split
      · rw [Nat.ofDigitChars_append, Nat.ofDigitChars_replicate_zero, Nat.mul_zero,
          Nat.ofDigitChars_ten_toDigits]
      · exact Nat.ofDigitChars_ten_toDigits
    have hlen : p < ds.length := by
      rw [hds]; split
      · rw [List.length_append, List.length_replicate]; omega
      · omega
    have hi : (ds.take (ds.length - p)) ≠ [] := by
      intro h
      have := congrArg List.length h
      rw [List.length_take] at this
      simp at this; omega
    have hf : (ds.drop (ds.length - p)) ≠ [] := by
      intro h
      have := congrArg List.length h
      rw [List.length_drop] at this
      simp at this; omega
    rw [parseUnsigned_frac (hall.take _) hi (hall.drop _) hf, List.take_append_drop, hval,
      List.length_drop]
    congr 3; omega

/-- a sign prefix in front of an unsigned decimal body that starts with a digit -/
theorem parseDecimal_signed (neg : Bool) (body : String) (v : ℚ)
    (hb : parseUnsigned body.toList = some v) (hd : ∃ c cs, body.toList = c :: cs ∧ c.isDigit = true) :
    parseDecimal ((if neg then "-" else "") ++ body) = some (if neg then -v else v) := by
  obtain ⟨c, cs, hcs, hc⟩ := hd
  cases neg
  · simp only [Bool.false_eq_true, if_false]
    have : ("" ++ body) = body := by simp
    rw [this, parseDecimal_pos body c cs hcs hc, ← hcs, hb]
  · simp only [if_true]
    rw [parseDecimal_neg ("-" ++ body) body.toList (by rw [String.toList_append]; rfl), hb]
    rfl

theorem toDigits_head (N : Nat) : ∃ c cs, Nat.toDigits 10 N = c :: cs ∧ c.isDigit = true := by
  have hne : Nat.toDigits 10 N ≠ [] := Nat.toDigits_ne_nil
  cases h : Nat.toDigits 10 N with
  | nil => exact absurd h hne
  | cons c cs => exact ⟨c, cs, rfl, allDigits_toDigits N c (by rw [h]; exact List.mem_cons_self)⟩

theorem fixedStr_head (N p : Nat) : ∃ c cs, (fixedStr N p).toList = c :: cs ∧ c.isDigit = true := by
  have h := parseUnsigned_fixedStr N p
  -- every character before the first '.' is a digit and the string is not empty
  unfold fixedStr at h ⊢
  by_cases hp : (p == 0) = true
  · simp only [hp, if_true, String.toList_ofList]
    exact toDigits_head N
  · simp only [hp, Bool.false_eq_true, if_false, String.toList_ofList]
    set ds := (if (Nat.toDigits 10 N).length ≤ p
      then List.replicate (p + 1 - (Nat.toDigits 10 N).length) '0' ++ Nat.toDigits 10 N
      else Nat.toDigits 10 N) with hds
    have hall : AllDigits ds := by
      rw [hds]; split
      · exact (allDigits_replicate _).append (allDigits_toDigits N)
      · exact allDigits_toDigits N
    have hlen : p < ds.length := by
      rw [hds]; split
      · rw [List.length_append, List.length_replicate]; omega
      · omega
    cases hk : ds.take (ds.length - p) with
    | nil =>
      have := congrArg List.length hk
      rw [List.length_take] at this
      simp at this; omega
    | cons c cs =>
      refine ⟨c, cs ++ '.' :: ds.drop (ds.length - p), by simp, ?_⟩
      exact hall.take (ds.length - p) c (by rw [hk]; exact List.mem_cons_self)

/-- `trimZeros` keeps the value -/
theorem trimZeros_spec : ∀ (fuel N : Nat) (p : Int),
    ((trimZeros fuel N p).1 : ℚ) * 10 ^ (trimZeros fuel N p).2 = (N : ℚ) * 10 ^ p ∧
    (p < 0 → (trimZeros fuel N p).2 ≤ 0) ∧ p ≤ (trimZeros fuel N p).2 := by
  intro fuel
  induction fuel with
  | zero => intro N p; exact ⟨rfl, fun h => h.le, le_refl _⟩
  | succ fuel ih =>
    intro N p
    rw [trimZeros]
    split
    · rename_i hc
      simp only [Bool.and_eq_true, decide_eq_true_eq, beq_iff_eq] at hc
      obtain ⟨h1, h2, h3⟩ := ih (N / 10) (p + 1)
      refine ⟨?_, fun _ => ?_, by omega⟩
      · have hN : (N : ℚ) = ((N / 10 : Nat) : ℚ) * 10 := by
          have : N = N / 10 * 10 := by omega
          exact_mod_cast this
        rw [h1, hN, zpow_add₀ (by norm_num : (10:ℚ) ≠ 0), zpow_one]
        ring
      · rcases lt_or_eq_of_le (show p + 1 ≤ 0 by omega) with h | h
        · exact h2 h
        · -- p + 1 = 0: no further trimming
          have : (trimZeros fuel (N / 10) (p + 1)).2 = p + 1 := by
            rw [h]; cases fuel <;> simp [trimZeros]
          omega
    · exact ⟨rfl, fun h => h.le, le_refl _⟩

/-! ### the shortest-digits path of `formatF` -/

/-- **Layout.**  For a finite float with non-zero significand and negative precision, the text parses to
`± N·10^p` where `(N, p) = shortest m e`. -/
theorem formatF_shortest_parse (x : UInt64) (prec : Int) (hx : isFinite x = true)
    (hm : (decodeAbs x).1 ≠ 0) (hp : prec < 0) :
    parseDecimal (formatF x prec) =
      some ((if isNeg x then (-1:ℚ) else 1) *
        (((shortest (decodeAbs x).1 (decodeAbs x).2).1 : ℚ) * 10 ^ (shortest (decodeAbs x).1 (decodeAbs x).2).2)) := by
  obtain ⟨hn, hi⟩ := not_nan_inf_of_finite x hx
  unfold formatF
  simp only [hn, hi, Bool.false_eq_true, if_false]
  have hp' : ¬ prec ≥ 0 := by omega
  have hm' : ((decodeAbs x).1 == 0) = false := by simpa using hm
  simp only [hp', if_false, hm', Bool.false_eq_true]
  generalize shortest (decodeAbs x).1 (decodeAbs x).2 = r
  obtain ⟨N, p⟩ := r
  simp only
  have hsign : ∀ v : ℚ, (if isNeg x = true then -v else v) = (if isNeg x = true then (-1:ℚ) else 1) * v := by
    intro v; split <;> ring
  by_cases hpos : p ≥ 0
  · simp only [hpos, if_true]
    rw [String.append_assoc, ← hsign]
    apply parseDecimal_signed
    · rw [String.toList_append, String.toList_ofList, toList_pushn]
      have := parseUnsigned_padded N p.toNat
      simp only [String.toList_empty, List.nil_append]
      rw [this]
      congr 2
      have : p = (p.toNat : Int) := by omega
      conv_rhs => rw [this]
      exact (zpow_natCast _ _).symm
    · obtain ⟨c, cs, h1, h2⟩ := toDigits_head N
      exact ⟨c, cs ++ ("".pushn '0' p.toNat).toList, by rw [String.toList_append, String.toList_ofList, h1]; rfl, h2⟩
  · simp only [hpos, if_false]
    obtain ⟨h1, h2, h3⟩ := trimZeros_spec 400 N p
    generalize trimZeros 400 N p = r at h1 h2 h3
    obtain ⟨N', p'⟩ := r
    simp only at h1 h2 h3 ⊢
    rw [← hsign]
    apply parseDecimal_signed
    · rw [parseUnsigned_fixedStr, ← h1]
      congr 1
      have hle := h2 (by omega)
      have : p' = -((-p').toNat : Int) := by omega
      conv_rhs => rw [this, zpow_neg, zpow_natCast]
      rfl
    · exact fixedStr_head N' _

/-- **Exactness on short decimals.**  If `q = ± A·10^-k` with `0 < A < 2^52` rounds to the normal float
`x`, the text printed for `x` with negative precision denotes exactly `q`: the decimal `A·10^-k` lies in
the rounding interval, the interval (one ulp wide, `ulp ≤ |q|·2^-52 < 10^-k`) contains no other multiple of
`10^-k`, and the digit walk stops at a position `≥ -k` on a decimal inside the interval. -/
theorem formatF_shortest_exact (x : UInt64) (prec : Int) (hp : prec < 0) (q : ℚ) (A k : Nat)
    (hq : |q| = (A : ℚ) * 10 ^ (-(k : Int))) (hA : A < 2^52) (hrn : IsRN q x)
    (hnorm : 2^52 ≤ (decodeAbs x).1) (he : (decodeAbs x).2 ≤ 970) :
    parseDecimal (formatF x prec) = some q := by
  have hx : isFinite x = true := by
    obtain ⟨v, hv, _⟩ := hrn
    exact ((val_eq_some_iff x v).mp hv).1
  have hm : (decodeAbs x).1 ≠ 0 := by omega
  obtain ⟨hm53, hge⟩ := decodeAbs_bounds x
  obtain ⟨hin, hq0, hneg⟩ := isRN_in_interval q x hrn hm he
  rw [formatF_shortest_parse x prec hx hm hp]
  obtain ⟨N, p, heq, hNin, hmin, _, _⟩ := shortest_spec (decodeAbs x).1 (decodeAbs x).2 (by omega) hm53 hge (by omega)
  rw [heq]
  simp only
  set m := (decodeAbs x).1 with hmdef
  set e := (decodeAbs x).2 with hedef
  rw [hq] at hin
  have hkp : -(k : Int) ≤ p := hmin A _ hin
  -- the result as a multiple of 10^-k
  obtain ⟨d, hd⟩ : ∃ d : Nat, p = -(k : Int) + d := ⟨(p + k).toNat, by omega⟩
  have hNk : (N : ℚ) * 10 ^ p = ((N * 10 ^ d : Nat) : ℚ) * 10 ^ (-(k : Int)) := by
    rw [hd, zpow_add₀ (by norm_num : (10:ℚ) ≠ 0), zpow_natCast]; push_cast; ring
  have h10 : (0:ℚ) < 10 ^ (-(k : Int)) := by positivity
  have h2e := two_zpow_pos (e - 2)
  obtain ⟨hL1, hL2, _⟩ := shL_bounds m e (by omega)
  have hLq : (4 * (m:ℚ) - 2) ≤ (shL m e : ℚ) := by
    have : ((4 * m - 2 : Nat) : ℚ) ≤ (shL m e : ℚ) := by exact_mod_cast hL1
    rw [Nat.cast_sub (by omega)] at this
    push_cast at this; exact this
  have hlohi : (shL m e : ℚ) * 2 ^ (e - 2) ≤ ((4 * m + 2 : Nat) : ℚ) * 2 ^ (e - 2) := by
    have : (shL m e : ℚ) ≤ ((4 * m + 2 : Nat) : ℚ) := by exact_mod_cast (by omega : shL m e ≤ 4 * m + 2)
    nlinarith
  have hsame : N * 10 ^ d = A := by
    by_contra hne
    have hdiff : (1:ℚ) ≤ |((N * 10 ^ d : Nat) : ℚ) - (A : ℚ)| := by
      have : (1:ℤ) ≤ |((N * 10 ^ d : Nat) : ℤ) - (A : ℤ)| := Int.one_le_abs (by omega)
      exact_mod_cast this
    rw [hNk] at hNin
    have a1 := hNin.lo_le hlohi
    have a2 := hNin.le_hi hlohi
    have b1 := hin.lo_le hlohi
    have b2 := hin.le_hi hlohi
    -- the two decimals are at most `hi - lo ≤ 2^e` apart, hence `10^-k ≤ 4·2^(e-2)`
    have hgap : (10:ℚ) ^ (-(k : Int)) ≤ 4 * 2 ^ (e - 2) := by
      have h0 : |((N * 10 ^ d : Nat) : ℚ) - (A : ℚ)| * 10 ^ (-(k : Int)) =
          |((N * 10 ^ d : Nat) : ℚ) * 10 ^ (-(k : Int)) - (A : ℚ) * 10 ^ (-(k : Int))| := by
        rw [← sub_mul, abs_mul, abs_of_pos h10]
      have hloq : (4 * (m:ℚ) - 2) * 2 ^ (e - 2) ≤ (shL m e : ℚ) * 2 ^ (e - 2) :=
        mul_le_mul_of_nonneg_right hLq h2e.le
      have hhiq : ((4 * m + 2 : Nat) : ℚ) * 2 ^ (e - 2) = (4 * (m:ℚ) + 2) * 2 ^ (e - 2) := by push_cast; ring
      have h1 : |((N * 10 ^ d : Nat) : ℚ) - (A : ℚ)| * 10 ^ (-(k : Int)) ≤ 4 * 2 ^ (e - 2) := by
        rw [h0, abs_le]
        constructor <;> linarith
      nlinarith
    -- but `A·10^-k ≥ lo ≥ (4m-2)·2^(e-2)` forces `A ≥ m - 1/2 ≥ 2^52 - 1/2`
    have hAm : (4 * (m:ℚ) - 2) * 2 ^ (e - 2) ≤ (A : ℚ) * (4 * 2 ^ (e - 2)) := by
      have h0 : (0:ℚ) ≤ A := by positivity
      calc (4 * (m:ℚ) - 2) * 2 ^ (e - 2) ≤ (shL m e : ℚ) * 2 ^ (e - 2) :=
            mul_le_mul_of_nonneg_right hLq h2e.le
        _ ≤ (A : ℚ) * 10 ^ (-(k : Int)) := b1
        _ ≤ (A : ℚ) * (4 * 2 ^ (e - 2)) := mul_le_mul_of_nonneg_left hgap h0
    have hAm' : 4 * (m:ℚ) - 2 ≤ 4 * A := by
      have : (4 * (m:ℚ) - 2) * 2 ^ (e - 2) ≤ (4 * (A:ℚ)) * 2 ^ (e - 2) := by linarith
      exact le_of_mul_le_mul_right this h2e
    have : 4 * m ≤ 4 * A + 2 := by
      have : (((4 * m : Nat) : ℚ)) ≤ ((4 * A + 2 : Nat) : ℚ) := by push_cast; linarith
      exact_mod_cast this
    omega
  rw [hNk, hsame, ← hq]
  congr 1
  rcases lt_or_gt_of_ne hq0 with h | h
  · rw [hneg]; simp only [h, decide_true, if_true, abs_of_neg h]; ring
  · have : ¬ q < 0 := by linarith
    rw [hneg]; simp only [this, decide_false, Bool.false_eq_true, if_false, abs_of_pos h]; ring

/-- **Round trip of the shortest-digits text.**  For every finite float (zeros and subnormals included)
the text printed with negative precision is a decimal string whose exact value rounds back to that float. -/
theorem formatF_shortest_roundtrip (x : UInt64) (prec : Int) (hx : isFinite x = true) (hp : prec < 0) :
    ∃ r : ℚ, parseDecimal (formatF x prec) = some r ∧ IsRN r x := by
  by_cases hm : (decodeAbs x).1 = 0
  · -- a zero
    refine ⟨0, ?_, ?_⟩
    · obtain ⟨hn, hi⟩ := not_nan_inf_of_finite x hx
      unfold formatF
      simp only [hn, hi, Bool.false_eq_true, if_false]
      have hp' : ¬ prec ≥ 0 := by omega
      simp only [hp', if_false, hm, beq_self_eq_true, if_true]
      have h := parseDecimal_signed (isNeg x) "0" ((0 : Nat) * 10 ^ 0)
        (by simpa using parseUnsigned_padded 0 0) ⟨'0', [], rfl, by decide⟩
      rw [h]; simp
    · have hv : fval x = 0 := by unfold fval absval; rw [hm]; simp
      refine ⟨0, (val_eq_some_iff _ _).mpr ⟨hx, hv⟩, fun y w _ => by simp, ?_, fun h => absurd h (lt_irrefl _),
        fun h => absurd h (lt_irrefl _)⟩
      intro y w _ hne heq
      rw [sub_self, abs_zero, zero_sub, abs_neg, abs_eq_zero] at heq
      exact absurd heq hne
  · obtain ⟨hm53, hge⟩ := decodeAbs_bounds x
    have he := (toNat_decodeAbs x).2.2 hx
    obtain ⟨N, p, heq, hNin, _⟩ := shortest_spec (decodeAbs x).1 (decodeAbs x).2 (Nat.pos_of_ne_zero hm) hm53 hge he
    refine ⟨sgnQ x * ((N:ℚ) * 10 ^ p), ?_, in_interval_isRN x hx hm _ hNin⟩
    rw [formatF_shortest_parse x prec hx hm hp, heq]
    rfl

/-- a float of moderate magnitude is normal and far from overflow -/
theorem normal_of_absval (x : UInt64) (h1 : (2:ℚ) ^ (-100 : Int) ≤ absval x) (h2 : absval x < 2 ^ (100 : Int)) :
    2^52 ≤ (decodeAbs x).1 ∧ (decodeAbs x).2 ≤ 970 := by
  obtain ⟨_, hsub, _⟩ := toNat_decodeAbs x
  obtain ⟨hm53, hge⟩ := decodeAbs_bounds x
  have hX : absval x = ((decodeAbs x).1 : ℚ) * 2 ^ (decodeAbs x).2 := rfl
  set m := (decodeAbs x).1
  set e := (decodeAbs x).2
  have hmq : (m : ℚ) < 2^53 := by exact_mod_cast hm53
  have hm0 : (0:ℚ) ≤ m := by positivity
  have h2e := two_zpow_pos e
  constructor
  · by_contra hc
    have he : e = -1074 := hsub (by omega)
    have : (2:ℚ) ^ e ≤ 2 ^ (-200 : Int) := zpow_le_zpow_right₀ (by norm_num) (by omega)
    have h3 : (2:ℚ) ^ (-100 : Int) = 2 ^ (100 : Int) * 2 ^ (-200 : Int) := by
      rw [← zpow_add₀ (by norm_num : (2:ℚ) ≠ 0)]; norm_num
    have h4 : (2:ℚ)^53 ≤ 2 ^ (100 : Int) := by norm_num
    have h5 := two_zpow_pos (-200)
    nlinarith
  · by_contra hc
    have h3 : (2:ℚ) ^ (100 : Int) ≤ 2 ^ e := zpow_le_zpow_right₀ (by norm_num) (by omega)
    have : (1:ℚ) ≤ m := by
      by_contra h0
      have : m = 0 := by
        have : (m:ℚ) < 1 := not_le.mp h0
        have : m < 1 := by exact_mod_cast this
        omega
      rw [hX, this] at h1
      simp at h1
      have := two_zpow_pos (-100)
      linarith
    nlinarith

end Bch.Proofs.F64

namespace Bch.Proofs.Amount
open Bch.Prim.F64 Bch.Model.Amount Bch.Proofs.F64

theorem toUnit_eq_div (a u : Int) (k : Nat) (hk : u + 8 = k) :
    ToUnit a u = div (ofInt a) (pow10 (k : Int)) := by
  unfold ToUnit
  simp only []
  rw [if_neg (by omega), hk]

/-- for a non-zero amount below `2^53` and a unit at or above the satoshi, `ToUnit a u` is a normal float
far from overflow -/
theorem toUnit_shape (a u : Int) (ha0 : a ≠ 0) (ha : a.natAbs < 2^53) (hu1 : -8 ≤ u) (hu2 : u ≤ 14) :
    2^52 ≤ (decodeAbs (ToUnit a u)).1 ∧ (decodeAbs (ToUnit a u)).2 ≤ 970 := by
  obtain ⟨hxf, hxv, _⟩ := ofInt_exact a ha
  obtain ⟨k, hk⟩ : ∃ k : Nat, u + 8 = (k : Int) := ⟨(u + 8).toNat, by omega⟩
  have hk22 : k < 23 := by omega
  obtain ⟨htf, _, htz, htv, hta⟩ := fval_of_checkNat _ _ (pow10_check k hk22)
  have hrn := toUnit_isRN a u ha (by omega) hu2
  have hfin : isFinite (ToUnit a u) = true := by
    obtain ⟨v, hv, _⟩ := hrn
    exact ((val_eq_some_iff _ v).mp hv).1
  rw [toUnit_eq_div a u k hk] at hfin ⊢
  -- magnitude of the exact quotient
  have hA1 : (1:ℚ) ≤ |(a:ℚ)| := by
    have : (1:ℤ) ≤ |a| := Int.one_le_abs ha0
    exact_mod_cast this
  have hA2 : |(a:ℚ)| < 9007199254740992 := by
    have : |a| < 9007199254740992 := by rw [Int.abs_eq_natAbs]; omega
    exact_mod_cast this
  have h10a : (1:ℚ) ≤ ((10 ^ k : Nat) : ℚ) := by push_cast; exact one_le_pow₀ (by norm_num)
  have h10b : ((10 ^ k : Nat) : ℚ) ≤ 10 ^ 22 := by
    push_cast; exact pow_le_pow_right₀ (by norm_num) (by omega)
  have hQ : |fval (ofInt a) / fval (pow10 (k : Int))| = |(a:ℚ)| / ((10 ^ k : Nat) : ℚ) := by
    rw [hxv, htv, abs_div, abs_of_pos (by linarith : (0:ℚ) < ((10 ^ k : Nat) : ℚ))]
  have hQ1 : (1:ℚ) / 10 ^ 22 ≤ |(a:ℚ)| / ((10 ^ k : Nat) : ℚ) := by
    rw [div_le_div_iff₀ (by norm_num) (by linarith)]; nlinarith
  have hQ2 : |(a:ℚ)| / ((10 ^ k : Nat) : ℚ) < 9007199254740992 :=
    lt_of_le_of_lt (div_le_self (abs_nonneg _) h10a) hA2
  have hm100 : (2:ℚ) ^ (-100 : Int) = 1 / 2 ^ 100 := by norm_num [zpow_neg]
  have herr := div_relerr _ _ hxf htf htz hfin (by
    rw [hQ]
    have h1 : (2:ℚ) ^ (-1022 : Int) ≤ 2 ^ (-100 : Int) := zpow_le_zpow_right₀ (by norm_num) (by norm_num)
    rw [hm100] at h1
    refine le_trans (le_trans h1 ?_) hQ1
    norm_num)
  rw [hQ] at herr
  generalize |(a:ℚ)| / ((10 ^ k : Nat) : ℚ) = Q at herr hQ1 hQ2 hQ
  have hsub := abs_sub_abs_le_abs_sub (fval (div (ofInt a) (pow10 (k : Int)))) (fval (ofInt a) / fval (pow10 (k : Int)))
  have hsub' := abs_sub_abs_le_abs_sub (fval (ofInt a) / fval (pow10 (k : Int))) (fval (div (ofInt a) (pow10 (k : Int))))
  rw [abs_sub_comm] at hsub'
  rw [hQ] at hsub hsub'
  have hQ53 : Q / 2 ^ 53 ≤ Q / 2 := by
    have : (0:ℚ) ≤ Q := by linarith [show (0:ℚ) < 1 / 10 ^ 22 by norm_num]
    rw [div_le_div_iff₀ (by norm_num) (by norm_num)]; nlinarith
  apply normal_of_absval
  · rw [← abs_fval, hm100]
    have : (1:ℚ) / 2 ^ 100 ≤ 1 / 10 ^ 22 / 2 := by norm_num
    linarith
  · rw [← abs_fval]
    have : (2:ℚ) ^ (100 : Int) = 2 ^ 100 := by norm_num
    rw [this]
    have : (9007199254740992 : ℚ) * 2 < 2 ^ 100 := by norm_num
    linarith

theorem toUnit_zero_text : ∀ i : Nat, i < 23 →
    formatF (ToUnit 0 ((i : Int) - 8)) (-(((i : Int) - 8) + 8)) = "0" := by decide +kernel

theorem parseDecimal_zero : parseDecimal "0" = some 0 := by
  have h := parseDecimal_signed false (String.ofList (Nat.toDigits 10 0)) ((0 : Nat) * 10 ^ 0)
    (by rw [String.toList_ofList]; simpa using parseUnsigned_padded 0 0)
    (by rw [String.toList_ofList]; exact toDigits_head 0)
  simpa using h

/-- **Text of `ToUnit`.**  For `|a| < 2^52` and a unit exponent `-8 ≤ u ≤ 14`, the `FormatFloat` text printed
by `Format` denotes exactly `a / 10^(u+8)`. -/
theorem format_number_exact (a u : Int) (ha : a.natAbs < 2^52) (hu1 : -8 ≤ u) (hu2 : u ≤ 14) :
    parseDecimal (formatF (ToUnit a u) (-(u + 8))) = some ((a:ℚ) / (10:ℚ) ^ (u + 8)) := by
  by_cases ha0 : a = 0
  · subst ha0
    have := toUnit_zero_text (u + 8).toNat (by omega)
    have e : (((u + 8).toNat : Nat) : Int) - 8 = u := by omega
    rw [e] at this
    rw [this, parseDecimal_zero]; simp
  have hrn := toUnit_isRN a u (by omega) (by omega) hu2
  by_cases hu : u = -8
  · -- precision 0: the integer itself
    subst hu
    have hq : (a:ℚ) / (10:ℚ) ^ ((-8:Int) + 8) = a := by norm_num
    rw [hq] at hrn ⊢
    obtain ⟨hxf, hxv, _⟩ := ofInt_exact a (by omega : a.natAbs < 2^53)
    have hval := isRN_exact hrn ((val_eq_some_iff (ofInt a) a).mpr ⟨hxf, hxv⟩)
    have hfin : isFinite (ToUnit a (-8)) = true := by
      obtain ⟨v, hv, _⟩ := hrn
      exact ((val_eq_some_iff _ v).mp hv).1
    have hneg : isNeg (ToUnit a (-8)) = decide (a < 0) := by
      obtain ⟨v, _, _, _, hs1, hs2⟩ := hrn
      rcases lt_trichotomy a 0 with h | h | h
      · rw [hs1 (by exact_mod_cast h)]; simp [h]
      · exact absurd h ha0
      · rw [hs2 (by exact_mod_cast h)]; simp; omega
    rw [show (-((-8:Int) + 8)) = 0 by norm_num, formatF_int _ hfin a hval, hneg]
    have hstr : toString a.natAbs = String.ofList (Nat.toDigits 10 a.natAbs) := rfl
    rw [hstr]
    have h := parseDecimal_signed (decide (a < 0)) (String.ofList (Nat.toDigits 10 a.natAbs))
      ((a.natAbs : ℚ) * 10 ^ 0)
      (by rw [String.toList_ofList]; simpa using parseUnsigned_padded a.natAbs 0)
      (by rw [String.toList_ofList]; exact toDigits_head _)
    rw [h]
    congr 1
    have := natAbs_cast_signed a
    by_cases hlt : a < 0
    · simp only [hlt, decide_true, if_true] at this ⊢; linarith
    · simp only [hlt, decide_false, Bool.false_eq_true, if_false] at this ⊢; linarith
  · -- shortest digits
    obtain ⟨k, hk⟩ : ∃ k : Nat, u + 8 = (k : Int) := ⟨(u + 8).toNat, by omega⟩
    obtain ⟨hnorm, he⟩ := toUnit_shape a u ha0 (by omega) hu1 hu2
    refine formatF_shortest_exact _ _ (by omega) _ a.natAbs k ?_ ha hrn hnorm he
    rw [hk, zpow_neg, abs_div, Nat.cast_natAbs, abs_of_pos (by positivity : (0:ℚ) < 10 ^ (k : Int))]
    push_cast
    rfl

/-! ### fixed precision on integer-valued floats (units below the satoshi) -/

/-- `FormatFloat(x, 'f', p, 64)` of an integer-valued finite float: the integer, a point and `p` zeros. -/
theorem formatF_fixed_int (x : UInt64) (hx : isFinite x = true) (z : ℤ) (hz : fval x = z) (p : Nat) :
    formatF x (p : Int) = (if isNeg x then "-" else "") ++ fixedStr (z.natAbs * 10 ^ p) p := by
  obtain ⟨hn, hi⟩ := not_nan_inf_of_finite x hx
  obtain ⟨h1, h2⟩ := decodeAbs_of_int x z hz
  unfold formatF
  simp only [hn, hi, Bool.false_eq_true, if_false]
  generalize (decodeAbs x).1 = m at h1 h2 ⊢
  generalize (decodeAbs x).2 = e at h1 h2 ⊢
  have hp : (p : Int) ≥ 0 := by omega
  simp only [hp, if_true, Int.toNat_natCast]
  congr 2
  by_cases hpos : 0 ≤ e
  · rw [if_pos hpos, Nat.shiftLeft_eq, ← h1 hpos]; ring
  · rw [if_neg hpos]
    have hm := h2 (by omega)
    have hnum : m * 10 ^ p = z.natAbs * 10 ^ p * 2 ^ (-e).toNat := by rw [hm]; ring
    have hq : (m * 10 ^ p) >>> (-e).toNat = z.natAbs * 10 ^ p := by
      rw [Nat.shiftRight_eq_div_pow, hnum, Nat.mul_div_cancel _ (Nat.pow_pos (by norm_num))]
    have hr : m * 10 ^ p - (z.natAbs * 10 ^ p) <<< (-e).toNat = 0 := by
      rw [Nat.shiftLeft_eq, hnum]; omega
    have hh : 0 < 1 <<< ((-e).toNat - 1) := by
      rw [Nat.shiftLeft_eq]; exact Nat.mul_pos (by norm_num) (Nat.pow_pos (by norm_num))
    simp only [hq, hr]
    have : ¬ ((decide (0 > 1 <<< ((-e).toNat - 1)) ||
        ((0 == 1 <<< ((-e).toNat - 1)) && (z.natAbs * 10 ^ p % 2 == 1))) = true) := by
      simp; omega
    rw [if_neg this]

theorem toUnit_zero_text_sub : ∀ i : Nat, i < 23 →
    isNeg (ToUnit 0 (-(i : Int) - 8)) = false := by decide +kernel

/-- **Text of `ToUnit` below the satoshi.**  For `-30 ≤ u < -8` the unit value `a·10^-(u+8)` is an integer; as
long as it is below `2^53` in magnitude it is represented exactly and the fixed-precision text (the
integer followed by `-(u+8)` zero decimals) denotes it exactly. -/
theorem format_number_exact_sub (a u : Int) (hu1 : -30 ≤ u) (hu2 : u < -8)
    (hz : a.natAbs * 10 ^ (-(u + 8)).toNat < 2^53) :
    parseDecimal (formatF (ToUnit a u) (-(u + 8))) = some ((a:ℚ) / (10:ℚ) ^ (u + 8)) := by
  obtain ⟨k, hk⟩ : ∃ k : Nat, -(u + 8) = (k : Int) := ⟨(-(u + 8)).toNat, by omega⟩
  have hk' : (-(u + 8)).toNat = k := by omega
  rw [hk'] at hz
  have h10 : 1 ≤ 10 ^ k := Nat.pow_pos (by norm_num)
  have ha : a.natAbs < 2^53 := lt_of_le_of_lt (Nat.le_mul_of_pos_right _ h10) hz
  have hrn := toUnit_isRN a u ha hu1 (by omega)
  -- the exact value is the integer z = a·10^k, a float value
  have hq : (a:ℚ) / (10:ℚ) ^ (u + 8) = ((a * 10 ^ k : Int) : ℚ) := by
    have : u + 8 = -(k : Int) := by omega
    rw [this, zpow_neg, zpow_natCast]; push_cast; field_simp
  rw [hq] at hrn ⊢
  have hzabs : (a * 10 ^ k : Int).natAbs = a.natAbs * 10 ^ k := by
    rw [Int.natAbs_mul, Int.natAbs_pow]; rfl
  obtain ⟨hzf, hzv, _⟩ := ofInt_exact (a * 10 ^ k) (by rw [hzabs]; exact hz)
  have hval := isRN_exact hrn ((val_eq_some_iff _ _).mpr ⟨hzf, hzv⟩)
  have hfin : isFinite (ToUnit a u) = true := by
    obtain ⟨v, hv, _⟩ := hrn
    exact ((val_eq_some_iff _ v).mp hv).1
  have hneg : isNeg (ToUnit a u) = decide (a < 0) := by
    obtain ⟨v, _, _, _, hs1, hs2⟩ := hrn
    have hpos10 : (0:ℚ) < ((10 ^ k : Int) : ℚ) := by push_cast; positivity
    rcases lt_trichotomy a 0 with h | h | h
    · rw [hs1 (by push_cast; exact mul_neg_of_neg_of_pos (by exact_mod_cast h) (by positivity))]; simp [h]
    · subst h
      have := toUnit_zero_text_sub k (by omega)
      have e : -(k : Int) - 8 = u := by omega
      rw [e] at this; rw [this]; simp
    · rw [hs2 (by push_cast; exact mul_pos (by exact_mod_cast h) (by positivity))]; simp; omega
  rw [hk, formatF_fixed_int _ hfin _ hval k, hneg, hzabs]
  have h := parseDecimal_signed (decide (a < 0)) (fixedStr (a.natAbs * 10 ^ k * 10 ^ k) k)
    (((a.natAbs * 10 ^ k * 10 ^ k : Nat) : ℚ) / 10 ^ k) (parseUnsigned_fixedStr _ _) (fixedStr_head _ _)
  rw [h]
  congr 1
  have hs := natAbs_cast_signed a
  have h10q : (0:ℚ) < 10 ^ k := by positivity
  by_cases hlt : a < 0
  · simp only [hlt, decide_true, if_true] at hs ⊢
    push_cast; field_simp; linarith
  · simp only [hlt, decide_false, Bool.false_eq_true, if_false] at hs ⊢
    push_cast; field_simp; linarith

theorem val_two53 : val 0x4340000000000000 = some ((9007199254740992 : Nat) : ℚ) :=
  val_of_checkNat _ _ (by decide +kernel)

/-- the correctly rounded image of an integer is an integer-valued float -/
theorem isRN_int_is_int (z : ℤ) (x : UInt64) (h : IsRN (z : ℚ) x) : ∃ zx : ℤ, fval x = zx := by
  by_cases hz : z.natAbs < 2^53
  · obtain ⟨hzf, hzv, _⟩ := ofInt_exact z hz
    exact ⟨z, isRN_exact h ((val_eq_some_iff _ _).mpr ⟨hzf, hzv⟩)⟩
  · obtain ⟨v, hv, hnear, _, _, _⟩ := h
    obtain ⟨hx, hfv⟩ := (val_eq_some_iff x v).mp hv
    -- |fval x| ≥ 2^53
    have hbig : (9007199254740992 : ℚ) ≤ absval x := by
      rw [← abs_fval, hfv]
      have hzq : (9007199254740992 : ℚ) ≤ |(z:ℚ)| := by
        have : (9007199254740992 : ℤ) ≤ |z| := by rw [Int.abs_eq_natAbs]; omega
        exact_mod_cast this
      rcases le_or_gt 0 z with hpos | hneg
      · have hzq' : (9007199254740992 : ℚ) ≤ z := by
          rwa [abs_of_nonneg (by exact_mod_cast hpos)] at hzq
        have := hnear _ _ val_two53
        rw [abs_of_nonneg (a := (z:ℚ) - ((9007199254740992 : Nat) : ℚ)) (by push_cast; linarith)] at this
        have h1 : (z:ℚ) - v ≤ |(z:ℚ) - v| := le_abs_self _
        have h2 : v ≤ |v| := le_abs_self _
        push_cast at this; linarith
      · have hzq' : (z:ℚ) ≤ -9007199254740992 := by
          rw [abs_of_neg (by exact_mod_cast hneg)] at hzq; linarith
        have := hnear _ _ (val_neg_some _ _ val_two53)
        rw [abs_of_nonpos (a := (z:ℚ) - -((9007199254740992 : Nat) : ℚ)) (by push_cast; linarith)] at this
        have h1 : -((z:ℚ) - v) ≤ |(z:ℚ) - v| := neg_le_abs _
        have h2 : -v ≤ |v| := neg_le_abs _
        push_cast at this; linarith
    obtain ⟨hm53, _⟩ := decodeAbs_bounds x
    have hX : absval x = ((decodeAbs x).1 : ℚ) * 2 ^ (decodeAbs x).2 := rfl
    have he : 0 ≤ (decodeAbs x).2 := by
      by_contra hc
      have h1 : (2:ℚ) ^ (decodeAbs x).2 ≤ 2 ^ (0 : Int) := zpow_le_zpow_right₀ (by norm_num) (by omega)
      have hmq : ((decodeAbs x).1 : ℚ) < 9007199254740992 := by exact_mod_cast hm53
      have hm0 : (0:ℚ) ≤ ((decodeAbs x).1 : ℚ) := by positivity
      rw [zpow_zero] at h1
      rw [hX] at hbig
      nlinarith
    refine ⟨(if isNeg x then -1 else 1) * (((decodeAbs x).1 * 2 ^ (decodeAbs x).2.toNat : Nat) : ℤ), ?_⟩
    have he' : (decodeAbs x).2 = ((decodeAbs x).2.toNat : Int) := by omega
    unfold fval sgnQ
    rw [hX]
    conv_lhs => rw [he', zpow_natCast]
    split <;> push_cast <;> ring

/-- **Text below the satoshi, all amounts.**  For `-30 ≤ u < -8` and `|a| < 2^53` the printed number is the
exact decimal expansion of the float `ToUnit a u` (which is the correctly rounded value of `a·10^-(u+8)`,
`toUnit_isRN`). -/
theorem format_number_sub_float (a u : Int) (ha : a.natAbs < 2^53) (hu1 : -30 ≤ u) (hu2 : u < -8) :
    ∃ v : ℚ, val (ToUnit a u) = some v ∧
      parseDecimal (formatF (ToUnit a u) (-(u + 8))) = some v := by
  obtain ⟨k, hk⟩ : ∃ k : Nat, -(u + 8) = (k : Int) := ⟨(-(u + 8)).toNat, by omega⟩
  have hrn := toUnit_isRN a u ha hu1 (by omega)
  have hq : (a:ℚ) / (10:ℚ) ^ (u + 8) = ((a * 10 ^ k : Int) : ℚ) := by
    have : u + 8 = -(k : Int) := by omega
    rw [this, zpow_neg, zpow_natCast]; push_cast; field_simp
  rw [hq] at hrn
  have hfin : isFinite (ToUnit a u) = true := by
    obtain ⟨v, hv, _⟩ := hrn
    exact ((val_eq_some_iff _ v).mp hv).1
  obtain ⟨zx, hzx⟩ := isRN_int_is_int _ _ hrn
  refine ⟨zx, (val_eq_some_iff _ _).mpr ⟨hfin, hzx⟩, ?_⟩
  rw [hk, formatF_fixed_int _ hfin zx hzx k]
  have h := parseDecimal_signed (isNeg (ToUnit a u)) (fixedStr (zx.natAbs * 10 ^ k) k)
    (((zx.natAbs * 10 ^ k : Nat) : ℚ) / 10 ^ k) (parseUnsigned_fixedStr _ _) (fixedStr_head _ _)
  rw [h]
  congr 1
  have habs : (zx.natAbs : ℚ) = absval (ToUnit a u) := by
    rw [← abs_fval, hzx, Nat.cast_natAbs]; push_cast; rfl
  have hf : fval (ToUnit a u) = sgnQ (ToUnit a u) * absval (ToUnit a u) := rfl
  have h10q : (0:ℚ) < 10 ^ k := by positivity
  rw [← hzx, hf, ← habs]
  unfold sgnQ
  split <;> (push_cast; field_simp)

end Bch.Proofs.Amount
