import Bch.Proofs.F64RoundInt
/-
  Sign symmetry of rounding / multiplication, and agreement of the IEEE order `lt` with the order of values.
-/
namespace Bch.Proofs.F64
open Bch.Prim.F64

/-! ### sign symmetry -/

theorem neg_withSign (sg : Bool) (r : UInt64) (hr : r.toNat < 2^63) :
    (if (!sg) = true then r ||| signMask else r) = neg (if sg = true then r ||| signMask else r) := by
  have hor : (r ||| signMask).toNat = r.toNat + 2^63 := by
    rw [UInt64.toNat_or]
    show r.toNat ||| 2^63 = _
    exact Nat.or_two_pow_eq_add_of_lt hr
  cases sg
  · simp only [Bool.not_false, if_true, Bool.false_eq_true, if_false]
    rw [u64_eq_iff, hor, neg_toNat, if_pos hr]
  · simp only [Bool.not_true, Bool.false_eq_true, if_false, if_true]
    rw [u64_eq_iff, neg_toNat, hor, if_neg (by omega)]; omega

theorem roundScaled_neg (sg : Bool) (M : Nat) (e : Int) (sticky : Bool) :
    roundScaled (!sg) M e sticky = neg (roundScaled sg M e sticky) := by
  rw [roundScaled_eq0, roundScaled_eq0]
  split
  · cases sg <;> decide
  · split
    · cases sg <;> decide
    · simp only []
      apply neg_withSign
      split
      · decide
      · rw [UInt64.toNat_ofNat']
        have : rsBits M e sticky < 2^64 := by omega
        rw [Nat.mod_eq_of_lt this]; omega

theorem mul_neg_left (a b : UInt64) (ha : isFinite a = true) (hb : isFinite b = true) :
    mul (neg a) b = neg (mul a b) := by
  rw [mul_eq_of_finite a b ha hb, mul_eq_of_finite (neg a) b (by rw [isFinite_neg]; exact ha) hb,
    decodeAbs_neg, isNeg_neg, ← roundScaled_neg]
  congr 1
  cases isNeg a <;> cases isNeg b <;> rfl

/-! ### the IEEE order agrees with the order of the values -/

theorem absval_lt_of_bits_lt (a b : UInt64)
    (h : expF a * 2^52 + fracF a < expF b * 2^52 + fracF b) : absval a < absval b := by
  have hfa := (toNat_fields a).2.2.2
  have hfb := (toNat_fields b).2.2.2
  have hFa : (fracF a : ℚ) < 2^52 := by exact_mod_cast hfa
  have hFa0 : (0:ℚ) ≤ fracF a := by positivity
  have hFb0 : (0:ℚ) ≤ fracF b := by positivity
  by_cases hE : expF a = expF b
  · have hF : fracF a < fracF b := by rw [hE] at h; omega
    have hFq : (fracF a : ℚ) < fracF b := by exact_mod_cast hF
    rw [absval_eq, absval_eq, hE]
    split
    · exact mul_lt_mul_of_pos_right hFq (two_zpow_pos _)
    · exact mul_lt_mul_of_pos_right (by push_cast; linarith) (two_zpow_pos _)
  · have hEl : expF a < expF b := by
      by_contra hc
      have : expF b + 1 ≤ expF a := by omega
      have : (expF b + 1) * 2^52 ≤ expF a * 2^52 := Nat.mul_le_mul_right _ this
      omega
    -- absval a < 2^(max (expF a) 1 - 1022) ≤ 2^(expF b - 1023) ≤ absval b
    have hb : (2:ℚ)^((expF b : Int) - 1023) ≤ absval b := by
      rw [absval_eq, if_neg (by omega)]
      have : (2:ℚ)^((expF b : Int) - 1023) = 2^52 * 2^((expF b : Int) - 1075) := by
        rw [show (expF b : Int) - 1023 = 52 + ((expF b : Int) - 1075) by ring,
          zpow_add₀ (by norm_num : (2:ℚ) ≠ 0)]; norm_num
      rw [this]
      exact mul_le_mul_of_nonneg_right (by push_cast; linarith) (two_zpow_pos _).le
    have ha : absval a < (2:ℚ)^((expF b : Int) - 1023) := by
      rw [absval_eq]
      split
      · have : (2:ℚ)^(-1022 : Int) = 2^52 * 2^(-1074 : Int) := by
          rw [show (-1022 : Int) = 52 + (-1074) by norm_num, zpow_add₀ (by norm_num : (2:ℚ) ≠ 0)]; norm_num
        calc (fracF a : ℚ) * 2^(-1074 : Int) < 2^52 * 2^(-1074 : Int) :=
              mul_lt_mul_of_pos_right hFa (two_zpow_pos _)
          _ = 2^(-1022 : Int) := this.symm
          _ ≤ 2^((expF b : Int) - 1023) := zpow_le_zpow_right₀ (by norm_num) (by omega)
      · have : (2:ℚ)^((expF a : Int) - 1022) = 2^53 * 2^((expF a : Int) - 1075) := by
          rw [show (expF a : Int) - 1022 = 53 + ((expF a : Int) - 1075) by ring,
            zpow_add₀ (by norm_num : (2:ℚ) ≠ 0)]; norm_num
        calc ((fracF a + 2^52 : Nat) : ℚ) * 2^((expF a : Int) - 1075)
            < 2^53 * 2^((expF a : Int) - 1075) :=
              mul_lt_mul_of_pos_right (by push_cast; linarith) (two_zpow_pos _)
          _ = 2^((expF a : Int) - 1022) := this.symm
          _ ≤ 2^((expF b : Int) - 1023) := zpow_le_zpow_right₀ (by norm_num) (by omega)
    linarith

theorem ordKey_eq (a : UInt64) :
    ordKey a = if isNeg a then -((expF a * 2^52 + fracF a : Nat) : Int)
      else ((expF a * 2^52 + fracF a : Nat) : Int) := by
  unfold ordKey
  have hf := toNat_fields a
  have : (a &&& absMask).toNat = expF a * 2^52 + fracF a := by rw [absField_eq]; omega
  simp only [this]

/-- IEEE `<` on finite floats is `<` on their values. -/
theorem fval_lt_of_lt (a b : UInt64) (hlt : lt a b = true) : fval a < fval b := by
  unfold lt at hlt
  split at hlt
  · exact absurd hlt (by simp)
  · rw [decide_eq_true_eq, ordKey_eq, ordKey_eq] at hlt
    unfold fval sgnQ
    have ha0 := absval_nonneg a
    have hb0 := absval_nonneg b
    by_cases hna : isNeg a = true <;> by_cases hnb : isNeg b = true <;>
      simp only [hna, hnb, if_true, if_false, Bool.false_eq_true] at hlt ⊢
    · have := absval_lt_of_bits_lt b a (by omega)
      linarith
    · rcases Nat.eq_zero_or_pos (expF b * 2^52 + fracF b) with h0 | h0
      · have := absval_lt_of_bits_lt b a (by omega)
        linarith
      · have hz : expF 0 = 0 ∧ fracF 0 = 0 := by decide
        have h1 := absval_lt_of_bits_lt 0 b (by rw [hz.1, hz.2]; omega)
        have h00 : absval 0 = 0 := absval_signedZero false
        linarith
    · omega
    · have := absval_lt_of_bits_lt a b (by omega)
      linarith

end Bch.Proofs.F64
