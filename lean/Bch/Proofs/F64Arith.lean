import Bch.Proofs.F64Quot
/-
  Correct rounding of the arithmetic operations `mul`, `div`, `ofInt` on finite operands.
-/
namespace Bch.Proofs.F64
open Bch.Prim.F64

theorem not_nan_inf_of_finite (a : UInt64) (h : isFinite a = true) : isNaN a = false ∧ isInf a = false := by
  rw [isFinite_iff] at h
  constructor
  · rw [← Bool.not_eq_true, isNaN_iff]; omega
  · rw [← Bool.not_eq_true, isInf_iff]; omega

theorem finite_iff_not_nan_inf (a : UInt64) : isFinite a = true ↔ isNaN a = false ∧ isInf a = false := by
  refine ⟨not_nan_inf_of_finite a, fun ⟨h1, h2⟩ => ?_⟩
  rw [← Bool.not_eq_true, isNaN_iff] at h1
  rw [← Bool.not_eq_true, isInf_iff] at h2
  rw [isFinite_iff]; omega

theorem mul_eq_of_finite (a b : UInt64) (ha : isFinite a = true) (hb : isFinite b = true) :
    mul a b = roundScaled (isNeg a != isNeg b) ((decodeAbs a).1 * (decodeAbs b).1)
      ((decodeAbs a).2 + (decodeAbs b).2) false := by
  obtain ⟨ha1, ha2⟩ := not_nan_inf_of_finite a ha
  obtain ⟨hb1, hb2⟩ := not_nan_inf_of_finite b hb
  unfold mul
  simp [ha1, ha2, hb1, hb2]

theorem sign_mul (a b : UInt64) :
    (if (isNeg a != isNeg b) = true then (-1:ℚ) else 1) = sgnQ a * sgnQ b := by
  unfold sgnQ
  cases isNeg a <;> cases isNeg b <;> simp

theorem fval_mul_fval (a b : UInt64) :
    fval a * fval b = (if (isNeg a != isNeg b) = true then (-1:ℚ) else 1) * (absval a * absval b) := by
  rw [sign_mul]; unfold fval; ring

theorem signed_eq (sg : Bool) (qa : ℚ) : (if sg = true then -qa else qa) = (if sg = true then (-1:ℚ) else 1) * qa := by
  cases sg <;> simp

theorem mul_rounded (a b : UInt64) (ha : isFinite a = true) (hb : isFinite b = true)
    (hfin : isFinite (mul a b) = true) :
    Rounded (isNeg a != isNeg b) (absval a * absval b) (mul a b) := by
  rw [mul_eq_of_finite a b ha hb] at hfin ⊢
  have hq : absval a * absval b =
      (((decodeAbs a).1 * (decodeAbs b).1 : Nat) : ℚ) * 2^((decodeAbs a).2 + (decodeAbs b).2) := by
    unfold absval
    rw [zpow_add₀ (by norm_num : (2:ℚ) ≠ 0)]; push_cast; ring
  by_cases hM : (decodeAbs a).1 * (decodeAbs b).1 = 0
  · rw [hM] at hq ⊢
    rw [roundScaled_zero, hq]
    exact signedZero_rounded _ _ (by simp) (by simp)
  · have h2e := two_zpow_pos ((decodeAbs a).2 + (decodeAbs b).2)
    refine roundScaled_rounded _ _ _ false hM _ (le_of_eq hq.symm) ?_ ?_ (by simp) hfin
    · rw [hq]; nlinarith
    · simp [hq]

theorem mul_finite_of_lt (a b : UInt64) (ha : isFinite a = true) (hb : isFinite b = true)
    (hlt : absval a * absval b < 2^1023) : isFinite (mul a b) = true := by
  rw [mul_eq_of_finite a b ha hb]
  have hq : absval a * absval b =
      (((decodeAbs a).1 * (decodeAbs b).1 : Nat) : ℚ) * 2^((decodeAbs a).2 + (decodeAbs b).2) := by
    unfold absval
    rw [zpow_add₀ (by norm_num : (2:ℚ) ≠ 0)]; push_cast; ring
  by_cases hM : (decodeAbs a).1 * (decodeAbs b).1 = 0
  · rw [hM, roundScaled_zero, isFinite_signedZero]
  · have h2e := two_zpow_pos ((decodeAbs a).2 + (decodeAbs b).2)
    refine (roundScaled_spec _ _ _ false hM _ (le_of_eq hq.symm) ?_ ?_ (by simp)).1 hlt
    · rw [hq]; nlinarith
    · simp [hq]

/-- **IEEE multiplication is correctly rounded.** -/
theorem mul_isRN (a b : UInt64) (ha : isFinite a = true) (hb : isFinite b = true)
    (hfin : isFinite (mul a b) = true) : IsRN (fval a * fval b) (mul a b) := by
  have := (mul_rounded a b ha hb hfin).isRN
  rwa [signed_eq, ← fval_mul_fval] at this

theorem Rounded.signed_relerr {sg : Bool} {qa : ℚ} {x : UInt64} (h : Rounded sg qa x)
    (hq : (2:ℚ)^(-1022 : Int) ≤ qa) :
    |fval x - (if sg = true then (-1:ℚ) else 1) * qa| ≤ qa / 2^53 := by
  have h1 := h.relerr hq
  rw [h.fval_eq, ← mul_sub, abs_mul, abs_sub_comm]
  cases sg <;> simpa using h1

theorem mul_relerr (a b : UInt64) (ha : isFinite a = true) (hb : isFinite b = true)
    (hfin : isFinite (mul a b) = true) (hq : (2:ℚ)^(-1022 : Int) ≤ |fval a * fval b|) :
    |fval (mul a b) - fval a * fval b| ≤ |fval a * fval b| / 2^53 := by
  have habs : |fval a * fval b| = absval a * absval b := by rw [abs_mul, abs_fval, abs_fval]
  rw [habs] at hq ⊢
  have := (mul_rounded a b ha hb hfin).signed_relerr hq
  rwa [← fval_mul_fval] at this


/-! ### division -/

theorem decodeAbs_fst_eq_zero_iff (a : UInt64) : (decodeAbs a).1 = 0 ↔ isZero a = true := by
  rw [decodeAbs_eq, isZero_iff]
  split <;> simp <;> omega

theorem div_eq_of_finite (a b : UInt64) (ha : isFinite a = true) (hb : isFinite b = true)
    (hbz : isZero b = false) :
    div a b = roundQuot (isNeg a != isNeg b) (decodeAbs a).1 (decodeAbs b).1
      ((decodeAbs a).2 - (decodeAbs b).2) := by
  obtain ⟨ha1, ha2⟩ := not_nan_inf_of_finite a ha
  obtain ⟨hb1, hb2⟩ := not_nan_inf_of_finite b hb
  unfold div
  simp [ha1, ha2, hb1, hb2, hbz]

theorem roundQuot_zero (sg : Bool) (d : Nat) (e : Int) : roundQuot sg 0 d e = signedZero sg := rfl

theorem absval_div (a b : UInt64) :
    absval a / absval b =
      ((decodeAbs a).1 : ℚ) / ((decodeAbs b).1 : ℚ) * 2^((decodeAbs a).2 - (decodeAbs b).2) := by
  unfold absval
  rw [zpow_sub₀ (by norm_num : (2:ℚ) ≠ 0)]
  have := two_zpow_pos (decodeAbs b).2
  by_cases h : ((decodeAbs b).1 : ℚ) = 0
  · simp [h]
  · field_simp

theorem div_rounded (a b : UInt64) (ha : isFinite a = true) (hb : isFinite b = true)
    (hbz : isZero b = false) (hfin : isFinite (div a b) = true) :
    Rounded (isNeg a != isNeg b) (absval a / absval b) (div a b) := by
  rw [div_eq_of_finite a b ha hb hbz] at hfin ⊢
  have hd : (decodeAbs b).1 ≠ 0 := by
    rw [Ne, decodeAbs_fst_eq_zero_iff, hbz]; simp
  rw [absval_div]
  by_cases hn : (decodeAbs a).1 = 0
  · rw [hn, roundQuot_zero]
    exact signedZero_rounded _ _ (by simp) (by simp)
  · exact roundQuot_rounded _ _ _ _ hn hd hfin

theorem div_finite_of_lt (a b : UInt64) (ha : isFinite a = true) (hb : isFinite b = true)
    (hbz : isZero b = false) (hlt : absval a / absval b < 2^1023) : isFinite (div a b) = true := by
  rw [div_eq_of_finite a b ha hb hbz]
  have hd : (decodeAbs b).1 ≠ 0 := by
    rw [Ne, decodeAbs_fst_eq_zero_iff, hbz]; simp
  rw [absval_div] at hlt
  by_cases hn : (decodeAbs a).1 = 0
  · rw [hn, roundQuot_zero, isFinite_signedZero]
  · exact roundQuot_finite _ _ _ _ hn hd hlt

theorem fval_div_fval (a b : UInt64) :
    fval a / fval b = (if (isNeg a != isNeg b) = true then (-1:ℚ) else 1) * (absval a / absval b) := by
  rw [sign_mul]; unfold fval sgnQ
  cases isNeg a <;> cases isNeg b <;> simp [neg_div, div_neg]

/-- **IEEE division is correctly rounded.** -/
theorem div_isRN (a b : UInt64) (ha : isFinite a = true) (hb : isFinite b = true)
    (hbz : isZero b = false) (hfin : isFinite (div a b) = true) : IsRN (fval a / fval b) (div a b) := by
  have := (div_rounded a b ha hb hbz hfin).isRN
  rwa [signed_eq, ← fval_div_fval] at this

theorem div_relerr (a b : UInt64) (ha : isFinite a = true) (hb : isFinite b = true)
    (hbz : isZero b = false) (hfin : isFinite (div a b) = true)
    (hq : (2:ℚ)^(-1022 : Int) ≤ |fval a / fval b|) :
    |fval (div a b) - fval a / fval b| ≤ |fval a / fval b| / 2^53 := by
  have habs : |fval a / fval b| = absval a / absval b := by rw [abs_div, abs_fval, abs_fval]
  rw [habs] at hq ⊢
  have := (div_rounded a b ha hb hbz hfin).signed_relerr hq
  rwa [← fval_div_fval] at this

/-! ### int → float -/

theorem ofInt_zero : ofInt 0 = 0 := by decide

theorem ofInt_rounded (i : Int) (hfin : isFinite (ofInt i) = true) :
    Rounded (decide (i < 0)) (i.natAbs : ℚ) (ofInt i) := by
  unfold ofInt at hfin ⊢
  by_cases hM : i.natAbs = 0
  · rw [hM, roundScaled_zero]
    exact signedZero_rounded _ _ (by simp) (by simp)
  · refine roundScaled_rounded _ _ 0 false hM _ (by simp) (by simp) (by simp) (by simp) hfin

theorem ofInt_finite (i : Int) (h : i.natAbs < 2^1023) : isFinite (ofInt i) = true := by
  unfold ofInt
  by_cases hM : i.natAbs = 0
  · rw [hM, roundScaled_zero, isFinite_signedZero]
  · refine (roundScaled_spec _ _ 0 false hM (i.natAbs : ℚ) (by simp) (by simp) (by simp) (by simp)).1 ?_
    exact_mod_cast h

theorem natAbs_cast_signed (i : Int) :
    (if decide (i < 0) = true then (-1:ℚ) else 1) * (i.natAbs : ℚ) = (i : ℚ) := by
  by_cases h : i < 0
  · simp only [h, decide_true, if_true]
    have : (i.natAbs : ℚ) = -(i : ℚ) := by rw [Nat.cast_natAbs, abs_of_neg h]; push_cast; rfl
    rw [this]; ring
  · simp only [h, decide_false, Bool.false_eq_true, if_false]
    have : (i.natAbs : ℚ) = (i : ℚ) := by rw [Nat.cast_natAbs, abs_of_nonneg (by omega)]
    rw [this]; ring

/-- `float64(int64)` is correctly rounded. -/
theorem ofInt_isRN (i : Int) (hfin : isFinite (ofInt i) = true) : IsRN (i : ℚ) (ofInt i) := by
  have := (ofInt_rounded i hfin).isRN
  rwa [signed_eq, natAbs_cast_signed] at this

set_option exponentiation.threshold 1100 in
/-- integers below `2^53` in magnitude convert exactly -/
theorem ofInt_exact (i : Int) (h : i.natAbs < 2^53) :
    isFinite (ofInt i) = true ∧ fval (ofInt i) = (i : ℚ) ∧ isNeg (ofInt i) = decide (i < 0) := by
  have h1023 : (2:Nat)^53 ≤ 2^1023 := Nat.pow_le_pow_right (Nat.le_succ 1) (Nat.le_of_ble_eq_true rfl)
  have hfin : isFinite (ofInt i) = true := ofInt_finite i (Nat.lt_of_lt_of_le h h1023)
  refine ⟨hfin, ?_, ?_⟩
  · by_cases hM : i.natAbs = 0
    · have : i = 0 := by omega
      subst this; rw [ofInt_zero]; show fval (signedZero false) = _; rw [fval_signedZero]; simp
    · unfold ofInt at hfin ⊢
      obtain ⟨h1, _, _, h4⟩ := roundScaled_err (decide (i < 0)) i.natAbs 0 false hM (i.natAbs : ℚ)
        (by simp) (by simp) (by simp) (by simp) hfin
      have hU : rsU i.natAbs 0 ≤ 0 := by
        obtain ⟨_, _, hb⟩ := bitLen_spec i.natAbs hM
        have : bitLen i.natAbs ≤ 53 := by
          by_contra hc
          have : 2^53 ≤ 2^(bitLen i.natAbs - 1) := Nat.pow_le_pow_right (by norm_num) (by omega)
          have := (bitLen_spec i.natAbs hM).2.1
          omega
        unfold rsU; omega
      rw [h1, h4 hU, natAbs_cast_signed]
  · by_cases hM : i.natAbs = 0
    · have : i = 0 := by omega
      subst this; decide
    · unfold ofInt at hfin ⊢
      exact ((roundScaled_spec (decide (i < 0)) i.natAbs 0 false hM (i.natAbs : ℚ)
        (by simp) (by simp) (by simp) (by simp)).2 hfin).1

end Bch.Proofs.F64
